(* JASPAR / JASPAR 2016 readers over error streams (IoErr.v):
   1. on error-free streams they are the readers of IoJaspar.v;
   2. chunk independence up to the first error (when Reader::new's own read succeeds). *)
From Coq Require Import List NArith Bool Arith Lia.
From LMBase Require Import Res.
From LMIo Require Import GenIoAbc IoBase IoNom IoJaspar IoUniprobe IoBaseProofs IoErr IoErrUProofs IoErrJBase.
Import ListNotations.

Definition jlift (st : jstate) : jstate_e :=
  {| ebuf := jbuf st; estart := jstart st; estr := of_stream (jstream st) |}.

(* ---------- PART 1: restriction to error-free streams ---------- *)

(* next() depends on its stream only through what read_until returns *)
Lemma j_next_g_irrelevant : forall precord adv guard cap b st s1 s2 r t1 t2,
  read_until 62 s1 = (r, t1) -> read_until 62 s2 = (r, t2) ->
  let a := j_next_g precord adv guard cap {| jbuf := b; jstart := st; jstream := s1 |} in
  let c := j_next_g precord adv guard cap {| jbuf := b; jstart := st; jstream := s2 |} in
  snd a = snd c /\ jbuf (fst a) = jbuf (fst c) /\ jstart (fst a) = jstart (fst c).
Proof.
  intros precord adv guard cap b st s1 s2 r t1 t2 H1 H2. cbv zeta.
  unfold j_next_g. cbn [jstream jbuf jstart]. rewrite H1, H2.
  repeat match goal with
         | |- context [match ?x with _ => _ end] => destruct x
         end; cbn [fst snd jbuf jstart]; repeat split; reflexivity.
Qed.

Lemma j_next_e_g_of_stream : forall guard precord cap st, wf_stream (jstream st) ->
  j_next_e_g guard precord cap (jlift st) =
  (jlift (fst (j_next_g precord false guard cap st)), snd (j_next_g precord false guard cap st)).
Proof.
  intros guard precord cap [b start s] H. cbn [jstream] in H.
  unfold j_next_e_g, jlift. cbn [estr ebuf estart jbuf jstart jstream].
  pose proof (read_until_e_shape 62 (of_stream s) (wf_of_stream s H)) as Sh.
  rewrite read_until_e_of_stream in *. cbn [fst snd] in Sh. specialize (Sh eq_refl).
  destruct (read_until 62 s) as [r s'] eqn:E. cbn [fst snd] in *.
  assert (read_until 62 (replay_stream r (negb (is_nil (of_stream s')))) =
          (r, if negb (is_nil (of_stream s')) then [[62%N]] else [])) as Rp.
  { apply read_until_replay. destruct Sh as [Sh|[Hn Hs]]; [left; exact Sh|right].
    split; [exact Hn|]. rewrite Hs. reflexivity. }
  pose proof (j_next_g_irrelevant precord false guard cap b start _ _ r _ _ Rp E) as L0.
  cbv zeta in L0. destruct L0 as [Lo [Lb Ls]].
  pose proof (j_next_g_stream precord false guard cap {| jbuf := b; jstart := start; jstream := s |}) as St.
  cbn [jstream] in St. rewrite E in St. cbn [snd] in St.
  destruct (j_next_g precord false guard cap
              {| jbuf := b; jstart := start;
                 jstream := replay_stream r (negb (is_nil (of_stream s'))) |}) as [st1 o1].
  cbn [fst snd] in *. rewrite Lo, Lb, Ls, St. reflexivity.
Qed.

Lemma j_run_e_g_of_stream : forall precord fuel stop caps k st, wf_stream (jstream st) ->
  j_run_e_g gen_jaspar_slice_guard precord fuel stop caps k (jlift st) =
  j_run precord false fuel stop caps k st.
Proof.
  intros precord. induction fuel as [|fuel IH]; intros stop caps k st H; [reflexivity|].
  cbn [j_run_e_g j_run]. unfold j_next. rewrite (j_next_e_g_of_stream _ _ _ _ H).
  pose proof (j_next_g_stream precord false gen_jaspar_slice_guard (caps k) st) as St.
  destruct (j_next_g precord false gen_jaspar_slice_guard (caps k) st) as [st' o].
  cbn [fst snd] in *.
  assert (wf_stream (jstream st')) as H' by (rewrite St; apply read_until_wf; exact H).
  destruct o as [[rc|]|e|p|]; try reflexivity.
  - rewrite (IH _ _ _ _ H'). reflexivity.
  - destruct stop; [reflexivity|]. rewrite (IH _ _ _ _ H'). reflexivity.
Qed.

Lemma j_run_e_of_stream : forall precord fuel stop caps k st, wf_stream (jstream st) ->
  j_run_e precord fuel stop caps k (jlift st) = j_run precord false fuel stop caps k st.
Proof. exact j_run_e_g_of_stream. Qed.

(* Reader::new *)
Lemma j_new_e_of_stream : forall U s,
  j_new_e U 1 (of_stream s) =
  jlift {| jbuf := fst (read_until 62 s); jstart := length (fst (read_until 62 s)) - 1;
           jstream := snd (read_until 62 s) |}.
Proof.
  intros U s. unfold j_new_e. rewrite read_until_e_of_stream. reflexivity.
Qed.

Lemma j_read_e_of_stream : forall U precord caps s, wf_stream s ->
  j_read_e U 1 precord caps (of_stream s) = j_read precord caps s.
Proof.
  intros U precord caps s H. unfold j_read_e, j_read_e_g, j_read, j_new.
  rewrite j_new_e_of_stream, data_bytes_of_stream.
  pose proof (read_until_wf 62 s H) as W.
  destruct (read_until 62 s) as [r s']. cbn [fst snd] in *.
  apply j_run_e_g_of_stream. exact W.
Qed.

Lemma j_calls_e_of_stream : forall U precord calls caps s, wf_stream s ->
  j_calls_e U 1 precord calls caps (of_stream s) = j_calls precord calls caps s.
Proof.
  intros U precord calls caps s H. unfold j_calls_e, j_calls_e_g, j_calls, j_new.
  rewrite j_new_e_of_stream.
  pose proof (read_until_wf 62 s H) as W.
  destruct (read_until 62 s) as [r s']. cbn [fst snd] in *.
  rewrite j_run_e_g_of_stream; [reflexivity|exact W].
Qed.

Theorem jaspar_read_e_of_stream : forall caps s, wf_stream s ->
  jaspar_read_e caps (of_stream s) = jaspar_read caps s.
Proof. intros caps s H. exact (j_read_e_of_stream _ _ caps s H). Qed.

Theorem jaspar16_read_e_of_stream : forall A caps s, wf_stream s ->
  jaspar16_read_e A caps (of_stream s) = jaspar16_read A caps s.
Proof. intros A caps s H. exact (j_read_e_of_stream _ _ caps s H). Qed.

Theorem jaspar_calls_e_of_stream : forall calls caps s, wf_stream s ->
  jaspar_calls_e calls caps (of_stream s) = j_calls (j_record false) calls caps s.
Proof. intros calls caps s H. exact (j_calls_e_of_stream _ _ calls caps s H). Qed.

Theorem jaspar16_calls_e_of_stream : forall A calls caps s, wf_stream s ->
  jaspar16_calls_e A calls caps (of_stream s) = j_calls (j16_record A) calls caps s.
Proof. intros A calls caps s H. exact (j_calls_e_of_stream _ _ calls caps s H). Qed.

(* ---------- PART 2: chunk independence up to the first error ---------- *)

Lemma of_stream_nil : forall s, of_stream s = [] -> s = [].
Proof. intros [|c s] H; [reflexivity|discriminate]. Qed.

Lemma same_until_error_nil : forall es1 es2, same_until_error es1 es2 -> (es1 = [] <-> es2 = []).
Proof.
  intros es1 es2 (s1 & s2 & t1 & t2 & -> & -> & H1 & H2 & E & T). split; intros Z.
  - apply app_eq_nil in Z. destruct Z as [Z1 Z2]. apply of_stream_nil in Z1. subst s1 t1.
    destruct T as [[_ ->]|(t1' & t2' & C & _)]; [|discriminate].
    cbn in E. symmetry in E. apply (wf_concat_nil s2 H2) in E. subst s2. reflexivity.
  - apply app_eq_nil in Z. destruct Z as [Z1 Z2]. apply of_stream_nil in Z1. subst s2 t2.
    destruct T as [[-> _]|(t1' & t2' & _ & C)]; [|discriminate].
    cbn in E. apply (wf_concat_nil s1 H1) in E. subst s1. reflexivity.
Qed.

Lemma same_until_error_is_nil : forall es1 es2, same_until_error es1 es2 -> is_nil es1 = is_nil es2.
Proof.
  intros es1 es2 H. destruct (same_until_error_nil es1 es2 H) as [Sa Sb].
  destruct es1 as [|a1 l1], es2 as [|a2 l2]; try reflexivity.
  - specialize (Sa eq_refl). discriminate.
  - specialize (Sb eq_refl). discriminate.
Qed.

(* one next() on related streams: same outcome, same buffer and start; the streams stay related
   whenever the read itself succeeded *)
Lemma j_next_e_g_same_read : forall guard precord cap b st es1 es2, same_until_error es1 es2 ->
  let a := j_next_e_g guard precord cap {| ebuf := b; estart := st; estr := es1 |} in
  let c := j_next_e_g guard precord cap {| ebuf := b; estart := st; estr := es2 |} in
  snd a = snd c /\ ebuf (fst a) = ebuf (fst c) /\ estart (fst a) = estart (fst c) /\
  (snd (fst (read_until_e 62 es1)) = false -> same_until_error (estr (fst a)) (estr (fst c))) /\
  (snd (fst (read_until_e 62 es1)) = true -> snd a = Err EIo).
Proof.
  intros guard precord cap b st es1 es2 H. cbv zeta.
  destruct (read_until_e_same 62 es1 es2 H) as [E R].
  unfold j_next_e_g. cbn [estr ebuf estart].
  destruct (read_until_e 62 es1) as [[r1 e1] u1]. destruct (read_until_e 62 es2) as [[r2 e2] u2].
  cbn [fst snd] in *. injection E as -> ->.
  destruct e2.
  - cbn [fst snd ebuf estart estr]. repeat split; try reflexivity. intros C; discriminate.
  - specialize (R eq_refl). rewrite (same_until_error_is_nil u1 u2 R).
    destruct (j_next_g precord false guard cap
                {| jbuf := b; jstart := st; jstream := replay_stream r2 (negb (is_nil u2)) |}) as [st' o].
    cbn [fst snd ebuf estart estr]. repeat split; try reflexivity; [intros _; exact R|intros C; discriminate].
Qed.

Lemma j_next_e_g_same : forall guard precord cap b st es1 es2, same_until_error es1 es2 ->
  let a := j_next_e_g guard precord cap {| ebuf := b; estart := st; estr := es1 |} in
  let c := j_next_e_g guard precord cap {| ebuf := b; estart := st; estr := es2 |} in
  snd a = snd c /\ ebuf (fst a) = ebuf (fst c) /\ estart (fst a) = estart (fst c) /\
  ((forall e, snd a <> Err e) -> same_until_error (estr (fst a)) (estr (fst c))).
Proof.
  intros guard precord cap b st es1 es2 H. cbv zeta.
  pose proof (j_next_e_g_same_read guard precord cap b st es1 es2 H) as L. cbv zeta in L.
  destruct L as [Lo [Lb [Ls [Lr Le]]]]. repeat split; try assumption.
  intros Hne. destruct (snd (fst (read_until_e 62 es1))) eqn:Fl.
  - exfalso. exact (Hne EIo (Le eq_refl)).
  - exact (Lr eq_refl).
Qed.

Lemma j_run_e_g_same : forall guard precord caps fuel k b st es1 es2, same_until_error es1 es2 ->
  j_run_e_g guard precord fuel true caps k {| ebuf := b; estart := st; estr := es1 |} =
  j_run_e_g guard precord fuel true caps k {| ebuf := b; estart := st; estr := es2 |}.
Proof.
  intros guard precord caps. induction fuel as [|fuel IH]; intros k b st es1 es2 H; [reflexivity|].
  cbn [j_run_e_g].
  pose proof (j_next_e_g_same guard precord (caps k) b st es1 es2 H) as L. cbv zeta in L.
  destruct (j_next_e_g guard precord (caps k) {| ebuf := b; estart := st; estr := es1 |}) as [[b1 st1 u1] o1].
  destruct (j_next_e_g guard precord (caps k) {| ebuf := b; estart := st; estr := es2 |}) as [[b2 st2 u2] o2].
  cbn [fst snd ebuf estart estr] in L. destruct L as [<- [<- [<- Lr]]].
  destruct o1 as [[rc|]|e|p|]; try reflexivity.
  f_equal. apply IH. apply Lr. intros e C. discriminate.
Qed.

Theorem jaspar_same_until_error : forall guard U S precord fuel caps es1 es2,
  same_until_error es1 es2 ->
  snd (fst (read_until_e 62 es1)) = false ->
  j_run_e_g guard precord fuel true caps 0 (j_new_e U S es1) =
  j_run_e_g guard precord fuel true caps 0 (j_new_e U S es2).
Proof.
  intros guard U S precord fuel caps es1 es2 H Fl.
  destruct (read_until_e_same 62 es1 es2 H) as [E R]. specialize (R Fl).
  unfold j_new_e.
  destruct (read_until_e 62 es1) as [[r1 e1] u1]. destruct (read_until_e 62 es2) as [[r2 e2] u2].
  cbn [fst snd] in *. injection E as -> ->.
  apply j_run_e_g_same. exact R.
Qed.

(* the whole-file readers: same outcomes for every fuel, hence in particular ... the fuels of
   j_read_e_g differ (they count the data after the error too), so the statement is per fuel *)
Corollary jaspar_read_same_until_error : forall U S precord fuel caps es1 es2,
  same_until_error es1 es2 ->
  snd (fst (read_until_e 62 es1)) = false ->
  j_run_e precord fuel true caps 0 (j_new_e U S es1) = j_run_e precord fuel true caps 0 (j_new_e U S es2).
Proof. intros U S precord. exact (jaspar_same_until_error gen_jaspar_slice_guard U S precord). Qed.
