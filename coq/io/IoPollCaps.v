(* The polling consumer does not depend on the capacity oracle: what a next() of the JASPAR readers returns
   and what stays pending (the buffer after `start`) are functions of the pending bytes and of the stream,
   whatever the compaction test `start > capacity / 2` decides.  (IoAbs.compaction_transparent says this for
   the consumer that stops at the first error on error-free streams; here: event streams, any number of polls.) *)
From Coq Require Import List NArith Bool Arith Lia.
From LMBase Require Import Res.
From LMIo Require Import GenIoAbc IoBase IoNom IoJaspar IoPrint IoBaseProofs IoErr IoErrUProofs IoPoll.
Import ListNotations.

Lemma skipn_app_le : forall {T} n (a b : list T), n <= length a -> skipn n (a ++ b) = skipn n a ++ b.
Proof.
  intros T n a b H. rewrite skipn_app. replace (n - length a) with 0 by lia. reflexivity.
Qed.

Lemma skipn_plus : forall {T} a c (l : list T), skipn (a + c) l = skipn c (skipn a l).
Proof.
  intros T a c l. revert l. induction a as [|a IH]; intros l; [reflexivity|].
  destruct l as [|x l]; [destruct c; reflexivity|]. cbn [Nat.add skipn]. apply IH.
Qed.

Definition jpend (st : jstate) : list N := skipn (jstart st) (jbuf st).

Lemma j_next_g_pending : forall precord guard cap1 cap2 b1 s1 b2 s2 strm,
  s1 <= length b1 -> s2 <= length b2 -> skipn s1 b1 = skipn s2 b2 ->
  let x1 := j_next_g precord false guard cap1 {| jbuf := b1; jstart := s1; jstream := strm |} in
  let x2 := j_next_g precord false guard cap2 {| jbuf := b2; jstart := s2; jstream := strm |} in
  snd x1 = snd x2 /\ jpend (fst x1) = jpend (fst x2) /\
  jstart (fst x1) <= length (jbuf (fst x1)) /\ jstart (fst x2) <= length (jbuf (fst x2)) /\
  jstream (fst x1) = jstream (fst x2).
Proof.
  intros precord guard cap1 cap2 b1 s1 b2 s2 strm H1 H2 HP. cbv zeta. unfold j_next_g, jpend.
  cbn [jstream jstart jbuf]. destruct (read_until 62 strm) as [r s']. cbn [fst snd].
  set (P := skipn s1 b1) in *.
  assert (length P = length b1 - s1) as LP1 by (unfold P; apply skipn_length).
  assert (length P = length b2 - s2) as LP2 by (rewrite HP; apply skipn_length).
  assert (skipn s1 (b1 ++ r) = P ++ r) as E1 by (unfold P; apply skipn_app_le; exact H1).
  assert (skipn s2 (b2 ++ r) = P ++ r) as E2 by (rewrite HP; apply skipn_app_le; exact H2).
  assert (length (b1 ++ r) = s1 + length P + length r) as L1 by (rewrite app_length; lia).
  assert (length (b2 ++ r) = s2 + length P + length r) as L2 by (rewrite app_length; lia).
  assert ((s1 <=? length (b1 ++ r)) = true) as T1 by (apply Nat.leb_le; lia).
  assert ((s2 <=? length (b2 ++ r)) = true) as T2 by (apply Nat.leb_le; lia).
  assert ((s1 + length r <? length (b1 ++ r)) = (0 <? length P)) as C1.
  { destruct (Nat.ltb_spec 0 (length P)); [apply Nat.ltb_lt|apply Nat.ltb_ge]; lia. }
  assert ((s2 + length r <? length (b2 ++ r)) = (0 <? length P)) as C2.
  { destruct (Nat.ltb_spec 0 (length P)); [apply Nat.ltb_lt|apply Nat.ltb_ge]; lia. }
  rewrite T1, T2, C1, C2, E1, E2.
  set (S := if length r =? 0 then Ok (P ++ r)
            else if 0 <? length P then Ok (firstn (length r + 1) (P ++ r))
                 else if guard then Ok (P ++ r) else Panic 32).
  assert (forall bytes, S = Ok bytes -> length bytes <= length P + length r) as HS.
  { intros bytes E. unfold S in E.
    destruct (length r =? 0); [injection E as <-; rewrite app_length; lia|].
    destruct (0 <? length P); [injection E as <-; rewrite firstn_length, app_length; lia|].
    destruct guard; [injection E as <-; rewrite app_length; lia|discriminate E]. }
  assert (forall o : res (option (record N)),
            snd ({| jbuf := b1 ++ r; jstart := s1; jstream := s' |}, o) = snd ({| jbuf := b2 ++ r; jstart := s2; jstream := s' |}, o) /\
            skipn s1 (b1 ++ r) = skipn s2 (b2 ++ r) /\ s1 <= length (b1 ++ r) /\ s2 <= length (b2 ++ r) /\ s' = s') as Same.
  { intros o. rewrite E1, E2. repeat split; lia. }
  destruct S as [bytes|e|k|] eqn:ES; try (cbn [fst snd jbuf jstart jstream]; apply Same).
  specialize (HS bytes eq_refl).
  destruct (utf8_decode bytes) as [text|]; [|cbn [fst snd jbuf jstart jstream]; apply Same].
  destruct ((length r =? 0) && is_nil (trim text)); [cbn [fst snd jbuf jstart jstream]; apply Same|].
  destruct (precord text) as [rest n' rec| | | |]; try (cbn [fst snd jbuf jstart jstream]; apply Same).
  destruct (str_len rest <=? length bytes) eqn:T; [|cbn [fst snd jbuf jstart jstream]; apply Same].
  apply Nat.leb_le in T.
  set (c := length bytes - str_len rest).
  assert (c <= length P + length r) as Lc by (unfold c; lia).
  assert ((s1 + c <=? length (b1 ++ r)) = true) as U1 by (apply Nat.leb_le; lia).
  assert ((s2 + c <=? length (b2 ++ r)) = true) as U2 by (apply Nat.leb_le; lia).
  assert (skipn (s1 + c) (b1 ++ r) = skipn c (P ++ r)) as K1 by (rewrite skipn_plus, E1; reflexivity).
  assert (skipn (s2 + c) (b2 ++ r) = skipn c (P ++ r)) as K2 by (rewrite skipn_plus, E2; reflexivity).
  rewrite U1, U2.
  destruct (cap1 / 2 <? s1 + c), (cap2 / 2 <? s2 + c); cbn [fst snd jbuf jstart jstream skipn];
    rewrite ?K1, ?K2, ?skipn_length; repeat split; lia.
Qed.

Definition epend (st : jstate_e) : list N := skipn (estart st) (ebuf st).

Definition same_pending (a b : jstate_e) : Prop :=
  estr a = estr b /\ epend a = epend b /\ estart a <= length (ebuf a) /\ estart b <= length (ebuf b).

Lemma j_next_e_g_pending : forall guard precord cap1 cap2 a b, same_pending a b ->
  snd (j_next_e_g guard precord cap1 a) = snd (j_next_e_g guard precord cap2 b) /\
  same_pending (fst (j_next_e_g guard precord cap1 a)) (fst (j_next_e_g guard precord cap2 b)).
Proof.
  intros guard precord cap1 cap2 [b1 s1 es1] [b2 s2 es2] [Es [Ep [H1 H2]]].
  unfold epend in Ep. cbn [estr estart ebuf] in *. subst es2.
  unfold j_next_e_g. cbn [estr estart ebuf].
  destruct (read_until_e 62 es1) as [[r e] es']. destruct e.
  - cbn [fst snd]. split; [reflexivity|]. unfold same_pending, epend. cbn [estr estart ebuf].
    rewrite !skipn_app_le by assumption. rewrite Ep, !app_length. repeat split; lia.
  - pose proof (j_next_g_pending precord guard cap1 cap2 b1 s1 b2 s2
                  (replay_stream r (negb (is_nil es'))) H1 H2 Ep) as L. cbv zeta in L.
    destruct (j_next_g precord false guard cap1 _) as [x1 o1].
    destruct (j_next_g precord false guard cap2 _) as [x2 o2].
    cbn [fst snd] in *. destruct L as [Lo [Lp [La [Lb _]]]].
    split; [exact Lo|]. unfold same_pending, epend. cbn [estr estart ebuf]. unfold jpend in Lp.
    repeat split; assumption.
Qed.

Lemma j_polls_e_g_pending : forall guard precord n caps1 caps2 k1 k2 a b, same_pending a b ->
  j_polls_e_g guard precord n caps1 k1 a = j_polls_e_g guard precord n caps2 k2 b.
Proof.
  intros guard precord. induction n as [|n IH]; intros caps1 caps2 k1 k2 a b H; [reflexivity|].
  cbn [j_polls_e_g].
  destruct (j_next_e_g_pending guard precord (caps1 k1) (caps2 k2) a b H) as [Ho Hs].
  destruct (j_next_e_g guard precord (caps1 k1) a) as [a' o1].
  destruct (j_next_e_g guard precord (caps2 k2) b) as [b' o2]. cbn [fst snd] in *. subst o2.
  destruct o1 as [[r|]|e|s|]; try reflexivity; f_equal; apply IH; exact Hs.
Qed.

Lemma j_new_e_start : forall U S es, U <= S -> estart (j_new_e U S es) <= length (ebuf (j_new_e U S es)).
Proof.
  intros U S es H. unfold j_new_e. destruct (read_until_e 62 es) as [[r e] es']. cbn [estart ebuf].
  destruct e; lia.
Qed.

(* any two capacity oracles: the same outcomes, for any number of polls, on any event stream *)
Theorem j_polls_capacity_independent : forall guard precord U S n caps1 caps2 es, U <= S ->
  j_polls_e_g guard precord n caps1 0 (j_new_e U S es) = j_polls_e_g guard precord n caps2 0 (j_new_e U S es).
Proof.
  intros guard precord U S n caps1 caps2 es H. apply j_polls_e_g_pending.
  pose proof (j_new_e_start U S es H) as L. repeat split; assumption.
Qed.
