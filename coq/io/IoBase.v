(* Shared model pieces of the motif file readers of lightmotif-io (C14 / C15):
   bytes, Unicode scalar values, UTF-8 validation as done by core::str::from_utf8,
   str::trim (Unicode White_Space), and std's BufRead::{read_until, read_line}
   loop over fill_buf/consume with the underlying stream given as a LIST OF CHUNKS
   (the "schedules" quantifier of the properties).

   Executable definitions only; proofs are in IoBaseProofs.v.

   Bytes and scalar values are binary naturals [N]; offsets and lengths (usize)
   are [nat] (they stay small: the readers compact their buffers). *)
From Coq Require Import List NArith Bool Arith.
From LMBase Require Import Res.
Import ListNotations.

(* error codes carried by [Err] (the small enum compared by the check) *)
Definition EIo : nat := 1.          (* lightmotif_io::error::Error::Io *)
Definition ENom : nat := 2.         (* Error::Nom *)
Definition EInvalid : nat := 3.     (* Error::InvalidData *)

(* ---------- the stream: what successive fill_buf() calls deliver ---------- *)

(* A stream is the list of slices that fill_buf() will return, in order; when a
   slice is only partly consumed its remainder is returned by the next fill_buf()
   (BufReader does not refill a non-empty buffer).  fill_buf() returns an empty
   slice exactly when the list is exhausted (end of input, sticky). *)
Definition stream := list (list N).

Definition wf_stream (s : stream) : Prop := Forall (fun c => c <> []) s.

Definition mk_stream (cs : list (list N)) : stream :=
  filter (fun c => match c with [] => false | _ => true end) cs.

(* memchr(d, c) followed by the split c[..=i], c[i+1..] *)
Fixpoint split_delim (d : N) (c : list N) : option (list N * list N) :=
  match c with
  | [] => None
  | b :: r =>
      if N.eqb b d then Some ([b], r)
      else match split_delim d r with
           | Some (p, q) => Some (b :: p, q)
           | None => None
           end
  end.

(* std::io::read_until: returns the bytes appended to the caller's buffer (their
   number is the Ok(n) result) and the stream left behind. *)
Fixpoint read_until (d : N) (s : stream) : list N * stream :=
  match s with
  | [] => ([], [])
  | c :: s' =>
      match c with
      | [] => ([], s')      (* an empty slice is end of input for read_until (used == 0) *)
      | _ =>
          match split_delim d c with
          | Some (p, q) => (p, match q with [] => s' | _ => q :: s' end)
          | None => let (r, s'') := read_until d s' in (c ++ r, s'')
          end
      end
  end.

(* chunk-free reference: the same operation on the concatenated bytes *)
Definition read_until_flat (d : N) (bytes : list N) : list N * list N :=
  match split_delim d bytes with
  | Some (p, q) => (p, q)
  | None => (bytes, [])
  end.

Definition stream_bytes (s : stream) : list N := concat s.

(* ---------- UTF-8 (core::str::from_utf8) ---------- *)

Definition in_range (lo hi b : N) : bool := (N.leb lo b) && (N.leb b hi).
Definition is_cont (b : N) : bool := in_range 128 191 b.

(* well-formed UTF-8 byte sequences, Unicode table 3-7 (no overlong forms, no
   surrogates, at most U+10FFFF), decoded to scalar values *)
Fixpoint utf8_decode (bs : list N) : option (list N) :=
  match bs with
  | [] => Some []
  | b0 :: r0 =>
      if N.ltb b0 128 then option_map (cons b0) (utf8_decode r0)
      else
        match r0 with
        | [] => None
        | b1 :: r1 =>
            if in_range 194 223 b0 then
              if is_cont b1
              then option_map (cons ((b0 - 192) * 64 + (b1 - 128))%N) (utf8_decode r1)
              else None
            else
              match r1 with
              | [] => None
              | b2 :: r2 =>
                  if in_range 224 239 b0 then
                    if (if N.eqb b0 224 then in_range 160 191 b1
                        else if N.eqb b0 237 then in_range 128 159 b1
                        else is_cont b1) && is_cont b2
                    then option_map (cons ((b0 - 224) * 4096 + (b1 - 128) * 64 + (b2 - 128))%N)
                                    (utf8_decode r2)
                    else None
                  else
                    match r2 with
                    | [] => None
                    | b3 :: r3 =>
                        if in_range 240 244 b0 then
                          if (if N.eqb b0 240 then in_range 144 191 b1
                              else if N.eqb b0 244 then in_range 128 143 b1
                              else is_cont b1) && is_cont b2 && is_cont b3
                          then option_map
                                 (cons ((b0 - 240) * 262144 + (b1 - 128) * 4096
                                        + (b2 - 128) * 64 + (b3 - 128))%N)
                                 (utf8_decode r3)
                          else None
                        else None
                    end
              end
        end
  end.

Definition utf8_encode1 (c : N) : list N :=
  if N.ltb c 128 then [c]
  else if N.ltb c 2048 then [(192 + c / 64)%N; (128 + c mod 64)%N]
  else if N.ltb c 65536 then [(224 + c / 4096)%N; (128 + (c / 64) mod 64)%N; (128 + c mod 64)%N]
  else [(240 + c / 262144)%N; (128 + (c / 4096) mod 64)%N; (128 + (c / 64) mod 64)%N; (128 + c mod 64)%N].

Definition utf8_encode (cs : list N) : list N := concat (map utf8_encode1 cs).

(* char::len_utf8 *)
Definition utf8_len (c : N) : nat :=
  if N.ltb c 128 then 1 else if N.ltb c 2048 then 2 else if N.ltb c 65536 then 3 else 4.

(* str::len() of a string given as scalar values: its length in BYTES *)
Fixpoint str_len (cs : list N) : nat :=
  match cs with
  | [] => 0
  | c :: r => utf8_len c + str_len r
  end.

(* a Unicode scalar value *)
Definition is_scalar (c : N) : bool :=
  (N.ltb c 55296) || ((N.leb 57344 c) && (N.leb c 1114111)).

(* ---------- white space ---------- *)

(* char::is_whitespace: the Unicode White_Space property *)
Definition is_white_space (c : N) : bool :=
  in_range 9 13 c || N.eqb c 32 || N.eqb c 133 || N.eqb c 160 || N.eqb c 5760
  || in_range 8192 8202 c || N.eqb c 8232 || N.eqb c 8233 || N.eqb c 8239
  || N.eqb c 8287 || N.eqb c 12288.

(* char::is_ascii_whitespace: SPACE, TAB, LF, FF, CR (not VT) *)
Definition is_ascii_ws (c : N) : bool :=
  N.eqb c 32 || N.eqb c 9 || N.eqb c 10 || N.eqb c 12 || N.eqb c 13.

(* nom's space0/space1 set *)
Definition is_blank (c : N) : bool := N.eqb c 32 || N.eqb c 9.

Definition is_digit (c : N) : bool := in_range 48 57 c.

Fixpoint drop_while (p : N -> bool) (l : list N) : list N :=
  match l with
  | [] => []
  | c :: r => if p c then drop_while p r else l
  end.

Definition trim_start (l : list N) : list N := drop_while is_white_space l.
Definition trim_end (l : list N) : list N := rev (drop_while is_white_space (rev l)).
(* str::trim *)
Definition trim (l : list N) : list N := trim_end (trim_start l).

Definition is_nil {A} (l : list A) : bool := match l with [] => true | _ => false end.

(* longest prefix satisfying p, and the rest *)
Fixpoint span (p : N -> bool) (l : list N) : list N * list N :=
  match l with
  | [] => ([], [])
  | c :: r => if p c then let (a, b) := span p r in (c :: a, b) else ([], l)
  end.

(* ---------- read_line (BufRead::read_line = append_to_string(read_until '\n')) ---------- *)

(* Returns Ok (n, chars appended) or Err EIo when the bytes read are not valid
   UTF-8 (io::ErrorKind::InvalidData; the String is left unchanged, the bytes are
   consumed), and the stream left behind. *)
Definition read_line (s : stream) : res (nat * list N) * stream :=
  let (bs, s') := read_until 10 s in
  match utf8_decode bs with
  | Some cs => (Ok (length bs, cs), s')
  | None => (Err EIo, s')
  end.

Definition list_eqb (a b : list N) : bool :=
  (length a =? length b) && forallb (fun p => N.eqb (fst p) (snd p)) (combine a b).
