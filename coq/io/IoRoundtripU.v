(* C14, UniPROBE: a file printed from well-formed records (IoPrintU.wf_uniprobe), read through
   ANY chunking, yields exactly the records then End.  Reader-level induction; the line-level
   printer-then-parser facts are Section hypotheses instantiated in IoC14ProofsU.v. *)
From Coq Require Import List NArith ZArith Bool Arith Lia.
From LMBase Require Import Res ListX IEEE.
From LMIo Require Import IoBase IoNom IoJaspar IoUniprobe IoPrint IoPrintU IoBaseProofs IoUtf8Proofs
  IoTokProofs IoMatrixProofs IoHeaderProofs IoRoundtrip IoLineProofsU.
Import ListNotations.

(* ---------- lines ---------- *)

Definition okl (c : N) : bool := is_scalar c && negb (N.eqb c 10).

(* a line: text without LF, all scalar values, then LF *)
Definition is_line (L : list N) : Prop := exists l, L = l ++ [10%N] /\ forallb okl l = true.

Lemma is_line_scalar : forall L, is_line L -> forallb is_scalar L = true.
Proof.
  intros L [l [-> H]]. rewrite forallb_app. apply andb_true_iff. split; [|reflexivity].
  eapply forallb_imp; [|exact H]. intros x Hx. unfold okl in Hx. apply andb_true_iff in Hx. tauto.
Qed.

Lemma is_line_enc : forall L, is_line L ->
  exists b, utf8_encode L = b ++ [10%N] /\ ~ In 10%N b /\ utf8_decode (utf8_encode L) = Some L /\ 1 <= length (utf8_encode L).
Proof.
  intros L HL. pose proof (is_line_scalar L HL) as Hs. destruct HL as [l [-> H]].
  pose proof (utf8_decode_encode (l ++ [10%N]) Hs) as Hd.
  exists (utf8_encode l). rewrite utf8_encode_app in *. change (utf8_encode [10%N]) with [10%N] in *.
  repeat split.
  - apply utf8_encode_bytes_ge; [reflexivity|]. intros Hi. rewrite forallb_forall in H. specialize (H _ Hi).
    unfold okl in H. apply andb_true_iff in H. destruct H as [_ H]. discriminate.
  - exact Hd.
  - rewrite app_length. cbn. lia.
Qed.

Lemma read_line_line : forall s L rest, wf_stream s -> is_line L -> concat s = utf8_encode L ++ rest ->
  exists n, fst (read_line s) = Ok (S n, L) /\ wf_stream (snd (read_line s)) /\ concat (snd (read_line s)) = rest.
Proof.
  intros s L rest Hwf HL Ec. destruct (is_line_enc L HL) as [b [Eb [Hn [Hd Hlen]]]].
  assert (concat s = b ++ 10%N :: rest) as Ec2.
  { rewrite Ec, Eb. rewrite <- app_assoc. reflexivity. }
  destruct (read_until_found 10 s b rest Hwf Ec2 Hn) as [Er Es].
  pose proof (read_until_wf 10 s Hwf) as W.
  unfold read_line. destruct (read_until 10 s) as [r s']. cbn [fst snd] in *. subst r.
  rewrite <- Eb. rewrite Hd. cbn [fst snd].
  destruct (length (utf8_encode L)) as [|n] eqn:E; [lia|]. exists n. auto.
Qed.

Definition blank_line (L : list N) : Prop := is_line L /\ is_nil (trim L) = true.

Definition enc_lines (ls : list (list N)) : list N := utf8_encode (concat ls).

Lemma enc_lines_cons : forall L ls, enc_lines (L :: ls) = utf8_encode L ++ enc_lines ls.
Proof. intros. unfold enc_lines. cbn [concat]. apply utf8_encode_app. Qed.

(* u_fill skips blank lines and stops at the first line with content *)
Lemma u_fill_lines : forall blanks fuel s L rest, wf_stream s ->
  Forall blank_line blanks -> is_line L -> is_nil (trim L) = false ->
  concat s = enc_lines blanks ++ utf8_encode L ++ rest -> length blanks < fuel ->
  exists s', u_fill fuel [] s = FLine L s' /\ wf_stream s' /\ concat s' = rest.
Proof.
  induction blanks as [|B blanks IH]; intros fuel s L rest Hwf HB HL Hne Ec Hf.
  - destruct fuel as [|fuel]; [cbn in Hf; lia|]. cbn [u_fill]. cbn in Ec.
    destruct (read_line_line s L rest Hwf HL Ec) as [n [E1 [W E2]]].
    destruct (read_line s) as [o s']. cbn [fst snd] in *. subst o. cbn [app]. rewrite Hne.
    exists s'. auto.
  - destruct fuel as [|fuel]; [cbn in Hf; lia|]. cbn [u_fill].
    inversion HB as [|x l [HBl HBn] HBs]; subst.
    rewrite enc_lines_cons in Ec. rewrite <- app_assoc in Ec.
    destruct (read_line_line s B _ Hwf HBl Ec) as [n [E1 [W E2]]].
    destruct (read_line s) as [o s']. cbn [fst snd] in *. subst o. cbn [app]. rewrite HBn.
    apply (IH fuel s' L rest W HBs HL Hne E2). cbn in Hf. lia.
Qed.

(* white-space bytes (IoPrint.wf_suffix's set) *)
Definition wsb (b : N) : bool := in_range 9 13 b || N.eqb b 32.
(* white-space bytes forming complete lines *)
Definition wf_blank_prefix (l : list N) : bool :=
  forallb wsb l && match rev l with [] => true | c :: _ => N.eqb c 10 end.

Lemma wsb_facts : forall b, wsb b = true -> is_white_space b = true /\ is_scalar b = true /\ (b < 128)%N.
Proof.
  intros b H. unfold wsb, in_range in H. apply orb_true_iff in H.
  assert ((9 <= b <= 13)%N \/ b = 32%N) as R.
  { destruct H as [H|H]; [left; apply andb_true_iff in H; destruct H as [H1 H2]; apply N.leb_le in H1, H2; lia
                         |right; apply N.eqb_eq in H; exact H]. }
  repeat split.
  - unfold is_white_space. destruct H as [H|H]; [unfold in_range; rewrite H; reflexivity|].
    apply N.eqb_eq in H. subst b. reflexivity.
  - unfold is_scalar. apply orb_true_iff. left. apply N.ltb_lt. lia.
  - lia.
Qed.

(* ... or reports end of input with a cleared buffer; [tail]: a last white-space line without LF *)
Lemma u_fill_eof : forall blanks fuel s tail, wf_stream s ->
  Forall blank_line blanks -> forallb wsb tail = true -> ~ In 10%N tail ->
  concat s = enc_lines blanks ++ tail -> length blanks + (if is_nil tail then 0 else 1) < fuel ->
  u_fill fuel [] s = FEof [] [].
Proof.
  induction blanks as [|B blanks IH]; intros fuel s tail Hwf HB Ht Hn Ec Hf.
  - change (enc_lines []) with (@nil N) in Ec. cbn [app] in Ec.
    destruct tail as [|t0 tl].
    + destruct fuel as [|fuel]; [cbn in Hf; lia|].
      apply wf_concat_nil in Ec; [|exact Hwf]. subst s. reflexivity.
    + destruct fuel as [|[|fuel]]; try (cbn in Hf; lia).
      assert (~ In 10%N (concat s)) as Hn2 by (rewrite Ec; exact Hn).
      destruct (read_until_notfound 10 s Hwf Hn2) as [Er Es].
      assert (forallb (fun c => N.ltb c 128) (t0 :: tl) = true) as Ha.
      { rewrite forallb_forall in *. intros x Hx. apply N.ltb_lt. exact (proj2 (proj2 (wsb_facts x (Ht x Hx)))). }
      assert (forallb is_white_space (t0 :: tl) = true) as Hw.
      { rewrite forallb_forall in *. intros x Hx. exact (proj1 (wsb_facts x (Ht x Hx))). }
      cbn [u_fill]. unfold read_line. destruct (read_until 10 s) as [r s']. cbn [fst snd] in Er, Es. subst r s'.
      rewrite Ec. rewrite (utf8_decode_ascii _ Ha). cbn [length app]. rewrite (trim_all_ws _ Hw). reflexivity.
  - destruct fuel as [|fuel]; [cbn in Hf; lia|]. cbn [u_fill].
    inversion HB as [|x l [HBl HBn] HBs]; subst.
    rewrite enc_lines_cons in Ec. rewrite <- app_assoc in Ec.
    destruct (read_line_line s B _ Hwf HBl Ec) as [n [E1 [W E2]]].
    destruct (read_line s) as [o s']. cbn [fst snd] in *. subst o. cbn [app]. rewrite HBn.
    apply (IH fuel s' tail W HBs Ht Hn E2). cbn [length] in Hf. lia.
Qed.

Lemma is_line_nonempty : forall L, is_line L -> 1 <= length (utf8_encode L).
Proof. intros L HL. destruct (is_line_enc L HL) as [b [_ [_ [_ H]]]]. exact H. Qed.

Lemma enc_lines_length : forall ls, Forall is_line ls -> length ls <= length (enc_lines ls).
Proof.
  induction ls as [|L ls IH]; intros H; [cbn; lia|]. inversion H; subst.
  rewrite enc_lines_cons, app_length. pose proof (is_line_nonempty L H2). specialize (IH H3). cbn [length]. lia.
Qed.

Lemma enc_lines_app : forall a b, enc_lines (a ++ b) = enc_lines a ++ enc_lines b.
Proof. intros. unfold enc_lines. rewrite concat_app. apply utf8_encode_app. Qed.

Lemma okc_concat_map_gen : forall {B} (q : N -> bool) (f : B -> list N) l,
  (forall x, In x l -> forallb q (f x) = true) -> forallb q (concat (map f l)) = true.
Proof.
  intros B q f. induction l as [|x l IH]; intros H; [reflexivity|].
  cbn [map concat]. rewrite forallb_app. rewrite (H x (or_introl eq_refl)). cbn [andb].
  apply IH. intros z Hz. apply H. right. exact Hz.
Qed.

(* ---------- the reader ---------- *)

Section RTU.
  Variable A : alphabet.
  Hypothesis HA : wf_alphabet A.
  Variable parse_f32 : list N -> option F32.t.

  Notation fval := (fvalue parse_f32).
  Notation ucol := (u_matrix_column A parse_f32).

  (* line-level printer-then-parser facts (IoLineProofsU.v) *)
  Hypothesis Hcol : forall y (c : N * list (list N)) k X,
    aindex A (fst c) = Some k -> snd c <> [] -> forallb (wf_ftok parse_f32) (snd c) = true ->
    exists n, ucol (uniprobe_line y c ++ X) = POk X n (k, map fval (snd c)).
  Hypothesis Hid : forall l y, wf_name A l = true -> exists n, u_id (l ++ eol y) = POk [] n l.
  Hypothesis Hname : forall l y, wf_name A l = true -> exists k, ucol (l ++ eol y) = PErr k.
  Hypothesis Hempty : exists k, ucol [] = PErr k.

  Definition colgood (y : style) (c : N * list (list N)) : Prop :=
    is_line (uniprobe_line y c) /\ is_nil (trim (uniprobe_line y c)) = false /\
    (exists k, aindex A (fst c) = Some k) /\ snd c <> [] /\ forallb (wf_ftok parse_f32) (snd c) = true.

  Lemma fuel_ok_blanks : forall F s blanks x y, Forall is_line blanks ->
    concat s = x ++ enc_lines blanks ++ y -> length (concat s) < F -> length blanks < F.
  Proof.
    intros F s blanks x y H E HF. rewrite E in HF. rewrite !app_length in HF.
    pose proof (enc_lines_length blanks H). lia.
  Qed.

  Lemma fuel_ok_blanks_tail : forall F s blanks x tail, Forall is_line blanks ->
    concat s = x ++ enc_lines blanks ++ tail -> length (concat s) < F ->
    length blanks + (if is_nil tail then 0 else 1) < F.
  Proof.
    intros F s blanks x tail H E HF. rewrite E in HF. rewrite !app_length in HF.
    pose proof (enc_lines_length blanks H). destruct tail; cbn [is_nil length] in *; lia.
  Qed.

  Lemma blank_lines_are_lines : forall bs, Forall blank_line bs -> Forall is_line bs.
  Proof. intros bs H. eapply Forall_impl; [|exact H]. intros a [Ha _]. exact Ha. Qed.

  (* the column loop, stopped by the next record's name line ... *)
  Lemma u_columns_next : forall F y cols fuel s acc blanks L rest,
    length (concat s) < F ->
    wf_stream s -> Forall (colgood y) cols -> Forall blank_line blanks ->
    is_line L -> is_nil (trim L) = false -> (exists k, ucol L = PErr k) ->
    concat s = enc_lines (map (uniprobe_line y) cols) ++ enc_lines blanks ++ utf8_encode L ++ rest ->
    length cols < fuel ->
    exists s', u_columns A parse_f32 F fuel [] false s acc
               = CDone (rev acc ++ parsed_cols A fval cols) L true s' /\ wf_stream s' /\ concat s' = rest.
  Proof.
    intros F y. induction cols as [|c cols IH]; intros fuel s acc blanks L rest HF Hwf Hc Hb HL Hne [kL EL] Ec Hf.
    - destruct fuel as [|fuel]; [cbn in Hf; lia|]. cbn [u_columns]. cbn [map] in Ec.
      change (enc_lines []) with (@nil N) in Ec. cbn [app] in Ec.
      destruct (u_fill_lines blanks F s L rest Hwf Hb HL Hne Ec) as [s' [E [W Es]]].
      { apply (fuel_ok_blanks F s blanks [] (utf8_encode L ++ rest)); [apply blank_lines_are_lines; exact Hb|exact Ec|exact HF]. }
      rewrite E. rewrite EL. exists s'. cbn [parsed_cols map]. rewrite app_nil_r. auto.
    - destruct fuel as [|fuel]; [cbn in Hf; lia|]. cbn [u_columns].
      inversion Hc as [|x l [HcL [HcN [[k Ek] [Hs Hw]]]] Hcs]; subst.
      cbn [map] in Ec. rewrite enc_lines_cons in Ec. rewrite <- app_assoc in Ec.
      destruct (u_fill_lines [] F s (uniprobe_line y c) _ Hwf (Forall_nil _) HcL HcN Ec) as [s' [E [W Es]]].
      { cbn [length]. lia. }
      assert (length (concat s') < F) as HF2.
      { rewrite Ec in HF. rewrite app_length in HF. rewrite Es. lia. }
      rewrite E. destruct (Hcol y c k [] Ek Hs Hw) as [n En]. rewrite app_nil_r in En. rewrite En.
      destruct (IH fuel s' ((k, map fval (snd c)) :: acc) blanks L rest HF2 W Hcs Hb HL Hne (ex_intro _ kL EL) Es) as [s'' [E2 [W2 Es2]]].
      { cbn in Hf. lia. }
      exists s''. rewrite E2. split; [|auto]. f_equal. cbn [rev]. rewrite <- app_assoc. cbn [app].
      unfold parsed_cols. cbn [map]. rewrite Ek. reflexivity.
  Qed.

  (* ... or by the end of input *)
  Lemma u_columns_eof : forall F y cols fuel s acc blanks tail,
    length (concat s) < F ->
    wf_stream s -> Forall (colgood y) cols -> Forall blank_line blanks ->
    forallb wsb tail = true -> ~ In 10%N tail ->
    concat s = enc_lines (map (uniprobe_line y) cols) ++ enc_lines blanks ++ tail ->
    length cols < fuel ->
    u_columns A parse_f32 F fuel [] false s acc = CDone (rev acc ++ parsed_cols A fval cols) [] false [].
  Proof.
    intros F y. induction cols as [|c cols IH]; intros fuel s acc blanks tail HF Hwf Hc Hb Ht Hn Ec Hf.
    - destruct fuel as [|fuel]; [cbn in Hf; lia|]. cbn [u_columns]. cbn [map] in Ec.
      change (enc_lines []) with (@nil N) in Ec. cbn [app] in Ec.
      rewrite (u_fill_eof blanks F s tail Hwf Hb Ht Hn Ec).
      2: { apply (fuel_ok_blanks_tail F s blanks [] tail); [apply blank_lines_are_lines; exact Hb|exact Ec|exact HF]. }
      destruct Hempty as [k Ek]. rewrite Ek. cbn [parsed_cols map]. rewrite app_nil_r. reflexivity.
    - destruct fuel as [|fuel]; [cbn in Hf; lia|]. cbn [u_columns].
      inversion Hc as [|x l [HcL [HcN [[k Ek] [Hs Hw]]]] Hcs]; subst.
      cbn [map] in Ec. rewrite enc_lines_cons in Ec. rewrite <- app_assoc in Ec.
      destruct (u_fill_lines [] F s (uniprobe_line y c) _ Hwf (Forall_nil _) HcL HcN Ec) as [s' [E [W Es]]].
      { cbn [length]. lia. }
      assert (length (concat s') < F) as HF2.
      { rewrite Ec in HF. rewrite app_length in HF. rewrite Es. lia. }
      rewrite E. destruct (Hcol y c k [] Ek Hs Hw) as [n En]. rewrite app_nil_r in En. rewrite En.
      rewrite (IH fuel s' ((k, map fval (snd c)) :: acc) blanks tail HF2 W Hcs Hb Ht Hn Es) by (cbn in Hf; lia).
      f_equal. cbn [rev]. rewrite <- app_assoc. cbn [app].
      unfold parsed_cols. cbn [map]. rewrite Ek. reflexivity.
  Qed.

  (* ---------- what wf_uniprobe gives ---------- *)

  Definition name_line (p : style * src) : list N := sid (snd p) ++ eol (fst p).
  Definition col_lines (p : style * src) : list (list N) := map (uniprobe_line (fst p)) (scols (snd p)).
  Definition gap_lines (p : style * src) : list (list N) := repeat (eol (fst p)) (y_gap (fst p)).
  Definition goodp (p : style * src) : Prop := wf_uniprobe A parse_f32 p = true.
  Definition spec_of (p : style * src) : record F32.t := record_of A F32.zero fval (snd p).

  Lemma print_uniprobe_lines : forall p,
    utf8_encode (print_uniprobe p) = utf8_encode (name_line p) ++ enc_lines (col_lines p) ++ enc_lines (gap_lines p).
  Proof.
    intros [y r]. unfold print_uniprobe, name_line, col_lines, gap_lines, enc_lines. cbn [fst snd].
    rewrite !utf8_encode_app. rewrite <- !app_assoc. reflexivity.
  Qed.

  Lemma okl_cr : forall y, exists cr, eol y = cr ++ [10%N] /\ forallb okl cr = true /\ forallb is_white_space (eol y) = true.
  Proof. intros y. unfold eol. destruct (y_crlf y); [exists [13%N]|exists []]; repeat split. Qed.

  Lemma wf_dec_okl : forall t, wf_dec t = true -> forallb okl t = true.
  Proof.
    intros t H. eapply forallb_imp; [|exact (wf_dec_chars t H)]. intros x Hx. cbn beta in Hx.
    assert (x < 128 /\ x <> 10)%N as [X1 X2].
    { repeat (apply orb_true_iff in Hx; destruct Hx as [Hx|Hx]); try (apply N.eqb_eq in Hx; subst x; split; [reflexivity|discriminate]).
      unfold is_digit, in_range in Hx. apply andb_true_iff in Hx. destruct Hx as [A1 A2]. apply N.leb_le in A1, A2. lia. }
    unfold okl. apply andb_true_iff. split.
    - unfold is_scalar. apply orb_true_iff. left. apply N.ltb_lt. lia.
    - apply negb_true_iff. apply N.eqb_neq. exact X2.
  Qed.

  Lemma name_line_ok : forall l y, wf_name A l = true ->
    is_line (l ++ eol y) /\ is_nil (trim (l ++ eol y)) = false.
  Proof.
    intros l y H. unfold wf_name in H. split_andb.
    destruct (okl_cr y) as [cr [Ecr [Hcr _]]]. split.
    - exists (l ++ cr). rewrite Ecr. rewrite app_assoc. split; [reflexivity|]. rewrite forallb_app.
      apply andb_true_iff. split; [|exact Hcr].
      match goal with Hf : forallb _ l = true |- _ => eapply forallb_imp; [|exact Hf] end.
      intros x Hx. cbn beta in Hx. split_andb. unfold okl. apply andb_true_iff. split; assumption.
    - destruct l as [|c l']; [discriminate|]. cbn [app]. apply trim_nonws_head.
      match goal with Hc : negb (is_white_space c) = true |- _ => apply negb_true_iff in Hc; exact Hc end.
  Qed.

  Lemma symbol_not_ws : forall c k, aindex A c = Some k -> is_white_space c = false /\ okl c = true.
  Proof.
    intros c k H. destruct (HA c k H) as [_ R]. unfold in_range in R. apply andb_true_iff in R.
    destruct R as [R1 R2]. apply N.leb_le in R1, R2. split.
    - unfold is_white_space, in_range.
      repeat match goal with |- orb _ _ = false => apply orb_false_iff; split end;
        try (apply N.eqb_neq; lia); apply andb_false_iff; ((left; apply N.leb_gt; lia) || (right; apply N.leb_gt; lia)).
    - unfold okl. apply andb_true_iff. split.
      + unfold is_scalar. apply orb_true_iff. left. apply N.ltb_lt. lia.
      + apply negb_true_iff. apply N.eqb_neq. lia.
  Qed.

  Lemma col_line_ok : forall y c k, aindex A (fst c) = Some k -> forallb (wf_ftok parse_f32) (snd c) = true ->
    is_line (uniprobe_line y c) /\ is_nil (trim (uniprobe_line y c)) = false.
  Proof.
    intros y [s toks] k Hk Ht. cbn [fst snd] in *. destruct (symbol_not_ws s k Hk) as [Hws Hok].
    destruct (okl_cr y) as [cr [Ecr [Hcr _]]]. unfold uniprobe_line. cbn [fst snd]. split.
    - exists ([s; 58%N] ++ concat (map (fun t => 9%N :: t) toks) ++ cr). rewrite Ecr. rewrite <- !app_assoc.
      split; [reflexivity|]. rewrite !forallb_app. cbn [forallb]. rewrite Hok, Hcr. cbn [andb].
      change (okl 58) with true. cbn [andb]. rewrite andb_true_r. apply okc_concat_map_gen.
      intros t Hin. cbn [forallb]. rewrite forallb_forall in Ht. specialize (Ht t Hin).
      unfold wf_ftok in Ht. apply andb_true_iff in Ht. destruct Ht as [Ht _]. rewrite (wf_dec_okl t Ht). reflexivity.
    - cbn [app]. apply trim_nonws_head. exact Hws.
  Qed.

  Lemma Forall_app_intro : forall {T} (P : T -> Prop) a b, Forall P a -> Forall P b -> Forall P (a ++ b).
  Proof. intros T P a b Ha Hb. apply Forall_app. split; assumption. Qed.

  Lemma gap_lines_ok : forall p, Forall blank_line (gap_lines p).
  Proof.
    intros [y r]. unfold gap_lines. cbn [fst]. apply Forall_forall. intros L HL. apply repeat_spec in HL. subst L.
    destruct (okl_cr y) as [cr [Ecr [Hcr Hws]]]. split.
    - exists cr. auto.
    - rewrite (trim_all_ws _ Hws). reflexivity.
  Qed.

  (* the facts carried by wf_uniprobe *)
  Lemma goodp_inv : forall p, goodp p ->
    wf_name A (sid (snd p)) = true /\ sdesc (snd p) = None /\ scols (snd p) <> [] /\
    distinct_cols A [] (scols (snd p)) = true /\ same_width (scols (snd p)) = true /\
    Forall (colgood (fst p)) (scols (snd p)) /\
    forallb row_ok (matrix_of A F32.zero fval (scols (snd p))) = true.
  Proof.
    intros [y r] H. unfold goodp, wf_uniprobe in H. cbn [fst snd]. split_andb.
    match goal with Hd : distinct_cols A [] _ = true |- _ => rename Hd into Hdist end.
    match goal with Hw : same_width _ = true |- _ => rename Hw into Hsw end.
    match goal with Hw : (1 <=? width _) = true |- _ => apply Nat.leb_le in Hw; rename Hw into W1 end.
    match goal with Hf : forallb (fun c => forallb _ (snd c)) _ = true |- _ => rename Hf into Htok end.
    repeat split; try assumption.
    - destruct (sdesc r); [discriminate|reflexivity].
    - destruct (scols r); [discriminate|discriminate].
    - apply Forall_forall. intros c Hc.
      destruct (distinct_cols_index A (scols r) [] Hdist c Hc) as [k Ek].
      rewrite forallb_forall in Htok. pose proof (Htok c Hc) as Hw.
      destruct (col_line_ok y c k Ek Hw) as [L1 L2]. repeat split; try assumption; [eauto|].
      destruct (scols r) as [|c0 cols] eqn:Es; [destruct Hc|].
      assert (length (snd c) = length (snd c0)) as L.
      { destruct c0 as [s0 t0]. unfold same_width in Hsw. rewrite forallb_forall in Hsw.
        specialize (Hsw c Hc). apply Nat.eqb_eq in Hsw. exact Hsw. }
      destruct c0 as [s0 t0]. cbn [width snd] in *. intros E. rewrite E in L. cbn in L. lia.
  Qed.

  Definition filled_of (F : nat) (st : ustate) : fill_res :=
    if uline st then FLine (ubuf st) (ustream st)
    else u_fill F (ubuf st) (ustream st).

  Lemma col_lines_are_lines : forall p, goodp p -> Forall is_line (col_lines p).
  Proof.
    intros p G. destruct (goodp_inv p G) as [_ [_ [_ [_ [_ [Hc _]]]]]]. unfold col_lines.
    apply Forall_forall. intros L HL. apply in_map_iff in HL. destruct HL as [c [<- Hc2]].
    rewrite Forall_forall in Hc. exact (proj1 (Hc c Hc2)).
  Qed.

  (* what next() computes once the name line of a well-formed record is pending and the column
     loop has returned its columns *)
  Lemma u_next_after_columns : forall F p st s1 b' l' s',
    goodp p -> filled_of F st = FLine (name_line p) s1 ->
    u_columns A parse_f32 F F [] false s1 [] = CDone (parsed_cols A fval (scols (snd p))) b' l' s' ->
    u_next A parse_f32 F false st = ({| ubuf := b'; uline := l'; ustream := s' |}, Ok (Some (spec_of p))).
  Proof.
    intros F p st s1 b' l' s' G Hf Hc. destruct (goodp_inv p G) as [Hn [Hd [Hne [Hdist [Hsw [_ Hrow]]]]]].
    unfold u_next. fold (filled_of F st). rewrite Hf.
    destruct (Hid (sid (snd p)) (fst p) Hn) as [n En]. unfold name_line. rewrite En. rewrite Hc.
    unfold u_build_matrix.
    pose proof (j16_build_matrix_spec A F32.zero fval (scols (snd p)) HA Hne Hdist Hsw) as Eb.
    destruct (parsed_cols A fval (scols (snd p))) as [|c0 cs] eqn:Ep.
    { destruct (scols (snd p)); [contradiction|discriminate]. }
    rewrite Eb. unfold freq_new. rewrite Hrow. unfold spec_of, record_of. rewrite Hd. reflexivity.
  Qed.

  Lemma cols_fuel_ok : forall F p s1 x, goodp p -> concat s1 = enc_lines (col_lines p) ++ x ->
    length (concat s1) < F -> length (scols (snd p)) < F.
  Proof.
    intros F p s1 x G E HF. rewrite E, app_length in HF.
    pose proof (enc_lines_length (col_lines p) (col_lines_are_lines p G)) as L.
    unfold col_lines in L at 1. rewrite map_length in L. lia.
  Qed.

  Definition enc_recs (rs : list (style * src)) : list N :=
    concat (map (fun q => utf8_encode (print_uniprobe q)) rs).

  Lemma u_run_records : forall F sb tail,
    Forall blank_line sb -> forallb wsb tail = true -> ~ In 10%N tail ->
    forall rs p fuel st s1,
    length (concat s1) < F ->
    goodp p -> Forall goodp rs -> filled_of F st = FLine (name_line p) s1 -> wf_stream s1 ->
    concat s1 = enc_lines (col_lines p) ++ enc_lines (gap_lines p) ++ enc_recs rs ++ enc_lines sb ++ tail ->
    length rs + 2 <= fuel ->
    u_run A parse_f32 F false fuel true st = map (fun q => Ok (Some (spec_of q))) (p :: rs) ++ [Ok None].
  Proof.
    intros F sb tail. intros Hsb Ht Hnt. induction rs as [|q rs IH]; intros p fuel st s1 HF G Gs Hf Hwf Ec Hfu.
    - destruct fuel as [|[|fuel]]; try (cbn in Hfu; lia).
      destruct F as [|F']; [lia|].
      destruct (goodp_inv p G) as [_ [_ [_ [_ [_ [Hc _]]]]]].
      cbn [enc_recs map concat app] in Ec. rewrite (app_assoc (enc_lines (gap_lines p))) in Ec.
      rewrite <- enc_lines_app in Ec.
      pose proof (u_columns_eof (S F') (fst p) (scols (snd p)) (S F') s1 [] (gap_lines p ++ sb) tail HF Hwf Hc
                    (Forall_app_intro _ _ _ (gap_lines_ok p) Hsb) Ht Hnt Ec (cols_fuel_ok (S F') p s1 _ G Ec HF)) as Ecol.
      cbn [rev app] in Ecol.
      cbn [u_run]. rewrite (u_next_after_columns (S F') p st s1 [] false [] G Hf Ecol). reflexivity.
    - destruct fuel as [|fuel]; [cbn in Hfu; lia|].
      inversion Gs as [|x l Gq Grs]; subst.
      destruct (goodp_inv p G) as [_ [_ [_ [_ [_ [Hc _]]]]]].
      destruct (goodp_inv q Gq) as [Hnq _].
      destruct (name_line_ok (sid (snd q)) (fst q) Hnq) as [Lq Nq].
      assert (concat s1 = enc_lines (map (uniprobe_line (fst p)) (scols (snd p))) ++ enc_lines (gap_lines p)
                          ++ utf8_encode (name_line q)
                          ++ (enc_lines (col_lines q) ++ enc_lines (gap_lines q) ++ enc_recs rs ++ enc_lines sb ++ tail)) as Ec2.
      { rewrite Ec. unfold enc_recs. cbn [map concat]. rewrite print_uniprobe_lines.
        rewrite <- !app_assoc. reflexivity. }
      destruct (u_columns_next F (fst p) (scols (snd p)) F s1 [] (gap_lines p) (name_line q) _
                  HF Hwf Hc (gap_lines_ok p) Lq Nq (Hname _ _ Hnq) Ec2
                  (cols_fuel_ok F p s1 _ G Ec HF)) as [s2 [Ecol [W2 Es2]]].
      cbn [rev app] in Ecol.
      cbn [u_run]. rewrite (u_next_after_columns F p st s1 _ true s2 G Hf Ecol).
      cbn [map app]. f_equal.
      assert (length (concat s2) < F) as HF2.
      { rewrite Ec2 in HF. rewrite !app_length in HF. rewrite Es2. rewrite !app_length. lia. }
      apply (IH q fuel _ s2 HF2 Gq Grs); [reflexivity|exact W2|exact Es2|cbn [length] in Hfu; lia].
  Qed.

  Lemma enc_recs_length : forall rs, Forall goodp rs -> length rs <= length (enc_recs rs).
  Proof.
    induction rs as [|q rs IH]; intros G; [cbn; lia|]. inversion G; subst.
    unfold enc_recs in *. cbn [map concat length]. rewrite app_length. rewrite print_uniprobe_lines, app_length.
    destruct (goodp_inv q H1) as [Hn _]. destruct (name_line_ok _ (fst q) Hn) as [L _].
    pose proof (is_line_nonempty _ L) as L1. unfold name_line. specialize (IH H2). lia.
  Qed.

  (* ---------- blank lines before the first record ---------- *)

  Lemma ws_lines_aux : forall n l, length l <= n -> forallb wsb l = true ->
    (l = [] \/ exists l', l = l' ++ [10%N]) ->
    exists blanks, concat blanks = l /\ Forall blank_line blanks.
  Proof.
    induction n as [|n IH]; intros l Hn Hw He.
    - destruct l; [|cbn in Hn; lia]. exists []. split; [reflexivity|constructor].
    - destruct l as [|b0 l0] eqn:El; [exists []; split; [reflexivity|constructor]|]. rewrite <- El in *.
      destruct He as [He|[l' He]]; [subst; discriminate|].
      destruct (split_delim 10 l) as [[p q]|] eqn:Es.
      2: { exfalso. apply (split_delim_none 10 l Es). rewrite He. apply in_or_app. right. left. reflexivity. }
      destruct (split_delim_some 10 l p q Es) as [Epq [p0 [Ep Hn0]]].
      assert (forallb wsb p0 = true /\ forallb wsb q = true) as [Hp0 Hq].
      { rewrite Epq, Ep in Hw. rewrite !forallb_app in Hw. split_andb. split; assumption. }
      assert (length q <= n) as Lq.
      { rewrite Epq, Ep in Hn. rewrite !app_length in Hn. cbn [length] in Hn. lia. }
      assert (q = [] \/ exists q', q = q' ++ [10%N]) as Hqe.
      { destruct q as [|x q0] eqn:Eq; [left; reflexivity|right]. rewrite <- Eq in *.
        destruct (exists_last (l := q)) as [q' [z Ez]]; [rewrite Eq; discriminate|].
        exists q'. rewrite Ez. f_equal. f_equal.
        rewrite Epq, Ez in He. rewrite app_assoc in He. apply app_inj_tail in He. tauto. }
      destruct (IH q Lq Hq Hqe) as [blanks [Eb Hb]].
      exists ((p0 ++ [10%N]) :: blanks). split; [cbn [concat]; rewrite Eb, <- Ep; symmetry; exact Epq|].
      constructor; [|exact Hb]. split.
      + exists p0. split; [reflexivity|]. rewrite forallb_forall in *. intros x Hx.
        destruct (wsb_facts x (Hp0 x Hx)) as [_ [Hs _]]. unfold okl. rewrite Hs. cbn [andb].
        apply negb_true_iff. apply N.eqb_neq. intros ->. exact (Hn0 Hx).
      + rewrite trim_all_ws; [reflexivity|]. rewrite forallb_app. apply andb_true_iff. split; [|reflexivity].
        rewrite forallb_forall in *. intros x Hx. exact (proj1 (wsb_facts x (Hp0 x Hx))).
  Qed.

  Lemma ws_lines : forall l, wf_blank_prefix l = true ->
    exists blanks, enc_lines blanks = l /\ Forall blank_line blanks.
  Proof.
    intros l H. unfold wf_blank_prefix in H. apply andb_true_iff in H. destruct H as [Hw Hl].
    assert (l = [] \/ exists l', l = l' ++ [10%N]) as He.
    { destruct (rev l) as [|c r] eqn:Er.
      - left. apply (f_equal (@rev N)) in Er. rewrite rev_involutive in Er. exact Er.
      - right. apply N.eqb_eq in Hl. subst c. exists (rev r).
        apply (f_equal (@rev N)) in Er. rewrite rev_involutive in Er. exact Er. }
    destruct (ws_lines_aux (length l) l (le_n _) Hw He) as [blanks [Eb Hb]].
    exists blanks. split; [|exact Hb]. unfold enc_lines. rewrite Eb. apply utf8_encode_ascii.
    rewrite forallb_forall in *. intros x Hx. apply N.ltb_lt. exact (proj2 (proj2 (wsb_facts x (Hw x Hx)))).
  Qed.

  (* any white-space bytes: complete blank lines, then a last line without LF *)
  Lemma ws_split_aux : forall n l, length l <= n -> forallb wsb l = true ->
    exists blanks tail, l = concat blanks ++ tail /\ Forall blank_line blanks /\
                        forallb wsb tail = true /\ ~ In 10%N tail.
  Proof.
    induction n as [|n IH]; intros l Hn Hw.
    - destruct l; [|cbn in Hn; lia]. exists [], []. split; [reflexivity|]. split; [constructor|]. split; [reflexivity|intros []].
    - destruct (split_delim 10 l) as [[p q]|] eqn:Es.
      2: { exists [], l. split; [reflexivity|]. split; [constructor|]. split; [exact Hw|exact (split_delim_none 10 l Es)]. }
      destruct (split_delim_some 10 l p q Es) as [Epq [p0 [Ep Hn0]]].
      assert (forallb wsb p0 = true /\ forallb wsb q = true) as [Hp0 Hq].
      { rewrite Epq, Ep in Hw. rewrite !forallb_app in Hw. split_andb. split; assumption. }
      assert (length q <= n) as Lq.
      { rewrite Epq, Ep in Hn. rewrite !app_length in Hn. cbn [length] in Hn. lia. }
      destruct (IH q Lq Hq) as [blanks [tail [Eb [Hb [Ht Hnt]]]]].
      exists ((p0 ++ [10%N]) :: blanks), tail. split; [cbn [concat]; rewrite <- app_assoc, <- Eb, <- Ep; exact Epq|].
      split; [|split; assumption]. constructor; [|exact Hb]. split.
      + exists p0. split; [reflexivity|]. rewrite forallb_forall in *. intros x Hx.
        destruct (wsb_facts x (Hp0 x Hx)) as [_ [Hs _]]. unfold okl. rewrite Hs. cbn [andb].
        apply negb_true_iff. apply N.eqb_neq. intros ->. exact (Hn0 Hx).
      + rewrite trim_all_ws; [reflexivity|]. rewrite forallb_app. apply andb_true_iff. split; [|reflexivity].
        rewrite forallb_forall in *. intros x Hx. exact (proj1 (wsb_facts x (Hp0 x Hx))).
  Qed.

  Lemma ws_split : forall l, wf_suffix l = true ->
    exists blanks tail, l = enc_lines blanks ++ tail /\ Forall blank_line blanks /\
                        forallb wsb tail = true /\ ~ In 10%N tail.
  Proof.
    intros l H. assert (forallb wsb l = true) as Hw by exact H.
    destruct (ws_split_aux (length l) l (le_n _) Hw) as [blanks [tail [E [Hb [Ht Hn]]]]].
    exists blanks, tail. repeat split; try assumption.
    assert (forallb wsb (concat blanks) = true) as Hc.
    { rewrite E in Hw. rewrite forallb_app in Hw. apply andb_true_iff in Hw. tauto. }
    unfold enc_lines. rewrite utf8_encode_ascii; [exact E|].
    rewrite forallb_forall in *. intros x Hx. apply N.ltb_lt. exact (proj2 (proj2 (wsb_facts x (Hc x Hx)))).
  Qed.

  Theorem uniprobe_roundtrip_full : forall prefix rs suffix s,
    wf_blank_prefix prefix = true -> wf_suffix suffix = true -> Forall goodp rs -> wf_stream s ->
    concat s = prefix ++ enc_recs rs ++ suffix ->
    uniprobe_read A parse_f32 s = map (fun q => Ok (Some (spec_of q))) rs ++ [Ok None].
  Proof.
    intros prefix rs suffix s Hpre Hsuf G Hwf Ec.
    destruct (ws_lines prefix Hpre) as [pb [Eb Hb]]. subst prefix.
    destruct (ws_split suffix Hsuf) as [sb [tail [Es [Hsb [Ht Hnt]]]]]. subst suffix.
    unfold uniprobe_read.
    destruct rs as [|p rs].
    - cbn [enc_recs map concat app] in Ec. rewrite app_assoc in Ec. rewrite <- enc_lines_app in Ec.
      assert (length (pb ++ sb) + (if is_nil tail then 0 else 1) < read_fuel s) as Hf.
      { apply (fuel_ok_blanks_tail (read_fuel s) s (pb ++ sb) [] tail).
        - apply blank_lines_are_lines. apply Forall_app_intro; assumption.
        - exact Ec.
        - unfold read_fuel, stream_bytes. lia. }
      remember (read_fuel s) as F eqn:EF. unfold read_fuel in EF. rewrite EF at 2. cbn [u_run]. unfold u_next. cbn [u_new uline ubuf ustream].
      rewrite (u_fill_eof (pb ++ sb) F s tail Hwf (Forall_app_intro _ _ _ Hb Hsb) Ht Hnt Ec Hf). reflexivity.
    - inversion G as [|x l Gp Grs]; subst.
      destruct (goodp_inv p Gp) as [Hn _]. destruct (name_line_ok _ (fst p) Hn) as [Lp Np].
      assert (concat s = enc_lines pb ++ utf8_encode (name_line p)
                         ++ (enc_lines (col_lines p) ++ enc_lines (gap_lines p) ++ enc_recs rs ++ enc_lines sb ++ tail)) as Ec2.
      { rewrite Ec. unfold enc_recs. cbn [map concat]. rewrite print_uniprobe_lines.
        rewrite <- !app_assoc. reflexivity. }
      destruct (u_fill_lines pb (read_fuel s) s (name_line p) _ Hwf Hb Lp Np Ec2) as [s1 [E1 [W1 Es1]]].
      { apply (fuel_ok_blanks (read_fuel s) s pb [] _ (blank_lines_are_lines _ Hb) Ec2). unfold read_fuel, stream_bytes. lia. }
      assert (length (concat s1) < read_fuel s) as HF1.
      { unfold read_fuel, stream_bytes. rewrite Ec2. rewrite !app_length. rewrite Es1. rewrite !app_length. lia. }
      apply (u_run_records (read_fuel s) sb tail Hsb Ht Hnt rs p _ (u_new s) s1 HF1 Gp Grs); [exact E1|exact W1|exact Es1|].
      unfold read_fuel, stream_bytes. rewrite Ec, !app_length. pose proof (enc_recs_length (p :: rs) G) as L. cbn [length] in L. lia.
  Qed.
End RTU.
