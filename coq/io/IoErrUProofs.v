(* Proofs about IoErr.v (byte streams with I/O error events), UniPROBE reader:
   A. read_until_e / read_line_e facts;
   B. the reader over error streams never panics and terminates (C15);
   C. on error-free streams it is the reader of IoUniprobe.v;
   D. chunk independence up to the first error. *)
From Coq Require Import List NArith ZArith Bool Arith Lia.
From LMBase Require Import Res ListX IEEE.
From LMIo Require Import IoBase IoNom IoJaspar IoUniprobe IoPrint IoBaseProofs IoNomProofs IoParseProofs
  IoCheckProofs IoTotal IoTotalU IoChunkU IoErr.
Import ListNotations.

Definition elen (es : estream) : nat := length (data_bytes es).

(* ---------- basic facts ---------- *)

Lemma wf_estream_cons : forall ev es,
  wf_estream (ev :: es) <->
  (match ev with EvData c => c <> [] | EvErr _ => True end) /\ wf_estream es.
Proof.
  intros ev es. unfold wf_estream. split.
  - intros H. inversion H; subst. split; assumption.
  - intros [H1 H2]. constructor; assumption.
Qed.

Lemma wf_estream_nil : wf_estream [].
Proof. constructor. Qed.

Lemma wf_estream_app : forall a b, wf_estream (a ++ b) <-> wf_estream a /\ wf_estream b.
Proof. intros a b. unfold wf_estream. apply Forall_app. Qed.

Lemma wf_of_stream : forall s, wf_stream s -> wf_estream (of_stream s).
Proof.
  induction s as [|c s IH]; intros H; [constructor|].
  apply wf_stream_cons in H. destruct H as [Hc Hs].
  cbn [of_stream map]. apply wf_estream_cons. split; [exact Hc|exact (IH Hs)].
Qed.

Lemma data_bytes_of_stream : forall s, data_bytes (of_stream s) = concat s.
Proof.
  induction s as [|c s IH]; [reflexivity|].
  cbn [of_stream map data_bytes concat]. fold (of_stream s). rewrite IH. reflexivity.
Qed.

Lemma data_bytes_app : forall a b, data_bytes (a ++ b) = data_bytes a ++ data_bytes b.
Proof.
  induction a as [|ev a IH]; intros b; [reflexivity|].
  destruct ev as [c|i]; cbn [app data_bytes]; rewrite IH; [apply app_assoc|reflexivity].
Qed.

Lemma elen_of_stream : forall s, elen (of_stream s) = slen s.
Proof. intros s. unfold elen, slen. rewrite data_bytes_of_stream. reflexivity. Qed.

(* ---------- PART A: read_until_e / read_line_e ---------- *)

Lemma read_until_e_of_stream : forall d s,
  read_until_e d (of_stream s) = (fst (read_until d s), false, of_stream (snd (read_until d s))).
Proof.
  induction s as [|c s IH]; [reflexivity|].
  cbn [of_stream map]. fold (of_stream s).
  destruct c as [|b c]; [reflexivity|].
  cbn [read_until_e read_until].
  destruct (split_delim d (b :: c)) as [[p q]|].
  - cbn [fst snd]. destruct q; reflexivity.
  - rewrite IH. destruct (read_until d s) as [r s'']. reflexivity.
Qed.

Lemma read_until_e_wf : forall d es, wf_estream es -> wf_estream (snd (read_until_e d es)).
Proof.
  induction es as [|ev es IH]; intros H; [exact H|].
  apply wf_estream_cons in H. destruct H as [Hc Hs].
  destruct ev as [c|[|]].
  - destruct c as [|b c]; [contradiction|].
    cbn [read_until_e].
    destruct (split_delim d (b :: c)) as [[p q]|].
    + cbn [snd]. destruct q; [exact Hs|]. apply wf_estream_cons. split; [discriminate|exact Hs].
    + specialize (IH Hs). destruct (read_until_e d es) as [[r e] es'']. exact IH.
  - cbn [read_until_e]. exact (IH Hs).
  - cbn [read_until_e snd]. exact Hs.
Qed.

Lemma read_until_e_bytes : forall d es, wf_estream es ->
  data_bytes es = fst (fst (read_until_e d es)) ++ data_bytes (snd (read_until_e d es)).
Proof.
  induction es as [|ev es IH]; intros H; [reflexivity|].
  apply wf_estream_cons in H. destruct H as [Hc Hs]. specialize (IH Hs).
  destruct ev as [c|[|]].
  - destruct c as [|b c]; [contradiction|].
    cbn [read_until_e data_bytes].
    destruct (split_delim d (b :: c)) as [[p q]|] eqn:E.
    + cbn [fst snd]. apply split_delim_some in E. destruct E as [E _]. rewrite E.
      destruct q; cbn [data_bytes]; [rewrite app_nil_r; reflexivity|].
      rewrite app_assoc. reflexivity.
    + destruct (read_until_e d es) as [[r e] es'']. cbn [fst snd] in *.
      rewrite IH. apply app_assoc.
  - cbn [read_until_e data_bytes]. exact IH.
  - reflexivity.
Qed.

(* the version asked for, with the triple taken apart *)
Lemma read_until_e_bytes' : forall d es, wf_estream es ->
  let '(r, e, es') := read_until_e d es in data_bytes es = r ++ data_bytes es'.
Proof.
  intros d es H. pose proof (read_until_e_bytes d es H) as B.
  destruct (read_until_e d es) as [[r e] es']. exact B.
Qed.

(* Ok(0) only at end of input *)
Lemma read_until_e_nil : forall d es, wf_estream es ->
  fst (fst (read_until_e d es)) = [] -> snd (fst (read_until_e d es)) = false ->
  snd (read_until_e d es) = [] /\ data_bytes es = [].
Proof.
  induction es as [|ev es IH]; intros H E1 E2; [split; reflexivity|].
  apply wf_estream_cons in H. destruct H as [Hc Hs].
  destruct ev as [c|[|]].
  - destruct c as [|b c]; [contradiction|]. exfalso.
    cbn [read_until_e] in E1.
    destruct (split_delim d (b :: c)) as [[p q]|] eqn:E.
    + cbn [fst] in E1. subst p. apply split_delim_some in E.
      destruct E as [_ [p0 [E _]]]. destruct p0; discriminate.
    + destruct (read_until_e d es) as [[r e] es'']. cbn [fst] in E1. discriminate.
  - cbn [read_until_e data_bytes] in *. exact (IH Hs E1 E2).
  - cbn [read_until_e fst snd] in E2. discriminate.
Qed.

Lemma read_line_e_of_stream : forall s,
  read_line_e (of_stream s) =
  (match fst (read_line s) with Ok (n, cs) => RLOk n cs | _ => RLErr [] end,
   of_stream (snd (read_line s))).
Proof.
  intros s. unfold read_line_e, read_line. rewrite read_until_e_of_stream.
  destruct (read_until 10 s) as [bs s']. cbn [fst snd].
  destruct (utf8_decode bs); reflexivity.
Qed.

Lemma read_line_e_facts : forall es, wf_estream es ->
  wf_estream (snd (read_line_e es)) /\
  match fst (read_line_e es) with
  | RLOk n _ => n + elen (snd (read_line_e es)) = elen es
  | RLErr _ => elen (snd (read_line_e es)) <= elen es
  end.
Proof.
  intros es H. unfold read_line_e, elen.
  pose proof (read_until_e_wf 10 es H) as W. pose proof (read_until_e_bytes 10 es H) as B.
  destruct (read_until_e 10 es) as [[bs e] es']. cbn [fst snd] in *.
  assert (length (data_bytes es) = length bs + length (data_bytes es')) as L
    by (rewrite B; apply app_length).
  destruct (utf8_decode bs); [destruct e|]; cbn [fst snd]; (split; [exact W|lia]).
Qed.

(* read_line returns Ok(0) only at end of input *)
Lemma read_line_e_zero : forall es cs, wf_estream es ->
  fst (read_line_e es) = RLOk 0 cs -> snd (read_line_e es) = [] /\ data_bytes es = [] /\ cs = [].
Proof.
  intros es cs H. unfold read_line_e.
  pose proof (read_until_e_nil 10 es H) as Z.
  destruct (read_until_e 10 es) as [[bs e] es']. cbn [fst snd] in *.
  destruct (utf8_decode bs) as [cs'|] eqn:U; [destruct e|]; cbn [fst snd]; intros E; try discriminate.
  injection E as E1 E2. destruct bs; [|discriminate].
  destruct (Z eq_refl eq_refl) as [Z1 Z2]. cbn in U. injection U as U. subst.
  repeat split; assumption.
Qed.

(* ---------- PART B: no panic, termination ---------- *)

Lemma u_fill_e_spec : forall fuel buf s, wf_estream s -> elen s < fuel ->
  match u_fill_e fuel buf s with
  | XLine _ s' => wf_estream s' /\ elen s' < elen s
  | XEof b s' => wf_estream s' /\ elen s' <= elen s /\ (b = buf \/ b = [])
  | XErr _ s' => wf_estream s' /\ elen s' <= elen s
  | XFuel => False
  end.
Proof.
  induction fuel as [|fuel IH]; intros buf s H Hf; [lia|].
  cbn [u_fill_e]. pose proof (read_line_e_facts s H) as [W F].
  destruct (read_line_e s) as [o s']. cbn [fst snd] in *.
  destruct o as [n cs|cs]; [|split; [exact W|lia]].
  destruct n as [|n]; [repeat split; [exact W|lia|left; reflexivity]|].
  destruct (is_nil (trim (buf ++ cs))).
  - assert (elen s' < fuel) as Hf2 by lia. specialize (IH [] s' W Hf2).
    destruct (u_fill_e fuel [] s'); try contradiction.
    + destruct IH as [W2 L2]. split; [exact W2|lia].
    + destruct IH as [W2 [L2 E2]]. repeat split; [exact W2|lia|].
      right. destruct E2 as [E2|E2]; exact E2.
    + destruct IH as [W2 L2]. split; [exact W2|lia].
  - split; [exact W|lia].
Qed.

Section UReaderE.
  Variable A : alphabet.
  Hypothesis HA : forall c k, aindex A c = Some k -> k < aK A.
  Variable parse_f32 : list N -> option F32.t.

  Lemma u_columns_e_spec : forall F fuel buf s acc, wf_estream s -> Forall (colP A) acc ->
    elen s < F ->
    elen s + (if is_nil buf then 0 else 1) < fuel ->
    match u_columns_e A parse_f32 F fuel buf false s acc with
    | YDone cols _ _ s' => wf_estream s' /\ Forall (colP A) cols /\
                           elen s' + length cols <= elen s + length acc + (if is_nil buf then 0 else 1)
    | YErr _ s' => wf_estream s' /\ elen s' <= elen s
    | YPanic _ | YFuel => False
    end.
  Proof.
    intros F0. induction fuel as [|fuel IH]; intros buf s acc H Hacc HF Hf; [lia|].
    cbn [u_columns_e].
    pose proof (u_fill_e_spec F0 buf s H HF) as F.
    destruct (u_fill_e F0 buf s) as [b s'|b s'|b s'|]; try contradiction.
    - destruct F as [W L].
      pose proof (pspec_u_matrix_column A HA parse_f32 b) as P.
      destruct (u_matrix_column A parse_f32 b) as [rest n col| | | |]; try contradiction.
      + destruct P as [pre [_ [_ q]]].
        specialize (IH [] s' (col :: acc) W (@Forall_cons _ (colP A) col acc q Hacc) ltac:(lia) ltac:(cbn [is_nil]; lia)).
        destruct (u_columns_e A parse_f32 F0 fuel [] false s' (col :: acc)); try contradiction.
        * destruct IH as [W2 [F2 L2]]. cbn [is_nil length] in L2.
          repeat split; [exact W2|exact F2|]. destruct (is_nil buf); lia.
        * destruct IH as [W2 L2]. split; [exact W2|lia].
      + repeat split; [exact W|apply Forall_rev; exact Hacc|]. rewrite rev_length. destruct (is_nil buf); lia.
      + repeat split; [exact W|apply Forall_rev; exact Hacc|]. rewrite rev_length. destruct (is_nil buf); lia.
    - destruct F as [W [L Eb]].
      pose proof (pspec_u_matrix_column A HA parse_f32 b) as P.
      destruct (u_matrix_column A parse_f32 b) as [rest n col| | | |] eqn:EP; try contradiction.
      + destruct P as [pre [_ [_ q]]].
        assert (is_nil buf = false /\ b = buf) as [Nb Eb2].
        { destruct Eb as [Eb|Eb].
          - subst b. destruct buf; [|auto]. destruct (u_matrix_column_nil A parse_f32) as [k Ek]. rewrite Ek in EP. discriminate.
          - subst b. destruct (u_matrix_column_nil A parse_f32) as [k Ek]. rewrite Ek in EP. discriminate. }
        rewrite Nb in Hf.
        specialize (IH [] s' (col :: acc) W (@Forall_cons _ (colP A) col acc q Hacc) ltac:(lia) ltac:(cbn [is_nil]; lia)).
        destruct (u_columns_e A parse_f32 F0 fuel [] false s' (col :: acc)); try contradiction.
        * destruct IH as [W2 [F2 L2]]. cbn [is_nil length] in L2.
          repeat split; [exact W2|exact F2|]. rewrite Nb. lia.
        * destruct IH as [W2 L2]. split; [exact W2|lia].
      + repeat split; [exact W|apply Forall_rev; exact Hacc|]. rewrite rev_length. destruct (is_nil buf); lia.
      + repeat split; [exact W|apply Forall_rev; exact Hacc|]. rewrite rev_length. destruct (is_nil buf); lia.
    - destruct F as [W L]. split; [exact W|lia].
  Qed.

  Definition uinv_e (st : ustate_e) : Prop := wf_estream (xstr st).
  Definition umu_e (st : ustate_e) : nat := elen (xstr st).

  Lemma u_next_e_total : forall F st, uinv_e st -> umu_e st < F ->
    uinv_e (fst (u_next_e A parse_f32 F st)) /\
    ok_outcome (snd (u_next_e A parse_f32 F st)) /\
    umu_e (fst (u_next_e A parse_f32 F st)) <= umu_e st /\
    (forall r, snd (u_next_e A parse_f32 F st) = Ok (Some r) ->
               umu_e (fst (u_next_e A parse_f32 F st)) < umu_e st).
  Proof.
    intros F0 [buf line s] H HF. unfold uinv_e, umu_e in *. cbn [xstr xbuf xline] in *.
    unfold u_next_e. cbn [xstr xbuf xline].
    assert (match (if line then XLine buf s else u_fill_e F0 buf s) with
            | XLine _ s' => wf_estream s' /\ elen s' <= elen s
            | XEof _ s' => wf_estream s' /\ elen s' <= elen s
            | XErr _ s' => wf_estream s' /\ elen s' <= elen s
            | XFuel => False end) as F.
    { destruct line; [split; [exact H|lia]|].
      pose proof (u_fill_e_spec F0 buf s H HF) as F.
      destruct (u_fill_e F0 buf s); try contradiction; destruct F as [W L]; try (split; [exact W|lia]).
      }
    destruct (if line then XLine buf s else u_fill_e F0 buf s) as [b s1|b s1|b s1|]; try contradiction;
      destruct F as [W1 L1].
    2,3: cbn [fst snd xstr]; repeat split; try exact I; try exact W1; try lia; intros r C; discriminate.
    pose proof (pgood_u_id b) as PI.
    destruct (u_id b) as [rest n id| | | |]; try contradiction.
    2,3: cbn [fst snd xstr]; repeat split; try exact I; try exact W1; try lia; intros r C; discriminate.
    pose proof (u_columns_e_spec F0 F0 [] s1 [] W1 (Forall_nil _) ltac:(lia) ltac:(cbn [is_nil]; lia)) as C.
    destruct (u_columns_e A parse_f32 F0 F0 [] false s1 []) as [cols b' line' s2|b' s2|k|]; try contradiction.
    2: { destruct C as [W2 L2]. cbn [fst snd xstr]. repeat split; try exact I; try exact W2; try lia.
         intros r C2; discriminate. }
    destruct C as [W2 [F2 L2]]. cbn [is_nil length] in L2.
    pose proof (u_build_matrix_safe A cols F2) as S.
    destruct (u_build_matrix A false cols) as [m|e|k|] eqn:EB; try contradiction.
    2: { cbn [fst snd xstr]. repeat split; try exact I; try exact W2; try lia. intros r C2; discriminate. }
    assert (cols <> []) as Hne.
    { intros ->. cbn in EB. discriminate. }
    assert (1 <= length cols) as Lc by (destruct cols; [contradiction|cbn; lia]).
    unfold freq_new. destruct (forallb row_ok m); cbn [fst snd xstr];
      repeat split; try exact I; try exact W2; try lia; intros r C2; try discriminate; lia.
  Qed.

  Lemma u_run_e_total : forall F fuel st, uinv_e st -> umu_e st < F -> umu_e st < fuel ->
    Holds_c15 (u_run_e A parse_f32 F fuel true st).
  Proof.
    intros F. induction fuel as [|fuel IH]; intros st Hi HF Hm; [lia|].
    cbn [u_run_e]. pose proof (u_next_e_total F st Hi HF) as [I2 [O2 [M2 M3]]].
    destruct (u_next_e A parse_f32 F st) as [st' o]. cbn [fst snd] in *.
    destruct o as [[r|]|e|s|]; try contradiction.
    - specialize (M3 r eq_refl).
      destruct (IH st' I2 ltac:(lia) ltac:(lia)) as [rs [o' [E Ho]]].
      exists (r :: rs), o'. split; [cbn; rewrite E; reflexivity|exact Ho].
    - exists [], (Ok None). split; [reflexivity|left; reflexivity].
    - exists [], (Err e). split; [reflexivity|right; eauto].
  Qed.

  Lemma u_run_e_no_panic : forall F fuel stop st, uinv_e st -> umu_e st < F ->
    Forall ok_outcome (firstn fuel (u_run_e A parse_f32 F (S fuel) stop st)).
  Proof.
    intros F. induction fuel as [|fuel IH]; intros stop st Hi HF; [constructor|].
    cbn [u_run_e]. pose proof (u_next_e_total F st Hi HF) as [I2 [O2 [M2 _]]].
    destruct (u_next_e A parse_f32 F st) as [st' o]. cbn [fst snd] in *.
    destruct o as [[r|]|e|s|]; try contradiction.
    - cbn [firstn]. constructor; [exact I|]. apply IH; [exact I2|lia].
    - cbn [firstn]. constructor; [exact I|]. destruct fuel; constructor.
    - destruct stop.
      + cbn [firstn]. constructor; [exact I|]. destruct fuel; constructor.
      + cbn [firstn]. constructor; [exact I|]. apply IH; [exact I2|lia].
  Qed.

  Theorem uniprobe_read_e_total : forall es, wf_estream es ->
    Holds_c15 (uniprobe_read_e A parse_f32 es).
  Proof.
    intros es H. unfold uniprobe_read_e. apply u_run_e_total; [exact H| |];
      unfold umu_e, u_new_e, elen, read_fuel_e; cbn [xstr]; lia.
  Qed.

  Theorem uniprobe_calls_e_no_panic : forall calls es, wf_estream es ->
    Forall ok_outcome (uniprobe_calls_e A parse_f32 calls es).
  Proof.
    intros calls es H. unfold uniprobe_calls_e. apply u_run_e_no_panic; [exact H|].
    unfold umu_e, u_new_e, elen, read_fuel_e; cbn [xstr]; lia.
  Qed.
End UReaderE.

(* ---------- PART C: restriction to error-free streams ---------- *)

Definition fill_lift (r : fill_res) : fill_res_e :=
  match r with
  | FLine b s => XLine b (of_stream s)
  | FEof b s => XEof b (of_stream s)
  | FErr b s => XErr b (of_stream s)
  | FFuel => XFuel
  end.

Definition cols_lift (r : cols_res) : cols_res_e :=
  match r with
  | CDone cols b l s => YDone cols b l (of_stream s)
  | CErr b s => YErr b (of_stream s)
  | CPanic k => YPanic k
  | CFuel => YFuel
  end.

Definition state_lift (st : ustate) : ustate_e :=
  {| xbuf := ubuf st; xline := uline st; xstr := of_stream (ustream st) |}.

Lemma u_fill_e_of_stream : forall fuel buf s,
  u_fill_e fuel buf (of_stream s) = fill_lift (u_fill fuel buf s).
Proof.
  induction fuel as [|fuel IH]; intros buf s; [reflexivity|].
  cbn [u_fill_e u_fill]. rewrite read_line_e_of_stream.
  destruct (read_line s) as [o s']. cbn [fst snd].
  destruct o as [[n cs]|e|k|]; cbn [fill_lift]; try (rewrite app_nil_r; reflexivity).
  destruct n as [|n]; [reflexivity|].
  destruct (is_nil (trim (buf ++ cs))); [apply IH|reflexivity].
Qed.

Lemma fill_sel_of_stream : forall F (line : bool) buf s,
  (if line then XLine buf (of_stream s) else u_fill_e F buf (of_stream s)) =
  fill_lift (if line then FLine buf s else u_fill F buf s).
Proof. intros F [|] buf s; [reflexivity|apply u_fill_e_of_stream]. Qed.

Lemma u_columns_e_of_stream : forall A parse_f32 F fuel buf line s acc,
  u_columns_e A parse_f32 F fuel buf line (of_stream s) acc =
  cols_lift (u_columns A parse_f32 F fuel buf line s acc).
Proof.
  intros A parse_f32 F. induction fuel as [|fuel IH]; intros buf line s acc; [reflexivity|].
  cbn [u_columns_e u_columns]. rewrite fill_sel_of_stream.
  destruct (if line then FLine buf s else u_fill F buf s) as [b s'|b s'|b s'|]; cbn [fill_lift];
    try reflexivity.
  - destruct (u_matrix_column A parse_f32 b); try reflexivity. apply IH.
  - destruct (u_matrix_column A parse_f32 b); try reflexivity. apply IH.
Qed.

Lemma u_next_e_of_stream : forall A parse_f32 F st,
  u_next_e A parse_f32 F (state_lift st) =
  (state_lift (fst (u_next A parse_f32 F false st)), snd (u_next A parse_f32 F false st)).
Proof.
  intros A parse_f32 F [buf line s].
  change (state_lift {| ubuf := buf; uline := line; ustream := s |})
    with {| xbuf := buf; xline := line; xstr := of_stream s |}.
  unfold u_next_e, u_next.
  cbn [xbuf xline xstr ubuf uline ustream]. rewrite fill_sel_of_stream.
  destruct (if line then FLine buf s else u_fill F buf s) as [b s'|b s'|b s'|]; cbn [fill_lift];
    try reflexivity.
  destruct (u_id b); try reflexivity.
  rewrite u_columns_e_of_stream.
  destruct (u_columns A parse_f32 F F [] false s' []) as [cols b' l' s''|b' s''|k|]; cbn [cols_lift];
    try reflexivity.
  destruct (u_build_matrix A false cols) as [m|e|k|]; try reflexivity.
  destruct (freq_new m); reflexivity.
Qed.

Lemma u_run_e_of_stream : forall A parse_f32 F fuel stop st,
  u_run_e A parse_f32 F fuel stop (state_lift st) = u_run A parse_f32 F false fuel stop st.
Proof.
  intros A parse_f32 F. induction fuel as [|fuel IH]; intros stop st; [reflexivity|].
  cbn [u_run_e u_run]. rewrite u_next_e_of_stream.
  destruct (u_next A parse_f32 F false st) as [st' o]. cbn [fst snd].
  destruct o as [[r|]|e|k|]; try reflexivity.
  - rewrite IH. reflexivity.
  - destruct stop; [reflexivity|]. rewrite IH. reflexivity.
Qed.

Lemma read_fuel_e_of_stream : forall s, read_fuel_e (of_stream s) = read_fuel s.
Proof. intros s. unfold read_fuel_e, read_fuel, stream_bytes. rewrite data_bytes_of_stream. reflexivity. Qed.

Theorem uniprobe_read_e_of_stream : forall A parse_f32 s,
  uniprobe_read_e A parse_f32 (of_stream s) = uniprobe_read A parse_f32 s.
Proof.
  intros A parse_f32 s. unfold uniprobe_read_e, uniprobe_read. rewrite read_fuel_e_of_stream.
  change (u_new_e (of_stream s)) with (state_lift (u_new s)). apply u_run_e_of_stream.
Qed.

Theorem uniprobe_calls_e_of_stream : forall A parse_f32 calls s,
  uniprobe_calls_e A parse_f32 calls (of_stream s) = uniprobe_calls A parse_f32 false calls s.
Proof.
  intros A parse_f32 calls s. unfold uniprobe_calls_e, uniprobe_calls. rewrite read_fuel_e_of_stream.
  change (u_new_e (of_stream s)) with (state_lift (u_new s)). rewrite u_run_e_of_stream. reflexivity.
Qed.

(* ---------- PART D: chunk independence up to the first error ---------- *)

Definition same_until_error (es1 es2 : estream) : Prop :=
  exists s1 s2 t1 t2, es1 = of_stream s1 ++ t1 /\ es2 = of_stream s2 ++ t2 /\
    wf_stream s1 /\ wf_stream s2 /\ concat s1 = concat s2 /\
    ((t1 = [] /\ t2 = []) \/ (exists t1' t2', t1 = EvErr false :: t1' /\ t2 = EvErr false :: t2')).

Lemma same_until_error_of_stream : forall s1 s2, wf_stream s1 -> wf_stream s2 ->
  concat s1 = concat s2 -> same_until_error (of_stream s1) (of_stream s2).
Proof.
  intros s1 s2 H1 H2 E. exists s1, s2, [], []. rewrite !app_nil_r.
  split; [reflexivity|]. split; [reflexivity|]. split; [exact H1|]. split; [exact H2|].
  split; [exact E|]. left. split; reflexivity.
Qed.

(* the delimiter is inside the common data: the call does not see what follows *)
Lemma read_until_e_app_found : forall d s t p q, wf_stream s ->
  split_delim d (concat s) = Some (p, q) ->
  read_until_e d (of_stream s ++ t) =
  (fst (read_until d s), false, of_stream (snd (read_until d s)) ++ t).
Proof.
  induction s as [|c s IH]; intros t p q H E; [discriminate|].
  apply wf_stream_cons in H. destruct H as [Hc Hs].
  destruct c as [|b c]; [contradiction|].
  cbn [of_stream map app]. fold (of_stream s). cbn [read_until_e read_until].
  cbn [concat] in E.
  destruct (split_delim d (b :: c)) as [[p' q']|] eqn:E1.
  - cbn [fst snd]. destruct q'; reflexivity.
  - rewrite (split_delim_app_none _ _ _ E1) in E.
    destruct (split_delim d (concat s)) as [[p2 q2]|] eqn:E2; [|discriminate].
    rewrite (IH t p2 q2 Hs eq_refl). destruct (read_until d s) as [r s'']. reflexivity.
Qed.

(* no delimiter in the data: all of it is appended, and the call goes on into the tail *)
Lemma read_until_e_app_notfound : forall d s t, wf_stream s ->
  split_delim d (concat s) = None ->
  read_until_e d (of_stream s ++ t) =
  (concat s ++ fst (fst (read_until_e d t)), snd (fst (read_until_e d t)), snd (read_until_e d t)).
Proof.
  induction s as [|c s IH]; intros t H E.
  - cbn [of_stream map app concat]. destruct (read_until_e d t) as [[r e] t']. reflexivity.
  - apply wf_stream_cons in H. destruct H as [Hc Hs].
    destruct c as [|b c]; [contradiction|].
    cbn [of_stream map app]. fold (of_stream s). cbn [read_until_e].
    cbn [concat] in E.
    destruct (split_delim d (b :: c)) as [[p' q']|] eqn:E1.
    + rewrite (split_delim_app_some _ _ (concat s) _ _ E1) in E. discriminate.
    + rewrite (split_delim_app_none _ _ _ E1) in E.
      destruct (split_delim d (concat s)) as [[p2 q2]|] eqn:E2; [discriminate|].
      rewrite (IH t Hs eq_refl). cbn [concat]. rewrite <- app_assoc. reflexivity.
Qed.

Theorem read_until_e_same : forall d es1 es2, same_until_error es1 es2 ->
  fst (read_until_e d es1) = fst (read_until_e d es2) /\
  (snd (fst (read_until_e d es1)) = false ->
   same_until_error (snd (read_until_e d es1)) (snd (read_until_e d es2))).
Proof.
  intros d es1 es2 (s1 & s2 & t1 & t2 & -> & -> & H1 & H2 & E & T).
  destruct (split_delim d (concat s1)) as [[p q]|] eqn:E1.
  - assert (E2 := E1). rewrite E in E2.
    rewrite (read_until_e_app_found d s1 t1 p q H1 E1), (read_until_e_app_found d s2 t2 p q H2 E2).
    destruct (read_until_chunk_independent_lemma d s1 s2 H1 H2 E) as [Ea Eb].
    cbn [fst snd]. split; [rewrite Ea; reflexivity|]. intros _.
    exists (snd (read_until d s1)), (snd (read_until d s2)), t1, t2.
    split; [reflexivity|]. split; [reflexivity|].
    split; [apply read_until_wf; exact H1|]. split; [apply read_until_wf; exact H2|].
    split; [exact Eb|exact T].
  - assert (E2 := E1). rewrite E in E2.
    rewrite (read_until_e_app_notfound d s1 t1 H1 E1), (read_until_e_app_notfound d s2 t2 H2 E2).
    destruct T as [[-> ->]|(t1' & t2' & -> & ->)]; cbn [read_until_e fst snd].
    + split; [rewrite E; reflexivity|]. intros _.
      exists [], [], [], []. split; [reflexivity|]. split; [reflexivity|].
      split; [constructor|]. split; [constructor|]. split; [reflexivity|]. left. split; reflexivity.
    + split; [rewrite E; reflexivity|]. intros C. discriminate.
Qed.

Lemma read_line_e_same : forall es1 es2, same_until_error es1 es2 ->
  fst (read_line_e es1) = fst (read_line_e es2) /\
  (forall n cs, fst (read_line_e es1) = RLOk n cs ->
                same_until_error (snd (read_line_e es1)) (snd (read_line_e es2))).
Proof.
  intros es1 es2 H. destruct (read_until_e_same 10 es1 es2 H) as [E R]. unfold read_line_e.
  destruct (read_until_e 10 es1) as [[b1 e1] u1]. destruct (read_until_e 10 es2) as [[b2 e2] u2].
  cbn [fst snd] in *. injection E as -> ->.
  destruct (utf8_decode b2); [destruct e2|]; cbn [fst snd]; (split; [reflexivity|]);
    intros n cs' Q; try discriminate. apply R. reflexivity.
Qed.

Definition fill_rel_e (a b : fill_res_e) : Prop :=
  match a, b with
  | XLine b1 s1, XLine b2 s2 => b1 = b2 /\ same_until_error s1 s2
  | XEof b1 s1, XEof b2 s2 => b1 = b2 /\ same_until_error s1 s2
  | XErr b1 _, XErr b2 _ => b1 = b2       (* nothing is said about the streams after an error *)
  | XFuel, XFuel => True
  | _, _ => False
  end.

Lemma u_fill_e_same : forall fuel buf s1 s2, same_until_error s1 s2 ->
  fill_rel_e (u_fill_e fuel buf s1) (u_fill_e fuel buf s2).
Proof.
  induction fuel as [|fuel IH]; intros buf s1 s2 R; [exact I|].
  cbn [u_fill_e]. destruct (read_line_e_same s1 s2 R) as [Eo R'].
  destruct (read_line_e s1) as [o1 u1]. destruct (read_line_e s2) as [o2 u2].
  cbn [fst snd] in *. subst o2.
  destruct o1 as [n cs|cs]; [|reflexivity].
  specialize (R' n cs eq_refl).
  destruct n as [|n]; [split; [reflexivity|exact R']|].
  destruct (is_nil (trim (buf ++ cs))); [apply IH; exact R'|split; [reflexivity|exact R']].
Qed.

Section UE.
  Variable A : alphabet.
  Variable parse_f32 : list N -> option F32.t.

  Definition cols_rel_e (a b : cols_res_e) : Prop :=
    match a, b with
    | YDone c1 b1 l1 s1, YDone c2 b2 l2 s2 => c1 = c2 /\ b1 = b2 /\ l1 = l2 /\ same_until_error s1 s2
    | YErr b1 _, YErr b2 _ => b1 = b2
    | YPanic k1, YPanic k2 => k1 = k2
    | YFuel, YFuel => True
    | _, _ => False
    end.

  Lemma u_columns_e_same : forall F0 fuel buf line s1 s2 acc, same_until_error s1 s2 ->
    cols_rel_e (u_columns_e A parse_f32 F0 fuel buf line s1 acc)
               (u_columns_e A parse_f32 F0 fuel buf line s2 acc).
  Proof.
    intros F0. induction fuel as [|fuel IH]; intros buf line s1 s2 acc R; [exact I|].
    cbn [u_columns_e].
    assert (fill_rel_e (if line then XLine buf s1 else u_fill_e F0 buf s1)
                       (if line then XLine buf s2 else u_fill_e F0 buf s2)) as F.
    { destruct line; [split; [reflexivity|exact R]|]. apply u_fill_e_same. exact R. }
    destruct (if line then XLine buf s1 else u_fill_e F0 buf s1) as [b1 t1|b1 t1|b1 t1|];
      destruct (if line then XLine buf s2 else u_fill_e F0 buf s2) as [b2 t2|b2 t2|b2 t2|];
      try contradiction; try exact I.
    - destruct F as [<- R'].
      destruct (u_matrix_column A parse_f32 b1); try reflexivity; try exact I;
        [apply IH; exact R'|repeat split; try reflexivity; apply R'|repeat split; try reflexivity; apply R'].
    - destruct F as [<- R'].
      destruct (u_matrix_column A parse_f32 b1); try reflexivity; try exact I;
        [apply IH; exact R'|repeat split; try reflexivity; apply R'|repeat split; try reflexivity; apply R'].
    - exact F.
  Qed.

  Definition urel_e (a b : ustate_e) : Prop :=
    xbuf a = xbuf b /\ xline a = xline b /\ same_until_error (xstr a) (xstr b).

  Ltac fin_rel_e :=
    solve [cbn [fst snd]; split; [reflexivity|]; intros r0 Hr0; try discriminate;
           unfold urel_e; cbn [xbuf xline xstr]; repeat split; try reflexivity; assumption].

  (* same outcome; the states stay related whenever the consumer goes on (a record) *)
  Lemma u_next_e_same : forall F0 st1 st2, urel_e st1 st2 ->
    snd (u_next_e A parse_f32 F0 st1) = snd (u_next_e A parse_f32 F0 st2) /\
    (forall r, snd (u_next_e A parse_f32 F0 st1) = Ok (Some r) ->
               urel_e (fst (u_next_e A parse_f32 F0 st1)) (fst (u_next_e A parse_f32 F0 st2))).
  Proof.
    intros F0 [buf line s1] [buf2 line2 s2] [Eb [El R]]. cbn [xbuf xline xstr] in *. subst buf2 line2.
    unfold u_next_e. cbn [xbuf xline xstr].
    assert (fill_rel_e (if line then XLine buf s1 else u_fill_e F0 buf s1)
                       (if line then XLine buf s2 else u_fill_e F0 buf s2)) as F.
    { destruct line; [split; [reflexivity|exact R]|]. apply u_fill_e_same. exact R. }
    destruct (if line then XLine buf s1 else u_fill_e F0 buf s1) as [b1 t1|b1 t1|b1 t1|];
      destruct (if line then XLine buf s2 else u_fill_e F0 buf s2) as [b2 t2|b2 t2|b2 t2|];
      try contradiction.
    2: destruct F as [<- R']; fin_rel_e.
    2: cbn in F; subst b2; fin_rel_e.
    2: fin_rel_e.
    destruct F as [<- R'].
    destruct (u_id b1) as [rest n id| | | |]; try fin_rel_e.
    pose proof (u_columns_e_same F0 F0 [] false t1 t2 [] R') as C.
    destruct (u_columns_e A parse_f32 F0 F0 [] false t1 []) as [c1 bb1 l1 u1|bb1 u1|k1|];
      destruct (u_columns_e A parse_f32 F0 F0 [] false t2 []) as [c2 bb2 l2 u2|bb2 u2|k2|];
      try contradiction.
    - destruct C as [<- [<- [<- R'']]].
      destruct (u_build_matrix A false c1) as [m|e|k|]; try fin_rel_e.
      destruct (freq_new m); fin_rel_e.
    - cbn in C. subst bb2. fin_rel_e.
    - cbn in C. subst k2. fin_rel_e.
    - fin_rel_e.
  Qed.

  Lemma u_run_e_same : forall F0 fuel st1 st2, urel_e st1 st2 ->
    u_run_e A parse_f32 F0 fuel true st1 = u_run_e A parse_f32 F0 fuel true st2.
  Proof.
    intros F0. induction fuel as [|fuel IH]; intros st1 st2 R; [reflexivity|].
    cbn [u_run_e]. destruct (u_next_e_same F0 st1 st2 R) as [Eo R'].
    destruct (u_next_e A parse_f32 F0 st1) as [st1' o1]. destruct (u_next_e A parse_f32 F0 st2) as [st2' o2].
    cbn [fst snd] in *. subst o2.
    destruct o1 as [[r|]|e|k|]; try reflexivity.
    f_equal. apply IH. exact (R' r eq_refl).
  Qed.
End UE.

Theorem uniprobe_same_until_error : forall A parse_f32 F fuel es1 es2, same_until_error es1 es2 ->
  u_run_e A parse_f32 F fuel true (u_new_e es1) = u_run_e A parse_f32 F fuel true (u_new_e es2).
Proof.
  intros A parse_f32 F fuel es1 es2 H. apply u_run_e_same.
  unfold urel_e, u_new_e. cbn [xbuf xline xstr]. split; [reflexivity|]. split; [reflexivity|exact H].
Qed.
