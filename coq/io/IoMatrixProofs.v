(* The matrix-building loops of the JASPAR / JASPAR 2016 / UniPROBE parser models
   (IoJaspar.v) compute the specification matrix of IoPrint.v.  Proofs only. *)
From Coq Require Import List NArith Bool Arith Lia.
From LMBase Require Import Res ListX.
From LMIo Require Import IoBase IoNom IoJaspar IoPrint.
Import ListNotations.

(* the list the parser hands to build_matrix: column index of the symbol and the
   cell values of the line *)
Definition parsed_cols {V} (A : alphabet) (value : list N -> V) (cols : list (N * list (list N))) : list (nat * list V) :=
  map (fun c => (match aindex A (fst c) with Some k => k | None => 0 end, map value (snd c))) cols.

Definition wf_alphabet (A : alphabet) : Prop :=
  forall c k, aindex A c = Some k -> k < aK A /\ in_range 65 90 c = true.

(* ---------- the two alphabets ---------- *)

(* both follow, by computation over the tables regenerated from abc.rs (GenIoAbc.v), from:
   every arm of from_ascii maps an upper-case letter to a discriminant below K *)
Lemma assoc_index_wf : forall K tbl,
  forallb (fun p : N * nat => (snd p <? K) && in_range 65 90 (fst p)) tbl = true ->
  forall c k, assoc_index c tbl = Some k -> k < K /\ in_range 65 90 c = true.
Proof.
  intros K tbl. induction tbl as [|[b j] r IH]; intros H c k E; cbn [assoc_index] in E; [discriminate|].
  cbn [forallb fst snd] in H. apply andb_true_iff in H. destruct H as [H1 H2].
  destruct (N.eqb_spec b c) as [->|_].
  - injection E as <-. apply andb_true_iff in H1. destruct H1 as [Hk Hc].
    apply Nat.ltb_lt in Hk. split; assumption.
  - exact (IH H2 c k E).
Qed.

Lemma wf_alphabet_dna : wf_alphabet Dna.
Proof. intros c k. apply (assoc_index_wf (aK Dna) GenIoAbc.gen_dna_from_ascii). vm_compute. reflexivity. Qed.

Lemma wf_alphabet_protein : wf_alphabet Protein.
Proof. intros c k. apply (assoc_index_wf (aK Protein) GenIoAbc.gen_protein_from_ascii). vm_compute. reflexivity. Qed.

(* ---------- generic list facts ---------- *)

Lemma nth_map_seq {B} (f : nat -> B) n i d : i < n -> nth i (map f (seq 0 n)) d = f i.
Proof.
  intros Hi. rewrite (nth_indep _ d (f 0)) by (rewrite map_length, seq_length; lia).
  rewrite map_nth, seq_nth by lia. reflexivity.
Qed.

Lemma nth_map_nth_error {B C} (f : B -> C) l i d :
  nth i (map f l) d = match nth_error l i with Some t => f t | None => d end.
Proof. revert i; induction l as [|x l IH]; intros [|i]; simpl; auto. Qed.

Lemma matrix_ext {V} (zero : V) K (m1 m2 : list (list V)) :
  length m1 = length m2 ->
  (forall i, i < length m1 -> length (nth i m1 []) = K) ->
  (forall i, i < length m1 -> length (nth i m2 []) = K) ->
  (forall i k, i < length m1 -> k < K -> nth k (nth i m1 []) zero = nth k (nth i m2 []) zero) ->
  m1 = m2.
Proof.
  intros Hl H1 H2 Hc. apply (nth_ext m1 m2 [] []); auto.
  intros i Hi. apply (nth_ext _ _ zero zero).
  - rewrite H1, H2; auto.
  - intros k Hk. rewrite H1 in Hk by auto. apply Hc; auto.
Qed.

(* ---------- set_col ---------- *)

Lemma set_col_length {C} idx (counts : list C) m : length (set_col idx counts m) = length m.
Proof. revert m; induction counts as [|x cs IH]; intros [|row rows]; simpl; auto. Qed.

Lemma set_col_nth {C} idx (counts : list C) m i d :
  length counts = length m -> i < length m ->
  nth i (set_col idx counts m) [] = upd idx (nth i counts d) (nth i m []).
Proof.
  revert m i; induction counts as [|x cs IH]; intros [|row rows] [|i] Hl Hi;
    simpl in *; try lia; auto.
  apply IH; lia.
Qed.

(* ---------- the shape of the specification matrix ---------- *)

Lemma matrix_of_rows : forall {V} (A : alphabet) (zero : V) value cols,
  length (matrix_of A zero value cols) = width cols.
Proof. intros. unfold matrix_of. rewrite map_length, seq_length. reflexivity. Qed.

Lemma matrix_of_row_len : forall {V} (A : alphabet) (zero : V) value cols row,
  In row (matrix_of A zero value cols) -> length row = aK A.
Proof.
  intros V A zero value cols row H. unfold matrix_of in H.
  apply in_map_iff in H. destruct H as [i [<- _]].
  rewrite map_length, seq_length. reflexivity.
Qed.

Lemma matrix_of_nth {V} (A : alphabet) (zero : V) value cols i :
  i < width cols ->
  nth i (matrix_of A zero value cols) [] = map (fun k => cell_of A zero value cols i k) (seq 0 (aK A)).
Proof. intros Hi. unfold matrix_of. rewrite nth_map_seq by auto. reflexivity. Qed.

(* ---------- JASPAR 2016 / UniPROBE ---------- *)

Lemma parsed_cols_cons {V} A (value : list N -> V) s toks r :
  parsed_cols A value ((s, toks) :: r)
  = (match aindex A s with Some k => k | None => 0 end, map value toks) :: parsed_cols A value r.
Proof. reflexivity. Qed.

Lemma distinct_line_none A rest : forall seen k,
  distinct_cols A seen rest = true -> existsb (Nat.eqb k) seen = true -> line_of A k rest = None.
Proof.
  induction rest as [|[s toks] r IH]; intros seen k Hd Hs; cbn [line_of distinct_cols] in *; auto.
  destruct (aindex A s) as [k'|]; [|discriminate].
  apply andb_true_iff in Hd. destruct Hd as [Hn Hd]. apply negb_true_iff in Hn.
  destruct (Nat.eqb_spec k' k) as [->|Hne].
  - congruence.
  - apply (IH (k' :: seen)); auto. cbn [existsb]. rewrite Hs. apply orb_true_r.
Qed.

Lemma j16_loop_spec {V} (A : alphabet) (zero : V) (value : list N -> V) :
  wf_alphabet A -> forall W rest seen done m,
  length done = aK A ->
  (forall k, k < aK A -> nth k done false = existsb (Nat.eqb k) seen) ->
  distinct_cols A seen rest = true ->
  forallb (fun c : N * list (list N) => length (snd c) =? W) rest = true ->
  length m = W ->
  (forall i, i < W -> length (nth i m []) = aK A) ->
  exists m', j16_build_loop A (parsed_cols A value rest) done m = Ok m' /\
    length m' = W /\
    (forall i, i < W -> length (nth i m' []) = aK A) /\
    forall i k, i < W -> k < aK A ->
      nth k (nth i m' []) zero =
      match line_of A k rest with
      | Some toks => match nth_error toks i with Some t => value t | None => zero end
      | None => nth k (nth i m []) zero
      end.
Proof.
  intros HA W rest. induction rest as [|[s toks] r IH]; intros seen done m Hdone Hinv Hd Hw Hm Hrows.
  - exists m. cbn. repeat split; auto.
  - cbn [distinct_cols] in Hd.
    destruct (aindex A s) as [k0|] eqn:Es; [|discriminate].
    apply andb_true_iff in Hd. destruct Hd as [Hn Hd]. apply negb_true_iff in Hn.
    cbn [forallb snd] in Hw. apply andb_true_iff in Hw. destruct Hw as [Hlen Hw].
    apply Nat.eqb_eq in Hlen.
    destruct (HA s k0 Es) as [Hk0 _].
    assert (Hlt : (k0 <? aK A) = true) by (apply Nat.ltb_lt; auto).
    destruct (IH (k0 :: seen) (upd k0 true done) (set_col k0 (map value toks) m))
      as [m' [Heq [Hlm' [Hrows' Hcell]]]]; auto.
    + rewrite upd_length; auto.
    + intros k Hk. rewrite nth_upd. cbn [existsb]. rewrite Hdone, Hlt.
      destruct (Nat.eqb_spec k0 k) as [->|Hne].
      * rewrite Nat.eqb_refl. reflexivity.
      * rewrite (proj2 (Nat.eqb_neq k k0)) by auto. cbn [orb]. apply Hinv; auto.
    + rewrite set_col_length; auto.
    + intros i Hi. rewrite (set_col_nth _ _ _ _ zero) by (rewrite ?map_length; lia).
      rewrite upd_length. auto.
    + exists m'. split; [|split; [|split]]; auto.
      * rewrite parsed_cols_cons, Es. cbn [j16_build_loop].
        rewrite Hdone, Hlt, (Hinv k0 Hk0), Hn, map_length, Hlen, Hm, Nat.eqb_refl. exact Heq.
      * intros i k Hi Hk. rewrite Hcell by auto. cbn [line_of]. rewrite Es.
        destruct (Nat.eqb_spec k0 k) as [<-|Hne].
        -- rewrite (distinct_line_none A r (k0 :: seen) k0 Hd)
             by (cbn [existsb]; rewrite Nat.eqb_refl; reflexivity).
           rewrite (set_col_nth _ _ _ _ zero) by (rewrite ?map_length; lia).
           rewrite nth_upd_same by (rewrite Hrows; auto).
           apply nth_map_nth_error.
        -- destruct (line_of A k r); auto.
           rewrite (set_col_nth _ _ _ _ zero) by (rewrite ?map_length; lia).
           rewrite nth_upd_other by auto. reflexivity.
Qed.

Lemma j16_build_matrix_spec : forall {V} (A : alphabet) (zero : V) (value : list N -> V) (cols : list (N * list (list N))),
  wf_alphabet A -> cols <> [] -> distinct_cols A [] cols = true -> same_width cols = true ->
  j16_build_matrix A zero (parsed_cols A value cols) = Ok (matrix_of A zero value cols).
Proof.
  intros V A zero value cols HA Hne Hd Hsw.
  destruct cols as [|[s0 t0] r]; [contradiction|]. clear Hne.
  assert (Hunf : j16_build_matrix A zero (parsed_cols A value ((s0, t0) :: r))
                 = j16_build_loop A (parsed_cols A value ((s0, t0) :: r)) (repeat false (aK A))
                     (new_matrix zero (aK A) (length t0))).
  { unfold j16_build_matrix. rewrite parsed_cols_cons. cbv beta iota. rewrite map_length. reflexivity. }
  rewrite Hunf. clear Hunf.
  unfold same_width in Hsw.
  destruct (j16_loop_spec A zero value HA (length t0) ((s0, t0) :: r) [] (repeat false (aK A))
              (new_matrix zero (aK A) (length t0)))
    as [m' [Heq [Hlm' [Hrows' Hcell]]]]; auto.
  - apply repeat_length.
  - intros k Hk. rewrite nth_repeat_lt by auto. reflexivity.
  - unfold new_matrix. apply repeat_length.
  - intros i Hi. unfold new_matrix. rewrite nth_repeat_lt by auto. apply repeat_length.
  - rewrite Heq. f_equal.
    assert (Hwd : width ((s0, t0) :: r) = length t0) by reflexivity.
    apply (matrix_ext zero (aK A)).
    + rewrite matrix_of_rows, Hwd. auto.
    + intros i Hi. apply Hrows'. lia.
    + intros i Hi. rewrite matrix_of_nth by lia. rewrite map_length, seq_length. reflexivity.
    + intros i k Hi Hk. rewrite Hlm' in Hi. rewrite Hcell by auto.
      rewrite matrix_of_nth by lia. rewrite nth_map_seq by auto. unfold cell_of.
      destruct (line_of A k ((s0, t0) :: r)); auto.
      unfold new_matrix. rewrite !nth_repeat_lt by auto. reflexivity.
Qed.

(* ---------- JASPAR (raw) ---------- *)

Lemma j_build_matrix_spec : forall (value : list N -> N) (a c g t : list (list N)),
  length c = length a -> length g = length a -> length t = length a ->
  j_build_matrix (map value a) (map value c) (map value g) (map value t)
  = Ok (matrix_of Dna 0%N value [(65%N, a); (67%N, c); (71%N, g); (84%N, t)]).
Proof.
  (* by computation over the generated tables: the column indices [map snd gen_jaspar_symbols],
     K = gen_dna_K, and the from_ascii table behind [line_of Dna] *)
  intros value a c g t Hc Hg Ht.
  unfold j_build_matrix, new_matrix.
  let ks := eval vm_compute in (map snd GenIoAbc.gen_jaspar_symbols) in
    change (map snd GenIoAbc.gen_jaspar_symbols) with ks.
  let K := eval vm_compute in (aK Dna) in change (aK Dna) with K.
  cbn [combine j_build_loop].
  rewrite !set_col_length, !repeat_length, !map_length, Hc, Hg, Ht, !Nat.eqb_refl.
  cbn [Nat.ltb Nat.leb].
  f_equal.
  apply (nth_ext _ _ [] []).
  - rewrite !set_col_length, repeat_length, matrix_of_rows. reflexivity.
  - intros i Hi. rewrite !set_col_length, repeat_length in Hi.
    rewrite !(set_col_nth _ _ _ _ 0%N)
      by (rewrite ?set_col_length, ?repeat_length, ?map_length; lia).
    rewrite nth_repeat_lt by auto.
    rewrite matrix_of_nth by exact Hi.
    cbn [aK Dna GenIoAbc.gen_dna_K seq map repeat upd]. unfold cell_of.
    repeat match goal with
           | |- context [line_of Dna ?k ?cols] =>
               let r := eval vm_compute in (line_of Dna k cols) in
               change (line_of Dna k cols) with r
           end.
    cbv iota. rewrite !nth_map_nth_error. reflexivity.
Qed.
