(* The polling consumer over event streams (IoPoll.v): every call returns -- no panic site, no
   OutOfFuel -- for any number of calls, also after errors and after End; End is final. *)
From Coq Require Import List NArith Bool Arith Lia.
From LMBase Require Import Res IEEE.
From LMIo Require Import GenIoAbc IoBase IoNom IoJaspar IoUniprobe IoPrint IoBaseProofs IoNomProofs IoParseProofs
  IoCheckProofs IoTotal IoErr IoErrUProofs IoErrJBase IoPoll.
Import ListNotations.

(* next() answers End only when this call read nothing (n == 0), changes nothing but appending
   nothing, and does so whatever the capacity is *)
Lemma j_next_g_end : forall precord adv guard cap b start s,
  snd (j_next_g precord adv guard cap {| jbuf := b; jstart := start; jstream := s |}) = Ok None ->
  fst (read_until 62 s) = [] /\
  forall cap', j_next_g precord adv guard cap' {| jbuf := b; jstart := start; jstream := s |} =
               ({| jbuf := b ++ []; jstart := start; jstream := snd (read_until 62 s) |}, Ok None).
Proof.
  intros precord adv guard cap b start s H. unfold j_next_g in *. cbn [jstream jbuf jstart] in *.
  destruct (read_until 62 s) as [r s']. cbn [fst snd] in *.
  destruct (length r =? 0) eqn:En.
  2: { exfalso. revert H. cbn [andb].
       repeat match goal with |- context [match ?x with _ => _ end] => destruct x end;
         cbn [snd]; intros H; discriminate H. }
  apply Nat.eqb_eq, length_zero_iff_nil in En. subst r. split; [reflexivity|]. intros cap'.
  revert H. cbn [length Nat.eqb andb Nat.add].
  repeat match goal with |- context [match ?x with _ => _ end] => destruct x end;
    cbn [snd]; intros H; try discriminate H; reflexivity.
Qed.

(* End is final (JASPAR readers, guarded or not): the call that answered End found the stream
   exhausted, left buffer and start as they were, and every later call answers End again *)
Lemma j_next_e_end_final : forall guard precord cap st, wf_estream (estr st) ->
  snd (j_next_e_g guard precord cap st) = Ok None ->
  forall cap', j_next_e_g guard precord cap' (fst (j_next_e_g guard precord cap st)) =
               (fst (j_next_e_g guard precord cap st), Ok None).
Proof.
  intros guard precord cap [b start es] Hwf H cap'. cbn [estr] in Hwf.
  unfold j_next_e_g in H |- * at 2 3. cbn [estr estart ebuf] in *.
  pose proof (read_until_e_nil 62 es Hwf) as Z.
  destruct (read_until_e 62 es) as [[r e] es']. cbn [fst snd] in *.
  destruct e; [cbn [snd] in H; discriminate H|].
  pose proof (j_next_g_end precord false guard cap b start (replay_stream r (negb (is_nil es')))) as G.
  destruct (j_next_g precord false guard cap
              {| jbuf := b; jstart := start; jstream := replay_stream r (negb (is_nil es')) |}) as [st' o] eqn:E1.
  cbn [fst snd] in *. subst o. destruct (G eq_refl) as [G1 G2].
  pose proof (read_until_nil_eof 62 _ (replay_stream_wf r (negb (is_nil es'))) G1) as [R1 R2].
  unfold replay_stream in R1. apply app_eq_nil in R1. destruct R1 as [R1 R3].
  assert (r = []) as -> by (destruct r; [reflexivity|cbn in R1; discriminate R1]).
  destruct (Z eq_refl eq_refl) as [Z1 _]. subst es'.
  rewrite (G2 cap) in E1. injection E1 as <-.
  change (replay_stream [] (negb (is_nil (@nil event)))) with (@nil (list N)) in G2.
  cbn [read_until snd] in G2.
  unfold j_next_e_g. cbn [estr estart ebuf read_until_e is_nil negb jbuf jstart].
  change (replay_stream [] false) with (@nil (list N)).
  rewrite !app_nil_r in *. rewrite (G2 cap'). reflexivity.
Qed.

Section JPoll.
  Variable precord : parser (record N).
  Hypothesis Hp : pspec lf_spec precord.

  (* one next() of the guarded reader (df3a2dd), buffer side: only `start <= buffer.len()` is needed
     -- after an I/O error in Reader::new or in an earlier next() nothing more is known: the
     buffer may lack the pending '>' and may hold the bytes of the failed read *)
  Lemma j_next_g_weak : forall cap b start s,
    start <= length b ->
    let x := j_next_g precord false true cap {| jbuf := b; jstart := start; jstream := s |} in
    jstart (fst x) <= length (jbuf (fst x)) /\ ok_outcome (snd x) /\
    length (jbuf (fst x)) - jstart (fst x) <= length b + length (fst (read_until 62 s)) - start /\
    (forall rc, snd x = Ok (Some rc) ->
       length (jbuf (fst x)) - jstart (fst x) < length b + length (fst (read_until 62 s)) - start).
  Proof.
    intros cap b start s Hle. cbv zeta. unfold j_next_g. cbn [jstream jstart jbuf].
    destruct (read_until 62 s) as [r s']. cbn [fst snd].
    set (buf := b ++ r).
    assert (length buf = length b + length r) as Lbuf by apply app_length.
    assert (exists bytes,
      (if length r =? 0
       then if start <=? length buf then Ok (skipn start buf) else Panic 31
       else if start + length r <? length buf then Ok (firstn (length r + 1) (skipn start buf))
            else if true then (if start <=? length buf then Ok (skipn start buf) else Panic 31) else Panic 32)
      = Ok bytes /\ length bytes <= length buf - start) as [bytes [ES Lb]].
    { assert (start <=? length buf = true) as T by (apply Nat.leb_le; lia).
      destruct (length r =? 0).
      - rewrite T. eexists. split; [reflexivity|]. rewrite skipn_length. lia.
      - destruct (start + length r <? length buf).
        + eexists. split; [reflexivity|]. rewrite firstn_length, skipn_length. lia.
        + rewrite T. eexists. split; [reflexivity|]. rewrite skipn_length. lia. }
    rewrite ES.
    destruct (utf8_decode bytes) as [text|] eqn:ED.
    2: { cbn [fst snd jbuf jstart]. repeat split; try exact I; try lia. intros rc C. discriminate. }
    destruct ((length r =? 0) && is_nil (trim text)).
    { cbn [fst snd jbuf jstart]. repeat split; try exact I; try lia. intros rc C. discriminate. }
    pose proof (Hp text) as HP.
    destruct (precord text) as [rest n' rec| | | |]; try contradiction.
    2,3: cbn [fst snd jbuf jstart]; repeat split; try exact I; try lia; intros rc C; discriminate.
    destruct HP as [pre [Et [_ e]]]. unfold lf_spec in e.
    pose proof (utf8_decode_len bytes text ED) as L1.
    assert (str_len text = str_len pre + str_len rest) as L2 by (rewrite Et; apply str_len_app).
    pose proof (str_len_ends_lf pre e) as L3.
    assert (str_len rest <=? length bytes = true) as T1 by (apply Nat.leb_le; lia).
    rewrite T1.
    set (c := length bytes - str_len rest).
    assert (1 <= c /\ c <= length bytes) as [Lc1 Lc2] by (unfold c; lia).
    destruct (cap / 2 <? start + c).
    - assert (start + c <=? length buf = true) as T2 by (apply Nat.leb_le; lia).
      rewrite T2. cbn [fst snd jbuf jstart]. rewrite skipn_length.
      repeat split; try exact I; try lia; intros rc _; lia.
    - cbn [fst snd jbuf jstart]. repeat split; try exact I; try lia; intros rc _; lia.
  Qed.

  Definition einv (st : jstate_e) : Prop := wf_estream (estr st) /\ estart st <= length (ebuf st).
  (* the unread bytes: what the buffer holds after `start` plus what the stream still has *)
  Definition emu (st : jstate_e) : nat := length (ebuf st) - estart st + elen (estr st).

  Lemma j_next_e_total : forall cap st, einv st ->
    einv (fst (j_next_e_g true precord cap st)) /\
    ok_outcome (snd (j_next_e_g true precord cap st)) /\
    emu (fst (j_next_e_g true precord cap st)) <= emu st /\
    (forall rc, snd (j_next_e_g true precord cap st) = Ok (Some rc) ->
                emu (fst (j_next_e_g true precord cap st)) < emu st).
  Proof.
    intros cap [b start es] [Hwf Hle]. cbn [estr estart ebuf] in *.
    unfold j_next_e_g, emu. cbn [estr estart ebuf].
    pose proof (read_until_e_wf 62 es Hwf) as W.
    pose proof (read_until_e_bytes 62 es Hwf) as B.
    pose proof (read_until_e_shape 62 es Hwf) as Sh.
    destruct (read_until_e 62 es) as [[r e] es']. cbn [fst snd] in *.
    assert (elen es = length r + elen es') as Le.
    { unfold elen. rewrite B, app_length. reflexivity. }
    destruct e.
    - cbn [fst snd estr estart ebuf]. unfold einv. cbn [estr estart ebuf]. rewrite app_length.
      repeat split; try exact I; try exact W; try lia. intros rc C. discriminate.
    - specialize (Sh eq_refl).
      assert (read_until 62 (replay_stream r (negb (is_nil es'))) =
              (r, if negb (is_nil es') then [[62%N]] else [])) as Rp.
      { apply read_until_replay. destruct Sh as [Sh|[Hn Hs]]; [left; exact Sh|right].
        split; [exact Hn|]. rewrite Hs. reflexivity. }
      pose proof (j_next_g_weak cap b start (replay_stream r (negb (is_nil es'))) Hle) as L.
      cbv zeta in L. rewrite Rp in L. cbn [fst] in L.
      destruct (j_next_g precord false true cap
                  {| jbuf := b; jstart := start; jstream := replay_stream r (negb (is_nil es')) |}) as [st' o].
      cbn [fst snd] in *. destruct L as [L1 [L2 [L3 L4]]].
      unfold einv. cbn [estr estart ebuf].
      repeat split; try assumption; try lia. intros rc C. specialize (L4 rc C). lia.
  Qed.

  (* any number of calls: exactly that many outcomes, none of them a panic or a hang *)
  Lemma j_polls_e_total : forall n caps k st, einv st ->
    length (j_polls_e_g true precord n caps k st) = n /\
    Forall ok_outcome (j_polls_e_g true precord n caps k st).
  Proof.
    induction n as [|n IH]; intros caps k st Hi; [split; [reflexivity|constructor]|].
    cbn [j_polls_e_g]. pose proof (j_next_e_total (caps k) st Hi) as [I2 [O2 _]].
    destruct (j_next_e_g true precord (caps k) st) as [st' o]. cbn [fst snd] in *.
    destruct (IH caps (S k) st' I2) as [L F].
    destruct o as [[r|]|e|s|]; try contradiction; cbn [length]; (split; [rewrite L; reflexivity|constructor; [exact I|exact F]]).
  Qed.

  (* the consumer that stops at End or at the first error terminates: fuel > unread bytes *)
  Lemma j_run_e_total : forall fuel caps k st, einv st -> emu st < fuel ->
    Holds_c15 (j_run_e_g true precord fuel true caps k st).
  Proof.
    induction fuel as [|fuel IH]; intros caps k st Hi Hm; [lia|].
    cbn [j_run_e_g]. pose proof (j_next_e_total (caps k) st Hi) as [I2 [O2 [M2 M3]]].
    destruct (j_next_e_g true precord (caps k) st) as [st' o]. cbn [fst snd] in *.
    destruct o as [[r|]|e|s|]; try contradiction.
    - specialize (M3 r eq_refl).
      destruct (IH caps (S k) st' I2 ltac:(lia)) as [rs [o' [E Ho]]].
      exists (r :: rs), o'. split; [cbn; rewrite E; reflexivity|exact Ho].
    - exists [], (Ok None). split; [reflexivity|left; reflexivity].
    - exists [], (Err e). split; [reflexivity|right; eauto].
  Qed.

  (* Reader::new: whatever U and S are, as long as the start they give is inside the buffer *)
  Lemma j_new_e_inv : forall U S es, wf_estream es -> U <= S ->
    einv (j_new_e U S es) /\ emu (j_new_e U S es) <= elen es.
  Proof.
    intros U S es H HU. unfold j_new_e, einv, emu.
    pose proof (read_until_e_wf 62 es H) as W.
    pose proof (read_until_e_bytes 62 es H) as B.
    destruct (read_until_e 62 es) as [[r e] es']. cbn [fst snd estr estart ebuf] in *.
    assert (elen es = length r + elen es') as Le.
    { unfold elen. rewrite B, app_length. reflexivity. }
    repeat split; try exact W; destruct e; lia.
  Qed.
End JPoll.

(* ---------- End is final, at the level of the polling consumer ---------- *)

Definition is_end {C} (o : outcome C) : bool := match o with Ok None => true | _ => false end.

Lemma end_final_repeat : forall {C} n, forallb (@is_end C) (repeat (Ok None) n) = true.
Proof. intros C. induction n as [|n IH]; [reflexivity|exact IH]. Qed.

(* what the boolean says: after an End every later outcome is an End *)
Lemma end_final_sound : forall {C} (l : list (outcome C)), end_final l = true ->
  forall i j, nth_error l i = Some (Ok None) -> i <= j -> j < length l -> nth_error l j = Some (Ok None).
Proof.
  intros C. induction l as [|o l IH]; intros H i j Hi Hij Hj; [cbn in Hj; lia|].
  destruct i as [|i].
  - cbn in Hi. injection Hi as ->. cbn [end_final] in H.
    destruct j as [|j]; [reflexivity|]. cbn [nth_error length] in *.
    rewrite forallb_forall in H.
    destruct (nth_error l j) as [x|] eqn:E; [|apply nth_error_None in E; lia].
    specialize (H x (nth_error_In l j E)). destruct x as [[r|]|e|s|]; try discriminate H. reflexivity.
  - destruct j as [|j]; [lia|]. cbn [nth_error length] in *.
    apply (IH) with (i := i); try lia; try assumption.
    destruct o as [[r|]|e|s|]; cbn [end_final] in H; try exact H.
    clear - H. induction l as [|x l IHl]; [reflexivity|].
    cbn [forallb] in H. apply andb_prop in H. destruct H as [H1 H2].
    destruct x as [[r|]|e|s|]; try discriminate H1. cbn [end_final]. exact H2.
Qed.

Lemma j_next_e_wf : forall guard precord cap st, wf_estream (estr st) ->
  wf_estream (estr (fst (j_next_e_g guard precord cap st))).
Proof.
  intros guard precord cap st H. unfold j_next_e_g.
  pose proof (read_until_e_wf 62 (estr st) H) as W.
  destruct (read_until_e 62 (estr st)) as [[r e] es']. cbn [snd] in W.
  destruct e; [exact W|].
  destruct (j_next_g precord false guard cap _) as [st' o]. exact W.
Qed.

Lemma j_polls_e_at_end : forall guard precord n caps k st,
  (forall cap', j_next_e_g guard precord cap' st = (st, Ok None)) ->
  j_polls_e_g guard precord n caps k st = repeat (Ok None) n.
Proof.
  intros guard precord. induction n as [|n IH]; intros caps k st H; [reflexivity|].
  cbn [j_polls_e_g repeat]. rewrite (H (caps k)). rewrite (IH caps (S k) st H). reflexivity.
Qed.

Lemma j_polls_e_end_final : forall guard precord n caps k st, wf_estream (estr st) ->
  end_final (j_polls_e_g guard precord n caps k st) = true.
Proof.
  intros guard precord. induction n as [|n IH]; intros caps k st H; [reflexivity|].
  cbn [j_polls_e_g].
  pose proof (j_next_e_wf guard precord (caps k) st H) as W.
  pose proof (j_next_e_end_final guard precord (caps k) st H) as Fin.
  destruct (j_next_e_g guard precord (caps k) st) as [st' o]. cbn [fst snd] in *.
  destruct o as [[r|]|e|s|]; cbn [end_final]; try reflexivity; try (apply IH; exact W).
  rewrite (j_polls_e_at_end guard precord n caps (S k) st' (Fin eq_refl)). apply end_final_repeat.
Qed.

(* ---------- UniPROBE ---------- *)

Lemma u_fill_e_eof : forall fuel buf s b s', wf_estream s ->
  u_fill_e fuel buf s = XEof b s' -> s' = [].
Proof.
  induction fuel as [|fuel IH]; intros buf s b s' H E; [discriminate E|].
  cbn [u_fill_e] in E.
  pose proof (read_line_e_facts s H) as [W _]. pose proof (read_line_e_zero s) as Z.
  destruct (read_line_e s) as [o s1]. cbn [fst snd] in *.
  destruct o as [n cs|cs]; [|discriminate E].
  destruct n as [|n].
  - injection E as <- <-. exact (proj1 (Z cs H eq_refl)).
  - destruct (is_nil (trim (buf ++ cs))); [exact (IH _ _ _ _ W E)|discriminate E].
Qed.

Section UPoll.
  Variable A : alphabet.
  Variable parse_f32 : list N -> option F32.t.

  (* End is final: the call that answered End left the stream exhausted and `line` false *)
  Lemma u_next_e_end_final : forall F st, 0 < F -> wf_estream (xstr st) ->
    snd (u_next_e A parse_f32 F st) = Ok None ->
    u_next_e A parse_f32 F (fst (u_next_e A parse_f32 F st)) = (fst (u_next_e A parse_f32 F st), Ok None).
  Proof.
    intros F [buf line s] HF H E. cbn [xstr] in H. unfold u_next_e in E |- * at 2 3.
    cbn [xstr xbuf xline] in *.
    destruct line.
    { exfalso. revert E.
      repeat match goal with |- context [match ?x with _ => _ end] => destruct x end;
        cbn [snd]; intros E; discriminate E. }
    pose proof (u_fill_e_eof F buf s) as Z.
    destruct (u_fill_e F buf s) as [b s1|b s1|b s1|].
    - exfalso. revert E.
      repeat match goal with |- context [match ?x with _ => _ end] => destruct x end;
        cbn [snd]; intros E; discriminate E.
    - cbn [fst snd]. rewrite (Z b s1 H eq_refl). unfold u_next_e. cbn [xstr xbuf xline].
      destruct F as [|F]; [lia|]. reflexivity.
    - cbn [snd] in E. discriminate E.
    - cbn [snd] in E. discriminate E.
  Qed.
End UPoll.

Section UPollTotal.
  Variable A : alphabet.
  Hypothesis HA : forall c k, aindex A c = Some k -> k < aK A.
  Variable parse_f32 : list N -> option F32.t.

  Lemma u_polls_e_total : forall F n st, uinv_e st -> umu_e st < F ->
    length (u_polls_e A parse_f32 F n st) = n /\ Forall ok_outcome (u_polls_e A parse_f32 F n st).
  Proof.
    intros F. induction n as [|n IH]; intros st Hi HF; [split; [reflexivity|constructor]|].
    cbn [u_polls_e]. pose proof (u_next_e_total A HA parse_f32 F st Hi HF) as [I2 [O2 [M2 _]]].
    destruct (u_next_e A parse_f32 F st) as [st' o]. cbn [fst snd] in *.
    destruct (IH st' I2 ltac:(lia)) as [L Fo].
    destruct o as [[r|]|e|s|]; try contradiction; cbn [length];
      (split; [rewrite L; reflexivity|constructor; [exact I|exact Fo]]).
  Qed.

  Lemma u_polls_e_at_end : forall F n st,
    u_next_e A parse_f32 F st = (st, Ok None) -> u_polls_e A parse_f32 F n st = repeat (Ok None) n.
  Proof.
    intros F. induction n as [|n IH]; intros st H; [reflexivity|].
    cbn [u_polls_e repeat]. rewrite H. rewrite (IH st H). reflexivity.
  Qed.

  Lemma u_polls_e_end_final : forall F n st, uinv_e st -> umu_e st < F ->
    end_final (u_polls_e A parse_f32 F n st) = true.
  Proof.
    intros F. induction n as [|n IH]; intros st Hi HF; [reflexivity|].
    cbn [u_polls_e]. pose proof (u_next_e_total A HA parse_f32 F st Hi HF) as [I2 [O2 [M2 _]]].
    pose proof (u_next_e_end_final A parse_f32 F st ltac:(lia) Hi) as Fin.
    destruct (u_next_e A parse_f32 F st) as [st' o]. cbn [fst snd] in *.
    destruct o as [[r|]|e|s|]; cbn [end_final]; try reflexivity; try (apply IH; [exact I2|lia]).
    rewrite (u_polls_e_at_end F n st' (Fin eq_refl)). apply end_final_repeat.
  Qed.

  Theorem uniprobe_polls_e_total : forall n es, wf_estream es ->
    length (uniprobe_polls_e A parse_f32 n es) = n /\ Forall ok_outcome (uniprobe_polls_e A parse_f32 n es).
  Proof.
    intros n es H. unfold uniprobe_polls_e. apply u_polls_e_total; [exact H|].
    unfold umu_e, u_new_e, elen, read_fuel_e; cbn [xstr]; lia.
  Qed.

  Theorem uniprobe_polls_e_end_final : forall n es, wf_estream es ->
    end_final (uniprobe_polls_e A parse_f32 n es) = true.
  Proof.
    intros n es H. unfold uniprobe_polls_e. apply u_polls_e_end_final; [exact H|].
    unfold umu_e, u_new_e, elen, read_fuel_e; cbn [xstr]; lia.
  Qed.
End UPollTotal.

(* ---------- the JASPAR readers from Reader::new on ---------- *)

Section JPollTop.
  Variable precord : parser (record N).
  Hypothesis Hp : pspec lf_spec precord.
  Variables U S : nat.
  Hypothesis HU : U <= S.        (* unwrap_or(U).saturating_sub(S): start = 0 after a failed first read *)

  Theorem j_polls_e_new_total : forall n caps es, wf_estream es ->
    length (j_polls_e_g true precord n caps 0 (j_new_e U S es)) = n /\
    Forall ok_outcome (j_polls_e_g true precord n caps 0 (j_new_e U S es)).
  Proof.
    intros n caps es H. apply (j_polls_e_total precord Hp).
    exact (proj1 (j_new_e_inv U S es H HU)).
  Qed.

  Theorem j_read_e_total : forall caps es, wf_estream es ->
    Holds_c15 (j_read_e_g true U S precord caps es).
  Proof.
    intros caps es H. unfold j_read_e_g. destruct (j_new_e_inv U S es H HU) as [Hi Hm].
    apply (j_run_e_total precord Hp); [exact Hi|]. unfold elen in Hm. lia.
  Qed.
End JPollTop.

Theorem j_polls_e_new_end_final : forall guard precord U S n caps es, wf_estream es ->
  end_final (j_polls_e_g guard precord n caps 0 (j_new_e U S es)) = true.
Proof.
  intros guard precord U S n caps es H. apply j_polls_e_end_final.
  unfold j_new_e. pose proof (read_until_e_wf 62 es H) as W.
  destruct (read_until_e 62 es) as [[r e] es']. exact W.
Qed.

(* ---------- the polling consumer extends the consumer that stops at End / the first error ---------- *)

Lemma j_run_polls_prefix : forall guard precord fuel caps k st n,
  ~ In OutOfFuel (j_run_e_g guard precord fuel true caps k st) ->
  length (j_run_e_g guard precord fuel true caps k st) <= n ->
  firstn (length (j_run_e_g guard precord fuel true caps k st)) (j_polls_e_g guard precord n caps k st)
  = j_run_e_g guard precord fuel true caps k st.
Proof.
  intros guard precord. induction fuel as [|fuel IH]; intros caps k st n Hf Hn.
  - exfalso. apply Hf. left. reflexivity.
  - cbn [j_run_e_g] in *. destruct n as [|n].
    { exfalso. destruct (j_next_e_g guard precord (caps k) st) as [st' o].
      destruct o as [[r|]|e|s|]; cbn [length] in Hn; lia. }
    cbn [j_polls_e_g].
    destruct (j_next_e_g guard precord (caps k) st) as [st' o].
    destruct o as [[r|]|e|s|]; cbn [length firstn] in *; try reflexivity.
    f_equal. apply IH; [intros C; apply Hf; right; exact C|lia].
Qed.

Lemma holds_c15_no_fuel : forall {C} (l : list (outcome C)), Holds_c15 l -> ~ In OutOfFuel l.
Proof.
  intros C l [rs [o [-> Ho]]] Hin. apply in_app_or in Hin. destruct Hin as [Hin|[Hin|[]]].
  - apply in_map_iff in Hin. destruct Hin as [x [E _]]. discriminate E.
  - subst o. destruct Ho as [E|[e E]]; discriminate E.
Qed.

Section UPollPrefix.
  Variable A : alphabet.
  Variable parse_f32 : list N -> option F32.t.

  Lemma u_run_polls_prefix : forall F fuel st n,
    ~ In OutOfFuel (u_run_e A parse_f32 F fuel true st) ->
    length (u_run_e A parse_f32 F fuel true st) <= n ->
    firstn (length (u_run_e A parse_f32 F fuel true st)) (u_polls_e A parse_f32 F n st)
    = u_run_e A parse_f32 F fuel true st.
  Proof.
    intros F. induction fuel as [|fuel IH]; intros st n Hf Hn.
    - exfalso. apply Hf. left. reflexivity.
    - cbn [u_run_e] in *. destruct n as [|n].
      { exfalso. destruct (u_next_e A parse_f32 F st) as [st' o].
        destruct o as [[r|]|e|s|]; cbn [length] in Hn; lia. }
      cbn [u_polls_e].
      destruct (u_next_e A parse_f32 F st) as [st' o].
      destruct o as [[r|]|e|s|]; cbn [length firstn] in *; try reflexivity.
      f_equal. apply IH; [intros C; apply Hf; right; exact C|lia].
  Qed.
End UPollPrefix.

(* ---------- a polling consumer on a file that reads as records then End ---------- *)

Lemma forallb_end_repeat : forall {C} (l : list (outcome C)),
  forallb (fun o => match o with Ok None => true | _ => false end) l = true -> l = repeat (Ok None) (length l).
Proof.
  intros C. induction l as [|o l IH]; intros H; [reflexivity|].
  cbn [forallb] in H. apply andb_prop in H. destruct H as [H1 H2].
  destruct o as [[r|]|e|s|]; try discriminate H1. cbn [length repeat]. f_equal. exact (IH H2).
Qed.

Lemma polls_records_then_end : forall {C} (recs : list (record C)) (P : list (outcome C)),
  firstn (S (length recs)) P = map (fun r => Ok (Some r)) recs ++ [Ok None] ->
  end_final P = true ->
  P = map (fun r => Ok (Some r)) recs ++ repeat (Ok None) (length P - length recs).
Proof.
  intros C. induction recs as [|r recs IH]; intros P HF HE.
  - destruct P as [|o P']; [discriminate HF|]. cbn in HF. injection HF as ->.
    cbn [end_final] in HE. cbn [map app length]. rewrite Nat.sub_0_r. cbn [repeat]. f_equal.
    exact (forallb_end_repeat P' HE).
  - destruct P as [|o P']; [discriminate HF|]. cbn [length map app firstn] in HF.
    injection HF as -> HF. cbn [end_final] in HE. cbn [map app length Nat.sub]. f_equal.
    exact (IH P' HF HE).
Qed.

Section JPollExtend.
  Variable precord : parser (record N).
  Hypothesis Hp : pspec lf_spec precord.
  Variables U S : nat.
  Hypothesis HU : U <= S.

  Theorem j_polls_extend_read : forall n caps es, wf_estream es ->
    length (j_read_e_g true U S precord caps es) <= n ->
    firstn (length (j_read_e_g true U S precord caps es)) (j_polls_e_g true precord n caps 0 (j_new_e U S es))
    = j_read_e_g true U S precord caps es.
  Proof.
    intros n caps es H Hn. pose proof (j_read_e_total precord Hp U S HU caps es H) as T.
    apply holds_c15_no_fuel in T. exact (j_run_polls_prefix _ _ _ caps 0 _ n T Hn).
  Qed.

  (* a file that the stop-consumer reads as records then End: the polling consumer sees the records,
     then End for ever *)
  Theorem j_polls_records_then_end : forall n caps es recs, wf_estream es ->
    j_read_e_g true U S precord caps es = map (fun r => Ok (Some r)) recs ++ [Ok None] ->
    length recs < n ->
    j_polls_e_g true precord n caps 0 (j_new_e U S es) = map (fun r => Ok (Some r)) recs ++ repeat (Ok None) (n - length recs).
  Proof.
    intros n caps es recs H R Hn.
    pose proof (j_polls_e_new_total precord Hp U S HU n caps es H) as [L _].
    pose proof (j_polls_e_new_end_final true precord U S n caps es H) as E.
    pose proof (j_polls_extend_read n caps es H) as X. rewrite R in X.
    rewrite app_length, map_length in X. cbn [length] in X. rewrite Nat.add_1_r in X.
    specialize (X ltac:(lia)).
    pose proof (polls_records_then_end recs _ X E) as P.
    refine (eq_trans P _). do 3 f_equal. exact L.
  Qed.
End JPollExtend.

Section UPollExtend.
  Variable A : alphabet.
  Hypothesis HA : forall c k, aindex A c = Some k -> k < aK A.
  Variable parse_f32 : list N -> option F32.t.

  Theorem uniprobe_polls_extend_read : forall n es, wf_estream es ->
    length (uniprobe_read_e A parse_f32 es) <= n ->
    firstn (length (uniprobe_read_e A parse_f32 es)) (uniprobe_polls_e A parse_f32 n es) = uniprobe_read_e A parse_f32 es.
  Proof.
    intros n es H Hn. pose proof (uniprobe_read_e_total A HA parse_f32 es H) as T.
    apply holds_c15_no_fuel in T. exact (u_run_polls_prefix A parse_f32 _ _ _ n T Hn).
  Qed.

  Theorem uniprobe_polls_records_then_end : forall n es recs, wf_estream es ->
    uniprobe_read_e A parse_f32 es = map (fun r => Ok (Some r)) recs ++ [Ok None] ->
    length recs < n ->
    uniprobe_polls_e A parse_f32 n es = map (fun r => Ok (Some r)) recs ++ repeat (Ok None) (n - length recs).
  Proof.
    intros n es recs H R Hn.
    pose proof (uniprobe_polls_e_total A HA parse_f32 n es H) as [L _].
    pose proof (uniprobe_polls_e_end_final A HA parse_f32 n es H) as E.
    pose proof (uniprobe_polls_extend_read n es H) as X. rewrite R in X.
    rewrite app_length, map_length in X. cbn [length] in X. rewrite Nat.add_1_r in X.
    specialize (X ltac:(lia)).
    pose proof (polls_records_then_end recs _ X E) as P.
    refine (eq_trans P _). do 3 f_equal. exact L.
  Qed.
End UPollExtend.
