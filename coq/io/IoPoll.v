(* The polling consumer (C15: EACH request for the next record returns a record, an error or
   end of input): Reader::new, then a fixed number of next() calls WHATEVER they return -- the
   calls made after an error and after End included.  Only a panic (or a call that never returns:
   OutOfFuel) ends the list: the harness stops there as well, the object may be broken.
   Streams are the event streams of IoErr.v (data slices, I/O errors, Interrupted).
   Executable definitions only (extracted). *)
From Coq Require Import List NArith ZArith Bool Arith.
From LMBase Require Import Res ListX IEEE.
From LMIo Require Import GenIoAbc IoBase IoNom IoJaspar IoUniprobe IoErr.
Import ListNotations.

(* ---------- JASPAR / JASPAR 2016 ---------- *)

Fixpoint j_polls_e_g (guard : bool) (precord : parser (record N)) (n : nat) (caps : nat -> nat) (k : nat)
         (st : jstate_e) : list (res (option (record N))) :=
  match n with
  | 0 => []
  | S n' =>
      let (st', o) := j_next_e_g guard precord (caps k) st in
      match o with
      | Panic _ | OutOfFuel => [o]
      | _ => o :: j_polls_e_g guard precord n' caps (S k) st'
      end
  end.

(* the state after n calls (None: a call panicked) *)
Fixpoint j_state_after_g (guard : bool) (precord : parser (record N)) (n : nat) (caps : nat -> nat) (k : nat)
         (st : jstate_e) : option jstate_e :=
  match n with
  | 0 => Some st
  | S n' =>
      let (st', o) := j_next_e_g guard precord (caps k) st in
      match o with
      | Panic _ | OutOfFuel => None
      | _ => j_state_after_g guard precord n' caps (S k) st'
      end
  end.

Definition j_polls_e := j_polls_e_g gen_jaspar_slice_guard.

Definition jaspar_polls_e (n : nat) (caps : nat -> nat) (es : estream) : list (res (option (record N))) :=
  j_polls_e (j_record false) n caps 0 (j_new_e gen_jaspar_new_unwrap_or gen_jaspar_new_sub es).

Definition jaspar16_polls_e (A : alphabet) (n : nat) (caps : nat -> nat) (es : estream)
  : list (res (option (record N))) :=
  j_polls_e (j16_record A) n caps 0 (j_new_e gen_jaspar16_new_unwrap_or gen_jaspar16_new_sub es).

(* the unrepaired reader of df3a2dd (plain `&buffer[start..=start + n]`) for the refutation examples *)
Definition jaspar_polls_e_unguarded (n : nat) (caps : nat -> nat) (es : estream) :=
  j_polls_e_g false (j_record false) n caps 0 (j_new_e gen_jaspar_new_unwrap_or gen_jaspar_new_sub es).

(* ---------- UniPROBE ---------- *)

Section UniprobePolls.
  Variable A : alphabet.
  Variable parse_f32 : list N -> option F32.t.

  Fixpoint u_polls_e (F : nat) (n : nat) (st : ustate_e) : list (res (option (record F32.t))) :=
    match n with
    | 0 => []
    | S n' =>
        let (st', o) := u_next_e A parse_f32 F st in
        match o with
        | Panic _ | OutOfFuel => [o]
        | _ => o :: u_polls_e F n' st'
        end
    end.

  Definition uniprobe_polls_e (n : nat) (es : estream) : list (res (option (record F32.t))) :=
    u_polls_e (read_fuel_e es) n (u_new_e es).
End UniprobePolls.

(* ---------- what the harness consumer does with them ---------- *)

(* number of calls of a consumer that asks `post` more times after the first outcome that is
   not a record: position of that outcome + 1 + post *)
Fixpoint first_nonrec {C} (l : list (res (option (record C)))) : nat :=
  match l with
  | Ok (Some _) :: l' => S (first_nonrec l')
  | _ => 0
  end.

(* after End only End (theorems reader_end_is_final): boolean form for the driver *)
Fixpoint end_final {C} (l : list (res (option (record C)))) : bool :=
  match l with
  | [] => true
  | Ok None :: l' => forallb (fun o => match o with Ok None => true | _ => false end) l'
  | _ :: l' => end_final l'
  end.

(* ---------- the statement skeleton the reader models were written for ----------
   translate/io_reader.py re-reads Iterator::next of the three mod.rs files on every run and writes
   the statements it recognises, in source order, into GenIoReader.v (codes documented there);
   C15io.reader_skeleton_is_modelled compares them with these lists.
   JASPAR / JASPAR 2016 (IoJaspar.j_next_g, IoErr.j_next_e_g):
     1 read_until(delimiter, &mut buffer) -> Ok(n)   [read_until_e 62; buf := jbuf st ++ r]
     2 the slice `bytes` (plain or guarded: GenIoAbc.gen_jaspar_slice_guard)
     3 from_utf8, "decoding error" returned before anything is changed   [Err EIo, state st1]
     4 `n == 0 && text.trim().is_empty()` -> None                        [Ok None, state st1]
     5 parse::record, its error returned before anything is changed      [Err ENom, state st1: sticky]
     6 `self.start += bytes.len() - rest.len()`                          [start' ; 16 would be adv_buggy]
     7 the compaction block (copy_within, truncate, start = 0)           [cap / 2 <? start']
     8 Some(Ok(record))     9 the Err(e) arm of read_until: error returned, nothing else touched *)
Definition model_jaspar_next_events : list nat := [1; 2; 3; 4; 5; 6; 7; 8; 9].
Definition model_jaspar_delim : N := 62%N.
(* UniPROBE (IoErr.u_next_e: u_fill_e = codes 1-6, u_id = 7-8 with line/buffer reset 9-10 only on success,
   u_columns_e = 11-14 with the resets 10, 9 after each column, build_matrix / FrequencyMatrix::new = 15-18, 20) *)
Definition model_uniprobe_next_events : list nat :=
  [1; 2; 3; 4; 6; 7; 3; 8; 9; 10; 19; 11; 1; 2; 3; 5; 6; 12; 13; 14; 10; 9; 15; 3; 20; 16; 17; 18].
(* fn header: tag(">") then the identifier, take_until("\n") (IoJaspar.p_header: p_tag [62], p_take_until_nl) *)
Definition model_header_tag : list N := [62%N].
Definition model_header_until : list N := [10%N].
