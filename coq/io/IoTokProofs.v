(* Lexical lemmas about the token-level functions of the io model: span /
   take_while, nom's u32, space0 / space1, and str::trim.  They say what the
   elementary parsers do on "a token followed by a stop character". *)
From Coq Require Import List NArith Bool Arith Lia.
From LMIo Require Import IoBase IoNom IoJaspar IoPrint IoBaseProofs.
Import ListNotations.

(* ---------- span ---------- *)

Lemma span_app_stop : forall p a x r, forallb p a = true -> p x = false -> span p (a ++ x :: r) = (a, x :: r).
Proof.
  intros p a x r Ha Hx. induction a as [|c a IH].
  - cbn [app span]. rewrite Hx. reflexivity.
  - cbn [forallb] in Ha. apply andb_true_iff in Ha. destruct Ha as [Hc Ha].
    cbn [app span]. rewrite Hc, (IH Ha). reflexivity.
Qed.

Lemma span_all : forall p a, forallb p a = true -> span p a = (a, []).
Proof.
  intros p a Ha. induction a as [|c a IH].
  - reflexivity.
  - cbn [forallb] in Ha. apply andb_true_iff in Ha. destruct Ha as [Hc Ha].
    cbn [span]. rewrite Hc, (IH Ha). reflexivity.
Qed.

Lemma span_stop : forall p x r, p x = false -> span p (x :: r) = ([], x :: r).
Proof. intros p x r Hx. cbn [span]. rewrite Hx. reflexivity. Qed.

Lemma span_split : forall p l, l = fst (span p l) ++ snd (span p l).
Proof.
  intros p l. induction l as [|c l IH].
  - reflexivity.
  - cbn [span]. destruct (p c).
    + destruct (span p l) as [a b]. cbn [fst snd app] in *. rewrite <- IH. reflexivity.
    + reflexivity.
Qed.

Lemma span_fst_all : forall p l, forallb p (fst (span p l)) = true.
Proof.
  intros p l. induction l as [|c l IH].
  - reflexivity.
  - cbn [span]. destruct (p c) eqn:Hc.
    + destruct (span p l) as [a b]. cbn [fst forallb] in *. rewrite Hc, IH. reflexivity.
    + reflexivity.
Qed.

(* ---------- decimal tokens ---------- *)

Definition dstep (a c : N) : N := (a * 10 + (c - 48))%N.

Lemma dec_value_app1 : forall tok c, dec_value (tok ++ [c]) = (dec_value tok * 10 + (c - 48))%N.
Proof. intros tok c. unfold dec_value. rewrite fold_left_app. reflexivity. Qed.

Lemma dstep_ge : forall a c, (a <= dstep a c)%N.
Proof. intros a c. unfold dstep. lia. Qed.

Lemma fold_dstep_ge : forall tok acc, (acc <= fold_left dstep tok acc)%N.
Proof.
  induction tok as [|c t IH]; intros acc.
  - cbn [fold_left]. lia.
  - cbn [fold_left]. specialize (IH (dstep acc c)). pose proof (dstep_ge acc c). lia.
Qed.

Lemma u32_loop_token_aux : forall tok acc cnt x r,
  forallb is_digit tok = true -> is_digit x = false ->
  N.leb (fold_left dstep tok acc) u32_max = true ->
  (tok <> [] \/ cnt <> 0) ->
  u32_loop acc cnt (tok ++ x :: r) = POk (x :: r) (cnt + length tok) (fold_left dstep tok acc).
Proof.
  induction tok as [|c t IH]; intros acc cnt x r Hd Hx Hle Hne.
  - cbn [app u32_loop length fold_left]. rewrite Hx.
    destruct cnt as [|n].
    + destruct Hne as [H|H]; exfalso; apply H; reflexivity.
    + rewrite Nat.add_0_r. reflexivity.
  - cbn [forallb] in Hd. apply andb_true_iff in Hd. destruct Hd as [Hc Hd].
    cbn [fold_left] in Hle |- *.
    cbn [app u32_loop length]. rewrite Hc.
    change (acc * 10 + (c - 48))%N with (dstep acc c).
    assert (Hv : N.leb (dstep acc c) u32_max = true).
    { apply N.leb_le. apply N.leb_le in Hle.
      pose proof (fold_dstep_ge t (dstep acc c)). lia. }
    rewrite Hv.
    rewrite (IH (dstep acc c) (S cnt) x r Hd Hx Hle).
    + rewrite Nat.add_succ_r. reflexivity.
    + right. discriminate.
Qed.

Lemma u32_loop_token : forall tok acc cnt x r,
  forallb is_digit tok = true -> is_digit x = false ->
  N.leb (fold_left (fun a c => (a * 10 + (c - 48))%N) tok acc) u32_max = true ->
  (tok <> [] \/ cnt <> 0) ->
  u32_loop acc cnt (tok ++ x :: r) = POk (x :: r) (cnt + length tok) (fold_left (fun a c => (a * 10 + (c - 48))%N) tok acc).
Proof. exact u32_loop_token_aux. Qed.

Lemma wf_count_inv : forall t, wf_count t = true ->
  t <> [] /\ forallb is_digit t = true /\ N.leb (dec_value t) u32_max = true.
Proof.
  intros t H. unfold wf_count in H.
  apply andb_true_iff in H. destruct H as [H H3].
  apply andb_true_iff in H. destruct H as [H1 H2].
  split; [|split]; auto.
  intros E. subst t. discriminate H1.
Qed.

Lemma u32_token : forall tok x r, wf_count tok = true -> is_digit x = false ->
  p_u32 (tok ++ x :: r) = POk (x :: r) (length tok) (dec_value tok).
Proof.
  intros tok x r Hw Hx. apply wf_count_inv in Hw. destruct Hw as [Hne [Hd Hle]].
  unfold p_u32. unfold dec_value in *.
  rewrite (u32_loop_token tok 0%N 0 x r Hd Hx Hle (or_introl Hne)).
  reflexivity.
Qed.

Lemma u32_not_digit : forall x r, is_digit x = false -> exists k, p_u32 (x :: r) = PErr k.
Proof.
  intros x r Hx. exists KDigit. unfold p_u32. cbn [u32_loop]. rewrite Hx. reflexivity.
Qed.

(* ---------- blanks ---------- *)

Lemma space1_blanks : forall b x r, blank1 b = true -> is_blank x = false ->
  p_space1 (b ++ x :: r) = POk (x :: r) (length b) b.
Proof.
  intros b x r Hb Hx. unfold blank1 in Hb. apply andb_true_iff in Hb. destruct Hb as [Hn Ha].
  unfold all_blank in Ha.
  unfold p_space1, p_take_while1. rewrite (span_app_stop is_blank b x r Ha Hx).
  destruct b as [|c b]; [discriminate Hn | reflexivity].
Qed.

Lemma space1_fail : forall x r, is_blank x = false -> exists k, p_space1 (x :: r) = PErr k.
Proof.
  intros x r Hx. exists KSpace. unfold p_space1, p_take_while1.
  rewrite (span_stop is_blank x r Hx). reflexivity.
Qed.

Lemma space0_blanks : forall b x r, all_blank b = true -> is_blank x = false ->
  p_space0 (b ++ x :: r) = POk (x :: r) (length b) b.
Proof.
  intros b x r Ha Hx. unfold all_blank in Ha.
  unfold p_space0, p_take_while. rewrite (span_app_stop is_blank b x r Ha Hx). reflexivity.
Qed.

(* ---------- str::trim ---------- *)

Lemma drop_while_all : forall p l, forallb p l = true -> drop_while p l = [].
Proof.
  intros p l H. induction l as [|c l IH].
  - reflexivity.
  - cbn [forallb] in H. apply andb_true_iff in H. destruct H as [Hc H].
    cbn [drop_while]. rewrite Hc. exact (IH H).
Qed.

Lemma drop_while_app_stop : forall p a x r, forallb p a = true -> p x = false -> drop_while p (a ++ x :: r) = x :: r.
Proof.
  intros p a x r Ha Hx. induction a as [|c a IH].
  - cbn [app drop_while]. rewrite Hx. reflexivity.
  - cbn [forallb] in Ha. apply andb_true_iff in Ha. destruct Ha as [Hc Ha].
    cbn [app drop_while]. rewrite Hc. exact (IH Ha).
Qed.

Lemma forallb_rev_true : forall (p : N -> bool) l, forallb p l = true -> forallb p (rev l) = true.
Proof.
  intros p l H. apply forallb_forall. intros y Hy. apply in_rev in Hy.
  rewrite forallb_forall in H. exact (H y Hy).
Qed.

Lemma trim_all_ws : forall w, forallb is_white_space w = true -> trim w = [].
Proof.
  intros w H. unfold trim, trim_end, trim_start.
  rewrite (drop_while_all is_white_space w H). reflexivity.
Qed.

Lemma trim_spec : forall w1 d w2,
  forallb is_white_space w1 = true -> forallb is_white_space w2 = true ->
  match d with [] => false | c :: _ => negb (is_white_space c) end = true ->
  match rev d with [] => false | c :: _ => negb (is_white_space c) end = true ->
  trim (w1 ++ d ++ w2) = d.
Proof.
  intros w1 d w2 H1 H2 Hh Ht. unfold trim, trim_end, trim_start.
  destruct d as [|c d']; [discriminate Hh|].
  apply negb_true_iff in Hh.
  change ((c :: d') ++ w2) with (c :: (d' ++ w2)).
  rewrite (drop_while_app_stop is_white_space w1 c (d' ++ w2) H1 Hh).
  change (c :: (d' ++ w2)) with ((c :: d') ++ w2).
  rewrite rev_app_distr.
  remember (c :: d') as d eqn:Ed.
  destruct (rev d) as [|e rd] eqn:Er; [discriminate Ht|].
  apply negb_true_iff in Ht.
  rewrite (drop_while_app_stop is_white_space (rev w2) e rd (forallb_rev_true _ _ H2) Ht).
  rewrite <- Er. apply rev_involutive.
Qed.

Lemma blank_is_ws : forall c, is_blank c = true -> is_white_space c = true.
Proof.
  intros c H. unfold is_blank in H. apply orb_true_iff in H.
  destruct H as [H|H]; apply N.eqb_eq in H; subst c; reflexivity.
Qed.

Lemma digit_not_blank : forall c, is_digit c = true -> is_blank c = false.
Proof.
  intros c H. unfold is_digit, in_range in H. apply andb_true_iff in H. destruct H as [Hl Hh].
  apply N.leb_le in Hl. apply N.leb_le in Hh.
  unfold is_blank. apply orb_false_iff. split; apply N.eqb_neq; lia.
Qed.

Lemma wf_count_head : forall t, wf_count t = true -> exists c r, t = c :: r /\ is_digit c = true.
Proof.
  intros t H. apply wf_count_inv in H. destruct H as [Hne [Hd _]].
  destruct t as [|c r]; [exfalso; apply Hne; reflexivity|].
  exists c, r. split; [reflexivity|].
  cbn [forallb] in Hd. apply andb_true_iff in Hd. tauto.
Qed.
