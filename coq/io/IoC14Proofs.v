(* Assembly of the C14 theorems for JASPAR raw and JASPAR 2016. *)
From Coq Require Import List NArith Bool Arith Lia.
From LMBase Require Import Res ListX.
From LMIo Require Import IoBase IoNom IoJaspar IoPrint IoBaseProofs IoCheckProofs IoUtf8Proofs IoTokProofs
  IoMatrixProofs IoHeaderProofs IoAbs IoRoundtrip IoRecordProofs.
Import ListNotations.

Lemma utf8_encode_concat_map : forall {T} (pr : T -> list N) rs,
  utf8_encode (concat (map pr rs)) = concat (map (fun q => utf8_encode (pr q)) rs).
Proof.
  intros T pr. induction rs as [|q rs IH]; [reflexivity|].
  cbn [map concat]. rewrite utf8_encode_app. rewrite IH. reflexivity.
Qed.

Lemma forallb_Forall : forall {T} (f : T -> bool) l, forallb f l = true -> Forall (fun x => f x = true) l.
Proof. intros T f l H. apply Forall_forall. apply forallb_forall. exact H. Qed.

(* neither the capacity oracle (when the buffer is compacted) ... *)
Lemma compaction_transparent_lemma : forall precord caps1 caps2 s,
  j_read precord caps1 s = j_read precord caps2 s.
Proof. intros. rewrite !j_read_abs. reflexivity. Qed.

(* ... nor the chunking of the stream changes what the reader returns *)
Lemma j_read_chunk_independent_lemma : forall precord caps1 caps2 s1 s2,
  wf_stream s1 -> wf_stream s2 -> stream_bytes s1 = stream_bytes s2 ->
  j_read precord caps1 s1 = j_read precord caps2 s2.
Proof. intros. rewrite !j_read_abs. apply a_read_chunk; assumption. Qed.

Lemma jaspar_roundtrip_lemma : forall caps prefix rs suffix s,
  rs <> [] -> forallb wf_jaspar rs = true -> wf_prefix prefix = true -> wf_suffix suffix = true ->
  wf_stream s -> stream_bytes s = print_file print_jaspar prefix rs suffix ->
  jaspar_read caps s = map (fun p => Ok (Some (record_of Dna 0%N dec_value (snd p)))) rs ++ [Ok None].
Proof.
  intros caps prefix rs suffix s Hne Hwf Hpre Hsuf Hs Eb. unfold jaspar_read. rewrite j_read_abs.
  apply (a_read_roundtrip (j_record false) (style * src) print_jaspar
           (fun p => record_of Dna 0%N dec_value (snd p)) (fun p => wf_jaspar p = true)) with (prefix := prefix) (suffix := suffix);
    try assumption.
  - intros p G. exact (print_jaspar_shape p G).
  - intros [y r] tail G _. exact (j_record_print y r tail G).
  - apply forallb_Forall. exact Hwf.
  - unfold stream_bytes, print_file in Eb. rewrite Eb. unfold enc_all. rewrite utf8_encode_concat_map. reflexivity.
Qed.

Lemma jaspar16_roundtrip_lemma : forall A caps prefix rs suffix s,
  wf_alphabet A ->
  rs <> [] -> forallb (wf_jaspar16 A) rs = true -> wf_prefix prefix = true -> wf_suffix suffix = true ->
  wf_stream s -> stream_bytes s = print_file print_jaspar16 prefix rs suffix ->
  jaspar16_read A caps s = map (fun p => Ok (Some (record_of A 0%N dec_value (snd p)))) rs ++ [Ok None].
Proof.
  intros A caps prefix rs suffix s HA Hne Hwf Hpre Hsuf Hs Eb. unfold jaspar16_read. rewrite j_read_abs.
  apply (a_read_roundtrip (j16_record A) (style * src) print_jaspar16
           (fun p => record_of A 0%N dec_value (snd p)) (fun p => wf_jaspar16 A p = true)) with (prefix := prefix) (suffix := suffix);
    try assumption.
  - intros p G. exact (print_jaspar16_shape A p HA G).
  - intros [y r] tail G Ht. apply (j16_record_print A HA y r tail G).
    destruct Ht as [->|Ht]; [apply stops_62; exact HA|apply stops_suffix; assumption].
  - apply forallb_Forall. exact Hwf.
  - unfold stream_bytes, print_file in Eb. rewrite Eb. unfold enc_all. rewrite utf8_encode_concat_map. reflexivity.
Qed.

(* a file without any record: only white space *)
Lemma skipn_forallb : forall {T} (f : T -> bool) n l, forallb f l = true -> forallb f (skipn n l) = true.
Proof.
  intros T f n. induction n as [|n IH]; intros l H; [exact H|]. destruct l as [|x l]; [reflexivity|].
  cbn [skipn]. cbn [forallb] in H. apply andb_true_iff in H. apply IH. tauto.
Qed.

Lemma j_read_blank_file_lemma : forall precord caps suffix s,
  wf_suffix suffix = true -> wf_stream s -> stream_bytes s = suffix ->
  j_read precord caps s = [Ok None].
Proof.
  intros precord caps suffix s Hsuf Hs Eb. rewrite j_read_abs. unfold a_read.
  assert (~ In 62%N (concat s)) as Hn by (unfold stream_bytes in Eb; rewrite Eb; apply wf_suffix_no62; exact Hsuf).
  destruct (read_until_notfound 62 s Hs Hn) as [Er Es].
  destruct (read_until 62 s) as [r s0]. cbn [fst snd] in *. subst r s0.
  apply a_run_end. unfold wf_suffix. apply skipn_forallb. unfold stream_bytes in Eb. rewrite Eb. exact Hsuf.
Qed.
