(* Canonical printers of the three formats (parameterised by what the readers
   accept), the boolean well-formedness predicates of C14, the specification of
   the matrix a record must load as, and the executable checkers of C14 / C15.
   Executable definitions only. *)
From Coq Require Import List NArith ZArith Bool Arith.
From LMBase Require Import Res ListX.
From LMIo Require Import GenIoAbc IoBase IoNom IoJaspar.
Import ListNotations.

(* ---------- what is written ---------- *)

(* a motif as written in a file: the cells are the TOKENS that are printed
   (decimal digit strings for counts, decimal literals for frequencies); one
   entry of [scols] per symbol line: the symbol character and its tokens by position *)
Record src := { sid : list N; sdesc : option (list N); scols : list (N * list (list N)) }.

(* layout freedom of one record (all fields are strings of blanks ' ' / '\t') *)
Record style := {
  y_crlf : bool;        (* lines end with "\r\n" instead of "\n" *)
  y_hsep : list N;      (* between identifier and description (>= 1 blank) *)
  y_lead : list N;      (* before the first count of a line (after '[' for JASPAR 2016) *)
  y_sep : list N;       (* between two counts (>= 1 blank) *)
  y_sym : list N;       (* JASPAR 2016: between the symbol and '[' (>= 1 blank) *)
  y_tail : list N;      (* JASPAR 2016: between the last count and ']' *)
  y_post : list N;      (* JASPAR 2016: between ']' and the end of line *)
  y_gap : nat           (* UniPROBE: number of empty lines after the record *)
}.

Definition eol (y : style) : list N := if y_crlf y then [13; 10]%N else [10%N].

Fixpoint join (sep : list N) (toks : list (list N)) : list N :=
  match toks with
  | [] => []
  | [t] => t
  | t :: r => t ++ sep ++ join sep r
  end.

Definition print_header (y : style) (r : src) : list N :=
  [62%N] ++ sid r ++ match sdesc r with Some d => y_hsep y ++ d | None => [] end ++ eol y.

(* JASPAR (raw): the four count lines in the order of [scols] (A, C, G, T) *)
Definition jaspar_line (y : style) (c : N * list (list N)) : list N :=
  y_lead y ++ join (y_sep y) (snd c) ++ eol y.

Definition print_jaspar (p : style * src) : list N :=
  let (y, r) := p in print_header y r ++ concat (map (jaspar_line y) (scols r)).

(* JASPAR 2016: one line  S [ c1 c2 ... ]  per entry of [scols], in that order *)
Definition jaspar16_line (y : style) (c : N * list (list N)) : list N :=
  [fst c] ++ y_sym y ++ [91%N] ++ y_lead y ++ join (y_sep y) (snd c) ++ y_tail y ++ [93%N]
  ++ y_post y ++ eol y.

Definition print_jaspar16 (p : style * src) : list N :=
  let (y, r) := p in print_header y r ++ concat (map (jaspar16_line y) (scols r)).

(* UniPROBE: name line, one line  S:\tf1\tf2...  per entry, then y_gap empty lines *)
Definition uniprobe_line (y : style) (c : N * list (list N)) : list N :=
  [fst c; 58%N] ++ concat (map (fun t => 9%N :: t) (snd c)) ++ eol y.

Definition print_uniprobe (p : style * src) : list N :=
  let (y, r) := p in
  sid r ++ eol y ++ concat (map (uniprobe_line y) (scols r)) ++ concat (repeat (eol y) (y_gap y)).

(* a whole file: bytes before the first record (JASPAR formats only), the records,
   white space after the last one *)
Definition print_file (pr : style * src -> list N) (prefix : list N) (rs : list (style * src))
           (suffix : list N) : list N :=
  prefix ++ utf8_encode (concat (map pr rs)) ++ suffix.

(* ---------- what must be read ---------- *)

(* value of a digit string *)
Definition dec_value (tok : list N) : N := fold_left (fun acc c => (acc * 10 + (c - 48))%N) tok 0%N.

Section Spec.
  Variable A : alphabet.
  Context {V : Type}.
  Variable zero : V.
  Variable value : list N -> V.          (* token -> cell *)

  (* the line that names the symbol of column k, if any *)
  Fixpoint line_of (k : nat) (cols : list (N * list (list N))) : option (list (list N)) :=
    match cols with
    | [] => None
    | (s, toks) :: r =>
        match aindex A s with
        | Some k' => if k' =? k then Some toks else line_of k r
        | None => line_of k r
        end
    end.

  (* cell (i, k): the i-th token of the line of the symbol whose column is k; zero
     when no line names that symbol *)
  Definition cell_of (cols : list (N * list (list N))) (i k : nat) : V :=
    match line_of k cols with
    | Some toks => match nth_error toks i with Some t => value t | None => zero end
    | None => zero
    end.

  Definition width (cols : list (N * list (list N))) : nat :=
    match cols with [] => 0 | (_, toks) :: _ => length toks end.

  Definition matrix_of (cols : list (N * list (list N))) : list (list V) :=
    map (fun i => map (fun k => cell_of cols i k) (seq 0 (aK A))) (seq 0 (width cols)).

  Definition record_of (r : src) : record V :=
    {| rid := sid r; rdesc := sdesc r; rmatrix := matrix_of (scols r) |}.
End Spec.

(* ---------- well-formedness (boolean) ---------- *)

Definition all_blank (l : list N) : bool := forallb is_blank l.
Definition blank1 (l : list N) : bool := negb (is_nil l) && all_blank l.

Definition wf_style (y : style) : bool :=
  blank1 (y_hsep y) && all_blank (y_lead y) && blank1 (y_sep y) && blank1 (y_sym y)
  && all_blank (y_tail y) && all_blank (y_post y).

(* identifier: scalar values, no ASCII white space, no '>' *)
Definition wf_id (id : list N) : bool :=
  forallb (fun c => is_scalar c && negb (is_ascii_ws c) && negb (N.eqb c 62)) id.

(* description: non-empty, no LF, no '>', does not start or end with white space *)
Definition wf_desc (d : option (list N)) : bool :=
  match d with
  | None => true
  | Some l =>
      forallb (fun c => is_scalar c && negb (N.eqb c 10) && negb (N.eqb c 62)) l
      && match l with [] => false | c :: _ => negb (is_white_space c) end
      && match rev l with [] => false | c :: _ => negb (is_white_space c) end
  end.

(* count token: a non-empty digit string whose value fits u32 *)
Definition wf_count (t : list N) : bool :=
  negb (is_nil t) && forallb is_digit t && N.leb (dec_value t) u32_max.

Definition same_width (cols : list (N * list (list N))) : bool :=
  match cols with
  | [] => true
  | (_, t0) :: _ => forallb (fun c => length (snd c) =? length t0) cols
  end.

Definition wf_jaspar (p : style * src) : bool :=
  let (y, r) := p in
  wf_style y && wf_id (sid r) && wf_desc (sdesc r)
  && list_eqb (map fst (scols r)) (map fst gen_jaspar_symbols)
  && same_width (scols r) && (1 <=? width (scols r))
  && forallb (fun c => forallb wf_count (snd c)) (scols r).

Fixpoint distinct_cols (A : alphabet) (seen : list nat) (cols : list (N * list (list N))) : bool :=
  match cols with
  | [] => true
  | (s, _) :: r =>
      match aindex A s with
      | Some k => negb (existsb (Nat.eqb k) seen) && distinct_cols A (k :: seen) r
      | None => false
      end
  end.

Definition wf_jaspar16 (A : alphabet) (p : style * src) : bool :=
  let (y, r) := p in
  wf_style y && wf_id (sid r) && wf_desc (sdesc r)
  && negb (is_nil (scols r)) && distinct_cols A [] (scols r)
  && same_width (scols r) && (1 <=? width (scols r))
  && forallb (fun c => forallb wf_count (snd c)) (scols r).

(* bytes allowed before the first record: anything but '>' *)
Definition wf_prefix (l : list N) : bool := forallb (fun b => N.ltb b 256 && negb (N.eqb b 62)) l.
(* after the last record: ASCII white space *)
Definition wf_suffix (l : list N) : bool := forallb (fun b => in_range 9 13 b || N.eqb b 32) l.

(* ---------- outcomes and the executable checkers ---------- *)

(* an outcome of next(): Ok (Some record) | Ok None (end of input) | Err kind | Panic | OutOfFuel
   (for observations of the implementation: Panic 0 = it panicked, OutOfFuel = the
   harness' cap on the number of calls was reached) *)
Definition outcome (C : Type) := res (option (record C)).

Section Eqb.
  Context {C : Type}.
  Variable ceqb : C -> C -> bool.

  Definition row_eqb (a b : list C) : bool :=
    (length a =? length b) && forallb (fun p => ceqb (fst p) (snd p)) (combine a b).

  Definition matrix_eqb (a b : list (list C)) : bool :=
    (length a =? length b) && forallb (fun p => row_eqb (fst p) (snd p)) (combine a b).

  Definition record_eqb (a b : record C) : bool :=
    list_eqb (rid a) (rid b)
    && match rdesc a, rdesc b with
       | None, None => true
       | Some x, Some y => list_eqb x y
       | _, _ => false
       end
    && matrix_eqb (rmatrix a) (rmatrix b).

  (* error kinds are compared as the small enum; panic sites are not compared *)
  Definition outcome_eqb (a b : outcome C) : bool :=
    match a, b with
    | Ok (Some x), Ok (Some y) => record_eqb x y
    | Ok None, Ok None => true
    | Err x, Err y => x =? y
    | Panic _, Panic _ => true
    | OutOfFuel, OutOfFuel => true
    | _, _ => false
    end.

  Definition outcomes_eqb (a b : list (outcome C)) : bool :=
    (length a =? length b) && forallb (fun p => outcome_eqb (fst p) (snd p)) (combine a b).

  (* C14: the outcomes are exactly the expected records, in order, then End *)
  Definition check_c14 (expected : list (record C)) (obs : list (outcome C)) : bool :=
    outcomes_eqb obs (map (fun r => Ok (Some r)) expected ++ [Ok None]).
End Eqb.

Definition is_rec {C} (o : outcome C) : bool := match o with Ok (Some _) => true | _ => false end.
Definition is_stop {C} (o : outcome C) : bool := match o with Ok None | Err _ => true | _ => false end.

(* C15: records ... then an error or End; in particular no Panic and no OutOfFuel *)
Fixpoint check_c15 {C} (l : list (outcome C)) : bool :=
  match l with
  | [] => false
  | [o] => is_stop o
  | o :: r => is_rec o && check_c15 r
  end.

(* C15 for a caller that goes on after errors: no call panics *)
Definition no_panic {C} (l : list (outcome C)) : bool :=
  forallb (fun o => match o with Panic _ | OutOfFuel => false | _ => true end) l.

(* the outcomes up to and including the first error / End *)
Fixpoint stop_prefix {C} (l : list (outcome C)) : list (outcome C) :=
  match l with
  | [] => []
  | o :: r => if is_rec o then o :: stop_prefix r else [o]
  end.

(* a chunking given by the sizes of successive chunks (the last chunk takes the rest) *)
Fixpoint chunk_sizes (sizes : list nat) (l : list N) : list (list N) :=
  match sizes with
  | [] => match l with [] => [] | _ => [l] end
  | c :: r => match l with [] => [] | _ => firstn c l :: chunk_sizes r (skipn c l) end
  end.
