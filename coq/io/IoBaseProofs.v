(* Lemmas about IoBase: read_until / read_line over a list of chunks equal the same
   operation on the concatenated bytes (chunk independence), UTF-8 length facts. *)
From Coq Require Import List NArith Bool Arith Lia.
From LMBase Require Import Res.
From LMIo Require Import IoBase.
Import ListNotations.

(* ---------- split_delim ---------- *)

Lemma split_delim_app_some : forall d c x p q,
  split_delim d c = Some (p, q) -> split_delim d (c ++ x) = Some (p, q ++ x).
Proof.
  induction c as [|b c IH]; intros x p q H; cbn in *; [discriminate|].
  destruct (N.eqb b d).
  - inversion H; subst. reflexivity.
  - destruct (split_delim d c) as [[p' q']|] eqn:E; [|discriminate].
    inversion H; subst. rewrite (IH x p' q eq_refl). reflexivity.
Qed.

Lemma split_delim_app_none : forall d c x,
  split_delim d c = None ->
  split_delim d (c ++ x) =
  match split_delim d x with Some (p, q) => Some (c ++ p, q) | None => None end.
Proof.
  induction c as [|b c IH]; intros x H; cbn in *.
  - destruct (split_delim d x) as [[p q]|]; reflexivity.
  - destruct (N.eqb b d); [discriminate|].
    destruct (split_delim d c) as [[p' q']|] eqn:E; [discriminate|].
    rewrite (IH x eq_refl). destruct (split_delim d x) as [[p q]|]; reflexivity.
Qed.

Lemma split_delim_some : forall d c p q,
  split_delim d c = Some (p, q) ->
  c = p ++ q /\ exists p0, p = p0 ++ [d] /\ ~ In d p0.
Proof.
  induction c as [|b c IH]; intros p q H; cbn in *; [discriminate|].
  destruct (N.eqb b d) eqn:Eb.
  - inversion H; subst. apply N.eqb_eq in Eb. subst. split; [reflexivity|].
    exists []. split; [reflexivity|]. intros [].
  - destruct (split_delim d c) as [[p' q']|] eqn:E; [|discriminate].
    inversion H; subst. destruct (IH p' q eq_refl) as [Hc [p0 [Hp Hn]]].
    split; [cbn; f_equal; exact Hc|].
    exists (b :: p0). split; [cbn; f_equal; exact Hp|].
    intros [Hb|Hi]; [subst; rewrite N.eqb_refl in Eb; discriminate|auto].
Qed.

Lemma split_delim_none : forall d c, split_delim d c = None -> ~ In d c.
Proof.
  induction c as [|b c IH]; intros H; cbn in *; [intros []|].
  destruct (N.eqb b d) eqn:Eb; [discriminate|].
  destruct (split_delim d c) as [[p' q']|] eqn:E; [discriminate|].
  intros [Hb|Hi]; [subst; rewrite N.eqb_refl in Eb; discriminate|].
  exact (IH eq_refl Hi).
Qed.

Lemma split_delim_notin : forall d c, ~ In d c -> split_delim d c = None.
Proof.
  induction c as [|b c IH]; intros H; cbn; [reflexivity|].
  destruct (N.eqb b d) eqn:Eb.
  - apply N.eqb_eq in Eb. subst. exfalso. apply H. left; reflexivity.
  - rewrite IH; [reflexivity|]. intros Hi. apply H. right; exact Hi.
Qed.

Lemma split_delim_found : forall d p0 q, ~ In d p0 ->
  split_delim d (p0 ++ d :: q) = Some (p0 ++ [d], q).
Proof.
  induction p0 as [|b p0 IH]; intros q H; cbn.
  - rewrite N.eqb_refl. reflexivity.
  - destruct (N.eqb b d) eqn:Eb.
    + apply N.eqb_eq in Eb. subst. exfalso. apply H. left; reflexivity.
    + rewrite IH; [reflexivity|]. intros Hi. apply H. right; exact Hi.
Qed.

(* ---------- read_until over chunks = read_until on the concatenation ---------- *)

Lemma wf_stream_cons : forall c s, wf_stream (c :: s) <-> c <> [] /\ wf_stream s.
Proof.
  intros c s. unfold wf_stream. split.
  - intros H. inversion H; subst. split; assumption.
  - intros [H1 H2]. constructor; assumption.
Qed.

Lemma wf_stream_nil : wf_stream [].
Proof. constructor. Qed.

Lemma mk_stream_wf : forall cs, wf_stream (mk_stream cs).
Proof.
  intros cs. unfold wf_stream, mk_stream. apply Forall_forall. intros c Hc.
  apply filter_In in Hc. destruct Hc as [_ Hc]. destruct c; [discriminate|]. discriminate.
Qed.

Lemma mk_stream_bytes : forall cs, concat (mk_stream cs) = concat cs.
Proof.
  unfold mk_stream. induction cs as [|c cs IH]; cbn [filter concat]; [reflexivity|].
  destruct c; cbn [concat app]; [exact IH|]. rewrite IH. reflexivity.
Qed.

Lemma mk_stream_id : forall s, wf_stream s -> mk_stream s = s.
Proof.
  unfold mk_stream. induction s as [|c s IH]; intros H; cbn [filter]; [reflexivity|].
  apply wf_stream_cons in H. destruct H as [Hc Hs].
  destruct c; [contradiction|]. rewrite (IH Hs). reflexivity.
Qed.

Lemma read_until_wf : forall d s, wf_stream s -> wf_stream (snd (read_until d s)).
Proof.
  induction s as [|c s IH]; intros H; cbn; [exact wf_stream_nil|].
  apply wf_stream_cons in H. destruct H as [Hc Hs].
  destruct c as [|b c]; [contradiction|].
  destruct (split_delim d (b :: c)) as [[p q]|] eqn:E.
  - cbn. destruct q; [exact Hs|]. apply wf_stream_cons. split; [discriminate|exact Hs].
  - destruct (read_until d s) as [r s''] eqn:Er. cbn in *. exact (IH Hs).
Qed.

Theorem read_until_flat_spec : forall d s, wf_stream s ->
  read_until_flat d (concat s) = (fst (read_until d s), concat (snd (read_until d s))).
Proof.
  induction s as [|c s IH]; intros H; [reflexivity|].
  apply wf_stream_cons in H. destruct H as [Hc Hs]. specialize (IH Hs).
  destruct c as [|b c]; [contradiction|].
  cbn [read_until concat].
  destruct (split_delim d (b :: c)) as [[p q]|] eqn:E.
  - unfold read_until_flat. rewrite (split_delim_app_some _ _ (concat s) _ _ E).
    cbn [fst snd]. destruct q; reflexivity.
  - unfold read_until_flat in *. rewrite (split_delim_app_none _ _ (concat s) E).
    destruct (read_until d s) as [r s''] eqn:Er. cbn [fst snd] in *.
    destruct (split_delim d (concat s)) as [[p q]|] eqn:E2.
    + inversion IH; subst. reflexivity.
    + inversion IH; subst. rewrite H1. reflexivity.
Qed.

(* the bytes are conserved: what was read followed by what is left *)
Lemma read_until_flat_bytes : forall d l, fst (read_until_flat d l) ++ snd (read_until_flat d l) = l.
Proof.
  intros d l. unfold read_until_flat. destruct (split_delim d l) as [[p q]|] eqn:E; cbn.
  - apply split_delim_some in E. destruct E as [E _]. symmetry; exact E.
  - apply app_nil_r.
Qed.

Lemma read_until_bytes : forall d s, wf_stream s ->
  fst (read_until d s) ++ concat (snd (read_until d s)) = concat s.
Proof.
  intros d s H. pose proof (read_until_flat_spec d s H) as E.
  pose proof (read_until_flat_bytes d (concat s)) as B. rewrite E in B. exact B.
Qed.

(* read_until returns nothing exactly at end of input *)
Lemma read_until_flat_nil : forall d l, fst (read_until_flat d l) = [] -> l = [].
Proof.
  intros d l. unfold read_until_flat. destruct (split_delim d l) as [[p q]|] eqn:E; cbn; intros H.
  - subst. apply split_delim_some in E. destruct E as [_ [p0 [E _]]]. destruct p0; discriminate.
  - exact H.
Qed.

Lemma wf_concat_nil : forall s, wf_stream s -> concat s = [] -> s = [].
Proof.
  intros s H E. destruct s as [|c s]; [reflexivity|].
  apply wf_stream_cons in H. destruct H as [Hc _]. cbn in E.
  apply app_eq_nil in E. destruct E as [E _]. contradiction.
Qed.

Lemma read_until_nil_eof : forall d s, wf_stream s ->
  fst (read_until d s) = [] -> s = [] /\ snd (read_until d s) = [].
Proof.
  intros d s H E. pose proof (read_until_flat_spec d s H) as F.
  assert (concat s = []) as C.
  { apply (read_until_flat_nil d). rewrite F. exact E. }
  apply wf_concat_nil in C; [|exact H]. subst. split; reflexivity.
Qed.

(* no delimiter at the end of what was read: the stream is exhausted *)
Lemma read_until_flat_no_delim : forall d l,
  (forall p0, fst (read_until_flat d l) <> p0 ++ [d]) -> snd (read_until_flat d l) = [].
Proof.
  intros d l. unfold read_until_flat. destruct (split_delim d l) as [[p q]|] eqn:E; cbn; intros H.
  - apply split_delim_some in E. destruct E as [_ [p0 [E _]]]. exfalso. exact (H p0 E).
  - reflexivity.
Qed.

(* the "schedules" quantifier: the result depends on the bytes only *)
Theorem read_until_chunk_independent_lemma : forall d s1 s2,
  wf_stream s1 -> wf_stream s2 -> concat s1 = concat s2 ->
  fst (read_until d s1) = fst (read_until d s2) /\
  concat (snd (read_until d s1)) = concat (snd (read_until d s2)).
Proof.
  intros d s1 s2 H1 H2 E.
  pose proof (read_until_flat_spec d s1 H1) as F1.
  pose proof (read_until_flat_spec d s2 H2) as F2.
  rewrite E in F1. rewrite F1 in F2. injection F2 as A B. split; assumption.
Qed.

Theorem read_line_chunk_independent_lemma : forall s1 s2,
  wf_stream s1 -> wf_stream s2 -> concat s1 = concat s2 ->
  fst (read_line s1) = fst (read_line s2) /\
  concat (snd (read_line s1)) = concat (snd (read_line s2)).
Proof.
  intros s1 s2 H1 H2 E. unfold read_line.
  destruct (read_until_chunk_independent_lemma 10 s1 s2 H1 H2 E) as [A B].
  destruct (read_until 10 s1) as [b1 t1]. destruct (read_until 10 s2) as [b2 t2].
  cbn [fst snd] in *. subst b2.
  destruct (utf8_decode b1); cbn [fst snd]; split; try reflexivity; exact B.
Qed.

Lemma read_line_wf : forall s, wf_stream s -> wf_stream (snd (read_line s)).
Proof.
  intros s H. unfold read_line. pose proof (read_until_wf 10 s H) as W.
  destruct (read_until 10 s) as [b t]. cbn [snd] in W. destruct (utf8_decode b); exact W.
Qed.

(* ---------- UTF-8: decoded strings have the byte length of their source ---------- *)

Lemma option_map_some : forall {A B} (f : A -> B) o y, option_map f o = Some y -> exists x, o = Some x /\ y = f x.
Proof. intros A B f [x|] y H; cbn in H; [inversion H; eauto|discriminate]. Qed.

Lemma utf8_decode_len_aux : forall n bs cs, length bs <= n -> utf8_decode bs = Some cs -> str_len cs = length bs.
Proof.
  induction n as [|n IH]; intros bs cs Hn H.
  - destruct bs; [cbn in H; inversion H; reflexivity|cbn in Hn; lia].
  - destruct bs as [|b0 r0]; [cbn in H; inversion H; reflexivity|].
    cbn [utf8_decode] in H. cbn [length] in Hn.
    destruct (N.ltb b0 128) eqn:E0.
    { apply option_map_some in H. destruct H as [x [Hx ->]]. cbn [str_len length].
      rewrite (IH r0 x); [|lia|exact Hx]. unfold utf8_len. rewrite E0. reflexivity. }
    destruct r0 as [|b1 r1]; [discriminate|]. cbn [length] in Hn.
    destruct (in_range 194 223 b0) eqn:E1.
    { destruct (is_cont b1) eqn:C1; [|discriminate].
      apply option_map_some in H. destruct H as [x [Hx ->]]. cbn [str_len length].
      rewrite (IH r1 x); [|lia|exact Hx].
      unfold utf8_len, in_range, is_cont in *.
      apply andb_true_iff in E1. destruct E1 as [E1a E1b]. apply N.leb_le in E1a, E1b.
      apply andb_true_iff in C1. destruct C1 as [C1a C1b]. apply N.leb_le in C1a, C1b.
      assert (N.ltb ((b0 - 192) * 64 + (b1 - 128)) 128 = false) as L1.
      { apply N.ltb_ge. lia. }
      assert (N.ltb ((b0 - 192) * 64 + (b1 - 128)) 2048 = true) as L2.
      { apply N.ltb_lt. lia. }
      rewrite L1, L2. reflexivity. }
    destruct r1 as [|b2 r2]; [discriminate|]. cbn [length] in Hn.
    destruct (in_range 224 239 b0) eqn:E2.
    { match type of H with (if ?c then _ else _) = _ => destruct c eqn:C end; [|discriminate].
      apply option_map_some in H. destruct H as [x [Hx ->]]. cbn [str_len length].
      rewrite (IH r2 x); [|lia|exact Hx].
      apply andb_true_iff in C. destruct C as [Ca Cb].
      unfold utf8_len, in_range, is_cont in *.
      apply andb_true_iff in E2. destruct E2 as [E2a E2b]. apply N.leb_le in E2a, E2b.
      apply andb_true_iff in Cb. destruct Cb as [Cb1 Cb2]. apply N.leb_le in Cb1, Cb2.
      assert (128 <= b1 <= 191 /\ (b0 = 224 -> 160 <= b1))%N as Hb1.
      { destruct (N.eqb b0 224) eqn:Q.
        - apply N.eqb_eq in Q. apply andb_true_iff in Ca. destruct Ca as [X Y].
          apply N.leb_le in X, Y. lia.
        - apply N.eqb_neq in Q. destruct (N.eqb b0 237).
          + apply andb_true_iff in Ca. destruct Ca as [X Y]. apply N.leb_le in X, Y. lia.
          + apply andb_true_iff in Ca. destruct Ca as [X Y]. apply N.leb_le in X, Y. lia. }
      set (v := ((b0 - 224) * 4096 + (b1 - 128) * 64 + (b2 - 128))%N).
      assert (N.ltb v 128 = false) as L1. { apply N.ltb_ge. unfold v. lia. }
      assert (N.ltb v 2048 = false) as L2. { apply N.ltb_ge. unfold v. lia. }
      assert (N.ltb v 65536 = true) as L3. { apply N.ltb_lt. unfold v. lia. }
      rewrite L1, L2, L3. reflexivity. }
    destruct r2 as [|b3 r3]; [discriminate|]. cbn [length] in Hn.
    destruct (in_range 240 244 b0) eqn:E3; [|discriminate].
    match type of H with (if ?c then _ else _) = _ => destruct c eqn:C end; [|discriminate].
    apply option_map_some in H. destruct H as [x [Hx ->]]. cbn [str_len length].
    rewrite (IH r3 x); [|lia|exact Hx].
    apply andb_true_iff in C. destruct C as [C Cc]. apply andb_true_iff in C. destruct C as [Ca Cb].
    unfold utf8_len, in_range, is_cont in *.
    apply andb_true_iff in E3. destruct E3 as [E3a E3b]. apply N.leb_le in E3a, E3b.
    apply andb_true_iff in Cb. destruct Cb as [Cb1 Cb2]. apply N.leb_le in Cb1, Cb2.
    apply andb_true_iff in Cc. destruct Cc as [Cc1 Cc2]. apply N.leb_le in Cc1, Cc2.
    assert (128 <= b1 <= 191 /\ (b0 = 240 -> 144 <= b1))%N as Hb1.
    { destruct (N.eqb b0 240) eqn:Q.
      - apply N.eqb_eq in Q. apply andb_true_iff in Ca. destruct Ca as [X Y].
        apply N.leb_le in X, Y. lia.
      - apply N.eqb_neq in Q. destruct (N.eqb b0 244).
        + apply andb_true_iff in Ca. destruct Ca as [X Y]. apply N.leb_le in X, Y. lia.
        + apply andb_true_iff in Ca. destruct Ca as [X Y]. apply N.leb_le in X, Y. lia. }
    set (v := ((b0 - 240) * 262144 + (b1 - 128) * 4096 + (b2 - 128) * 64 + (b3 - 128))%N).
    assert (N.ltb v 128 = false) as L1. { apply N.ltb_ge. unfold v. lia. }
    assert (N.ltb v 2048 = false) as L2. { apply N.ltb_ge. unfold v. lia. }
    assert (N.ltb v 65536 = false) as L3. { apply N.ltb_ge. unfold v. lia. }
    rewrite L1, L2, L3. reflexivity.
Qed.

Lemma utf8_decode_len : forall bs cs, utf8_decode bs = Some cs -> str_len cs = length bs.
Proof. intros bs cs. apply (utf8_decode_len_aux (length bs)). lia. Qed.

Lemma str_len_app : forall a b, str_len (a ++ b) = str_len a + str_len b.
Proof. induction a as [|c a IH]; intros b; cbn; [reflexivity|]. rewrite IH. lia. Qed.

Lemma utf8_len_pos : forall c, 1 <= utf8_len c.
Proof.
  intros c. unfold utf8_len.
  destruct (N.ltb c 128); [lia|]. destruct (N.ltb c 2048); [lia|]. destruct (N.ltb c 65536); lia.
Qed.

Lemma str_len_ge : forall l, length l <= str_len l.
Proof. induction l as [|c l IH]; cbn; [lia|]. pose proof (utf8_len_pos c). lia. Qed.
