(* ErrorKind::Interrupted is invisible: std's read_until / read_line retry it, the readers never see it.
   Removing every Interrupted event from a fault script changes no outcome of any poll sequence. *)
From Coq Require Import List NArith Bool Arith Lia.
From LMBase Require Import Res IEEE.
From LMIo Require Import GenIoAbc IoBase IoNom IoJaspar IoUniprobe IoPrint IoBaseProofs IoErr IoErrUProofs IoErrJBase IoErrJLift
  IoPoll IoPollProofs.
Import ListNotations.

Definition not_interrupted (ev : event) : bool := match ev with EvErr true => false | _ => true end.
Definition strip_intr (es : estream) : estream := filter not_interrupted es.

Lemma strip_wf : forall es, wf_estream es -> wf_estream (strip_intr es).
Proof.
  intros es H. unfold wf_estream in *. rewrite Forall_forall in *. intros ev Hin.
  apply filter_In in Hin. exact (H ev (proj1 Hin)).
Qed.

Lemma read_until_e_strip : forall d es,
  read_until_e d (strip_intr es) =
  (fst (fst (read_until_e d es)), snd (fst (read_until_e d es)), strip_intr (snd (read_until_e d es))).
Proof.
  intros d. induction es as [|ev es IH]; [reflexivity|].
  destruct ev as [c|[|]].
  - cbn [strip_intr filter not_interrupted]. fold (strip_intr es). cbn [read_until_e].
    destruct c as [|b c]; [reflexivity|].
    destruct (split_delim d (b :: c)) as [[p q]|].
    + destruct q; reflexivity.
    + rewrite IH. destruct (read_until_e d es) as [[r e] es'']. reflexivity.
  - cbn [strip_intr filter not_interrupted]. fold (strip_intr es). cbn [read_until_e]. exact IH.
  - cbn [strip_intr filter not_interrupted]. fold (strip_intr es). reflexivity.
Qed.

Lemma strip_nil_of_nil : forall es, es = [] -> strip_intr es = [].
Proof. intros es ->. reflexivity. Qed.

(* one next() of the JASPAR readers *)
Lemma j_next_e_g_strip : forall guard precord cap b s es, wf_estream es ->
  let x := j_next_e_g guard precord cap {| ebuf := b; estart := s; estr := es |} in
  j_next_e_g guard precord cap {| ebuf := b; estart := s; estr := strip_intr es |} =
  ({| ebuf := ebuf (fst x); estart := estart (fst x); estr := strip_intr (estr (fst x)) |}, snd x).
Proof.
  intros guard precord cap b s es H. cbv zeta. unfold j_next_e_g. cbn [estr estart ebuf].
  rewrite read_until_e_strip.
  pose proof (read_until_e_shape 62 es H) as Sh.
  destruct (read_until_e 62 es) as [[r e] es']. cbn [fst snd] in *.
  destruct e; [reflexivity|]. specialize (Sh eq_refl).
  assert (forall more, (more = false \/ exists p0, r = p0 ++ [62%N] /\ ~ In 62%N p0) ->
            read_until 62 (replay_stream r more) = (r, if more then [[62%N]] else [])) as Rp.
  { intros more Hm. apply read_until_replay. destruct Sh as [Sh|[Hn Hs]]; [left; exact Sh|].
    destruct Hm as [->|Hm]; [right; split; [exact Hn|reflexivity]|left; exact Hm]. }
  assert (forall more, more = negb (is_nil es') \/ more = negb (is_nil (strip_intr es')) ->
            more = false \/ exists p0, r = p0 ++ [62%N] /\ ~ In 62%N p0) as Hm.
  { intros more Hc. destruct Sh as [Sh|[_ Hs]]; [right; exact Sh|left].
    subst es'. destruct Hc as [->| ->]; reflexivity. }
  pose proof (j_next_g_irrelevant precord false guard cap b s _ _ r _ _
                (Rp _ (Hm _ (or_intror eq_refl))) (Rp _ (Hm _ (or_introl eq_refl)))) as L.
  cbv zeta in L. destruct L as [Lo [Lb Ls]].
  destruct (j_next_g precord false guard cap
              {| jbuf := b; jstart := s; jstream := replay_stream r (negb (is_nil (strip_intr es'))) |}) as [x1 o1].
  destruct (j_next_g precord false guard cap
              {| jbuf := b; jstart := s; jstream := replay_stream r (negb (is_nil es')) |}) as [x2 o2].
  cbn [fst snd ebuf estart estr] in *. rewrite Lo, Lb, Ls. reflexivity.
Qed.

Lemma j_polls_e_g_strip : forall guard precord n caps k b s es, wf_estream es ->
  j_polls_e_g guard precord n caps k {| ebuf := b; estart := s; estr := strip_intr es |} =
  j_polls_e_g guard precord n caps k {| ebuf := b; estart := s; estr := es |}.
Proof.
  intros guard precord. induction n as [|n IH]; intros caps k b s es H; [reflexivity|].
  cbn [j_polls_e_g]. rewrite (j_next_e_g_strip guard precord (caps k) b s es H).
  pose proof (j_next_e_wf guard precord (caps k) {| ebuf := b; estart := s; estr := es |} H) as W.
  destruct (j_next_e_g guard precord (caps k) {| ebuf := b; estart := s; estr := es |}) as [[b' s' es'] o].
  cbn [fst snd ebuf estart estr] in *.
  destruct o as [[r|]|e|p|]; try reflexivity; f_equal; apply IH; exact W.
Qed.

Theorem j_polls_interrupted_invisible : forall guard precord U S n caps es, wf_estream es ->
  j_polls_e_g guard precord n caps 0 (j_new_e U S (strip_intr es)) = j_polls_e_g guard precord n caps 0 (j_new_e U S es).
Proof.
  intros guard precord U S n caps es H. unfold j_new_e. rewrite read_until_e_strip.
  pose proof (read_until_e_wf 62 es H) as W.
  destruct (read_until_e 62 es) as [[r e] es']. cbn [fst snd] in *.
  apply j_polls_e_g_strip. exact W.
Qed.

(* ---------- UniPROBE ---------- *)

Lemma read_line_e_strip : forall es,
  read_line_e (strip_intr es) = (fst (read_line_e es), strip_intr (snd (read_line_e es))).
Proof.
  intros es. unfold read_line_e. rewrite read_until_e_strip.
  destruct (read_until_e 10 es) as [[bs e] es']. cbn [fst snd].
  destruct (utf8_decode bs); [destruct e|]; reflexivity.
Qed.

Lemma data_bytes_strip : forall es, data_bytes (strip_intr es) = data_bytes es.
Proof.
  induction es as [|ev es IH]; [reflexivity|]. destruct ev as [c|[|]]; cbn [strip_intr filter not_interrupted data_bytes];
    fold (strip_intr es); rewrite ?IH; reflexivity.
Qed.

Definition fstrip (r : fill_res_e) : fill_res_e :=
  match r with
  | XLine b s => XLine b (strip_intr s)
  | XEof b s => XEof b (strip_intr s)
  | XErr b s => XErr b (strip_intr s)
  | XFuel => XFuel
  end.

Lemma u_fill_e_strip : forall fuel buf s, u_fill_e fuel buf (strip_intr s) = fstrip (u_fill_e fuel buf s).
Proof.
  induction fuel as [|fuel IH]; intros buf s; [reflexivity|].
  cbn [u_fill_e]. rewrite read_line_e_strip. destruct (read_line_e s) as [o s']. cbn [fst snd].
  destruct o as [n cs|cs]; [|reflexivity].
  destruct n as [|n]; [reflexivity|].
  destruct (is_nil (trim (buf ++ cs))); [apply IH|reflexivity].
Qed.

Section UIntr.
  Variable A : alphabet.
  Variable parse_f32 : list N -> option F32.t.

  Definition cstrip (r : cols_res_e) : cols_res_e :=
    match r with
    | YDone cols b line s => YDone cols b line (strip_intr s)
    | YErr b s => YErr b (strip_intr s)
    | YPanic k => YPanic k
    | YFuel => YFuel
    end.

  Lemma u_columns_e_strip : forall F fuel buf line s acc,
    u_columns_e A parse_f32 F fuel buf line (strip_intr s) acc = cstrip (u_columns_e A parse_f32 F fuel buf line s acc).
  Proof.
    intros F. induction fuel as [|fuel IH]; intros buf line s acc; [reflexivity|].
    cbn [u_columns_e].
    assert ((if line then XLine buf (strip_intr s) else u_fill_e F buf (strip_intr s))
            = fstrip (if line then XLine buf s else u_fill_e F buf s)) as E.
    { destruct line; [reflexivity|apply u_fill_e_strip]. }
    rewrite E. destruct (if line then XLine buf s else u_fill_e F buf s) as [b s'|b s'|b s'|]; cbn [fstrip]; try reflexivity.
    - destruct (u_matrix_column A parse_f32 b); try reflexivity. apply IH.
    - destruct (u_matrix_column A parse_f32 b); try reflexivity. apply IH.
  Qed.

  Lemma u_next_e_strip : forall F b line s,
    let x := u_next_e A parse_f32 F {| xbuf := b; xline := line; xstr := s |} in
    u_next_e A parse_f32 F {| xbuf := b; xline := line; xstr := strip_intr s |} =
    ({| xbuf := xbuf (fst x); xline := xline (fst x); xstr := strip_intr (xstr (fst x)) |}, snd x).
  Proof.
    intros F b line s. cbv zeta. unfold u_next_e. cbn [xbuf xline xstr].
    assert ((if line then XLine b (strip_intr s) else u_fill_e F b (strip_intr s))
            = fstrip (if line then XLine b s else u_fill_e F b s)) as E.
    { destruct line; [reflexivity|apply u_fill_e_strip]. }
    rewrite E. destruct (if line then XLine b s else u_fill_e F b s) as [b1 s1|b1 s1|b1 s1|]; cbn [fstrip]; try reflexivity.
    destruct (u_id b1); try reflexivity.
    rewrite u_columns_e_strip.
    destruct (u_columns_e A parse_f32 F F [] false s1 []) as [cols b' line' s2|b' s2|k|]; cbn [cstrip]; try reflexivity.
    destruct (u_build_matrix A false cols) as [m|e|k|]; try reflexivity.
    destruct (freq_new m); reflexivity.
  Qed.

  Lemma u_polls_e_strip : forall F n b line s,
    u_polls_e A parse_f32 F n {| xbuf := b; xline := line; xstr := strip_intr s |} =
    u_polls_e A parse_f32 F n {| xbuf := b; xline := line; xstr := s |}.
  Proof.
    intros F. induction n as [|n IH]; intros b line s; [reflexivity|].
    cbn [u_polls_e]. rewrite (u_next_e_strip F b line s).
    destruct (u_next_e A parse_f32 F {| xbuf := b; xline := line; xstr := s |}) as [[b' l' s'] o].
    cbn [fst snd xbuf xline xstr].
    destruct o as [[r|]|e|p|]; try reflexivity; f_equal; apply IH.
  Qed.

  Theorem uniprobe_polls_interrupted_invisible : forall n es,
    uniprobe_polls_e A parse_f32 n (strip_intr es) = uniprobe_polls_e A parse_f32 n es.
  Proof.
    intros n es. unfold uniprobe_polls_e, read_fuel_e, u_new_e. rewrite data_bytes_strip. apply u_polls_e_strip.
  Qed.
End UIntr.
