(* C15 for the UniPROBE reader: every next() returns a record, an error or End -- never a
   panic site, never OutOfFuel -- for every byte stream, every chunking and every float oracle;
   a consumer that stops at the first error or End terminates (measure: unread bytes). *)
From Coq Require Import List NArith ZArith Bool Arith Lia.
From LMBase Require Import Res ListX IEEE.
From LMIo Require Import IoBase IoNom IoJaspar IoUniprobe IoPrint IoBaseProofs IoNomProofs IoParseProofs
  IoCheckProofs IoTotal.
Import ListNotations.

Definition slen (s : stream) : nat := length (concat s).

Lemma read_line_facts : forall s, wf_stream s ->
  wf_stream (snd (read_line s)) /\
  match fst (read_line s) with
  | Ok (n, _) => n + slen (snd (read_line s)) = slen s
  | _ => slen (snd (read_line s)) <= slen s
  end.
Proof.
  intros s H. split; [apply read_line_wf; exact H|].
  unfold read_line, slen. pose proof (read_until_bytes 10 s H) as B.
  destruct (read_until 10 s) as [bs s']. cbn [fst snd] in *.
  assert (length (concat s) = length bs + length (concat s')) as L by (rewrite <- B; apply app_length).
  destruct (utf8_decode bs); cbn [fst snd]; lia.
Qed.

Lemma u_fill_spec : forall fuel buf s, wf_stream s -> slen s < fuel ->
  match u_fill fuel buf s with
  | FLine _ s' => wf_stream s' /\ slen s' < slen s
  | FEof b s' => wf_stream s' /\ slen s' <= slen s /\ (b = buf \/ b = [])
  | FErr _ s' => wf_stream s' /\ slen s' <= slen s
  | FFuel => False
  end.
Proof.
  induction fuel as [|fuel IH]; intros buf s H Hf; [lia|].
  cbn [u_fill]. pose proof (read_line_facts s H) as [W F].
  destruct (read_line s) as [o s']. cbn [fst snd] in *.
  destruct o as [[n cs]|e|k|]; try (split; [exact W|lia]).
  destruct n as [|n]; [repeat split; [exact W|lia|left; reflexivity]|].
  destruct (is_nil (trim (buf ++ cs))).
  - assert (slen s' < fuel) as Hf2 by lia. specialize (IH [] s' W Hf2).
    destruct (u_fill fuel [] s'); try contradiction.
    + destruct IH as [W2 L2]. split; [exact W2|lia].
    + destruct IH as [W2 [L2 E2]]. repeat split; [exact W2|lia|].
      right. destruct E2 as [E2|E2]; exact E2.
    + destruct IH as [W2 L2]. split; [exact W2|lia].
  - split; [exact W|lia].
Qed.

Section UReader.
  Variable A : alphabet.
  Hypothesis HA : forall c k, aindex A c = Some k -> k < aK A.
  Variable parse_f32 : list N -> option F32.t.

  Definition colP (kc : nat * list F32.t) : Prop := fst kc < aK A.

  Lemma u_matrix_column_nil : exists k, u_matrix_column A parse_f32 [] = PErr k.
  Proof. eexists. reflexivity. Qed.

  Lemma u_columns_spec : forall F fuel buf s acc, wf_stream s -> Forall colP acc ->
    slen s < F ->
    slen s + (if is_nil buf then 0 else 1) < fuel ->
    match u_columns A parse_f32 F fuel buf false s acc with
    | CDone cols _ _ s' => wf_stream s' /\ Forall colP cols /\
                           slen s' + length cols <= slen s + length acc + (if is_nil buf then 0 else 1)
    | CErr _ s' => wf_stream s' /\ slen s' <= slen s
    | CPanic _ | CFuel => False
    end.
  Proof.
    intros F0. induction fuel as [|fuel IH]; intros buf s acc H Hacc HF Hf; [lia|].
    cbn [u_columns].
    pose proof (u_fill_spec F0 buf s H HF) as F.
    destruct (u_fill F0 buf s) as [b s'|b s'|b s'|]; try contradiction.
    - destruct F as [W L].
      pose proof (pspec_u_matrix_column A HA parse_f32 b) as P.
      destruct (u_matrix_column A parse_f32 b) as [rest n col| | | |]; try contradiction.
      + destruct P as [pre [_ [_ q]]].
        specialize (IH [] s' (col :: acc) W (@Forall_cons _ colP col acc q Hacc) ltac:(lia) ltac:(cbn [is_nil]; lia)).
        destruct (u_columns A parse_f32 F0 fuel [] false s' (col :: acc)); try contradiction.
        * destruct IH as [W2 [F2 L2]]. cbn [is_nil length] in L2.
          repeat split; [exact W2|exact F2|]. destruct (is_nil buf); lia.
        * destruct IH as [W2 L2]. split; [exact W2|lia].
      + repeat split; [exact W|apply Forall_rev; exact Hacc|]. rewrite rev_length. destruct (is_nil buf); lia.
      + repeat split; [exact W|apply Forall_rev; exact Hacc|]. rewrite rev_length. destruct (is_nil buf); lia.
    - destruct F as [W [L Eb]].
      pose proof (pspec_u_matrix_column A HA parse_f32 b) as P.
      destruct (u_matrix_column A parse_f32 b) as [rest n col| | | |] eqn:EP; try contradiction.
      + destruct P as [pre [_ [_ q]]].
        assert (is_nil buf = false /\ b = buf) as [Nb Eb2].
        { destruct Eb as [Eb|Eb].
          - subst b. destruct buf; [|auto]. destruct u_matrix_column_nil as [k Ek]. rewrite Ek in EP. discriminate.
          - subst b. destruct u_matrix_column_nil as [k Ek]. rewrite Ek in EP. discriminate. }
        rewrite Nb in Hf.
        specialize (IH [] s' (col :: acc) W (@Forall_cons _ colP col acc q Hacc) ltac:(lia) ltac:(cbn [is_nil]; lia)).
        destruct (u_columns A parse_f32 F0 fuel [] false s' (col :: acc)); try contradiction.
        * destruct IH as [W2 [F2 L2]]. cbn [is_nil length] in L2.
          repeat split; [exact W2|exact F2|]. rewrite Nb. lia.
        * destruct IH as [W2 L2]. split; [exact W2|lia].
      + repeat split; [exact W|apply Forall_rev; exact Hacc|]. rewrite rev_length. destruct (is_nil buf); lia.
      + repeat split; [exact W|apply Forall_rev; exact Hacc|]. rewrite rev_length. destruct (is_nil buf); lia.
    - destruct F as [W L]. split; [exact W|lia].
  Qed.

  Definition uinv (st : ustate) : Prop := wf_stream (ustream st).
  Definition umu (st : ustate) : nat := slen (ustream st).

  Lemma freq_new_safe : forall m, ok_outcome (match freq_new m with
                                               | Ok m' => Ok (Some {| rid := []; rdesc := None; rmatrix := m' |})
                                               | Err e => Err e | Panic k => Panic k | OutOfFuel => OutOfFuel end).
  Proof. intros m. unfold freq_new. destruct (forallb row_ok m); exact I. Qed.

  Lemma u_next_total : forall F st, uinv st -> umu st < F ->
    uinv (fst (u_next A parse_f32 F false st)) /\
    ok_outcome (snd (u_next A parse_f32 F false st)) /\
    umu (fst (u_next A parse_f32 F false st)) <= umu st /\
    (forall r, snd (u_next A parse_f32 F false st) = Ok (Some r) ->
               umu (fst (u_next A parse_f32 F false st)) < umu st).
  Proof.
    intros F0 [buf line s] H HF. unfold uinv, umu in *. cbn [ustream ubuf uline] in *.
    unfold u_next. cbn [ustream ubuf uline].
    assert (match (if line then FLine buf s else u_fill F0 buf s) with
            | FLine _ s' => wf_stream s' /\ slen s' <= slen s
            | FEof _ s' => wf_stream s' /\ slen s' <= slen s
            | FErr _ s' => wf_stream s' /\ slen s' <= slen s
            | FFuel => False end) as F.
    { destruct line; [split; [exact H|lia]|].
      pose proof (u_fill_spec F0 buf s H HF) as F.
      destruct (u_fill F0 buf s); try contradiction; destruct F as [W L]; try (split; [exact W|lia]).
      }
    destruct (if line then FLine buf s else u_fill F0 buf s) as [b s1|b s1|b s1|]; try contradiction;
      destruct F as [W1 L1].
    2,3: cbn [fst snd ustream]; repeat split; try exact I; try exact W1; try lia; intros r C; discriminate.
    pose proof (pgood_u_id b) as PI.
    destruct (u_id b) as [rest n id| | | |]; try contradiction.
    2,3: cbn [fst snd ustream]; repeat split; try exact I; try exact W1; try lia; intros r C; discriminate.
    pose proof (u_columns_spec F0 F0 [] s1 [] W1 (Forall_nil _) ltac:(lia) ltac:(cbn [is_nil]; lia)) as C.
    destruct (u_columns A parse_f32 F0 F0 [] false s1 []) as [cols b' line' s2|b' s2|k|]; try contradiction.
    2: { destruct C as [W2 L2]. cbn [fst snd ustream]. repeat split; try exact I; try exact W2; try lia.
         intros r C2; discriminate. }
    destruct C as [W2 [F2 L2]]. cbn [is_nil length] in L2.
    pose proof (u_build_matrix_safe A cols F2) as S.
    destruct (u_build_matrix A false cols) as [m|e|k|] eqn:EB; try contradiction.
    2: { cbn [fst snd ustream]. repeat split; try exact I; try exact W2; try lia. intros r C2; discriminate. }
    assert (cols <> []) as Hne.
    { intros ->. cbn in EB. discriminate. }
    assert (1 <= length cols) as Lc by (destruct cols; [contradiction|cbn; lia]).
    unfold freq_new. destruct (forallb row_ok m); cbn [fst snd ustream];
      repeat split; try exact I; try exact W2; try lia; intros r C2; try discriminate; lia.
  Qed.

  Lemma u_run_total : forall F fuel st, uinv st -> umu st < F -> umu st < fuel ->
    Holds_c15 (u_run A parse_f32 F false fuel true st).
  Proof.
    intros F. induction fuel as [|fuel IH]; intros st Hi HF Hm; [lia|].
    cbn [u_run]. pose proof (u_next_total F st Hi HF) as [I2 [O2 [M2 M3]]].
    destruct (u_next A parse_f32 F false st) as [st' o]. cbn [fst snd] in *.
    destruct o as [[r|]|e|s|]; try contradiction.
    - specialize (M3 r eq_refl).
      destruct (IH st' I2 ltac:(lia) ltac:(lia)) as [rs [o' [E Ho]]].
      exists (r :: rs), o'. split; [cbn; rewrite E; reflexivity|exact Ho].
    - exists [], (Ok None). split; [reflexivity|left; reflexivity].
    - exists [], (Err e). split; [reflexivity|right; eauto].
  Qed.

  Lemma u_run_no_panic : forall F fuel stop st, uinv st -> umu st < F ->
    Forall ok_outcome (firstn fuel (u_run A parse_f32 F false (S fuel) stop st)).
  Proof.
    intros F. induction fuel as [|fuel IH]; intros stop st Hi HF; [constructor|].
    cbn [u_run]. pose proof (u_next_total F st Hi HF) as [I2 [O2 [M2 _]]].
    destruct (u_next A parse_f32 F false st) as [st' o]. cbn [fst snd] in *.
    destruct o as [[r|]|e|s|]; try contradiction.
    - cbn [firstn]. constructor; [exact I|]. apply IH; [exact I2|lia].
    - cbn [firstn]. constructor; [exact I|]. destruct fuel; constructor.
    - destruct stop.
      + cbn [firstn]. constructor; [exact I|]. destruct fuel; constructor.
      + cbn [firstn]. constructor; [exact I|]. apply IH; [exact I2|lia].
  Qed.

  Theorem uniprobe_read_total : forall s, wf_stream s -> Holds_c15 (uniprobe_read A parse_f32 s).
  Proof.
    intros s H. unfold uniprobe_read. apply u_run_total; [exact H| |];
      unfold umu, u_new, slen, read_fuel, stream_bytes; cbn [ustream]; lia.
  Qed.

  Theorem uniprobe_calls_no_panic : forall calls s, wf_stream s ->
    Forall ok_outcome (uniprobe_calls A parse_f32 false calls s).
  Proof.
    intros calls s H. unfold uniprobe_calls. apply u_run_no_panic; [exact H|].
    unfold umu, u_new, slen, read_fuel, stream_bytes; cbn [ustream]; lia.
  Qed.
End UReader.
