(* Facts shared by the JASPAR proofs over error streams: the shape of what read_until_e
   returns, and read_until on the replay stream of IoErr.j_next_e_g. *)
From Coq Require Import List NArith Bool Arith Lia.
From LMBase Require Import Res.
From LMIo Require Import GenIoAbc IoBase IoNom IoJaspar IoBaseProofs IoErr IoErrUProofs.
Import ListNotations.

(* a successful read_until: nothing at end of input, or up to and including the first
   delimiter, or everything that was left (no delimiter) and then the stream is exhausted *)
Lemma read_until_e_shape : forall d es, wf_estream es ->
  snd (fst (read_until_e d es)) = false ->
  (exists p0, fst (fst (read_until_e d es)) = p0 ++ [d] /\ ~ In d p0) \/
  (~ In d (fst (fst (read_until_e d es))) /\ snd (read_until_e d es) = []).
Proof.
  induction es as [|ev es IH]; intros H He.
  - right. split; [intros []|reflexivity].
  - apply wf_estream_cons in H. destruct H as [Hev Hes].
    destruct ev as [c|[|]].
    + destruct c as [|b c]; [contradiction|].
      cbn [read_until_e] in *.
      destruct (split_delim d (b :: c)) as [[p q]|] eqn:E.
      * left. cbn [fst snd]. destruct (split_delim_some d _ p q E) as [_ [p0 [Ep Hn]]]. eauto.
      * destruct (read_until_e d es) as [[r e] es''] eqn:Er. cbn [fst snd] in *.
        specialize (IH Hes He). destruct IH as [[p0 [Ep Hn]]|[Hn Hs]].
        -- left. exists ((b :: c) ++ p0). rewrite Ep. rewrite app_assoc. split; [reflexivity|].
           intros Hi. apply in_app_or in Hi. destruct Hi as [Hi|Hi]; [exact (split_delim_none d _ E Hi)|exact (Hn Hi)].
        -- right. split; [|exact Hs]. intros Hi. apply in_app_or in Hi.
           destruct Hi as [Hi|Hi]; [exact (split_delim_none d _ E Hi)|exact (Hn Hi)].
    + cbn [read_until_e] in *. exact (IH Hes He).
    + cbn [read_until_e] in He. discriminate.
Qed.

Lemma replay_stream_wf : forall r more, wf_stream (replay_stream r more).
Proof.
  intros r more. unfold replay_stream, wf_stream. apply Forall_app. split; [apply mk_stream_wf|].
  destruct more; [constructor; [discriminate|constructor]|constructor].
Qed.

(* read_until on the replay stream gives back exactly the bytes, and leaves something iff [more] *)
Lemma read_until_replay : forall r more,
  ((exists p0, r = p0 ++ [62%N] /\ ~ In 62%N p0) \/ (~ In 62%N r /\ more = false)) ->
  read_until 62 (replay_stream r more) = (r, if more then [[62%N]] else []).
Proof.
  intros r more [[p0 [-> Hn]]|[Hn ->]]; unfold replay_stream, mk_stream.
  - destruct (p0 ++ [62%N]) as [|x l] eqn:E; [destruct p0; discriminate|]. cbn [filter app].
    rewrite <- E. cbn [read_until]. rewrite E.
    assert (split_delim 62 (x :: l) = Some (p0 ++ [62%N], [])) as S.
    { rewrite <- E. exact (split_delim_found 62 p0 [] Hn). }
    rewrite S. rewrite <- E. reflexivity.
  - destruct r as [|x l]; [reflexivity|]. cbn [filter app]. cbn [read_until].
    rewrite (split_delim_notin 62 _ Hn). cbn [read_until]. rewrite app_nil_r. reflexivity.
Qed.

(* next() never touches the stream except through read_until *)
Lemma j_next_g_stream : forall precord adv guard cap st,
  jstream (fst (j_next_g precord adv guard cap st)) = snd (read_until 62 (jstream st)).
Proof.
  intros precord adv guard cap st. unfold j_next_g.
  destruct (read_until 62 (jstream st)) as [r s']. cbn [snd].
  repeat match goal with
         | |- context [match ?x with _ => _ end] => destruct x; cbn [fst jstream]; try reflexivity
         end.
Qed.
