(* C14 "schedules" for the polling consumer: on streams without error events the outcome of EVERY request
   -- the ones after a parse / decoding error and after End included -- is independent of the chunking. *)
From Coq Require Import List NArith Bool Arith Lia.
From LMBase Require Import Res IEEE.
From LMIo Require Import GenIoAbc IoBase IoNom IoJaspar IoUniprobe IoPrint IoBaseProofs IoErr IoErrUProofs IoPoll.
Import ListNotations.

Definition same_bytes (es1 es2 : estream) : Prop :=
  exists s1 s2, es1 = of_stream s1 /\ es2 = of_stream s2 /\ wf_stream s1 /\ wf_stream s2 /\ concat s1 = concat s2.

Lemma same_bytes_is_nil : forall es1 es2, same_bytes es1 es2 -> is_nil es1 = is_nil es2.
Proof.
  intros es1 es2 (s1 & s2 & -> & -> & H1 & H2 & E).
  destruct s1 as [|c1 s1], s2 as [|c2 s2]; try reflexivity; exfalso.
  - symmetry in E. apply (wf_concat_nil _ H2) in E. discriminate E.
  - apply (wf_concat_nil _ H1) in E. discriminate E.
Qed.

Lemma read_until_e_same_bytes : forall d es1 es2, same_bytes es1 es2 ->
  exists r u1 u2, read_until_e d es1 = (r, false, u1) /\ read_until_e d es2 = (r, false, u2) /\ same_bytes u1 u2.
Proof.
  intros d es1 es2 (s1 & s2 & -> & -> & H1 & H2 & E).
  rewrite !read_until_e_of_stream.
  destruct (read_until_chunk_independent_lemma d s1 s2 H1 H2 E) as [Er Es].
  exists (fst (read_until d s1)), (of_stream (snd (read_until d s1))), (of_stream (snd (read_until d s2))).
  split; [reflexivity|]. split; [rewrite Er; reflexivity|].
  exists (snd (read_until d s1)), (snd (read_until d s2)).
  repeat split; try reflexivity; try (apply read_until_wf; assumption). exact Es.
Qed.

(* ---------- JASPAR / JASPAR 2016 ---------- *)

Lemma j_next_e_g_same_bytes : forall guard precord cap b s es1 es2, same_bytes es1 es2 ->
  let x1 := j_next_e_g guard precord cap {| ebuf := b; estart := s; estr := es1 |} in
  let x2 := j_next_e_g guard precord cap {| ebuf := b; estart := s; estr := es2 |} in
  snd x1 = snd x2 /\ ebuf (fst x1) = ebuf (fst x2) /\ estart (fst x1) = estart (fst x2) /\
  same_bytes (estr (fst x1)) (estr (fst x2)).
Proof.
  intros guard precord cap b s es1 es2 H. cbv zeta. unfold j_next_e_g. cbn [estr estart ebuf].
  destruct (read_until_e_same_bytes 62 es1 es2 H) as (r & u1 & u2 & -> & -> & R).
  rewrite (same_bytes_is_nil u1 u2 R).
  destruct (j_next_g precord false guard cap _) as [x o]. cbn [fst snd ebuf estart estr].
  repeat split; try reflexivity. exact R.
Qed.

Lemma j_polls_e_g_same_bytes : forall guard precord n caps k b s es1 es2, same_bytes es1 es2 ->
  j_polls_e_g guard precord n caps k {| ebuf := b; estart := s; estr := es1 |} =
  j_polls_e_g guard precord n caps k {| ebuf := b; estart := s; estr := es2 |}.
Proof.
  intros guard precord. induction n as [|n IH]; intros caps k b s es1 es2 H; [reflexivity|].
  cbn [j_polls_e_g].
  pose proof (j_next_e_g_same_bytes guard precord (caps k) b s es1 es2 H) as L. cbv zeta in L.
  destruct (j_next_e_g guard precord (caps k) {| ebuf := b; estart := s; estr := es1 |}) as [[b1 s1 u1] o1].
  destruct (j_next_e_g guard precord (caps k) {| ebuf := b; estart := s; estr := es2 |}) as [[b2 s2 u2] o2].
  cbn [fst snd ebuf estart estr] in L. destruct L as [<- [<- [<- R]]].
  destruct o1 as [[r|]|e|p|]; try reflexivity; f_equal; apply IH; exact R.
Qed.

Theorem j_polls_chunk_independent : forall guard precord U S n caps s1 s2,
  wf_stream s1 -> wf_stream s2 -> concat s1 = concat s2 ->
  j_polls_e_g guard precord n caps 0 (j_new_e U S (of_stream s1)) =
  j_polls_e_g guard precord n caps 0 (j_new_e U S (of_stream s2)).
Proof.
  intros guard precord U S n caps s1 s2 H1 H2 E. unfold j_new_e.
  assert (same_bytes (of_stream s1) (of_stream s2)) as H by (exists s1, s2; repeat split; assumption).
  destruct (read_until_e_same_bytes 62 _ _ H) as (r & u1 & u2 & -> & -> & R).
  apply j_polls_e_g_same_bytes. exact R.
Qed.

(* ---------- UniPROBE ---------- *)

Lemma read_line_e_same_bytes : forall es1 es2, same_bytes es1 es2 ->
  fst (read_line_e es1) = fst (read_line_e es2) /\ same_bytes (snd (read_line_e es1)) (snd (read_line_e es2)).
Proof.
  intros es1 es2 H. unfold read_line_e.
  destruct (read_until_e_same_bytes 10 es1 es2 H) as (r & u1 & u2 & -> & -> & R).
  destruct (utf8_decode r); cbn [fst snd]; split; try reflexivity; exact R.
Qed.

Definition fill_same (a b : fill_res_e) : Prop :=
  match a, b with
  | XLine b1 s1, XLine b2 s2 | XEof b1 s1, XEof b2 s2 | XErr b1 s1, XErr b2 s2 => b1 = b2 /\ same_bytes s1 s2
  | XFuel, XFuel => True
  | _, _ => False
  end.

Lemma u_fill_e_same_bytes : forall fuel buf s1 s2, same_bytes s1 s2 ->
  fill_same (u_fill_e fuel buf s1) (u_fill_e fuel buf s2).
Proof.
  induction fuel as [|fuel IH]; intros buf s1 s2 R; [exact I|].
  cbn [u_fill_e]. destruct (read_line_e_same_bytes s1 s2 R) as [Eo R'].
  destruct (read_line_e s1) as [o1 u1]. destruct (read_line_e s2) as [o2 u2].
  cbn [fst snd] in *. subst o2.
  destruct o1 as [n cs|cs]; [|split; [reflexivity|exact R']].
  destruct n as [|n]; [split; [reflexivity|exact R']|].
  destruct (is_nil (trim (buf ++ cs))); [apply IH; exact R'|split; [reflexivity|exact R']].
Qed.

Section UChunk.
  Variable A : alphabet.
  Variable parse_f32 : list N -> option F32.t.

  Definition cols_same (a b : cols_res_e) : Prop :=
    match a, b with
    | YDone c1 b1 l1 s1, YDone c2 b2 l2 s2 => c1 = c2 /\ b1 = b2 /\ l1 = l2 /\ same_bytes s1 s2
    | YErr b1 s1, YErr b2 s2 => b1 = b2 /\ same_bytes s1 s2
    | YPanic k1, YPanic k2 => k1 = k2
    | YFuel, YFuel => True
    | _, _ => False
    end.

  Lemma u_columns_e_same_bytes : forall F fuel buf line s1 s2 acc, same_bytes s1 s2 ->
    cols_same (u_columns_e A parse_f32 F fuel buf line s1 acc) (u_columns_e A parse_f32 F fuel buf line s2 acc).
  Proof.
    intros F. induction fuel as [|fuel IH]; intros buf line s1 s2 acc R; [exact I|].
    cbn [u_columns_e].
    assert (fill_same (if line then XLine buf s1 else u_fill_e F buf s1)
                      (if line then XLine buf s2 else u_fill_e F buf s2)) as Fs.
    { destruct line; [split; [reflexivity|exact R]|apply u_fill_e_same_bytes; exact R]. }
    destruct (if line then XLine buf s1 else u_fill_e F buf s1) as [b1 t1|b1 t1|b1 t1|];
      destruct (if line then XLine buf s2 else u_fill_e F buf s2) as [b2 t2|b2 t2|b2 t2|];
      try contradiction; try exact I; destruct Fs as [<- R'].
    - destruct (u_matrix_column A parse_f32 b1); try (repeat split; try reflexivity; exact R'); try exact I.
      apply IH; exact R'.
    - destruct (u_matrix_column A parse_f32 b1); try (repeat split; try reflexivity; exact R'); try exact I.
      apply IH; exact R'.
    - split; [reflexivity|exact R'].
  Qed.

  Lemma u_next_e_same_bytes : forall F b line s1 s2, same_bytes s1 s2 ->
    let x1 := u_next_e A parse_f32 F {| xbuf := b; xline := line; xstr := s1 |} in
    let x2 := u_next_e A parse_f32 F {| xbuf := b; xline := line; xstr := s2 |} in
    snd x1 = snd x2 /\ xbuf (fst x1) = xbuf (fst x2) /\ xline (fst x1) = xline (fst x2) /\
    same_bytes (xstr (fst x1)) (xstr (fst x2)).
  Proof.
    intros F b line s1 s2 R. cbv zeta. unfold u_next_e. cbn [xbuf xline xstr].
    assert (fill_same (if line then XLine b s1 else u_fill_e F b s1)
                      (if line then XLine b s2 else u_fill_e F b s2)) as Fs.
    { destruct line; [split; [reflexivity|exact R]|apply u_fill_e_same_bytes; exact R]. }
    destruct (if line then XLine b s1 else u_fill_e F b s1) as [b1 t1|b1 t1|b1 t1|];
      destruct (if line then XLine b s2 else u_fill_e F b s2) as [b2 t2|b2 t2|b2 t2|];
      try contradiction.
    2,3: destruct Fs as [<- R']; cbn [fst snd xbuf xline xstr]; repeat split; try reflexivity; exact R'.
    2: cbn [fst snd xbuf xline xstr]; repeat split; try reflexivity; exact R.
    destruct Fs as [<- R'].
    destruct (u_id b1) as [rest n id| | | |];
      try (cbn [fst snd xbuf xline xstr]; repeat split; try reflexivity; first [exact R'|exact R]).
    pose proof (u_columns_e_same_bytes F F [] false t1 t2 [] R') as C.
    destruct (u_columns_e A parse_f32 F F [] false t1 []) as [c1 bb1 l1 u1|bb1 u1|k1|];
      destruct (u_columns_e A parse_f32 F F [] false t2 []) as [c2 bb2 l2 u2|bb2 u2|k2|];
      try contradiction.
    - destruct C as [<- [<- [<- R'']]].
      destruct (u_build_matrix A false c1) as [m|e|k|];
        try (cbn [fst snd xbuf xline xstr]; repeat split; try reflexivity; exact R'').
      destruct (freq_new m); cbn [fst snd xbuf xline xstr]; repeat split; try reflexivity; exact R''.
    - destruct C as [<- R'']. cbn [fst snd xbuf xline xstr]. repeat split; try reflexivity. exact R''.
    - cbn in C. subst k2. cbn [fst snd xbuf xline xstr]. repeat split; try reflexivity. exact R.
    - cbn [fst snd xbuf xline xstr]. repeat split; try reflexivity. exact R.
  Qed.

  Lemma u_polls_e_same_bytes : forall F n b line s1 s2, same_bytes s1 s2 ->
    u_polls_e A parse_f32 F n {| xbuf := b; xline := line; xstr := s1 |} =
    u_polls_e A parse_f32 F n {| xbuf := b; xline := line; xstr := s2 |}.
  Proof.
    intros F. induction n as [|n IH]; intros b line s1 s2 R; [reflexivity|].
    cbn [u_polls_e].
    pose proof (u_next_e_same_bytes F b line s1 s2 R) as L. cbv zeta in L.
    destruct (u_next_e A parse_f32 F {| xbuf := b; xline := line; xstr := s1 |}) as [[b1 l1 u1] o1].
    destruct (u_next_e A parse_f32 F {| xbuf := b; xline := line; xstr := s2 |}) as [[b2 l2 u2] o2].
    cbn [fst snd xbuf xline xstr] in L. destruct L as [<- [<- [<- R']]].
    destruct o1 as [[r|]|e|p|]; try reflexivity; f_equal; apply IH; exact R'.
  Qed.

  Theorem uniprobe_polls_chunk_independent : forall n s1 s2,
    wf_stream s1 -> wf_stream s2 -> concat s1 = concat s2 ->
    uniprobe_polls_e A parse_f32 n (of_stream s1) = uniprobe_polls_e A parse_f32 n (of_stream s2).
  Proof.
    intros n s1 s2 H1 H2 E. unfold uniprobe_polls_e, read_fuel_e, u_new_e.
    rewrite !data_bytes_of_stream, E. apply u_polls_e_same_bytes.
    exists s1, s2. repeat split; assumption.
  Qed.
End UChunk.
