(* Model of lightmotif-io/src/uniprobe/{mod,parse}.rs (REPAIRED tree: /repo commit
   f739510), plus the unrepaired build_matrix.  Executable definitions only.

   Frequencies: the decimal -> f32 conversion (Rust's str::parse::<f32>, reached
   through nom's `float`) is NOT modelled; it is the Section variable [parse_f32]
   (token -> binary32 value), supplied by the harness as IEEE bits.  Everything
   downstream of it (FrequencyMatrix::new's row-sum test) is computed bit-exactly
   with Flocq's binary32 (LMBase.IEEE.F32). *)
From Coq Require Import List NArith ZArith Bool Arith.
From LMBase Require Import Res ListX IEEE.
From LMIo Require Import GenIoAbc IoBase IoNom IoJaspar.
Import ListNotations.

Section Uniprobe.
  Variable A : alphabet.
  Variable parse_f32 : list N -> option F32.t.

  (* many1(preceded(tab, float)) *)
  Definition u_frequencies : parser (list F32.t) :=
    p_many1 (p_preceded (p_char 9) (p_float parse_f32)).

  (* terminated(separated_pair(symbol, char(':'), frequencies), END) where END is `line_ending`
     or -- once the last column line of a file may lack its newline -- `alt((line_ending, eof))`;
     which one the source has is re-read on every run (GenIoAbc.gen_uniprobe_col_eof) *)
  Definition u_col_end_of (eof : bool) : parser (list N) :=
    if eof then p_alt p_line_ending p_eof else p_line_ending.
  Definition u_col_end : parser (list N) := u_col_end_of gen_uniprobe_col_eof.

  Definition u_matrix_column : parser (nat * list F32.t) :=
    p_terminated (p_separated_pair (p_symbol A) (p_char 58) u_frequencies) u_col_end.

  (* map(terminated(not_line_ending, line_ending), str::trim) *)
  Definition u_id : parser (list N) :=
    p_map trim (p_terminated p_not_line_ending p_line_ending).

  (* build_matrix; repaired: an empty column list is Err(InvalidData);
     [buggy = true]: input[0] panics *)
  Definition u_build_matrix (buggy : bool) (cols : list (nat * list F32.t)) : res (list (list F32.t)) :=
    match cols with
    | [] => if buggy then Panic 40 else Err EInvalid
    | _ => j16_build_matrix A F32.zero cols
    end.

  (* FrequencyMatrix::new: every row r must satisfy (r.iter().sum::<f32>() - 1.0).abs() < 0.01.
     <f32 as Sum>::sum folds from -0.0 (from +0.0 in older std versions: the test
     cannot tell the difference, -0.0 + x = x and (+-0.0) - 1.0 = -1.0). *)
  Definition f32_one : F32.t := F32.of_bits 1065353216.       (* 1.0f32  = 0x3F800000 *)
  Definition f32_tol : F32.t := F32.of_bits 1008981770.       (* 0.01f32 = 0x3C23D70A *)

  Definition row_ok (row : list F32.t) : bool :=
    F32.lt (F32.abs (F32.sub (F32.sum_from F32.nzero row) f32_one)) f32_tol.

  Definition freq_new (m : list (list F32.t)) : res (list (list F32.t)) :=
    if forallb row_ok m then Ok m else Err EInvalid.

  (* ---------- the Reader state machine (uniprobe/mod.rs) ---------- *)

  (* buffer: String (scalar values), line: "buffer holds an unconsumed line" *)
  Record ustate := { ubuf : list N; uline : bool; ustream : stream }.

  Definition u_new (s : stream) : ustate := {| ubuf := []; uline := false; ustream := s |}.

  (* while !self.line { read_line(&mut self.buffer) ... } *)
  Inductive fill_res : Type :=
  | FLine (buf : list N) (s : stream)      (* a line with content is pending *)
  | FEof (buf : list N) (s : stream)       (* read_line returned Ok(0) *)
  | FErr (buf : list N) (s : stream)       (* read_line returned Err (invalid UTF-8) *)
  | FFuel.

  Fixpoint u_fill (fuel : nat) (buf : list N) (s : stream) : fill_res :=
    match fuel with
    | 0 => FFuel
    | S fuel' =>
        match read_line s with
        | (Ok (0, _), s') => FEof buf s'
        | (Ok (_, cs), s') =>
            let buf' := buf ++ cs in
            if is_nil (trim buf') then u_fill fuel' [] s' (* self.buffer.clear() *)
            else FLine buf' s'
        | (_, s') => FErr buf s'
        end
    end.


  (* the `loop` collecting matrix columns *)
  Inductive cols_res : Type :=
  | CDone (cols : list (nat * list F32.t)) (buf : list N) (line : bool) (s : stream)
  | CErr (buf : list N) (s : stream)       (* read_line error inside the loop *)
  | CPanic (site : nat)
  | CFuel.

  (* [F]: the fuel handed to the inner u_fill loops; any F above the number of unread bytes
     will do (IoTotalU.v).  It is computed ONCE per reader (read_fuel) and threaded through:
     recomputing it from the stream at every line made the extracted model quadratic. *)
  Fixpoint u_columns (F : nat) (fuel : nat) (buf : list N) (line : bool) (s : stream)
           (acc : list (nat * list F32.t)) : cols_res :=
    match fuel with
    | 0 => CFuel
    | S fuel' =>
        let filled :=
          if line then FLine buf s
          else u_fill F buf s in
        match filled with
        | FFuel => CFuel
        | FErr b s' => CErr b s'
        | FLine b s' =>
            match u_matrix_column b with
            | POk _ _ col => u_columns F fuel' [] false s' (col :: acc)
            | PErr _ | PFail _ => CDone (rev acc) b true s'
            | PPanic k => CPanic k
            | PFuel => CFuel
            end
        | FEof b s' =>
            (* Ok(0) => break: the (empty) buffer is parsed as a column all the same *)
            match u_matrix_column b with
            | POk _ _ col => u_columns F fuel' [] false s' (col :: acc)
            | PErr _ | PFail _ => CDone (rev acc) b false s'
            | PPanic k => CPanic k
            | PFuel => CFuel
            end
        end
    end.


  Definition u_next (F : nat) (buggy : bool) (st : ustate) : ustate * res (option (record F32.t)) :=
    let filled :=
      if uline st then FLine (ubuf st) (ustream st)
      else u_fill F (ubuf st) (ustream st) in
    match filled with
    | FFuel => (st, OutOfFuel)
    | FErr b s => ({| ubuf := b; uline := false; ustream := s |}, Err EIo)
    | FEof b s => ({| ubuf := b; uline := false; ustream := s |}, Ok None)
    | FLine b s =>
        match u_id b with
        | PErr _ | PFail _ => ({| ubuf := b; uline := true; ustream := s |}, Err ENom)
        | PPanic k => (st, Panic k)
        | PFuel => (st, OutOfFuel)
        | POk _ _ id =>
            match u_columns F F [] false s [] with
            | CFuel => (st, OutOfFuel)
            | CPanic k => (st, Panic k)
            | CErr b' s' => ({| ubuf := b'; uline := false; ustream := s' |}, Err EIo)
            | CDone cols b' line' s' =>
                let st' := {| ubuf := b'; uline := line'; ustream := s' |} in
                match u_build_matrix buggy cols with
                | Err e => (st', Err e)
                | Panic k => (st', Panic k)
                | OutOfFuel => (st', OutOfFuel)
                | Ok m =>
                    match freq_new m with
                    | Ok m' => (st', Ok (Some {| rid := id; rdesc := None; rmatrix := m' |}))
                    | Err e => (st', Err e)
                    | Panic k => (st', Panic k)
                    | OutOfFuel => (st', OutOfFuel)
                    end
                end
            end
        end
    end.

  Fixpoint u_run (F : nat) (buggy : bool) (fuel : nat) (stop_err : bool) (st : ustate)
    : list (res (option (record F32.t))) :=
    match fuel with
    | 0 => [OutOfFuel]
    | S fuel' =>
        let (st', o) := u_next F buggy st in
        match o with
        | Ok (Some _) => o :: u_run F buggy fuel' stop_err st'
        | Err _ => if stop_err then [o] else o :: u_run F buggy fuel' stop_err st'
        | _ => [o]
        end
    end.

  (* the fuel of one reader: more than the number of bytes of its stream *)
  Definition read_fuel (s : stream) : nat := S (S (S (length (stream_bytes s)))).

  (* Reader::new(stream) then next() until End or the first error *)
  Definition uniprobe_read (s : stream) : list (res (option (record F32.t))) :=
    u_run (read_fuel s) false (read_fuel s) true (u_new s).

  (* the first [calls] outcomes when the caller goes on after errors *)
  Definition uniprobe_calls (buggy : bool) (calls : nat) (s : stream) : list (res (option (record F32.t))) :=
    firstn calls (u_run (read_fuel s) buggy (S calls) false (u_new s)).
End Uniprobe.

Definition j_calls (precord : parser (record N)) (calls : nat) (caps : nat -> nat) (s : stream)
  : list (res (option (record N))) :=
  match j_new s with
  | Ok st => firstn calls (j_run precord false (S calls) false caps 0 st)
  | Err e => [Err e]
  | Panic k => [Panic k]
  | OutOfFuel => [OutOfFuel]
  end.
