(* The JASPAR readers seen through their PENDING bytes: the state (buffer, start) of
   jaspar/mod.rs only matters through buffer[start..]; whether and when the buffer is
   compacted (a function of Vec::capacity()) is invisible, and the chunking of the stream
   only matters through read_until.  [a_next] is that abstract reader; [j_next_abs] shows
   the concrete reader (repaired code, adv_buggy = false) refines it. *)
From Coq Require Import List NArith Bool Arith Lia.
From LMBase Require Import Res.
From LMIo Require Import IoBase IoNom IoJaspar IoBaseProofs.
Import ListNotations.

Section Abs.
  Variable precord : parser (record N).

  (* one next() on the pending bytes [pend] after read_until returned [r] *)
  Definition a_core_g (guard : bool) (pend r : list N) : list N * res (option (record N)) :=
    let n := length r in
    let all := pend ++ r in
    let slice : res (list N) :=
      if n =? 0 then Ok pend
      else if is_nil pend then (if guard then Ok all else Panic 32) else Ok (firstn (n + 1) all) in
    match slice with
    | Panic k => (all, Panic k)
    | Err e => (all, Err e)
    | OutOfFuel => (all, OutOfFuel)
    | Ok bytes =>
        match utf8_decode bytes with
        | None => (all, Err EIo)
        | Some text =>
            if (n =? 0) && is_nil (trim text) then (all, Ok None)
            else
              match precord text with
              | PErr _ | PFail _ => (all, Err ENom)
              | PPanic k => (all, Panic k)
              | PFuel => (all, OutOfFuel)
              | POk rest _ rec =>
                  if str_len rest <=? length bytes
                  then (skipn (length bytes - str_len rest) all, Ok (Some rec))
                  else (all, Panic 33)
              end
        end
    end.

  Definition a_core := a_core_g GenIoAbc.gen_jaspar_slice_guard.

  Definition a_next (ps : list N * stream) : (list N * stream) * res (option (record N)) :=
    let (r, s') := read_until 62 (snd ps) in
    let (p', o) := a_core (fst ps) r in
    ((p', s'), o).

  Fixpoint a_run (fuel : nat) (ps : list N * stream) : list (res (option (record N))) :=
    match fuel with
    | 0 => [OutOfFuel]
    | S fuel' =>
        let (ps', o) := a_next ps in
        match o with
        | Ok (Some _) => o :: a_run fuel' ps'
        | _ => [o]
        end
    end.

  Definition a_read (s : stream) : list (res (option (record N))) :=
    let (r, s0) := read_until 62 s in
    a_run (S (S (length (stream_bytes s)))) (skipn (length r - 1) r, s0).

  (* ---------- the concrete reader refines the abstract one ---------- *)

  Lemma skipn_app_le : forall {A} n (l1 l2 : list A), n <= length l1 -> skipn n (l1 ++ l2) = skipn n l1 ++ l2.
  Proof.
    intros A n l1 l2 H. rewrite skipn_app. replace (n - length l1) with 0 by lia. reflexivity.
  Qed.

  Lemma skipn_add : forall {A} a b (l : list A), skipn b (skipn a l) = skipn (a + b) l.
  Proof.
    intros A a. induction a as [|a IH]; intros b l; [reflexivity|].
    destruct l as [|x l]; [cbn; destruct b; reflexivity|]. cbn [skipn Nat.add]. apply IH.
  Qed.

  Lemma is_nil_skipn : forall {A} n (l : list A), n <= length l -> is_nil (skipn n l) = negb (n <? length l).
  Proof.
    intros A n l H. destruct (skipn n l) eqn:E.
    - apply (f_equal (@length A)) in E. rewrite skipn_length in E. cbn in E.
      assert (n <? length l = false) as T by (apply Nat.ltb_ge; lia). rewrite T. reflexivity.
    - apply (f_equal (@length A)) in E. rewrite skipn_length in E. cbn in E.
      assert (n <? length l = true) as T by (apply Nat.ltb_lt; lia). rewrite T. reflexivity.
  Qed.

  Lemma j_next_abs : forall cap st, jstart st <= length (jbuf st) ->
    let st' := fst (j_next precord false cap st) in
    let ps' := fst (a_next (skipn (jstart st) (jbuf st), jstream st)) in
    snd (j_next precord false cap st) = snd (a_next (skipn (jstart st) (jbuf st), jstream st)) /\
    skipn (jstart st') (jbuf st') = fst ps' /\ jstream st' = snd ps' /\ jstart st' <= length (jbuf st').
  Proof.
    intros cap [buf0 start stream] Hle. cbn [jstream jstart jbuf] in *.
    unfold j_next, j_next_g, a_next, a_core, a_core_g. generalize GenIoAbc.gen_jaspar_slice_guard as guard. intros guard.
    cbn [jstream jstart jbuf fst snd].
    destruct (read_until 62 stream) as [r s'].
    set (pend := skipn start buf0).
    assert (skipn start (buf0 ++ r) = pend ++ r) as Hs by (apply skipn_app_le; exact Hle).
    assert (length (buf0 ++ r) = length buf0 + length r) as Lbuf by apply app_length.
    assert (length pend = length buf0 - start) as Lp by (unfold pend; apply skipn_length).
    assert (start <= length (buf0 ++ r)) as Hle2 by lia.
    (* the slice *)
    assert (exists sl,
      (if length r =? 0
       then if start <=? length (buf0 ++ r) then Ok (skipn start (buf0 ++ r)) else Panic 31
       else if start + length r <? length (buf0 ++ r)
            then Ok (firstn (length r + 1) (skipn start (buf0 ++ r)))
            else if guard then (if start <=? length (buf0 ++ r) then Ok (skipn start (buf0 ++ r)) else Panic 31)
                 else Panic 32) = sl /\
      (if length r =? 0 then Ok pend
       else if is_nil pend then (if guard then Ok (pend ++ r) else Panic 32)
            else Ok (firstn (length r + 1) (pend ++ r))) = sl /\
      match sl with Ok bytes => length bytes <= length (pend ++ r) | Panic _ => True | _ => False end)
      as [sl [E1 [E2 Lsl]]].
    { destruct (length r =? 0) eqn:En.
      - apply Nat.eqb_eq in En. apply length_zero_iff_nil in En. subst r.
        assert (start <=? length (buf0 ++ []) = true) as T by (apply Nat.leb_le; lia). rewrite T.
        rewrite Hs. rewrite app_nil_r. eexists. repeat split. lia.
      - unfold pend at 1. rewrite (is_nil_skipn start buf0 Hle).
        assert ((start + length r <? length (buf0 ++ r)) = (start <? length buf0)) as T.
        { destruct (start <? length buf0) eqn:Q.
          - apply Nat.ltb_lt in Q. apply Nat.ltb_lt. lia.
          - apply Nat.ltb_ge in Q. apply Nat.ltb_ge. lia. }
        rewrite T. destruct (start <? length buf0); cbn [negb].
        + rewrite Hs. eexists. repeat split. rewrite firstn_length. lia.
        + destruct guard; [|eexists; repeat split].
          assert (start <=? length (buf0 ++ r) = true) as T3 by (apply Nat.leb_le; lia). rewrite T3.
          rewrite Hs. eexists. repeat split. lia. }
    rewrite E1, E2.
    assert (skipn start (buf0 ++ r) = pend ++ r /\ s' = s' /\ start <= length (buf0 ++ r)) as G1 by auto.
    destruct sl as [bytes|e|k|]; try contradiction; [|cbn [fst snd jstream jstart jbuf]; split; [reflexivity|exact G1]].
    destruct (utf8_decode bytes) as [text|]; [|cbn [fst snd jstream jstart jbuf]; split; [reflexivity|exact G1]].
    destruct ((length r =? 0) && is_nil (trim text)); [cbn [fst snd jstream jstart jbuf]; split; [reflexivity|exact G1]|].
    destruct (precord text) as [rest n' rec| | | |]; try (cbn [fst snd jstream jstart jbuf]; split; [reflexivity|exact G1]).
    destruct (str_len rest <=? length bytes) eqn:T1; [|cbn [fst snd jstream jstart jbuf]; split; [reflexivity|exact G1]].
    apply Nat.leb_le in T1.
    set (c := length bytes - str_len rest).
    assert (start + c <= length (buf0 ++ r)) as Lc.
    { rewrite app_length in Lsl. unfold c. lia. }
    assert (skipn (start + c) (buf0 ++ r) = skipn c (pend ++ r)) as Hk.
    { rewrite <- Hs. rewrite skipn_add. reflexivity. }
    destruct (cap / 2 <? start + c).
    - assert (start + c <=? length (buf0 ++ r) = true) as T2 by (apply Nat.leb_le; exact Lc).
      rewrite T2. cbn [fst snd jstream jstart jbuf]. repeat split; [exact Hk|lia].
    - cbn [fst snd jstream jstart jbuf]. repeat split; [exact Hk|exact Lc].
  Qed.

  Lemma j_run_abs : forall fuel caps k st, jstart st <= length (jbuf st) ->
    j_run precord false fuel true caps k st = a_run fuel (skipn (jstart st) (jbuf st), jstream st).
  Proof.
    induction fuel as [|fuel IH]; intros caps k st Hle; [reflexivity|].
    cbn [j_run a_run]. pose proof (j_next_abs (caps k) st Hle) as [Eo [Ep [Es Hle2]]].
    destruct (j_next precord false (caps k) st) as [st' o].
    destruct (a_next (skipn (jstart st) (jbuf st), jstream st)) as [[p' s'] o'].
    cbn [fst snd] in *. subst o'.
    destruct o as [[rec|]|e|kk|]; try reflexivity.
    f_equal. rewrite (IH caps (S k) st' Hle2). rewrite Ep, Es. reflexivity.
  Qed.

  (* the whole reader does not depend on the capacity oracle *)
  Theorem j_read_abs : forall caps s, j_read precord caps s = a_read s.
  Proof.
    intros caps s. unfold j_read, j_new, a_read.
    destruct (read_until 62 s) as [r s0].
    rewrite j_run_abs by (cbn [jstart jbuf]; lia). reflexivity.
  Qed.

  (* ---------- and not on the chunking ---------- *)

  Lemma a_next_chunk : forall pend s1 s2, wf_stream s1 -> wf_stream s2 -> concat s1 = concat s2 ->
    snd (a_next (pend, s1)) = snd (a_next (pend, s2)) /\
    fst (fst (a_next (pend, s1))) = fst (fst (a_next (pend, s2))) /\
    wf_stream (snd (fst (a_next (pend, s1)))) /\ wf_stream (snd (fst (a_next (pend, s2)))) /\
    concat (snd (fst (a_next (pend, s1)))) = concat (snd (fst (a_next (pend, s2)))).
  Proof.
    intros pend s1 s2 H1 H2 E. unfold a_next. cbn [fst snd].
    destruct (read_until_chunk_independent_lemma 62 s1 s2 H1 H2 E) as [Er Es].
    pose proof (read_until_wf 62 s1 H1) as W1. pose proof (read_until_wf 62 s2 H2) as W2.
    destruct (read_until 62 s1) as [r1 t1]. destruct (read_until 62 s2) as [r2 t2].
    cbn [fst snd] in *. subst r2. destruct (a_core pend r1) as [p' o]. cbn [fst snd]. auto.
  Qed.

  Lemma a_run_chunk : forall fuel pend s1 s2, wf_stream s1 -> wf_stream s2 -> concat s1 = concat s2 ->
    a_run fuel (pend, s1) = a_run fuel (pend, s2).
  Proof.
    induction fuel as [|fuel IH]; intros pend s1 s2 H1 H2 E; [reflexivity|].
    cbn [a_run]. destruct (a_next_chunk pend s1 s2 H1 H2 E) as [Eo [Ep [W1 [W2 Ec]]]].
    destruct (a_next (pend, s1)) as [[p1 t1] o1]. destruct (a_next (pend, s2)) as [[p2 t2] o2].
    cbn [fst snd] in *. subst o2 p2.
    destruct o1 as [[rec|]|e|kk|]; try reflexivity. f_equal. apply IH; assumption.
  Qed.

  Theorem a_read_chunk : forall s1 s2, wf_stream s1 -> wf_stream s2 -> concat s1 = concat s2 ->
    a_read s1 = a_read s2.
  Proof.
    intros s1 s2 H1 H2 E. unfold a_read, stream_bytes.
    destruct (read_until_chunk_independent_lemma 62 s1 s2 H1 H2 E) as [Er Es].
    pose proof (read_until_wf 62 s1 H1) as W1. pose proof (read_until_wf 62 s2 H2) as W2.
    destruct (read_until 62 s1) as [r1 t1]. destruct (read_until 62 s2) as [r2 t2].
    cbn [fst snd] in *. subst r2. rewrite E. apply a_run_chunk; assumption.
  Qed.
End Abs.
