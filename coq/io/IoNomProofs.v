(* Soundness of the nom combinator model (IoNom.v): a successful parser returns a
   suffix of its input and the number of scalar values consumed; combinators built from
   good parsers never reach a panic site and never run out of fuel.
   [pspec Q p]: Hoare-style specification -- on success the input splits as pre ++ rest,
   n = length pre and Q pre value; the parser never returns PPanic / PFuel. *)
From Coq Require Import List NArith Bool Arith Lia.
From LMBase Require Import Res.
From LMIo Require Import IoBase IoNom.
Import ListNotations.

Definition pspec {A} (Q : list N -> A -> Prop) (p : parser A) : Prop :=
  forall i, match p i with
            | POk rest n a => exists pre, i = pre ++ rest /\ length pre = n /\ Q pre a
            | PErr _ | PFail _ => True
            | PPanic _ | PFuel => False
            end.

Definition pgood {A} (p : parser A) : Prop := pspec (fun _ _ => True) p.

Lemma pspec_weaken : forall {A} (Q Q' : list N -> A -> Prop) p,
  (forall pre a, Q pre a -> Q' pre a) -> pspec Q p -> pspec Q' p.
Proof.
  intros A Q Q' p H S i. specialize (S i). destruct (p i); auto.
  destruct S as [pre [E [L q]]]. exists pre. auto.
Qed.

Lemma pspec_good : forall {A} (Q : list N -> A -> Prop) p, pspec Q p -> pgood p.
Proof. intros A Q p. apply pspec_weaken. auto. Qed.

Lemma pspec_ext : forall {A} (Q : list N -> A -> Prop) p p', (forall i, p i = p' i) -> pspec Q p -> pspec Q p'.
Proof. intros A Q p p' E S i. rewrite <- E. apply S. Qed.

(* what a successful parse tells *)
Lemma pspec_ok : forall {A} (Q : list N -> A -> Prop) p i rest n a,
  pspec Q p -> p i = POk rest n a -> exists pre, i = pre ++ rest /\ length pre = n /\ Q pre a.
Proof. intros A Q p i rest n a S E. specialize (S i). rewrite E in S. exact S. Qed.

Lemma pspec_ret : forall {A} (Q : list N -> A -> Prop) (v : A), Q [] v -> pspec Q (fun r => POk r 0 v).
Proof. intros A Q v H i. exists []. auto. Qed.

Lemma pspec_bind : forall {A B} (Q1 : list N -> A -> Prop) (Q : list N -> B -> Prop)
    (p : parser A) (k : list N -> A -> pres B),
  pspec Q1 p ->
  (forall p1 a, Q1 p1 a -> pspec (fun p2 b => Q (p1 ++ p2) b) (fun r => k r a)) ->
  pspec Q (fun i => pbind (p i) k).
Proof.
  intros A B Q1 Q p k S1 S2 i. specialize (S1 i). unfold pbind.
  destruct (p i) as [r1 n1 a| | | |]; auto.
  destruct S1 as [p1 [E1 [L1 q1]]]. specialize (S2 p1 a q1 r1). cbn beta in S2.
  destruct (k r1 a) as [r2 n2 b| | | |]; auto.
  destruct S2 as [p2 [E2 [L2 q2]]]. exists (p1 ++ p2). subst.
  rewrite app_assoc. rewrite app_length. auto.
Qed.

(* ---------- elementary parsers ---------- *)

Lemma strip_prefix_some : forall t i r, strip_prefix t i = Some r -> i = t ++ r.
Proof.
  induction t as [|x t IH]; intros i r H; cbn in *; [inversion H; reflexivity|].
  destruct i as [|y i]; [discriminate|]. destruct (N.eqb x y) eqn:E; [|discriminate].
  apply N.eqb_eq in E. subst. cbn. f_equal. apply IH. exact H.
Qed.

Lemma pspec_tag : forall t, pspec (fun pre a => pre = t) (p_tag t).
Proof.
  intros t i. unfold p_tag. destruct (strip_prefix t i) eqn:E; auto.
  apply strip_prefix_some in E. exists t. auto.
Qed.

Lemma pspec_char : forall c, pspec (fun pre a => pre = [c] /\ a = c) (p_char c).
Proof.
  intros c [|x r]; cbn; auto. destruct (N.eqb x c) eqn:E; auto.
  apply N.eqb_eq in E. subst. exists [c]. auto.
Qed.

Lemma pspec_anychar : pspec (fun pre a => pre = [a]) p_anychar.
Proof. intros [|x r]; cbn; auto. exists [x]. auto. Qed.

Lemma span_spec : forall p l, l = fst (span p l) ++ snd (span p l).
Proof.
  induction l as [|c r IH]; cbn; [reflexivity|].
  destruct (p c); [|reflexivity]. destruct (span p r) as [a b]. cbn in *. f_equal. exact IH.
Qed.

Lemma pspec_take_while : forall p, pspec (fun pre a => pre = a) (p_take_while p).
Proof.
  intros p i. unfold p_take_while. pose proof (span_spec p i) as E.
  destruct (span p i) as [a r]. cbn in E. exists a. auto.
Qed.

Lemma pspec_take_while1 : forall p k, pspec (fun pre a => pre = a /\ a <> []) (p_take_while1 p k).
Proof.
  intros p k i. unfold p_take_while1. pose proof (span_spec p i) as E.
  destruct (span p i) as [a r]. cbn in E. destruct a as [|x a]; auto.
  exists (x :: a). repeat split; auto. discriminate.
Qed.

Lemma pspec_take_until_nl : pspec (fun pre a => pre = a) p_take_until_nl.
Proof.
  intros i. unfold p_take_until_nl.
  pose proof (span_spec (fun c => negb (N.eqb c 10)) i) as E.
  destruct (span (fun c => negb (N.eqb c 10)) i) as [a r]. cbn in E. destruct r; auto.
  exists a. auto.
Qed.

Definition ends_lf (pre : list N) : Prop := exists p0, pre = p0 ++ [10%N].

Lemma ends_lf_app : forall a b, ends_lf b -> ends_lf (a ++ b).
Proof. intros a b [p0 ->]. exists (a ++ p0). rewrite app_assoc. reflexivity. Qed.

Lemma pspec_line_ending : pspec (fun pre a => ends_lf pre) p_line_ending.
Proof.
  intros i. unfold p_line_ending.
  destruct i as [|x r]; auto.
  destruct x as [|x]; auto.
  destruct x as [x|x|]; auto; destruct x as [x|x|]; auto; destruct x as [x|x|]; auto.
  - (* 13 = 0b1101 *) destruct x as [x|x|]; auto. destruct r as [|y r]; auto.
    destruct y as [|y]; auto.
    destruct y as [y|y|]; auto; destruct y as [y|y|]; auto; destruct y as [y|y|]; auto.
    destruct y as [y|y|]; auto.
    exists [13%N; 10%N]. repeat split. exists [13%N]. reflexivity.
  - (* 10 = 0b1010 *) destruct x as [x|x|]; auto.
    exists [10%N]. repeat split. exists []. reflexivity.
Qed.

Lemma pgood_eof : pgood p_eof.
Proof. intros [|x r]; cbn; auto. exists []. auto. Qed.

Lemma pspec_not_line_ending : pspec (fun pre a => pre = a) p_not_line_ending.
Proof.
  intros i. unfold p_not_line_ending.
  pose proof (span_spec (fun c => negb (N.eqb c 13 || N.eqb c 10)) i) as E.
  destruct (span (fun c => negb (N.eqb c 13 || N.eqb c 10)) i) as [a r]. cbn [fst snd] in E.
  assert (exists pre, i = pre ++ r /\ length pre = length a /\ pre = a) as G by (exists a; auto).
  destruct r as [|x r']; [exact G|].
  destruct (N.eqb x 13) eqn:E13.
  - apply N.eqb_eq in E13. subst x. destruct r' as [|y r'']; [exact I|].
    destruct (N.eqb y 10) eqn:E10.
    + apply N.eqb_eq in E10. subst y. exact G.
    + destruct y as [|y]; [exact I|].
      destruct y as [y|y|]; try exact I; destruct y as [y|y|]; try exact I;
      destruct y as [y|y|]; try exact I; destruct y as [y|y|]; try exact I.
      cbn in E10. discriminate.
  - destruct x as [|x]; [exact G|].
    destruct x as [x|x|]; try exact G; destruct x as [x|x|]; try exact G;
    destruct x as [x|x|]; try exact G; destruct x as [x|x|]; try exact G.
    cbn in E13. discriminate.
Qed.

Lemma u32_loop_spec : forall i acc cnt,
  match u32_loop acc cnt i with
  | POk rest n _ => exists pre, i = pre ++ rest /\ cnt + length pre = n
  | PErr _ | PFail _ => True
  | PPanic _ | PFuel => False
  end.
Proof.
  induction i as [|c r IH]; intros acc cnt; cbn [u32_loop].
  - destruct cnt; auto. exists []. cbn. split; [reflexivity|lia].
  - destruct (is_digit c).
    + destruct (N.leb (acc * 10 + (c - 48)) u32_max); auto.
      specialize (IH (acc * 10 + (c - 48))%N (S cnt)).
      destruct (u32_loop (acc * 10 + (c - 48)) (S cnt) r); auto.
      destruct IH as [pre [E L]]. exists (c :: pre). subst. cbn. split; [reflexivity|lia].
    + destruct cnt; auto. exists []. cbn. split; [reflexivity|lia].
Qed.

Lemma pspec_u32 : pgood p_u32.
Proof.
  intros i. unfold p_u32. pose proof (u32_loop_spec i 0%N 0) as S.
  destruct (u32_loop 0 0 i); auto. destruct S as [pre [E L]]. exists pre. auto.
Qed.

(* ---------- combinators ---------- *)

Lemma pspec_map : forall {A B} (f : A -> B) (Q : list N -> A -> Prop) (Q' : list N -> B -> Prop) p,
  pspec Q p -> (forall pre a, Q pre a -> Q' pre (f a)) -> pspec Q' (p_map f p).
Proof.
  intros A B f Q Q' p S H. unfold p_map. eapply pspec_bind; [exact S|].
  intros p1 a q. apply pspec_ret. rewrite app_nil_r. auto.
Qed.

Lemma pspec_map_res : forall {A B} (f : A -> res B) (Q : list N -> A -> Prop) (Q' : list N -> B -> Prop) p,
  pspec Q p ->
  (forall pre a, Q pre a -> match f a with
                            | Ok b => Q' pre b | Err _ => True | Panic _ | OutOfFuel => False end) ->
  pspec Q' (p_map_res p f).
Proof.
  intros A B f Q Q' p S H. unfold p_map_res. eapply pspec_bind; [exact S|].
  intros p1 a q r. specialize (H p1 a q). cbn beta. destruct (f a); auto.
  exists []. rewrite app_nil_r. auto.
Qed.

Lemma pspec_opt : forall {A} (Q : list N -> A -> Prop) p,
  pspec Q p -> pspec (fun pre o => match o with Some a => Q pre a | None => pre = [] end) (p_opt p).
Proof.
  intros A Q p S i. specialize (S i). unfold p_opt. destruct (p i); auto.
  exists []. auto.
Qed.

Lemma pspec_cut : forall {A} (Q : list N -> A -> Prop) p, pspec Q p -> pspec Q (p_cut p).
Proof. intros A Q p S i. specialize (S i). unfold p_cut. destruct (p i); auto. Qed.

Lemma pspec_alt : forall {A} (Q : list N -> A -> Prop) p q, pspec Q p -> pspec Q q -> pspec Q (p_alt p q).
Proof.
  intros A Q p q S1 S2 i. specialize (S1 i). specialize (S2 i). unfold p_alt. destruct (p i); auto.
Qed.

Lemma pspec_pair : forall {A B} (Q1 : list N -> A -> Prop) (Q : list N -> A * B -> Prop) p (q : parser B),
  pspec Q1 p ->
  (forall p1 a, Q1 p1 a -> pspec (fun p2 b => Q (p1 ++ p2) (a, b)) q) ->
  pspec Q (p_pair p q).
Proof.
  intros A B Q1 Q p q S1 S2. unfold p_pair. eapply pspec_bind; [exact S1|].
  intros p1 a q1. eapply pspec_bind; [exact (S2 p1 a q1)|].
  intros p2 b q2. apply pspec_ret. rewrite app_nil_r. exact q2.
Qed.

Lemma pspec_preceded : forall {A B} (Q1 : list N -> A -> Prop) (Q : list N -> B -> Prop) p (q : parser B),
  pspec Q1 p ->
  (forall p1 a, Q1 p1 a -> pspec (fun p2 b => Q (p1 ++ p2) b) q) ->
  pspec Q (p_preceded p q).
Proof.
  intros A B Q1 Q p q S1 S2. unfold p_preceded. eapply pspec_bind; [exact S1|].
  intros p1 a q1. exact (S2 p1 a q1).
Qed.

Lemma pspec_terminated : forall {A B} (Q1 : list N -> A -> Prop) (Q : list N -> A -> Prop) p (q : parser B),
  pspec Q1 p ->
  (forall p1 a, Q1 p1 a -> pspec (fun p2 _ => Q (p1 ++ p2) a) q) ->
  pspec Q (p_terminated p q).
Proof.
  intros A B Q1 Q p q S1 S2. unfold p_terminated. eapply pspec_bind; [exact S1|].
  intros p1 a q1. eapply pspec_bind; [exact (S2 p1 a q1)|].
  intros p2 b q2. apply pspec_ret. rewrite app_nil_r. exact q2.
Qed.

Lemma pspec_delimited : forall {A B C} (QB : list N -> B -> Prop) p (q : parser B) (s : parser C),
  @pgood A p -> pspec QB q -> pgood s ->
  pspec (fun _ b => exists pb, QB pb b) (p_delimited p q s).
Proof.
  intros A B C QB p q s S1 S2 S3. unfold p_delimited. eapply pspec_bind; [exact S1|].
  intros p1 a _. eapply pspec_bind; [exact S2|].
  intros p2 b q2. eapply pspec_bind; [exact S3|].
  intros p3 c _. apply pspec_ret. eauto.
Qed.

Lemma pspec_separated_pair : forall {A B C} (Q1 : list N -> A -> Prop) (Q3 : list N -> C -> Prop)
    p (sep : parser B) (q : parser C),
  pspec Q1 p -> pgood sep -> pspec Q3 q ->
  pspec (fun _ ac => (exists p1, Q1 p1 (fst ac)) /\ (exists p3, Q3 p3 (snd ac))) (p_separated_pair p sep q).
Proof.
  intros A B C Q1 Q3 p sep q S1 S2 S3. unfold p_separated_pair. eapply pspec_bind; [exact S1|].
  intros p1 a q1. eapply pspec_bind; [exact S2|].
  intros p2 b _. eapply pspec_bind; [exact S3|].
  intros p3 c q3. apply pspec_ret. cbn. eauto.
Qed.

Lemma pspec_recognize : forall {A} p, @pgood A p -> pspec (fun pre a => a = pre) (p_recognize p).
Proof.
  intros A p S i. specialize (S i). unfold p_recognize. destruct (p i); auto.
  destruct S as [pre [E [L _]]]. exists pre. repeat split; auto.
  subst. rewrite firstn_app, firstn_all, Nat.sub_diag. cbn. rewrite app_nil_r. reflexivity.
Qed.

(* separated_list0: the fuel S (length input) is always enough *)
Lemma sep_list0_loop_spec : forall {A B} (sep : parser B) (f : parser A),
  pgood sep -> pgood f ->
  forall fuel i cnt acc, length i < fuel ->
  match sep_list0_loop sep f fuel i cnt acc with
  | POk rest n _ => exists pre, i = pre ++ rest /\ length pre + cnt = n
  | PErr _ | PFail _ => True
  | PPanic _ | PFuel => False
  end.
Proof.
  intros A B sep f Ss Sf. induction fuel as [|fuel IH]; intros i cnt acc Hf; [lia|].
  cbn [sep_list0_loop]. pose proof (Ss i) as S1. destruct (sep i) as [i1 n1 b| | | |]; auto.
  - destruct S1 as [p1 [E1 [L1 _]]].
    destruct (n1 =? 0) eqn:Z; auto. apply Nat.eqb_neq in Z.
    pose proof (Sf i1) as S2. destruct (f i1) as [i2 n2 o| | | |]; auto.
    + destruct S2 as [p2 [E2 [L2 _]]].
      assert (length i2 < fuel) as Hf2.
      { subst i i1. rewrite !app_length in Hf. lia. }
      specialize (IH i2 (n1 + n2 + cnt) (o :: acc) Hf2).
      destruct (sep_list0_loop sep f fuel i2 (n1 + n2 + cnt) (o :: acc)); auto.
      destruct IH as [p3 [E3 L3]]. exists (p1 ++ p2 ++ p3). subst.
      rewrite <- !app_assoc. split; [reflexivity|]. rewrite !app_length. lia.
    + exists []. split; [reflexivity|]. cbn. lia.
  - exists []. split; [reflexivity|]. cbn. lia.
Qed.

Lemma pspec_separated_list0 : forall {A B} (sep : parser B) (f : parser A),
  pgood sep -> pgood f -> pgood (p_separated_list0 sep f).
Proof.
  intros A B sep f Ss Sf i. unfold p_separated_list0.
  pose proof (Sf i) as S1. destruct (f i) as [i1 n o| | | |]; auto.
  - destruct S1 as [p1 [E1 [L1 _]]].
    pose proof (sep_list0_loop_spec sep f Ss Sf (S (length i1)) i1 n [o] (Nat.lt_succ_diag_r _)) as S2.
    destruct (sep_list0_loop sep f (S (length i1)) i1 n [o]); auto.
    destruct S2 as [p2 [E2 L2]]. exists (p1 ++ p2). subst.
    rewrite <- app_assoc. split; [reflexivity|]. rewrite app_length. split; [lia|exact I].
  - exists []. auto.
Qed.

(* many1: non-empty result, every element satisfies P, the consumed text satisfies E when
   every element's text does and E is closed under adding text in front *)
Lemma many1_loop_spec : forall {A} (E : list N -> Prop) (P : A -> Prop) (f : parser A),
  (forall a b, E b -> E (a ++ b)) ->
  pspec (fun pre a => E pre /\ P a) f ->
  forall fuel i cnt acc, length i < fuel -> Forall P acc -> acc <> [] ->
  match many1_loop f fuel i cnt acc with
  | POk rest n l => exists pre, i = pre ++ rest /\ length pre + cnt = n /\ (pre = [] \/ E pre)
                                /\ Forall P l /\ l <> []
  | PErr _ | PFail _ => True
  | PPanic _ | PFuel => False
  end.
Proof.
  intros A E P f HE Sf. induction fuel as [|fuel IH]; intros i cnt acc Hf Hacc Hne; [lia|].
  cbn [many1_loop]. pose proof (Sf i) as S1. destruct (f i) as [i1 n1 o| | | |]; auto.
  - destruct S1 as [p1 [E1 [L1 [e1 q1]]]].
    destruct (n1 =? 0) eqn:Z; auto. apply Nat.eqb_neq in Z.
    assert (length i1 < fuel) as Hf1. { subst i. rewrite app_length in Hf. lia. }
    specialize (IH i1 (n1 + cnt) (o :: acc) Hf1 (Forall_cons _ q1 Hacc) ltac:(discriminate)).
    destruct (many1_loop f fuel i1 (n1 + cnt) (o :: acc)); auto.
    destruct IH as [p2 [E2 [L2 [e2 [F2 N2]]]]]. exists (p1 ++ p2). subst.
    rewrite <- app_assoc. split; [reflexivity|]. rewrite app_length. split; [lia|].
    split; [|auto]. right. destruct e2 as [->|e2]; [rewrite app_nil_r; exact e1|apply HE; exact e2].
  - exists []. split; [reflexivity|]. split; [cbn; lia|]. split; [left; reflexivity|].
    split; [apply Forall_rev; exact Hacc|].
    intros C. apply (f_equal (@rev A)) in C. rewrite rev_involutive in C. cbn in C. contradiction.
Qed.

Lemma pspec_many1 : forall {A} (E : list N -> Prop) (P : A -> Prop) (f : parser A),
  (forall a b, E b -> E (a ++ b)) ->
  pspec (fun pre a => E pre /\ P a) f ->
  pspec (fun pre l => E pre /\ Forall P l /\ l <> []) (p_many1 f).
Proof.
  intros A E P f HE Sf i. unfold p_many1.
  pose proof (Sf i) as S1. destruct (f i) as [i1 n o| | | |]; auto.
  destruct S1 as [p1 [E1 [L1 [e1 q1]]]].
  pose proof (many1_loop_spec E P f HE Sf (S (length i1)) i1 n [o] (Nat.lt_succ_diag_r _)
                (Forall_cons _ q1 (Forall_nil _)) ltac:(discriminate)) as S2.
  destruct (many1_loop f (S (length i1)) i1 n [o]); auto.
  destruct S2 as [p2 [E2 [L2 [e2 [F2 N2]]]]]. exists (p1 ++ p2). subst.
  rewrite <- app_assoc. split; [reflexivity|]. rewrite app_length. split; [lia|].
  split; [|auto]. destruct e2 as [->|e2]; [rewrite app_nil_r; exact e1|apply HE; exact e2].
Qed.

(* ---------- number::complete::float ---------- *)

Lemma strip_prefix_nocase_some : forall t i r, strip_prefix_nocase t i = Some r ->
  exists pre, i = pre ++ r /\ length pre = length t.
Proof.
  induction t as [|x t IH]; intros i r H; cbn in *; [inversion H; exists []; auto|].
  destruct i as [|y i]; [discriminate|]. destruct (N.eqb x (ascii_lower y)); [|discriminate].
  destruct (IH i r H) as [pre [E L]]. exists (y :: pre). subst. cbn. auto.
Qed.

Lemma pspec_tag_no_case : forall t, pspec (fun pre a => a = pre) (p_tag_no_case t).
Proof.
  intros t i. unfold p_tag_no_case. destruct (strip_prefix_nocase t i) eqn:E; auto.
  apply strip_prefix_nocase_some in E. destruct E as [pre [E L]]. exists pre. repeat split; auto.
  subst. rewrite <- L. rewrite firstn_app, firstn_all, Nat.sub_diag. cbn. rewrite app_nil_r. reflexivity.
Qed.

Lemma pgood_char : forall c, pgood (p_char c).
Proof. intros c. eapply pspec_good. apply pspec_char. Qed.

Lemma pgood_sign : pgood p_sign.
Proof.
  unfold p_sign. eapply pspec_good. apply pspec_opt. apply pspec_alt; apply pgood_char.
Qed.

Lemma pgood_digit1 : pgood p_digit1.
Proof. eapply pspec_good. apply pspec_take_while1. Qed.

Lemma pgood_pair : forall {A B} (p : parser A) (q : parser B), pgood p -> pgood q -> pgood (p_pair p q).
Proof.
  intros A B p q S1 S2. unfold pgood. eapply (pspec_pair (fun _ _ => True)); [exact S1|].
  intros p1 a _. exact S2.
Qed.

Lemma pgood_opt : forall {A} (p : parser A), pgood p -> pgood (p_opt p).
Proof. intros A p S. eapply pspec_good. apply pspec_opt. exact S. Qed.

Lemma pgood_map : forall {A B} (f : A -> B) p, pgood p -> pgood (p_map f p).
Proof. intros A B f p S. unfold pgood. eapply pspec_map; [exact S|]. auto. Qed.

Lemma pgood_preceded : forall {A B} (p : parser A) (q : parser B), pgood p -> pgood q -> pgood (p_preceded p q).
Proof.
  intros A B p q S1 S2. unfold pgood. eapply (pspec_preceded (fun _ _ => True)); [exact S1|].
  intros p1 a _. exact S2.
Qed.

Lemma pgood_terminated : forall {A B} (p : parser A) (q : parser B), pgood p -> pgood q -> pgood (p_terminated p q).
Proof.
  intros A B p q S1 S2. unfold pgood. eapply (pspec_terminated (fun _ _ => True)); [exact S1|].
  intros p1 a _. exact S2.
Qed.

Lemma pgood_float_mantissa : pgood p_float_mantissa.
Proof.
  unfold p_float_mantissa. apply pspec_alt.
  - apply pgood_map. apply pgood_pair; [exact pgood_digit1|]. apply pgood_opt.
    apply pgood_pair; [apply pgood_char|]. apply pgood_opt. exact pgood_digit1.
  - apply pgood_map. apply pgood_pair; [apply pgood_char|exact pgood_digit1].
Qed.

Lemma pgood_float_exponent : pgood p_float_exponent.
Proof.
  unfold p_float_exponent. apply pgood_map. apply pgood_opt.
  apply pgood_pair; [apply pspec_alt; apply pgood_char|].
  apply pgood_pair; [exact pgood_sign|]. apply pspec_cut. exact pgood_digit1.
Qed.

Lemma pspec_recognize_float : pspec (fun pre a => a = pre) p_recognize_float.
Proof.
  unfold p_recognize_float. apply pspec_recognize.
  apply pgood_pair; [exact pgood_sign|]. apply pgood_pair; [exact pgood_float_mantissa|exact pgood_float_exponent].
Qed.

Lemma pspec_recognize_float_or_exceptions : pspec (fun pre a => a = pre) p_recognize_float_or_exceptions.
Proof.
  intros i. unfold p_recognize_float_or_exceptions.
  pose proof (pspec_recognize_float i) as S0. destruct (p_recognize_float i); auto.
  pose proof (pspec_tag_no_case [110; 97; 110]%N i) as S1.
  destruct (p_tag_no_case [110; 97; 110]%N i); auto.
  pose proof (pspec_tag_no_case [105; 110; 102]%N i) as S2.
  destruct (p_tag_no_case [105; 110; 102]%N i); auto.
  pose proof (pspec_tag_no_case [105; 110; 102; 105; 110; 105; 116; 121]%N i) as S3.
  destruct (p_tag_no_case [105; 110; 102; 105; 110; 105; 116; 121]%N i); auto.
Qed.

Lemma pgood_float : forall {F} (parse_f32 : list N -> option F), pgood (p_float parse_f32).
Proof.
  intros F parse_f32. unfold p_float. eapply pspec_bind; [exact pspec_recognize_float_or_exceptions|].
  intros p1 a _ r. cbn beta. destruct (parse_f32 a); auto. exists []. auto.
Qed.
