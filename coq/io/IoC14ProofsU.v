(* Assembly of the C14 round-trip theorem for UniPROBE. *)
From Coq Require Import List NArith ZArith Bool Arith Lia.
From LMBase Require Import Res ListX IEEE.
From LMIo Require Import IoBase IoNom IoJaspar IoUniprobe IoPrint IoPrintU IoBaseProofs IoUtf8Proofs
  IoMatrixProofs IoRoundtripU IoLineProofsU IoC14Proofs.
Import ListNotations.

Lemma uniprobe_roundtrip_lemma : forall A parse_f32 prefix rs suffix s,
  wf_alphabet A -> wf_blank_prefix prefix = true -> wf_suffix suffix = true ->
  forallb (wf_uniprobe A parse_f32) rs = true ->
  wf_stream s -> stream_bytes s = print_file print_uniprobe prefix rs suffix ->
  uniprobe_read A parse_f32 s
  = map (fun p => Ok (Some (record_of A F32.zero (fvalue parse_f32) (snd p)))) rs ++ [Ok None].
Proof.
  intros A parse_f32 prefix rs suffix s HA Hpre Hsuf Hwf Hs Eb.
  apply (uniprobe_roundtrip_full A HA parse_f32
           (u_matrix_column_print A parse_f32) (u_id_print A) (name_not_column A parse_f32)
           (empty_not_column A parse_f32) prefix rs suffix s).
  - exact Hpre.
  - exact Hsuf.
  - apply forallb_Forall. exact Hwf.
  - exact Hs.
  - unfold stream_bytes, print_file in Eb. rewrite Eb. f_equal. f_equal.
    unfold enc_recs. apply utf8_encode_concat_map.
Qed.
