(* "Printer then parser" for one count line of the general layout (IoPrintG.v): every count has its own
   blanks in front of it.  Same structure as IoLineProofs.v (one separator per record). *)
From Coq Require Import List NArith Bool Arith Lia.
From LMIo Require Import IoBase IoNom IoJaspar IoPrint IoPrintG IoBaseProofs IoTokProofs IoLineProofs.
Import ListNotations.

Lemma wf_sep_tok_inv : forall bt, wf_sep_tok bt = true -> blank1 (fst bt) = true /\ wf_count (snd bt) = true.
Proof. intros bt H. unfold wf_sep_tok in H. apply andb_true_iff in H. exact H. Qed.

(* what follows a count: the blanks of the next one, the trailing blanks or the stop character; never a digit *)
Lemma rest_head_g : forall bts bl e Y,
  forallb wf_sep_tok bts = true -> all_blank bl = true -> is_digit e = false ->
  exists x r, gseps bts ++ bl ++ e :: Y = x :: r /\ is_digit x = false.
Proof.
  intros bts bl e Y Hs Hb He.
  destruct bts as [|[b t] bts].
  - unfold gseps. cbn [map concat app]. destruct bl as [|c bl'].
    + cbn [app]. eexists; eexists; split; [reflexivity|exact He].
    + cbn [app]. eexists; eexists; split; [reflexivity|].
      apply blank_not_digit. unfold all_blank in Hb. cbn [forallb] in Hb.
      apply andb_true_iff in Hb. tauto.
  - cbn [forallb] in Hs. apply andb_true_iff in Hs. destruct Hs as [Hbt _].
    destruct (wf_sep_tok_inv _ Hbt) as [Hb1 _]. cbn [fst] in Hb1.
    destruct (blank1_inv b Hb1) as [c [s' [E [Hc _]]]]. subst b.
    unfold gseps. cbn [map concat app fst snd]. eexists; eexists; split; [reflexivity|].
    apply blank_not_digit. exact Hc.
Qed.

(* separated_list0(space1, u32) after the first count *)
Lemma sep_loop_tokens_g : forall bts fuel bl e Y cnt acc,
  forallb wf_sep_tok bts = true -> all_blank bl = true ->
  is_blank e = false -> is_digit e = false ->
  length (gseps bts ++ bl ++ e :: Y) < fuel ->
  exists n, sep_list0_loop p_space1 p_u32 fuel (gseps bts ++ bl ++ e :: Y) cnt acc
            = POk (bl ++ e :: Y) n (rev acc ++ map (fun bt => dec_value (snd bt)) bts).
Proof.
  induction bts as [|[sep t] bts IH]; intros fuel bl e Y cnt acc Hw Hb Heb Hed Hf.
  - destruct fuel as [|fuel]; [inversion Hf|].
    unfold gseps. cbn [map concat app]. cbn [sep_list0_loop].
    rewrite app_nil_r.
    destruct bl as [|b bl'].
    + cbn [app]. destruct (space1_fail e Y Heb) as [k Hk]. rewrite Hk.
      eexists; reflexivity.
    + assert (H1 : blank1 (b :: bl') = true).
      { unfold blank1. rewrite Hb. reflexivity. }
      rewrite (space1_blanks (b :: bl') e Y H1 Heb).
      cbn [length Nat.eqb].
      destruct (u32_not_digit e Y Hed) as [k Hk]. rewrite Hk.
      eexists; reflexivity.
  - destruct fuel as [|fuel]; [inversion Hf|].
    cbn [forallb] in Hw. apply andb_true_iff in Hw. destruct Hw as [Hbt Hw].
    destruct (wf_sep_tok_inv _ Hbt) as [Hs Ht]. cbn [fst snd] in Hs, Ht.
    destruct (wf_count_head t Ht) as [c [tr [Et Hc]]].
    destruct (blank1_inv sep Hs) as [s0 [s' [Es [_ Hsa]]]].
    destruct (rest_head_g bts bl e Y Hw Hb Hed) as [x [r [ER Hx]]].
    assert (Ein : gseps ((sep, t) :: bts) ++ bl ++ e :: Y = sep ++ c :: (tr ++ x :: r)).
    { unfold gseps. cbn [map concat fst snd]. fold (gseps bts).
      rewrite <- !app_assoc. rewrite ER. rewrite Et. reflexivity. }
    rewrite Ein in Hf |- *.
    cbn [sep_list0_loop].
    rewrite (space1_blanks sep c (tr ++ x :: r) Hs (digit_not_blank c Hc)).
    assert (Hl : (length sep =? 0) = false).
    { rewrite Es. reflexivity. }
    rewrite Hl.
    change (c :: tr ++ x :: r) with ((c :: tr) ++ x :: r). rewrite <- Et.
    rewrite (u32_token t x r Ht Hx).
    rewrite <- ER.
    assert (Hf' : length (gseps bts ++ bl ++ e :: Y) < fuel).
    { rewrite ER. cbn [length]. rewrite app_length in Hf. rewrite Es in Hf. cbn [length] in Hf.
      rewrite app_length in Hf. cbn [length] in Hf. lia. }
    destruct (IH fuel bl e Y (length sep + length t + cnt) (dec_value t :: acc)
                 Hw Hb Heb Hed Hf') as [n Hn].
    rewrite Hn. exists n. cbn [rev map snd]. rewrite <- app_assoc. reflexivity.
Qed.

Lemma wf_gtoks_inv : forall toks, wf_gtoks toks = true ->
  exists b0 t0 rest, toks = (b0, t0) :: rest /\ all_blank b0 = true /\ wf_count t0 = true /\
                     forallb wf_sep_tok rest = true.
Proof.
  intros [|[b0 t0] rest] H; [discriminate H|]. cbn [wf_gtoks] in H.
  apply andb_true_iff in H. destruct H as [H H3]. apply andb_true_iff in H. destruct H as [H1 H2].
  exists b0, t0, rest. repeat split; assumption.
Qed.

(* the counts of a line, after its leading blanks *)
Lemma sep_list_tokens_g : forall t0 rest bl e Y,
  wf_count t0 = true -> forallb wf_sep_tok rest = true -> all_blank bl = true ->
  is_blank e = false -> is_digit e = false ->
  exists n, p_separated_list0 p_space1 p_u32 (t0 ++ gseps rest ++ bl ++ e :: Y)
            = POk (bl ++ e :: Y) n (dec_value t0 :: map (fun bt => dec_value (snd bt)) rest).
Proof.
  intros t0 rest bl e Y Ht Hw Hb Heb Hed.
  destruct (rest_head_g rest bl e Y Hw Hb Hed) as [x [r [ER Hx]]].
  unfold p_separated_list0. rewrite ER.
  rewrite (u32_token t0 x r Ht Hx). rewrite <- ER.
  destruct (sep_loop_tokens_g rest (S (length (gseps rest ++ bl ++ e :: Y))) bl e Y
              (length t0) [dec_value t0] Hw Hb Heb Hed (Nat.lt_succ_diag_r _)) as [n Hn].
  rewrite Hn. exists n. reflexivity.
Qed.

Lemma map_snd_values : forall (toks : list (list N * list N)),
  map dec_value (map snd toks) = map (fun bt => dec_value (snd bt)) toks.
Proof. intros toks. rewrite map_map. reflexivity. Qed.

(* ---------- JASPAR (raw) count line ---------- *)

Lemma j_counts_print_g : forall toks bl e Y,
  wf_gtoks toks = true -> all_blank bl = true -> is_blank e = false -> is_digit e = false ->
  exists n, j_counts (gseps toks ++ bl ++ e :: Y) = POk (bl ++ e :: Y) n (map dec_value (map snd toks)).
Proof.
  intros toks bl e Y Hw Hb Heb Hed.
  destruct (wf_gtoks_inv toks Hw) as [b0 [t0 [rest [-> [Hb0 [Ht0 Hrest]]]]]].
  destruct (sep_list_tokens_g t0 rest bl e Y Ht0 Hrest Hb Heb Hed) as [n2 H2].
  destruct (wf_count_head t0 Ht0) as [c [tr [Et Hc]]].
  unfold j_counts. unfold gseps. cbn [map concat fst snd]. fold (gseps rest).
  rewrite <- !app_assoc. rewrite Et in H2 |- *. cbn [app] in H2 |- *.
  destruct (opt_space1_ok b0 c (tr ++ gseps rest ++ bl ++ e :: Y) Hb0 (digit_not_blank c Hc)) as [n1 [o H1]].
  rewrite map_snd_values. cbn [map snd].
  exact (preceded_ok (p_opt p_space1) (p_separated_list0 p_space1 p_u32) _ _ _ _ _ _ _ H1 H2).
Qed.

Lemma j_matrix_column_print_g : forall r l X,
  wf_gtoks (g_toks l) = true ->
  exists n, j_matrix_column (jaspar_line_g r l ++ X) = POk X n (map dec_value (map snd (g_toks l))).
Proof.
  intros r l X Hw.
  destruct (eol_head (style_of_g r) X) as [e [Y [Ee [Heb Hed]]]].
  destruct (line_ending_eol (style_of_g r) X) as [n2 [le H2]].
  destruct (j_counts_print_g (g_toks l) [] e Y Hw eq_refl Heb Hed) as [n1 H1].
  cbn [app] in H1.
  unfold jaspar_line_g. rewrite <- !app_assoc. rewrite Ee.
  rewrite Ee in H2.
  unfold j_matrix_column.
  exact (terminated_ok j_counts p_line_ending _ _ _ _ _ _ _ H1 H2).
Qed.

(* ---------- JASPAR 2016 count line ---------- *)

Lemma j16_counts_print_g : forall toks tail post x r,
  wf_gtoks toks = true -> all_blank tail = true -> all_blank post = true -> is_blank x = false ->
  exists n, j16_counts (91%N :: gseps toks ++ tail ++ 93%N :: post ++ x :: r)
            = POk (x :: r) n (map dec_value (map snd toks)).
Proof.
  intros toks tail post x r Hw Ht Hp Hx.
  destruct (wf_gtoks_inv toks Hw) as [b0 [t0 [rest [-> [Hb0 [Ht0 Hrest]]]]]].
  destruct (wf_count_head t0 Ht0) as [c [tr [Et Hc]]].
  destruct (sep_list_tokens_g t0 rest tail 93%N (post ++ x :: r) Ht0 Hrest Ht eq_refl eq_refl)
    as [n2 H2].
  destruct (delim_tag_ok [] 91%N b0 c (tr ++ gseps rest ++ tail ++ 93%N :: post ++ x :: r)
              eq_refl eq_refl Hb0 (digit_not_blank c Hc)) as [n1 H1].
  destruct (delim_tag_ok tail 93%N post x r Ht eq_refl Hp Hx) as [n3 H3].
  cbn [app] in H1.
  unfold gseps. cbn [map concat fst snd]. fold (gseps rest).
  rewrite <- !app_assoc. rewrite Et in H2 |- *. cbn [app] in H2 |- *.
  rewrite map_snd_values. cbn [map snd].
  unfold j16_counts.
  exact (delimited_ok _ _ _ _ _ _ _ _ _ _ _ _ _ H1 H2 H3).
Qed.

Lemma j16_matrix_column_print_g : forall A r l k X,
  wf_gline16 l = true -> aindex A (g_sym l) = Some k ->
  exists n, j16_matrix_column A (jaspar16_line_g r l ++ X) = POk X n (k, map dec_value (map snd (g_toks l))).
Proof.
  intros A r l k X Hl Hk. unfold wf_gline16 in Hl.
  apply andb_true_iff in Hl. destruct Hl as [Hl Hw]. apply andb_true_iff in Hl. destruct Hl as [Hl Hpost].
  apply andb_true_iff in Hl. destruct Hl as [Hgap Htail].
  destruct (eol_head (style_of_g r) X) as [e [Y [Ee [Heb _]]]].
  destruct (line_ending_eol (style_of_g r) X) as [n4 [le H4]].
  destruct (j16_counts_print_g (g_toks l) (g_tail l) (g_post l) e Y Hw Htail Hpost Heb) as [n3 H3].
  pose proof (space1_blanks (g_gap l) 91%N
                (gseps (g_toks l) ++ g_tail l ++ 93%N :: g_post l ++ e :: Y)
                Hgap eq_refl) as H2.
  pose proof (symbol_ok A (g_sym l) k
                (g_gap l ++ 91%N :: gseps (g_toks l) ++ g_tail l ++ 93%N :: g_post l ++ e :: Y) Hk) as H1.
  destruct (separated_pair_ok (p_symbol A) p_space1 j16_counts _ _ _ _ _ _ _ _ _ _ H1 H2 H3)
    as [n123 H123].
  rewrite Ee in H4.
  unfold jaspar16_line_g. rewrite <- !app_assoc. cbn [app]. rewrite Ee.
  unfold j16_matrix_column.
  exact (terminated_ok _ p_line_ending _ _ _ _ _ _ _ H123 H4).
Qed.
