(* Totality of the reader over streams WITH I/O faults (TransfacFault.v, round 3), for an
   arbitrary total record parser:
   - [fixed] = true (the repair proposed for F-T1, `last = buffer.len()`): for every script of
     faults and every number of further requests, no panic and no hang;
   - [fixed] = false (reader.rs as it is): the same for the consumer that STOPS at the first
     error or at the end of input (post = 0) -- an I/O error of the underlying BufRead is
     returned as an error; only polling again after a fault in the middle of a line is
     unsafe (C15.reader_polls_fault_refuted).
   Measure of the loops: line feeds left + fault events left + 1 if anything is left. *)
From Coq Require Import List Bool Arith Lia.
From Coq Require Import Init.Byte.
From LMBase Require Import Res.
From LMTransfac Require Import Bytes Stream Nom TransfacParse TransfacReader Checkers TransfacPoll TransfacFault.
From LMTransfac Require Import StreamProofs ParseProofs ReaderProofs PollProofs FaultProofs.
Import ListNotations.

(* ---- the measure ---- *)

Fixpoint ecount (s : estream) : nat :=
  match s with
  | [] => 0
  | EData c :: r => count_nl c + ecount r
  | _ :: r => S (ecount r)
  end.

Definition eflag (s : estream) : nat := match s with [] => 0 | _ => 1 end.
Definition emeas (s : estream) : nat := ecount s + eflag s.

Lemma estream_fuel_fold s : forall a,
  fold_left (fun n e => match e with
                        | EData c => fold_left (fun n b => if is_nl b then S n else n) c n
                        | _ => S n
                        end) s a = a + ecount s.
Proof.
  induction s as [|e rest IH]; intros a; cbn [fold_left ecount]; [lia|].
  destruct e; rewrite IH; [rewrite fold_count|..]; lia.
Qed.

Lemma estream_fuel_ge s : emeas s + 2 <= estream_fuel s.
Proof.
  unfold estream_fuel. rewrite estream_fuel_fold. unfold emeas, eflag. destruct s; lia.
Qed.

Lemma split_nl_some_count c : forall p r, split_nl c = Some (p, r) -> count_nl c = S (count_nl r).
Proof.
  unfold count_nl. induction c as [|b t IH]; intros p r H; cbn [split_nl] in H; [discriminate|].
  cbn [filter]. destruct (is_nl b) eqn:E.
  - inversion H; subst. reflexivity.
  - destruct (split_nl t) as [[p' r']|]; [|discriminate]. inversion H; subst. apply (IH _ _ eq_refl).
Qed.

Lemma split_nl_none_count c : split_nl c = None -> count_nl c = 0.
Proof.
  unfold count_nl. induction c as [|b t IH]; intros H; cbn [split_nl] in H; [reflexivity|].
  cbn [filter]. destruct (is_nl b); [discriminate|].
  destruct (split_nl t) as [[p' r']|]; [discriminate|]. apply IH. reflexivity.
Qed.

Lemma emeas_tail_le e rest : emeas rest <= emeas (e :: rest).
Proof. unfold emeas, eflag. cbn [ecount]. destruct e, rest; lia. Qed.

(* read_until over a non-empty stream of events strictly decreases the measure *)
Lemma read_until_e_meas : forall s acc, s <> [] -> emeas (snd (read_until_e s acc)) < emeas s.
Proof.
  induction s as [|e rest IH]; intros acc Hne; [congruence|].
  destruct e as [c| | |]; cbn [read_until_e].
  - destruct (split_nl c) as [[p r]|] eqn:E.
    + cbn [snd]. unfold emeas, eflag. cbn [ecount]. rewrite (split_nl_some_count c p r E). lia.
    + destruct rest as [|e' rest'].
      * cbn [read_until_e snd]. unfold emeas, eflag. cbn [ecount]. lia.
      * specialize (IH (acc ++ c)). pose proof (emeas_tail_le (EData c) (e' :: rest')).
        assert (e' :: rest' <> []) as N by discriminate. specialize (IH N). lia.
  - cbn [snd]. unfold emeas, eflag. cbn [ecount]. destruct rest; lia.
  - destruct rest as [|e' rest'].
    + cbn [read_until_e snd]. unfold emeas, eflag. cbn [ecount]. lia.
    + specialize (IH acc). pose proof (emeas_tail_le EIntr (e' :: rest')).
      assert (e' :: rest' <> []) as N by discriminate. specialize (IH N). lia.
  - cbn [snd]. unfold emeas, eflag. cbn [ecount]. destruct rest; lia.
Qed.

(* what one read_line call does: a VALID (possibly empty) string is appended, the measure
   does not grow, and it decreases when something was appended or an error is returned *)
Lemma read_line_e_cases s buf r b s' :
  read_line_e s buf = (r, b, s') ->
  exists line, utf8_valid line = true /\ b = buf ++ line /\
    (r = RleOk (length line) \/ r = RleErr) /\
    emeas s' <= emeas s /\ (line <> [] \/ r = RleErr -> emeas s' < emeas s).
Proof.
  destruct s as [|e rest].
  - cbn. intros H. inversion H; subst. exists []. repeat split; auto.
    intros [N|N]; [congruence|discriminate].
  - unfold read_line_e. intros H.
    assert (M : emeas (snd (read_until_e (e :: rest) [])) < emeas (e :: rest))
      by (apply read_until_e_meas; discriminate).
    destruct (read_until_e (e :: rest) []) as [[f line] t]. cbn [snd] in M.
    destruct (utf8_valid line) eqn:U; inversion H; subst.
    + exists line. split; [exact U|]. split; [reflexivity|].
      split; [destruct f; auto|]. split; [lia|intros _; exact M].
    + exists []. split; [reflexivity|]. split; [rewrite app_nil_r; reflexivity|].
      split; [right; reflexivity|]. split; [lia|intros _; exact M].
Qed.

(* ---- [fixed] = true: any script, any number of requests ---- *)

Definition head_ok (b : str) : Prop := match b with [] => True | x :: _ => is_cont x = false end.

(* `last` is at most the length of the buffer and on a character boundary *)
Definition inv_f (buf : str) (last : nat) : Prop :=
  exists a b, buf = a ++ b /\ length a = last /\ head_ok b.

Lemma head_ok_app b line : head_ok b -> utf8_valid line = true -> head_ok (b ++ line).
Proof. destruct b as [|x t]; intros H U; [exact (valid_line_head line U)|exact H]. Qed.

Lemma inv_f_app buf last line : inv_f buf last -> utf8_valid line = true -> inv_f (buf ++ line) last.
Proof.
  intros (a & b & -> & L & H) U. exists a, (b ++ line). rewrite app_assoc.
  split; [reflexivity|]. split; [exact L|apply head_ok_app; assumption].
Qed.

Lemma inv_f_end buf : inv_f buf (length buf).
Proof. exists buf, []. rewrite app_nil_r. repeat split. Qed.

Lemma inv_f_str_from buf last : inv_f buf last -> exists b, str_from buf last = Ok b.
Proof. intros (a & b & -> & <- & H). exists b. apply str_from_app. exact H. Qed.

Definition est_inv (st : estate) : Prop := inv_f (es_buf st) (es_last st).

Definition cmeas (st : estate) : nat :=
  emeas (es_src st) + (match es_buf st with [] => 0 | _ => 1 end) + 1.

Section FixedTotal.
  Variable parse : parser record.
  Hypothesis parse_total : forall i, pres_total (parse i).

  Lemma next_loop_f_ok : forall fuel buf last s,
    inv_f buf last -> emeas s < fuel ->
    exists buf' last' io s',
      next_loop_e true fuel buf last s = Ok (buf', last', io, s') /\ inv_f buf' last' /\
      emeas s' <= emeas s /\ (buf' = buf \/ emeas s' < emeas s).
  Proof.
    induction fuel as [|f IH]; intros buf last s I L; [lia|]. cbn [next_loop_e].
    destruct (read_line_e s buf) as [[r b] s'] eqn:R.
    destruct (read_line_e_cases s buf r b s' R) as (line & U & -> & Hr & Hle & Hlt).
    destruct Hr as [->| ->].
    - destruct line as [|x line'].
      + cbn [length]. exists (buf ++ []), last, false, s'. split; [reflexivity|].
        rewrite app_nil_r. split; [exact I|]. split; [exact Hle|left; reflexivity].
      + cbn [length]. destruct (inv_f_str_from _ _ (inv_f_app buf last (x :: line') I U)) as [tl Htl].
        rewrite Htl. cbn [rbind]. unfold advance.
        assert (SM : emeas s' < emeas s) by (apply Hlt; left; discriminate).
        destruct (starts_with slashes tl).
        * exists (buf ++ x :: line'), (length (buf ++ x :: line')), false, s'.
          split; [reflexivity|]. split; [apply inv_f_end|]. split; [lia|right; exact SM].
        * destruct (IH (buf ++ x :: line') (length (buf ++ x :: line')) s' (inv_f_end _)) as
            (b2 & l2 & io2 & s2 & H1 & H2 & H3 & _); [lia|].
          exists b2, l2, io2, s2. split; [exact H1|]. split; [exact H2|]. split; [lia|right; lia].
    - exists (buf ++ line), last, true, s'. split; [reflexivity|].
      split; [apply inv_f_app; assumption|]. split; [exact Hle|right; apply Hlt; right; reflexivity].
  Qed.

  Lemma new_loop_f_ok : forall fuel buf last s,
    inv_f buf last -> emeas s < fuel ->
    exists buf' last' e s',
      new_loop_e true fuel buf last s = Ok (buf', last', e, s') /\ inv_f buf' last' /\
      emeas s' <= emeas s.
  Proof.
    induction fuel as [|f IH]; intros buf last s I L; [lia|]. cbn [new_loop_e].
    destruct (read_line_e s buf) as [[r b] s'] eqn:R.
    destruct (read_line_e_cases s buf r b s' R) as (line & U & -> & Hr & Hle & Hlt).
    destruct Hr as [->| ->].
    - destruct line as [|x line'].
      + cbn [length]. exists (buf ++ []), last, None, s'. split; [reflexivity|].
        rewrite app_nil_r. split; [exact I|exact Hle].
      + cbn [length]. pose proof (inv_f_app buf last (x :: line') I U) as I'.
        destruct (inv_f_str_from _ _ I') as [tl Htl].
        rewrite Htl. cbn [rbind]. unfold advance.
        assert (SM : emeas s' < emeas s) by (apply Hlt; left; discriminate).
        destruct (starts_with slashes tl).
        * exists (buf ++ x :: line'), last, None, s'. split; [reflexivity|]. split; [exact I'|lia].
        * destruct (IH (buf ++ x :: line') (length (buf ++ x :: line')) s' (inv_f_end _)) as
            (b2 & l2 & e2 & s2 & H1 & H2 & H3); [lia|].
          exists b2, l2, e2, s2. split; [exact H1|]. split; [exact H2|lia].
    - exists (buf ++ line), last, (Some EIo), s'. split; [reflexivity|].
      split; [apply inv_f_app; assumption|exact Hle].
  Qed.

  Lemma reader_new_f_ok fuel s :
    emeas s < fuel ->
    exists st, reader_new_e true fuel s = Ok st /\ est_inv st /\ emeas (es_src st) <= emeas s.
  Proof.
    intros L. unfold reader_new_e.
    destruct (new_loop_f_ok fuel [] 0 s) as (b & l & e & s' & H1 & H2 & H3);
      [exists [], []; repeat split|exact L|].
    rewrite H1. cbn [rbind].
    destruct (starts_with [x56; x56] b).
    - destruct (parse_version b) as [v r| | | |] eqn:PV.
      + eexists. split; [reflexivity|]. split; [exact (inv_f_end [])|exact H3].
      + eexists. split; [reflexivity|]. split; [exact H2|exact H3].
      + eexists. split; [reflexivity|]. split; [exact H2|exact H3].
      + exfalso. pose proof (ParseProofs.parse_version_total b) as [T _]. congruence.
      + exfalso. pose proof (ParseProofs.parse_version_total b) as [_ T]. congruence.
    - eexists. split; [reflexivity|]. split; [exact H2|exact H3].
  Qed.

  Lemma reader_next_f_ok fuel st :
    est_inv st -> emeas (es_src st) < fuel ->
    exists o st', reader_next_e parse true fuel st = Ok (o, st') /\ est_inv st' /\
                  emeas (es_src st') <= emeas (es_src st) /\
                  (is_rec o = true -> cmeas st' < cmeas st).
  Proof.
    intros I L. unfold reader_next_e.
    destruct st as [buf last err ver src]; cbn [es_buf es_last es_err es_version es_src] in *.
    unfold est_inv in I; cbn [es_buf es_last] in I.
    destruct err as [e|].
    { eexists _, _. split; [reflexivity|]. split; [exact I|]. split; [cbn [es_src]; lia|]. intros H; discriminate. }
    destruct (inv_f_str_from buf last I) as [tl Htl]. rewrite Htl. cbn [rbind].
    assert (P : forall b l s' (guard : b <> [] -> cmeas (mkESt [] 0 None ver s') < cmeas (mkESt buf last None ver src)),
              inv_f b l -> emeas s' <= emeas src ->
              exists o st',
                (match b with
                 | [] => Ok (OEnd, mkESt b l None ver s')
                 | _ => match parse b with
                        | POk r _ => Ok (ORec r, mkESt [] 0 None ver s')
                        | bad => e <- error_from bad ;; Ok (OErr e, mkESt b l None ver s')
                        end
                 end) = Ok (o, st') /\ est_inv st' /\
                emeas (es_src st') <= emeas src /\
                (is_rec o = true -> cmeas st' < cmeas (mkESt buf last None ver src))).
    { intros b l s' guard Ib Ls. destruct b as [|x b].
      - eexists _, _. split; [reflexivity|]. split; [exact Ib|]. split; [exact Ls|]. intros H; discriminate.
      - destruct (parse (x :: b)) as [r rest| | | |] eqn:PB.
        + eexists _, _. split; [reflexivity|]. split; [exact (inv_f_end [])|]. split; [exact Ls|].
          intros _. apply guard. discriminate.
        + eexists _, _. split; [reflexivity|]. split; [exact Ib|]. split; [exact Ls|]. intros H; discriminate.
        + eexists _, _. split; [reflexivity|]. split; [exact Ib|]. split; [exact Ls|]. intros H; discriminate.
        + exfalso. destruct (parse_total (x :: b)) as [T _]. congruence.
        + exfalso. destruct (parse_total (x :: b)) as [_ T]. congruence. }
    destruct (starts_with slashes tl).
    - cbn [rbind]. apply P; [|exact I|lia].
      intros Hb. unfold cmeas; cbn [es_src es_buf]. destruct buf; [congruence|]. lia.
    - destruct (next_loop_f_ok fuel buf last src I L) as (b' & l' & io & s' & H1 & H2 & H3 & H4).
      rewrite H1. cbn [rbind].
      destruct io.
      + eexists _, _. split; [reflexivity|]. split; [exact H2|]. split; [exact H3|]. intros H; discriminate.
      + apply P; [|exact H2|exact H3].
        intros Hb. unfold cmeas; cbn [es_src es_buf].
        destruct H4 as [->|H4]; [destruct buf; [congruence|]; lia|destruct buf; lia].
  Qed.

  Lemma poll_f_ok fuel : forall k st,
    est_inv st -> emeas (es_src st) < fuel ->
    exists l, poll_e parse true fuel k st = Ok l /\ length l = k.
  Proof.
    induction k as [|k IH]; intros st I L; cbn [poll_e].
    - exists []. split; reflexivity.
    - destruct (reader_next_f_ok fuel st I L) as (o & st' & H1 & H2 & H3 & _).
      rewrite H1. cbn [rbind snd fst].
      destruct (IH st' H2) as (l & Hl & Len); [lia|].
      rewrite Hl. cbn [rbind]. exists (o :: l). split; [reflexivity|]. simpl. rewrite Len. reflexivity.
  Qed.

  Lemma consume_post_f_ok fuel post : forall cfuel st,
    est_inv st -> emeas (es_src st) < fuel -> cmeas st <= cfuel ->
    exists l, consume_post_e parse true fuel cfuel post st = Ok l /\ shape_post post l.
  Proof.
    induction cfuel as [|f IH]; intros st I L M; [unfold cmeas in M; lia|].
    cbn [consume_post_e].
    destruct (reader_next_f_ok fuel st I L) as (o & st' & H1 & H2 & H3 & H4).
    rewrite H1. cbn [rbind].
    destruct o as [r|e|].
    - destruct (IH st' H2) as (l & Hl & (rs & o & tl & -> & Ho & Ht)); [lia|specialize (H4 eq_refl); lia|].
      rewrite Hl. cbn [rbind]. eexists. split; [reflexivity|].
      exists (r :: rs), o, tl. split; [reflexivity|]. split; assumption.
    - destruct (poll_f_ok fuel post st' H2) as (tl & Hp & Len); [lia|].
      rewrite Hp. cbn [rbind]. eexists. split; [reflexivity|].
      exists [], (OErr e), tl. split; [reflexivity|]. split; [reflexivity|exact Len].
    - destruct (poll_f_ok fuel post st' H2) as (tl & Hp & Len); [lia|].
      rewrite Hp. cbn [rbind]. eexists. split; [reflexivity|].
      exists [], OEnd, tl. split; [reflexivity|]. split; [reflexivity|exact Len].
  Qed.

  Theorem run_reader_post_repaired_total post s :
    exists l, run_reader_post_e parse true post s = Ok l /\ shape_post post l.
  Proof.
    unfold run_reader_post_e. pose proof (estream_fuel_ge s) as F.
    destruct (reader_new_f_ok (estream_fuel s) s) as (st & H1 & H2 & H3); [lia|].
    rewrite H1. cbn [rbind].
    apply consume_post_f_ok; [exact H2|lia|].
    unfold cmeas. destruct (es_buf st); lia.
  Qed.
End FixedTotal.

(* ---- [fixed] = false: the code as it is, for the consumer that stops at the first error ---- *)

(* before the first error: a stored error, or the invariant of ReaderProofs *)
Definition upred (st : estate) : Prop := es_err st <> None \/ inv (es_buf st) (es_last st).

Section AsIsTotal.
  Variable parse : parser record.
  Hypothesis parse_total : forall i, pres_total (parse i).

  Lemma next_loop_u_ok : forall fuel buf s,
    emeas s < fuel ->
    exists buf' last' io s',
      next_loop_e false fuel buf (length buf) s = Ok (buf', last', io, s') /\
      emeas s' <= emeas s /\ (buf' = buf \/ emeas s' < emeas s).
  Proof.
    induction fuel as [|f IH]; intros buf s L; [lia|]. cbn [next_loop_e].
    destruct (read_line_e s buf) as [[r b] s'] eqn:R.
    destruct (read_line_e_cases s buf r b s' R) as (line & U & -> & Hr & Hle & Hlt).
    destruct Hr as [->| ->].
    - destruct line as [|x line'].
      + cbn [length]. exists (buf ++ []), (length buf), false, s'. split; [reflexivity|].
        rewrite app_nil_r. split; [exact Hle|left; reflexivity].
      + cbn [length]. rewrite (str_from_app buf (x :: line') (valid_line_head _ U)). cbn [rbind].
        assert (SM : emeas s' < emeas s) by (apply Hlt; left; discriminate).
        assert (A : advance false (buf ++ x :: line') (length buf) (S (length line')) = length (buf ++ x :: line')).
        { unfold advance. rewrite app_length. reflexivity. }
        rewrite A.
        destruct (starts_with slashes (x :: line')).
        * eexists _, _, _, _. split; [reflexivity|]. split; [lia|right; exact SM].
        * destruct (IH (buf ++ x :: line') s') as (b2 & l2 & io2 & s2 & H1 & H3 & _); [lia|].
          exists b2, l2, io2, s2. split; [exact H1|]. split; [lia|right; lia].
    - eexists _, _, _, _. split; [reflexivity|]. split; [exact Hle|right; apply Hlt; right; reflexivity].
  Qed.

  Lemma new_loop_u_ok : forall fuel buf s,
    emeas s < fuel ->
    exists buf' last' e s',
      new_loop_e false fuel buf (length buf) s = Ok (buf', last', e, s') /\
      (e = None -> inv buf' last') /\ emeas s' <= emeas s.
  Proof.
    induction fuel as [|f IH]; intros buf s L; [lia|]. cbn [new_loop_e].
    destruct (read_line_e s buf) as [[r b] s'] eqn:R.
    destruct (read_line_e_cases s buf r b s' R) as (line & U & -> & Hr & Hle & Hlt).
    destruct Hr as [->| ->].
    - destruct line as [|x line'].
      + cbn [length]. exists (buf ++ []), (length buf), None, s'. split; [reflexivity|].
        rewrite app_nil_r. split; [intros _; left; reflexivity|exact Hle].
      + cbn [length]. rewrite (str_from_app buf (x :: line') (valid_line_head _ U)). cbn [rbind].
        assert (SM : emeas s' < emeas s) by (apply Hlt; left; discriminate).
        assert (A : advance false (buf ++ x :: line') (length buf) (S (length line')) = length (buf ++ x :: line')).
        { unfold advance. rewrite app_length. reflexivity. }
        rewrite A.
        destruct (starts_with slashes (x :: line')) eqn:SW.
        * eexists _, _, _, _. split; [reflexivity|].
          split; [intros _; right; exists buf, (x :: line'); auto|lia].
        * destruct (IH (buf ++ x :: line') s') as (b2 & l2 & e2 & s2 & H1 & H2 & H3); [lia|].
          exists b2, l2, e2, s2. split; [exact H1|]. split; [exact H2|lia].
    - eexists _, _, _, _. split; [reflexivity|]. split; [intros N; discriminate|exact Hle].
  Qed.

  Lemma reader_new_u_ok fuel s :
    emeas s < fuel ->
    exists st, reader_new_e false fuel s = Ok st /\ upred st /\ emeas (es_src st) <= emeas s.
  Proof.
    intros L. unfold reader_new_e.
    destruct (new_loop_u_ok fuel [] s L) as (b & l & e & s' & H1 & H2 & H3).
    cbn [length] in H1. rewrite H1. cbn [rbind].
    assert (Q : forall st, es_err st = e -> es_buf st = b -> es_last st = l -> upred st).
    { intros st E1 E2 E3. unfold upred. rewrite E1, E2, E3. destruct e; [left; discriminate|right; auto]. }
    destruct (starts_with [x56; x56] b).
    - destruct (parse_version b) as [v r| | | |] eqn:PV.
      + eexists. split; [reflexivity|]. split; [|exact H3].
        unfold upred; cbn [es_err es_buf es_last]. destruct e; [left; discriminate|right; left; reflexivity].
      + eexists. split; [reflexivity|]. split; [left; discriminate|exact H3].
      + eexists. split; [reflexivity|]. split; [left; discriminate|exact H3].
      + exfalso. pose proof (ParseProofs.parse_version_total b) as [T _]. congruence.
      + exfalso. pose proof (ParseProofs.parse_version_total b) as [_ T]. congruence.
    - eexists. split; [reflexivity|]. split; [apply Q; reflexivity|exact H3].
  Qed.

  Lemma reader_next_u_ok fuel st :
    upred st -> emeas (es_src st) < fuel ->
    exists o st', reader_next_e parse false fuel st = Ok (o, st') /\
                  emeas (es_src st') <= emeas (es_src st) /\
                  (is_rec o = true -> upred st' /\ cmeas st' < cmeas st).
  Proof.
    intros I L. unfold reader_next_e.
    destruct st as [buf last err ver src]; cbn [es_buf es_last es_err es_version es_src] in *.
    destruct err as [e|].
    { eexists _, _. split; [reflexivity|]. split; [cbn [es_src]; lia|]. intros H; discriminate. }
    destruct I as [I|I]; [cbn in I; congruence|]. cbn [es_buf es_last] in I.
    destruct (inv_str_from buf last I) as [tl Htl]. rewrite Htl. cbn [rbind].
    assert (P : forall b l s' (guard : b <> [] -> cmeas (mkESt [] 0 None ver s') < cmeas (mkESt buf last None ver src)),
              emeas s' <= emeas src ->
              exists o st',
                (match b with
                 | [] => Ok (OEnd, mkESt b l None ver s')
                 | _ => match parse b with
                        | POk r _ => Ok (ORec r, mkESt [] 0 None ver s')
                        | bad => e <- error_from bad ;; Ok (OErr e, mkESt b l None ver s')
                        end
                 end) = Ok (o, st') /\
                emeas (es_src st') <= emeas src /\
                (is_rec o = true -> upred st' /\ cmeas st' < cmeas (mkESt buf last None ver src))).
    { intros b l s' guard Ls. destruct b as [|x b].
      - eexists _, _. split; [reflexivity|]. split; [exact Ls|]. intros H; discriminate.
      - destruct (parse (x :: b)) as [r rest| | | |] eqn:PB.
        + eexists _, _. split; [reflexivity|]. split; [exact Ls|].
          intros _. split; [right; left; reflexivity|apply guard; discriminate].
        + eexists _, _. split; [reflexivity|]. split; [exact Ls|]. intros H; discriminate.
        + eexists _, _. split; [reflexivity|]. split; [exact Ls|]. intros H; discriminate.
        + exfalso. destruct (parse_total (x :: b)) as [T _]. congruence.
        + exfalso. destruct (parse_total (x :: b)) as [_ T]. congruence. }
    destruct (starts_with slashes tl) eqn:SW.
    - cbn [rbind]. apply P; [|lia].
      intros Hb. unfold cmeas; cbn [es_src es_buf]. destruct buf; [congruence|]. lia.
    - assert (last = length buf) as ->.
      { destruct I as [->|(a & b & -> & <- & H)]; [reflexivity|].
        rewrite (str_from_app a b (starts_with_slashes_head _ H)) in Htl. inversion Htl; subst. congruence. }
      destruct (next_loop_u_ok fuel buf src L) as (b' & l' & io & s' & H1 & H3 & H4).
      rewrite H1. cbn [rbind].
      destruct io.
      + eexists _, _. split; [reflexivity|]. split; [exact H3|]. intros H; discriminate.
      + apply P; [|exact H3].
        intros Hb. unfold cmeas; cbn [es_src es_buf].
        destruct H4 as [->|H4]; [destruct buf; [congruence|]; lia|destruct buf; lia].
  Qed.

  Lemma consume_u_ok fuel : forall cfuel st,
    upred st -> emeas (es_src st) < fuel -> cmeas st <= cfuel ->
    exists l, consume_post_e parse false fuel cfuel 0 st = Ok l /\ shape l.
  Proof.
    induction cfuel as [|f IH]; intros st I L M; [unfold cmeas in M; lia|].
    cbn [consume_post_e].
    destruct (reader_next_u_ok fuel st I L) as (o & st' & H1 & H3 & H4).
    rewrite H1. cbn [rbind].
    destruct o as [r|e|].
    - destruct (H4 eq_refl) as [U C].
      destruct (IH st' U) as (l & Hl & (rs & o & -> & Ho)); [lia|lia|].
      rewrite Hl. cbn [rbind]. eexists. split; [reflexivity|].
      exists (r :: rs), o. split; [reflexivity|exact Ho].
    - cbn [poll_e rbind]. eexists. split; [reflexivity|]. exists [], (OErr e). split; reflexivity.
    - cbn [poll_e rbind]. eexists. split; [reflexivity|]. exists [], OEnd. split; reflexivity.
  Qed.

  Theorem run_reader_faults_stop_total s :
    exists l, run_reader_post_e parse false 0 s = Ok l /\ shape l.
  Proof.
    unfold run_reader_post_e. pose proof (estream_fuel_ge s) as F.
    destruct (reader_new_u_ok (estream_fuel s) s) as (st & H1 & H2 & H3); [lia|].
    rewrite H1. cbn [rbind].
    apply consume_u_ok; [exact H2|lia|].
    unfold cmeas. destruct (es_buf st); lia.
  Qed.
End AsIsTotal.
