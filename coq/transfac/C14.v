From Coq Require Import List.
Theorem placeholder_c14 : True. Proof. exact I. Qed.
