(* C14 (TRANSFAC part) -- well-formed files load completely and exactly under any chunking.

   Only theorem statements here; proofs are in StreamProofs / ReaderProofs / RoundTrip /
   CheckProofs. *)
From Coq Require Import List Bool Arith NArith.
From Coq Require Import Init.Byte.
From LMBase Require Import Res.
From LMTransfac Require Import Bytes Stream Nom TransfacParse TransfacReader TransfacPrint Checkers.
From LMTransfac Require Import StreamProofs NomProofs ParseProofs ParseRoundTrip CellProofs ReaderProofs CheckProofs
  ReaderRoundTrip.
From Coq Require Import ZArith.
From LMBase Require Import IEEE.
From LMTransfac Require Import TransfacFreq FreqProofs TransfacPoll PollProofs.
Import ListNotations.

(* ---- the "schedules" quantifier: all chunkings of the same bytes ---- *)

(* std's read_until(b'\n') over fill_buf/consume: the bytes appended and the bytes left in
   the stream depend on the concatenation of the chunks only. *)
Theorem read_until_chunk_independent : forall (s1 s2 : stream) (acc : str),
  concat s1 = concat s2 ->
  fst (read_until_nl s1 acc) = fst (read_until_nl s2 acc) /\
  concat (snd (read_until_nl s1 acc)) = concat (snd (read_until_nl s2 acc)).
Proof.
  intros s1 s2 acc H.
  destruct (read_until_nl_spec s1 acc) as [A1 A2], (read_until_nl_spec s2 acc) as [B1 B2].
  rewrite A1, A2, B1, B2, H. split; reflexivity.
Qed.

(* read_line (read_until + UTF-8 validation): same result, same String, same bytes left. *)
Theorem read_line_chunk_independent : forall (s1 s2 : stream) (buf : str),
  concat s1 = concat s2 ->
  fst (read_line s1 buf) = fst (read_line s2 buf) /\
  concat (snd (read_line s1 buf)) = concat (snd (read_line s2 buf)).
Proof. exact read_line_chunk_independent_lemma. Qed.

(* and in terms of the flat byte string: the first line, validated *)
Theorem read_line_is_first_line : forall (s : stream) (buf : str),
  fst (fst (read_line s buf)) = fst (fst (read_line_flat (concat s) buf)) /\
  snd (fst (read_line s buf)) = snd (fst (read_line_flat (concat s) buf)) /\
  concat (snd (read_line s buf)) = snd (read_line_flat (concat s) buf).
Proof. exact read_line_spec. Qed.

(* The whole run of the reader -- Reader::new, then next() until the first error or the end
   of input -- returns the same outcome list for every chunking of the same bytes, whatever
   the record parser (induction on the loops; every state is compared up to the bytes of
   its stream). *)
Theorem reader_chunk_independent : forall (parse : parser record) (s1 s2 : stream),
  concat s1 = concat s2 -> run_reader parse s1 = run_reader parse s2.
Proof. exact run_reader_same. Qed.

Corollary reader_any_chunking : forall (al : alpha) (bytes : str) (s : stream),
  concat s = bytes ->
  run_reader (parse_record_fixed al) s = run_reader (parse_record_fixed al) [bytes].
Proof. intros al bytes s H. apply run_reader_same. simpl. rewrite app_nil_r. exact H. Qed.

(* Empty chunks (review C14-7).  A [stream] is a PARTITION of the bytes into the pieces the
   BufRead delivers; an empty piece is not a delivery (Stream.read_until_nl goes on to the next
   chunk: `fill_buf` returns the unconsumed part of the first non-empty chunk, Stream.v header).
   So the theorems above, which quantify over all lists of chunks, say nothing more and nothing
   less for streams with empty chunks than for those without: *)
Definition nonempty_chunk (c : str) : bool := match c with [] => false | _ => true end.

Theorem empty_chunks_are_not_deliveries : forall (parse : parser record) (post : nat) (s : stream),
  Forall (fun c => c <> []) (filter nonempty_chunk s) /\
  concat (filter nonempty_chunk s) = concat s /\
  run_reader parse (filter nonempty_chunk s) = run_reader parse s /\
  run_reader_post parse post (filter nonempty_chunk s) = run_reader_post parse post s.
Proof.
  intros parse post s.
  assert (C : concat (filter nonempty_chunk s) = concat s).
  { induction s as [|c s IH]; [reflexivity|]. destruct c; simpl; [exact IH|]. rewrite IH. reflexivity. }
  split; [|split; [exact C|split]].
  - apply Forall_forall. intros c Hc. apply filter_In in Hc. destruct Hc as [_ Hc]. destruct c; [discriminate|congruence].
  - apply run_reader_same, C.
  - apply run_reader_post_same, C.
Qed.
(* What std does when `fill_buf` really returns an empty slice -- read_until returns what it has,
   read_line returns Ok(n) with a line without line feed or Ok(0) -- is the END of the input in this
   model (the last chunk has been delivered); a BufRead that reports the end of input and later
   delivers more bytes (a growing file) is not a chunking of a byte string and is outside C14 / C15
   (props/transfac_specs.py assumptions). *)

(* ---- round trip ---- *)

(* The record parser on the text of one printed record: exactly the expected record, the
   whole text consumed ([term] = the line ending after "//", or nothing at the end of the
   file). *)
Theorem parser_roundtrip : forall (al : alpha) (crlf : bool) (p : prec) (term : str),
  prec_ok al p = true -> term = eol_of crlf \/ term = [] ->
  parse_record_fixed al (print_record (eol_of crlf) term p) = POk (expected_record al p) [].
Proof. exact parse_record_fixed_printed. Qed.

(* For all record lists meeting the boolean well-formedness condition wf_file (any number of
   records, any widths; optional VV header; LF or CRLF; final newline or not) and ALL
   chunkings of the printed bytes: the reader returns exactly those records, in order, then
   signals the end of input. *)
Theorem reader_roundtrip :
  forall (al : alpha) (vv : option str) (crlf fnl : bool) (rs : list prec) (s : stream),
  wf_file al vv rs = true ->
  concat s = print_file vv crlf fnl rs ->
  run_reader (parse_record_fixed al) s = Ok (map (fun r => ORec (expected_record al r)) rs ++ [OEnd]).
Proof. exact reader_roundtrip_lemma. Qed.

(* What "expected" means.  A record is written as a list of lines (items) in ANY order:
   AC / ID / NA / DE lines, BA / BS / BF / CO lines, runs of CC lines and DT lines (none of
   them shown by Record), XX lines, matrix blocks and reference blocks (RN line with optional cross reference, then RX / RA /
   RT / RL lines).  Every field of the expected record is the value of the LAST line of its
   kind, the matrix that of the last matrix block, the references those of the reference
   blocks in file order (number, cross reference, last RX / RT / RL of the block) ... *)
Theorem expected_record_closed : forall (al : alpha) (p : prec),
  expected_record al p =
  mkRec (last_field FID p) (last_field FAC p) (last_field FNA p) (last_field FDE p) (last_matrix al p)
        (refs_of p).
Proof. exact expected_record_closed_lemma. Qed.

(* ... and in that matrix the count written in row i under the j-th symbol of the header is
   the cell of row i in the column of that symbol (sym_index = as_index), every row has K
   columns and every column not named in the header holds zero. *)
Theorem matrix_cells :
  forall (al : alpha) (po : bool) (syms : list (str * byte)) (rows : list prow) (idx : list nat),
  item_ok al (IMatrix po syms rows) = true -> sym_indices al (sym_letters syms) = Some idx ->
  exists m, item_matrix al (IMatrix po syms rows) = Some m /\ length m = length rows /\
  forall i, i < length rows ->
    let row := nth i m [] in
    let toks := row_toks (nth i rows (mkRow [] [] [])) in
    length row = alpha_k al /\
    (forall j, j < length syms ->
       sym_index al (nth j (sym_letters syms) x00) = Some (nth j idx 0) /\
       nth (nth j idx 0) row CZero = CTok (nth j toks [])) /\
    (forall k, ~ In k idx -> nth k row CZero = CZero).
Proof. exact matrix_item_cells. Qed.

(* ---- the extracted checker used by the driver ---- *)

Theorem check_c14_sound : forall (expected : list record) (o : list obs),
  check_c14 expected o = true ->
  o = map (fun r => BRec (observe_record r)) expected ++ [BEnd].
Proof. exact CheckProofs.check_c14_sound. Qed.

(* The property theorem in executable form: on every chunking of every well-formed printed
   file the model's observation passes the checker against the written records. *)
Theorem model_passes_c14 :
  forall (al : alpha) (vv : option str) (crlf fnl : bool) (rs : list prec) (s : stream),
  wf_file al vv rs = true -> concat s = print_file vv crlf fnl rs ->
  check_c14 (map (expected_record al) rs) (observe_run (run_reader (parse_record_fixed al) s)) = true.
Proof.
  intros al vv crlf fnl rs s Hw Hs. rewrite (reader_roundtrip_lemma al vv crlf fnl rs s Hw Hs).
  cbn [observe_run]. unfold expected. rewrite map_app, !map_map. cbn [map observe].
  rewrite <- (map_map (expected_record al) (fun r => BRec (observe_record r))).
  apply check_c14_complete.
Qed.

(* ---- round 3: "... then signals the end of input" -- and keeps signalling it: a consumer that
   goes on calling `next` after the end of a well-formed file gets the end of input every time ---- *)
Theorem reader_roundtrip_post :
  forall (al : alpha) (vv : option str) (crlf fnl : bool) (rs : list prec) (s : stream) (post : nat),
  wf_file al vv rs = true ->
  concat s = print_file vv crlf fnl rs ->
  run_reader_post (parse_record_fixed al) post s
    = Ok (map (fun r => ORec (expected_record al r)) rs ++ OEnd :: repeat OEnd post).
Proof.
  intros al vv crlf fnl rs s post W E.
  destruct (run_reader_post_total (parse_record_fixed al) (ParseProofs.parse_record_fixed_total al) post s) as (l & H & _).
  destruct (run_reader_post_prefix _ _ _ _ H) as (l0 & tail & H0 & ->).
  rewrite (reader_roundtrip_lemma al vv crlf fnl rs s W E) in H0. injection H0 as <-.
  rewrite H. f_equal. rewrite <- app_assoc. cbn [app]. do 2 f_equal.
  apply (run_reader_post_end_final (parse_record_fixed al) (ParseProofs.parse_record_fixed_total al) post s _
           (map (expected_record al) rs) tail H).
  rewrite <- app_assoc, map_map. reflexivity.
Qed.

(* the extracted checker of such a consumer's observations (post = 0: check_c14) is sound, and the
   model passes it on every well-formed file *)
Theorem check_c14p_sound : forall (expected : list record) (post : nat) (o : list obs),
  check_c14p expected post o = true ->
  o = map (fun r => BRec (observe_record r)) expected ++ BEnd :: repeat BEnd post.
Proof. exact PollProofs.check_c14p_sound. Qed.

(* wave 3: the chunking clause and the record count of a bundled file, as extracted checkers
   (the driver's PROPFAIL `chunking-dependent` / `bundled-file records`): exactly what they say *)
Theorem check_same_chunkings_sound : forall seqs : list (list obs),
  check_same_chunkings seqs = true <-> exists h t, seqs = h :: t /\ Forall (eq h) t.
Proof. exact check_same_chunkings_spec. Qed.

Theorem check_count_sound : forall (n post : nat) (o : list obs),
  check_count n post o = true <->
  exists rs, length rs = n /\ o = map BRec rs ++ BEnd :: repeat BEnd post.
Proof. intros n post o. apply check_count_spec. Qed.

(* ... and they demand no more than the theorems give: the model's observations under any two
   chunkings pass the first (reader_chunk_independent), a round-trip file passes the second *)
Theorem model_passes_same_chunkings : forall (al : alpha) (post : nat) (s : stream) (ss : list stream),
  Forall (fun s' => concat s' = concat s) ss ->
  check_same_chunkings (map (fun s' => observe_run (run_reader_post (parse_record_fixed al) post s')) (s :: ss)) = true.
Proof.
  intros al post s ss F. apply check_same_chunkings_spec. eexists _, _. split; [reflexivity|].
  apply Forall_map. rewrite Forall_forall in *. intros s' Hs'.
  rewrite (run_reader_post_same (parse_record_fixed al) post s' s (F s' Hs')). reflexivity.
Qed.

Theorem check_c14p_is_check_c14 : forall (expected : list record) (o : list obs),
  check_c14p expected 0 o = check_c14 expected o.
Proof. exact check_c14p_0. Qed.

Theorem model_passes_c14p :
  forall (al : alpha) (vv : option str) (crlf fnl : bool) (rs : list prec) (s : stream) (post : nat),
  wf_file al vv rs = true -> concat s = print_file vv crlf fnl rs ->
  check_c14p (map (expected_record al) rs) post
    (observe_run (run_reader_post (parse_record_fixed al) post s)) = true.
Proof.
  intros al vv crlf fnl rs s post Hw Hs. rewrite (reader_roundtrip_post al vv crlf fnl rs s post Hw Hs).
  cbn [observe_run]. rewrite map_app, !map_map. cbn [map observe].
  rewrite <- (map_map (expected_record al) (fun r => BRec (observe_record r))).
  replace (map observe (repeat OEnd post)) with (repeat BEnd post)
    by (induction post as [|k IH]; cbn [repeat map observe]; [reflexivity|rewrite <- IH; reflexivity]).
  apply check_c14p_complete.
Qed.

(* ---- round 3: Record::to_freq (scalar pseudocount) of a loaded matrix, TransfacFreq.v ---- *)

(* a returned frequency matrix has one row per row of the loaded matrix, each with the K columns
   of the alphabet (rows of the loaded matrix have K cells) ... *)
Theorem to_freq_shape : forall (al : alpha) (c : F32.t) (m m' : list (list F32.t)),
  to_freq al c m = Some m' ->
  Forall2 (fun r r' => length r' = Nat.min (length r) (alpha_k al)) m m'.
Proof. exact to_freq_shape_lemma. Qed.

(* ... and every row passed the check of FrequencyMatrix::new: its binary32 sum (column order)
   is within 0.01 of 1 -- rows with NaN / infinite / all-zero sums give None, never a matrix *)
Theorem to_freq_rows_normalised : forall (al : alpha) (c : F32.t) (m m' : list (list F32.t)),
  to_freq al c m = Some m' -> Forall (fun r => freq_row_ok r = true) m'.
Proof. exact to_freq_rows_ok. Qed.

(* counts 1 2 2 0 (+0 for N): frequencies 0.2 0.4 0.4 0 0; an all-zero row: no matrix *)
Example ex_to_freq :
  to_freq_bits Dna 0%Z [[1065353216; 1073741824; 1073741824; 0; 0]%Z]
    = Some [[1045220557; 1053609165; 1053609165; 0; 0]%Z] /\
  to_freq_bits Dna 0%Z [[0; 0; 0; 0; 0]%Z] = None /\
  to_freq_bits Dna 1056964608%Z [[0; 0; 0; 0; 0]%Z] <> None.
Proof. repeat split; vm_compute; congruence. Qed.

Check reader_roundtrip : forall al vv crlf fnl rs s,
  wf_file al vv rs = true -> concat s = print_file vv crlf fnl rs ->
  run_reader (parse_record_fixed al) s = Ok (map (fun r => ORec (expected_record al r)) rs ++ [OEnd]).
Check reader_chunk_independent : forall parse s1 s2,
  concat s1 = concat s2 -> run_reader parse s1 = run_reader parse s2.

(* non-vacuity: two different chunkings of a file with two lines *)
Example ex_chunkings :
  let a := ["/"; "/"; x0a; "I"]%byte in let b := ["D"; x0a]%byte in
  concat [a; b] = concat [["/"]%byte; ["/"; x0a; "I"; "D"]%byte; [x0a]] /\
  run_reader (parse_record_fixed Dna) [a; b] = Ok [ORec (empty_record); OErr ENom].
Proof. split; vm_compute; reflexivity. Qed.

(* non-vacuity of the round trip: a well-formed file with a VV header and three records: the
   first with its lines in an unusual order, a BF line, a repeated ID line (the last wins) and
   a matrix whose header is spelled PO, names the symbols in the order T A G, has different
   blanks/tabs before every symbol and count and a consensus letter after the first row; the third empty
   ("//" only); CRLF, no final newline *)
Local Open Scope byte_scope.
Definition ex_recs : list prec :=
  [ [ IField FNA [" "] ["n";" ";"1"]; IXX; ISkip KBF [" ";"f";"a";"c";"t";"o";"r"];
      IMatrix true [([" "; x09], "T"); ([" "], "A"); ([" "; " "; " "], "G")]
        [ mkRow ["0";"1"] [([" "; " "], ["1"]); ([" "], ["2";".";"5"]); ([" "; " "; " "], ["0"])] [" ";" ";"W"];
          mkRow ["0";"2"] [([x09], ["7"]); ([" "], ["1";"e";"2"]); ([" "; " "; " "], ["3"])] [] ];
      IField FID [x09; " "] ["o";"l";"d"]; IXX; IXX; IField FID [] ["M";"1"];
      IRef ["1";"2"] (Some ["R";"E";"7"]) [RX ["9";"9"]; RA [" ";"D";"o";"e";" ";"J";"."]; RT ["t";" ";"1"]; RL ["l"]];
      IRef ["2"] None [] ];
    [ IField FDE [" ";" "] ["d"]; ICC [" ";"c";"1"] [[]; [" ";"c";"3"]]; IField FAC [" ";" "] ["a";"c"]; IXX;
      IDT ["1";"9"] ["1";"0"] ["1";"9";"9";"2"] true ["e";"w";"i"]; ICC [] [] ];
    [] ].

Example ex_wf : wf_file Dna (Some ["v";"1"]) ex_recs = true.
Proof. vm_compute. reflexivity. Qed.

Example ex_roundtrip_instance :
  exists r1 r2 r3,
    run_reader (parse_record_fixed Dna) [print_file (Some ["v";"1"]) true false ex_recs]
      = Ok [ORec r1; ORec r2; ORec r3; OEnd] /\
    r_data r1 = Some [[CTok ["2";".";"5"]; CZero; CTok ["1"]; CTok ["0"]; CZero];
                      [CTok ["1";"e";"2"]; CZero; CTok ["7"]; CTok ["3"]; CZero]] /\
    r_id r1 = Some ["M";"1"] /\ r_ac r2 = Some ["a";"c"] /\ r_data r2 = None /\ r3 = empty_record /\
    r_refs r1 = [mkRef 12%N (Some ["R";"E";"7"]) (Some ["t";" ";"1"]) (Some ["l"]) (Some ["9";"9"]);
                 mkRef 2%N None None None None].
Proof. eexists _, _, _. vm_compute. repeat split. Qed.

(* counts: everything nom's float parser accepts entirely is a well-formed count token *)
Example ex_tokens :
  map token_ok [["1";"2"]; ["2";".";"5"]; ["5";"."]; [".";"5"]; ["1";"e";"5"]; ["1";"E";"-";"3"]; ["+";"3"];
                ["-";"0"]; ["n";"a";"n"]; ["I";"N";"F"]]
  = repeat true 10 /\
  map token_ok [[]; ["1";"e"]; ["i";"n";"f";"i";"n";"i";"t";"y"]; ["1";" ";"2"]; ["x"]; [" ";"1"]; ["-";"i";"n";"f"]]
  = repeat false 7.
Proof. split; vm_compute; reflexivity. Qed.
