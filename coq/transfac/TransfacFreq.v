(* Model of `Record::to_freq` (lightmotif-io/src/transfac/mod.rs) with a scalar pseudocount, and of
   the check of `FrequencyMatrix::new` (lightmotif/src/pwm/mod.rs) it ends with (round 3).

     for each row:  dst[j] = x[j] + p[j]           p = Pseudocounts::from(c): c for every symbol
                    s = dst.iter().sum::<f32>()     but the default one (the last: N / X), 0.0 for it
                    dst[j] /= s
     FrequencyMatrix::new(probas).ok():  Some iff every row has |sum - 1.0| < 0.01

   `Iterator::sum::<f32>()` folds with `+` from -0.0 (std since 1.83; before: from 0.0 -- the two
   differ only for a row of negative zeros), in column order.  All arithmetic is binary32 (Flocq).
   No proofs in this file. *)
From Coq Require Import List Bool Arith ZArith.
From LMBase Require Import IEEE.
From LMTransfac Require Import TransfacParse.
Import ListNotations.

Definition f32_one : F32.t := F32.of_bits 1065353216.   (* 1.0f32  = 0x3f800000 *)
Definition f32_tol : F32.t := F32.of_bits 1008981770.   (* 0.01f32 = 0x3c23d70a *)

Definition pseudo_row (al : alpha) (c : F32.t) : list F32.t :=
  repeat c (alpha_k al - 1) ++ [F32.zero].

Fixpoint zip_add (row p : list F32.t) : list F32.t :=
  match row, p with
  | x :: r, y :: q => F32.add x y :: zip_add r q
  | _, _ => []
  end.

Definition row_sum (r : list F32.t) : F32.t := F32.sum_from F32.nzero r.

Definition to_freq_row (p row : list F32.t) : list F32.t :=
  let dst := zip_add row p in
  let s := row_sum dst in
  map (fun x => F32.div x s) dst.

Definition freq_row_ok (r : list F32.t) : bool :=
  F32.lt (F32.abs (F32.sub (row_sum r) f32_one)) f32_tol.

Definition to_freq (al : alpha) (c : F32.t) (m : list (list F32.t)) : option (list (list F32.t)) :=
  let m' := map (to_freq_row (pseudo_row al c)) m in
  if forallb freq_row_ok m' then Some m' else None.

(* on bit patterns (what the harness prints) *)
Definition to_freq_bits (al : alpha) (c : Z) (m : list (list Z)) : option (list (list Z)) :=
  option_map (map (map F32.to_bits)) (to_freq al (F32.of_bits c) (map (map F32.of_bits) m)).
