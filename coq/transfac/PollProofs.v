(* Lemmas on the polling consumers of TransfacPoll.v (round 3):
   - totality: from a state satisfying the reader's invariant ANY number of further calls of
     `next` return (record / error / end of input) -- the invariant is kept by every outcome,
     also by the errors (ReaderProofs.reader_next_ok), so the requests made after an error or
     after the end of input neither panic nor hang;
   - chunk independence of the whole outcome sequence of a polling consumer;
   - post = 0 is the consumer of TransfacReader.v;
   - soundness and completeness of the extracted checker check_c15p. *)
From Coq Require Import List Bool Arith Lia.
From Coq Require Import Init.Byte.
From LMBase Require Import Res.
From LMTransfac Require Import Bytes Stream Nom TransfacParse TransfacReader Checkers TransfacPoll.
From LMTransfac Require Import StreamProofs ParseProofs ReaderProofs CheckProofs.
Import ListNotations.

(* outcome sequences of a polling consumer: records, one outcome that is not a record, then
   `post` more outcomes *)
Definition shape_post (post : nat) (l : list outcome) : Prop :=
  exists rs o tail, l = map ORec rs ++ o :: tail /\ is_rec o = false /\ length tail = post.

Section PollTotal.
  Variable parse : parser record.
  Hypothesis parse_total : forall i, pres_total (parse i).

  Lemma poll_ok fuel : forall k st,
    st_inv st -> nlines (concat (st_src st)) < fuel ->
    exists l, poll parse fuel k st = Ok l /\ length l = k.
  Proof.
    induction k as [|k IH]; intros st I L; cbn [poll].
    - exists []. split; reflexivity.
    - destruct (reader_next_ok parse parse_total fuel st I L) as (o & st' & H1 & H2 & H3 & _).
      rewrite H1. cbn [rbind snd fst].
      destruct (IH st' H2) as (l & Hl & Len); [lia|].
      rewrite Hl. cbn [rbind]. exists (o :: l). split; [reflexivity|]. simpl. rewrite Len. reflexivity.
  Qed.

  Lemma consume_post_ok fuel post : forall cfuel st,
    st_inv st -> nlines (concat (st_src st)) < fuel -> measure st <= cfuel ->
    exists l, consume_post parse fuel cfuel post st = Ok l /\ shape_post post l.
  Proof.
    induction cfuel as [|f IH]; intros st I L M; [unfold measure in M; lia|].
    cbn [consume_post].
    destruct (reader_next_ok parse parse_total fuel st I L) as (o & st' & H1 & H2 & H3 & H4).
    rewrite H1. cbn [rbind].
    destruct o as [r|e|].
    - destruct (IH st' H2) as (l & Hl & (rs & o & tl & -> & Ho & Ht)); [lia|specialize (H4 eq_refl); lia|].
      rewrite Hl. cbn [rbind]. eexists. split; [reflexivity|].
      exists (r :: rs), o, tl. split; [reflexivity|]. split; assumption.
    - destruct (poll_ok fuel post st' H2) as (tl & Hp & Len); [lia|].
      rewrite Hp. cbn [rbind]. eexists. split; [reflexivity|].
      exists [], (OErr e), tl. split; [reflexivity|]. split; [reflexivity|exact Len].
    - destruct (poll_ok fuel post st' H2) as (tl & Hp & Len); [lia|].
      rewrite Hp. cbn [rbind]. eexists. split; [reflexivity|].
      exists [], OEnd, tl. split; [reflexivity|]. split; [reflexivity|exact Len].
  Qed.

  Theorem run_reader_post_total post s :
    exists l, run_reader_post parse post s = Ok l /\ shape_post post l.
  Proof.
    unfold run_reader_post. pose proof (stream_fuel_ge s) as F.
    destruct (reader_new_ok (stream_fuel s) s) as (st & H1 & H2 & H3); [lia|].
    rewrite H1. cbn [rbind].
    apply consume_post_ok; [exact H2|lia|].
    unfold measure. destruct (st_buf st); lia.
  Qed.

  Theorem run_polls_total k s :
    exists l, run_polls parse k s = Ok l /\ length l = k.
  Proof.
    unfold run_polls. pose proof (stream_fuel_ge s) as F.
    destruct (reader_new_ok (stream_fuel s) s) as (st & H1 & H2 & H3); [lia|].
    rewrite H1. cbn [rbind]. apply poll_ok; [exact H2|lia].
  Qed.
End PollTotal.

(* ---- post = 0: the consumer that stops at the first error or at the end of input ---- *)

Lemma consume_post_0 parse fuel : forall cfuel st,
  consume_post parse fuel cfuel 0 st = consume parse fuel cfuel st.
Proof.
  induction cfuel as [|f IH]; intros st; cbn [consume_post consume]; [reflexivity|].
  destruct (reader_next parse fuel st) as [[o st']| | |]; cbn [rbind]; try reflexivity.
  destruct o; cbn [poll rbind]; try reflexivity. rewrite IH. reflexivity.
Qed.

Lemma run_reader_post_0 parse s : run_reader_post parse 0 s = run_reader parse s.
Proof.
  unfold run_reader_post, run_reader.
  destruct (reader_new (stream_fuel s) s); cbn [rbind]; try reflexivity. apply consume_post_0.
Qed.

(* ---- chunk independence ---- *)

Section PollChunks.
  Variable parse : parser record.

  Lemma poll_same fuel : forall k a b,
    st_same a b -> poll parse fuel k a = poll parse fuel k b.
  Proof.
    induction k as [|k IH]; intros a b H; cbn [poll]; [reflexivity|].
    pose proof (reader_next_same parse fuel a b H) as L.
    destruct (reader_next parse fuel a) as [[o1 a']| | |],
             (reader_next parse fuel b) as [[o2 b']| | |]; simpl in L; try contradiction;
      cbn [rbind]; try congruence.
    destruct L as [-> L]. cbn [fst snd]. rewrite (IH a' b' L). reflexivity.
  Qed.

  Lemma consume_post_same fuel post : forall cfuel a b,
    st_same a b -> consume_post parse fuel cfuel post a = consume_post parse fuel cfuel post b.
  Proof.
    induction cfuel as [|f IH]; intros a b H; cbn [consume_post]; [reflexivity|].
    pose proof (reader_next_same parse fuel a b H) as L.
    destruct (reader_next parse fuel a) as [[o1 a']| | |],
             (reader_next parse fuel b) as [[o2 b']| | |]; simpl in L; try contradiction;
      cbn [rbind]; try congruence.
    destruct L as [-> L]. destruct o2.
    - rewrite (IH a' b' L). reflexivity.
    - rewrite (poll_same fuel post a' b' L). reflexivity.
    - rewrite (poll_same fuel post a' b' L). reflexivity.
  Qed.

  Lemma run_reader_post_same post s1 s2 :
    concat s1 = concat s2 -> run_reader_post parse post s1 = run_reader_post parse post s2.
  Proof.
    intros H. unfold run_reader_post. rewrite (stream_fuel_concat s1 s2 H).
    pose proof (reader_new_same (stream_fuel s2) s1 s2 H) as L.
    destruct (reader_new (stream_fuel s2) s1), (reader_new (stream_fuel s2) s2);
      simpl in L; try contradiction; cbn [rbind]; try congruence.
    apply consume_post_same. exact L.
  Qed.
End PollChunks.

(* ---- the checker ---- *)

(* what C15 demands of the observations of a polling consumer *)
Definition holds_c15p (post : nat) (o : list obs) : Prop :=
  exists rs x tail, o = map BRec rs ++ x :: tail /\ (x = BEnd \/ exists e, x = BErr e) /\
                    length tail = post /\ Forall (fun y => is_ret y = true) tail.

Lemma check_c15p_sound post o : check_c15p post o = true -> holds_c15p post o.
Proof.
  induction o as [|x t IH]; cbn [check_c15p]; [discriminate|].
  destruct x as [r|e| | |]; intros H; try discriminate.
  - destruct (IH H) as (rs & y & tl & E & Hy & Hl & Hf).
    exists (r :: rs), y, tl. simpl. rewrite E. auto.
  - apply andb_true_iff in H. destruct H as [H1 H2]. apply Nat.eqb_eq in H2.
    exists [], (BErr e), t. split; [reflexivity|]. split; [right; eauto|]. split; [exact H2|].
    apply Forall_forall. intros y Hy. exact (proj1 (forallb_forall _ _) H1 y Hy).
  - apply andb_true_iff in H. destruct H as [H1 H2]. apply Nat.eqb_eq in H2.
    exists [], BEnd, t. split; [reflexivity|]. split; [left; reflexivity|]. split; [exact H2|].
    apply Forall_forall. intros y Hy. exact (proj1 (forallb_forall _ _) H1 y Hy).
Qed.

Lemma check_c15p_complete post o : holds_c15p post o -> check_c15p post o = true.
Proof.
  intros (rs & x & tl & -> & Hx & Hl & Hf). induction rs as [|r rs IH]; simpl.
  - assert (T : forallb is_ret tl && Nat.eqb (length tl) post = true).
    { apply andb_true_iff. split; [|apply Nat.eqb_eq; exact Hl].
      apply forallb_forall. intros y Hy. exact (proj1 (Forall_forall _ _) Hf y Hy). }
    destruct Hx as [->|[e ->]]; exact T.
  - exact IH.
Qed.

Lemma holds_c15p_no_panic post o : holds_c15p post o -> ~ In BPanic o /\ ~ In BHang o.
Proof.
  intros (rs & x & tl & -> & Hx & Hl & Hf).
  assert (G : forall bad, is_ret bad = false -> ~ In bad (map BRec rs ++ x :: tl)).
  { intros bad Hb H. apply in_app_or in H. destruct H as [H|[H|H]].
    - apply in_map_iff in H. destruct H as (y & <- & _). discriminate.
    - subst bad. destruct Hx as [->|[e ->]]; discriminate.
    - pose proof (proj1 (Forall_forall _ _) Hf bad H) as T. simpl in T. congruence. }
  split; apply G; reflexivity.
Qed.

(* with post = 0 it is the checker of the consumer that stops *)
Lemma check_c15p_0 o : check_c15p 0 o = check_c15 o.
Proof.
  induction o as [|x t IH]; [reflexivity|].
  destruct x as [r|e| | |]; cbn [check_c15p].
  - rewrite IH. destruct t; reflexivity.
  - destruct t; [reflexivity|]. cbn [length Nat.eqb]. rewrite andb_false_r. reflexivity.
  - destruct t; [reflexivity|]. cbn [length Nat.eqb]. rewrite andb_false_r. reflexivity.
  - reflexivity.
  - reflexivity.
Qed.

Lemma is_ret_observe o : is_ret (observe o) = true.
Proof. destruct o; reflexivity. Qed.

Lemma shape_post_holds_c15p post l : shape_post post l -> holds_c15p post (map observe l).
Proof.
  intros (rs & o & tl & -> & Ho & Hl).
  exists (map observe_record rs), (observe o), (map observe tl).
  rewrite map_app, map_map. simpl. split; [rewrite map_map; reflexivity|].
  split; [destruct o; simpl in *; [discriminate|right; eauto|left; reflexivity]|].
  split; [rewrite map_length; exact Hl|].
  apply Forall_forall. intros y Hy. apply in_map_iff in Hy. destruct Hy as (z & <- & _). apply is_ret_observe.
Qed.

(* ---- the end of input is final: once `next` has returned None (from a state satisfying the
   invariant) every later request returns None again ---- *)

Lemma read_line_exhausted s buf : concat s = [] ->
  fst (read_line s buf) = (RlOk 0, buf) /\ concat (snd (read_line s buf)) = [].
Proof.
  intros E. destruct (read_line_cases s buf) as [(_ & R & S')|(line & rest & E' & Hne & _)].
  - split; assumption.
  - exfalso. rewrite E in E'. destruct line; [congruence|discriminate].
Qed.

Section EndFinal.
  Variable parse : parser record.

  (* a state at the end of input: nothing buffered, nothing left to read, no pending error *)
  Definition at_end (st : rstate) : Prop :=
    st_buf st = [] /\ st_last st = 0 /\ st_err st = None /\ concat (st_src st) = [].

  Lemma next_at_end fuel st : 0 < fuel -> at_end st ->
    exists st', reader_next parse fuel st = Ok (OEnd, st') /\ at_end st'.
  Proof.
    intros F (Hb & Hl & He & Hs). destruct st as [buf last err ver src]; cbn in *. subst.
    unfold reader_next; cbn [st_err st_buf st_last st_src st_version str_from length Nat.ltb Nat.leb skipn rbind starts_with slashes].
    destruct fuel as [|f]; [lia|]. cbn [next_loop].
    destruct (read_line_exhausted src [] Hs) as [R S'].
    destruct (read_line src []) as [[r b] s']. cbn [fst snd] in *. inversion R; subst.
    cbn [rbind]. eexists. split; [reflexivity|]. repeat split; assumption.
  Qed.

  Lemma poll_at_end fuel : 0 < fuel -> forall k st, at_end st ->
    poll parse fuel k st = Ok (repeat OEnd k).
  Proof.
    intros F. induction k as [|k IH]; intros st A; cbn [poll repeat]; [reflexivity|].
    destruct (next_at_end fuel st F A) as (st' & H & A'). rewrite H. cbn [rbind fst snd].
    rewrite (IH st' A'). reflexivity.
  Qed.

  (* `next` returns None only by reaching such a state *)
  Lemma end_reaches_at_end fuel st st' :
    st_inv st -> reader_next parse fuel st = Ok (OEnd, st') -> at_end st'.
  Proof.
    intros I. unfold reader_next. destruct st as [buf last err ver src]; cbn [st_err st_buf st_last st_src st_version].
    unfold st_inv in I; cbn in I.
    destruct err; [intros H; inversion H|].
    destruct (inv_str_from buf last I) as [tl Htl]. rewrite Htl. cbn [rbind].
    destruct (starts_with slashes tl) eqn:SW.
    - cbn [rbind]. destruct buf as [|x b0].
      + (* the empty buffer does not start with "//" *)
        exfalso. destruct I as [->|(a & b & E & <- & H)].
        * cbn in Htl. inversion Htl; subst. discriminate.
        * destruct a; [|discriminate]. destruct b; [discriminate|discriminate].
      + destruct (parse (x :: b0)); cbn [error_from rbind]; intros H; inversion H.
    - assert (last = length buf) as ->.
      { destruct I as [->|(a & b & -> & <- & H)]; [reflexivity|].
        rewrite (str_from_app a b (starts_with_slashes_head _ H)) in Htl. inversion Htl; subst. congruence. }
      clear Htl SW I. revert buf src. induction fuel as [|f IH]; intros buf src; cbn [next_loop rbind]; [discriminate|].
      destruct (read_line_cases src buf) as [(E & R & S')|(line & rest & E & Hne & Hn & S' & [[U R]|[U R]])];
        destruct (read_line src buf) as [[r b] s'] eqn:RL; cbn [fst snd] in *; inversion R; subst.
      + cbn [rbind]. destruct buf as [|x b0].
        * intros H. inversion H; subst. repeat split; assumption.
        * destruct (parse (x :: b0)); cbn [error_from rbind]; intros H; inversion H.
      + destruct (length line) as [|n] eqn:Len; [destruct line; [congruence|discriminate]|].
        rewrite (str_from_app buf line (valid_line_head _ U)). cbn [rbind].
        destruct (starts_with slashes line).
        * cbn [rbind]. destruct (buf ++ line) as [|x b0] eqn:EB; [destruct buf; destruct line; try discriminate; congruence|].
          destruct (parse (x :: b0)); cbn [error_from rbind]; intros H; inversion H.
        * apply IH.
      + cbn [rbind]. intros H. inversion H.
  Qed.

  Theorem end_is_final fuel st st' : 0 < fuel -> st_inv st ->
    reader_next parse fuel st = Ok (OEnd, st') ->
    forall k, poll parse fuel k st' = Ok (repeat OEnd k).
  Proof.
    intros F I H k. apply poll_at_end; [exact F|]. exact (end_reaches_at_end fuel st st' I H).
  Qed.
End EndFinal.

Section EndRun.
  Variable parse : parser record.
  Hypothesis parse_total : forall i, pres_total (parse i).

  Lemma consume_post_end fuel post : 0 < fuel -> forall cfuel st l,
    st_inv st -> nlines (concat (st_src st)) < fuel ->
    consume_post parse fuel cfuel post st = Ok l ->
    forall rs tail, l = map ORec rs ++ OEnd :: tail -> tail = repeat OEnd post.
  Proof.
    intros F. induction cfuel as [|f IH]; intros st l I L; cbn [consume_post]; [discriminate|].
    destruct (reader_next_ok parse parse_total fuel st I L) as (o & st' & H1 & H2 & H3 & _).
    rewrite H1. cbn [rbind].
    destruct o as [r|e|].
    - destruct (consume_post parse fuel f post st') as [l'| | |] eqn:C; cbn [rbind]; try discriminate.
      intros H rs tail E. injection H as <-. destruct rs as [|r' rs']; cbn [map app] in E; [discriminate|].
      inversion E; subst. apply (IH st' _ H2 ltac:(lia) C rs' tail eq_refl).
    - destruct (poll parse fuel post st') as [tl| | |]; cbn [rbind]; try discriminate.
      intros H rs tail E. injection H as <-. destruct rs; cbn [map app] in E; discriminate.
    - destruct (poll parse fuel post st') as [tl| | |] eqn:P; cbn [rbind]; try discriminate.
      intros H rs tail E. injection H as <-. destruct rs; cbn [map app] in E; [|discriminate].
      inversion E; subst. rewrite (end_is_final parse fuel st st' F I H1 post) in P. inversion P. reflexivity.
  Qed.

  Theorem run_reader_post_end_final post s l rs tail :
    run_reader_post parse post s = Ok l -> l = map ORec rs ++ OEnd :: tail -> tail = repeat OEnd post.
  Proof.
    unfold run_reader_post. pose proof (stream_fuel_ge s) as F.
    destruct (reader_new_ok (stream_fuel s) s) as (st & H1 & H2 & H3); [lia|].
    rewrite H1. cbn [rbind]. intros C E.
    apply (consume_post_end (stream_fuel s) post ltac:(lia) (stream_fuel s) st l H2 ltac:(lia) C rs tail E).
  Qed.
End EndRun.

(* ---- the polling consumer starts with the outcomes of the consumer that stops ---- *)

Lemma consume_post_prefix parse fuel post : forall cfuel st l,
  consume_post parse fuel cfuel post st = Ok l ->
  exists l0 tail, consume parse fuel cfuel st = Ok l0 /\ l = l0 ++ tail.
Proof.
  induction cfuel as [|f IH]; intros st l; cbn [consume_post consume]; [discriminate|].
  destruct (reader_next parse fuel st) as [[o st']| | |]; cbn [rbind]; try discriminate.
  destruct o as [r|e|].
  - destruct (consume_post parse fuel f post st') as [l'| | |] eqn:C; cbn [rbind]; try discriminate.
    intros H. injection H as <-. destruct (IH st' l' C) as (l0 & tail & H0 & ->).
    rewrite H0. cbn [rbind]. exists (ORec r :: l0), tail. split; reflexivity.
  - destruct (poll parse fuel post st') as [tl| | |]; cbn [rbind]; try discriminate.
    intros H. injection H as <-. exists [OErr e], tl. split; reflexivity.
  - destruct (poll parse fuel post st') as [tl| | |]; cbn [rbind]; try discriminate.
    intros H. injection H as <-. exists [OEnd], tl. split; reflexivity.
Qed.

Lemma run_reader_post_prefix parse post s l :
  run_reader_post parse post s = Ok l ->
  exists l0 tail, run_reader parse s = Ok l0 /\ l = l0 ++ tail.
Proof.
  unfold run_reader_post, run_reader.
  destruct (reader_new (stream_fuel s) s); cbn [rbind]; try discriminate.
  apply consume_post_prefix.
Qed.

(* ---- the C14 checker of a polling consumer ---- *)

Lemma check_c14p_sound expected post o :
  check_c14p expected post o = true ->
  o = map (fun r => BRec (observe_record r)) expected ++ BEnd :: repeat BEnd post.
Proof. unfold check_c14p. apply (list_eqb_eq obs_eqb obs_eqb_eq). Qed.

Lemma check_c14p_complete expected post :
  check_c14p expected post (map (fun r => BRec (observe_record r)) expected ++ BEnd :: repeat BEnd post) = true.
Proof. unfold check_c14p. apply (list_eqb_eq obs_eqb obs_eqb_eq). reflexivity. Qed.

Lemma check_c14p_0 expected o : check_c14p expected 0 o = check_c14 expected o.
Proof. reflexivity. Qed.

(* ---- wave 3: check_same_chunkings / check_count ---- *)

Lemma check_same_chunkings_spec seqs :
  check_same_chunkings seqs = true <-> exists h t, seqs = h :: t /\ Forall (eq h) t.
Proof.
  destruct seqs as [|h t]; cbn [check_same_chunkings].
  - split; [discriminate|intros (h & t & H & _); discriminate].
  - rewrite forallb_forall. split.
    + intros H. exists h, t. split; [reflexivity|]. apply Forall_forall. intros x Hx.
      apply (list_eqb_eq obs_eqb obs_eqb_eq). apply H, Hx.
    + intros (h' & t' & E & F). inversion E; subst. intros x Hx.
      apply (list_eqb_eq obs_eqb obs_eqb_eq). rewrite Forall_forall in F. apply F, Hx.
Qed.

Lemma check_count_spec post : forall n o,
  check_count n post o = true <->
  exists rs, length rs = n /\ o = map BRec rs ++ BEnd :: repeat BEnd post.
Proof.
  assert (NoRec : forall (x : obs) (t : list obs) rs n,
            length rs = S n -> x :: t = map BRec rs ++ BEnd :: repeat BEnd post -> exists r, x = BRec r).
  { intros x t rs n L E. destruct rs as [|r rs]; [discriminate|]. simpl in E. exists r. congruence. }
  induction n as [|n IH]; intros o; cbn [check_count].
  - destruct o as [|x t].
    + split; [discriminate|]. intros (rs & L & E). destruct rs; discriminate.
    + destruct x as [r|e| | |];
        try (split; [discriminate|]; intros (rs & L & E); destruct rs; [simpl in E; congruence|discriminate]).
      rewrite (list_eqb_eq obs_eqb obs_eqb_eq). split.
      * intros ->. exists []. split; reflexivity.
      * intros (rs & L & E). destruct rs; [|discriminate]. simpl in E. congruence.
  - destruct o as [|x t].
    + split; [discriminate|]. intros (rs & L & E). destruct rs; discriminate.
    + destruct x as [r|e| | |];
        try (split; [discriminate|]; intros (rs & L & E); destruct (NoRec _ _ _ _ L E) as [r0 Hr0]; discriminate).
      rewrite IH. split.
      * intros (rs & L & ->). exists (r :: rs). split; [simpl; congruence|reflexivity].
      * intros (rs & L & E). destruct rs as [|r0 rs]; [discriminate|]. simpl in L, E.
        exists rs. split; congruence.
Qed.
