(* The reader over a stream whose `fill_buf` can FAIL (round 3): std::io::BufRead::read_line
   over a scripted stream of events, and reader.rs (Reader::new / Iterator::next) over it,
   with the state kept after every kind of error exactly as coded.

   std (1.95) `read_until(b'\n', buf)`:  loop { fill_buf: Err(Interrupted) => retry,
   Err(e) => return Err(e) (the bytes appended so far stay appended and consumed);
   append up to and including the first line feed, consume; stop at the line feed or when
   fill_buf returns nothing }.  An EMPTY slice from fill_buf is the end of input for read_until whether or
   not the BufRead delivers more later (event EEof: `Ok(n)` with a line without line feed, or `Ok(0)`).
   `read_line(&mut String)` = append_to_string(read_until): the appended bytes are validated;
   valid => they stay in the String (ALSO WHEN read_until FAILED: a partial line is kept)
   and the result of read_until is returned; invalid => the String is cut back to its old
   length and the error is returned (InvalidData, or the I/O error of read_until).
   In both error cases the bytes stay consumed.

   reader.rs: `new` stores the error and leaves the loop; `next` returns the error at once,
   WITHOUT updating `last` -- after a fault in the middle of a line the buffer holds a partial
   line that `last` does not account for.  With `last += n` (before /repo 23feb61, [fixed] = false)
   the offset stayed wrong for ever (finding F-T1); with `last = buffer.len()` (since, [fixed] = true)
   the next complete line puts it right.
   No proofs in this file (FaultProofs.v). *)
From Coq Require Import List Bool Arith.
From Coq Require Import Init.Byte.
From LMBase Require Import Res.
From LMTransfac Require Import Bytes Stream Nom TransfacParse TransfacReader Checkers.
Import ListNotations.

Inductive ev :=
| EData (c : str)   (* fill_buf makes these bytes available (the unconsumed part, for the head) *)
| EFail             (* fill_buf returns an error (kind Other) once *)
| EIntr             (* fill_buf returns ErrorKind::Interrupted once *)
| EEof.             (* fill_buf returns an EMPTY slice once although more data follows (wave 3, review C14-7):
                       a transient end of input -- read_until returns what it has appended so far *)

Definition estream := list ev.

Definition ebytes (s : estream) : str :=
  concat (map (fun e => match e with EData c => c | _ => [] end) s).

(* read_until(b'\n', acc): failed?, bytes appended, stream afterwards *)
Fixpoint read_until_e (s : estream) (acc : str) : bool * str * estream :=
  match s with
  | [] => (false, acc, [])
  | EData c :: rest =>
      match split_nl c with
      | Some (p, r) => (false, acc ++ p, EData r :: rest)
      | None => read_until_e rest (acc ++ c)
      end
  | EIntr :: rest => read_until_e rest acc
  | EFail :: rest => (true, acc, rest)
  | EEof :: rest => (false, acc, rest)
  end.

(* both kinds of failure are an io::Error for the caller *)
Inductive rle_result := RleOk (n : nat) | RleErr.

Definition read_line_e (s : estream) (buf : str) : rle_result * str * estream :=
  let '(failed, line, s') := read_until_e s [] in
  if utf8_valid line
  then ((if (failed : bool) then RleErr else RleOk (length line)), buf ++ line, s')
  else (RleErr, buf, s').

(* one loop iteration per line, per fault, plus slack; equals Stream.stream_fuel on a
   stream without faults *)
Definition estream_fuel (s : estream) : nat :=
  fold_left (fun n e => match e with
                        | EData c => fold_left (fun n b => if is_nl b then S n else n) c n
                        | _ => S n
                        end) s 3.

Record estate := mkESt {
  es_buf : str;
  es_last : nat;
  es_err : option error;
  es_version : option str;
  es_src : estream }.

Inductive step := SOut (o : outcome) | SPanic | SHang.

Section ReaderE.
  Variable parse : parser record.
  (* [fixed] = false: reader.rs as it was before /repo 23feb61 (`last += n`; finding F-T1);
     [fixed] = true: reader.rs since 23feb61 (`last = buffer.len()`), which is also what the no-fault
     model TransfacReader.new_loop / next_loop says.  translate/transfac_reader.py re-reads which one the
     source has (GenReader.reader_last_is_buffer_len; C15.reader_model_last_is_source_last). *)
  Variable fixed : bool.

  Definition advance (buf' : str) (last n : nat) : nat :=
    if fixed then length buf' else last + n.

  Fixpoint new_loop_e (fuel : nat) (buf : str) (last : nat) (s : estream)
    : res (str * nat * option error * estream) :=
    match fuel with
    | O => OutOfFuel
    | S f =>
        match read_line_e s buf with
        | (RleErr, buf', s') => Ok (buf', last, Some EIo, s')
        | (RleOk O, buf', s') => Ok (buf', last, None, s')
        | (RleOk n, buf', s') =>
            tl <- str_from buf' last ;;
            if starts_with slashes tl then Ok (buf', last, None, s')
            else new_loop_e f buf' (advance buf' last n) s'
        end
    end.

  Definition reader_new_e (fuel : nat) (s : estream) : res estate :=
    x <- new_loop_e fuel [] 0 s ;;
    let '(buf, last, e, s') := x in
    if starts_with [x56; x56] buf then
      match parse_version buf with
      | POk v _ => Ok (mkESt [] 0 e (Some (trim v)) s')
      | bad => e' <- error_from bad ;; Ok (mkESt buf last (Some e') None s')
      end
    else Ok (mkESt buf last e None s').

  Fixpoint next_loop_e (fuel : nat) (buf : str) (last : nat) (s : estream)
    : res (str * nat * bool * estream) :=
    match fuel with
    | O => OutOfFuel
    | S f =>
        match read_line_e s buf with
        | (RleErr, buf', s') => Ok (buf', last, true, s')
        | (RleOk O, buf', s') => Ok (buf', last, false, s')
        | (RleOk n, buf', s') =>
            tl <- str_from buf' last ;;
            if starts_with slashes tl then Ok (buf', advance buf' last n, false, s')
            else next_loop_e f buf' (advance buf' last n) s'
        end
    end.

  Definition reader_next_e (fuel : nat) (st : estate) : res (outcome * estate) :=
    match es_err st with
    | Some e => Ok (OErr e, mkESt (es_buf st) (es_last st) None (es_version st) (es_src st))
    | None =>
        tl <- str_from (es_buf st) (es_last st) ;;
        x <- (if starts_with slashes tl then Ok (es_buf st, es_last st, false, es_src st)
              else next_loop_e fuel (es_buf st) (es_last st) (es_src st)) ;;
        let '(buf, last, ioerr, s') := x in
        let st' := mkESt buf last None (es_version st) s' in
        if (ioerr : bool) then Ok (OErr EIo, st')
        else match buf with
             | [] => Ok (OEnd, st')
             | _ =>
                 match parse buf with
                 | POk r _ => Ok (ORec r, mkESt [] 0 None (es_version st) s')
                 | bad => e <- error_from bad ;; Ok (OErr e, st')
                 end
             end
    end.

  Fixpoint poll_e (fuel k : nat) (st : estate) : res (list outcome) :=
    match k with
    | O => Ok []
    | S k' =>
        x <- reader_next_e fuel st ;;
        rest <- poll_e fuel k' (snd x) ;;
        Ok (fst x :: rest)
    end.

  Fixpoint consume_post_e (fuel cfuel post : nat) (st : estate) : res (list outcome) :=
    match cfuel with
    | O => OutOfFuel
    | S f =>
        x <- reader_next_e fuel st ;;
        match x with
        | (ORec r, st') => rest <- consume_post_e fuel f post st' ;; Ok (ORec r :: rest)
        | (o, st') => rest <- poll_e fuel post st' ;; Ok (o :: rest)
        end
    end.

  Definition run_reader_post_e (post : nat) (s : estream) : res (list outcome) :=
    let fuel := estream_fuel s in
    st <- reader_new_e fuel s ;;
    consume_post_e fuel fuel post st.

  (* The same consumer as a TRACE: the outcomes returned before a panic / a hang are kept (the
     harness prints them: `E:io|PANIC`).  FaultProofs.trace_run_ok: the trace is `map SOut l`
     exactly when run_reader_post_e = Ok l. *)
  Fixpoint trace_poll_e (fuel k : nat) (st : estate) : list step :=
    match k with
    | O => []
    | S k' =>
        match reader_next_e fuel st with
        | Ok (o, st') => SOut o :: trace_poll_e fuel k' st'
        | OutOfFuel => [SHang]
        | _ => [SPanic]
        end
    end.

  Fixpoint trace_consume_e (fuel cfuel post : nat) (st : estate) : list step :=
    match cfuel with
    | O => [SHang]
    | S f =>
        match reader_next_e fuel st with
        | Ok (ORec r, st') => SOut (ORec r) :: trace_consume_e fuel f post st'
        | Ok (o, st') => SOut o :: trace_poll_e fuel post st'
        | OutOfFuel => [SHang]
        | _ => [SPanic]
        end
    end.

  Definition trace_run_e (post : nat) (s : estream) : list step :=
    let fuel := estream_fuel s in
    match reader_new_e fuel s with
    | Ok st => trace_consume_e fuel fuel post st
    | OutOfFuel => [SHang]
    | _ => [SPanic]
    end.
End ReaderE.

(* what the harness prints for a trace *)
Definition obs_of_step (x : step) : obs :=
  match x with SOut o => observe o | SPanic => BPanic | SHang => BHang end.
Definition observe_trace (t : list step) : list obs := map obs_of_step t.
