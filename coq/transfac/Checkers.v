(* What the harness observes of the implementation and the executable checkers of the
   two properties.  No proofs in this file (soundness lemmas are in ReaderProofs). *)
From Coq Require Import List Bool Arith NArith ZArith.
From Coq Require Import Init.Byte.
From LMBase Require Import Res IEEE.
From LMTransfac Require Import Bytes Nom Dec2F32 TransfacParse TransfacReader.
Import ListNotations.

(* ---- the observable part of a record ---- *)

Record oref := mkORef {
  or_local : N; or_xref : option str; or_title : option str; or_link : option str; or_pmid : option str }.

Record orecord := mkORec {
  o_id : option str;
  o_ac : option str;
  o_name : option str;
  o_desc : option str;
  o_data : option (list (list Z));      (* f32 bit patterns, canonical NaN *)
  o_refs : list oref;
  o_counts : option (list (list Z)) }.  (* Record::to_counts *)

Inductive obs :=
| BRec (r : orecord)
| BErr (e : error)
| BEnd
| BPanic
| BHang.

(* ---- model record -> observable record ---- *)

Definition cell_f32 (c : cell) : F32.t :=
  match c with CZero => F32.zero | CTok t => f32_of_token t end.

Fixpoint map_opt {A B} (f : A -> option B) (l : list A) : option (list B) :=
  match l with
  | [] => Some []
  | x :: t => match f x, map_opt f t with
              | Some y, Some r => Some (y :: r)
              | _, _ => None
              end
  end.

(* Record::to_counts: None when a cell is not an integer value (x.round() != x, true
   for NaN), else `x.round() as u32` (saturating); CountMatrix::new never fails *)
Definition count_of (x : F32.t) : option Z :=
  let r := F32.round x in
  if F32.eq r x then Some (F32.to_u32 r) else None.

Definition to_counts (m : list (list cell)) : option (list (list Z)) :=
  map_opt (map_opt (fun c => count_of (cell_f32 c))) m.

Definition observe_ref (r : reference) : oref :=
  mkORef (ref_local r) (ref_xref r) (ref_title r) (ref_link r) (ref_pmid r).

Definition observe_record (r : record) : orecord :=
  mkORec (r_id r) (r_ac r) (r_name r) (r_desc r)
         (option_map (map (map (fun c => F32.to_bits (cell_f32 c)))) (r_data r))
         (map observe_ref (r_refs r))
         (match r_data r with Some m => to_counts m | None => None end).

Definition observe (o : outcome) : obs :=
  match o with
  | ORec r => BRec (observe_record r)
  | OErr e => BErr e
  | OEnd => BEnd
  end.

Definition observe_run (x : res (list outcome)) : list obs :=
  match x with
  | Ok l => map observe l
  | Err _ => [BPanic]
  | Panic _ => [BPanic]
  | OutOfFuel => [BHang]
  end.

(* ---- boolean equality of observations ---- *)

Definition opt_eqb {A} (eq : A -> A -> bool) (a b : option A) : bool :=
  match a, b with
  | None, None => true
  | Some x, Some y => eq x y
  | _, _ => false
  end.

Fixpoint list_eqb {A} (eq : A -> A -> bool) (a b : list A) : bool :=
  match a, b with
  | [], [] => true
  | x :: a', y :: b' => eq x y && list_eqb eq a' b'
  | _, _ => false
  end.

Definition oref_eqb (a b : oref) : bool :=
  N.eqb (or_local a) (or_local b) && opt_eqb str_eqb (or_xref a) (or_xref b) &&
  opt_eqb str_eqb (or_title a) (or_title b) && opt_eqb str_eqb (or_link a) (or_link b) &&
  opt_eqb str_eqb (or_pmid a) (or_pmid b).

Definition orecord_eqb (a b : orecord) : bool :=
  opt_eqb str_eqb (o_id a) (o_id b) && opt_eqb str_eqb (o_ac a) (o_ac b) &&
  opt_eqb str_eqb (o_name a) (o_name b) && opt_eqb str_eqb (o_desc a) (o_desc b) &&
  opt_eqb (list_eqb (list_eqb Z.eqb)) (o_data a) (o_data b) &&
  list_eqb oref_eqb (o_refs a) (o_refs b) &&
  opt_eqb (list_eqb (list_eqb Z.eqb)) (o_counts a) (o_counts b).

Definition error_eqb (a b : error) : bool :=
  match a, b with EIo, EIo | ENom, ENom => true | _, _ => false end.

Definition obs_eqb (a b : obs) : bool :=
  match a, b with
  | BRec x, BRec y => orecord_eqb x y
  | BErr x, BErr y => error_eqb x y
  | BEnd, BEnd | BPanic, BPanic | BHang, BHang => true
  | _, _ => false
  end.

(* ---- C15: records, then exactly one error or end of input; no panic, no hang ---- *)

Fixpoint check_c15 (o : list obs) : bool :=
  match o with
  | [] => false
  | [BErr _] | [BEnd] => true
  | BRec _ :: t => check_c15 t
  | _ => false
  end.

(* ---- C14: exactly the expected records, in order, then end of input ---- *)

Definition check_c14 (expected : list record) (o : list obs) : bool :=
  list_eqb obs_eqb o (map (fun r => BRec (observe_record r)) expected ++ [BEnd]).

(* index of the first position where two observation sequences differ (for messages) *)
Fixpoint first_diff (a b : list obs) (k : nat) : option nat :=
  match a, b with
  | [], [] => None
  | x :: a', y :: b' => if obs_eqb x y then first_diff a' b' (S k) else Some k
  | _, _ => Some k
  end.
