(* Extraction of the executable TRANSFAC reader model and of the property checkers.
   Only ExtrOcamlBasic: nat, N, Z, positive, byte stay the extracted inductive types.
   Depends on the model files only, so that it still extracts when a proof breaks. *)
From Coq Require Import List ZArith NArith Extraction ExtrOcamlBasic.
From Coq Require Import Init.Byte Strings.Byte.
From LMBase Require Import Res IEEE.
From LMTransfac Require Import Bytes Stream Nom Dec2F32 TransfacParse TransfacReader TransfacPrint Checkers TransfacPoll TransfacFault GenReader TransfacCur TransfacFreq.

Definition byte_of_N : N -> option byte := Byte.of_N.
Definition byte_to_N : byte -> N := Byte.to_N.

(* the reader with the record parser as translate/transfac_reader.py finds it in parse.rs on this run
   (TransfacCur.parse_record_cur: = parse_record_fixed, the complete space1, as long as parse.rs uses no
   streaming combinator -- C15.parse_record_cur_is_fixed) *)
Definition model_run (al : alpha) (s : stream) : list obs :=
  observe_run (run_reader (parse_record_cur al) s).
(* ... and with the parser as it was before the repair of F18 (regression witness) *)
Definition model_run_streaming (al : alpha) (s : stream) : list obs :=
  observe_run (run_reader (parse_record_streaming al) s).

(* round 3: consumers that keep polling after the first error / end of input ... *)
Definition model_run_post (al : alpha) (post : nat) (s : stream) : list obs :=
  observe_run (run_reader_post (parse_record_cur al) post s).
(* ... and the reader over a stream with scripted I/O faults, as a trace ([fixed] = the repair
   proposed for finding F-T1) *)
Definition model_trace_ev (al : alpha) (fixed : bool) (post : nat) (s : estream) : list obs :=
  observe_trace (trace_run_e (parse_record_cur al) fixed post s).

(* the reader as translate/transfac_reader.py finds it in the source (GenReader.v) *)
Definition model_trace_cur (al : alpha) (post : nat) (s : estream) : list obs :=
  model_trace_ev al reader_last_is_buffer_len post s.

Extraction Language OCaml.
Extraction "transfac_model.ml"
  byte_of_N byte_to_N model_run model_run_streaming model_run_post model_trace_ev model_trace_cur check_c15p check_c14p to_freq_bits
  check_c14 check_c15 first_diff obs_eqb observe_record
  print_file expected_record wf_file f32_bits_of_token parse_streaming_modelled
  check_same_chunkings check_count.
