(* std::io::BufRead::read_line over a stream that delivers its bytes in chunks.

   A stream is the list of chunks still to be delivered: `fill_buf` returns the
   unconsumed part of the first non-empty chunk, `consume(n)` drops n bytes of it.
   (`BufReader<Cursor>` with capacity c delivers chunks of c bytes; the harness' own
   `BufRead` delivers chunks of arbitrary sizes.)  `read_until(b'\n')` appends the
   available bytes up to and including the first line feed, consumes them and stops
   at the line feed or when `fill_buf` returns nothing (end of input).
   `read_line` then validates the appended bytes: invalid UTF-8 gives
   `Err(InvalidData)`, leaves the `String` as it was, the bytes stay consumed.
   No proofs in this file. *)
From Coq Require Import List Bool Arith.
From Coq Require Import Init.Byte.
From LMTransfac Require Import Bytes.
Import ListNotations.

Definition stream := list str.

Definition stream_bytes (s : stream) : str := concat s.
Definition stream_len (s : stream) : nat := length (concat s).

(* split a chunk after its first line feed *)
Fixpoint split_nl (c : str) : option (str * str) :=
  match c with
  | [] => None
  | b :: t =>
      if is_nl b then Some ([b], t)
      else match split_nl t with
           | Some (p, r) => Some (b :: p, r)
           | None => None
           end
  end.

(* read_until(b'\n', acc): bytes appended and the stream afterwards *)
Fixpoint read_until_nl (s : stream) (acc : str) : str * stream :=
  match s with
  | [] => (acc, [])
  | c :: rest =>
      match split_nl c with
      | Some (p, r) => (acc ++ p, r :: rest)
      | None => read_until_nl rest (acc ++ c)
      end
  end.

Inductive rl_result := RlOk (n : nat) | RlInvalidUtf8.

(* read_line(&mut buf): result, new contents of buf, stream afterwards *)
Definition read_line (s : stream) (buf : str) : rl_result * str * stream :=
  let '(line, s') := read_until_nl s [] in
  if utf8_valid line then (RlOk (length line), buf ++ line, s')
  else (RlInvalidUtf8, buf, s').

(* enough fuel for every loop of the reader: one iteration per line of the input, plus
   slack (computed by two tail-recursive folds: no deep recursion in the extracted code) *)
Definition stream_fuel (s : stream) : nat :=
  fold_left (fun n c => fold_left (fun n b => if is_nl b then S n else n) c n) s 3.
