(* Lemmas on Stream.v: read_until / read_line depend on the concatenation of the chunks
   only (chunk independence), and the number of lines left strictly decreases with
   every non-empty read (the measure of the reader's loops). *)
From Coq Require Import List Bool Arith NArith Lia.
From Coq Require Import Init.Byte.
From LMTransfac Require Import Bytes Stream.
Import ListNotations.

(* ---- the flat specification: first line of a byte string ---- *)

Definition first_line (l : str) : str * str :=
  match split_nl l with
  | Some (p, r) => (p, r)
  | None => (l, [])
  end.

Lemma split_nl_app_some c rest p r :
  split_nl c = Some (p, r) -> split_nl (c ++ rest) = Some (p, r ++ rest).
Proof.
  revert p r. induction c as [|b t IH]; intros p r H; simpl in *; [discriminate|].
  destruct (is_nl b).
  - inversion H; subst. reflexivity.
  - destruct (split_nl t) as [[p' r']|] eqn:E; [|discriminate].
    inversion H; subst. rewrite (IH _ _ eq_refl). reflexivity.
Qed.

Lemma split_nl_app_none c rest :
  split_nl c = None ->
  split_nl (c ++ rest) = match split_nl rest with
                         | Some (p, r) => Some (c ++ p, r)
                         | None => None
                         end.
Proof.
  induction c as [|b t IH]; intros H; simpl in *.
  - destruct (split_nl rest) as [[p r]|]; reflexivity.
  - destruct (is_nl b); [discriminate|].
    destruct (split_nl t) as [[p' r']|] eqn:E; [discriminate|].
    rewrite (IH eq_refl). destruct (split_nl rest) as [[p r]|]; reflexivity.
Qed.

Lemma split_nl_some_app c p r : split_nl c = Some (p, r) -> c = p ++ r.
Proof.
  revert p r. induction c as [|b t IH]; intros p r H; simpl in *; [discriminate|].
  destruct (is_nl b).
  - inversion H; subst. reflexivity.
  - destruct (split_nl t) as [[p' r']|] eqn:E; [|discriminate].
    inversion H; subst. simpl. f_equal. apply IH. reflexivity.
Qed.

Lemma split_nl_some_nonempty c p r : split_nl c = Some (p, r) -> p <> [].
Proof.
  destruct c as [|b t]; simpl; [discriminate|].
  destruct (is_nl b).
  - intros H; inversion H; discriminate.
  - destruct (split_nl t) as [[p' r']|]; [|discriminate]. intros H; inversion H; discriminate.
Qed.

(* read_until on a stream = first line of the concatenation *)
Lemma read_until_nl_spec s : forall acc,
  fst (read_until_nl s acc) = acc ++ fst (first_line (concat s)) /\
  concat (snd (read_until_nl s acc)) = snd (first_line (concat s)).
Proof.
  induction s as [|c rest IH]; intros acc; simpl.
  - unfold first_line; simpl. rewrite app_nil_r. auto.
  - destruct (split_nl c) as [[p r]|] eqn:E.
    + unfold first_line. rewrite (split_nl_app_some c (concat rest) p r E). simpl. auto.
    + destruct (IH (acc ++ c)) as [H1 H2]. rewrite H1, H2.
      unfold first_line. rewrite (split_nl_app_none c (concat rest) E).
      destruct (split_nl (concat rest)) as [[p r]|]; simpl; rewrite <- app_assoc; auto.
Qed.

(* read_line on the flat byte string *)
Definition read_line_flat (l : str) (buf : str) : rl_result * str * str :=
  let '(line, rest) := first_line l in
  if utf8_valid line then (RlOk (length line), buf ++ line, rest)
  else (RlInvalidUtf8, buf, rest).

Lemma read_line_spec s buf :
  fst (fst (read_line s buf)) = fst (fst (read_line_flat (concat s) buf)) /\
  snd (fst (read_line s buf)) = snd (fst (read_line_flat (concat s) buf)) /\
  concat (snd (read_line s buf)) = snd (read_line_flat (concat s) buf).
Proof.
  unfold read_line, read_line_flat.
  destruct (read_until_nl_spec s []) as [H1 H2].
  destruct (read_until_nl s []) as [line s'] eqn:E. simpl in H1, H2.
  destruct (first_line (concat s)) as [fl rest] eqn:F. simpl in H1, H2. subst line.
  destruct (utf8_valid fl); simpl; auto.
Qed.

(* Chunk independence of read_line: two chunkings of the same bytes give the same
   result, the same buffer, and streams that again hold the same bytes. *)
Lemma read_line_chunk_independent_lemma s1 s2 buf :
  concat s1 = concat s2 ->
  fst (read_line s1 buf) = fst (read_line s2 buf) /\
  concat (snd (read_line s1 buf)) = concat (snd (read_line s2 buf)).
Proof.
  intros H.
  destruct (read_line_spec s1 buf) as (A1 & A2 & A3).
  destruct (read_line_spec s2 buf) as (B1 & B2 & B3).
  rewrite H in A1, A2, A3. split.
  - destruct (read_line s1 buf) as [[r1 b1] t1], (read_line s2 buf) as [[r2 b2] t2]; simpl in *.
    congruence.
  - congruence.
Qed.

(* ---- the measure: number of lines left ---- *)

Fixpoint nlines_aux (l : str) (pending : bool) : nat :=
  match l with
  | [] => if pending then 1 else 0
  | b :: t => if is_nl b then S (nlines_aux t false) else nlines_aux t true
  end.
Definition nlines (l : str) : nat := nlines_aux l false.

Lemma nlines_aux_true_pos l : 1 <= nlines_aux l true.
Proof. induction l as [|b t IH]; simpl; [lia|]. destruct (is_nl b); lia. Qed.

Lemma nlines_aux_pending l : l <> [] -> nlines_aux l false = nlines_aux l true.
Proof. destruct l as [|b t]; [congruence|]. simpl. reflexivity. Qed.

Lemma first_line_nil : first_line [] = ([], []).
Proof. reflexivity. Qed.

Lemma split_nl_some_nlines l : forall p r pend,
  split_nl l = Some (p, r) -> nlines_aux l pend = S (nlines_aux r false).
Proof.
  induction l as [|b t IH]; intros p r pend H; simpl in *; [discriminate|].
  destruct (is_nl b).
  - inversion H; subst. reflexivity.
  - destruct (split_nl t) as [[p' r']|] eqn:E; [|discriminate].
    inversion H; subst. apply (IH _ _ true eq_refl).
Qed.

Lemma split_nl_none_nlines l : split_nl l = None -> nlines_aux l true = 1.
Proof.
  induction l as [|b t IH]; intros H; simpl in *; [reflexivity|].
  destruct (is_nl b); [discriminate|].
  destruct (split_nl t) as [[p' r']|]; [discriminate|]. apply IH. reflexivity.
Qed.

(* a non-empty input gives a non-empty line and one line less to read *)
Lemma first_line_measure l line rest :
  first_line l = (line, rest) -> l <> [] ->
  line <> [] /\ nlines l = S (nlines rest) /\ l = line ++ rest.
Proof.
  unfold first_line, nlines. intros H Hne.
  destruct (split_nl l) as [[p r]|] eqn:E.
  - inversion H; subst. split; [exact (split_nl_some_nonempty _ _ _ E)|].
    split; [exact (split_nl_some_nlines _ _ _ false E)|exact (split_nl_some_app _ _ _ E)].
  - inversion H; subst. split; [exact Hne|]. split; [|rewrite app_nil_r; reflexivity].
    rewrite nlines_aux_pending by exact Hne. simpl. apply split_nl_none_nlines. exact E.
Qed.

Lemma read_line_flat_nil buf : read_line_flat [] buf = (RlOk 0, buf ++ [], []).
Proof. reflexivity. Qed.

(* what one read_line call does, in terms of the flat bytes *)
Lemma read_line_cases s buf :
  (concat s = [] /\ fst (read_line s buf) = (RlOk 0, buf) /\ concat (snd (read_line s buf)) = []) \/
  (exists line rest, concat s = line ++ rest /\ line <> [] /\
     nlines (concat s) = S (nlines rest) /\ concat (snd (read_line s buf)) = rest /\
     ((utf8_valid line = true /\ fst (read_line s buf) = (RlOk (length line), buf ++ line)) \/
      (utf8_valid line = false /\ fst (read_line s buf) = (RlInvalidUtf8, buf)))).
Proof.
  destruct (read_line_spec s buf) as (A1 & A2 & A3).
  destruct (read_line s buf) as [[r bb] ss] eqn:R. cbn [fst snd] in *.
  destruct (concat s) as [|b t] eqn:E.
  - left. split; [reflexivity|]. rewrite read_line_flat_nil in *. cbn [fst snd] in *.
    rewrite app_nil_r in A2. subst. auto.
  - right. unfold read_line_flat in *.
    destruct (first_line (b :: t)) as [line rest] eqn:F.
    destruct (first_line_measure _ _ _ F) as (L1 & L2 & L3); [discriminate|].
    exists line, rest. split; [exact L3|]. split; [exact L1|]. split; [exact L2|].
    destruct (utf8_valid line) eqn:U; cbn [fst snd] in *; subst.
    + split; [reflexivity|]. left. auto.
    + split; [reflexivity|]. right. auto.
Qed.

(* ---- the fuel computed by the model covers the measure ---- *)

Definition count_nl (l : str) : nat := length (filter is_nl l).

Lemma fold_count c : forall n,
  fold_left (fun n b => if is_nl b then S n else n) c n = n + count_nl c.
Proof.
  unfold count_nl. induction c as [|b t IH]; intros n; simpl; [lia|].
  rewrite IH. destruct (is_nl b); simpl; lia.
Qed.

Lemma stream_fuel_count s : forall a,
  fold_left (fun n c => fold_left (fun n b => if is_nl b then S n else n) c n) s a
  = a + count_nl (concat s).
Proof.
  induction s as [|c rest IH]; intros a; simpl; [unfold count_nl; simpl; lia|].
  rewrite IH, fold_count. unfold count_nl. rewrite filter_app, app_length. lia.
Qed.

Lemma nlines_aux_le_count l p : nlines_aux l p <= count_nl l + 1.
Proof.
  unfold count_nl. revert p. induction l as [|b t IH]; intros p; simpl.
  - destruct p; lia.
  - destruct (is_nl b); simpl; [specialize (IH false)|specialize (IH true)]; lia.
Qed.

Lemma stream_fuel_ge s : nlines (concat s) + 2 <= stream_fuel s.
Proof.
  unfold stream_fuel. rewrite stream_fuel_count.
  pose proof (nlines_aux_le_count (concat s) false). unfold nlines. lia.
Qed.

Lemma stream_fuel_concat s1 s2 : concat s1 = concat s2 -> stream_fuel s1 = stream_fuel s2.
Proof. intros H. unfold stream_fuel. rewrite !stream_fuel_count, H. reflexivity. Qed.

(* ---- UTF-8: a valid string does not start with a continuation byte ---- *)

Lemma utf8_valid_head b t : utf8_valid (b :: t) = true -> is_cont b = false.
Proof.
  unfold is_cont. cbn [utf8_valid]. intros H.
  destruct (N.ltb (bN b) 128) eqn:E1.
  - apply N.ltb_lt in E1. destruct (N.leb 128 (bN b)) eqn:E2; [apply N.leb_le in E2; lia|reflexivity].
  - destruct (N.ltb (bN b) 194) eqn:E2; [discriminate|].
    apply N.ltb_ge in E2. destruct (N.ltb (bN b) 192) eqn:E3; [apply N.ltb_lt in E3; lia|].
    apply andb_false_r.
Qed.
