(* Consumers that KEEP POLLING the reader (round 3).

   C15 speaks of *each* request for the next record, also of the requests made after `next`
   has returned an error or the end of input.  TransfacReader.consume stops at the first
   outcome that is not a record; here:
     poll k          k calls of `next`, whatever they return
     consume_post    calls `next` until the first outcome that is not a record, then `post`
                     more times (what harness/src/bin/transfac.rs `read_all` does)
   and the executable checker of the observed outcome sequences of such a consumer.
   No proofs in this file (PollProofs.v). *)
From Coq Require Import List Bool Arith.
From Coq Require Import Init.Byte.
From LMBase Require Import Res.
From LMTransfac Require Import Bytes Stream Nom TransfacParse TransfacReader Checkers.
Import ListNotations.

Section Poll.
  Variable parse : parser record.

  Fixpoint poll (fuel k : nat) (st : rstate) : res (list outcome) :=
    match k with
    | O => Ok []
    | S k' =>
        x <- reader_next parse fuel st ;;
        rest <- poll fuel k' (snd x) ;;
        Ok (fst x :: rest)
    end.

  Fixpoint consume_post (fuel cfuel post : nat) (st : rstate) : res (list outcome) :=
    match cfuel with
    | O => OutOfFuel
    | S f =>
        x <- reader_next parse fuel st ;;
        match x with
        | (ORec r, st') => rest <- consume_post fuel f post st' ;; Ok (ORec r :: rest)
        | (o, st') => rest <- poll fuel post st' ;; Ok (o :: rest)
        end
    end.

  (* Reader::new, records up to the first error / end of input, then `post` more requests *)
  Definition run_reader_post (post : nat) (s : stream) : res (list outcome) :=
    let fuel := stream_fuel s in
    st <- reader_new fuel s ;;
    consume_post fuel fuel post st.

  (* Reader::new, then k requests *)
  Definition run_polls (k : nat) (s : stream) : res (list outcome) :=
    let fuel := stream_fuel s in
    st <- reader_new fuel s ;;
    poll fuel k st.
End Poll.

(* ---- the checker of C15 for a polling consumer: records, then an error or the end of input,
   then exactly `post` more outcomes, each of them a returned value (record / error / end):
   no panic, no hang, and no outcome missing (a panic ends the observed sequence early) ---- *)

Definition is_ret (o : obs) : bool :=
  match o with BRec _ | BErr _ | BEnd => true | BPanic | BHang => false end.

Fixpoint check_c15p (post : nat) (o : list obs) : bool :=
  match o with
  | [] => false
  | BRec _ :: t => check_c15p post t
  | BErr _ :: t | BEnd :: t => forallb is_ret t && Nat.eqb (length t) post
  | _ => false
  end.

(* ---- C14 for a consumer that polls `post` more times after the end of input: exactly the
   expected records, the end of input, and the end of input again for every further request ---- *)
Definition check_c14p (expected : list record) (post : nat) (o : list obs) : bool :=
  list_eqb obs_eqb o (map (fun r => BRec (observe_record r)) expected ++ BEnd :: repeat BEnd post).

(* ---- wave 3: the two remaining C14 decisions of the driver as extracted checkers ----
   "the result is the same whatever the sizes of the chunks": all observed outcome sequences (one per
   chunking) are equal to the first one *)
Definition check_same_chunkings (seqs : list (list obs)) : bool :=
  match seqs with
  | [] => false
  | h :: t => forallb (list_eqb obs_eqb h) t
  end.

(* a file that holds n records ("//" lines) is read as n records, the end of input, and the end of
   input again for each of the `post` further requests (bundled files: the record count is known, the
   record contents are checked by check_c14p when the file is an instance of the round-trip theorem) *)
Fixpoint check_count (n post : nat) (o : list obs) : bool :=
  match n, o with
  | S n', BRec _ :: t => check_count n' post t
  | O, BEnd :: t => list_eqb obs_eqb t (repeat BEnd post)
  | _, _ => false
  end.
