(* Totality of the record parser (C15): for every input, `parse_record` (with the complete
   `space1`) answers Ok / Error / Failure -- never Incomplete (the `unreachable!()` of
   error.rs) and never exhausts the fuel of the model's loops, because every loop
   iteration consumes at least one byte. *)
From Coq Require Import List Bool Arith NArith Lia.
From Coq Require Import Init.Byte.
From LMTransfac Require Import Bytes Nom NomProofs TransfacParse.
Import ListNotations.
Local Open Scope byte_scope.

Lemma strict_parse_line : strict parse_line.
Proof.
  intros i. induction i as [|b t IH]; simpl; [exact I|].
  destruct (is_nl b); simpl; [lia|].
  destruct (parse_line t); simpl in *; auto.
Qed.

Lemma safe_parse_line : safe parse_line.
Proof. apply strict_safe, strict_parse_line. Qed.

Lemma tg_nonempty a b : tg a b <> [].
Proof. discriminate. Qed.

Lemma strict_tagged_line a b : strict (preceded (tag (tg a b)) parse_line).
Proof. apply strict_preceded_l; [apply strict_tag, tg_nonempty|apply safe_parse_line]. Qed.

Section Total.
  Variable sp1 : parser str.
  Hypothesis safe_sp1 : safe sp1.
  Variable al : alpha.

  Lemma strict_parse_symbol : strict (parse_symbol al).
  Proof.
    intros [|b r]; simpl; [exact I|]. destruct (sym_index al b); simpl; [lia|exact I].
  Qed.

  Lemma strict_parse_alphabet : strict (parse_alphabet sp1 al).
  Proof.
    unfold parse_alphabet. apply strict_delimited_l.
    - apply strict_alt2; apply strict_tag, tg_nonempty.
    - apply safe_preceded; [exact safe_sp1|].
      apply safe_separated_list1; [exact safe_sp1|apply strict_safe, strict_parse_symbol].
    - apply strict_safe, strict_line_ending.
  Qed.

  Lemma strict_parse_row k : strict (parse_row k).
  Proof.
    unfold parse_row. apply strict_delimited_l.
    - apply strict_uint.
    - apply safe_count, safe_delimited; [apply safe_space0|apply safe_float_token|apply safe_space0].
    - apply safe_parse_line.
  Qed.

  Lemma strict_parse_date : strict parse_date.
  Proof.
    intros i. unfold parse_date.
    pose proof (strict_terminated_l (tag (tg "D" "T")) space0
                  (strict_tag _ (tg_nonempty _ _)) safe_space0 i) as H0.
    destruct (terminated (tag (tg "D" "T")) space0 i) as [a0 r0| | | |]; simpl in *; auto.
    pose proof (strict_terminated_l u8 (char_ ".") (strict_uint _) (strict_safe _ (strict_char _)) r0) as H1.
    destruct (terminated u8 (char_ ".") r0) as [a1 r1| | | |]; simpl in *; auto.
    pose proof (strict_terminated_l u8 (char_ ".") (strict_uint _) (strict_safe _ (strict_char _)) r1) as H2.
    destruct (terminated u8 (char_ ".") r1) as [a2 r2| | | |]; simpl in *; auto.
    pose proof (strict_uint 65535%N r2) as H3. fold u16 in H3.
    destruct (u16 r2) as [a3 r3| | | |]; simpl in *; auto.
    pose proof (safe_space0 r3) as H4.
    destruct (space0 r3) as [a4 r4| | | |]; simpl in *; auto.
    assert (S5 : safe (delimited (char_ "(") parse_datekind (char_ ")"))).
    { apply safe_delimited; [apply strict_safe, strict_char| |apply strict_safe, strict_char].
      unfold parse_datekind. apply safe_alt2; apply safe_tag. }
    pose proof (S5 r4) as H5.
    destruct (delimited (char_ "(") parse_datekind (char_ ")") r4) as [a5 r5| | | |]; simpl in *; auto.
    assert (S6 : safe (delimited (char_ ";") (preceded space0 (take_till ".")) (char_ "."))).
    { apply safe_delimited; [apply strict_safe, strict_char| |apply strict_safe, strict_char].
      apply safe_preceded; [apply safe_space0|apply safe_take_till]. }
    pose proof (S6 r5) as H6.
    destruct (delimited (char_ ";") (preceded space0 (take_till ".")) (char_ ".") r5) as [a6 r6| | | |];
      simpl in *; auto.
    pose proof (strict_parse_line r6) as H7.
    destruct (parse_line r6) as [a7 r7| | | |]; simpl in *; auto. lia.
  Qed.

  Lemma strict_parse_reference_number : strict parse_reference_number.
  Proof.
    intros i. unfold parse_reference_number.
    assert (S0 : strict (preceded (terminated (tag (tg "R" "N")) space0)
                                  (delimited (char_ "[") u32 (char_ "]")))).
    { apply strict_preceded_l.
      - apply strict_terminated_l; [apply strict_tag, tg_nonempty|apply safe_space0].
      - apply safe_delimited; [apply strict_safe, strict_char|apply strict_safe, strict_uint
                              |apply strict_safe, strict_char]. }
    pose proof (S0 i) as H0.
    destruct (preceded (terminated (tag (tg "R" "N")) space0) (delimited (char_ "[") u32 (char_ "]")) i)
      as [num rest| | | |]; cbn [pbind ok_lt] in *; auto.
    destruct (starts_with [";"] rest).
    - assert (S1 : safe (delimited (char_ ";") (take_till ".") (char_ "."))).
      { apply safe_delimited; [apply strict_safe, strict_char|apply safe_take_till
                              |apply strict_safe, strict_char]. }
      pose proof (S1 rest) as H1.
      destruct (delimited (char_ ";") (take_till ".") (char_ ".") rest) as [x r1| | | |];
        cbn [pbind ok_lt ok_le] in *; auto.
      pose proof (strict_parse_line r1) as H2.
      destruct (parse_line r1) as [x2 r2| | | |]; cbn [pbind ok_lt ok_le] in *; auto. lia.
    - pose proof (strict_parse_line i) as H2.
      destruct (parse_line i) as [x2 r2| | | |]; cbn [pbind ok_lt ok_le] in *; auto.
  Qed.

  Lemma reference_loop_ok : forall f i pm li ti,
    length i < f -> ok_le (length i) (reference_loop f i pm li ti).
  Proof.
    induction f as [|f IH]; intros i pm li ti L; [lia|].
    cbn [reference_loop].
    destruct (negb (has_two_chars i)); [exact I|].
    assert (K : forall (A : Type) (p : parser A) (k : A -> str -> pres (option str * option str * option str)),
               strict p ->
               (forall a r, length r < length i -> ok_le (length r) (k a r)) ->
               ok_le (length i) (pbind (p i) k)).
    { intros A p k Sp Hk. pose proof (Sp i) as H. destruct (p i); cbn [pbind ok_lt ok_le] in *; auto.
      eapply ok_le_mono; [|apply Hk; exact H]. lia. }
    destruct (starts_with (tg "R" "X") i).
    { apply K.
      - apply strict_preceded_l.
        + apply strict_preceded_l; [apply strict_terminated_l; [apply strict_tag, tg_nonempty|apply safe_space0]|].
          apply safe_terminated; [apply safe_tag|apply safe_space0].
        + apply safe_terminated; [apply safe_take_till|apply strict_safe, strict_char].
      - intros a r Lr. pose proof (strict_parse_line r) as H.
        destruct (parse_line r) as [x r'| | | |]; cbn [pbind ok_lt ok_le] in *; auto.
        eapply ok_le_mono; [|apply IH]; lia. }
    destruct (starts_with (tg "R" "A") i).
    { apply K; [apply strict_tagged_line|]. intros a r Lr. apply IH. lia. }
    destruct (starts_with (tg "R" "L") i).
    { apply K; [apply strict_tagged_line|]. intros a r Lr. apply IH. lia. }
    destruct (starts_with (tg "R" "T") i).
    { apply K; [apply strict_tagged_line|]. intros a r Lr. apply IH. lia. }
    simpl. lia.
  Qed.

  Lemma strict_parse_reference : strict parse_reference.
  Proof.
    intros i. unfold parse_reference.
    pose proof (strict_parse_reference_number i) as H0.
    destruct (parse_reference_number i) as [num rest| | | |]; cbn [pbind ok_lt ok_le] in *; auto.
    pose proof (reference_loop_ok (S (length rest)) rest None None None (Nat.lt_succ_diag_r _)) as H1.
    destruct (reference_loop (S (length rest)) rest None None None) as [[[pm li] ti] r'| | | |];
      cbn [pbind ok_lt ok_le] in *; auto. lia.
  Qed.

  (* the loop of parse_record: with more fuel than input bytes it never runs out *)
  Lemma record_loop_ok : forall f i r,
    length i < f -> ok_le (length i) (record_loop sp1 al f i r).
  Proof.
    induction f as [|f IH]; intros i r L; [lia|].
    cbn [record_loop].
    destruct (parse_tag i) as [[k [a b]] rest0| | | |] eqn:PT; cbn [pbind ok_le]; auto.
    2,3: (unfold parse_tag in PT; destruct i as [|x [|y t]]; try discriminate;
          destruct (classify x y); discriminate).
    cbn [fst snd].
    assert (K : forall (A : Type) (p : parser A) (k : A -> str -> pres record),
               strict p ->
               (forall a r, length r < length i -> ok_le (length r) (k a r)) ->
               ok_le (length i) (pbind (p i) k)).
    { intros A p k0 Sp Hk. pose proof (Sp i) as H. destruct (p i); cbn [pbind ok_lt ok_le] in *; auto.
      eapply ok_le_mono; [|apply Hk; exact H]. lia. }
    assert (R : forall r0 rest, length rest < length i -> ok_le (length rest) (record_loop sp1 al f rest r0)).
    { intros r0 rest Lr. apply IH. lia. }
    destruct k.
    - apply K; [apply strict_tagged_line|]. intros; apply R; assumption.
    - apply K; [apply strict_tagged_line|]. intros; apply R; assumption.
    - apply K; [apply strict_tagged_line|]. intros; apply R; assumption.
    - apply K; [apply strict_tagged_line|]. intros; apply R; assumption.
    - apply K; [apply strict_many1, strict_tagged_line|]. intros; apply R; assumption.
    - apply K; [apply strict_tagged_line|]. intros; apply R; assumption.
    - apply K; [apply strict_tagged_line|]. intros; apply R; assumption.
    - apply K; [apply strict_parse_date|]. intros; apply R; assumption.
    - apply K; [apply strict_tagged_line|]. intros; apply R; assumption.
    - apply K; [apply strict_tagged_line|]. intros; apply R; assumption.
    - apply K; [apply strict_parse_alphabet|]. intros syms rest Lr.
      pose proof (strict_many1 _ (strict_parse_row (length syms)) rest) as H.
      destruct (many1 (parse_row (length syms)) rest) as [rows rest'| | | |]; cbn [pbind ok_lt ok_le] in *; auto.
      eapply ok_le_mono; [|apply R]; lia.
    - apply K; [apply strict_parse_reference|]. intros; apply R; assumption.
    - apply K; [apply strict_parse_line|]. intros; apply R; assumption.
    - apply K.
      + apply strict_preceded_l; [apply strict_tag, tg_nonempty|].
        apply safe_alt2; [apply safe_parse_line|apply safe_eof].
      + intros a0 r0 Lr. simpl. lia.
  Qed.

  Theorem parse_record_total i :
    parse_record sp1 al i <> PIncomplete /\ parse_record sp1 al i <> PFuel.
  Proof.
    unfold parse_record.
    pose proof (record_loop_ok (S (length i)) i empty_record (Nat.lt_succ_diag_r _)) as H.
    destruct (record_loop sp1 al (S (length i)) i empty_record); simpl in H; try contradiction;
      split; discriminate.
  Qed.
End Total.

Theorem parse_record_fixed_total al i :
  parse_record_fixed al i <> PIncomplete /\ parse_record_fixed al i <> PFuel.
Proof. apply parse_record_total. exact safe_space1_complete. Qed.

Lemma parse_version_total i : parse_version i <> PIncomplete /\ parse_version i <> PFuel.
Proof.
  pose proof (strict_tagged_line "V" "V" i) as H. unfold parse_version.
  change (tag (tg "V" "V")) with (tag (tg "V" "V")) in H.
  destruct (preceded (tag (tg "V" "V")) parse_line i); simpl in H; try contradiction; split; discriminate.
Qed.
