(* Soundness (and completeness) of the extracted boolean checkers of Checkers.v: these are
   the functions the OCaml driver uses to decide PROPFAIL on the implementation's
   observations. *)
From Coq Require Import List Bool Arith NArith ZArith Lia.
From Coq Require Import Init.Byte.
From LMBase Require Import Res.
From LMTransfac Require Import Bytes Nom NomProofs TransfacParse TransfacReader Checkers ReaderProofs.
Import ListNotations.

(* ---- boolean equalities decide equality ---- *)

Lemma str_eqb_eq a : forall b, str_eqb a b = true <-> a = b.
Proof.
  induction a as [|x a IH]; intros [|y b]; simpl; split; intros H; try congruence; try discriminate.
  - apply andb_true_iff in H. destruct H as [H1 H2]. apply beq_eq in H1. apply IH in H2. congruence.
  - inversion H; subst. rewrite beq_refl. simpl. apply IH. reflexivity.
Qed.

Lemma opt_eqb_eq {A} (eq : A -> A -> bool) :
  (forall x y, eq x y = true <-> x = y) -> forall a b, opt_eqb eq a b = true <-> a = b.
Proof.
  intros E [x|] [y|]; simpl; split; intros H; try congruence; try discriminate.
  - apply E in H. congruence.
  - inversion H; subst. apply E. reflexivity.
Qed.

Lemma list_eqb_eq {A} (eq : A -> A -> bool) :
  (forall x y, eq x y = true <-> x = y) -> forall a b, list_eqb eq a b = true <-> a = b.
Proof.
  intros E. induction a as [|x a IH]; intros [|y b]; simpl; split; intros H; try congruence; try discriminate.
  - apply andb_true_iff in H. destruct H as [H1 H2]. apply E in H1. apply IH in H2. congruence.
  - inversion H; subst. apply andb_true_iff. split; [apply E|apply IH]; reflexivity.
Qed.

Lemma oref_eqb_eq a b : oref_eqb a b = true <-> a = b.
Proof.
  destruct a as [l1 x1 t1 k1 p1], b as [l2 x2 t2 k2 p2]. unfold oref_eqb; simpl.
  rewrite !andb_true_iff, N.eqb_eq, !(opt_eqb_eq str_eqb str_eqb_eq).
  split; [intros ((((-> & ->) & ->) & ->) & ->); reflexivity|intros H; inversion H; auto].
Qed.

Lemma zmat_eqb_eq a b : opt_eqb (list_eqb (list_eqb Z.eqb)) a b = true <-> a = b.
Proof. apply opt_eqb_eq, list_eqb_eq, list_eqb_eq, Z.eqb_eq. Qed.

Lemma orecord_eqb_eq a b : orecord_eqb a b = true <-> a = b.
Proof.
  destruct a as [i1 a1 n1 d1 m1 r1 c1], b as [i2 a2 n2 d2 m2 r2 c2]. unfold orecord_eqb; simpl.
  rewrite !andb_true_iff, !(opt_eqb_eq str_eqb str_eqb_eq), !zmat_eqb_eq,
    (list_eqb_eq oref_eqb oref_eqb_eq).
  split; [intros ((((((-> & ->) & ->) & ->) & ->) & ->) & ->); reflexivity|intros H; inversion H; tauto].
Qed.

Lemma obs_eqb_eq a b : obs_eqb a b = true <-> a = b.
Proof.
  destruct a as [x|x| | |], b as [y|y| | |]; simpl; split; intros H; try congruence; try discriminate.
  - apply orecord_eqb_eq in H. congruence.
  - inversion H; subst. apply orecord_eqb_eq. reflexivity.
  - destruct x, y; simpl in H; congruence.
  - inversion H; subst. destruct y; reflexivity.
Qed.

(* ---- C15 ---- *)

(* what C15 demands of an observed outcome sequence: records, then exactly one error or the
   end of input; in particular no panic and no hang *)
Definition holds_c15 (o : list obs) : Prop :=
  exists rs last, o = map BRec rs ++ [last] /\ (last = BEnd \/ exists e, last = BErr e).

Lemma check_c15_sound o : check_c15 o = true -> holds_c15 o.
Proof.
  induction o as [|x t IH]; simpl; [discriminate|].
  destruct x as [r|e| | |].
  - destruct t as [|y t']; [discriminate|]. intros H. destruct (IH H) as (rs & l & E & Hl).
    exists (r :: rs), l. simpl. rewrite E. auto.
  - destruct t; [|discriminate]. intros _. exists [], (BErr e). split; [reflexivity|eauto].
  - destruct t; [|discriminate]. intros _. exists [], BEnd. split; [reflexivity|auto].
  - discriminate.
  - discriminate.
Qed.

Lemma check_c15_complete o : holds_c15 o -> check_c15 o = true.
Proof.
  intros (rs & l & -> & Hl). induction rs as [|r rs IH]; simpl.
  - destruct Hl as [->|[e ->]]; reflexivity.
  - destruct (map BRec rs ++ [l]) eqn:E; [destruct rs; discriminate|]. exact IH.
Qed.

Lemma holds_c15_no_panic o : holds_c15 o -> ~ In BPanic o /\ ~ In BHang o.
Proof.
  intros (rs & l & -> & Hl). split; intros H; apply in_app_or in H; destruct H as [H|H].
  - apply in_map_iff in H. destruct H as (x & Hx & _). discriminate.
  - destruct H as [H|[]]. destruct Hl as [->|[e ->]]; discriminate.
  - apply in_map_iff in H. destruct H as (x & Hx & _). discriminate.
  - destruct H as [H|[]]. destruct Hl as [->|[e ->]]; discriminate.
Qed.

Lemma shape_holds_c15 l : shape l -> holds_c15 (map observe l).
Proof.
  intros (rs & o & -> & Ho). exists (map observe_record rs), (observe o).
  rewrite map_app, map_map. simpl. split; [rewrite map_map; reflexivity|].
  destruct o; simpl in *; [discriminate|right; eauto|left; reflexivity].
Qed.

(* ---- C14 ---- *)

Lemma check_c14_sound expected o :
  check_c14 expected o = true ->
  o = map (fun r => BRec (observe_record r)) expected ++ [BEnd].
Proof. unfold check_c14. apply (list_eqb_eq obs_eqb obs_eqb_eq). Qed.

Lemma check_c14_complete expected :
  check_c14 expected (map (fun r => BRec (observe_record r)) expected ++ [BEnd]) = true.
Proof. unfold check_c14. apply (list_eqb_eq obs_eqb obs_eqb_eq). reflexivity. Qed.
