(* Lemmas on the nom combinators of Nom.v.

   [safe p]   : p never answers Incomplete, never exhausts the model's fuel, and its rest is
                not longer than its input;
   [strict p] : ... and the rest is strictly shorter (the parser consumes).
   These are the facts behind "the parser terminates and `Error::from(Incomplete)` is not
   reached" (C15); the second half of the file computes the combinators on printed text
   (C14 round trip). *)
From Coq Require Import List Bool Arith NArith Lia.
From Coq Require Import Init.Byte.
From LMTransfac Require Import Bytes Nom.
Import ListNotations.

(* ---- results ---- *)

Definition ok_le {A} (n : nat) (x : pres A) : Prop :=
  match x with
  | POk _ r => length r <= n
  | PIncomplete | PFuel => False
  | _ => True
  end.

Definition ok_lt {A} (n : nat) (x : pres A) : Prop :=
  match x with
  | POk _ r => length r < n
  | PIncomplete | PFuel => False
  | _ => True
  end.

Definition safe {A} (p : parser A) : Prop := forall i, ok_le (length i) (p i).
Definition strict {A} (p : parser A) : Prop := forall i, ok_lt (length i) (p i).

Lemma ok_lt_le {A} n (x : pres A) : ok_lt n x -> ok_le n x.
Proof. destruct x; simpl; auto. lia. Qed.

Lemma ok_le_mono {A} n m (x : pres A) : n <= m -> ok_le n x -> ok_le m x.
Proof. destruct x; simpl; auto. lia. Qed.

Lemma ok_lt_mono {A} n m (x : pres A) : n <= m -> ok_lt n x -> ok_lt m x.
Proof. destruct x; simpl; auto. lia. Qed.

Lemma ok_le_lt {A} n m (x : pres A) : n < m -> ok_le n x -> ok_lt m x.
Proof. destruct x; simpl; auto. lia. Qed.

Lemma strict_safe {A} (p : parser A) : strict p -> safe p.
Proof. intros H i. apply ok_lt_le, H. Qed.

Lemma ok_le_bind {A B} n m (x : pres A) (k : A -> str -> pres B) :
  ok_le n x -> (forall a r, length r <= n -> ok_le m (k a r)) -> ok_le m (pbind x k).
Proof. destruct x; simpl; auto. Qed.

Lemma ok_lt_bind {A B} n m (x : pres A) (k : A -> str -> pres B) :
  ok_lt n x -> (forall a r, length r < n -> ok_le m (k a r)) -> ok_le m (pbind x k).
Proof. destruct x; simpl; auto. Qed.

Lemma ok_le_bind_lt {A B} n m (x : pres A) (k : A -> str -> pres B) :
  ok_le n x -> (forall a r, length r <= n -> ok_lt m (k a r)) -> ok_lt m (pbind x k).
Proof. destruct x; simpl; auto. Qed.

(* ---- byte-string helpers ---- *)

Lemma beq_refl b : beq b b = true.
Proof. unfold beq. apply Byte.byte_dec_lb. reflexivity. Qed.

Lemma beq_eq a b : beq a b = true -> a = b.
Proof. unfold beq. apply Byte.byte_dec_bl. Qed.

Lemma str_eqb_true a : forall b, str_eqb a b = true -> a = b.
Proof.
  induction a as [|x a IH]; intros [|y b]; simpl; intros H; try discriminate; [reflexivity|].
  apply andb_true_iff in H. destruct H as [H1 H2]. apply beq_eq in H1. rewrite (IH _ H2), H1. reflexivity.
Qed.

Lemma span_app f l : forall p r, span f l = (p, r) -> l = p ++ r.
Proof.
  induction l as [|b t IH]; simpl; intros p r H.
  - inversion H; reflexivity.
  - destruct (f b).
    + destruct (span f t) as [p' r'] eqn:E. inversion H; subst. simpl. f_equal. apply IH. reflexivity.
    + inversion H; reflexivity.
Qed.

Lemma span_length f l p r : span f l = (p, r) -> length l = length p + length r.
Proof. intros H. rewrite (span_app _ _ _ _ H) at 1. apply app_length. Qed.

Lemma span_all f l : forall p r, span f l = (p, r) -> forallb f p = true.
Proof.
  induction l as [|b t IH]; simpl; intros p r H.
  - inversion H; reflexivity.
  - destruct (f b) eqn:F.
    + destruct (span f t) as [p' r'] eqn:E. inversion H; subst. simpl. rewrite F. apply (IH _ _ eq_refl).
    + inversion H; reflexivity.
Qed.

(* span over a block of matching bytes followed by a non-matching byte (or nothing) *)
Lemma span_block f a r :
  forallb f a = true -> match r with [] => True | b :: _ => f b = false end ->
  span f (a ++ r) = (a, r).
Proof.
  intros Ha Hr. induction a as [|x a IH]; simpl in *.
  - destruct r as [|b t]; [reflexivity|]. simpl. rewrite Hr. reflexivity.
  - apply andb_true_iff in Ha. destruct Ha as [Hx Ha]. rewrite Hx, (IH Ha). reflexivity.
Qed.

Lemma starts_with_length t i : starts_with t i = true -> length t <= length i.
Proof.
  revert i. induction t as [|x t IH]; simpl; intros i H; [lia|].
  destruct i as [|y i]; [discriminate|]. apply andb_true_iff in H. destruct H as [_ H].
  specialize (IH _ H). simpl. lia.
Qed.

Lemma starts_with_app t r : starts_with t (t ++ r) = true.
Proof. induction t as [|x t IH]; simpl; [reflexivity|]. rewrite beq_refl. exact IH. Qed.

Lemma starts_with_nocase_length t i : starts_with_nocase t i = true -> length t <= length i.
Proof.
  revert i. induction t as [|x t IH]; simpl; intros i H; [lia|].
  destruct i as [|y i]; [discriminate|]. apply andb_true_iff in H. destruct H as [_ H].
  specialize (IH _ H). simpl. lia.
Qed.

(* ---- leaves ---- *)

Lemma safe_tag t : safe (tag t).
Proof.
  intros i. unfold tag. destruct (starts_with t i); simpl; [|exact I].
  rewrite skipn_length. lia.
Qed.

Lemma strict_tag t : t <> [] -> strict (tag t).
Proof.
  intros Ht i. unfold tag. destruct (starts_with t i) eqn:E; simpl; [|exact I].
  apply starts_with_length in E. rewrite skipn_length.
  destruct t; [congruence|]. simpl in *. lia.
Qed.

Lemma safe_tag_no_case t : safe (tag_no_case t).
Proof.
  intros i. unfold tag_no_case. destruct (starts_with_nocase t i); simpl; [|exact I].
  rewrite skipn_length. lia.
Qed.

Lemma strict_char c : strict (char_ c).
Proof. intros [|b r]; simpl; [exact I|]. destruct (beq c b); simpl; [lia|exact I]. Qed.

Lemma safe_space0 : safe space0.
Proof.
  intros i. unfold space0. destruct (span is_blank i) as [p r] eqn:E. simpl.
  apply span_length in E. lia.
Qed.

Lemma safe_space1_complete : safe space1_complete.
Proof.
  intros i. unfold space1_complete. destruct (span is_blank i) as [p r] eqn:E.
  apply span_length in E. destruct p; simpl in *; [exact I|lia].
Qed.

Lemma strict_digit1 : strict digit1.
Proof.
  intros i. unfold digit1. destruct (span is_digit i) as [p r] eqn:E.
  apply span_length in E. destruct p; simpl in *; [exact I|lia].
Qed.

Lemma strict_line_ending : strict line_ending.
Proof.
  intros [|b r]; simpl; [exact I|].
  destruct b; simpl; try exact I; try lia.
  destruct r as [|c r]; simpl; [exact I|]. destruct c; simpl; try exact I; lia.
Qed.

Lemma safe_eof : safe eof.
Proof. intros [|b r]; simpl; [lia|exact I]. Qed.

Lemma safe_take_till c : safe (take_till c).
Proof.
  intros i. unfold take_till. destruct (span _ i) as [p r] eqn:E. simpl.
  apply span_length in E. lia.
Qed.

Lemma uint_loop_ok maxv i : forall acc first,
  ok_le (length i) (uint_loop maxv i acc first) /\
  (first = true -> ok_lt (length i) (uint_loop maxv i acc first)).
Proof.
  induction i as [|b t IH]; intros acc first; simpl.
  - destruct first; simpl; split; auto; try lia; try discriminate.
  - destruct (is_digit b).
    + destruct (N.ltb maxv _); simpl; [split; auto|].
      destruct (IH (acc * 10 + digit_val b)%N false) as [H _].
      split; [eapply ok_le_mono; [|exact H]; lia|].
      intros _. eapply ok_le_lt; [|exact H]. lia.
    + destruct first; simpl; split; auto; try lia; try discriminate.
Qed.

Lemma strict_uint maxv : strict (uint maxv).
Proof. intros i. unfold uint. apply uint_loop_ok. reflexivity. Qed.

(* ---- combinators ---- *)

Lemma safe_pmap {A B} (f : A -> B) p : safe p -> safe (pmap f p).
Proof.
  intros H i. unfold pmap. eapply ok_le_bind; [apply H|]. intros a r L. exact L.
Qed.

Lemma strict_pmap {A B} (f : A -> B) p : strict p -> strict (pmap f p).
Proof.
  intros H i. unfold pmap. specialize (H i). destruct (p i); simpl in *; auto.
Qed.

Lemma safe_preceded {A B} (p : parser A) (q : parser B) : safe p -> safe q -> safe (preceded p q).
Proof.
  intros Hp Hq i. unfold preceded. eapply ok_le_bind; [apply Hp|].
  intros a r L. eapply ok_le_mono; [exact L|apply Hq].
Qed.

Lemma strict_preceded_l {A B} (p : parser A) (q : parser B) :
  strict p -> safe q -> strict (preceded p q).
Proof.
  intros Hp Hq i. unfold preceded. specialize (Hp i). destruct (p i); simpl in *; auto.
  eapply ok_le_lt; [exact Hp|apply Hq].
Qed.

Lemma strict_preceded_r {A B} (p : parser A) (q : parser B) :
  safe p -> strict q -> strict (preceded p q).
Proof.
  intros Hp Hq i. unfold preceded. specialize (Hp i). destruct (p i); simpl in *; auto.
  eapply ok_lt_mono; [exact Hp|apply Hq].
Qed.

Lemma safe_terminated {A B} (p : parser A) (q : parser B) : safe p -> safe q -> safe (terminated p q).
Proof.
  intros Hp Hq i. unfold terminated. eapply ok_le_bind; [apply Hp|].
  intros a r L. eapply ok_le_bind; [apply Hq|]. intros b r' L'. simpl. lia.
Qed.

Lemma strict_terminated_l {A B} (p : parser A) (q : parser B) :
  strict p -> safe q -> strict (terminated p q).
Proof.
  intros Hp Hq i. unfold terminated. specialize (Hp i). destruct (p i); simpl in *; auto.
  specialize (Hq rest). destruct (q rest); simpl in *; auto. lia.
Qed.

Lemma strict_terminated_r {A B} (p : parser A) (q : parser B) :
  safe p -> strict q -> strict (terminated p q).
Proof.
  intros Hp Hq i. unfold terminated. specialize (Hp i). destruct (p i); simpl in *; auto.
  specialize (Hq rest). destruct (q rest); simpl in *; auto. lia.
Qed.

Lemma safe_delimited {A B C} (p : parser A) (q : parser B) (s : parser C) :
  safe p -> safe q -> safe s -> safe (delimited p q s).
Proof.
  intros Hp Hq Hs i. unfold delimited. eapply ok_le_bind; [apply Hp|].
  intros a r L. eapply ok_le_bind; [apply Hq|]. intros b r' L'.
  eapply ok_le_bind; [apply Hs|]. intros c r'' L''. simpl. lia.
Qed.

Lemma strict_delimited_l {A B C} (p : parser A) (q : parser B) (s : parser C) :
  strict p -> safe q -> safe s -> strict (delimited p q s).
Proof.
  intros Hp Hq Hs i. unfold delimited. specialize (Hp i). destruct (p i); simpl in *; auto.
  specialize (Hq rest). destruct (q rest); simpl in *; auto.
  specialize (Hs rest0). destruct (s rest0); simpl in *; auto. lia.
Qed.

Lemma strict_delimited_m {A B C} (p : parser A) (q : parser B) (s : parser C) :
  safe p -> strict q -> safe s -> strict (delimited p q s).
Proof.
  intros Hp Hq Hs i. unfold delimited. specialize (Hp i). destruct (p i); simpl in *; auto.
  specialize (Hq rest). destruct (q rest); simpl in *; auto.
  specialize (Hs rest0). destruct (s rest0); simpl in *; auto. lia.
Qed.

Lemma safe_pair {A B} (p : parser A) (q : parser B) : safe p -> safe q -> safe (pair_ p q).
Proof.
  intros Hp Hq i. unfold pair_. eapply ok_le_bind; [apply Hp|].
  intros a r L. eapply ok_le_bind; [apply Hq|]. intros b r' L'. simpl. lia.
Qed.

Lemma strict_pair_l {A B} (p : parser A) (q : parser B) : strict p -> safe q -> strict (pair_ p q).
Proof.
  intros Hp Hq i. unfold pair_. specialize (Hp i). destruct (p i); simpl in *; auto.
  specialize (Hq rest). destruct (q rest); simpl in *; auto. lia.
Qed.

Lemma safe_alt2 {A} (p q : parser A) : safe p -> safe q -> safe (alt2 p q).
Proof. intros Hp Hq i. unfold alt2. specialize (Hp i). destruct (p i); simpl in *; auto; try apply Hq. Qed.

Lemma strict_alt2 {A} (p q : parser A) : strict p -> strict q -> strict (alt2 p q).
Proof. intros Hp Hq i. unfold alt2. specialize (Hp i). destruct (p i); simpl in *; auto; try apply Hq. Qed.

Lemma safe_opt {A} (p : parser A) : safe p -> safe (opt p).
Proof. intros Hp i. unfold opt. specialize (Hp i). destruct (p i); simpl in *; auto. Qed.

Lemma safe_cut {A} (p : parser A) : safe p -> safe (cut p).
Proof. intros Hp i. unfold cut. specialize (Hp i). destruct (p i); simpl in *; auto. Qed.

Lemma many_loop_ok {A} (p : parser A) : safe p ->
  forall f i acc, length i < f -> ok_le (length i) (many_loop p f i acc).
Proof.
  intros Hp. induction f as [|f IH]; intros i acc L; [lia|]. simpl.
  specialize (Hp i). destruct (p i) as [a r| | | |]; simpl in *; auto.
  destruct (Nat.eqb (length r) (length i)) eqn:E; simpl; [exact I|].
  apply Nat.eqb_neq in E. eapply ok_le_mono; [|apply IH]; lia.
Qed.

Lemma safe_many1 {A} (p : parser A) : safe p -> safe (many1 p).
Proof.
  intros Hp i. unfold many1. pose proof (Hp i) as H. destruct (p i) as [a r| | | |]; cbn [ok_le ok_lt] in *; auto.
  eapply ok_le_mono; [exact H|]. apply many_loop_ok; [exact Hp|lia].
Qed.

Lemma strict_many1 {A} (p : parser A) : strict p -> strict (many1 p).
Proof.
  intros Hp i. unfold many1. pose proof (Hp i) as H. destruct (p i) as [a r| | | |]; cbn [ok_le ok_lt] in *; auto.
  eapply ok_le_lt; [exact H|]. apply many_loop_ok; [apply strict_safe; exact Hp|lia].
Qed.

Lemma safe_count {A} (p : parser A) n : safe p -> safe (count_ p n).
Proof.
  intros Hp. induction n as [|n IH]; intros i; simpl; [lia|].
  eapply ok_le_bind; [apply Hp|]. intros a r L.
  eapply ok_le_bind; [apply IH|]. intros l r' L'. simpl. lia.
Qed.

Lemma sep_loop_ok {A B} (sep : parser B) (p : parser A) : safe sep -> safe p ->
  forall f i acc, length i < f -> ok_le (length i) (sep_loop sep p f i acc).
Proof.
  intros Hs Hp. induction f as [|f IH]; intros i acc L; [lia|]. simpl.
  pose proof (Hs i) as H1. destruct (sep i) as [a i1| | | |]; simpl in *; auto.
  destruct (Nat.eqb (length i1) (length i)) eqn:E; simpl; [exact I|].
  apply Nat.eqb_neq in E.
  pose proof (Hp i1) as H2. destruct (p i1) as [b i2| | | |]; simpl in *; auto.
  eapply ok_le_mono; [|apply IH]; lia.
Qed.

Lemma safe_separated_list1 {A B} (sep : parser B) (p : parser A) :
  safe sep -> safe p -> safe (separated_list1 sep p).
Proof.
  intros Hs Hp i. unfold separated_list1. pose proof (Hp i) as H.
  destruct (p i) as [a r| | | |]; cbn [ok_le ok_lt] in *; auto.
  eapply ok_le_mono; [exact H|]. apply sep_loop_ok; auto.
Qed.

Lemma strict_separated_list1 {A B} (sep : parser B) (p : parser A) :
  safe sep -> strict p -> strict (separated_list1 sep p).
Proof.
  intros Hs Hp i. unfold separated_list1. pose proof (Hp i) as H.
  destruct (p i) as [a r| | | |]; cbn [ok_le ok_lt] in *; auto.
  eapply ok_le_lt; [exact H|]. apply sep_loop_ok; auto. apply strict_safe; exact Hp.
Qed.

(* ---- the float token ---- *)

Lemma safe_cat2 p q : safe p -> safe q -> safe (cat2 p q).
Proof. intros. unfold cat2. apply safe_pmap, safe_pair; auto. Qed.

Lemma safe_opt_str p : safe p -> safe (opt_str p).
Proof. intros. unfold opt_str. apply safe_pmap, safe_opt; auto. Qed.

Lemma safe_chr c : safe (chr c).
Proof. unfold chr. apply safe_pmap, strict_safe, strict_char. Qed.

Lemma safe_sign_str : safe sign_str.
Proof. unfold sign_str. apply safe_opt_str, safe_alt2; apply safe_chr. Qed.

Lemma safe_digit1 : safe digit1.
Proof. apply strict_safe, strict_digit1. Qed.

Lemma safe_recognize_float : safe recognize_float.
Proof.
  unfold recognize_float.
  repeat (first [ apply safe_sign_str | apply safe_digit1 | apply safe_chr | apply safe_cut
                | apply safe_cat2 | apply safe_opt_str | apply safe_alt2 ]).
Qed.

Lemma safe_float_token : safe float_token.
Proof.
  unfold float_token.
  repeat (first [ apply safe_alt2 | apply safe_recognize_float | apply safe_tag_no_case ]).
Qed.

(* ---- locality: appending a separator byte (blank, tab, CR, LF) and anything after it to the
   input of the float parser changes nothing but the rest ---- *)

Definition is_sep (b : byte) : bool := match b with x20 | x09 | x0d | x0a => true | _ => false end.

Lemma blank_is_sep b : is_blank b = true -> is_sep b = true.
Proof. destruct b; simpl; intros H; try discriminate; reflexivity. Qed.

Definition extend {A} (x : pres A) (Y : str) : pres A :=
  match x with POk v r => POk v (r ++ Y) | PError => PError | PFailure => PFailure
             | PIncomplete => PIncomplete | PFuel => PFuel end.

Definition local {A} (p : parser A) : Prop :=
  forall t h X, is_sep h = true -> p (t ++ h :: X) = extend (p t) (h :: X).

Lemma span_app_stop f t Y :
  match Y with [] => True | b :: _ => f b = false end ->
  span f (t ++ Y) = (fst (span f t), snd (span f t) ++ Y).
Proof.
  intros HY. induction t as [|b t IH]; simpl.
  - destruct Y as [|y Y']; [reflexivity|]. simpl. rewrite HY. reflexivity.
  - destruct (f b); [|reflexivity]. rewrite IH. destruct (span f t). reflexivity.
Qed.

Lemma sep_facts h : is_sep h = true ->
  is_digit h = false /\ beq "."%byte h = false /\ beq "e"%byte h = false /\ beq "E"%byte h = false /\
  beq "+"%byte h = false /\ beq "-"%byte h = false /\ lower h = h /\ is_blank h || is_nl h || beq x0d h = true.
Proof. destruct h; simpl; intros H; try discriminate; repeat split. Qed.

Lemma local_digit1 : local digit1.
Proof.
  intros t h X Hh. destruct (sep_facts h Hh) as (Hd & _). unfold digit1.
  rewrite (span_app_stop is_digit t (h :: X) Hd). destruct (span is_digit t) as [p r]. simpl.
  destruct p; reflexivity.
Qed.

Lemma local_chr c : (forall h, is_sep h = true -> beq c h = false) -> local (chr c).
Proof.
  intros Hc t h X Hh. unfold chr, pmap, char_. destruct t as [|b t']; simpl.
  - rewrite (Hc h Hh). reflexivity.
  - destruct (beq c b); reflexivity.
Qed.

Lemma starts_nocase_app p : forall t h X,
  (forall x, In x p -> beq x (lower h) = false) ->
  starts_with_nocase p (t ++ h :: X) = starts_with_nocase p t.
Proof.
  induction p as [|x p IH]; intros t h X Hp; [reflexivity|]. destruct t as [|b t']; simpl.
  - rewrite (Hp x (or_introl eq_refl)). reflexivity.
  - rewrite (IH t' h X); [reflexivity|]. intros y Hy. apply Hp. right. exact Hy.
Qed.

Lemma local_tag_no_case p :
  (forall h x, is_sep h = true -> In x p -> beq x h = false) -> local (tag_no_case p).
Proof.
  intros Hp t h X Hh. unfold tag_no_case. destruct (sep_facts h Hh) as (_ & _ & _ & _ & _ & _ & Hl & _).
  rewrite starts_nocase_app; [|intros x Hx; rewrite Hl; apply Hp; assumption].
  destruct (starts_with_nocase p t) eqn:E; [|reflexivity]. apply starts_with_nocase_length in E.
  simpl. rewrite firstn_app, skipn_app.
  replace (length p - length t) with 0 by lia. simpl. rewrite app_nil_r. reflexivity.
Qed.

Lemma local_pmap {A B} (f : A -> B) p : local p -> local (pmap f p).
Proof. intros H t h X Hh. unfold pmap. rewrite (H t h X Hh). destruct (p t); reflexivity. Qed.

Lemma local_pair {A B} (p : parser A) (q : parser B) : local p -> local q -> local (pair_ p q).
Proof.
  intros Hp Hq t h X Hh. unfold pair_. rewrite (Hp t h X Hh). destruct (p t) as [a r| | | |]; try reflexivity.
  simpl. rewrite (Hq r h X Hh). destruct (q r); reflexivity.
Qed.

Lemma local_alt2 {A} (p q : parser A) : local p -> local q -> local (alt2 p q).
Proof.
  intros Hp Hq t h X Hh. unfold alt2. rewrite (Hp t h X Hh). destruct (p t); try reflexivity.
  simpl. apply Hq. exact Hh.
Qed.

Lemma local_opt {A} (p : parser A) : local p -> local (opt p).
Proof. intros Hp t h X Hh. unfold opt. rewrite (Hp t h X Hh). destruct (p t); reflexivity. Qed.

Lemma local_cut {A} (p : parser A) : local p -> local (cut p).
Proof. intros Hp t h X Hh. unfold cut. rewrite (Hp t h X Hh). destruct (p t); reflexivity. Qed.

Lemma local_cat2 p q : local p -> local q -> local (cat2 p q).
Proof. intros. unfold cat2. apply local_pmap, local_pair; assumption. Qed.

Lemma local_opt_str p : local p -> local (opt_str p).
Proof. intros. unfold opt_str. apply local_pmap, local_opt; assumption. Qed.

Lemma chr_sep c : (c = "+" \/ c = "-" \/ c = "." \/ c = "e" \/ c = "E")%byte -> local (chr c).
Proof.
  intros Hc. apply local_chr. intros h Hh.
  destruct (sep_facts h Hh) as (_ & H1 & H2 & H3 & H4 & H5 & _).
  destruct Hc as [->|[->|[->|[->| ->]]]]; assumption.
Qed.

Lemma local_sign_str : local sign_str.
Proof. unfold sign_str. apply local_opt_str, local_alt2; apply chr_sep; auto. Qed.

Lemma local_recognize_float : local recognize_float.
Proof.
  unfold recognize_float.
  repeat (first [ apply local_sign_str | apply local_digit1 | apply local_cut
                | apply chr_sep; tauto
                | apply local_cat2 | apply local_opt_str | apply local_alt2 ]).
Qed.

Lemma letters_sep (p : str) :
  forallb (fun x => N.leb 97 (bN x) && N.leb (bN x) 122)%bool p = true ->
  forall h x, is_sep h = true -> In x p -> beq x h = false.
Proof.
  intros Hp h x Hh Hx. rewrite forallb_forall in Hp. specialize (Hp x Hx).
  destruct (beq x h) eqn:E; [|reflexivity]. apply beq_eq in E. subst x.
  destruct h; simpl in Hh; try discriminate; discriminate Hp.
Qed.

Lemma local_float_token : local float_token.
Proof.
  unfold float_token.
  repeat (first [ apply local_recognize_float
                | apply local_tag_no_case, letters_sep; reflexivity
                | apply local_alt2 ]).
Qed.
