(* C14 round trip, reader level: the reader run on any chunking of the text written by the
   canonical printer returns exactly the expected records, in order, then End. *)
From Coq Require Import List Bool Arith NArith Lia.
From Coq Require Import Init.Byte.
From LMBase Require Import Res.
From LMTransfac Require Import Bytes Stream Nom TransfacParse TransfacReader TransfacPrint.
From LMTransfac Require Import StreamProofs BytesProofs NomProofs ParseProofs ParseRoundTrip ReaderProofs.
Import ListNotations.
Local Open Scope byte_scope.

(* ---- lines ---- *)

(* text made of complete lines (ending with a line feed), each valid UTF-8 and not starting
   with "//": what the reader's loops append to the buffer before the terminator line *)
Inductive good_lines : str -> Prop :=
| gl_nil : good_lines []
| gl_cons x T : no_nl x = true -> utf8_valid (x ++ [x0a]) = true ->
                starts_with slashes (x ++ [x0a]) = false ->
                good_lines T -> good_lines (x ++ x0a :: T).

Lemma good_lines_app A B : good_lines A -> good_lines B -> good_lines (A ++ B).
Proof.
  intros HA HB. induction HA as [|x T H1 H2 H3 HT IH]; [exact HB|].
  rewrite <- app_assoc. cbn [app]. apply gl_cons; assumption.
Qed.

Lemma no_nl_app a b : no_nl (a ++ b) = no_nl a && no_nl b.
Proof. unfold no_nl. apply forallb_app. Qed.

Lemma plain_text x : forallb plain x = true -> no_nl x = true /\ utf8_valid x = true.
Proof.
  induction x as [|b t IH]; [split; reflexivity|]. cbn [forallb]. intros H.
  apply andb_true_iff in H. destruct H as [Hb Ht]. destruct (IH Ht) as [I1 I2].
  unfold plain in Hb. apply andb_true_iff in Hb. destruct Hb as [B1 B2].
  split; [cbn [no_nl forallb]; rewrite B2; exact I1|cbn [utf8_valid]; rewrite B1; exact I2].
Qed.

Lemma digit_plain d : is_digit d = true -> plain d = true.
Proof. destruct d; simpl; intros H; try discriminate; reflexivity. Qed.

(* one printed line [a :: x'] ++ eol, where a is not '/' *)
Lemma good_line crlf a x' T :
  beq "/" a = false -> no_nl (a :: x') = true -> utf8_valid (a :: x') = true ->
  good_lines T -> good_lines ((a :: x') ++ eol_of crlf ++ T).
Proof.
  intros Ha Hn Hu HT. destruct crlf; cbn [eol_of].
  - change ((a :: x') ++ [x0d; x0a] ++ T) with ((a :: x') ++ [x0d] ++ x0a :: T).
    rewrite app_assoc. apply gl_cons; [| | |exact HT].
    + rewrite no_nl_app, Hn. reflexivity.
    + rewrite <- app_assoc. apply utf8_valid_app; [exact Hu|reflexivity].
    + cbn [app starts_with slashes]. rewrite Ha. reflexivity.
  - change ((a :: x') ++ [x0a] ++ T) with ((a :: x') ++ x0a :: T).
    apply gl_cons; [exact Hn| | |exact HT].
    + apply utf8_valid_app; [exact Hu|reflexivity].
    + cbn [app starts_with slashes]. rewrite Ha. reflexivity.
Qed.

Lemma good_xx crlf T : good_lines T -> good_lines (xx_line (eol_of crlf) ++ T).
Proof.
  intros HT. unfold xx_line. rewrite <- app_assoc. apply (good_line crlf "X" ["X"] T); auto.
Qed.

(* a line "ab" ++ text ++ eol, a and b plain, a not '/' *)
Lemma good_tagged crlf a b x T :
  beq "/" a = false -> plain a = true -> plain b = true -> no_nl x = true -> utf8_valid x = true ->
  good_lines T -> good_lines (a :: b :: x ++ eol_of crlf ++ T).
Proof.
  intros Ha Pa Pb H1 H2 HT.
  change (a :: b :: x ++ eol_of crlf ++ T) with ((a :: b :: x) ++ eol_of crlf ++ T).
  apply good_line; [exact Ha| | |exact HT].
  - change (a :: b :: x) with ([a; b] ++ x). rewrite no_nl_app, H1.
    destruct (plain_text [a; b]) as [K _]; [cbn [forallb]; rewrite Pa, Pb; reflexivity|].
    rewrite K. reflexivity.
  - change (a :: b :: x) with ([a; b] ++ x). apply utf8_valid_app; [|exact H2].
    apply plain_text. cbn [forallb]. rewrite Pa, Pb. reflexivity.
Qed.

Lemma sym_plain al c k : sym_index al c = Some k -> plain c = true.
Proof. destruct al; destruct c; simpl; intros H; try discriminate; reflexivity. Qed.

Lemma label_plain l : label_ok l = true -> forallb plain l = true.
Proof.
  unfold label_ok, u32, uint. destruct (uint_loop _ l 0%N true) as [v r| | | |] eqn:E; try discriminate.
  destruct r; [|discriminate]. intros _. apply (forallb_impl is_digit plain); [exact digit_plain|].
  exact (uint_loop_digits _ _ _ _ _ E).
Qed.

Lemma token_plain t : token_ok t = true -> forallb plain t = true.
Proof. intros H. apply token_ok_parts in H. tauto. Qed.

Lemma blank_plain b : is_blank b = true -> plain b = true.
Proof. destruct b; simpl; intros H; try discriminate; reflexivity. Qed.

Lemma sep_plain sep : sep_ok sep = true -> forallb plain sep = true.
Proof. intros H. destruct (sep_ok_parts sep H) as (_ & Hb & _). exact (forallb_impl is_blank plain sep blank_plain Hb). Qed.

Lemma rowtail_plain' toks : forallb tok_ok toks = true -> forallb plain (rowtail toks) = true.
Proof.
  induction toks as [|[sep t] ts IH]; [reflexivity|]. cbn [forallb]. intros H.
  apply andb_true_iff in H. destruct H as [H1 H2]. unfold tok_ok in H1. cbn [fst snd] in H1.
  apply andb_true_iff in H1. destruct H1 as [Hs Ht].
  rewrite rowtail_cons, !forallb_app, (token_plain t Ht), (IH H2), (sep_plain sep Hs). reflexivity.
Qed.

Lemma good_row crlf k r T : row_ok k r = true -> good_lines T ->
  good_lines (print_row (eol_of crlf) r ++ T).
Proof.
  unfold row_ok. intros H HT. apply andb_true_iff in H. destruct H as [H Htail].
  apply andb_true_iff in H. destruct H as [H Htoks].
  apply andb_true_iff in H. destruct H as [Hlab _].
  destruct (tail_ok_parts (pr_tail r) Htail) as (T1 & T2 & _).
  destruct (label_head_digit _ Hlab) as (d & t & E & Hd).
  unfold print_row. fold (rowtail (pr_toks r)). rewrite E.
  rewrite <- !app_assoc. rewrite (app_assoc (d :: t)). rewrite (app_assoc ((d :: t) ++ _)).
  destruct (digit_facts d Hd) as (_ & _ & _ & _ & Hs & _).
  assert (P : forallb plain ((d :: t) ++ rowtail (pr_toks r)) = true).
  { rewrite forallb_app, <- E, (label_plain _ Hlab), (rowtail_plain' _ Htoks). reflexivity. }
  destruct (plain_text _ P) as [P1 P2].
  apply (good_line crlf d ((t ++ rowtail (pr_toks r)) ++ pr_tail r) T); [exact Hs| | |exact HT].
  - change (d :: (t ++ rowtail (pr_toks r)) ++ pr_tail r) with (((d :: t) ++ rowtail (pr_toks r)) ++ pr_tail r).
    rewrite no_nl_app, P1, T1. reflexivity.
  - change (d :: (t ++ rowtail (pr_toks r)) ++ pr_tail r) with (((d :: t) ++ rowtail (pr_toks r)) ++ pr_tail r).
    apply utf8_valid_app; assumption.
Qed.

Lemma good_rows crlf k rows T : forallb (row_ok k) rows = true -> good_lines T ->
  good_lines (flat_map (print_row (eol_of crlf)) rows ++ T).
Proof.
  induction rows as [|r rows IH]; intros H HT; [exact HT|].
  simpl in H. apply andb_true_iff in H. destruct H as [H1 H2].
  cbn [flat_map]. rewrite <- app_assoc. apply (good_row crlf k); [exact H1|apply IH; assumption].
Qed.

Lemma sym_text_plain' al syms idx : forallb (fun sc => sep_ok (fst sc)) syms = true ->
  sym_indices al (sym_letters syms) = Some idx -> forallb plain (sym_text syms) = true.
Proof.
  revert idx. induction syms as [|[sep c] cs IH]; intros idx Hs H; [reflexivity|].
  cbn [sym_letters map snd] in H. fold (sym_letters cs) in H. simpl in H.
  destruct (sym_index al c) as [k|] eqn:Ek; [|discriminate].
  destruct (sym_indices al (sym_letters cs)) as [i'|]; [|discriminate].
  cbn [forallb fst] in Hs. apply andb_true_iff in Hs. destruct Hs as [Hs1 Hs2].
  unfold sym_text. cbn [flat_map fst snd]. fold (sym_text cs).
  rewrite !forallb_app, (IH i' Hs2 eq_refl), (sep_plain sep Hs1).
  cbn [forallb]. rewrite (sym_plain al c k Ek). reflexivity.
Qed.

Lemma good_refline crlf l T : refline_ok l = true -> good_lines T ->
  good_lines (print_refline (eol_of crlf) l ++ T).
Proof.
  intros Hok HT. destruct l as [p|t|t|t]; cbn [print_refline refline_ok] in *.
  - apply andb_true_iff in Hok. destruct Hok as [Hok _]. apply andb_true_iff in Hok. destruct Hok as [Hok _].
    apply andb_true_iff in Hok. destruct Hok as [Hn Hu].
    assert (E : (["R"; "X"; " "; " "; "P"; "U"; "B"; "M"; "E"; "D"; ":"; " "] ++ p ++ ["."] ++ eol_of crlf) ++ T
                = "R" :: "X" :: ([" "; " "; "P"; "U"; "B"; "M"; "E"; "D"; ":"; " "] ++ p ++ ["."]) ++ eol_of crlf ++ T).
    { cbn [app]. rewrite <- !app_assoc. reflexivity. }
    rewrite E.
    apply good_tagged; try reflexivity; try exact HT.
    + rewrite !no_nl_app, Hn. reflexivity.
    + apply utf8_valid_app; [reflexivity|]. apply utf8_valid_app; [exact Hu|reflexivity].
  - apply andb_true_iff in Hok. destruct Hok as [Hn Hu]. cbn [app]. rewrite <- !app_assoc.
    apply good_tagged; try reflexivity; assumption.
  - destruct (field_ok_parts t Hok) as (H1 & H2 & _). cbn [app]. rewrite <- !app_assoc.
    change ("R" :: "T" :: " " :: " " :: t ++ eol_of crlf ++ T) with ("R" :: "T" :: (" " :: " " :: t) ++ eol_of crlf ++ T).
    apply good_tagged; try reflexivity; try exact HT; [cbn [no_nl forallb]; exact H1|exact H2].
  - destruct (field_ok_parts t Hok) as (H1 & H2 & _). cbn [app]. rewrite <- !app_assoc.
    change ("R" :: "L" :: " " :: " " :: t ++ eol_of crlf ++ T) with ("R" :: "L" :: (" " :: " " :: t) ++ eol_of crlf ++ T).
    apply good_tagged; try reflexivity; try exact HT; [cbn [no_nl forallb]; exact H1|exact H2].
Qed.

Lemma good_reflines crlf lines T : forallb refline_ok lines = true -> good_lines T ->
  good_lines (flat_map (print_refline (eol_of crlf)) lines ++ T).
Proof.
  induction lines as [|l lines IH]; intros H HT; [exact HT|].
  cbn [forallb] in H. apply andb_true_iff in H. destruct H as [H1 H2].
  cbn [flat_map]. rewrite <- app_assoc. apply good_refline; [exact H1|apply IH; assumption].
Qed.

Lemma good_item al crlf it T : item_ok al it = true -> good_lines T ->
  good_lines (print_item (eol_of crlf) it ++ T).
Proof.
  intros Hok HT. destruct it as [num xref lines|k pad v|k v| |t ts|d m y c au|po syms rows]; cbn [print_item].
  - cbn [item_ok] in Hok. apply andb_true_iff in Hok. destruct Hok as [Hok Hl].
    apply andb_true_iff in Hok. destruct Hok as [Hn Hx].
    assert (E : (["R"; "N"; " "; " "; "["] ++ num ++ ["]"] ++ print_xref xref ++ eol_of crlf ++
                 flat_map (print_refline (eol_of crlf)) lines) ++ T
              = "R" :: "N" :: ([" "; " "; "["] ++ num ++ ["]"] ++ print_xref xref) ++ eol_of crlf ++
                flat_map (print_refline (eol_of crlf)) lines ++ T).
    { rewrite <- !app_assoc. reflexivity. }
    rewrite E. pose proof (label_plain num Hn) as Pn. destruct (plain_text num Pn) as [N1 N2].
    assert (XR : no_nl (print_xref xref) = true /\ utf8_valid (print_xref xref) = true).
    { destruct xref as [x|]; [|split; reflexivity]. cbn [xref_ok] in Hx. apply andb_true_iff in Hx.
      destruct Hx as [Hx _]. destruct (field_ok_parts x Hx) as (X1 & X2 & _). cbn [print_xref]. split.
      - rewrite !no_nl_app, X1. reflexivity.
      - apply utf8_valid_app; [reflexivity|]. apply utf8_valid_app; [exact X2|reflexivity]. }
    destruct XR as [XR1 XR2].
    apply good_tagged; try reflexivity.
    + rewrite !no_nl_app, N1, XR1. reflexivity.
    + apply utf8_valid_app; [reflexivity|]. apply utf8_valid_app; [exact N2|].
      apply utf8_valid_app; [reflexivity|exact XR2].
    + apply good_reflines; assumption.
  - cbn [item_ok] in Hok. apply andb_true_iff in Hok. destruct Hok as [Hpad Hv].
    destruct (field_ok_parts v Hv) as (H1 & H2 & _).
    pose proof (forallb_impl is_blank plain pad blank_plain Hpad) as Pp. destruct (plain_text pad Pp) as [P1 P2].
    cbn [app]. rewrite <- !app_assoc. rewrite (app_assoc pad v).
    apply good_tagged; try exact HT; try (destruct k; reflexivity).
    + rewrite no_nl_app, P1, H1. reflexivity.
    + apply utf8_valid_app; assumption.
  - cbn [item_ok] in Hok. apply andb_true_iff in Hok. destruct Hok as [H1 H2].
    cbn [app]. rewrite <- !app_assoc.
    apply good_tagged; try exact HT; try (destruct k; reflexivity); assumption.
  - apply good_xx. exact HT.
  - cbn [item_ok] in Hok. revert Hok. generalize (t :: ts). intros l. induction l as [|x l IH]; intros Hok; [exact HT|].
    cbn [forallb] in Hok. apply andb_true_iff in Hok. destruct Hok as [Hx Hok].
    apply andb_true_iff in Hx. destruct Hx as [H1 H2].
    cbn [flat_map]. rewrite <- app_assoc. cbn [app]. rewrite <- app_assoc.
    apply good_tagged; try reflexivity; try assumption. apply IH. exact Hok.
  - cbn [item_ok] in Hok.
    apply andb_true_iff in Hok. destruct Hok as [Hok Hdot]. apply andb_true_iff in Hok. destruct Hok as [Hok Hu].
    apply andb_true_iff in Hok. destruct Hok as [Hok Hn]. apply andb_true_iff in Hok. destruct Hok as [Hok Hy].
    apply andb_true_iff in Hok. destruct Hok as [Hd Hm].
    set (kind := if c then ["c"; "r"; "e"; "a"; "t"; "e"; "d"] else ["u"; "p"; "d"; "a"; "t"; "e"; "d"]).
    assert (E : (["D"; "T"; " "; " "] ++ d ++ ["."] ++ m ++ ["."] ++ y ++ [" "; "("] ++ kind ++
                 [")"; ";"; " "] ++ au ++ ["."] ++ eol_of crlf) ++ T
              = "D" :: "T" :: ([" "; " "] ++ d ++ ["."] ++ m ++ ["."] ++ y ++ [" "; "("] ++ kind ++
                [")"; ";"; " "] ++ au ++ ["."]) ++ eol_of crlf ++ T).
    { rewrite <- !app_assoc. reflexivity. }
    rewrite E.
    assert (Kp : forallb plain kind = true) by (subst kind; destruct c; reflexivity).
    destruct (plain_text kind Kp) as [K1 K2].
    assert (Dp : forall mx z, num_ok mx z = true -> no_nl z = true /\ utf8_valid z = true).
    { intros mx z Hz. apply plain_text. unfold num_ok, uint in Hz.
      destruct (uint_loop mx z 0%N true) as [v r| | | |] eqn:Ez; try discriminate. destruct r; [|discriminate].
      apply (forallb_impl is_digit plain z digit_plain). exact (uint_loop_digits _ _ _ _ _ Ez). }
    destruct (Dp _ _ Hd) as [D1 D2]. destruct (Dp _ _ Hm) as [M1 M2]. destruct (Dp _ _ Hy) as [Y1 Y2].
    apply good_tagged; try reflexivity; try exact HT.
    + rewrite !no_nl_app, D1, M1, Y1, K1, Hn. reflexivity.
    + repeat (apply utf8_valid_app; [first [reflexivity|assumption]|]). reflexivity.
  - destruct (item_ok_matrix al po syms rows Hok) as (sep & c & cs & idx & r0 & rows' & -> & Ei & -> & Hseps & _ & Hrows).
    fold (sym_text ((sep, c) :: cs)). rewrite <- !app_assoc.
    change (["P"; if po then "O" else "0"] ++ sym_text ((sep, c) :: cs) ++ eol_of crlf ++
            flat_map (print_row (eol_of crlf)) (r0 :: rows') ++ T)
      with (("P" :: (if po then "O" else "0") :: sym_text ((sep, c) :: cs)) ++ eol_of crlf ++
            flat_map (print_row (eol_of crlf)) (r0 :: rows') ++ T).
    assert (P : forallb plain ("P" :: (if po then "O" else "0") :: sym_text ((sep, c) :: cs)) = true).
    { cbn [forallb]. rewrite (sym_text_plain' al _ idx Hseps Ei). destruct po; reflexivity. }
    destruct (plain_text _ P) as [P1 P2]. apply good_line; [reflexivity|exact P1|exact P2|].
    apply (good_rows crlf (length ((sep, c) :: cs))); assumption.
Qed.

Lemma good_body al crlf (p : prec) : prec_ok al p = true -> good_lines (print_body (eol_of crlf) p).
Proof.
  unfold prec_ok. intros H. apply andb_true_iff in H. destruct H as [H _]. revert H.
  induction p as [|it p IH]; intros H; [apply gl_nil|].
  cbn [forallb] in H. apply andb_true_iff in H. destruct H as [H1 H2].
  unfold print_body. cbn [flat_map]. apply (good_item al); [exact H1|apply IH; exact H2].
Qed.

(* ---- reading lines ---- *)

Lemma split_nl_good x T : no_nl x = true -> split_nl (x ++ x0a :: T) = Some (x ++ [x0a], T).
Proof.
  intros H. induction x as [|b t IH]; [reflexivity|]. simpl in *.
  apply andb_true_iff in H. destruct H as [H1 H2]. apply negb_true_iff in H1.
  rewrite H1, (IH H2). reflexivity.
Qed.

Lemma split_nl_none x : no_nl x = true -> split_nl x = None.
Proof.
  intros H. induction x as [|b t IH]; [reflexivity|]. simpl in *.
  apply andb_true_iff in H. destruct H as [H1 H2]. apply negb_true_iff in H1.
  rewrite H1, (IH H2). reflexivity.
Qed.

Lemma read_line_eq s buf r b s' :
  read_line s buf = (r, b, s') -> read_line_flat (concat s) buf = (r, b, concat s').
Proof.
  intros H. destruct (read_line_spec s buf) as (A1 & A2 & A3). rewrite H in *. cbn [fst snd] in *.
  destruct (read_line_flat (concat s) buf) as [[r' b'] c']. cbn [fst snd] in *. subst. reflexivity.
Qed.

(* reading one complete, valid line *)
Lemma read_line_good s buf x T :
  concat s = x ++ x0a :: T -> no_nl x = true -> utf8_valid (x ++ [x0a]) = true ->
  exists s', read_line s buf = (RlOk (length (x ++ [x0a])), buf ++ x ++ [x0a], s') /\ concat s' = T.
Proof.
  intros E Hn Hu. destruct (read_line s buf) as [[r b] s'] eqn:R.
  apply read_line_eq in R. rewrite E in R. unfold read_line_flat, first_line in R.
  rewrite (split_nl_good x T Hn), Hu in R. inversion R; subst. exists s'. auto.
Qed.

(* reading a last line without line feed *)
Lemma read_line_last s buf x :
  concat s = x -> no_nl x = true -> utf8_valid x = true ->
  exists s', read_line s buf = (RlOk (length x), buf ++ x, s') /\ concat s' = [].
Proof.
  intros E Hn Hu. destruct (read_line s buf) as [[r b] s'] eqn:R.
  apply read_line_eq in R. rewrite E in R. unfold read_line_flat, first_line in R.
  rewrite (split_nl_none x Hn), Hu in R. inversion R; subst. exists s'. auto.
Qed.

Lemma read_line_eof s buf : concat s = [] -> exists s', read_line s buf = (RlOk 0, buf, s') /\ concat s' = [].
Proof.
  intros E. destruct (read_line_last s buf [] E eq_refl eq_refl) as (s' & H1 & H2).
  rewrite app_nil_r in H1. exists s'. auto.
Qed.

Lemma count_nl_app a b : count_nl (a ++ b) = count_nl a + count_nl b.
Proof. unfold count_nl. rewrite filter_app, app_length. reflexivity. Qed.

Lemma count_nl_line x T : count_nl (x ++ x0a :: T) = count_nl x + S (count_nl T).
Proof. rewrite count_nl_app. reflexivity. Qed.

(* the terminator line: "//" + eol followed by anything, or "//" at the very end *)
Definition fin_ok (crlf : bool) (term rest : str) : Prop :=
  term = eol_of crlf \/ (term = [] /\ rest = []).

Lemma read_fin s buf crlf term rest :
  concat s = ("/" :: "/" :: term) ++ rest -> fin_ok crlf term rest ->
  exists n s', read_line s buf = (RlOk (S n), buf ++ "/" :: "/" :: term, s') /\
               S n = length ("/" :: "/" :: term) /\ concat s' = rest.
Proof.
  intros E [->|[-> ->]].
  - destruct crlf; cbn [eol_of] in *.
    + destruct (read_line_good s buf ["/"; "/"; x0d] rest E eq_refl eq_refl) as (s' & H1 & H2).
      exists 3, s'. auto.
    + destruct (read_line_good s buf ["/"; "/"] rest E eq_refl eq_refl) as (s' & H1 & H2).
      exists 2, s'. auto.
  - rewrite app_nil_r in E. destruct (read_line_last s buf ["/"; "/"] E eq_refl eq_refl) as (s' & H1 & H2).
    exists 1, s'. auto.
Qed.

Lemma good_line_head x : utf8_valid (x ++ [x0a]) = true ->
  match x ++ [x0a] with [] => True | b :: _ => is_cont b = false end.
Proof. apply valid_line_head. Qed.

Section Loops.
  Variable crlf : bool.

  (* Iterator::next's loop over the lines of one printed record *)
  Lemma next_loop_good : forall T, good_lines T -> forall fuel buf s term rest,
    concat s = T ++ ("/" :: "/" :: term) ++ rest -> fin_ok crlf term rest ->
    count_nl (concat s) < fuel ->
    exists s', next_loop fuel buf (length buf) s =
                 Ok (buf ++ T ++ "/" :: "/" :: term, length (buf ++ T ++ "/" :: "/" :: term), false, s') /\
               concat s' = rest.
  Proof.
    induction 1 as [|x T H1 H2 H3 HT IH]; intros fuel buf s term rest E F L.
    - destruct fuel; [lia|]. cbn [app] in *. cbn [next_loop].
      destruct (read_fin s buf crlf term rest E F) as (n & s' & R & Hn & S').
      rewrite R. rewrite (str_from_app buf ("/" :: "/" :: term) eq_refl). cbn [rbind].
      change (starts_with slashes ("/" :: "/" :: term)) with true. cbn iota.
      exists s'. split; [|exact S']. reflexivity.
    - destruct fuel; [lia|]. cbn [next_loop]. rewrite <- app_assoc in E. cbn [app] in E.
      destruct (read_line_good s buf x _ E H1 H2) as (s' & R & S').
      rewrite R. destruct (length (x ++ [x0a])) as [|n] eqn:Len; [rewrite app_length in Len; simpl in Len; lia|].
      rewrite (str_from_app buf (x ++ [x0a]) (good_line_head x H2)). cbn [rbind].
      rewrite H3.
      destruct (IH fuel (buf ++ x ++ [x0a]) s' term rest S' F) as (s'' & K & S'').
      { rewrite E, count_nl_line in L. rewrite S'. lia. }
      exists s''. split; [|exact S''].
      rewrite K.
      rewrite <- !app_assoc. cbn [app]. reflexivity.
  Qed.

  (* Reader::new's loop: the same, but `last` stays at the terminator line *)
  Lemma new_loop_good : forall T, good_lines T -> forall fuel buf s term rest,
    concat s = T ++ ("/" :: "/" :: term) ++ rest -> fin_ok crlf term rest ->
    count_nl (concat s) < fuel ->
    exists s', new_loop fuel buf (length buf) s =
                 Ok (buf ++ T ++ "/" :: "/" :: term, length (buf ++ T), None, s') /\
               concat s' = rest.
  Proof.
    induction 1 as [|x T H1 H2 H3 HT IH]; intros fuel buf s term rest E F L.
    - destruct fuel; [lia|]. cbn [app] in *. cbn [new_loop].
      destruct (read_fin s buf crlf term rest E F) as (n & s' & R & Hn & S').
      rewrite R. rewrite (str_from_app buf ("/" :: "/" :: term) eq_refl). cbn [rbind].
      change (starts_with slashes ("/" :: "/" :: term)) with true. cbn iota.
      exists s'. split; [|exact S']. rewrite app_nil_r. reflexivity.
    - destruct fuel; [lia|]. cbn [new_loop]. rewrite <- app_assoc in E. cbn [app] in E.
      destruct (read_line_good s buf x _ E H1 H2) as (s' & R & S').
      rewrite R. destruct (length (x ++ [x0a])) as [|n] eqn:Len; [rewrite app_length in Len; simpl in Len; lia|].
      rewrite (str_from_app buf (x ++ [x0a]) (good_line_head x H2)). cbn [rbind].
      rewrite H3.
      destruct (IH fuel (buf ++ x ++ [x0a]) s' term rest S' F) as (s'' & K & S'').
      { rewrite E, count_nl_line in L. rewrite S'. lia. }
      exists s''. split; [|exact S''].
      rewrite K.
      rewrite <- !app_assoc. cbn [app]. reflexivity.
  Qed.
End Loops.

(* ---- records ---- *)

Lemma print_record_split eol term r : print_record eol term r = print_body eol r ++ "/" :: "/" :: term.
Proof. reflexivity. Qed.

Lemma print_records_cons eol fnl r t : exists term,
  print_records eol fnl (r :: t) = print_record eol term r ++ print_records eol fnl t /\
  (term = eol \/ (term = [] /\ print_records eol fnl t = [])).
Proof.
  destruct t as [|r' t'].
  - destruct fnl; [exists eol|exists []]; (split; [simpl; rewrite app_nil_r; reflexivity|auto]).
  - exists eol. split; [reflexivity|auto].
Qed.

Lemma count_nl_eol crlf : count_nl (eol_of crlf) = 1.
Proof. destruct crlf; reflexivity. Qed.

Lemma records_newlines crlf fnl rs : length rs <= count_nl (print_records (eol_of crlf) fnl rs) + 1.
Proof.
  induction rs as [|r t IH]; [simpl; lia|].
  destruct t as [|r' t']; [simpl; lia|].
  change (print_records (eol_of crlf) fnl (r :: r' :: t'))
    with (print_record (eol_of crlf) (eol_of crlf) r ++ print_records (eol_of crlf) fnl (r' :: t')).
  rewrite print_record_split, !count_nl_app.
  change ("/" :: "/" :: eol_of crlf) with (["/"; "/"] ++ eol_of crlf). rewrite count_nl_app, count_nl_eol.
  cbn [length] in *. lia.
Qed.

Section Records.
  Variable al : alpha.
  Variable crlf : bool.
  Variable fnl : bool.
  Let eol := eol_of crlf.
  Let parse := parse_record_fixed al.

  Definition expected (rs : list prec) : list outcome := map (fun r => ORec (expected_record al r)) rs.

  Lemma nonempty_match {A} (b : str) (x y : A) : b <> [] -> match b with [] => x | _ :: _ => y end = y.
  Proof. destruct b; [congruence|reflexivity]. Qed.

  Lemma record_text_nonempty term r : print_body eol r ++ "/" :: "/" :: term <> [].
  Proof. intros H. apply app_eq_nil in H. destruct H as [_ H]. discriminate. Qed.

  (* the part of `next` after the loop, on the text of one printed record *)
  Lemma finish_record ver s' term r l :
    prec_ok al r = true -> term = eol \/ term = [] ->
    (let buf := print_body eol r ++ "/" :: "/" :: term in
     let st' := mkSt buf l None ver s' in
     if false then Ok (OErr EIo, st')
     else match buf with
          | [] => Ok (OEnd, st')
          | _ => match parse buf with
                 | POk r0 _ => Ok (ORec r0, mkSt [] 0 None ver s')
                 | bad => e <- error_from bad ;; Ok (OErr e, st')
                 end
          end) = Ok (ORec (expected_record al r), mkSt [] 0 None ver s').
  Proof.
    intros Hr Ht. cbv zeta. cbn iota.
    destruct (print_body eol r ++ "/" :: "/" :: term) as [|b0 bt] eqn:Eb;
      [exfalso; exact (record_text_nonempty term r Eb)|].
    rewrite <- Eb. rewrite <- print_record_split. unfold parse, eol.
    rewrite (parse_record_fixed_printed al crlf r term Hr Ht). reflexivity.
  Qed.

  Lemma fin_ok_term term rest : fin_ok crlf term rest -> term = eol \/ term = [].
  Proof. intros [H|[H _]]; auto. Qed.

  (* `next` from an empty buffer reads exactly one printed record *)
  Lemma next_record fuel ver s r term rest :
    prec_ok al r = true -> concat s = print_record eol term r ++ rest -> fin_ok crlf term rest ->
    count_nl (concat s) < fuel ->
    exists s', reader_next parse fuel (mkSt [] 0 None ver s) =
                 Ok (ORec (expected_record al r), mkSt [] 0 None ver s') /\ concat s' = rest.
  Proof.
    intros Hr E F L. rewrite print_record_split, <- app_assoc in E.
    destruct (next_loop_good crlf _ (good_body al crlf r Hr) fuel [] s term rest E F L) as (s' & K & S').
    exists s'. split; [|exact S'].
    unfold reader_next. cbn [st_err st_buf st_last st_src st_version].
    change (str_from [] 0) with (@Ok str []). cbn [rbind]. change (starts_with slashes []) with false. cbn iota.
    change (length (@nil byte)) with 0 in K. rewrite K. cbn [rbind app].
    apply (finish_record ver s' term r _ Hr (fin_ok_term _ _ F)).
  Qed.

  (* `next` on the buffer filled by `new` (no VV header) *)
  Lemma next_preloaded fuel ver s r term :
    prec_ok al r = true -> term = eol \/ term = [] ->
    reader_next parse fuel (mkSt (print_body eol r ++ "/" :: "/" :: term) (length (print_body eol r)) None ver s) =
    Ok (ORec (expected_record al r), mkSt [] 0 None ver s).
  Proof.
    intros Hr Ht. unfold reader_next. cbn [st_err st_buf st_last st_src st_version].
    rewrite (str_from_app (print_body eol r) ("/" :: "/" :: term) eq_refl). cbn [rbind].
    change (starts_with slashes ("/" :: "/" :: term)) with true. cbn iota. cbn [rbind].
    apply (finish_record ver s term r _ Hr Ht).
  Qed.

  Lemma next_eof fuel ver s : concat s = [] -> 0 < fuel ->
    exists s', reader_next parse fuel (mkSt [] 0 None ver s) = Ok (OEnd, mkSt [] 0 None ver s').
  Proof.
    intros E L. destruct fuel; [lia|]. destruct (read_line_eof s [] E) as (s' & R & _).
    exists s'. unfold reader_next. cbn [st_err st_buf st_last st_src st_version].
    change (str_from [] 0) with (@Ok str []). cbn [rbind]. change (starts_with slashes []) with false. cbn iota.
    cbn [next_loop]. rewrite R. reflexivity.
  Qed.

  Lemma consume_records : forall rs fuel cfuel ver s,
    forallb (prec_ok al) rs = true -> concat s = print_records eol fnl rs ->
    count_nl (concat s) < fuel -> length rs < cfuel ->
    consume parse fuel cfuel (mkSt [] 0 None ver s) = Ok (expected rs ++ [OEnd]).
  Proof.
    induction rs as [|r t IH]; intros fuel cfuel ver s Hrs E L C.
    - destruct cfuel; [lia|]. cbn [consume]. destruct (next_eof fuel ver s E) as (s' & K); [lia|].
      rewrite K. reflexivity.
    - destruct cfuel; [lia|]. cbn [consume].
      simpl in Hrs. apply andb_true_iff in Hrs. destruct Hrs as [Hr Ht].
      destruct (print_records_cons eol fnl r t) as (term & Ep & F).
      rewrite Ep in E.
      destruct (next_record fuel ver s r term _ Hr E F L) as (s' & K & S').
      rewrite K. cbn [rbind].
      rewrite (IH fuel cfuel ver s' Ht S').
      + reflexivity.
      + rewrite S'. rewrite E, count_nl_app in L. lia.
      + cbn [length] in C. lia.
  Qed.
End Records.

(* ---- the whole file ---- *)

Lemma starts_vv_body eol (p : prec) tl : starts_with ["V"; "V"] (print_body eol p ++ "/" :: "/" :: tl) = false.
Proof.
  destruct p as [|it p]; [reflexivity|]. unfold print_body. cbn [flat_map]. rewrite <- app_assoc.
  destruct it as [num xref lines|k pad v|k v| |t ts|d m y c au|po syms rows];
    cbn [print_item app xx_line flat_map]; try (destruct k); reflexivity.
Qed.

Lemma vv_ok_parts v : vv_ok (Some v) = true -> no_nl v = true /\ utf8_valid v = true.
Proof. unfold vv_ok. intros H. apply andb_true_iff in H. exact H. Qed.

Theorem reader_roundtrip_lemma al vv crlf fnl rs s :
  wf_file al vv rs = true -> concat s = print_file vv crlf fnl rs ->
  run_reader (parse_record_fixed al) s = Ok (expected al rs ++ [OEnd]).
Proof.
  unfold wf_file. intros H E. apply andb_true_iff in H. destruct H as [Hv Hrs].
  unfold run_reader.
  assert (F : stream_fuel s = 3 + count_nl (concat s)) by (unfold stream_fuel; apply stream_fuel_count).
  pose proof (records_newlines crlf fnl rs) as N.
  unfold print_file in E. destruct vv as [v|]; cbn [print_header] in E.
  - (* version header *)
    destruct (vv_ok_parts v Hv) as (V1 & V2).
    set (hd := "V" :: "V" :: " " :: " " :: v).
    assert (GL : good_lines (hd ++ eol_of crlf ++ xx_line (eol_of crlf))).
    { apply good_line; [reflexivity| | |].
      - subst hd. change ("V" :: "V" :: " " :: " " :: v) with (["V"; "V"; " "; " "] ++ v).
        rewrite no_nl_app, V1. reflexivity.
      - subst hd. change ("V" :: "V" :: " " :: " " :: v) with (["V"; "V"; " "; " "] ++ v).
        apply utf8_valid_app; [reflexivity|exact V2].
      - rewrite <- (app_nil_r (xx_line _)). apply good_xx, gl_nil. }
    assert (E' : concat s = (hd ++ eol_of crlf ++ xx_line (eol_of crlf)) ++
                            ("/" :: "/" :: eol_of crlf) ++ print_records (eol_of crlf) fnl rs).
    { rewrite E. subst hd. rewrite <- !app_assoc. reflexivity. }
    destruct (new_loop_good crlf _ GL (stream_fuel s) [] s (eol_of crlf) _ E' (or_introl eq_refl)) as (s' & K & S'); [lia|].
    unfold reader_new. change (length (@nil byte)) with 0 in K. rewrite K. cbn [rbind app].
    change (starts_with ["V"; "V"] (hd ++ _)) with true. cbn iota.
    assert (PV : exists line rest, parse_version ((hd ++ eol_of crlf ++ xx_line (eol_of crlf)) ++ "/" :: "/" :: eol_of crlf)
                                   = POk line rest).
    { unfold parse_version. subst hd. rewrite <- !app_assoc. cbn [app]. rewrite tagged_line.
      change (" " :: " " :: v ++ eol_of crlf ++ xx_line (eol_of crlf) ++ "/" :: "/" :: eol_of crlf)
        with ((" " :: " " :: v) ++ eol_of crlf ++ xx_line (eol_of crlf) ++ "/" :: "/" :: eol_of crlf).
      rewrite parse_line_eol; [eauto|]. exact V1. }
    destruct PV as (line & rest & PV). rewrite PV. cbn [rbind].
    apply (consume_records al crlf fnl rs _ _ _ s' Hrs S').
    + rewrite S'. rewrite E', !count_nl_app in F. lia.
    + rewrite E', !count_nl_app in F. lia.
  - (* no header *)
    cbn [app] in E. destruct rs as [|r t].
    + cbn [print_records] in E. destruct (read_line_eof s [] E) as (s' & R & S').
      unfold reader_new. rewrite F. cbn [Nat.add new_loop]. rewrite R. cbn [rbind].
      change (starts_with ["V"; "V"] []) with false. cbn iota.
      apply (consume_records al crlf fnl [] _ _ None s' eq_refl S'); [rewrite S'; change (count_nl []) with 0; lia|cbn [length]; lia].
    + simpl in Hrs. apply andb_true_iff in Hrs. destruct Hrs as [Hr Ht].
      destruct (print_records_cons (eol_of crlf) fnl r t) as (term & Ep & Fin).
      rewrite Ep, print_record_split, <- app_assoc in E.
      destruct (new_loop_good crlf _ (good_body al crlf r Hr) (stream_fuel s) [] s term _ E Fin) as (s' & K & S'); [lia|].
      unfold reader_new. change (length (@nil byte)) with 0 in K. rewrite K. cbn [rbind app].
      rewrite starts_vv_body.
      assert (Ht' : term = eol_of crlf \/ term = []) by (destruct Fin as [?|[? _]]; auto).
      cbn [rbind].
      assert (HC : forall cf, cf = stream_fuel s ->
                consume (parse_record_fixed al) (stream_fuel s) cf
                  (mkSt (print_body (eol_of crlf) r ++ "/" :: "/" :: term)
                        (length (print_body (eol_of crlf) r)) None None s') =
                Ok (expected al (r :: t) ++ [OEnd])); [|apply HC; reflexivity].
      intros cf Hcf. rewrite F in Hcf. subst cf.
      change (3 + count_nl (concat s)) with (S (2 + count_nl (concat s))). cbn [consume].
      rewrite (next_preloaded al crlf (stream_fuel s) None s' r term Hr Ht'). cbn [rbind].
      rewrite (consume_records al crlf fnl t (stream_fuel s) _ None s' Ht S').
      * reflexivity.
      * rewrite S'. rewrite E, !count_nl_app in F. lia.
      * rewrite Ep, count_nl_app in N. rewrite E, !count_nl_app in *. rewrite print_record_split, count_nl_app in N.
        cbn [length] in N. lia.
Qed.
