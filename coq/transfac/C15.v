(* C15 (TRANSFAC part) -- the reader never panics or hangs on malformed input.

   Model: TransfacReader.run_reader = `Reader::new` followed by a consumer calling `next`
   until the first error or the end of input, over a stream that delivers the bytes in
   arbitrary chunks (Stream.v), with the record parser of parse.rs (TransfacParse.v).
   `Panic n` marks the three places where the Rust code can panic (slice `[last..]` out of
   bounds / inside a character, `unreachable!()` on nom's Incomplete); `OutOfFuel` marks a
   loop of the code that would not end.  Only theorem statements here; proofs are in
   NomProofs / ParseProofs / ReaderProofs / CheckProofs. *)
From Coq Require Import List Bool Arith.
From Coq Require Import Init.Byte.
From LMBase Require Import Res.
From LMTransfac Require Import Bytes Stream Nom TransfacParse TransfacReader Checkers.
From LMTransfac Require Import StreamProofs NomProofs ParseProofs ReaderProofs CheckProofs.
Import ListNotations.

(* The record parser answers Ok / Error / Failure on every input: nom's Incomplete (which
   error.rs turns into `unreachable!()`) is never produced and none of its loops (many1,
   separated_list1, the RX/RA/RL/RT loop, the loop over the tagged lines) runs for ever. *)
Theorem parser_total : forall (al : alpha) (input : str),
  parse_record_fixed al input <> PIncomplete /\ parse_record_fixed al input <> PFuel.
Proof. exact parse_record_fixed_total. Qed.

(* Every byte string, every chunking: `Reader::new` and every `next` return a record, an
   error or the end of input -- never Panic, never OutOfFuel -- and the consumer stops:
   the outcome list is finite, records followed by exactly one error or End. *)
Theorem reader_total : forall (al : alpha) (s : stream),
  exists l, run_reader (parse_record_fixed al) s = Ok l /\
            exists rs o, l = map ORec rs ++ [o] /\ (o = OEnd \/ exists e, o = OErr e).
Proof.
  intros al s.
  destruct (run_reader_total (parse_record_fixed al) (parse_record_fixed_total al) s)
    as (l & H & rs & o & -> & Ho).
  exists (map ORec rs ++ [o]). split; [exact H|]. exists rs, o. split; [reflexivity|].
  destruct o; simpl in Ho; [discriminate|right; eauto|left; reflexivity].
Qed.

(* The same for any record parser that is total: the reader's own code (offsets, loops)
   contributes no panic and no hang. *)
Theorem reader_total_generic : forall (parse : parser record),
  (forall i, parse i <> PIncomplete /\ parse i <> PFuel) ->
  forall s : stream, exists l, run_reader parse s = Ok l /\ shape l.
Proof. exact run_reader_total. Qed.

(* One step: from a state satisfying the reader's invariant (`last` = length of the buffer
   or the offset of a line starting with "//" -- established by `new`, kept by `next`),
   `next` returns, keeps the invariant, and a returned record strictly decreases the
   consumer's measure (lines left in the stream + 1 if the buffer is not empty). *)
Theorem reader_next_total : forall (al : alpha) (fuel : nat) (st : rstate),
  st_inv st -> nlines (concat (st_src st)) < fuel ->
  exists o st', reader_next (parse_record_fixed al) fuel st = Ok (o, st') /\ st_inv st' /\
                nlines (concat (st_src st')) <= nlines (concat (st_src st)) /\
                (is_rec o = true -> measure st' < measure st).
Proof. intros al. apply reader_next_ok. exact (parse_record_fixed_total al). Qed.

Theorem reader_new_total : forall (s : stream),
  exists st, reader_new (stream_fuel s) s = Ok st /\ st_inv st.
Proof.
  intros s. destruct (reader_new_ok (stream_fuel s) s) as (st & H1 & H2 & _).
  - pose proof (stream_fuel_ge s). apply Nat.lt_le_trans with (nlines (concat s) + 2); [|assumption].
    rewrite Nat.add_comm. apply Nat.lt_succ_r, Nat.le_succ_diag_r.
  - exists st. auto.
Qed.

(* The extracted checker used by the driver on the implementation's observations is sound
   and complete for "records, then one error or End; no panic, no hang" ... *)
Theorem check_c15_sound : forall o : list obs,
  check_c15 o = true -> holds_c15 o /\ ~ In BPanic o /\ ~ In BHang o.
Proof. intros o H. apply CheckProofs.check_c15_sound in H. split; [exact H|apply holds_c15_no_panic, H]. Qed.

(* ... and the model passes it on every input: the property theorem in executable form. *)
Theorem model_passes_c15 : forall (al : alpha) (s : stream),
  check_c15 (observe_run (run_reader (parse_record_fixed al) s)) = true.
Proof.
  intros al s.
  destruct (run_reader_total (parse_record_fixed al) (parse_record_fixed_total al) s) as (l & H & Hs).
  rewrite H. simpl. apply check_c15_complete, shape_holds_c15, Hs.
Qed.

(* F18 (repaired in /repo by fe3ced2): with nom's *streaming* space1 in parse_alphabet, as
   the code had it, the property is false -- the input "P0  " reaches `unreachable!()`. *)
Theorem reader_total_streaming_refuted :
  exists s : stream, run_reader (parse_record_streaming Dna) s = Panic 3.
Proof. exists [["P"; "0"; " "; " "]%byte]. vm_compute. reflexivity. Qed.

(* the same input with the repaired parser: a parse error *)
Example f18_fixed :
  run_reader (parse_record_fixed Dna) [["P"; "0"; " "; " "]%byte] = Ok [OErr ENom].
Proof. vm_compute. reflexivity. Qed.

Check parser_total : forall al input,
  parse_record_fixed al input <> PIncomplete /\ parse_record_fixed al input <> PFuel.
Check reader_total : forall al s,
  exists l, run_reader (parse_record_fixed al) s = Ok l /\
            exists rs o, l = map ORec rs ++ [o] /\ (o = OEnd \/ exists e, o = OErr e).
Check model_passes_c15 : forall al s,
  check_c15 (observe_run (run_reader (parse_record_fixed al) s)) = true.

(* ---- non-vacuity: the model really reads records, reports errors and the end ---- *)
Local Open Scope byte_scope.

Definition ex_file : str :=
  ["I";"D";" ";"x";x0a; "P";"0";" ";"A";" ";"C";x0a; "0";"1";" ";"1";" ";"2";x0a; "/";"/";x0a;
   "I";"D";" ";"y";x0a; "/";"/"].

Example ex_two_records :
  exists r1 r2, run_reader (parse_record_fixed Dna) [ex_file] = Ok [ORec r1; ORec r2; OEnd] /\
                r_id r1 = Some ["x"] /\ r_id r2 = Some ["y"] /\
                r_data r1 = Some [[CTok ["1"]; CTok ["2"]; CZero; CZero; CZero]].
Proof. eexists _, _. vm_compute. repeat split. Qed.

(* invalid UTF-8 gives an I/O error, a ragged count row a parse error *)
Example ex_invalid_utf8 :
  run_reader (parse_record_fixed Dna) [["I";"D";" ";xff;x0a;"/";"/";x0a]] = Ok [OErr EIo].
Proof. vm_compute. reflexivity. Qed.

Example ex_ragged :
  run_reader (parse_record_fixed Dna)
    [["P";"0";" ";"A";" ";"C";x0a; "0";"1";" ";"1";x0a; "/";"/";x0a]] = Ok [OErr ENom].
Proof. vm_compute. reflexivity. Qed.

(* the invariant with `last` inside the buffer occurs: after `new` on a file without VV *)
Example ex_inv_offset :
  exists st, reader_new 10 [ex_file] = Ok st /\ st_last st = 19 /\ length (st_buf st) = 22.
Proof. eexists. vm_compute. repeat split. Qed.
