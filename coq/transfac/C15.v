From Coq Require Import List.
Theorem placeholder_c15 : True. Proof. exact I. Qed.
