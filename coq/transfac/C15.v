(* C15 (TRANSFAC part) -- the reader never panics or hangs on malformed input.

   Model: TransfacReader.run_reader = `Reader::new` followed by a consumer calling `next`
   until the first error or the end of input, over a stream that delivers the bytes in
   arbitrary chunks (Stream.v), with the record parser of parse.rs (TransfacParse.v).
   `Panic n` marks the three places where the Rust code can panic (slice `[last..]` out of
   bounds / inside a character, `unreachable!()` on nom's Incomplete); `OutOfFuel` marks a
   loop of the code that would not end.  Only theorem statements here; proofs are in
   NomProofs / ParseProofs / ReaderProofs / CheckProofs. *)
From Coq Require Import List Bool Arith.
From Coq Require Import Init.Byte.
From LMBase Require Import Res.
From LMTransfac Require Import Bytes Stream Nom TransfacParse TransfacReader Checkers TransfacPoll TransfacFault GenReader TransfacCur.
From LMTransfac Require Import StreamProofs NomProofs ParseProofs ReaderProofs CheckProofs PollProofs FaultProofs FaultTotal.
Import ListNotations.

(* The record parser answers Ok / Error / Failure on every input: nom's Incomplete (which
   error.rs turns into `unreachable!()`) is never produced and none of its loops (many1,
   separated_list1, the RX/RA/RL/RT loop, the loop over the tagged lines) runs for ever. *)
Theorem parser_total : forall (al : alpha) (input : str),
  parse_record_fixed al input <> PIncomplete /\ parse_record_fixed al input <> PFuel.
Proof. exact parse_record_fixed_total. Qed.

(* Every byte string, every chunking: `Reader::new` and every `next` return a record, an
   error or the end of input -- never Panic, never OutOfFuel -- and the consumer stops:
   the outcome list is finite, records followed by exactly one error or End. *)
Theorem reader_total : forall (al : alpha) (s : stream),
  exists l, run_reader (parse_record_fixed al) s = Ok l /\
            exists rs o, l = map ORec rs ++ [o] /\ (o = OEnd \/ exists e, o = OErr e).
Proof.
  intros al s.
  destruct (run_reader_total (parse_record_fixed al) (parse_record_fixed_total al) s)
    as (l & H & rs & o & -> & Ho).
  exists (map ORec rs ++ [o]). split; [exact H|]. exists rs, o. split; [reflexivity|].
  destruct o; simpl in Ho; [discriminate|right; eauto|left; reflexivity].
Qed.

(* The same for any record parser that is total: the reader's own code (offsets, loops)
   contributes no panic and no hang. *)
Theorem reader_total_generic : forall (parse : parser record),
  (forall i, parse i <> PIncomplete /\ parse i <> PFuel) ->
  forall s : stream, exists l, run_reader parse s = Ok l /\ shape l.
Proof. exact run_reader_total. Qed.

(* One step: from a state satisfying the reader's invariant (`last` = length of the buffer
   or the offset of a line starting with "//" -- established by `new`, kept by `next`),
   `next` returns, keeps the invariant, and a returned record strictly decreases the
   consumer's measure (lines left in the stream + 1 if the buffer is not empty). *)
Theorem reader_next_total : forall (al : alpha) (fuel : nat) (st : rstate),
  st_inv st -> nlines (concat (st_src st)) < fuel ->
  exists o st', reader_next (parse_record_fixed al) fuel st = Ok (o, st') /\ st_inv st' /\
                nlines (concat (st_src st')) <= nlines (concat (st_src st)) /\
                (is_rec o = true -> measure st' < measure st).
Proof. intros al. apply reader_next_ok. exact (parse_record_fixed_total al). Qed.

Theorem reader_new_total : forall (s : stream),
  exists st, reader_new (stream_fuel s) s = Ok st /\ st_inv st.
Proof.
  intros s. destruct (reader_new_ok (stream_fuel s) s) as (st & H1 & H2 & _).
  - pose proof (stream_fuel_ge s). apply Nat.lt_le_trans with (nlines (concat s) + 2); [|assumption].
    rewrite Nat.add_comm. apply Nat.lt_succ_r, Nat.le_succ_diag_r.
  - exists st. auto.
Qed.

(* The extracted checker used by the driver on the implementation's observations is sound
   and complete for "records, then one error or End; no panic, no hang" ... *)
Theorem check_c15_sound : forall o : list obs,
  check_c15 o = true -> holds_c15 o /\ ~ In BPanic o /\ ~ In BHang o.
Proof. intros o H. apply CheckProofs.check_c15_sound in H. split; [exact H|apply holds_c15_no_panic, H]. Qed.

(* ... and the model passes it on every input: the property theorem in executable form. *)
Theorem model_passes_c15 : forall (al : alpha) (s : stream),
  check_c15 (observe_run (run_reader (parse_record_fixed al) s)) = true.
Proof.
  intros al s.
  destruct (run_reader_total (parse_record_fixed al) (parse_record_fixed_total al) s) as (l & H & Hs).
  rewrite H. simpl. apply check_c15_complete, shape_holds_c15, Hs.
Qed.

(* F18 (repaired in /repo by fe3ced2): with nom's *streaming* space1 in parse_alphabet, as
   the code had it, the property is false -- the input "P0  " reaches `unreachable!()`. *)
Theorem reader_total_streaming_refuted :
  exists s : stream, run_reader (parse_record_streaming Dna) s = Panic 3.
Proof. exists [["P"; "0"; " "; " "]%byte]. vm_compute. reflexivity. Qed.

(* the same input with the repaired parser: a parse error *)
Example f18_fixed :
  run_reader (parse_record_fixed Dna) [["P"; "0"; " "; " "]%byte] = Ok [OErr ENom].
Proof. vm_compute. reflexivity. Qed.

(* ---- round 3: EACH request returns, also the requests made after an error / the end of input ---- *)

(* Reader::new followed by ANY number k of calls of `next`, whatever they return: every call
   returns (the run is Ok: no Panic, no OutOfFuel) and there are exactly k outcomes.  The
   state the code keeps after each kind of error (buffer and `last` unchanged after an
   invalid-UTF-8 line, whose bytes are consumed; buffer kept after a parse error) satisfies
   the reader's invariant again.  A change that clears the buffer on an error but leaves
   `last` (seeded/C15/5) violates this: its second request slices `buffer[last..]` out of bounds. *)
Theorem reader_polls_total : forall (al : alpha) (s : stream) (k : nat),
  exists l, run_polls (parse_record_fixed al) k s = Ok l /\ length l = k.
Proof. intros al s k. apply run_polls_total. exact (parse_record_fixed_total al). Qed.

(* The consumer of the harness: records up to the first error / end of input, then `post` more
   requests: records, one outcome that is not a record, then exactly `post` outcomes. *)
Theorem reader_total_post : forall (al : alpha) (s : stream) (post : nat),
  exists l, run_reader_post (parse_record_fixed al) post s = Ok l /\
            exists rs o tail, l = map ORec rs ++ o :: tail /\ is_rec o = false /\ length tail = post.
Proof. intros al s post. apply run_reader_post_total. exact (parse_record_fixed_total al). Qed.

(* one step, from a state that satisfies the invariant, for EVERY outcome (reader_next_total
   above already says that the invariant is kept after an error as well; this is the form used
   for sequences of polls) *)
Theorem reader_poll_total : forall (al : alpha) (fuel k : nat) (st : rstate),
  st_inv st -> nlines (concat (st_src st)) < fuel ->
  exists l, poll (parse_record_fixed al) fuel k st = Ok l /\ length l = k.
Proof. intros al fuel k st. apply poll_ok. exact (parse_record_fixed_total al). Qed.

(* with post = 0 this is the consumer of reader_total *)
Theorem reader_post_0 : forall (parse : parser record) (s : stream),
  run_reader_post parse 0 s = run_reader parse s.
Proof. exact run_reader_post_0. Qed.

(* the outcome sequence of a polling consumer does not depend on the chunking either *)
Theorem reader_post_chunk_independent : forall (parse : parser record) (post : nat) (s1 s2 : stream),
  concat s1 = concat s2 -> run_reader_post parse post s1 = run_reader_post parse post s2.
Proof. exact run_reader_post_same. Qed.

(* the extracted checker of the polling consumer's observations: sound, complete ... *)
Theorem check_c15p_sound : forall (post : nat) (o : list obs),
  check_c15p post o = true -> holds_c15p post o /\ ~ In BPanic o /\ ~ In BHang o.
Proof. intros post o H. apply PollProofs.check_c15p_sound in H. split; [exact H|exact (holds_c15p_no_panic post o H)]. Qed.

Theorem check_c15p_complete : forall (post : nat) (o : list obs),
  holds_c15p post o -> check_c15p post o = true.
Proof. exact PollProofs.check_c15p_complete. Qed.

Theorem check_c15p_is_check_c15 : forall o : list obs, check_c15p 0 o = check_c15 o.
Proof. exact check_c15p_0. Qed.

(* ... and passed by the model on every input, for every number of further requests *)
Theorem model_passes_c15p : forall (al : alpha) (post : nat) (s : stream),
  check_c15p post (observe_run (run_reader_post (parse_record_fixed al) post s)) = true.
Proof.
  intros al post s.
  destruct (run_reader_post_total (parse_record_fixed al) (parse_record_fixed_total al) post s) as (l & H & Hs).
  rewrite H. simpl. apply PollProofs.check_c15p_complete, shape_post_holds_c15p, Hs.
Qed.

(* The end of input is final: once a request has returned the end of input, every later request
   returns it again (nothing buffered, nothing left to read) -- for every byte string and chunking. *)
Theorem reader_end_is_final : forall (al : alpha) (s : stream) (post : nat) l rs tail,
  run_reader_post (parse_record_fixed al) post s = Ok l ->
  l = map ORec rs ++ OEnd :: tail -> tail = repeat OEnd post.
Proof. intros al s post. exact (run_reader_post_end_final _ (parse_record_fixed_total al) post s). Qed.

Theorem reader_end_is_final_step : forall (parse : parser record) (fuel : nat) (st st' : rstate),
  0 < fuel -> st_inv st -> reader_next parse fuel st = Ok (OEnd, st') ->
  forall k, poll parse fuel k st' = Ok (repeat OEnd k).
Proof. exact end_is_final. Qed.

(* ---- round 3: streams whose fill_buf fails (TransfacFault.v) ---- *)

(* Without faults the fault model (the one the driver runs against the scripted streams) is
   the reader model of the theorems above -- whichever way `last` is advanced after a line:
   `last += n` (flag false, the source before /repo 23feb61) and `last = buffer.len()` (flag
   true, the source since) are the same function of a stream without faults, because `last`
   is the length of the buffer whenever one of the loops is entered.  The reader model
   (TransfacReader.new_loop / next_loop) is written with `length buf'`, like the source. *)
Theorem fault_free_agree_any : forall (parse : parser record) (fixed : bool) (post : nat) (s : stream),
  run_reader_post_e parse fixed post (map EData s) = run_reader_post parse post s.
Proof. exact fault_free_agree_any. Qed.

(* (name of round 3) the reader as it was *)
Corollary fault_free_agree : forall (parse : parser record) (post : nat) (s : stream),
  run_reader_post_e parse false post (map EData s) = run_reader_post parse post s.
Proof. exact fault_free_agree_lemma. Qed.

(* the reader as the translator finds it in reader.rs on this run *)
Corollary fault_free_agree_current : forall (parse : parser record) (post : nat) (s : stream),
  run_reader_post_e parse reader_last_is_buffer_len post (map EData s) = run_reader_post parse post s.
Proof. intros parse. exact (FaultProofs.fault_free_agree_any parse reader_last_is_buffer_len). Qed.

(* ... and the assignment the translator finds IS the one the reader model is written with
   (`last = buffer.len()` / `length buf'`): re-checked against GenReader.v on every run.  A source
   that goes back to `last += n` breaks this obligation (and F-T1 is back: fault scripts panic). *)
Theorem reader_model_last_is_source_last : reader_last_is_buffer_len = true.
Proof. reflexivity. Qed.

(* The comparison the driver makes on every C15 case (`fault-model-differs-from-reader-model-
   without-faults`) can never fail: the trace of the current fault model over the data as one
   event stream without faults is what the reader model observes. *)
Theorem fault_free_trace_current : forall (al : alpha) (post : nat) (s : stream),
  observe_trace (trace_run_e (parse_record_fixed al) reader_last_is_buffer_len post (map EData s)) =
  observe_run (run_reader_post (parse_record_fixed al) post s).
Proof.
  intros al post s.
  pose proof (trace_run_ok_lemma (parse_record_fixed al) reader_last_is_buffer_len post (map EData s)) as T.
  change (map EData s) with (lift_stream s) in *.
  rewrite (FaultProofs.fault_free_agree_any (parse_record_fixed al) reader_last_is_buffer_len post s) in T.
  destruct (run_reader_post_total (parse_record_fixed al) (parse_record_fixed_total al) post s) as (l & H & _).
  rewrite H in *. rewrite T. unfold observe_trace, observe_run. rewrite map_map. reflexivity.
Qed.

(* The trace compared with the implementation is the outcome list of the run when the run is
   Ok, and contains a panic / hang mark otherwise. *)
Theorem trace_run_ok : forall (parse : parser record) (fixed : bool) (post : nat) (s : estream),
  match run_reader_post_e parse fixed post s with
  | Ok l => trace_run_e parse fixed post s = map SOut l
  | _ => existsb bad_step (trace_run_e parse fixed post s) = true
  end.
Proof. exact trace_run_ok_lemma. Qed.

(* The code AS IT IS, over a BufRead that may fail at any `fill_buf` call, any number of times
   (and be interrupted): for the consumer of C15 -- the one that stops at the first error or at
   the end of input -- Reader::new and every request return; an I/O error is returned as an
   error.  (This removes the assumption "the BufRead returns no I/O error" for that consumer.) *)
Theorem reader_total_faults_stop : forall (al : alpha) (s : estream),
  exists l, run_reader_post_e (parse_record_fixed al) false 0 s = Ok l /\
            exists rs o, l = map ORec rs ++ [o] /\ (o = OEnd \/ exists e, o = OErr e).
Proof.
  intros al s.
  destruct (run_reader_faults_stop_total (parse_record_fixed al) (parse_record_fixed_total al) s)
    as (l & H & rs & o & -> & Ho).
  exists (map ORec rs ++ [o]). split; [exact H|]. exists rs, o. split; [reflexivity|].
  destruct o; simpl in Ho; [discriminate|right; eauto|left; reflexivity].
Qed.

(* With the repair proposed for F-T1 (`last = buffer.len()` in both loops; flag fixed = true):
   every script of faults and every number of further requests -- no panic, no hang. *)
Theorem reader_total_faults_repaired : forall (al : alpha) (post : nat) (s : estream),
  exists l, run_reader_post_e (parse_record_fixed al) true post s = Ok l /\
            exists rs o tail, l = map ORec rs ++ o :: tail /\ is_rec o = false /\ length tail = post.
Proof. intros al post s. apply run_reader_post_repaired_total. exact (parse_record_fixed_total al). Qed.

(* The reader AS THE TRANSLATOR FINDS IT in reader.rs on this run (GenReader.v: how `last` is
   advanced, the literals given to starts_with): the model the driver runs against the scripted
   streams.  Whatever the flag, the consumer that stops is total under faults; and once the
   repair of F-T1 is in the source the polling consumer is total as well. *)
Theorem reader_total_faults_stop_current : forall (al : alpha) (s : estream),
  exists l, run_reader_post_e (parse_record_fixed al) reader_last_is_buffer_len 0 s = Ok l /\
            exists rs o, l = map ORec rs ++ [o] /\ (o = OEnd \/ exists e, o = OErr e).
Proof.
  intros al s. destruct reader_last_is_buffer_len.
  - destruct (reader_total_faults_repaired al 0 s) as (l & H & rs & o & tl & -> & Ho & Ht).
    destruct tl; [|discriminate]. eexists. split; [exact H|]. exists rs, o. split; [reflexivity|].
    destruct o; simpl in Ho; [discriminate|right; eauto|left; reflexivity].
  - exact (reader_total_faults_stop al s).
Qed.

Theorem reader_total_faults_current : reader_last_is_buffer_len = true ->
  forall (al : alpha) (post : nat) (s : estream),
  exists l, run_reader_post_e (parse_record_fixed al) reader_last_is_buffer_len post s = Ok l /\
            exists rs o tail, l = map ORec rs ++ o :: tail /\ is_rec o = false /\ length tail = post.
Proof. intros H. rewrite H. exact reader_total_faults_repaired. Qed.

Theorem gen_prefixes_are_modelled :
  gen_new_prefixes = [slashes; [x56; x56]] /\ gen_next_prefixes = [slashes; slashes].
Proof. split; reflexivity. Qed.

(* ... in executable form: the trace the driver computes for a scripted stream passes the extracted
   checker -- with the repair for every number of further requests, as it is for the consumer that stops *)
Theorem model_passes_c15p_faults_repaired : forall (al : alpha) (post : nat) (s : estream),
  check_c15p post (observe_trace (trace_run_e (parse_record_fixed al) true post s)) = true.
Proof.
  intros al post s.
  destruct (run_reader_post_repaired_total (parse_record_fixed al) (parse_record_fixed_total al) post s) as (l & H & Hs).
  pose proof (trace_run_ok_lemma (parse_record_fixed al) true post s) as T. rewrite H in T. rewrite T.
  unfold observe_trace. rewrite map_map. cbn [obs_of_step].
  apply PollProofs.check_c15p_complete, shape_post_holds_c15p, Hs.
Qed.

Theorem model_passes_c15_faults_stop : forall (al : alpha) (s : estream),
  check_c15 (observe_trace (trace_run_e (parse_record_fixed al) false 0 s)) = true.
Proof.
  intros al s.
  destruct (run_reader_faults_stop_total (parse_record_fixed al) (parse_record_fixed_total al) s) as (l & H & Hs).
  pose proof (trace_run_ok_lemma (parse_record_fixed al) false 0 s) as T. rewrite H in T. rewrite T.
  unfold observe_trace. rewrite map_map. cbn [obs_of_step].
  apply check_c15_complete, shape_holds_c15, Hs.
Qed.

(* The hand-written tables of the parser model against the tables the translator reads from the
   source on this run (GenReader.v): the line codes parse_tag accepts, and -- for both alphabets --
   K and symbol letter -> matrix column (`S::from_char` = the arms of from_ascii, `as_index`). *)
Fixpoint gen_lookup (l : list (byte * nat)) (b : byte) : option nat :=
  match l with
  | [] => None
  | (x, v) :: t => if beq x b then Some v else gen_lookup t b
  end.

Theorem tags_are_generated : forall a b : byte,
  (match classify a b with Some _ => true | None => false end) =
  existsb (fun t => str_eqb t [a; b]) gen_tags.
Proof. intros a b. destruct a; try reflexivity; destruct b; reflexivity. Qed.

Theorem sym_index_is_generated : forall b : byte,
  sym_index Dna b = gen_lookup gen_from_ascii_dna b /\
  sym_index Protein b = gen_lookup gen_from_ascii_protein b.
Proof. intros b. destruct b; split; reflexivity. Qed.

Theorem alpha_k_is_generated : alpha_k Dna = gen_k_dna /\ alpha_k Protein = gen_k_protein.
Proof. split; reflexivity. Qed.

(* ---- wave 3: the F18 class, statically ----
   error.rs:35 is `nom::Err::Incomplete(_) => unreachable!()`; the reader model has this site
   (TransfacReader.error_from: Panic 3) and parser_total shows that the parser model never
   answers Incomplete -- for the COMPLETE combinators.  That parse.rs uses complete combinators
   only is re-read from the source on every run (GenReader.gen_parse_streaming = every path with
   a segment `streaming`, outside #[cfg(test)]; gen_parse_mentions_incomplete = `Incomplete` /
   `Needed` named by the parser itself):
     parse_streaming_is_modelled   whatever was found is something the nom model handles
                                   (only `character::streaming::space1`, only in parse_alphabet);
     parsers_are_complete          nothing was found;
     parse_record_cur_is_fixed     hence the parser the driver runs (TransfacCur.parse_record_cur,
                                   selected by those constants) is parse_record_fixed, the parser of
                                   every theorem of this file and of C14.v;
     parser_total_current / reader_total_current / reader_total_post_current
                                   totality of what the driver runs.
   Going back to the streaming space1 (F18) keeps the first and breaks the others; any other
   streaming combinator breaks all of them. *)
Theorem parse_streaming_is_modelled : parse_streaming_modelled = true.
Proof. reflexivity. Qed.

Theorem parsers_are_complete : gen_parse_streaming = [] /\ gen_parse_mentions_incomplete = false.
Proof. split; reflexivity. Qed.

Theorem parse_record_cur_is_fixed : forall al : alpha, parse_record_cur al = parse_record_fixed al.
Proof. intros al. reflexivity. Qed.

Theorem parser_total_current : forall (al : alpha) (input : str),
  parse_record_cur al input <> PIncomplete /\ parse_record_cur al input <> PFuel.
Proof. intros al. rewrite parse_record_cur_is_fixed. exact (parse_record_fixed_total al). Qed.

Theorem reader_total_current : forall (al : alpha) (s : stream),
  exists l, run_reader (parse_record_cur al) s = Ok l /\
            exists rs o, l = map ORec rs ++ [o] /\ (o = OEnd \/ exists e, o = OErr e).
Proof. intros al. rewrite parse_record_cur_is_fixed. exact (reader_total al). Qed.

Theorem reader_total_post_current : forall (al : alpha) (s : stream) (post : nat),
  exists l, run_reader_post (parse_record_cur al) post s = Ok l /\
            exists rs o tail, l = map ORec rs ++ o :: tail /\ is_rec o = false /\ length tail = post.
Proof. intros al. rewrite parse_record_cur_is_fixed. exact (reader_total_post al). Qed.

(* the other end of the F18 class: as long as error.rs turns Incomplete into a panic (`unreachable!()`;
   re-read from error.rs on every run) the model has that panic site (TransfacReader.error_from: Panic 3).
   Should error.rs be hardened to return an error instead, the model is merely stricter than the code
   (every theorem still excludes Panic 3) and this obligation stays closed. *)
Theorem error_from_incomplete_is_generated :
  gen_error_incomplete_panics = true -> error_from (@PIncomplete record) = Panic 3.
Proof. intros _. reflexivity. Qed.

(* what "handled by the model" means for the one streaming combinator: with the streaming space1
   the parser model does answer Incomplete (and the reader panics: reader_total_streaming_refuted) *)
Example streaming_space1_is_incomplete :
  parse_record_streaming Dna ["P";"0";" ";" "]%byte = PIncomplete.
Proof. vm_compute. reflexivity. Qed.

(* F-T1 (finding of round 3, confirmed on the code): with a BufRead that fails ONCE in the middle
   of a line and then continues, the code as it is panics when it is polled again: std's read_line
   keeps the valid partial line "NA" in the buffer, `last` is not advanced, the rest of the line
   is counted from the wrong offset and `buffer[last..]` lands inside the two-byte character. *)
Definition ft1_stream : estream :=
  [EData ["I";"D";" ";"x";x0a;"N";"A"]%byte; EFail;
   EData [" ";xc3;xa9;xc3;xa9;xc3;xa9;x0a;"/";"/";x0a]%byte].

Theorem reader_polls_fault_refuted :
  run_reader_post_e (parse_record_fixed Dna) false 1 ft1_stream = Panic 2 /\
  trace_run_e (parse_record_fixed Dna) false 1 ft1_stream = [SOut (OErr EIo); SPanic].
Proof. split; vm_compute; reflexivity. Qed.

(* wave 3 (review C14-7): what std does when `fill_buf` returns an EMPTY slice although more bytes
   follow (event EEof: read_until returns what it has -- a line without line feed, or nothing) is part of
   the fault model; reader_total_faults_repaired / reader_total_faults_current quantify over such events
   too: no panic, no hang.  The OUTCOMES are not those of the uninterrupted stream (such a BufRead is not a
   chunking of a byte string; C14 does not speak of it): an end of input reported between two records is
   returned as the end of input and the next request returns the next record; a transient end inside a
   multi-byte character is an InvalidData error, twice. *)
Definition eof_between_records : estream :=
  [EData ["I";"D";" ";"x";x0a;"/";"/";x0a]%byte; EEof; EData ["I";"D";" ";"y";x0a;"/";"/";x0a]%byte].
Definition eof_inside_character : estream :=
  [EData ["I";"D";" ";xc3]%byte; EEof; EData [xa9;x0a;"/";"/";x0a]%byte].

Example ex_transient_eof :
  (exists r1 r2, run_reader_post_e (parse_record_fixed Dna) true 3 eof_between_records
                 = Ok [ORec r1; OEnd; ORec r2; OEnd; OEnd] /\
                 r_id r1 = Some ["x"]%byte /\ r_id r2 = Some ["y"]%byte) /\
  (exists r, run_reader_post_e (parse_record_fixed Dna) true 3 eof_inside_character
             = Ok [OErr EIo; OErr EIo; ORec r; OEnd] /\ r_id r = None).
Proof. split; [eexists _, _|eexists]; vm_compute; repeat split. Qed.

(* the same stream with the proposed repair (`last = buffer.len()`): the line is reassembled *)
Example ft1_repaired :
  exists r, run_reader_post_e (parse_record_fixed Dna) true 2 ft1_stream = Ok [OErr EIo; ORec r; OEnd] /\
            r_id r = Some ["x"]%byte /\ r_name r = Some [xc3;xa9;xc3;xa9;xc3;xa9]%byte.
Proof. eexists. vm_compute. repeat split. Qed.

Check parser_total : forall al input,
  parse_record_fixed al input <> PIncomplete /\ parse_record_fixed al input <> PFuel.
Check reader_total : forall al s,
  exists l, run_reader (parse_record_fixed al) s = Ok l /\
            exists rs o, l = map ORec rs ++ [o] /\ (o = OEnd \/ exists e, o = OErr e).
Check model_passes_c15 : forall al s,
  check_c15 (observe_run (run_reader (parse_record_fixed al) s)) = true.
Check reader_polls_total : forall al s k,
  exists l, run_polls (parse_record_fixed al) k s = Ok l /\ length l = k.
Check reader_total_post : forall al s post,
  exists l, run_reader_post (parse_record_fixed al) post s = Ok l /\
            exists rs o tail, l = map ORec rs ++ o :: tail /\ is_rec o = false /\ length tail = post.

Check fault_free_agree_any : forall parse fixed post s,
  run_reader_post_e parse fixed post (map EData s) = run_reader_post parse post s.
Check fault_free_agree_current : forall parse post s,
  run_reader_post_e parse reader_last_is_buffer_len post (map EData s) = run_reader_post parse post s.
Check reader_model_last_is_source_last : reader_last_is_buffer_len = true.
Check parsers_are_complete : gen_parse_streaming = [] /\ gen_parse_mentions_incomplete = false.
Check parser_total_current : forall al input,
  parse_record_cur al input <> PIncomplete /\ parse_record_cur al input <> PFuel.
Check reader_total_current : forall al s,
  exists l, run_reader (parse_record_cur al) s = Ok l /\
            exists rs o, l = map ORec rs ++ [o] /\ (o = OEnd \/ exists e, o = OErr e).

(* ---- non-vacuity: the model really reads records, reports errors and the end ---- *)
Local Open Scope byte_scope.

Definition ex_file : str :=
  ["I";"D";" ";"x";x0a; "P";"0";" ";"A";" ";"C";x0a; "0";"1";" ";"1";" ";"2";x0a; "/";"/";x0a;
   "I";"D";" ";"y";x0a; "/";"/"].

Example ex_two_records :
  exists r1 r2, run_reader (parse_record_fixed Dna) [ex_file] = Ok [ORec r1; ORec r2; OEnd] /\
                r_id r1 = Some ["x"] /\ r_id r2 = Some ["y"] /\
                r_data r1 = Some [[CTok ["1"]; CTok ["2"]; CZero; CZero; CZero]].
Proof. eexists _, _. vm_compute. repeat split. Qed.

(* invalid UTF-8 gives an I/O error, a ragged count row a parse error *)
Example ex_invalid_utf8 :
  run_reader (parse_record_fixed Dna) [["I";"D";" ";xff;x0a;"/";"/";x0a]] = Ok [OErr EIo].
Proof. vm_compute. reflexivity. Qed.

Example ex_ragged :
  run_reader (parse_record_fixed Dna)
    [["P";"0";" ";"A";" ";"C";x0a; "0";"1";" ";"1";x0a; "/";"/";x0a]] = Ok [OErr ENom].
Proof. vm_compute. reflexivity. Qed.

(* the invariant with `last` inside the buffer occurs: after `new` on a file without VV *)
Example ex_inv_offset :
  exists st, reader_new 10 [ex_file] = Ok st /\ st_last st = 19 /\ length (st_buf st) = 22.
Proof. eexists. vm_compute. repeat split. Qed.

(* polling after an invalid-UTF-8 line in the MIDDLE of a record (`last` = 5 > 0 when the error is
   returned): the bytes of the bad line are gone, the next request goes on with the following lines *)
Example ex_poll_after_utf8_error :
  exists r1 r2, run_reader_post (parse_record_fixed Dna) 3
    [["I";"D";" ";"x";x0a; "N";"A";" ";xff;x0a; "/";"/";x0a; "I";"D";" ";"y";x0a; "/";"/";x0a]]
    = Ok [OErr EIo; ORec r1; ORec r2; OEnd] /\ r_id r1 = Some ["x"] /\ r_id r2 = Some ["y"].
Proof. eexists _, _. vm_compute. repeat split. Qed.

(* after a parse error the buffer is kept: every later request returns the error again *)
Example ex_poll_after_parse_error :
  run_reader_post (parse_record_fixed Dna) 2
    [["P";"0";" ";"A";" ";"C";x0a; "0";"1";" ";"1";x0a; "/";"/";x0a; "I";"D";" ";"y";x0a; "/";"/";x0a]]
    = Ok [OErr ENom; OErr ENom; OErr ENom].
Proof. vm_compute. reflexivity. Qed.

(* after the end of input: the end of input again *)
Example ex_poll_after_end :
  exists r, run_reader_post (parse_record_fixed Dna) 2 [["I";"D";" ";"x";x0a;"/";"/";x0a]] = Ok [ORec r; OEnd; OEnd; OEnd].
Proof. eexists. vm_compute. reflexivity. Qed.
