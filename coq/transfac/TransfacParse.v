(* Model of lightmotif-io/src/transfac/parse.rs (after the repair of F18: the complete
   `space1`), function by function.  [sp1] is the `space1` used by `parse_alphabet`:
   the model is written once and instantiated with the complete variant (the code) and
   with the streaming variant (the code before the repair, kept for the F18 witness).

   Values that the public API of `Record` cannot show (dates, sites, factors, comments,
   BA, CO lines) are parsed and dropped.  A count is kept as its decimal token; its f32
   value is [Dec2F32.f32_of_token].  No proofs in this file. *)
From Coq Require Import List Bool Arith NArith.
From Coq Require Import Init.Byte.
From LMBase Require Import ListX.
From LMTransfac Require Import Bytes Nom.
Import ListNotations.
Local Open Scope byte_scope.

(* ---- alphabets (lightmotif::abc): symbol letter -> column index, K columns ---- *)

Inductive alpha := Dna | Protein.

Definition alpha_k (a : alpha) : nat := match a with Dna => 5 | Protein => 21 end.

Definition sym_index (a : alpha) (b : byte) : option nat :=
  match a with
  | Dna =>
      match b with
      | "A" => Some 0 | "C" => Some 1 | "T" => Some 2 | "G" => Some 3 | "N" => Some 4
      | _ => None
      end
  | Protein =>
      match b with
      | "A" => Some 0 | "C" => Some 1 | "D" => Some 2 | "E" => Some 3 | "F" => Some 4
      | "G" => Some 5 | "H" => Some 6 | "I" => Some 7 | "K" => Some 8 | "L" => Some 9
      | "M" => Some 10 | "N" => Some 11 | "P" => Some 12 | "Q" => Some 13 | "R" => Some 14
      | "S" => Some 15 | "T" => Some 16 | "V" => Some 17 | "W" => Some 18 | "Y" => Some 19
      | "X" => Some 20
      | _ => None
      end
  end.

(* ---- records ---- *)

Inductive cell := CZero | CTok (t : str).

Record reference := mkRef {
  ref_local : N;
  ref_xref : option str;
  ref_title : option str;
  ref_link : option str;
  ref_pmid : option str }.

Record record := mkRec {
  r_id : option str;
  r_ac : option str;
  r_name : option str;
  r_desc : option str;
  r_data : option (list (list cell));
  r_refs : list reference }.

(* ---- parse.rs ---- *)

(* parse_line: up to and including the first line feed *)
Fixpoint parse_line (i : str) : pres str :=
  match i with
  | [] => PError
  | b :: t =>
      if is_nl b then POk [b] t
      else match parse_line t with
           | POk l r => POk (b :: l) r
           | x => x
           end
  end.

Definition tg (a b : byte) : str := [a; b].

(* parse_version *)
Definition parse_version : parser str := preceded (tag (tg "V" "V")) parse_line.

(* parse_tag: the line codes the parser knows *)
Inductive tagk :=
| TAC | TBA | TBS | TBF | TCC | TCO | TDE | TDT | TID | TNA | TP0 | TRN | TXX | TEND.
Definition is2 (x y a b : byte) : bool := beq x a && beq y b.
Definition classify (a b : byte) : option tagk :=
  if is2 "A" "C" a b then Some TAC else if is2 "B" "A" a b then Some TBA
  else if is2 "B" "S" a b then Some TBS else if is2 "B" "F" a b then Some TBF
  else if is2 "C" "C" a b then Some TCC else if is2 "C" "O" a b then Some TCO
  else if is2 "D" "E" a b then Some TDE else if is2 "D" "T" a b then Some TDT
  else if is2 "I" "D" a b then Some TID else if is2 "N" "A" a b then Some TNA
  else if is2 "P" "0" a b then Some TP0 else if is2 "P" "O" a b then Some TP0
  else if is2 "R" "N" a b then Some TRN else if is2 "X" "X" a b then Some TXX
  else if is2 "/" "/" a b then Some TEND else None.
Section Grammar.
  Variable sp1 : parser str.
  Variable al : alpha.

  (* map_res(anychar, S::from_char) *)
  Definition parse_symbol : parser nat :=
    fun i => match i with
             | b :: r => match sym_index al b with Some k => POk k r | None => PError end
             | [] => PError
             end.

  (* parse_alphabet *)
  Definition parse_alphabet : parser (list nat) :=
    delimited (alt2 (tag (tg "P" "O")) (tag (tg "P" "0")))
              (preceded sp1 (separated_list1 sp1 parse_symbol))
              line_ending.

  (* parse_element: nom::number::complete::float (the recognised token) *)
  Definition parse_element : parser str := float_token.

  (* parse_row *)
  Definition parse_row (k : nat) : parser (list str) :=
    delimited u32 (count_ (delimited space0 parse_element space0) k) parse_line.

  (* parse_tag *)
  Definition parse_tag : parser (tagk * (byte * byte)) :=
    fun i => match i with
             | a :: b :: r => match classify a b with
                              | Some k => POk (k, (a, b)) r
                              | None => PError
                              end
             | _ => PError
             end.

  (* parse_reference_number *)
  Definition parse_reference_number : parser (N * option str) :=
    fun input =>
      pbind (preceded (terminated (tag (tg "R" "N")) space0)
                      (delimited (char_ "[") u32 (char_ "]")) input)
        (fun number rest =>
           if starts_with [";"] rest then          (* opt(anychar)(rest)?.1 == Some(';') *)
               pbind (delimited (char_ ";") (take_till ".") (char_ ".") rest)
                 (fun xref rest1 =>
                    pbind (parse_line rest1) (fun _ rest2 => POk (number, Some (trim xref)) rest2))
           else
               pbind (parse_line input) (fun _ rest2 => POk (number, None) rest2)).

  (* parse_datekind *)
  Definition parse_datekind : parser str :=
    alt2 (tag ["c"; "r"; "e"; "a"; "t"; "e"; "d"]) (tag ["u"; "p"; "d"; "a"; "t"; "e"; "d"]).

  (* parse_date (value dropped) *)
  Definition parse_date : parser unit :=
    fun input =>
      pbind (terminated (tag (tg "D" "T")) space0 input) (fun _ rest =>
      pbind (terminated u8 (char_ ".") rest) (fun _ rest =>
      pbind (terminated u8 (char_ ".") rest) (fun _ rest =>
      pbind (u16 rest) (fun _ rest =>
      pbind (space0 rest) (fun _ rest =>
      pbind (delimited (char_ "(") parse_datekind (char_ ")") rest) (fun _ rest =>
      pbind (delimited (char_ ";") (preceded space0 (take_till ".")) (char_ ".") rest) (fun _ rest =>
      pbind (parse_line rest) (fun _ rest => POk tt rest)))))))).

  (* parse_reference: the loop over the RX / RA / RL / RT lines *)
  (* the two-letter line codes are compared with [starts_with] (the code matches the
     string slice returned by take(2usize)) *)
  Fixpoint reference_loop (fuel : nat) (input : str) (pmid link title : option str)
    : pres (option str * option str * option str) :=
    match fuel with
    | O => PFuel
    | S f =>
        if negb (has_two_chars input) then PError      (* take(2usize)(input)? *)
        else if starts_with (tg "R" "X") input then
            pbind (preceded (preceded (terminated (tag (tg "R" "X")) space0)
                                      (terminated (tag ["P"; "U"; "B"; "M"; "E"; "D"; ":"]) space0))
                            (terminated (take_till ".") (char_ ".")) input)
              (fun line rest => pbind (parse_line rest)
                 (fun _ rest' => reference_loop f rest' (Some line) link title))
        else if starts_with (tg "R" "A") input then
            pbind (preceded (tag (tg "R" "A")) parse_line input)
              (fun _ rest => reference_loop f rest pmid link title)
        else if starts_with (tg "R" "L") input then
            pbind (preceded (tag (tg "R" "L")) parse_line input)
              (fun line rest => reference_loop f rest pmid (Some (trim line)) title)
        else if starts_with (tg "R" "T") input then
            pbind (preceded (tag (tg "R" "T")) parse_line input)
              (fun line rest => reference_loop f rest pmid link (Some (trim line)))
        else POk (pmid, link, title) input
    end.

  Definition parse_reference : parser reference :=
    fun input =>
      pbind (parse_reference_number input) (fun num rest =>
      pbind (reference_loop (S (length rest)) rest None None None) (fun x rest' =>
        let '(pmid, link, title) := x in
        POk (mkRef (fst num) (snd num) title link pmid) rest')).

  (* the matrix built from the alphabet line and the count rows:
       matrix[i][s.as_index()] = c  for (s, c) in symbols.zip(counts[i]) *)
  Definition build_row (syms : list nat) (toks : list str) : list cell :=
    fold_left (fun row sc => upd (fst sc) (CTok (snd sc)) row) (combine syms toks)
              (repeat CZero (alpha_k al)).
  Definition build_matrix (syms : list nat) (rows : list (list str)) : list (list cell) :=
    map (build_row syms) rows.

  (* parse_record: the loop over the tagged lines *)
  Fixpoint record_loop (fuel : nat) (input : str) (r : record) : pres record :=
    match fuel with
    | O => PFuel
    | S f =>
        pbind (parse_tag input) (fun kt _ =>
        let t := snd kt in
        let field (k : str -> record) :=
          pbind (preceded (tag (tg (fst t) (snd t))) parse_line input)
                (fun line rest => record_loop f rest (k (trim line))) in
        (* a function, like [field]: the extracted OCaml code must not evaluate it (and with it
           the rest of the loop) speculatively on every line *)
        let skip (_ : unit) :=
          pbind (preceded (tag (tg (fst t) (snd t))) parse_line input)
                (fun _ rest => record_loop f rest r) in
        match fst kt with
        | TAC => field (fun v => mkRec (r_id r) (Some v) (r_name r) (r_desc r) (r_data r) (r_refs r))
        | TBA | TBS | TBF | TCO => skip tt
        | TCC =>
            pbind (many1 (preceded (tag (tg "C" "C")) parse_line) input)
                  (fun _ rest => record_loop f rest r)
        | TDE => field (fun v => mkRec (r_id r) (r_ac r) (r_name r) (Some v) (r_data r) (r_refs r))
        | TDT => pbind (parse_date input) (fun _ rest => record_loop f rest r)
        | TID => field (fun v => mkRec (Some v) (r_ac r) (r_name r) (r_desc r) (r_data r) (r_refs r))
        | TNA => field (fun v => mkRec (r_id r) (r_ac r) (Some v) (r_desc r) (r_data r) (r_refs r))
        | TP0 =>
            pbind (parse_alphabet input) (fun syms rest =>
            pbind (many1 (parse_row (length syms)) rest) (fun rows rest' =>
              record_loop f rest'
                (mkRec (r_id r) (r_ac r) (r_name r) (r_desc r) (Some (build_matrix syms rows)) (r_refs r))))
        | TRN =>
            pbind (parse_reference input) (fun x rest =>
              record_loop f rest
                (mkRec (r_id r) (r_ac r) (r_name r) (r_desc r) (r_data r) (r_refs r ++ [x])))
        | TEND =>
            pbind (preceded (tag (tg "/" "/")) (alt2 parse_line eof) input)
                  (fun _ rest => POk r rest)
        | TXX => pbind (parse_line input) (fun _ rest => record_loop f rest r)
        end)
    end.

  Definition empty_record : record := mkRec None None None None None [].

  Definition parse_record : parser record :=
    fun input => record_loop (S (length input)) input empty_record.
End Grammar.

(* the code, and the code before the repair of F18 *)
Definition parse_record_fixed (al : alpha) : parser record := parse_record space1_complete al.
Definition parse_record_streaming (al : alpha) : parser record := parse_record space1_streaming al.
