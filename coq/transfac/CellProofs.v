(* Where the counts of a printed matrix end up: the cell of row i written under the j-th
   symbol of the P0 line is found in row i, column `as_index` of that symbol; every other
   column holds zero (matrix[i][s.as_index()] = c over symbols.zip(counts[i])). *)
From Coq Require Import List Bool Arith NArith Lia.
From Coq Require Import Init.Byte.
From LMBase Require Import ListX.
From LMTransfac Require Import Bytes Nom NomProofs TransfacParse TransfacPrint.
Import ListNotations.
Local Open Scope byte_scope.

Definition put (row : list cell) (sc : nat * str) : list cell := upd (fst sc) (CTok (snd sc)) row.

Lemma fold_put : forall idx toks row0,
  NoDup idx -> length toks = length idx -> (forall k, In k idx -> k < length row0) ->
  let res := fold_left put (combine idx toks) row0 in
  length res = length row0 /\
  (forall j, j < length idx -> nth (nth j idx 0) res CZero = CTok (nth j toks [])) /\
  (forall k, ~ In k idx -> nth k res CZero = nth k row0 CZero).
Proof.
  induction idx as [|i idx IH]; intros toks row0 ND L B; cbn zeta.
  - simpl. split; [reflexivity|]. split; [intros j Hj; simpl in Hj; lia|reflexivity].
  - destruct toks as [|t toks]; [simpl in L; lia|]. simpl in L. inversion ND as [|? ? Hni ND']; subst.
    cbn [combine fold_left]. change (put row0 (i, t)) with (upd i (CTok t) row0).
    destruct (IH toks (upd i (CTok t) row0) ND' ltac:(lia)) as (I1 & I2 & I3).
    { intros k Hk. rewrite upd_length. apply B. right. exact Hk. }
    rewrite upd_length in I1. split; [exact I1|]. split.
    + intros [|j] Hj; cbn [nth].
      * rewrite (I3 i Hni). apply nth_upd_same. apply B. left. reflexivity.
      * apply I2. simpl in Hj. lia.
    + intros k Hk. rewrite I3; [|intros H; apply Hk; right; exact H].
      apply nth_upd_other. intros ->. apply Hk. left. reflexivity.
Qed.

(* the symbol letter of a column (inverse of sym_index) *)
Definition sym_letter (al : alpha) (k : nat) : byte :=
  match al with
  | Dna => nth k ["A"; "C"; "T"; "G"; "N"] x00
  | Protein => nth k ["A"; "C"; "D"; "E"; "F"; "G"; "H"; "I"; "K"; "L"; "M"; "N"; "P"; "Q"; "R"; "S";
                      "T"; "V"; "W"; "Y"; "X"] x00
  end.

Lemma sym_letter_index al c k : sym_index al c = Some k -> sym_letter al k = c /\ k < alpha_k al.
Proof.
  destruct al; destruct c; simpl; intros H; try discriminate; inversion H; subst; split;
    try reflexivity; apply Nat.ltb_lt; reflexivity.
Qed.

Lemma sym_indices_facts al : forall syms idx,
  sym_indices al syms = Some idx -> nodupb syms = true ->
  NoDup idx /\ length idx = length syms /\ (forall k, In k idx -> k < alpha_k al) /\
  (forall j, j < length syms -> sym_index al (nth j syms x00) = Some (nth j idx 0)).
Proof.
  induction syms as [|c cs IH]; intros idx H ND; simpl in H.
  - inversion H; subst. repeat split; [constructor|intros k []|intros j Hj; simpl in Hj; lia].
  - destruct (sym_index al c) as [k|] eqn:Ek; [|discriminate].
    destruct (sym_indices al cs) as [idx'|] eqn:Ei; [|discriminate]. inversion H; subst idx.
    simpl in ND. apply andb_true_iff in ND. destruct ND as [Hc ND].
    destruct (IH idx' eq_refl ND) as (I1 & I2 & I3 & I4).
    destruct (sym_letter_index al c k Ek) as [Lc Bk].
    repeat split.
    + constructor; [|exact I1]. intros Hin. apply In_nth with (d := 0) in Hin.
      destruct Hin as (j & Hj & Ej). rewrite I2 in Hj. specialize (I4 j Hj). rewrite Ej in I4.
      destruct (sym_letter_index al _ k I4) as [Lj _]. rewrite Lc in Lj.
      apply negb_true_iff in Hc. assert (X : existsb (beq c) cs = true); [|congruence].
      apply existsb_exists. exists (nth j cs x00). split; [apply nth_In; exact Hj|].
      rewrite <- Lj. apply beq_refl.
    + simpl. rewrite I2. reflexivity.
    + intros k' [<-|Hk]; [exact Bk|apply I3; exact Hk].
    + intros [|j] Hj; simpl; [exact Ek|]. apply I4. simpl in Hj. lia.
Qed.

(* one row of the matrix *)
Theorem build_row_spec al syms idx toks :
  sym_indices al syms = Some idx -> nodupb syms = true -> length toks = length syms ->
  length (build_row al idx toks) = alpha_k al /\
  (forall j, j < length syms ->
     sym_index al (nth j syms x00) = Some (nth j idx 0) /\
     nth (nth j idx 0) (build_row al idx toks) CZero = CTok (nth j toks [])) /\
  (forall k, ~ In k idx -> nth k (build_row al idx toks) CZero = CZero).
Proof.
  intros Hs ND L. destruct (sym_indices_facts al syms idx Hs ND) as (F1 & F2 & F3 & F4).
  unfold build_row. fold put.
  destruct (fold_put idx toks (repeat CZero (alpha_k al)) F1 ltac:(lia)) as (I1 & I2 & I3).
  { intros k Hk. rewrite repeat_length. apply F3. exact Hk. }
  rewrite repeat_length in I1. split; [exact I1|]. split.
  - intros j Hj. split; [apply F4; exact Hj|]. apply I2. lia.
  - intros k Hk. rewrite (I3 k Hk). destruct (Nat.lt_ge_cases k (alpha_k al)) as [Lk|Lk].
    + apply nth_repeat_lt. exact Lk.
    + apply nth_overflow. rewrite repeat_length. exact Lk.
Qed.

(* the matrix produced by a well-formed matrix block *)
Theorem matrix_item_cells :
  forall (al : alpha) (po : bool) (syms : list (str * byte)) (rows : list prow) (idx : list nat),
  item_ok al (IMatrix po syms rows) = true -> sym_indices al (sym_letters syms) = Some idx ->
  exists m, item_matrix al (IMatrix po syms rows) = Some m /\ length m = length rows /\
  forall i, i < length rows ->
    let row := nth i m [] in
    let toks := row_toks (nth i rows (mkRow [] [] [])) in
    length row = alpha_k al /\
    (forall j, j < length syms ->
       sym_index al (nth j (sym_letters syms) x00) = Some (nth j idx 0) /\
       nth (nth j idx 0) row CZero = CTok (nth j toks [])) /\
    (forall k, ~ In k idx -> nth k row CZero = CZero).
Proof.
  intros al po syms rows idx Hok Hs. cbn [item_matrix]. rewrite Hs.
  exists (build_matrix al idx (map row_toks rows)). split; [reflexivity|].
  unfold build_matrix. rewrite !map_length. split; [reflexivity|].
  intros i Hi. cbv zeta.
  assert (Hrow : nth i (map (build_row al idx) (map row_toks rows)) [] =
                 build_row al idx (row_toks (nth i rows (mkRow [] [] [])))).
  { rewrite map_map. rewrite nth_indep with (d' := build_row al idx (row_toks (mkRow [] [] [])));
      [|rewrite map_length; exact Hi].
    apply (map_nth (fun x => build_row al idx (row_toks x))). }
  rewrite Hrow. cbn [item_ok] in Hok.
  apply andb_true_iff in Hok. destruct Hok as [Hok Hrows].
  apply andb_true_iff in Hok. destruct Hok as [Hok _].
  apply andb_true_iff in Hok. destruct Hok as [Hok _].
  apply andb_true_iff in Hok. destruct Hok as [_ Hnd].
  assert (Hr : row_ok (length syms) (nth i rows (mkRow [] [] [])) = true).
  { rewrite forallb_forall in Hrows. apply Hrows, nth_In, Hi. }
  unfold row_ok in Hr. apply andb_true_iff in Hr. destruct Hr as [Hr _].
  apply andb_true_iff in Hr. destruct Hr as [Hr _].
  apply andb_true_iff in Hr. destruct Hr as [_ Hlen]. apply Nat.eqb_eq in Hlen.
  assert (Hlen' : length (row_toks (nth i rows (mkRow [] [] []))) = length (sym_letters syms)).
  { unfold row_toks, sym_letters. rewrite !map_length. exact Hlen. }
  pose proof (build_row_spec al (sym_letters syms) idx _ Hs Hnd Hlen') as K.
  assert (LL : length (sym_letters syms) = length syms) by apply map_length.
  rewrite LL in K. exact K.
Qed.

(* the expected record in closed form *)
Definition pick {A} (o : option A) (d : option A) : option A := match o with Some v => Some v | None => d end.

Lemma fold_apply_closed al : forall (p : prec) (r : record),
  fold_left (apply_item al) p r =
  mkRec (pick (last_field FID p) (r_id r)) (pick (last_field FAC p) (r_ac r))
        (pick (last_field FNA p) (r_name r)) (pick (last_field FDE p) (r_desc r))
        (pick (last_matrix al p) (r_data r)) (r_refs r ++ refs_of p).
Proof.
  induction p as [|it p IH]; intros r; [destruct r; cbn; rewrite app_nil_r; reflexivity|].
  cbn [fold_left]. rewrite IH. cbn [last_field last_matrix refs_of].
  destruct (last_field FID p), (last_field FAC p), (last_field FNA p), (last_field FDE p), (last_matrix al p);
    destruct it as [num xref lines|[] pad v|k v| |t ts|d m y c au|po syms rows];
    cbn [apply_item add_ref set_field item_matrix fieldk_eqb pick r_id r_ac r_name r_desc r_data r_refs];
    try rewrite <- app_assoc; try reflexivity;
    try (destruct (sym_indices al (sym_letters syms)); reflexivity).
Qed.

Theorem expected_record_closed_lemma al (p : prec) :
  expected_record al p =
  mkRec (last_field FID p) (last_field FAC p) (last_field FNA p) (last_field FDE p) (last_matrix al p)
        (refs_of p).
Proof.
  unfold expected_record. rewrite fold_apply_closed. cbn [empty_record r_id r_ac r_name r_desc r_data r_refs app].
  destruct (last_field FID p), (last_field FAC p), (last_field FNA p), (last_field FDE p), (last_matrix al p);
    reflexivity.
Qed.
