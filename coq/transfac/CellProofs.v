(* Where the counts of a printed matrix end up: the cell of row i written under the j-th
   symbol of the P0 line is found in row i, column `as_index` of that symbol; every other
   column holds zero (matrix[i][s.as_index()] = c over symbols.zip(counts[i])). *)
From Coq Require Import List Bool Arith NArith Lia.
From Coq Require Import Init.Byte.
From LMBase Require Import ListX.
From LMTransfac Require Import Bytes Nom NomProofs TransfacParse TransfacPrint.
Import ListNotations.
Local Open Scope byte_scope.

Definition put (row : list cell) (sc : nat * str) : list cell := upd (fst sc) (CTok (snd sc)) row.

Lemma fold_put : forall idx toks row0,
  NoDup idx -> length toks = length idx -> (forall k, In k idx -> k < length row0) ->
  let res := fold_left put (combine idx toks) row0 in
  length res = length row0 /\
  (forall j, j < length idx -> nth (nth j idx 0) res CZero = CTok (nth j toks [])) /\
  (forall k, ~ In k idx -> nth k res CZero = nth k row0 CZero).
Proof.
  induction idx as [|i idx IH]; intros toks row0 ND L B; cbn zeta.
  - simpl. split; [reflexivity|]. split; [intros j Hj; simpl in Hj; lia|reflexivity].
  - destruct toks as [|t toks]; [simpl in L; lia|]. simpl in L. inversion ND as [|? ? Hni ND']; subst.
    cbn [combine fold_left]. change (put row0 (i, t)) with (upd i (CTok t) row0).
    destruct (IH toks (upd i (CTok t) row0) ND' ltac:(lia)) as (I1 & I2 & I3).
    { intros k Hk. rewrite upd_length. apply B. right. exact Hk. }
    rewrite upd_length in I1. split; [exact I1|]. split.
    + intros [|j] Hj; cbn [nth].
      * rewrite (I3 i Hni). apply nth_upd_same. apply B. left. reflexivity.
      * apply I2. simpl in Hj. lia.
    + intros k Hk. rewrite I3; [|intros H; apply Hk; right; exact H].
      apply nth_upd_other. intros ->. apply Hk. left. reflexivity.
Qed.

(* the symbol letter of a column (inverse of sym_index) *)
Definition sym_letter (al : alpha) (k : nat) : byte :=
  match al with
  | Dna => nth k ["A"; "C"; "T"; "G"; "N"] x00
  | Protein => nth k ["A"; "C"; "D"; "E"; "F"; "G"; "H"; "I"; "K"; "L"; "M"; "N"; "P"; "Q"; "R"; "S";
                      "T"; "V"; "W"; "Y"; "X"] x00
  end.

Lemma sym_letter_index al c k : sym_index al c = Some k -> sym_letter al k = c /\ k < alpha_k al.
Proof.
  destruct al; destruct c; simpl; intros H; try discriminate; inversion H; subst; split;
    try reflexivity; apply Nat.ltb_lt; reflexivity.
Qed.

Lemma sym_indices_facts al : forall syms idx,
  sym_indices al syms = Some idx -> nodupb syms = true ->
  NoDup idx /\ length idx = length syms /\ (forall k, In k idx -> k < alpha_k al) /\
  (forall j, j < length syms -> sym_index al (nth j syms x00) = Some (nth j idx 0)).
Proof.
  induction syms as [|c cs IH]; intros idx H ND; simpl in H.
  - inversion H; subst. repeat split; [constructor|intros k []|intros j Hj; simpl in Hj; lia].
  - destruct (sym_index al c) as [k|] eqn:Ek; [|discriminate].
    destruct (sym_indices al cs) as [idx'|] eqn:Ei; [|discriminate]. inversion H; subst idx.
    simpl in ND. apply andb_true_iff in ND. destruct ND as [Hc ND].
    destruct (IH idx' eq_refl ND) as (I1 & I2 & I3 & I4).
    destruct (sym_letter_index al c k Ek) as [Lc Bk].
    repeat split.
    + constructor; [|exact I1]. intros Hin. apply In_nth with (d := 0) in Hin.
      destruct Hin as (j & Hj & Ej). rewrite I2 in Hj. specialize (I4 j Hj). rewrite Ej in I4.
      destruct (sym_letter_index al _ k I4) as [Lj _]. rewrite Lc in Lj.
      apply negb_true_iff in Hc. assert (X : existsb (beq c) cs = true); [|congruence].
      apply existsb_exists. exists (nth j cs x00). split; [apply nth_In; exact Hj|].
      rewrite <- Lj. apply beq_refl.
    + simpl. rewrite I2. reflexivity.
    + intros k' [<-|Hk]; [exact Bk|apply I3; exact Hk].
    + intros [|j] Hj; simpl; [exact Ek|]. apply I4. simpl in Hj. lia.
Qed.

(* one row of the matrix *)
Theorem build_row_spec al syms idx toks :
  sym_indices al syms = Some idx -> nodupb syms = true -> length toks = length syms ->
  length (build_row al idx toks) = alpha_k al /\
  (forall j, j < length syms ->
     sym_index al (nth j syms x00) = Some (nth j idx 0) /\
     nth (nth j idx 0) (build_row al idx toks) CZero = CTok (nth j toks [])) /\
  (forall k, ~ In k idx -> nth k (build_row al idx toks) CZero = CZero).
Proof.
  intros Hs ND L. destruct (sym_indices_facts al syms idx Hs ND) as (F1 & F2 & F3 & F4).
  unfold build_row. fold put.
  destruct (fold_put idx toks (repeat CZero (alpha_k al)) F1 ltac:(lia)) as (I1 & I2 & I3).
  { intros k Hk. rewrite repeat_length. apply F3. exact Hk. }
  rewrite repeat_length in I1. split; [exact I1|]. split.
  - intros j Hj. split; [apply F4; exact Hj|]. apply I2. lia.
  - intros k Hk. rewrite (I3 k Hk). destruct (Nat.lt_ge_cases k (alpha_k al)) as [Lk|Lk].
    + apply nth_repeat_lt. exact Lk.
    + apply nth_overflow. rewrite repeat_length. exact Lk.
Qed.
