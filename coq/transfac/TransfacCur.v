(* The record parser AS THE TRANSLATOR FINDS IT in transfac/parse.rs on this run (wave 3).

   error.rs:35 turns nom's `Err::Incomplete` into `unreachable!()` (the F18 panic).  Only nom's
   *streaming* combinators produce Incomplete; the nom model (Nom.v) has exactly one of them,
   `character::streaming::space1`, as used by parse_alphabet before /repo fe3ced2.
   translate/transfac_reader.py lists every path of parse.rs with a segment `streaming`
   (GenReader.gen_parse_streaming), the functions naming the bare identifier `space1`
   (gen_parse_space1_users) and whether `Incomplete` / `Needed` is named at all; here the model of
   `space1` is selected accordingly, and [parse_streaming_modelled] says that nothing was found
   that the model does not handle.  The driver runs [parse_record_cur]; C15.parsers_are_complete /
   parser_total_current / reader_total_current are re-checked against the constants on every run.
   No proofs in this file. *)
From Coq Require Import List Bool.
From Coq Require Import Init.Byte.
From LMTransfac Require Import Bytes Nom TransfacParse Checkers GenReader.
Import ListNotations.

(* "character::streaming::space1" / "parse_alphabet" *)
Definition streaming_space1_path : str := [x63; x68; x61; x72; x61; x63; x74; x65; x72; x3a; x3a; x73; x74; x72; x65; x61; x6d; x69; x6e; x67; x3a; x3a; x73; x70; x61; x63; x65; x31].
Definition parse_alphabet_name : str := [x70; x61; x72; x73; x65; x5f; x61; x6c; x70; x68; x61; x62; x65; x74].

Definition parse_uses_streaming_space1 : bool :=
  existsb (str_eqb streaming_space1_path) gen_parse_streaming.

Definition sp1_cur : parser str :=
  if parse_uses_streaming_space1 then space1_streaming else space1_complete.

Definition parse_record_cur (al : alpha) : parser record := parse_record sp1_cur al.

(* every streaming path found is the one the model handles, it is used in parse_alphabet only
   (the model's `sp1` parameter reaches parse_alphabet only), and nothing names Incomplete *)
Definition parse_streaming_modelled : bool :=
  forallb (str_eqb streaming_space1_path) gen_parse_streaming &&
  (negb parse_uses_streaming_space1 || list_eqb str_eqb gen_parse_space1_users [parse_alphabet_name]) &&
  negb gen_parse_mentions_incomplete.
