(* Lemmas on the model of Record::to_freq (TransfacFreq.v): the result has the shape of the
   source matrix, and a returned matrix passed FrequencyMatrix::new's check row by row. *)
From Coq Require Import List Bool Arith ZArith Lia.
From LMBase Require Import IEEE.
From LMTransfac Require Import TransfacParse TransfacFreq.
Import ListNotations.

Lemma zip_add_length : forall row p, length (zip_add row p) = Nat.min (length row) (length p).
Proof.
  induction row as [|x r IH]; intros [|y q]; cbn [zip_add length Nat.min]; try reflexivity.
  rewrite IH. reflexivity.
Qed.

Lemma pseudo_row_length al c : length (pseudo_row al c) = alpha_k al.
Proof.
  unfold pseudo_row. rewrite app_length, repeat_length. cbn [length]. destruct al; reflexivity.
Qed.

Lemma to_freq_row_length al c row :
  length (to_freq_row (pseudo_row al c) row) = Nat.min (length row) (alpha_k al).
Proof. unfold to_freq_row. rewrite map_length, zip_add_length, pseudo_row_length. reflexivity. Qed.

Lemma to_freq_some al c m m' :
  to_freq al c m = Some m' ->
  m' = map (to_freq_row (pseudo_row al c)) m /\ forallb freq_row_ok m' = true.
Proof.
  unfold to_freq. destruct (forallb freq_row_ok (map (to_freq_row (pseudo_row al c)) m)) eqn:E; [|discriminate].
  intros H. inversion H; subst. split; [reflexivity|exact E].
Qed.

Lemma to_freq_shape_lemma al c m m' :
  to_freq al c m = Some m' ->
  Forall2 (fun r r' => length r' = Nat.min (length r) (alpha_k al)) m m'.
Proof.
  intros H. destruct (to_freq_some al c m m' H) as [-> _]. clear H.
  induction m as [|r m IH]; cbn [map]; constructor; [apply to_freq_row_length|exact IH].
Qed.

Lemma to_freq_rows_ok al c m m' :
  to_freq al c m = Some m' -> Forall (fun r => freq_row_ok r = true) m'.
Proof.
  intros H. destruct (to_freq_some al c m m' H) as [_ E].
  apply Forall_forall. intros r Hr. exact (proj1 (forallb_forall _ _) E r Hr).
Qed.
