(* Lemmas on the reader over a stream with I/O faults (TransfacFault.v, round 3):
   - without faults (stream = map EData chunks) the fault model -- with EITHER value of the flag
     [fixed], i.e. the source before and since /repo 23feb61 -- IS the reader model of
     TransfacReader.v / TransfacPoll.v, so every theorem about the latter (totality, chunk
     independence, round trip) is a theorem about the model the driver runs;
   - the trace the driver compares with the implementation is `map SOut l` exactly when the
     run returns `Ok l`, and contains SPanic / SHang otherwise. *)
From Coq Require Import List Bool Arith Lia.
From Coq Require Import Init.Byte.
From LMBase Require Import Res.
From LMTransfac Require Import Bytes Stream Nom TransfacParse TransfacReader Checkers TransfacPoll TransfacFault StreamProofs ReaderProofs.
Import ListNotations.

Definition lift_res {A B} (f : A -> B) (x : res A) : res B :=
  match x with
  | Ok a => Ok (f a)
  | Err c => Err c
  | Panic n => Panic n
  | OutOfFuel => OutOfFuel
  end.

Definition lift_stream (s : stream) : estream := map EData s.

Definition lift_st (st : rstate) : estate :=
  mkESt (st_buf st) (st_last st) (st_err st) (st_version st) (lift_stream (st_src st)).

(* ---- read_until / read_line without faults ---- *)

Lemma read_until_e_data : forall s acc,
  read_until_e (lift_stream s) acc =
  (false, fst (read_until_nl s acc), lift_stream (snd (read_until_nl s acc))).
Proof.
  induction s as [|c rest IH]; intros acc; cbn [lift_stream map read_until_e read_until_nl]; [reflexivity|].
  destruct (split_nl c) as [[p r]|]; [reflexivity|]. apply IH.
Qed.

Definition lift_rl (r : rl_result) : rle_result :=
  match r with RlOk n => RleOk n | RlInvalidUtf8 => RleErr end.

Lemma read_line_e_data s buf :
  read_line_e (lift_stream s) buf =
  (lift_rl (fst (fst (read_line s buf))), snd (fst (read_line s buf)), lift_stream (snd (read_line s buf))).
Proof.
  unfold read_line_e, read_line. rewrite read_until_e_data.
  destruct (read_until_nl s []) as [line s']. cbn [fst snd].
  destruct (utf8_valid line); reflexivity.
Qed.

Lemma estream_fuel_data s : estream_fuel (lift_stream s) = stream_fuel s.
Proof.
  unfold estream_fuel, stream_fuel, lift_stream. generalize 3.
  induction s as [|c rest IH]; intros n; [reflexivity|]. cbn [map fold_left]. apply IH.
Qed.

(* ---- the loops ----

   The reader model (TransfacReader.v) assigns `last := length buf'` like the source since /repo
   23feb61; the fault model has the flag [fixed] (true = that assignment, false = `last += n`, the
   code as it was).  Without faults BOTH fault models are the reader model: at loop entry `last`
   is the length of the buffer (invariant ReaderProofs.inv), so `last + n` is the new length. *)

Lemma read_line_shape s buf r b s' :
  read_line s buf = (r, b, s') ->
  match r with
  | RlOk n => exists line, b = buf ++ line /\ n = length line /\ utf8_valid line = true
  | RlInvalidUtf8 => b = buf
  end.
Proof.
  unfold read_line. destruct (read_until_nl s []) as [line t].
  destruct (utf8_valid line) eqn:U; intros H; inversion H; subst; [|reflexivity].
  exists line. auto.
Qed.

Lemma advance_entry fixed s buf n b s' :
  read_line s buf = (RlOk n, b, s') -> advance fixed b (length buf) n = length b.
Proof.
  intros H. destruct (read_line_shape _ _ _ _ _ H) as (line & -> & -> & _).
  unfold advance. rewrite app_length. destruct fixed; reflexivity.
Qed.

(* partial correctness of the two loops of the reader model, without any hypothesis on the
   parser or the fuel: what comes out satisfies the invariant *)
Lemma new_loop_inv : forall fuel buf s b l e s',
  new_loop fuel buf (length buf) s = Ok (b, l, e, s') -> inv b l.
Proof.
  induction fuel as [|f IH]; intros buf s b l e s' H; cbn [new_loop] in H; [discriminate|].
  destruct (read_line s buf) as [[r b0] s0] eqn:RL. pose proof (read_line_shape _ _ _ _ _ RL) as Sh.
  destruct r as [[|n]|].
  - destruct Sh as (line & -> & Hn & _). inversion H; subst. left.
    destruct line; [|discriminate]. rewrite app_nil_r. reflexivity.
  - destruct Sh as (line & -> & Hn & U).
    rewrite (str_from_app buf line (valid_line_head _ U)) in H. cbn [rbind] in H.
    destruct (starts_with slashes line) eqn:SW.
    + inversion H; subst. right. exists buf, line. auto.
    + apply (IH _ _ _ _ _ _ H).
  - subst b0. inversion H; subst. left. reflexivity.
Qed.

Lemma next_loop_last : forall fuel buf s b l io s',
  next_loop fuel buf (length buf) s = Ok (b, l, io, s') -> l = length b.
Proof.
  induction fuel as [|f IH]; intros buf s b l io s' H; cbn [next_loop] in H; [discriminate|].
  destruct (read_line s buf) as [[r b0] s0] eqn:RL. pose proof (read_line_shape _ _ _ _ _ RL) as Sh.
  destruct r as [[|n]|].
  - destruct Sh as (line & -> & Hn & _). inversion H; subst.
    destruct line; [|discriminate]. rewrite app_nil_r. reflexivity.
  - destruct Sh as (line & -> & Hn & U).
    rewrite (str_from_app buf line (valid_line_head _ U)) in H. cbn [rbind] in H.
    destruct (starts_with slashes line) eqn:SW.
    + inversion H; subst. reflexivity.
    + apply (IH _ _ _ _ _ _ H).
  - subst b0. inversion H; subst. reflexivity.
Qed.

Lemma reader_new_inv fuel s st : reader_new fuel s = Ok st -> st_inv st.
Proof.
  unfold reader_new. change 0 with (length (@nil byte)).
  destruct (new_loop fuel [] (length (@nil byte)) s) as [[[[b l] e] s']| | |] eqn:NL; cbn [rbind]; try discriminate.
  pose proof (new_loop_inv _ _ _ _ _ _ _ NL) as I.
  destruct (starts_with [x56; x56] b).
  - destruct (parse_version b); cbn [error_from rbind]; intros H; inversion H; subst; unfold st_inv; cbn;
      solve [exact I | left; reflexivity].
  - intros H; inversion H; subst. exact I.
Qed.

(* when the loop of `next` is entered, `last` is the length of the buffer *)
Lemma inv_loop_entry buf last tl :
  inv buf last -> str_from buf last = Ok tl -> starts_with slashes tl = false -> last = length buf.
Proof.
  intros [->|(a & b & -> & <- & H)] Htl SW; [reflexivity|].
  rewrite (str_from_app a b (starts_with_slashes_head _ H)) in Htl. inversion Htl; subst. congruence.
Qed.

Section Agree.
  Variable parse : parser record.

  Lemma reader_next_inv fuel st o st' :
    st_inv st -> reader_next parse fuel st = Ok (o, st') -> st_inv st'.
  Proof.
    unfold reader_next, st_inv. destruct st as [buf last err ver src].
    cbn [st_err st_buf st_last st_version st_src]. intros I.
    destruct err; [intros H; inversion H; subst; exact I|].
    destruct (str_from buf last) as [tl| | |] eqn:Htl; cbn [rbind]; try discriminate.
    assert (T : forall b l (io : bool) s', inv b l ->
      (let st1 := mkSt b l None ver s' in
       if io then Ok (OErr EIo, st1)
       else match b with
            | [] => Ok (OEnd, st1)
            | _ => match parse b with
                   | POk r _ => Ok (ORec r, mkSt [] 0 None ver s')
                   | bad => e <- error_from bad ;; Ok (OErr e, st1)
                   end
            end) = Ok (o, st') -> inv (st_buf st') (st_last st')).
    { intros b l io s' Ib. cbv zeta. destruct io; [intros H; inversion H; subst; exact Ib|].
      destruct b as [|x b0]; [intros H; inversion H; subst; exact Ib|].
      destruct (parse (x :: b0)); cbn [error_from rbind]; intros H; inversion H; subst; cbn;
        solve [exact Ib | left; reflexivity]. }
    destruct (starts_with slashes tl) eqn:SW.
    - cbn [rbind]. apply (T buf last false src I).
    - pose proof (inv_loop_entry _ _ _ I Htl SW) as ->.
      destruct (next_loop fuel buf (length buf) src) as [[[[b l] io] s']| | |] eqn:NL; cbn [rbind]; try discriminate.
      pose proof (next_loop_last _ _ _ _ _ _ _ NL) as ->.
      apply (T b (length b) io s'). left. reflexivity.
  Qed.

  Variable fixed : bool.

  Lemma new_loop_e_data : forall fuel buf s,
    new_loop_e fixed fuel buf (length buf) (lift_stream s) =
    lift_res (fun x => let '(b, l, e, s') := x in (b, l, e, lift_stream s')) (new_loop fuel buf (length buf) s).
  Proof.
    induction fuel as [|f IH]; intros buf s; cbn [new_loop_e new_loop]; [reflexivity|].
    rewrite read_line_e_data. destruct (read_line s buf) as [[r b] s'] eqn:RL. cbn [fst snd].
    destruct r as [[|n]|]; cbn [lift_rl lift_res]; try reflexivity.
    destruct (str_from b (length buf)); cbn [rbind lift_res]; try reflexivity.
    destruct (starts_with slashes a); cbn [lift_res]; [reflexivity|].
    rewrite (advance_entry fixed _ _ _ _ _ RL). apply IH.
  Qed.

  Lemma next_loop_e_data : forall fuel buf s,
    next_loop_e fixed fuel buf (length buf) (lift_stream s) =
    lift_res (fun x => let '(b, l, e, s') := x in (b, l, e, lift_stream s')) (next_loop fuel buf (length buf) s).
  Proof.
    induction fuel as [|f IH]; intros buf s; cbn [next_loop_e next_loop]; [reflexivity|].
    rewrite read_line_e_data. destruct (read_line s buf) as [[r b] s'] eqn:RL. cbn [fst snd].
    destruct r as [[|n]|]; cbn [lift_rl lift_res]; try reflexivity.
    destruct (str_from b (length buf)); cbn [rbind lift_res]; try reflexivity.
    rewrite (advance_entry fixed _ _ _ _ _ RL).
    destruct (starts_with slashes a); cbn [lift_res]; [reflexivity|]. apply IH.
  Qed.

  Lemma reader_new_e_data fuel s :
    reader_new_e fixed fuel (lift_stream s) = lift_res lift_st (reader_new fuel s).
  Proof.
    unfold reader_new_e, reader_new. change 0 with (length (@nil byte)). rewrite new_loop_e_data.
    destruct (new_loop fuel [] (length (@nil byte)) s) as [[[[b l] e] s']| | |]; cbn [lift_res rbind]; try reflexivity.
    destruct (starts_with [x56; x56] b); [|reflexivity].
    destruct (parse_version b); cbn [error_from rbind lift_res]; reflexivity.
  Qed.

  Lemma reader_next_e_data fuel st :
    st_inv st ->
    reader_next_e parse fixed fuel (lift_st st) =
    lift_res (fun x => (fst x, lift_st (snd x))) (reader_next parse fuel st).
  Proof.
    unfold reader_next_e, reader_next, st_inv. destruct st as [buf last err ver src].
    cbn [lift_st es_err es_buf es_last es_version es_src st_err st_buf st_last st_version st_src].
    intros I. destruct err; [reflexivity|].
    destruct (str_from buf last) as [tl| | |] eqn:Htl; cbn [rbind lift_res]; try reflexivity.
    assert (T : forall b l (io : bool) s',
      (let st' := mkESt b l None ver (lift_stream s') in
       if io then Ok (OErr EIo, st')
       else match b with
            | [] => Ok (OEnd, st')
            | _ => match parse b with
                   | POk r _ => Ok (ORec r, mkESt [] 0 None ver (lift_stream s'))
                   | bad => e <- error_from bad ;; Ok (OErr e, st')
                   end
            end) =
      lift_res (fun x => (fst x, lift_st (snd x)))
        (let st' := mkSt b l None ver s' in
         if io then Ok (OErr EIo, st')
         else match b with
              | [] => Ok (OEnd, st')
              | _ => match parse b with
                     | POk r _ => Ok (ORec r, mkSt [] 0 None ver s')
                     | bad => e <- error_from bad ;; Ok (OErr e, st')
                     end
              end)).
    { intros b l io s'. cbv zeta. destruct io; [reflexivity|].
      destruct b as [|x b0]; [reflexivity|].
      destruct (parse (x :: b0)); cbn [error_from rbind lift_res]; reflexivity. }
    destruct (starts_with slashes tl) eqn:SW.
    - cbn [rbind]. apply (T buf last false src).
    - pose proof (inv_loop_entry _ _ _ I Htl SW) as ->. rewrite next_loop_e_data.
      destruct (next_loop fuel buf (length buf) src) as [[[[b l] io] s']| | |]; cbn [lift_res rbind]; try reflexivity.
      apply (T b l io s').
  Qed.

  Lemma poll_e_data fuel : forall k st, st_inv st ->
    poll_e parse fixed fuel k (lift_st st) = poll parse fuel k st.
  Proof.
    induction k as [|k IH]; intros st I; cbn [poll_e poll]; [reflexivity|].
    rewrite (reader_next_e_data fuel st I).
    destruct (reader_next parse fuel st) as [[o st']| | |] eqn:RN; cbn [lift_res rbind fst snd]; try reflexivity.
    rewrite (IH st' (reader_next_inv _ _ _ _ I RN)). reflexivity.
  Qed.

  Lemma consume_post_e_data fuel post : forall cfuel st, st_inv st ->
    consume_post_e parse fixed fuel cfuel post (lift_st st) = consume_post parse fuel cfuel post st.
  Proof.
    induction cfuel as [|f IH]; intros st I; cbn [consume_post_e consume_post]; [reflexivity|].
    rewrite (reader_next_e_data fuel st I).
    destruct (reader_next parse fuel st) as [[o st']| | |] eqn:RN; cbn [lift_res rbind fst snd]; try reflexivity.
    pose proof (reader_next_inv _ _ _ _ I RN) as I'.
    destruct o; [rewrite (IH st' I')|rewrite (poll_e_data fuel post st' I')|rewrite (poll_e_data fuel post st' I')]; reflexivity.
  Qed.

  (* whatever the flag: without faults the fault model is the reader model *)
  Theorem fault_free_agree_any post s :
    run_reader_post_e parse fixed post (lift_stream s) = run_reader_post parse post s.
  Proof.
    unfold run_reader_post_e, run_reader_post. rewrite estream_fuel_data, reader_new_e_data.
    destruct (reader_new (stream_fuel s) s) as [st| | |] eqn:RN; cbn [lift_res rbind]; try reflexivity.
    apply consume_post_e_data. exact (reader_new_inv _ _ _ RN).
  Qed.
End Agree.

(* the reader as it was before /repo 23feb61 (`last += n`): name kept from round 3 *)
Theorem fault_free_agree_lemma parse post s :
  run_reader_post_e parse false post (lift_stream s) = run_reader_post parse post s.
Proof. exact (fault_free_agree_any parse false post s). Qed.

(* ---- the trace ---- *)

Definition bad_step (x : step) : bool := match x with SOut _ => false | _ => true end.

Section Trace.
  Variable parse : parser record.
  Variable fixed : bool.

  Lemma trace_poll_ok fuel : forall k st,
    match poll_e parse fixed fuel k st with
    | Ok l => trace_poll_e parse fixed fuel k st = map SOut l
    | _ => existsb bad_step (trace_poll_e parse fixed fuel k st) = true
    end.
  Proof.
    induction k as [|k IH]; intros st; cbn [poll_e trace_poll_e]; [reflexivity|].
    destruct (reader_next_e parse fixed fuel st) as [[o st']| | |]; cbn [rbind fst snd]; try reflexivity.
    specialize (IH st'). destruct (poll_e parse fixed fuel k st'); cbn [rbind].
    - rewrite IH. reflexivity.
    - cbn [existsb bad_step]. exact IH.
    - cbn [existsb bad_step]. exact IH.
    - cbn [existsb bad_step]. exact IH.
  Qed.

  Lemma trace_consume_ok fuel post : forall cfuel st,
    match consume_post_e parse fixed fuel cfuel post st with
    | Ok l => trace_consume_e parse fixed fuel cfuel post st = map SOut l
    | _ => existsb bad_step (trace_consume_e parse fixed fuel cfuel post st) = true
    end.
  Proof.
    induction cfuel as [|f IH]; intros st; cbn [consume_post_e trace_consume_e]; [reflexivity|].
    destruct (reader_next_e parse fixed fuel st) as [[o st']| | |]; cbn [rbind]; try reflexivity.
    destruct o as [r|e|].
    - specialize (IH st'). destruct (consume_post_e parse fixed fuel f post st'); cbn [rbind].
      + rewrite IH. reflexivity.
      + cbn [existsb bad_step]. exact IH.
      + cbn [existsb bad_step]. exact IH.
      + cbn [existsb bad_step]. exact IH.
    - pose proof (trace_poll_ok fuel post st') as T.
      destruct (poll_e parse fixed fuel post st'); cbn [rbind].
      + rewrite T. reflexivity.
      + cbn [existsb bad_step]. exact T.
      + cbn [existsb bad_step]. exact T.
      + cbn [existsb bad_step]. exact T.
    - pose proof (trace_poll_ok fuel post st') as T.
      destruct (poll_e parse fixed fuel post st'); cbn [rbind].
      + rewrite T. reflexivity.
      + cbn [existsb bad_step]. exact T.
      + cbn [existsb bad_step]. exact T.
      + cbn [existsb bad_step]. exact T.
  Qed.

  Theorem trace_run_ok_lemma post s :
    match run_reader_post_e parse fixed post s with
    | Ok l => trace_run_e parse fixed post s = map SOut l
    | _ => existsb bad_step (trace_run_e parse fixed post s) = true
    end.
  Proof.
    unfold run_reader_post_e, trace_run_e.
    destruct (reader_new_e fixed (estream_fuel s) s) as [st| | |]; cbn [rbind]; try reflexivity.
    apply trace_consume_ok.
  Qed.
End Trace.
