(* Lemmas on the reader over a stream with I/O faults (TransfacFault.v, round 3):
   - without faults (stream = map EData chunks) the fault model with fixed = false IS the
     reader model of TransfacReader.v / TransfacPoll.v, so every theorem about the latter
     (totality, chunk independence, round trip) is a theorem about the model the driver runs;
   - the trace the driver compares with the implementation is `map SOut l` exactly when the
     run returns `Ok l`, and contains SPanic / SHang otherwise. *)
From Coq Require Import List Bool Arith Lia.
From Coq Require Import Init.Byte.
From LMBase Require Import Res.
From LMTransfac Require Import Bytes Stream Nom TransfacParse TransfacReader Checkers TransfacPoll TransfacFault.
Import ListNotations.

Definition lift_res {A B} (f : A -> B) (x : res A) : res B :=
  match x with
  | Ok a => Ok (f a)
  | Err c => Err c
  | Panic n => Panic n
  | OutOfFuel => OutOfFuel
  end.

Definition lift_stream (s : stream) : estream := map EData s.

Definition lift_st (st : rstate) : estate :=
  mkESt (st_buf st) (st_last st) (st_err st) (st_version st) (lift_stream (st_src st)).

(* ---- read_until / read_line without faults ---- *)

Lemma read_until_e_data : forall s acc,
  read_until_e (lift_stream s) acc =
  (false, fst (read_until_nl s acc), lift_stream (snd (read_until_nl s acc))).
Proof.
  induction s as [|c rest IH]; intros acc; cbn [lift_stream map read_until_e read_until_nl]; [reflexivity|].
  destruct (split_nl c) as [[p r]|]; [reflexivity|]. apply IH.
Qed.

Definition lift_rl (r : rl_result) : rle_result :=
  match r with RlOk n => RleOk n | RlInvalidUtf8 => RleErr end.

Lemma read_line_e_data s buf :
  read_line_e (lift_stream s) buf =
  (lift_rl (fst (fst (read_line s buf))), snd (fst (read_line s buf)), lift_stream (snd (read_line s buf))).
Proof.
  unfold read_line_e, read_line. rewrite read_until_e_data.
  destruct (read_until_nl s []) as [line s']. cbn [fst snd].
  destruct (utf8_valid line); reflexivity.
Qed.

Lemma estream_fuel_data s : estream_fuel (lift_stream s) = stream_fuel s.
Proof.
  unfold estream_fuel, stream_fuel, lift_stream. generalize 3.
  induction s as [|c rest IH]; intros n; [reflexivity|]. cbn [map fold_left]. apply IH.
Qed.

(* ---- the loops ---- *)

Section Agree.
  Variable parse : parser record.

  Lemma new_loop_e_data : forall fuel buf last s,
    new_loop_e false fuel buf last (lift_stream s) =
    lift_res (fun x => let '(b, l, e, s') := x in (b, l, e, lift_stream s')) (new_loop fuel buf last s).
  Proof.
    induction fuel as [|f IH]; intros buf last s; cbn [new_loop_e new_loop]; [reflexivity|].
    rewrite read_line_e_data. destruct (read_line s buf) as [[r b] s']. cbn [fst snd].
    destruct r as [[|n]|]; cbn [lift_rl lift_res]; try reflexivity.
    destruct (str_from b last); cbn [rbind lift_res]; try reflexivity.
    destruct (starts_with slashes a); cbn [lift_res]; [reflexivity|].
    unfold advance. apply IH.
  Qed.

  Lemma next_loop_e_data : forall fuel buf last s,
    next_loop_e false fuel buf last (lift_stream s) =
    lift_res (fun x => let '(b, l, e, s') := x in (b, l, e, lift_stream s')) (next_loop fuel buf last s).
  Proof.
    induction fuel as [|f IH]; intros buf last s; cbn [next_loop_e next_loop]; [reflexivity|].
    rewrite read_line_e_data. destruct (read_line s buf) as [[r b] s']. cbn [fst snd].
    destruct r as [[|n]|]; cbn [lift_rl lift_res]; try reflexivity.
    destruct (str_from b last); cbn [rbind lift_res]; try reflexivity.
    destruct (starts_with slashes a); cbn [lift_res]; [reflexivity|].
    unfold advance. apply IH.
  Qed.

  Lemma reader_new_e_data fuel s :
    reader_new_e false fuel (lift_stream s) = lift_res lift_st (reader_new fuel s).
  Proof.
    unfold reader_new_e, reader_new. rewrite new_loop_e_data.
    destruct (new_loop fuel [] 0 s) as [[[[b l] e] s']| | |]; cbn [lift_res rbind]; try reflexivity.
    destruct (starts_with [x56; x56] b); [|reflexivity].
    destruct (parse_version b); cbn [error_from rbind lift_res]; reflexivity.
  Qed.

  Lemma reader_next_e_data fuel st :
    reader_next_e parse false fuel (lift_st st) =
    lift_res (fun x => (fst x, lift_st (snd x))) (reader_next parse fuel st).
  Proof.
    unfold reader_next_e, reader_next. destruct st as [buf last err ver src].
    cbn [lift_st es_err es_buf es_last es_version es_src st_err st_buf st_last st_version st_src].
    destruct err; [reflexivity|].
    destruct (str_from buf last) as [tl| | |]; cbn [rbind lift_res]; try reflexivity.
    assert (T : forall b l (io : bool) s',
      (let st' := mkESt b l None ver (lift_stream s') in
       if io then Ok (OErr EIo, st')
       else match b with
            | [] => Ok (OEnd, st')
            | _ => match parse b with
                   | POk r _ => Ok (ORec r, mkESt [] 0 None ver (lift_stream s'))
                   | bad => e <- error_from bad ;; Ok (OErr e, st')
                   end
            end) =
      lift_res (fun x => (fst x, lift_st (snd x)))
        (let st' := mkSt b l None ver s' in
         if io then Ok (OErr EIo, st')
         else match b with
              | [] => Ok (OEnd, st')
              | _ => match parse b with
                     | POk r _ => Ok (ORec r, mkSt [] 0 None ver s')
                     | bad => e <- error_from bad ;; Ok (OErr e, st')
                     end
              end)).
    { intros b l io s'. cbv zeta. destruct io; [reflexivity|].
      destruct b as [|x b0]; [reflexivity|].
      destruct (parse (x :: b0)); cbn [error_from rbind lift_res]; reflexivity. }
    destruct (starts_with slashes tl).
    - cbn [rbind]. apply (T buf last false src).
    - rewrite next_loop_e_data.
      destruct (next_loop fuel buf last src) as [[[[b l] io] s']| | |]; cbn [lift_res rbind]; try reflexivity.
      apply (T b l io s').
  Qed.

  Lemma poll_e_data fuel : forall k st,
    poll_e parse false fuel k (lift_st st) = poll parse fuel k st.
  Proof.
    induction k as [|k IH]; intros st; cbn [poll_e poll]; [reflexivity|].
    rewrite reader_next_e_data.
    destruct (reader_next parse fuel st) as [[o st']| | |]; cbn [lift_res rbind fst snd]; try reflexivity.
    rewrite IH. reflexivity.
  Qed.

  Lemma consume_post_e_data fuel post : forall cfuel st,
    consume_post_e parse false fuel cfuel post (lift_st st) = consume_post parse fuel cfuel post st.
  Proof.
    induction cfuel as [|f IH]; intros st; cbn [consume_post_e consume_post]; [reflexivity|].
    rewrite reader_next_e_data.
    destruct (reader_next parse fuel st) as [[o st']| | |]; cbn [lift_res rbind fst snd]; try reflexivity.
    destruct o; [rewrite IH|rewrite poll_e_data|rewrite poll_e_data]; reflexivity.
  Qed.

  Theorem fault_free_agree_lemma post s :
    run_reader_post_e parse false post (lift_stream s) = run_reader_post parse post s.
  Proof.
    unfold run_reader_post_e, run_reader_post. rewrite estream_fuel_data, reader_new_e_data.
    destruct (reader_new (stream_fuel s) s); cbn [lift_res rbind]; try reflexivity.
    apply consume_post_e_data.
  Qed.
End Agree.

(* ---- the trace ---- *)

Definition bad_step (x : step) : bool := match x with SOut _ => false | _ => true end.

Section Trace.
  Variable parse : parser record.
  Variable fixed : bool.

  Lemma trace_poll_ok fuel : forall k st,
    match poll_e parse fixed fuel k st with
    | Ok l => trace_poll_e parse fixed fuel k st = map SOut l
    | _ => existsb bad_step (trace_poll_e parse fixed fuel k st) = true
    end.
  Proof.
    induction k as [|k IH]; intros st; cbn [poll_e trace_poll_e]; [reflexivity|].
    destruct (reader_next_e parse fixed fuel st) as [[o st']| | |]; cbn [rbind fst snd]; try reflexivity.
    specialize (IH st'). destruct (poll_e parse fixed fuel k st'); cbn [rbind].
    - rewrite IH. reflexivity.
    - cbn [existsb bad_step]. exact IH.
    - cbn [existsb bad_step]. exact IH.
    - cbn [existsb bad_step]. exact IH.
  Qed.

  Lemma trace_consume_ok fuel post : forall cfuel st,
    match consume_post_e parse fixed fuel cfuel post st with
    | Ok l => trace_consume_e parse fixed fuel cfuel post st = map SOut l
    | _ => existsb bad_step (trace_consume_e parse fixed fuel cfuel post st) = true
    end.
  Proof.
    induction cfuel as [|f IH]; intros st; cbn [consume_post_e trace_consume_e]; [reflexivity|].
    destruct (reader_next_e parse fixed fuel st) as [[o st']| | |]; cbn [rbind]; try reflexivity.
    destruct o as [r|e|].
    - specialize (IH st'). destruct (consume_post_e parse fixed fuel f post st'); cbn [rbind].
      + rewrite IH. reflexivity.
      + cbn [existsb bad_step]. exact IH.
      + cbn [existsb bad_step]. exact IH.
      + cbn [existsb bad_step]. exact IH.
    - pose proof (trace_poll_ok fuel post st') as T.
      destruct (poll_e parse fixed fuel post st'); cbn [rbind].
      + rewrite T. reflexivity.
      + cbn [existsb bad_step]. exact T.
      + cbn [existsb bad_step]. exact T.
      + cbn [existsb bad_step]. exact T.
    - pose proof (trace_poll_ok fuel post st') as T.
      destruct (poll_e parse fixed fuel post st'); cbn [rbind].
      + rewrite T. reflexivity.
      + cbn [existsb bad_step]. exact T.
      + cbn [existsb bad_step]. exact T.
      + cbn [existsb bad_step]. exact T.
  Qed.

  Theorem trace_run_ok_lemma post s :
    match run_reader_post_e parse fixed post s with
    | Ok l => trace_run_e parse fixed post s = map SOut l
    | _ => existsb bad_step (trace_run_e parse fixed post s) = true
    end.
  Proof.
    unfold run_reader_post_e, trace_run_e.
    destruct (reader_new_e fixed (estream_fuel s) s) as [st| | |]; cbn [rbind]; try reflexivity.
    apply trace_consume_ok.
  Qed.
End Trace.
