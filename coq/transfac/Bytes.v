(* Byte strings for the TRANSFAC reader model.

   The Rust code works on `String`/`&str` (UTF-8).  The model works on the underlying
   bytes: every buffer the parser sees was validated by `read_line` ([utf8_valid]), and
   on valid UTF-8 each character-level operation of the code (nom's `take(2usize)`,
   `anychar`, `char`, `take_till`, `str::trim`, `starts_with`) has the byte-level
   reading given here (ASCII bytes never occur inside a multi-byte sequence and lead
   bytes never are continuation bytes).  No proofs in this file. *)
From Coq Require Import List Bool Arith NArith.
From Coq Require Import Init.Byte Strings.Byte.
Import ListNotations.

Definition str := list byte.

Definition bN (b : byte) : N := Byte.to_N b.

Definition beq (a b : byte) : bool := Byte.eqb a b.

Definition is_nl (b : byte) : bool := match b with x0a => true | _ => false end.
(* nom's space0/space1: blank or tab *)
Definition is_blank (b : byte) : bool := match b with x20 | x09 => true | _ => false end.
Definition is_digit (b : byte) : bool :=
  match b with x30 | x31 | x32 | x33 | x34 | x35 | x36 | x37 | x38 | x39 => true | _ => false end.
Definition digit_val (b : byte) : N := (bN b - 48)%N.
(* UTF-8 continuation byte 0x80..0xBF *)
Definition is_cont (b : byte) : bool := (N.leb 128 (bN b) && N.ltb (bN b) 192)%bool.

Fixpoint str_eqb (a b : str) : bool :=
  match a, b with
  | [], [] => true
  | x :: a', y :: b' => beq x y && str_eqb a' b'
  | _, _ => false
  end.

(* [starts_with p l]: l begins with the bytes p *)
Fixpoint starts_with (p l : str) : bool :=
  match p with
  | [] => true
  | x :: p' => match l with
               | [] => false
               | y :: l' => beq x y && starts_with p' l'
               end
  end.

(* ASCII case-insensitive comparison against a lower-case pattern (nom's tag_no_case on
   the patterns "nan"/"inf": no non-ASCII character lower-cases to these letters) *)
Definition lower (b : byte) : byte :=
  if (N.leb 65 (bN b) && N.leb (bN b) 90)%bool
  then match Byte.of_N (bN b + 32) with Some c => c | None => b end
  else b.
Fixpoint starts_with_nocase (p l : str) : bool :=
  match p with
  | [] => true
  | x :: p' => match l with
               | [] => false
               | y :: l' => beq x (lower y) && starts_with_nocase p' l'
               end
  end.

(* longest prefix of bytes satisfying f, and the rest *)
Fixpoint span (f : byte -> bool) (l : str) : str * str :=
  match l with
  | [] => ([], [])
  | b :: t => if f b then let '(p, r) := span f t in (b :: p, r) else ([], l)
  end.

(* ---- UTF-8 ---- *)

(* Well-formed UTF-8 (Unicode table 3-7), what `str::from_utf8` accepts. *)
Fixpoint utf8_valid (l : str) : bool :=
  match l with
  | [] => true
  | b0 :: t =>
    let n0 := bN b0 in
    if N.ltb n0 128 then utf8_valid t
    else if N.ltb n0 194 then false
    else if N.ltb n0 224 then
      match t with
      | b1 :: t1 => is_cont b1 && utf8_valid t1
      | _ => false
      end
    else if N.ltb n0 240 then
      match t with
      | b1 :: b2 :: t2 =>
          let n1 := bN b1 in
          (if N.eqb n0 224 then N.leb 160 n1 && N.leb n1 191
           else if N.eqb n0 237 then N.leb 128 n1 && N.leb n1 159
           else is_cont b1) && is_cont b2 && utf8_valid t2
      | _ => false
      end
    else if N.ltb n0 245 then
      match t with
      | b1 :: b2 :: b3 :: t3 =>
          let n1 := bN b1 in
          (if N.eqb n0 240 then N.leb 144 n1 && N.leb n1 191
           else if N.eqb n0 244 then N.leb 128 n1 && N.leb n1 143
           else is_cont b1) && is_cont b2 && is_cont b3 && utf8_valid t3
      | _ => false
      end
    else false
  end.

(* number of bytes of the character starting with lead byte b (valid UTF-8 assumed) *)
Definition utf8_width (b : byte) : nat :=
  let n := bN b in
  if N.ltb n 192 then 1 else if N.ltb n 224 then 2 else if N.ltb n 240 then 3 else 4.

(* the string holds at least two characters (nom's `take(2usize)` succeeds) *)
Definition has_two_chars (l : str) : bool :=
  match l with
  | [] => false
  | b :: _ => match skipn (utf8_width b) l with [] => false | _ => true end
  end.

(* ---- str::trim (Unicode White_Space) ---- *)

(* byte length of the White_Space character at the head of l, 0 if there is none:
   U+0009..U+000D, U+0020, U+0085, U+00A0, U+1680, U+2000..U+200A, U+2028, U+2029,
   U+202F, U+205F, U+3000 *)
Definition ws_head (l : str) : nat :=
  match l with
  | [] => 0
  | b0 :: t =>
    let n0 := bN b0 in
    if (N.leb 9 n0 && N.leb n0 13) || N.eqb n0 32 then 1 else
    match t with
    | [] => 0
    | b1 :: t1 =>
      let n1 := bN b1 in
      if N.eqb n0 194 && (N.eqb n1 133 || N.eqb n1 160) then 2 else
      match t1 with
      | [] => 0
      | b2 :: _ =>
        let n2 := bN b2 in
        if N.eqb n0 225 && N.eqb n1 154 && N.eqb n2 128 then 3 else
        if N.eqb n0 226 && N.eqb n1 128 &&
           ((N.leb 128 n2 && N.leb n2 138) || N.eqb n2 168 || N.eqb n2 169 || N.eqb n2 175) then 3 else
        if N.eqb n0 226 && N.eqb n1 129 && N.eqb n2 159 then 3 else
        if N.eqb n0 227 && N.eqb n1 128 && N.eqb n2 128 then 3 else 0
      end
    end
  end.

(* the same on the reversed string: White_Space character at the end *)
Definition ws_last (rl : str) : nat :=
  match rl with
  | [] => 0
  | b0 :: t =>
    let n0 := bN b0 in
    if (N.leb 9 n0 && N.leb n0 13) || N.eqb n0 32 then 1 else
    match t with
    | [] => 0
    | b1 :: t1 =>
      let n1 := bN b1 in
      if N.eqb n1 194 && (N.eqb n0 133 || N.eqb n0 160) then 2 else
      match t1 with
      | [] => 0
      | b2 :: _ =>
        let n2 := bN b2 in
        if N.eqb n2 225 && N.eqb n1 154 && N.eqb n0 128 then 3 else
        if N.eqb n2 226 && N.eqb n1 128 &&
           ((N.leb 128 n0 && N.leb n0 138) || N.eqb n0 168 || N.eqb n0 169 || N.eqb n0 175) then 3 else
        if N.eqb n2 226 && N.eqb n1 129 && N.eqb n0 159 then 3 else
        if N.eqb n2 227 && N.eqb n1 128 && N.eqb n0 128 then 3 else 0
      end
    end
  end.

Fixpoint strip (h : str -> nat) (fuel : nat) (l : str) : str :=
  match fuel with
  | O => l
  | S f => match h l with
           | O => l
           | n => strip h f (skipn n l)
           end
  end.

Definition trim_start (l : str) : str := strip ws_head (length l) l.
Definition trim_end (l : str) : str := rev (strip ws_last (length l) (rev l)).
Definition trim (l : str) : str := trim_end (trim_start l).
