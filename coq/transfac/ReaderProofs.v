(* Lemmas on the reader state machine (TransfacReader.v), for an arbitrary record parser:
   - the whole run depends on the concatenation of the chunks only (chunk independence);
   - totality (C15): if the record parser never answers Incomplete / out-of-fuel, then
     `Reader::new` and every `next` return a record, an error or the end of input -- the
     slice `&buffer[last..]` is always in bounds and on a character boundary, the loops end
     (measure: number of lines left in the stream), and a consumer that stops at the first
     error or at the end of input stops (every record consumes a line of the stream or the
     buffer filled by `new`). *)
From Coq Require Import List Bool Arith NArith Lia.
From Coq Require Import Init.Byte.
From LMBase Require Import Res.
From LMTransfac Require Import Bytes Stream Nom TransfacParse TransfacReader StreamProofs ParseProofs.
Import ListNotations.

(* ---- chunk independence ---- *)

Section Chunks.
  Variable parse : parser record.

  (* results that carry a stream are compared up to the bytes of that stream *)
  Definition same4 {A B C} (x y : res (A * B * C * stream)) : Prop :=
    match x, y with
    | Ok (a, b, c, s), Ok (a', b', c', s') => a = a' /\ b = b' /\ c = c' /\ concat s = concat s'
    | Err c, Err c' => c = c'
    | Panic n, Panic n' => n = n'
    | OutOfFuel, OutOfFuel => True
    | _, _ => False
    end.

  Lemma read_line_same s1 s2 buf :
    concat s1 = concat s2 ->
    exists r b t1 t2, read_line s1 buf = (r, b, t1) /\ read_line s2 buf = (r, b, t2) /\
                      concat t1 = concat t2.
  Proof.
    intros H. destruct (read_line_chunk_independent_lemma s1 s2 buf H) as [A B].
    destruct (read_line s1 buf) as [[r1 b1] t1], (read_line s2 buf) as [[r2 b2] t2]; simpl in *.
    inversion A; subst. exists r2, b2, t1, t2. auto.
  Qed.

  Lemma new_loop_same : forall fuel buf last s1 s2,
    concat s1 = concat s2 -> same4 (new_loop fuel buf last s1) (new_loop fuel buf last s2).
  Proof.
    induction fuel as [|f IH]; intros buf last s1 s2 H; cbn [new_loop]; [exact I|].
    destruct (read_line_same s1 s2 buf H) as (r & b & t1 & t2 & E1 & E2 & Ht).
    rewrite E1, E2. destruct r as [[|n]|]; cbn [same4]; try (repeat split; auto; fail).
    destruct (str_from b last); cbn [rbind same4]; auto.
    destruct (starts_with slashes a); cbn [same4]; [repeat split; auto|apply IH; exact Ht].
  Qed.

  Lemma next_loop_same : forall fuel buf last s1 s2,
    concat s1 = concat s2 -> same4 (next_loop fuel buf last s1) (next_loop fuel buf last s2).
  Proof.
    induction fuel as [|f IH]; intros buf last s1 s2 H; cbn [next_loop]; [exact I|].
    destruct (read_line_same s1 s2 buf H) as (r & b & t1 & t2 & E1 & E2 & Ht).
    rewrite E1, E2. destruct r as [[|n]|]; cbn [same4]; try (repeat split; auto; fail).
    destruct (str_from b last); cbn [rbind same4]; auto.
    destruct (starts_with slashes a); cbn [same4]; [repeat split; auto|apply IH; exact Ht].
  Qed.

  (* two reader states that differ in the chunking of the unread bytes only *)
  Definition st_same (a b : rstate) : Prop :=
    st_buf a = st_buf b /\ st_last a = st_last b /\ st_err a = st_err b /\
    st_version a = st_version b /\ concat (st_src a) = concat (st_src b).

  Definition same_st (x y : res rstate) : Prop :=
    match x, y with
    | Ok a, Ok b => st_same a b
    | Err c, Err c' => c = c'
    | Panic n, Panic n' => n = n'
    | OutOfFuel, OutOfFuel => True
    | _, _ => False
    end.

  Lemma reader_new_same fuel s1 s2 :
    concat s1 = concat s2 -> same_st (reader_new fuel s1) (reader_new fuel s2).
  Proof.
    intros H. unfold reader_new. pose proof (new_loop_same fuel [] 0 s1 s2 H) as L.
    destruct (new_loop fuel [] 0 s1) as [[[[b1 l1] e1] t1]| | |],
             (new_loop fuel [] 0 s2) as [[[[b2 l2] e2] t2]| | |]; cbn [same4] in L; try contradiction;
      cbn [rbind same_st]; auto.
    destruct L as (-> & -> & -> & Ht).
    destruct (starts_with [x56; x56] b2).
    - destruct (parse_version b2); simpl; unfold st_same; simpl; repeat split; auto.
    - simpl. unfold st_same; simpl; repeat split; auto.
  Qed.

  Definition same_step (x y : res (outcome * rstate)) : Prop :=
    match x, y with
    | Ok (o, a), Ok (o', b) => o = o' /\ st_same a b
    | Err c, Err c' => c = c'
    | Panic n, Panic n' => n = n'
    | OutOfFuel, OutOfFuel => True
    | _, _ => False
    end.

  Lemma reader_next_same fuel a b :
    st_same a b -> same_step (reader_next parse fuel a) (reader_next parse fuel b).
  Proof.
    intros (Hb & Hl & He & Hv & Hs). unfold reader_next.
    destruct a as [ba la ea va sa], b as [bb lb eb vb sb]; cbn [st_buf st_last st_err st_version st_src] in *.
    subst.
    assert (T : forall (b : str) (l : nat) (t1 t2 : stream), concat t1 = concat t2 ->
              same_step
                (match b with
                 | [] => Ok (OEnd, mkSt b l None vb t1)
                 | _ => match parse b with
                        | POk r _ => Ok (ORec r, mkSt [] 0 None vb t1)
                        | bad => e <- error_from bad ;; Ok (OErr e, mkSt b l None vb t1)
                        end
                 end)
                (match b with
                 | [] => Ok (OEnd, mkSt b l None vb t2)
                 | _ => match parse b with
                        | POk r _ => Ok (ORec r, mkSt [] 0 None vb t2)
                        | bad => e <- error_from bad ;; Ok (OErr e, mkSt b l None vb t2)
                        end
                 end)).
    { intros b l t1 t2 Ht. destruct b as [|x b0]; [simpl; unfold st_same; simpl; repeat split; auto|].
      destruct (parse (x :: b0)); simpl; unfold st_same; simpl; repeat split; auto. }
    destruct eb; [simpl; unfold st_same; simpl; repeat split; auto|].
    destruct (str_from bb lb) as [tl| | |]; cbn [rbind same_step]; auto.
    destruct (starts_with slashes tl).
    - cbn [rbind]. apply T. exact Hs.
    - pose proof (next_loop_same fuel bb lb sa sb Hs) as L.
      destruct (next_loop fuel bb lb sa) as [[[[b1 l1] e1] t1]| | |],
               (next_loop fuel bb lb sb) as [[[[b2 l2] e2] t2]| | |]; cbn [same4] in L; try contradiction;
        cbn [rbind same_step]; auto.
      destruct L as (-> & -> & -> & Ht).
      destruct e2; [simpl; unfold st_same; simpl; repeat split; auto|].
      apply T. exact Ht.
  Qed.

  Lemma consume_same fuel : forall cfuel a b,
    st_same a b -> consume parse fuel cfuel a = consume parse fuel cfuel b.
  Proof.
    induction cfuel as [|f IH]; intros a b H; simpl; [reflexivity|].
    pose proof (reader_next_same fuel a b H) as L.
    destruct (reader_next parse fuel a) as [[o1 a']| | |],
             (reader_next parse fuel b) as [[o2 b']| | |]; simpl in L; try contradiction;
      simpl; try congruence.
    destruct L as [-> L]. destruct o2; auto. rewrite (IH a' b' L). reflexivity.
  Qed.

  Lemma run_reader_same s1 s2 :
    concat s1 = concat s2 -> run_reader parse s1 = run_reader parse s2.
  Proof.
    intros H. unfold run_reader. rewrite (stream_fuel_concat s1 s2 H).
    pose proof (reader_new_same (stream_fuel s2) s1 s2 H) as L.
    destruct (reader_new (stream_fuel s2) s1), (reader_new (stream_fuel s2) s2);
      simpl in L; try contradiction; simpl; try congruence.
    apply consume_same. exact L.
  Qed.
End Chunks.

(* ---- totality ---- *)

Definition pres_total {A} (x : pres A) : Prop := x <> PIncomplete /\ x <> PFuel.

Lemma error_from_total {A} (x : pres A) : pres_total x -> exists e, error_from x = Ok e.
Proof. intros [H1 H2]. destruct x; simpl; eauto; congruence. Qed.

(* the reader's invariant: `last` is the length of the buffer, or the offset of a line that
   starts with "//" *)
Definition inv (buf : str) (last : nat) : Prop :=
  last = length buf \/
  exists a b, buf = a ++ b /\ length a = last /\ starts_with slashes b = true.

Lemma str_from_end buf : str_from buf (length buf) = Ok [].
Proof.
  unfold str_from. rewrite Nat.ltb_irrefl, skipn_all. reflexivity.
Qed.

Lemma str_from_app a b :
  match b with [] => True | x :: _ => is_cont x = false end ->
  str_from (a ++ b) (length a) = Ok b.
Proof.
  intros H. unfold str_from. rewrite app_length.
  destruct (Nat.ltb_spec (length a + length b) (length a)) as [L|L]; [lia|].
  rewrite skipn_app, skipn_all, Nat.sub_diag. simpl.
  destruct b as [|x t]; [reflexivity|]. rewrite H. reflexivity.
Qed.

Lemma starts_with_slashes_head b : starts_with slashes b = true ->
  match b with [] => True | x :: _ => is_cont x = false end.
Proof.
  destruct b as [|x t]; [auto|]. simpl. intros H. apply andb_true_iff in H. destruct H as [H _].
  unfold beq in H. apply Byte.byte_dec_bl in H. subst x. reflexivity.
Qed.

Lemma inv_str_from buf last : inv buf last -> exists tl, str_from buf last = Ok tl.
Proof.
  intros [->|(a & b & -> & <- & H)].
  - exists []. apply str_from_end.
  - exists b. apply str_from_app, starts_with_slashes_head, H.
Qed.

Lemma valid_line_head line : utf8_valid line = true ->
  match line with [] => True | x :: _ => is_cont x = false end.
Proof. destruct line as [|x t]; [auto|]. apply utf8_valid_head. Qed.

Section Total.
  Variable parse : parser record.
  Hypothesis parse_total : forall i, pres_total (parse i).

  (* Reader::new's loop *)
  Lemma new_loop_ok : forall fuel buf s,
    nlines (concat s) < fuel ->
    exists buf' last' e s',
      new_loop fuel buf (length buf) s = Ok (buf', last', e, s') /\ inv buf' last' /\
      nlines (concat s') <= nlines (concat s).
  Proof.
    induction fuel as [|f IH]; intros buf s L; [lia|]. cbn [new_loop].
    destruct (read_line_cases s buf) as [(E & R & S')|(line & rest & E & Hne & Hn & S' & [[U R]|[U R]])].
    - destruct (read_line s buf) as [[r b] s'] eqn:RL. cbn [fst snd] in *. inversion R; subst.
      exists buf, (length buf), None, s'. split; [reflexivity|]. split; [left; reflexivity|].
      rewrite S', E. lia.
    - destruct (read_line s buf) as [[r b] s'] eqn:RL. cbn [fst snd] in *. inversion R; subst r b.
      destruct (length line) as [|n] eqn:Len; [destruct line; [congruence|discriminate]|].
      rewrite (str_from_app buf line (valid_line_head _ U)). cbn [rbind].
      destruct (starts_with slashes line) eqn:SW.
      + exists (buf ++ line), (length buf), None, s'. split; [reflexivity|].
        split; [right; exists buf, line; auto|]. rewrite S', Hn. lia.
      + specialize (IH (buf ++ line) s'). rewrite S' in IH.
        destruct IH as (b' & l' & e' & s'' & H1 & H2 & H3); [lia|].
        exists b', l', e', s''.
        split; [exact H1|]. split; [exact H2|]. rewrite Hn. lia.
    - destruct (read_line s buf) as [[r b] s'] eqn:RL. cbn [fst snd] in *. inversion R; subst r b.
      exists buf, (length buf), (Some EIo), s'. split; [reflexivity|]. split; [left; reflexivity|].
      rewrite S', Hn. lia.
  Qed.

  (* Iterator::next's loop: afterwards `last` is the length of the buffer; either nothing
     was left to read (buffer unchanged) or the stream has fewer lines *)
  Lemma next_loop_ok : forall fuel buf s,
    nlines (concat s) < fuel ->
    exists buf' io s',
      next_loop fuel buf (length buf) s = Ok (buf', length buf', io, s') /\
      ((buf' = buf /\ io = false /\ concat s' = [] /\ concat s = []) \/
       nlines (concat s') < nlines (concat s)).
  Proof.
    induction fuel as [|f IH]; intros buf s L; [lia|]. cbn [next_loop].
    destruct (read_line_cases s buf) as [(E & R & S')|(line & rest & E & Hne & Hn & S' & [[U R]|[U R]])].
    - destruct (read_line s buf) as [[r b] s'] eqn:RL. cbn [fst snd] in *. inversion R; subst.
      exists buf, false, s'. split; [reflexivity|]. left. auto.
    - destruct (read_line s buf) as [[r b] s'] eqn:RL. cbn [fst snd] in *. inversion R; subst r b.
      destruct (length line) as [|n] eqn:Len; [destruct line; [congruence|discriminate]|].
      rewrite (str_from_app buf line (valid_line_head _ U)). cbn [rbind].
      destruct (starts_with slashes line) eqn:SW.
      + exists (buf ++ line), false, s'. split; [reflexivity|].
        right. rewrite S', Hn. lia.
      + specialize (IH (buf ++ line) s'). rewrite S' in IH.
        destruct IH as (b' & io' & s'' & H1 & H2); [lia|].
        exists b', io', s''. split; [exact H1|].
        right. rewrite Hn. destruct H2 as [(_ & _ & H2 & _)|H2]; [rewrite H2; simpl; unfold nlines; simpl|]; lia.
    - destruct (read_line s buf) as [[r b] s'] eqn:RL. cbn [fst snd] in *. inversion R; subst r b.
      exists buf, true, s'. split; [reflexivity|]. right. rewrite S', Hn. lia.
  Qed.

  Definition st_inv (st : rstate) : Prop := inv (st_buf st) (st_last st).

  (* the consumer's measure *)
  Definition measure (st : rstate) : nat :=
    nlines (concat (st_src st)) + (match st_buf st with [] => 0 | _ => 1 end) + 1.

  Lemma reader_new_ok fuel s :
    nlines (concat s) < fuel ->
    exists st, reader_new fuel s = Ok st /\ st_inv st /\
               nlines (concat (st_src st)) <= nlines (concat s).
  Proof.
    intros L. unfold reader_new.
    destruct (new_loop_ok fuel [] s L) as (b & l & e & s' & H1 & H2 & H3).
    cbn [length] in H1. rewrite H1. cbn [rbind].
    destruct (starts_with [x56; x56] b).
    - destruct (parse_version b) as [v r| | | |] eqn:PV.
      + eexists. split; [reflexivity|]. split; [left; reflexivity|exact H3].
      + eexists. split; [reflexivity|]. split; [exact H2|exact H3].
      + eexists. split; [reflexivity|]. split; [exact H2|exact H3].
      + exfalso. pose proof (ParseProofs.parse_version_total b) as [T _]. congruence.
      + exfalso. pose proof (ParseProofs.parse_version_total b) as [_ T]. congruence.
    - eexists. split; [reflexivity|]. split; [exact H2|exact H3].
  Qed.

  Definition is_rec (o : outcome) : bool := match o with ORec _ => true | _ => false end.

  Lemma reader_next_ok fuel st :
    st_inv st -> nlines (concat (st_src st)) < fuel ->
    exists o st', reader_next parse fuel st = Ok (o, st') /\ st_inv st' /\
                  nlines (concat (st_src st')) <= nlines (concat (st_src st)) /\
                  (is_rec o = true -> measure st' < measure st).
  Proof.
    intros I L. unfold reader_next. destruct st as [buf last err ver src]; cbn [st_buf st_last st_err st_version st_src] in *.
    unfold st_inv in I; cbn in I.
    destruct err as [e|].
    { eexists _, _. split; [reflexivity|]. split; [exact I|]. split; [cbn [st_src]; lia|]. intros H; discriminate. }
    destruct (inv_str_from buf last I) as [tl Htl]. rewrite Htl. cbn [rbind].
    (* after the loop (or without it): buffer b, offset l, error flag, stream *)
    assert (P : forall b l s' (guard : b <> [] -> measure (mkSt [] 0 None ver s') < measure (mkSt buf last None ver src)),
              inv b l -> nlines (concat s') <= nlines (concat src) ->
              exists o st',
                (match b with
                 | [] => Ok (OEnd, mkSt b l None ver s')
                 | _ => match parse b with
                        | POk r _ => Ok (ORec r, mkSt [] 0 None ver s')
                        | bad => e <- error_from bad ;; Ok (OErr e, mkSt b l None ver s')
                        end
                 end) = Ok (o, st') /\ st_inv st' /\
                nlines (concat (st_src st')) <= nlines (concat src) /\
                (is_rec o = true -> measure st' < measure (mkSt buf last None ver src))).
    { intros b l s' guard Ib Ls. destruct b as [|x b].
      - eexists _, _. split; [reflexivity|]. split; [exact Ib|]. split; [exact Ls|]. intros H; discriminate.
      - destruct (parse (x :: b)) as [r rest| | | |] eqn:PB.
        + eexists _, _. split; [reflexivity|]. split; [left; reflexivity|]. split; [exact Ls|].
          intros _. apply guard. discriminate.
        + eexists _, _. split; [reflexivity|]. split; [exact Ib|]. split; [exact Ls|]. intros H; discriminate.
        + eexists _, _. split; [reflexivity|]. split; [exact Ib|]. split; [exact Ls|]. intros H; discriminate.
        + exfalso. destruct (parse_total (x :: b)) as [T _]. congruence.
        + exfalso. destruct (parse_total (x :: b)) as [_ T]. congruence. }
    destruct (starts_with slashes tl) eqn:SW.
    - cbn [rbind]. apply P; [|exact I|lia].
      intros Hb. unfold measure; cbn [st_src st_buf]. destruct buf; [congruence|]. lia.
    - (* the loop runs: last = length buf *)
      assert (last = length buf) as ->.
      { destruct I as [->|(a & b & -> & <- & H)]; [reflexivity|].
        rewrite (str_from_app a b (starts_with_slashes_head _ H)) in Htl. inversion Htl; subst. congruence. }
      destruct (next_loop_ok fuel buf src L) as (b' & io & s' & H1 & H2).
      rewrite H1. cbn [rbind].
      assert (Ls : nlines (concat s') <= nlines (concat src)).
      { destruct H2 as [(_ & _ & -> & ->)|H2]; lia. }
      destruct io.
      + eexists _, _. split; [reflexivity|]. split; [left; reflexivity|]. split; [exact Ls|]. intros H; discriminate.
      + apply P; [|left; reflexivity|exact Ls].
        intros Hb. unfold measure; cbn [st_src st_buf].
        destruct H2 as [(-> & _ & -> & ->)|H2].
        * destruct buf; [congruence|]. lia.
        * destruct buf; lia.
  Qed.

  (* outcome sequences of a consumer: records, then one error or the end of input *)
  Definition shape (l : list outcome) : Prop :=
    exists rs o, l = map ORec rs ++ [o] /\ is_rec o = false.

  Lemma consume_ok fuel : forall cfuel st,
    st_inv st -> nlines (concat (st_src st)) < fuel -> measure st <= cfuel ->
    exists l, consume parse fuel cfuel st = Ok l /\ shape l.
  Proof.
    induction cfuel as [|f IH]; intros st I L M; [unfold measure in M; lia|].
    cbn [consume].
    destruct (reader_next_ok fuel st I L) as (o & st' & H1 & H2 & H3 & H4).
    rewrite H1. cbn [rbind].
    destruct o as [r|e|].
    - destruct (IH st' H2) as (l & Hl & (rs & o & -> & Ho)); [lia|specialize (H4 eq_refl); lia|].
      rewrite Hl. cbn [rbind]. eexists. split; [reflexivity|].
      exists (r :: rs), o. split; [reflexivity|exact Ho].
    - eexists. split; [reflexivity|]. exists [], (OErr e). split; reflexivity.
    - eexists. split; [reflexivity|]. exists [], OEnd. split; reflexivity.
  Qed.

  Theorem run_reader_total s : exists l, run_reader parse s = Ok l /\ shape l.
  Proof.
    unfold run_reader. pose proof (stream_fuel_ge s) as F.
    destruct (reader_new_ok (stream_fuel s) s) as (st & H1 & H2 & H3); [lia|].
    rewrite H1. cbn [rbind].
    apply consume_ok; [exact H2|lia|].
    unfold measure. destruct (st_buf st); lia.
  Qed.
End Total.
