(* The nom 7.1.3 combinators used by lightmotif-io/src/transfac/parse.rs, on byte strings.

   A parser maps its input to one of nom's results: `Ok((rest, value))`,
   `Err(Err::Error)`, `Err(Err::Failure)`, `Err(Err::Incomplete)`; [PFuel] marks an
   exhausted recursion bound of the model (proved unreachable in NomProofs).  Error
   kinds and error positions are not modelled (the reader only keeps "a nom error").
   Complete and streaming variants are distinguished: the streaming `space1` is kept
   here because the code used it before the repair of F18.  No proofs in this file. *)
From Coq Require Import List Bool Arith NArith.
From Coq Require Import Init.Byte.
From LMTransfac Require Import Bytes.
Import ListNotations.

Inductive pres (A : Type) : Type :=
| POk (a : A) (rest : str)
| PError
| PFailure
| PIncomplete
| PFuel.
Arguments POk {A} a rest.
Arguments PError {A}.
Arguments PFailure {A}.
Arguments PIncomplete {A}.
Arguments PFuel {A}.

Definition parser (A : Type) := str -> pres A.

(* the `?` operator / sequencing *)
Definition pbind {A B} (x : pres A) (k : A -> str -> pres B) : pres B :=
  match x with
  | POk a r => k a r
  | PError => PError
  | PFailure => PFailure
  | PIncomplete => PIncomplete
  | PFuel => PFuel
  end.

Definition pmap {A B} (f : A -> B) (p : parser A) : parser B :=
  fun i => pbind (p i) (fun a r => POk (f a) r).

(* bytes::complete::tag *)
Definition tag (t : str) : parser str :=
  fun i => if starts_with t i then POk t (skipn (length t) i) else PError.

(* bytes::complete::tag_no_case with a lower-case ASCII pattern; value = matched input *)
Definition tag_no_case (t : str) : parser str :=
  fun i => if starts_with_nocase t i then POk (firstn (length t) i) (skipn (length t) i) else PError.

(* character::complete::char for an ASCII character *)
Definition char_ (c : byte) : parser byte :=
  fun i => match i with
           | b :: r => if beq c b then POk b r else PError
           | [] => PError
           end.

(* character::complete::space0 *)
Definition space0 : parser str :=
  fun i => let '(p, r) := span is_blank i in POk p r.

(* character::complete::space1 *)
Definition space1_complete : parser str :=
  fun i => let '(p, r) := span is_blank i in
           match p with [] => PError | _ => POk p r end.

(* character::streaming::space1: Incomplete when no non-blank character follows *)
Definition space1_streaming : parser str :=
  fun i => let '(p, r) := span is_blank i in
           match r with
           | [] => PIncomplete
           | _ => match p with [] => PError | _ => POk p r end
           end.

(* character::complete::digit1 *)
Definition digit1 : parser str :=
  fun i => let '(p, r) := span is_digit i in
           match p with [] => PError | _ => POk p r end.

(* character::complete::line_ending: "\n" or "\r\n" *)
Definition line_ending : parser str :=
  fun i => match i with
           | x0a :: r => POk [x0a] r
           | x0d :: x0a :: r => POk [x0d; x0a] r
           | _ => PError
           end.

(* combinator::eof *)
Definition eof : parser str :=
  fun i => match i with [] => POk [] [] | _ => PError end.

(* bytes::complete::take_till(|c| c == stop) for an ASCII stop character *)
Definition take_till (stop : byte) : parser str :=
  fun i => let '(p, r) := span (fun b => negb (beq stop b)) i in POk p r.

(* character::complete::{u8,u16,u32}: decimal digits, Error on overflow *)
Fixpoint uint_loop (maxv : N) (i : str) (acc : N) (first : bool) : pres N :=
  match i with
  | [] => if first then PError else POk acc []
  | b :: t =>
      if is_digit b then
        let v := (acc * 10 + digit_val b)%N in
        if N.ltb maxv v then PError else uint_loop maxv t v false
      else if first then PError else POk acc i
  end.
Definition uint (maxv : N) : parser N := fun i => uint_loop maxv i 0%N true.
Definition u8 := uint 255%N.
Definition u16 := uint 65535%N.
Definition u32 := uint 4294967295%N.

(* sequence::{preceded,terminated,delimited,pair} *)
Definition preceded {A B} (p : parser A) (q : parser B) : parser B :=
  fun i => pbind (p i) (fun _ r => q r).
Definition terminated {A B} (p : parser A) (q : parser B) : parser A :=
  fun i => pbind (p i) (fun a r => pbind (q r) (fun _ r' => POk a r')).
Definition delimited {A B C} (p : parser A) (q : parser B) (s : parser C) : parser B :=
  fun i => pbind (p i) (fun _ r => pbind (q r) (fun b r' => pbind (s r') (fun _ r'' => POk b r''))).
Definition pair_ {A B} (p : parser A) (q : parser B) : parser (A * B) :=
  fun i => pbind (p i) (fun a r => pbind (q r) (fun b r' => POk (a, b) r')).

(* branch::alt: the next alternative is tried on Error only *)
Definition alt2 {A} (p q : parser A) : parser A :=
  fun i => match p i with PError => q i | x => x end.

(* combinator::opt: Error becomes None *)
Definition opt {A} (p : parser A) : parser (option A) :=
  fun i => match p i with
           | POk a r => POk (Some a) r
           | PError => POk None i
           | PFailure => PFailure
           | PIncomplete => PIncomplete
           | PFuel => PFuel
           end.

(* combinator::cut: Error becomes Failure *)
Definition cut {A} (p : parser A) : parser A :=
  fun i => match p i with PError => PFailure | x => x end.

(* combinator::recognize: the consumed input *)
Definition recognize {A} (p : parser A) : parser str :=
  fun i => pbind (p i) (fun _ r => POk (firstn (length i - length r) i) r).

(* multi::many1 *)
Fixpoint many_loop {A} (p : parser A) (fuel : nat) (i : str) (acc : list A) : pres (list A) :=
  match fuel with
  | O => PFuel
  | S f =>
      match p i with
      | PError => POk (rev acc) i
      | POk a r =>
          (* infinite loop check: the parser must always consume *)
          if Nat.eqb (length r) (length i) then PError
          else many_loop p f r (a :: acc)
      | PFailure => PFailure
      | PIncomplete => PIncomplete
      | PFuel => PFuel
      end
  end.
Definition many1 {A} (p : parser A) : parser (list A) :=
  fun i => match p i with
           | POk a r => many_loop p (S (length r)) r [a]
           | PError => PError
           | PFailure => PFailure
           | PIncomplete => PIncomplete
           | PFuel => PFuel
           end.

(* multi::count *)
Fixpoint count_ {A} (p : parser A) (n : nat) (i : str) : pres (list A) :=
  match n with
  | O => POk [] i
  | S n' => pbind (p i) (fun a r => pbind (count_ p n' r) (fun l r' => POk (a :: l) r'))
  end.

(* multi::separated_list1 *)
Fixpoint sep_loop {A B} (sep : parser B) (p : parser A) (fuel : nat) (i : str) (acc : list A)
  : pres (list A) :=
  match fuel with
  | O => PFuel
  | S f =>
      match sep i with
      | PError => POk (rev acc) i
      | PFailure => PFailure
      | PIncomplete => PIncomplete
      | PFuel => PFuel
      | POk _ i1 =>
          if Nat.eqb (length i1) (length i) then PError
          else match p i1 with
               | PError => POk (rev acc) i
               | PFailure => PFailure
               | PIncomplete => PIncomplete
               | PFuel => PFuel
               | POk a i2 => sep_loop sep p f i2 (a :: acc)
               end
      end
  end.
Definition separated_list1 {A B} (sep : parser B) (p : parser A) : parser (list A) :=
  fun i => match p i with
           | POk a r => sep_loop sep p (S (length r)) r [a]
           | PError => PError
           | PFailure => PFailure
           | PIncomplete => PIncomplete
           | PFuel => PFuel
           end.

(* ---- number::complete::float: the recognised token ---- *)

(* Every leaf below returns the text it matched, so the token is rebuilt by
   concatenation: this is nom's `recognize(tuple((..)))` (the consumed input) without
   measuring the input twice per token. *)
Definition cat2 (p q : parser str) : parser str :=
  pmap (fun x => fst x ++ snd x) (pair_ p q).
Definition opt_str (p : parser str) : parser str :=
  pmap (fun o => match o with Some s => s | None => [] end) (opt p).
Definition chr (c : byte) : parser str := pmap (fun b => [b]) (char_ c).
Definition sign_str : parser str := opt_str (alt2 (chr "+"%byte) (chr "-"%byte)).

(* recognize_float:
   [+-]? ( digit1 ('.' digit1?)? | '.' digit1 ) ( [eE] [+-]? cut(digit1) )? *)
Definition recognize_float : parser str :=
  cat2 sign_str
    (cat2
       (alt2 (cat2 digit1 (opt_str (cat2 (chr "."%byte) (opt_str digit1))))
             (cat2 (chr "."%byte) digit1))
       (opt_str (cat2 (alt2 (chr "e"%byte) (chr "E"%byte)) (cat2 sign_str (cut digit1))))).

(* recognize_float_or_exceptions: alt((recognize_float, "nan", "inf", "infinity")) with
   tag_no_case; "inf" is tried before "infinity" *)
Definition float_token : parser str :=
  alt2 recognize_float
    (alt2 (tag_no_case ["n"; "a"; "n"]%byte)
      (alt2 (tag_no_case ["i"; "n"; "f"]%byte)
            (tag_no_case ["i"; "n"; "f"; "i"; "n"; "i"; "t"; "y"]%byte))).
