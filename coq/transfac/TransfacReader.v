(* Model of lightmotif-io/src/transfac/reader.rs: Reader::new and Iterator::next, over a
   chunked stream (Stream.v), for an arbitrary record parser [parse] (the code calls
   `parse::parse_record::<A>`; TransfacParse.parse_record_fixed is its model).

   Places where the Rust code can panic are explicit:
     Panic 1 / Panic 2   `&self.buffer[self.last..]` (offset past the end / inside a character)
     Panic 3             `Error::from(nom::Err::Incomplete(_))` is `unreachable!()`
   The loops of the code (`while !end`, the consumer's `for record in reader`) have no
   syntactic bound; the model gives them [fuel] and returns OutOfFuel when it runs out:
   ReaderProofs shows that this never happens with the fuel computed by [run_reader].

   `last` after a line that does not close the record: the source (since /repo 23feb61, the repair
   of finding F-T1) assigns `last = buffer.len()` in both loops (reader.rs:44,81); the model
   assigns `length buf'`.  (Until round 3 / wave 2 the source had `last += n` and the model
   `last + n`: without I/O faults the two are the same function of the stream -- at loop entry
   `last` is the length of the buffer, FaultProofs.fault_free_agree_any / C15.fault_free_agree.)
   translate/transfac_reader.py re-reads the assignment on every run (GenReader.
   reader_last_is_buffer_len); C15.fault_free_agree_current ties this model to the fault model
   selected by that flag.
   No proofs in this file. *)
From Coq Require Import List Bool Arith.
From Coq Require Import Init.Byte.
From LMBase Require Import Res.
From LMTransfac Require Import Bytes Stream Nom TransfacParse.
Import ListNotations.

Inductive error := EIo | ENom.

Inductive outcome := ORec (r : record) | OErr (e : error) | OEnd.

Definition slashes : str := [x2f; x2f].

(* &buffer[last..] *)
Definition str_from (buf : str) (last : nat) : res str :=
  if Nat.ltb (length buf) last then Panic 1
  else match skipn last buf with
       | b :: t => if is_cont b then Panic 2 else Ok (b :: t)
       | [] => Ok []
       end.

(* impl From<nom::Err<..>> for Error *)
Definition error_from {A} (x : pres A) : res error :=
  match x with
  | PIncomplete => Panic 3
  | PFuel => OutOfFuel
  | _ => Ok ENom
  end.

Record rstate := mkSt {
  st_buf : str;              (* buffer *)
  st_last : nat;             (* last *)
  st_err : option error;     (* error *)
  st_version : option str;   (* version *)
  st_src : stream }.         (* bufread *)

Section Reader.
  Variable parse : parser record.

  (* Reader::new: the loop reading the first record (or the version header) *)
  Fixpoint new_loop (fuel : nat) (buf : str) (last : nat) (s : stream)
    : res (str * nat * option error * stream) :=
    match fuel with
    | O => OutOfFuel
    | S f =>
        match read_line s buf with
        | (RlInvalidUtf8, buf', s') => Ok (buf', last, Some EIo, s')
        | (RlOk O, buf', s') => Ok (buf', last, None, s')
        | (RlOk n, buf', s') =>
            tl <- str_from buf' last ;;
            if starts_with slashes tl then Ok (buf', last, None, s')
            else new_loop f buf' (length buf') s'
        end
    end.

  Definition reader_new (fuel : nat) (s : stream) : res rstate :=
    x <- new_loop fuel [] 0 s ;;
    let '(buf, last, e, s') := x in
    if starts_with [x56; x56] buf then
      match parse_version buf with
      | POk v _ => Ok (mkSt [] 0 e (Some (trim v)) s')
      | bad => e' <- error_from bad ;; Ok (mkSt buf last (Some e') None s')
      end
    else Ok (mkSt buf last e None s').

  (* Iterator::next: the loop reading lines up to the next "//" line *)
  Fixpoint next_loop (fuel : nat) (buf : str) (last : nat) (s : stream)
    : res (str * nat * bool * stream) :=
    match fuel with
    | O => OutOfFuel
    | S f =>
        match read_line s buf with
        | (RlInvalidUtf8, buf', s') => Ok (buf', last, true, s')
        | (RlOk O, buf', s') => Ok (buf', last, false, s')
        | (RlOk n, buf', s') =>
            tl <- str_from buf' last ;;
            if starts_with slashes tl then Ok (buf', length buf', false, s')
            else next_loop f buf' (length buf') s'
        end
    end.

  Definition reader_next (fuel : nat) (st : rstate) : res (outcome * rstate) :=
    match st_err st with
    | Some e => Ok (OErr e, mkSt (st_buf st) (st_last st) None (st_version st) (st_src st))
    | None =>
        tl <- str_from (st_buf st) (st_last st) ;;
        x <- (if starts_with slashes tl then Ok (st_buf st, st_last st, false, st_src st)
              else next_loop fuel (st_buf st) (st_last st) (st_src st)) ;;
        let '(buf, last, ioerr, s') := x in
        let st' := mkSt buf last None (st_version st) s' in
        if (ioerr : bool) then Ok (OErr EIo, st')
        else match buf with
             | [] => Ok (OEnd, st')
             | _ =>
                 match parse buf with
                 | POk r _ => Ok (ORec r, mkSt [] 0 None (st_version st) s')
                 | bad => e <- error_from bad ;; Ok (OErr e, st')
                 end
             end
    end.

  (* a consumer that stops at the first error or at the end of input *)
  Fixpoint consume (fuel cfuel : nat) (st : rstate) : res (list outcome) :=
    match cfuel with
    | O => OutOfFuel
    | S f =>
        x <- reader_next fuel st ;;
        match x with
        | (ORec r, st') => rest <- consume fuel f st' ;; Ok (ORec r :: rest)
        | (o, _) => Ok [o]
        end
    end.

  Definition run_reader (s : stream) : res (list outcome) :=
    let fuel := stream_fuel s in
    st <- reader_new fuel s ;;
    consume fuel fuel st.
End Reader.
