(* Exact conversion of a decimal token of nom's float grammar to binary32
   (round to nearest, ties to even), i.e. what `str::parse::<f32>()` must return.
   The value is m * 10^e; for e < 0 the quotient m * 2^s / 10^(-e) is computed with
   more than 30 significant bits and a sticky bit (round to odd), then rounded once
   by Flocq's binary_normalize.  No proofs in this file. *)
From Coq Require Import List Bool Arith NArith ZArith.
From Coq Require Import Init.Byte.
From LMBase Require Import IEEE.
From LMTransfac Require Import Bytes.
Import ListNotations.

Fixpoint digits_val (l : str) (acc : Z) : Z :=
  match l with
  | [] => acc
  | b :: t => digits_val t (acc * 10 + Z.of_N (digit_val b))%Z
  end.

Fixpoint strip_zeros (l : str) : str :=
  match l with
  | x30 :: t => strip_zeros t
  | _ => l
  end.

(* |value| = (digits as a number) * 10^e10 *)
Definition dec_to_f32 (neg : bool) (digits : str) (e10 : Z) : F32.t :=
  let ds := strip_zeros digits in
  let nd := Z.of_nat (length ds) in
  let mag :=
    match ds with
    | [] => F32.zero
    | _ =>
      if (40 <? nd + e10)%Z then F32.inf
      else if (nd + e10 <? -50)%Z then F32.zero
      else
        let m := digits_val ds 0%Z in
        if (0 <=? e10)%Z then F32.of_Z (m * 10 ^ e10)%Z
        else
          let d := (10 ^ (- e10))%Z in
          let s := Z.max 0 (32 + Z.log2 d - Z.log2 m)%Z in
          let '(q, r) := Z.div_eucl (m * 2 ^ s)%Z d in
          let q' := (2 * q + (if (r =? 0)%Z then 0 else 1))%Z in
          F32.of_Z_exp q' (- (s + 1))%Z
    end in
  if neg then F32.neg mag else mag.

Definition split_sign (t : str) : bool * str :=
  match t with
  | x2b :: r => (false, r)
  | x2d :: r => (true, r)
  | _ => (false, t)
  end.

(* value of a token accepted by [Nom.float_token] *)
Definition f32_of_token (t : str) : F32.t :=
  let '(neg, t1) := split_sign t in
  if starts_with_nocase ["n"; "a"; "n"]%byte t1 then F32.nan
  else if starts_with_nocase ["i"; "n"; "f"]%byte t1 then (if neg then F32.ninf else F32.inf)
  else
    let '(ip, t2) := span is_digit t1 in
    let '(fp, t3) := match t2 with
                     | x2e :: r => span is_digit r
                     | _ => ([], t2)
                     end in
    let e := match t3 with
             | x65 :: r | x45 :: r =>
                 let '(eneg, r1) := split_sign r in
                 let '(ed, _) := span is_digit r1 in
                 let v := digits_val (strip_zeros ed) 0%Z in
                 (* exponents beyond +-10^6 saturate: the result is 0 or infinity anyway
                    for every token shorter than 10^5 digits *)
                 let v' := if (20 <? Z.of_nat (length (strip_zeros ed)))%Z then 1000000000%Z else v in
                 if eneg then (- v')%Z else v'
             | _ => 0%Z
             end in
    dec_to_f32 neg (ip ++ fp) (e - Z.of_nat (length fp))%Z.

(* bit pattern (canonical quiet NaN for NaN) *)
Definition f32_bits_of_token (t : str) : Z := F32.to_bits (f32_of_token t).

Definition tok (s : list byte) : str := s.
