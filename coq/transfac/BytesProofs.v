(* Lemmas on Bytes.v used by the C14 round trip: UTF-8 validity of concatenations and what
   `str::trim` does to a printed metadata line. *)
From Coq Require Import List Bool Arith NArith Lia.
From Coq Require Import Init.Byte.
From LMTransfac Require Import Bytes.
Import ListNotations.
Local Open Scope byte_scope.

(* ---- UTF-8 ---- *)

Lemma utf8_valid_app_n : forall n a b,
  length a <= n -> utf8_valid a = true -> utf8_valid b = true -> utf8_valid (a ++ b) = true.
Proof.
  induction n as [|n IH]; intros a b L Ha Hb.
  - destruct a; [exact Hb|simpl in L; lia].
  - destruct a as [|b0 t]; [exact Hb|].
    cbn [app]. cbn [utf8_valid] in Ha |- *. cbn [length] in L.
    destruct (N.ltb (bN b0) 128); [apply IH; [lia|assumption..]|].
    destruct (N.ltb (bN b0) 194); [discriminate|].
    destruct (N.ltb (bN b0) 224).
    { destruct t as [|b1 t1]; [discriminate|]. cbn [app]. cbn [length] in L.
      apply andb_true_iff in Ha. destruct Ha as [H1 H2]. rewrite H1. cbn [andb].
      apply IH; [lia|assumption..]. }
    destruct (N.ltb (bN b0) 240).
    { destruct t as [|b1 [|b2 t2]]; try discriminate. cbn [app]. cbn [length] in L.
      apply andb_true_iff in Ha. destruct Ha as [H1 H2]. rewrite H1. cbn [andb].
      apply IH; [lia|assumption..]. }
    destruct (N.ltb (bN b0) 245); [|discriminate].
    destruct t as [|b1 [|b2 [|b3 t3]]]; try discriminate. cbn [app]. cbn [length] in L.
    apply andb_true_iff in Ha. destruct Ha as [H1 H2]. rewrite H1. cbn [andb].
    apply IH; [lia|assumption..].
Qed.

Lemma utf8_valid_app a b :
  utf8_valid a = true -> utf8_valid b = true -> utf8_valid (a ++ b) = true.
Proof. apply (utf8_valid_app_n (length a)). apply le_n. Qed.

(* ---- strip ---- *)

Lemma strip_nil h f : strip h f [] = [].
Proof.
  induction f as [|f IH]; [reflexivity|]. simpl. destruct (h []); [reflexivity|].
  destruct n; exact IH.
Qed.

Lemma skipn_S_length {A} n (l : list A) : l <> [] -> length (skipn (S n) l) < length l.
Proof.
  destruct l as [|x t]; [congruence|]. intros _. simpl. rewrite skipn_length. lia.
Qed.

Lemma strip_fuel h : forall f1 f2 l,
  length l <= f1 -> length l <= f2 -> strip h f1 l = strip h f2 l.
Proof.
  induction f1 as [|f1 IH]; intros f2 l L1 L2.
  - destruct l; [|simpl in L1; lia]. rewrite !strip_nil. reflexivity.
  - destruct f2 as [|f2].
    + destruct l; [|simpl in L2; lia]. rewrite !strip_nil. reflexivity.
    + simpl. destruct (h l) as [|n]; [reflexivity|].
      destruct l as [|x t]; [simpl; rewrite !strip_nil; reflexivity|].
      assert (K : length (skipn (S n) (x :: t)) < length (x :: t)) by (apply skipn_S_length; discriminate).
      cbn [length skipn] in *. apply IH; lia.
Qed.

Lemma strip_stop h f l : h l = 0 -> strip h f l = l.
Proof. intros H. destruct f; simpl; [reflexivity|]. rewrite H. reflexivity. Qed.

Lemma strip_length h : forall f l, length (strip h f l) <= length l.
Proof.
  induction f as [|f IH]; intros l; cbn [strip]; [lia|].
  destruct (h l) as [|n]; [lia|]. specialize (IH (skipn (S n) l)).
  rewrite skipn_length in IH. lia.
Qed.

(* either nothing is stripped or the result is shorter *)
Lemma strip_dichotomy h l :
  strip h (length l) l = l /\ (l = [] \/ h l = 0) \/ length (strip h (length l) l) < length l.
Proof.
  destruct l as [|x t]; [left; split; [reflexivity|left; reflexivity]|].
  cbn [length strip]. destruct (h (x :: t)) as [|n] eqn:E; [left; split; [reflexivity|right; reflexivity]|].
  right. pose proof (strip_length h (length t) (skipn (S n) (x :: t))) as K.
  assert (K2 : length (skipn (S n) (x :: t)) < length (x :: t)) by (apply skipn_S_length; discriminate).
  cbn [length skipn] in *. lia.
Qed.

(* ---- trim ---- *)

Lemma trim_start_length l : length (trim_start l) <= length l.
Proof. apply strip_length. Qed.

Lemma trim_end_length l : length (trim_end l) <= length l.
Proof.
  unfold trim_end. rewrite rev_length. pose proof (strip_length ws_last (length l) (rev l)) as K.
  rewrite rev_length in K. exact K.
Qed.

(* a string that trim() leaves unchanged neither starts nor ends with white space *)
Lemma trim_fixpoint s : trim s = s ->
  s = [] \/ (ws_head s = 0 /\ ws_last (rev s) = 0).
Proof.
  intros H. destruct s as [|x t] eqn:Es; [left; reflexivity|]. right. rewrite <- Es in *.
  assert (Hne : s <> []) by (subst; discriminate).
  unfold trim in H.
  pose proof (trim_end_length (trim_start s)) as L1. rewrite H in L1.
  destruct (strip_dichotomy ws_head s) as [[E [C|C]]|C]; [congruence| |unfold trim_start in L1; lia].
  split; [exact C|].
  unfold trim_start in H. rewrite E in H. unfold trim_end in H.
  assert (H' : strip ws_last (length s) (rev s) = rev s).
  { apply (f_equal (@rev byte)) in H. rewrite rev_involutive in H. exact H. }
  destruct (strip_dichotomy ws_last (rev s)) as [[E2 [C2|C2]]|C2].
  - exfalso. apply Hne. rewrite <- (rev_involutive s), C2. reflexivity.
  - exact C2.
  - rewrite rev_length, H', rev_length in C2. lia.
Qed.

Lemma valid1 b0 : utf8_valid [b0] = true -> N.ltb (bN b0) 128 = true.
Proof.
  cbn [utf8_valid]. destruct (N.ltb (bN b0) 128); [reflexivity|].
  destruct (N.ltb (bN b0) 194); [discriminate|].
  destruct (N.ltb (bN b0) 224); [discriminate|].
  destruct (N.ltb (bN b0) 240); [discriminate|].
  destruct (N.ltb (bN b0) 245); discriminate.
Qed.

Lemma valid2 b0 b1 : utf8_valid [b0; b1] = true -> N.ltb (bN b0) 224 = true.
Proof.
  cbn [utf8_valid]. destruct (N.ltb (bN b0) 128) eqn:E1.
  - intros _. apply N.ltb_lt in E1. apply N.ltb_lt. lia.
  - destruct (N.ltb (bN b0) 194); [discriminate|].
    destruct (N.ltb (bN b0) 224); [reflexivity|].
    destruct (N.ltb (bN b0) 240); [discriminate|].
    destruct (N.ltb (bN b0) 245); discriminate.
Qed.

Ltac kill_eqb n v :=
  let E := fresh in destruct (N.eqb_spec n v) as [E|E]; [exfalso; lia|]; cbn [andb orb].

(* the White_Space test at the head of a valid, non-empty string does not look beyond it *)
Lemma ws_head_app s e : utf8_valid s = true -> s <> [] -> ws_head (s ++ e) = ws_head s.
Proof.
  intros V Hne. destruct s as [|b0 [|b1 [|b2 t]]]; [congruence| | |reflexivity].
  - apply valid1 in V. apply N.ltb_lt in V. cbn [app ws_head].
    destruct ((N.leb 9 (bN b0) && N.leb (bN b0) 13) || N.eqb (bN b0) 32); [reflexivity|].
    destruct e as [|c1 e1]; [reflexivity|].
    kill_eqb (bN b0) 194%N.
    destruct e1 as [|c2 e2]; [reflexivity|].
    kill_eqb (bN b0) 225%N. kill_eqb (bN b0) 226%N. kill_eqb (bN b0) 227%N. reflexivity.
  - apply valid2 in V. apply N.ltb_lt in V. cbn [app ws_head].
    destruct ((N.leb 9 (bN b0) && N.leb (bN b0) 13) || N.eqb (bN b0) 32); [reflexivity|].
    destruct (N.eqb (bN b0) 194 && (N.eqb (bN b1) 133 || N.eqb (bN b1) 160)); [reflexivity|].
    destruct e as [|c2 e2]; [reflexivity|].
    kill_eqb (bN b0) 225%N. kill_eqb (bN b0) 226%N. kill_eqb (bN b0) 227%N. reflexivity.
Qed.

Lemma ws_head_blank t : ws_head (" " :: t) = 1.
Proof. reflexivity. Qed.
Lemma ws_head_nl t : ws_head (x0a :: t) = 1.
Proof. reflexivity. Qed.
Lemma ws_head_cr t : ws_head (x0d :: t) = 1.
Proof. reflexivity. Qed.
Lemma ws_last_nl t : ws_last (x0a :: t) = 1.
Proof. reflexivity. Qed.
Lemma ws_last_cr t : ws_last (x0d :: t) = 1.
Proof. reflexivity. Qed.

Lemma strip1 h f x l : h (x :: l) = 1 -> strip h (S f) (x :: l) = strip h f l.
Proof. intros H. cbn [strip]. rewrite H. reflexivity. Qed.

(* the value of a printed metadata line "TG  value<eol>" after the tag: trim gives the value *)
Lemma trim_printed_value (crlf : bool) s :
  utf8_valid s = true -> trim s = s ->
  trim (" " :: " " :: s ++ (if crlf then [x0d; x0a] else [x0a])) = s.
Proof.
  intros V T. set (eol := if crlf then [x0d; x0a] else [x0a]).
  unfold trim.
  assert (TS : trim_start (" " :: " " :: s ++ eol) = match s with [] => [] | _ => s ++ eol end).
  { unfold trim_start. cbn [length].
    rewrite (strip1 _ _ _ _ (ws_head_blank _)), (strip1 _ _ _ _ (ws_head_blank _)).
    destruct (trim_fixpoint s T) as [->|[H0 _]].
    - subst eol. destruct crlf; reflexivity.
    - destruct s as [|x t] eqn:Es; [subst eol; destruct crlf; reflexivity|]. rewrite <- Es in *.
      apply strip_stop. rewrite ws_head_app; [exact H0|exact V|subst; discriminate]. }
  rewrite TS. destruct (trim_fixpoint s T) as [->|[_ H1]]; [reflexivity|].
  destruct s as [|x t] eqn:Es; [reflexivity|]. rewrite <- Es in *.
  unfold trim_end. rewrite rev_app_distr, app_length.
  subst eol. destruct crlf; cbn [rev app length].
  - rewrite Nat.add_comm. cbn [Nat.add].
    rewrite (strip1 _ _ _ _ (ws_last_nl _)), (strip1 _ _ _ _ (ws_last_cr _)).
    rewrite (strip_stop _ _ _ H1). apply rev_involutive.
  - rewrite Nat.add_comm. cbn [Nat.add].
    rewrite (strip1 _ _ _ _ (ws_last_nl _)).
    rewrite (strip_stop _ _ _ H1). apply rev_involutive.
Qed.

Lemma trim_blank_prefix x : trim x = x -> trim (" " :: x) = x.
Proof.
  intros H. unfold trim in *. unfold trim_start at 1. cbn [length].
  rewrite (strip1 _ _ _ _ (ws_head_blank _)). exact H.
Qed.

Lemma ws_head_of_blank b t : is_blank b = true -> ws_head (b :: t) = 1.
Proof. destruct b; simpl; intros H; try discriminate; reflexivity. Qed.

Lemma trim_start_blanks pad y : forallb is_blank pad = true -> trim_start (pad ++ y) = trim_start y.
Proof.
  induction pad as [|b p IH]; intros H; [reflexivity|]. cbn [forallb] in H. apply andb_true_iff in H.
  destruct H as [Hb Hp]. unfold trim_start at 1. cbn [app length].
  rewrite (strip1 _ _ _ _ (ws_head_of_blank b _ Hb)). exact (IH Hp).
Qed.

(* the value of a printed metadata line after the tag and any blanks/tabs: trim gives the value *)
Lemma trim_padded_value (crlf : bool) pad s :
  forallb is_blank pad = true -> utf8_valid s = true -> trim s = s ->
  trim (pad ++ s ++ (if crlf then [x0d; x0a] else [x0a])) = s.
Proof.
  intros Hp V T. rewrite <- (trim_printed_value crlf s V T) at 2.
  unfold trim. rewrite (trim_start_blanks pad _ Hp).
  change (" " :: " " :: s ++ (if crlf then ["013"; "010"] else ["010"]))
    with ([" "; " "] ++ s ++ (if crlf then ["013"; "010"] else ["010"])).
  rewrite (trim_start_blanks [" "; " "] _ eq_refl). reflexivity.
Qed.
