(* C14 round trip, parser level: `parse_record` applied to the text written by the canonical
   printer (TransfacPrint.print_record) for a record meeting the boolean well-formedness
   condition [prec_ok] returns exactly [expected_record] and consumes the whole text. *)
From Coq Require Import List Bool Arith NArith Lia.
From Coq Require Import Init.Byte.
From LMBase Require Import ListX.
From LMTransfac Require Import Bytes Nom NomProofs BytesProofs TransfacParse TransfacPrint.
Import ListNotations.
Local Open Scope byte_scope.

(* ---- small computation lemmas on the combinators ---- *)

Definition head_sat (f : byte -> bool) (l : str) : Prop :=
  match l with [] => True | b :: _ => f b = true end.

Lemma chr_ok c tl : chr c (c :: tl) = POk [c] tl.
Proof. unfold chr, pmap, char_. rewrite beq_refl. reflexivity. Qed.

Lemma chr_fail c i : head_sat (fun b => negb (beq c b)) i -> chr c i = PError.
Proof.
  unfold chr, pmap, char_. destruct i as [|b t]; [reflexivity|]. simpl. intros H.
  apply negb_true_iff in H. rewrite H. reflexivity.
Qed.

Lemma digit1_block a r :
  forallb is_digit a = true -> a <> [] -> head_sat (fun b => negb (is_digit b)) r ->
  digit1 (a ++ r) = POk a r.
Proof.
  intros Ha Hne Hr. unfold digit1. rewrite (span_block is_digit a r Ha).
  - destruct a; [congruence|reflexivity].
  - destruct r; [exact I|]. simpl in Hr. apply negb_true_iff in Hr. exact Hr.
Qed.

Lemma digit1_fail i : head_sat (fun b => negb (is_digit b)) i -> digit1 i = PError.
Proof.
  unfold digit1. destruct i as [|b t]; [reflexivity|]. simpl. intros H.
  apply negb_true_iff in H. rewrite H. reflexivity.
Qed.

Lemma opt_str_fail p i : p i = PError -> opt_str p i = POk [] i.
Proof. intros H. unfold opt_str, pmap, opt. rewrite H. reflexivity. Qed.

Lemma opt_str_ok p i s r : p i = POk s r -> opt_str p i = POk s r.
Proof. intros H. unfold opt_str, pmap, opt. rewrite H. reflexivity. Qed.

Lemma cat2_ok p q i a r b r' : p i = POk a r -> q r = POk b r' -> cat2 p q i = POk (a ++ b) r'.
Proof. intros H1 H2. unfold cat2, pmap, pair_. rewrite H1. simpl. rewrite H2. reflexivity. Qed.

Lemma cat2_fail1 p q i : p i = PError -> cat2 p q i = PError.
Proof. intros H1. unfold cat2, pmap, pair_. rewrite H1. reflexivity. Qed.

Lemma alt2_ok1 {A} (p q : parser A) i a r : p i = POk a r -> alt2 p q i = POk a r.
Proof. intros H. unfold alt2. rewrite H. reflexivity. Qed.

Lemma alt2_fail1 {A} (p q : parser A) i : p i = PError -> alt2 p q i = q i.
Proof. intros H. unfold alt2. rewrite H. reflexivity. Qed.

(* facts on single bytes (256-way case splits, closed) *)
Lemma digit_facts d : is_digit d = true ->
  beq "+" d = false /\ beq "-" d = false /\ beq "." d = false /\ is_blank d = false /\
  beq "/" d = false /\ is_nl d = false.
Proof. destruct d; simpl; intros H; try discriminate; repeat split. Qed.

(* ---- a count token followed by a separator ---- *)

Lemma token_ok_parts t : token_ok t = true ->
  (exists d t', t = d :: t' /\ is_blank d = false) /\ forallb plain t = true /\
  float_token t = POk t [].
Proof.
  unfold token_ok. intros H. apply andb_true_iff in H. destruct H as [H H3].
  apply andb_true_iff in H. destruct H as [H1 H2]. split; [|split; [exact H2|]].
  - destruct t as [|d t']; [discriminate|]. apply negb_true_iff in H1. eauto.
  - destruct (float_token t) as [v r| | | |]; try discriminate. destruct r; [|discriminate].
    apply str_eqb_true in H3. subst. reflexivity.
Qed.

Lemma token_head_nonblank t : token_ok t = true -> exists d t', t = d :: t' /\ is_blank d = false.
Proof. intros H. apply token_ok_parts in H. tauto. Qed.

Lemma float_token_printed t h X :
  token_ok t = true -> is_sep h = true -> float_token (t ++ h :: X) = POk t (h :: X).
Proof.
  intros Ht Hh. destruct (token_ok_parts t Ht) as (_ & _ & E).
  rewrite (local_float_token t h X Hh), E. reflexivity.
Qed.

(* ---- unsigned integers (row labels) ---- *)

Lemma uint_loop_app maxv l : forall acc first v X,
  uint_loop maxv l acc first = POk v [] -> head_sat (fun b => negb (is_digit b)) X ->
  uint_loop maxv (l ++ X) acc first = POk v X.
Proof.
  induction l as [|b t IH]; intros acc first v X H HX.
  - simpl in H. destruct first; [discriminate|]. inversion H; subst. simpl.
    destruct X as [|c X']; [reflexivity|]. simpl in *. apply negb_true_iff in HX. rewrite HX. reflexivity.
  - simpl in *. destruct (is_digit b).
    + destruct (N.ltb maxv _); [discriminate|]. apply IH; assumption.
    + destruct first; [discriminate|]. inversion H.
Qed.

Lemma label_ok_u32 l X : label_ok l = true -> head_sat (fun b => negb (is_digit b)) X ->
  exists v, u32 (l ++ X) = POk v X.
Proof.
  unfold label_ok. destruct (u32 l) as [v r| | | |] eqn:E; try discriminate.
  destruct r; [|discriminate]. intros _ HX. exists v. unfold u32, uint in *.
  apply uint_loop_app; assumption.
Qed.

Lemma label_ok_u32' l X : label_ok l = true -> head_sat (fun b => negb (is_digit b)) X ->
  u32 (l ++ X) = POk (match u32 l with POk n _ => n | _ => 0%N end) X.
Proof.
  unfold label_ok. destruct (u32 l) as [v r| | | |] eqn:E; try discriminate.
  destruct r; [|discriminate]. intros _ HX. unfold u32, uint in *.
  apply uint_loop_app; assumption.
Qed.

Lemma uint_loop_digits maxv l : forall acc first v,
  uint_loop maxv l acc first = POk v [] -> forallb is_digit l = true.
Proof.
  induction l as [|b t IH]; intros acc first v H; [reflexivity|]. simpl in *.
  destruct (is_digit b); [|destruct first; [discriminate|inversion H]].
  destruct (N.ltb maxv _); [discriminate|]. simpl. exact (IH _ _ _ H).
Qed.

Lemma forallb_impl {A} (f g : A -> bool) l :
  (forall x, f x = true -> g x = true) -> forallb f l = true -> forallb g l = true.
Proof.
  intros H. induction l as [|x t IH]; [reflexivity|]. simpl. intros K.
  apply andb_true_iff in K. destruct K as [K1 K2]. rewrite (H _ K1), (IH K2). reflexivity.
Qed.

Lemma no_nl_app' a b : no_nl (a ++ b) = no_nl a && no_nl b.
Proof. unfold no_nl. apply forallb_app. Qed.

Lemma label_digits l : label_ok l = true -> forallb is_digit l = true.
Proof.
  unfold label_ok, u32, uint. destruct (uint_loop _ l 0%N true) as [v r| | | |] eqn:E; try discriminate.
  destruct r; [|discriminate]. intros _. exact (uint_loop_digits _ _ _ _ _ E).
Qed.

Lemma digit_not_nl d : is_digit d = true -> negb (is_nl d) = true.
Proof. destruct d; simpl; intros H; try discriminate; reflexivity. Qed.

Lemma label_no_nl l : label_ok l = true -> no_nl l = true.
Proof. intros H. unfold no_nl. apply (forallb_impl is_digit _ l digit_not_nl), label_digits, H. Qed.

Lemma num_ok_uint maxv l X : num_ok maxv l = true -> head_sat (fun b => negb (is_digit b)) X ->
  exists v, uint maxv (l ++ X) = POk v X.
Proof.
  unfold num_ok. destruct (uint maxv l) as [v r| | | |] eqn:E; try discriminate.
  destruct r; [|discriminate]. intros _ HX. exists v. unfold uint in *.
  apply uint_loop_app; assumption.
Qed.

Lemma num_head_digit maxv l : num_ok maxv l = true -> exists d t, l = d :: t /\ is_digit d = true.
Proof.
  unfold num_ok, uint. destruct l as [|d t]; [simpl; discriminate|].
  simpl. destruct (is_digit d) eqn:E; [intros _; exists d, t; auto|discriminate].
Qed.

Lemma num_no_nl maxv l : num_ok maxv l = true -> no_nl l = true.
Proof.
  unfold num_ok, uint. destruct (uint_loop _ l 0%N true) as [v r| | | |] eqn:E; try discriminate.
  destruct r; [|discriminate]. intros _. unfold no_nl.
  apply (forallb_impl is_digit _ l digit_not_nl). exact (uint_loop_digits _ _ _ _ _ E).
Qed.

Lemma label_head_digit l : label_ok l = true -> exists d t, l = d :: t /\ is_digit d = true.
Proof.
  unfold label_ok, u32, uint. destruct l as [|d t]; [simpl; discriminate|].
  simpl. destruct (is_digit d) eqn:E; [intros _; exists d, t; auto|discriminate].
Qed.

(* ---- lines ---- *)

Lemma parse_line_eol crlf x rest : no_nl x = true ->
  parse_line (x ++ eol_of crlf ++ rest) = POk (x ++ eol_of crlf) rest.
Proof.
  intros H. induction x as [|b t IH]; simpl.
  - destruct crlf; reflexivity.
  - simpl in H. apply andb_true_iff in H. destruct H as [H1 H2]. apply negb_true_iff in H1.
    rewrite H1, (IH H2). reflexivity.
Qed.

Lemma tagged_line a b tl : preceded (tag (tg a b)) parse_line (a :: b :: tl) = parse_line tl.
Proof. unfold preceded, tag, tg. cbn [starts_with]. rewrite !beq_refl. reflexivity. Qed.

Lemma line_ending_eol crlf rest : line_ending (eol_of crlf ++ rest) = POk (eol_of crlf) rest.
Proof. destruct crlf; reflexivity. Qed.

Lemma eol_head_sep crlf rest : exists h X, eol_of crlf ++ rest = h :: X /\ is_sep h = true /\ is_blank h = false.
Proof. destruct crlf; simpl; eexists _, _; repeat split. Qed.

Lemma neq_len a b : a <> S b + a.
Proof. lia. Qed.

Lemma neq_len_app {A} (a b : list A) : a <> [] -> length b <> length (a ++ b).
Proof. intros H. rewrite app_length. destruct a; [congruence|simpl; lia]. Qed.

Lemma sep_ok_parts sep : sep_ok sep = true ->
  sep <> [] /\ forallb is_blank sep = true /\ exists h X, sep = h :: X /\ is_sep h = true.
Proof.
  unfold sep_ok. destruct sep as [|h X]; [discriminate|]. intros H. split; [discriminate|]. split; [exact H|].
  exists h, X. split; [reflexivity|]. simpl in H. apply andb_true_iff in H. apply blank_is_sep. tauto.
Qed.

Lemma span_snd_forallb (g f : byte -> bool) l : forallb g l = true -> forallb g (snd (span f l)) = true.
Proof.
  induction l as [|b t IH]; [reflexivity|]. simpl. intros H. apply andb_true_iff in H. destruct H as [H1 H2].
  destruct (f b); [|simpl; rewrite H1; exact H2]. specialize (IH H2). destruct (span f t). exact IH.
Qed.

Lemma span_no_nl f l : no_nl l = true -> no_nl (snd (span f l)) = true.
Proof.
  induction l as [|b t IH]; [reflexivity|]. simpl. intros H. apply andb_true_iff in H. destruct H as [H1 H2].
  destruct (f b); [|simpl; rewrite H1; exact H2]. specialize (IH H2). destruct (span f t). exact IH.
Qed.

Section RT.
  Variable al : alpha.
  Variable crlf : bool.
  Let eol := eol_of crlf.
  Let sp1 := space1_complete.

  (* ---- the alphabet line ---- *)

  Lemma sym_not_blank c k : sym_index al c = Some k -> is_blank c = false.
  Proof. destruct al; destruct c; simpl; intros H; try discriminate; reflexivity. Qed.

  Lemma space1_sep sep c tl : sep_ok sep = true -> is_blank c = false -> sp1 (sep ++ c :: tl) = POk sep (c :: tl).
  Proof.
    intros Hsep H. destruct (sep_ok_parts sep Hsep) as (Hne & Hb & _). unfold sp1, space1_complete.
    rewrite (span_block is_blank sep (c :: tl) Hb H). destruct sep; [congruence|reflexivity].
  Qed.

  Definition sym_text (syms : list (str * byte)) : str := flat_map (fun sc => fst sc ++ [snd sc]) syms.

  Lemma sym_text_cons sep c cs X : sym_text ((sep, c) :: cs) ++ X = sep ++ c :: (sym_text cs ++ X).
  Proof. unfold sym_text. cbn [flat_map fst snd]. rewrite <- !app_assoc. reflexivity. Qed.

  Lemma sep_loop_syms : forall syms idx fuel acc tl,
    sym_indices al (sym_letters syms) = Some idx -> forallb (fun sc => sep_ok (fst sc)) syms = true ->
    length (sym_text syms ++ eol ++ tl) < fuel ->
    sep_loop sp1 (parse_symbol al) fuel (sym_text syms ++ eol ++ tl) acc = POk (rev acc ++ idx) (eol ++ tl).
  Proof.
    induction syms as [|[sep c] cs IH]; intros idx fuel acc tl Hs Hseps L.
    - simpl in Hs. inversion Hs; subst. destruct fuel; [lia|]. simpl app.
      destruct (eol_head_sep crlf tl) as (h & X & E & _ & Hb). fold eol in E. rewrite E.
      cbn [sep_loop]. unfold sp1, space1_complete. cbn [span]. rewrite Hb. rewrite app_nil_r. reflexivity.
    - cbn [sym_letters map snd] in Hs. fold (sym_letters cs) in Hs. simpl in Hs.
      destruct (sym_index al c) as [k|] eqn:Ek; [|discriminate].
      destruct (sym_indices al (sym_letters cs)) as [idx'|] eqn:Ei; [|discriminate]. inversion Hs; subst idx.
      cbn [forallb fst] in Hseps. apply andb_true_iff in Hseps. destruct Hseps as [Hsep Hseps].
      destruct fuel; [lia|].
      rewrite sym_text_cons in *.
      cbn [sep_loop]. rewrite (space1_sep sep c _ Hsep (sym_not_blank c k Ek)).
      assert (N : Nat.eqb (length (c :: sym_text cs ++ eol ++ tl))
                          (length (sep ++ c :: sym_text cs ++ eol ++ tl)) = false).
      { apply Nat.eqb_neq, neq_len_app. destruct (sep_ok_parts sep Hsep) as (Hne & _). exact Hne. }
      rewrite N. cbn [parse_symbol]. rewrite Ek.
      rewrite (IH idx' fuel (k :: acc) tl eq_refl Hseps).
      + simpl. rewrite <- app_assoc. reflexivity.
      + rewrite app_length in L. simpl in L. lia.
  Qed.

  Lemma parse_alphabet_printed (po : bool) sep c cs idx tl :
    sym_indices al (sym_letters ((sep, c) :: cs)) = Some idx ->
    forallb (fun sc => sep_ok (fst sc)) ((sep, c) :: cs) = true ->
    parse_alphabet sp1 al ("P" :: (if po then "O" else "0") :: sym_text ((sep, c) :: cs) ++ eol ++ tl) = POk idx tl.
  Proof.
    intros Hs Hseps. cbn [sym_letters map snd] in Hs. fold (sym_letters cs) in Hs. simpl in Hs.
    destruct (sym_index al c) as [k|] eqn:Ek; [|discriminate].
    destruct (sym_indices al (sym_letters cs)) as [idx'|] eqn:Ei; [|discriminate]. inversion Hs; subst idx.
    cbn [forallb fst] in Hseps. apply andb_true_iff in Hseps. destruct Hseps as [Hsep Hseps].
    unfold parse_alphabet, delimited.
    assert (T : exists v, alt2 (tag (tg "P" "O")) (tag (tg "P" "0"))
                            ("P" :: (if po then "O" else "0") :: sym_text ((sep, c) :: cs) ++ eol ++ tl)
                          = POk v (sym_text ((sep, c) :: cs) ++ eol ++ tl)).
    { destruct po; eexists; reflexivity. }
    destruct T as [v T]. rewrite T.
    cbn [pbind]. unfold preceded.
    rewrite sym_text_cons.
    rewrite (space1_sep sep c _ Hsep (sym_not_blank c k Ek)). cbn [pbind].
    unfold separated_list1. cbn [parse_symbol]. rewrite Ek.
    rewrite (sep_loop_syms cs idx' _ [k] tl Ei Hseps); [|lia].
    cbn [pbind rev app]. unfold eol. rewrite line_ending_eol. reflexivity.
  Qed.

  (* ---- count rows ---- *)

  Definition rowtail (toks : list (str * str)) : str := flat_map (fun st => fst st ++ snd st) toks.
  Definition elem : parser str := delimited space0 (parse_element) space0.
  Definition tok_ok (st : str * str) : bool := sep_ok (fst st) && token_ok (snd st).

  Lemma rowtail_cons sep t ts : rowtail ((sep, t) :: ts) = sep ++ t ++ rowtail ts.
  Proof. unfold rowtail. cbn [flat_map fst snd]. rewrite <- app_assoc. reflexivity. Qed.

  Lemma space0_block a r : forallb is_blank a = true -> head_sat (fun b => negb (is_blank b)) r ->
    space0 (a ++ r) = POk a r.
  Proof.
    intros Ha Hr. unfold space0. rewrite (span_block is_blank a r Ha); [reflexivity|].
    destruct r; [exact I|]. simpl in Hr. apply negb_true_iff in Hr. exact Hr.
  Qed.

  (* the counts of a row, followed by Z (the row's tail and line ending): the blanks at the
     head of Z are eaten by the last element's trailing space0 *)
  Lemma count_toks : forall toks t0 lead h X,
    token_ok t0 = true -> forallb tok_ok toks = true -> forallb is_blank lead = true ->
    is_sep h = true ->
    count_ elem (S (length toks)) (lead ++ t0 ++ rowtail toks ++ h :: X)
    = POk (t0 :: map snd toks) (snd (span is_blank (h :: X))).
  Proof.
    induction toks as [|[sep t1] toks IH]; intros t0 lead h X H0 Hts Hl Hh.
    - destruct (token_head_nonblank t0 H0) as (d & t' & E0 & Hb).
      cbn [count_ length rowtail flat_map app map]. unfold elem at 1, delimited.
      rewrite (space0_block lead (t0 ++ h :: X) Hl); [|rewrite E0; simpl; rewrite Hb; reflexivity].
      cbn [pbind]. unfold parse_element. rewrite (float_token_printed t0 h X H0 Hh).
      cbn [pbind]. unfold space0 at 1. destruct (span is_blank (h :: X)) as [p r]. reflexivity.
    - cbn [forallb] in Hts. apply andb_true_iff in Hts. destruct Hts as [H1 Hts].
      unfold tok_ok in H1. cbn [fst snd] in H1. apply andb_true_iff in H1. destruct H1 as [Hsep H1].
      destruct (sep_ok_parts sep Hsep) as (Hne & Hbl & hs & Xs & Es & Hhs).
      destruct (token_head_nonblank t0 H0) as (d & t' & E0 & Hb).
      destruct (token_head_nonblank t1 H1) as (d1 & t1' & E1 & Hb1).
      rewrite rowtail_cons.
      change (length ((sep, t1) :: toks)) with (S (length toks)).
      remember (S (length toks)) as n eqn:En.
      cbn [count_]. unfold elem at 1, delimited.
      rewrite (space0_block lead _ Hl); [|rewrite E0; simpl; rewrite Hb; reflexivity].
      cbn [pbind]. unfold parse_element.
      rewrite <- !app_assoc.
      assert (F : float_token (t0 ++ sep ++ t1 ++ rowtail toks ++ h :: X)
                  = POk t0 (sep ++ t1 ++ rowtail toks ++ h :: X)).
      { rewrite Es. cbn [app]. apply float_token_printed; assumption. }
      rewrite F. cbn [pbind].
      rewrite (space0_block sep _ Hbl); [|rewrite E1; simpl; rewrite Hb1; reflexivity].
      cbn [pbind]. subst n.
      pose proof (IH t1 [] h X H1 Hts eq_refl Hh) as K. cbn [app] in K. rewrite K. reflexivity.
  Qed.

  Definition row_text (r : prow) : str := print_row eol r.

  Lemma parse_row_unfold k i :
    parse_row k i = pbind (u32 i) (fun _ r => pbind (count_ elem k r)
                      (fun b r' => pbind (parse_line r') (fun _ r'' => POk b r''))).
  Proof. reflexivity. Qed.

  Lemma tail_ok_parts tl : tail_ok tl = true ->
    no_nl tl = true /\ utf8_valid tl = true /\ (tl = [] \/ exists h X, tl = h :: X /\ is_blank h = true).
  Proof.
    unfold tail_ok. intros H. apply andb_true_iff in H. destruct H as [H H3].
    apply andb_true_iff in H. destruct H as [H1 H2]. repeat split; try assumption.
    destruct tl as [|h X]; [left; reflexivity|right; eauto].
  Qed.

  Lemma parse_row_printed k r tl : row_ok k r = true -> 0 < k ->
    parse_row k (row_text r ++ tl) = POk (row_toks r) tl.
  Proof.
    unfold row_ok. intros H Hk. apply andb_true_iff in H. destruct H as [H Htail].
    apply andb_true_iff in H. destruct H as [H Htoks].
    apply andb_true_iff in H. destruct H as [Hlab Hlen]. apply Nat.eqb_eq in Hlen.
    destruct r as [lab toks tail]. unfold row_toks. cbn [pr_label pr_toks pr_tail] in *.
    destruct toks as [|[sep t0] toks]; [simpl in Hlen; lia|].
    cbn [forallb] in Htoks. apply andb_true_iff in Htoks. destruct Htoks as [H0 Hts].
    cbn [fst snd] in H0. apply andb_true_iff in H0. destruct H0 as [Hsep H0].
    destruct (sep_ok_parts sep Hsep) as (Hne & Hbl & hs & Xs & Es & Hhs).
    destruct (tail_ok_parts tail Htail) as (T1 & T2 & T3).
    unfold row_text, print_row. cbn [pr_label pr_toks pr_tail].
    fold (rowtail ((sep, t0) :: toks)). rewrite rowtail_cons.
    rewrite <- !app_assoc.
    assert (Hd : head_sat (fun b => negb (is_digit b)) (sep ++ t0 ++ rowtail toks ++ tail ++ eol ++ tl)).
    { rewrite Es. simpl. destruct (sep_facts hs Hhs) as (Hd & _). rewrite Hd. reflexivity. }
    destruct (label_ok_u32 lab _ Hlab Hd) as [v Hv].
    rewrite parse_row_unfold, Hv. cbn [pbind].
    subst k. change (length ((sep, t0) :: toks)) with (S (length toks)).
    (* the text after the last count *)
    assert (Z : exists h X, tail ++ eol ++ tl = h :: X /\ is_sep h = true).
    { destruct T3 as [->|(h & X & -> & Hb)].
      - destruct (eol_head_sep crlf tl) as (h & X & E & Hs & _). exists h, X. auto.
      - exists h, (X ++ eol ++ tl). split; [reflexivity|apply blank_is_sep; exact Hb]. }
    destruct Z as (h & X & EZ & HZ). rewrite EZ.
    rewrite (count_toks toks t0 sep h X H0 Hts Hbl HZ). cbn [pbind map snd]. rewrite <- EZ.
    assert (SP : snd (span is_blank (tail ++ eol ++ tl)) = snd (span is_blank tail) ++ eol ++ tl).
    { rewrite span_app_stop; [reflexivity|].
      destruct (eol_head_sep crlf tl) as (h' & X' & E' & _ & Hb'). fold eol in E'. rewrite E'. exact Hb'. }
    rewrite SP. unfold eol. rewrite (parse_line_eol crlf _ tl (span_no_nl _ _ T1)). reflexivity.
  Qed.

  Lemma row_text_nonempty r : label_ok (pr_label r) = true -> row_text r <> [].
  Proof.
    intros H. destruct (label_head_digit _ H) as (d & t & E & _).
    unfold row_text, print_row. rewrite E. discriminate.
  Qed.

  Definition rows_text (rows : list prow) : str := flat_map row_text rows.

  Lemma row_ok_label k r : row_ok k r = true -> label_ok (pr_label r) = true.
  Proof.
    unfold row_ok. intros H. apply andb_true_iff in H. destruct H as [H _].
    apply andb_true_iff in H. destruct H as [H _]. apply andb_true_iff in H. tauto.
  Qed.

  Lemma many_loop_rows k : 0 < k -> forall rows fuel acc tl,
    forallb (row_ok k) rows = true ->
    parse_row k tl = PError ->
    length (rows_text rows ++ tl) < fuel ->
    many_loop (parse_row k) fuel (rows_text rows ++ tl) acc = POk (rev acc ++ map row_toks rows) tl.
  Proof.
    intros Hk. induction rows as [|r rows IH]; intros fuel acc tl Hr Htl L.
    - destruct fuel; [lia|]. simpl. rewrite Htl, app_nil_r. reflexivity.
    - simpl in Hr. apply andb_true_iff in Hr. destruct Hr as [Hr Hrs].
      destruct fuel; [lia|].
      change (rows_text (r :: rows)) with (row_text r ++ rows_text rows) in *. rewrite <- app_assoc in *.
      cbn [many_loop]. rewrite (parse_row_printed k r _ Hr Hk).
      assert (Hne : row_text r <> []) by (apply row_text_nonempty, (row_ok_label k), Hr).
      assert (N : Nat.eqb (length (rows_text rows ++ tl)) (length (row_text r ++ rows_text rows ++ tl)) = false)
        by (apply Nat.eqb_neq, neq_len_app, Hne).
      rewrite N. rewrite (IH fuel (row_toks r :: acc) tl Hrs Htl).
      + simpl. rewrite <- app_assoc. reflexivity.
      + rewrite (app_length (row_text r)) in L. destruct (row_text r); [congruence|]. cbn [length] in L. lia.
  Qed.

  Lemma many1_rows k r rows tl : 0 < k ->
    forallb (row_ok k) (r :: rows) = true -> parse_row k tl = PError ->
    many1 (parse_row k) (rows_text (r :: rows) ++ tl) = POk (map row_toks (r :: rows)) tl.
  Proof.
    intros Hk Hr Htl. simpl in Hr. apply andb_true_iff in Hr. destruct Hr as [Hr Hrs].
    change (rows_text (r :: rows)) with (row_text r ++ rows_text rows). rewrite <- app_assoc.
    unfold many1. rewrite (parse_row_printed k r _ Hr Hk).
    rewrite (many_loop_rows k Hk rows _ [row_toks r] tl Hrs Htl); [reflexivity|lia].
  Qed.

  Lemma parse_row_xx k tl : parse_row k ("X" :: "X" :: tl) = PError.
  Proof. reflexivity. Qed.

  (* ---- the loop of parse_record on the printed blocks ---- *)

  Notation loop := (record_loop sp1 al).

  Lemma parse_tag_known a b k tl : classify a b = Some k -> parse_tag (a :: b :: tl) = POk (k, (a, b)) tl.
  Proof. intros H. unfold parse_tag. rewrite H. reflexivity. Qed.

  Lemma loop_xx f tl r : loop (S f) ("X" :: "X" :: eol ++ tl) r = loop f tl r.
  Proof.
    cbn [record_loop]. rewrite (parse_tag_known "X" "X" TXX _ eq_refl). cbn [pbind fst snd].
    change ("X" :: "X" :: eol ++ tl) with (["X"; "X"] ++ eol ++ tl).
    unfold eol. rewrite (parse_line_eol crlf ["X"; "X"] tl eq_refl). reflexivity.
  Qed.

  Lemma field_ok_parts x : field_ok x = true -> no_nl x = true /\ utf8_valid x = true /\ trim x = x.
  Proof.
    unfold field_ok. intros H. apply andb_true_iff in H. destruct H as [H H3].
    apply andb_true_iff in H. destruct H as [H1 H2]. repeat split; try assumption.
    apply str_eqb_true. exact H3.
  Qed.

  (* value of a printed field line *)
  Lemma blanks_no_nl pad : forallb is_blank pad = true -> no_nl pad = true.
  Proof.
    intros H. unfold no_nl. revert H. apply forallb_impl. intros b Hb. destruct b; simpl in *; try discriminate; reflexivity.
  Qed.

  Lemma field_line_pad a b pad x tl : forallb is_blank pad = true -> field_ok x = true ->
    preceded (tag (tg a b)) parse_line (a :: b :: pad ++ x ++ eol ++ tl) =
    POk (pad ++ x ++ eol) tl /\ trim (pad ++ x ++ eol) = x.
  Proof.
    intros Hp H. destruct (field_ok_parts x H) as (H1 & H2 & H3).
    rewrite tagged_line. rewrite (app_assoc pad x). rewrite (app_assoc pad x eol).
    unfold eol. rewrite (parse_line_eol crlf (pad ++ x) tl); [|rewrite no_nl_app', (blanks_no_nl pad Hp), H1; reflexivity].
    split; [reflexivity|]. rewrite <- app_assoc. unfold eol_of. apply trim_padded_value; assumption.
  Qed.

  Lemma field_line' a b x tl : field_ok x = true ->
    preceded (tag (tg a b)) parse_line (a :: b :: " " :: " " :: x ++ eol ++ tl) =
    POk (" " :: " " :: x ++ eol) tl /\ trim (" " :: " " :: x ++ eol) = x.
  Proof. intros H. exact (field_line_pad a b [" "; " "] x tl eq_refl H). Qed.

  Ltac field_step a b k :=
    intros Hp H; cbn [record_loop];
    rewrite (parse_tag_known a b k _ eq_refl); cbn [pbind fst snd];
    match goal with |- context [preceded (tag (tg a b)) parse_line (a :: b :: ?pad ++ ?x ++ eol ++ ?tl)] =>
      destruct (field_line_pad a b pad x tl Hp H) as [E1 E2]; rewrite E1; cbn [pbind]; rewrite E2; reflexivity
    end.

  Lemma loop_ac f pad x tl r : forallb is_blank pad = true -> field_ok x = true ->
    loop (S f) ("A" :: "C" :: pad ++ x ++ eol ++ tl) r = loop f tl (set_ac x r).
  Proof. field_step "A" "C" TAC. Qed.
  Lemma loop_id f pad x tl r : forallb is_blank pad = true -> field_ok x = true ->
    loop (S f) ("I" :: "D" :: pad ++ x ++ eol ++ tl) r = loop f tl (set_id x r).
  Proof. field_step "I" "D" TID. Qed.
  Lemma loop_na f pad x tl r : forallb is_blank pad = true -> field_ok x = true ->
    loop (S f) ("N" :: "A" :: pad ++ x ++ eol ++ tl) r = loop f tl (set_na x r).
  Proof. field_step "N" "A" TNA. Qed.
  Lemma loop_de f pad x tl r : forallb is_blank pad = true -> field_ok x = true ->
    loop (S f) ("D" :: "E" :: pad ++ x ++ eol ++ tl) r = loop f tl (set_de x r).
  Proof. field_step "D" "E" TDE. Qed.

  Lemma loop_end f term r : term = eol \/ term = [] -> loop (S f) ("/" :: "/" :: term) r = POk r [].
  Proof.
    intros Ht. cbn [record_loop]. rewrite (parse_tag_known "/" "/" TEND _ eq_refl). cbn [pbind fst snd].
    destruct Ht as [->| ->]; [unfold eol; destruct crlf|]; reflexivity.
  Qed.

  Lemma loop_skip f (k : skipk) v tl r : no_nl v = true ->
    loop (S f) (fst (skip_tag k) :: snd (skip_tag k) :: v ++ eol ++ tl) r = loop f tl r.
  Proof.
    intros H. cbn [record_loop].
    assert (T : exists t, classify (fst (skip_tag k)) (snd (skip_tag k)) = Some t /\
                          (t = TBA \/ t = TBS \/ t = TBF \/ t = TCO)).
    { destruct k; eexists; (split; [reflexivity|tauto]). }
    destruct T as (t & Ht & Hk). rewrite (parse_tag_known _ _ t _ Ht). cbn [pbind fst snd].
    rewrite tagged_line. unfold eol. rewrite (parse_line_eol crlf v tl H).
    destruct Hk as [->|[->|[->| ->]]]; reflexivity.
  Qed.

  Lemma loop_field f (k : fieldk) pad x tl r : forallb is_blank pad = true -> field_ok x = true ->
    loop (S f) (fst (field_tag k) :: snd (field_tag k) :: pad ++ x ++ eol ++ tl) r =
    loop f tl (set_field k x r).
  Proof. destruct k; [apply loop_ac|apply loop_id|apply loop_na|apply loop_de]. Qed.

  Lemma classify_p0 (po : bool) : classify "P" (if po then "O" else "0") = Some TP0.
  Proof. destruct po; reflexivity. Qed.

  Lemma parse_row_nondigit k h X : is_digit h = false -> parse_row k (h :: X) = PError.
  Proof. intros H. rewrite parse_row_unfold. unfold u32, uint. cbn [uint_loop]. rewrite H. reflexivity. Qed.

  Lemma loop_matrix f (po : bool) sep c cs idx r0 rows h X r :
    sym_indices al (sym_letters ((sep, c) :: cs)) = Some idx ->
    forallb (fun sc => sep_ok (fst sc)) ((sep, c) :: cs) = true ->
    forallb (row_ok (length ((sep, c) :: cs))) (r0 :: rows) = true ->
    is_digit h = false ->
    loop (S f) ("P" :: (if po then "O" else "0") :: sym_text ((sep, c) :: cs) ++ eol ++
                rows_text (r0 :: rows) ++ h :: X) r =
    loop f (h :: X) (set_data (build_matrix al idx (map row_toks (r0 :: rows))) r).
  Proof.
    intros Hs Hseps Hr Hh. cbn [record_loop]. rewrite (parse_tag_known "P" _ TP0 _ (classify_p0 po)). cbn [pbind fst snd].
    rewrite (parse_alphabet_printed po sep c cs idx _ Hs Hseps). cbn [pbind].
    assert (Hlen : length idx = length ((sep, c) :: cs)).
    { clear -Hs. revert idx Hs. generalize ((sep, c) :: cs). induction l as [|x l IH]; intros idx H; simpl in H.
      - inversion H; reflexivity.
      - destruct (sym_index al (snd x)); [|discriminate].
        fold (sym_letters l) in H. destruct (sym_indices al (sym_letters l)) as [i'|]; [|discriminate].
        inversion H; subst. simpl. rewrite (IH i' eq_refl). reflexivity. }
    rewrite Hlen.
    rewrite (many1_rows (length ((sep, c) :: cs)) r0 rows (h :: X)); [reflexivity|simpl; lia|exact Hr|].
    apply parse_row_nondigit. exact Hh.
  Qed.
End RT.

Section RT2.
  Variable al : alpha.
  Variable crlf : bool.
  Let eol := eol_of crlf.
  Let sp1 := space1_complete.
  Notation loop := (record_loop sp1 al).

  Lemma eol_length : 1 <= length eol.
  Proof. unfold eol. destruct crlf; simpl; lia. Qed.

  (* ---- reference blocks ---- *)

  Definition stop2 (l : str) : Prop :=
    has_two_chars l = true /\ starts_with (tg "R" "X") l = false /\ starts_with (tg "R" "A") l = false /\
    starts_with (tg "R" "L") l = false /\ starts_with (tg "R" "T") l = false.

  Lemma take_till_dot x tl : no_dot x = true -> take_till "." (x ++ "." :: tl) = POk x ("." :: tl).
  Proof.
    intros H. unfold take_till. rewrite (span_block _ x ("." :: tl)); [reflexivity|exact H|reflexivity].
  Qed.

  Lemma refline_ok_parts_field t : field_ok t = true -> no_nl (" " :: " " :: t) = true.
  Proof. intros H. destruct (field_ok_parts t H) as (H1 & _). cbn [no_nl forallb]. exact H1. Qed.

  Lemma reference_loop_printed : forall lines fuel tl pm li ti,
    forallb refline_ok lines = true -> stop2 tl ->
    length (flat_map (print_refline eol) lines ++ tl) < fuel ->
    reference_loop fuel (flat_map (print_refline eol) lines ++ tl) pm li ti =
    POk (fold_left apply_refline lines (pm, li, ti)) tl.
  Proof.
    induction lines as [|l lines IH]; intros fuel tl pm li ti Hok Hst L.
    - destruct fuel; [lia|]. cbn [flat_map app fold_left reference_loop].
      destruct Hst as (H2 & HX & HA & HL & HT). rewrite H2, HX, HA, HL, HT. reflexivity.
    - cbn [forallb] in Hok. apply andb_true_iff in Hok. destruct Hok as [Hl Hok].
      destruct fuel; [lia|]. cbn [flat_map fold_left] in *. rewrite <- app_assoc in *.
      set (rest := flat_map (print_refline eol) lines ++ tl) in *.
      assert (Lr : forall a, a <> [] -> length (a ++ rest) < S fuel -> length rest < fuel).
      { intros a Ha. rewrite app_length. destruct a; [congruence|]. cbn [length]. lia. }
      destruct l as [p|t|t|t]; cbn [print_refline apply_refline refline_ok] in *.
      + (* RX *)
        apply andb_true_iff in Hl. destruct Hl as [Hl Hb]. apply andb_true_iff in Hl. destruct Hl as [Hl Hd].
        apply andb_true_iff in Hl. destruct Hl as [Hn Hu].
        rewrite <- !app_assoc in *. cbn [app] in *.
        cbn [reference_loop]. change (negb (has_two_chars ("R" :: "X" :: _))) with false. cbn iota.
        change (starts_with (tg "R" "X") ("R" :: "X" :: _)) with true. cbn iota.
        unfold preceded at 1 2, terminated at 1 2.
        change (tag (tg "R" "X") ("R" :: "X" :: " " :: " " :: "P" :: "U" :: "B" :: "M" :: "E" :: "D" :: ":" :: " " :: p ++ "." :: eol ++ rest))
          with (POk (tg "R" "X") (" " :: " " :: "P" :: "U" :: "B" :: "M" :: "E" :: "D" :: ":" :: " " :: p ++ "." :: eol ++ rest)).
        cbn [pbind].
        assert (S1 : space0 (" " :: " " :: "P" :: "U" :: "B" :: "M" :: "E" :: "D" :: ":" :: " " :: p ++ "." :: eol ++ rest)
                     = POk [" "; " "] ("P" :: "U" :: "B" :: "M" :: "E" :: "D" :: ":" :: " " :: p ++ "." :: eol ++ rest))
          by (apply (space0_block [" "; " "] ("P" :: "U" :: "B" :: "M" :: "E" :: "D" :: ":" :: " " :: p ++ "." :: eol ++ rest) eq_refl eq_refl)).
        rewrite S1. cbn [pbind].
        change (tag ["P"; "U"; "B"; "M"; "E"; "D"; ":"] ("P" :: "U" :: "B" :: "M" :: "E" :: "D" :: ":" :: " " :: p ++ "." :: eol ++ rest))
          with (POk ["P"; "U"; "B"; "M"; "E"; "D"; ":"] (" " :: p ++ "." :: eol ++ rest)).
        cbn [pbind].
        assert (S0 : space0 (" " :: p ++ "." :: eol ++ rest) = POk [" "] (p ++ "." :: eol ++ rest)).
        { apply (space0_block [" "] (p ++ "." :: eol ++ rest) eq_refl).
          destruct p as [|b p']; [reflexivity|]. exact Hb. }
        rewrite S0. cbn [pbind].
        unfold terminated. rewrite (take_till_dot p (eol ++ rest) Hd). cbn [pbind].
        change (char_ "." ("." :: eol ++ rest)) with (POk "." (eol ++ rest)). cbn [pbind].
        pose proof (parse_line_eol crlf [] rest eq_refl) as PL. cbn [app] in PL. fold eol in PL. rewrite PL.
        cbn [pbind]. apply IH; [exact Hok|exact Hst|].
        change (length rest < fuel). clearbody rest. clear -L. cbn [length] in L. rewrite ?app_length in L. cbn [length] in L. rewrite ?app_length in L. lia.
      + (* RA *)
        apply andb_true_iff in Hl. destruct Hl as [Hn Hu].
        rewrite <- !app_assoc in *. cbn [app] in *.
        cbn [reference_loop]. change (negb (has_two_chars ("R" :: "A" :: _))) with false. cbn iota.
        change (starts_with (tg "R" "X") ("R" :: "A" :: _)) with false. cbn iota.
        change (starts_with (tg "R" "A") ("R" :: "A" :: _)) with true. cbn iota.
        rewrite tagged_line. unfold eol. rewrite (parse_line_eol crlf t rest Hn). cbn [pbind].
        apply IH; [exact Hok|exact Hst|].
        change (length rest < fuel). clearbody rest. clear -L. cbn [length] in L. rewrite ?app_length in L. cbn [length] in L. rewrite ?app_length in L. lia.
      + (* RT *)
        rewrite <- !app_assoc in *. cbn [app] in *.
        cbn [reference_loop]. change (negb (has_two_chars ("R" :: "T" :: _))) with false. cbn iota.
        change (starts_with (tg "R" "X") ("R" :: "T" :: _)) with false. cbn iota.
        change (starts_with (tg "R" "A") ("R" :: "T" :: _)) with false. cbn iota.
        change (starts_with (tg "R" "L") ("R" :: "T" :: _)) with false. cbn iota.
        change (starts_with (tg "R" "T") ("R" :: "T" :: _)) with true. cbn iota.
        destruct (field_line' crlf "R" "T" t rest Hl) as [E1 E2]. fold eol in E1, E2.
        rewrite E1. cbn [pbind]. rewrite E2.
        apply IH; [exact Hok|exact Hst|].
        change (length rest < fuel). clearbody rest. clear -L. cbn [length] in L. rewrite ?app_length in L. cbn [length] in L. rewrite ?app_length in L. lia.
      + (* RL *)
        rewrite <- !app_assoc in *. cbn [app] in *.
        cbn [reference_loop]. change (negb (has_two_chars ("R" :: "L" :: _))) with false. cbn iota.
        change (starts_with (tg "R" "X") ("R" :: "L" :: _)) with false. cbn iota.
        change (starts_with (tg "R" "A") ("R" :: "L" :: _)) with false. cbn iota.
        change (starts_with (tg "R" "L") ("R" :: "L" :: _)) with true. cbn iota.
        destruct (field_line' crlf "R" "L" t rest Hl) as [E1 E2]. fold eol in E1, E2.
        rewrite E1. cbn [pbind]. rewrite E2.
        apply IH; [exact Hok|exact Hst|].
        change (length rest < fuel). clearbody rest. clear -L. cbn [length] in L. rewrite ?app_length in L. cbn [length] in L. rewrite ?app_length in L. lia.
  Qed.

  (* ---- comment runs and date lines ---- *)

  Definition cc_text (ts : list str) : str := flat_map (fun x => ["C"; "C"] ++ x ++ eol) ts.
  Definition stopcc (l : str) : Prop := starts_with (tg "C" "C") l = false.
  Definition cc_parser : parser str := preceded (tag (tg "C" "C")) parse_line.

  Lemma cc_text_cons x ts tl : cc_text (x :: ts) ++ tl = "C" :: "C" :: x ++ eol ++ cc_text ts ++ tl.
  Proof. unfold cc_text. cbn [flat_map app]. rewrite <- !app_assoc. reflexivity. Qed.

  Lemma cc_line x tl : no_nl x = true -> cc_parser ("C" :: "C" :: x ++ eol ++ tl) = POk (x ++ eol) tl.
  Proof. intros H. unfold cc_parser. rewrite tagged_line. unfold eol. apply parse_line_eol. exact H. Qed.

  Lemma many_loop_cc : forall ts fuel acc tl,
    forallb (fun x => no_nl x && utf8_valid x) ts = true -> stopcc tl ->
    length (cc_text ts ++ tl) < fuel ->
    exists v, many_loop cc_parser fuel (cc_text ts ++ tl) acc = POk v tl.
  Proof.
    induction ts as [|x ts IH]; intros fuel acc tl Hok Hst L.
    - destruct fuel; [lia|]. cbn [cc_text flat_map app many_loop].
      unfold cc_parser at 1, preceded, tag. unfold stopcc in Hst. rewrite Hst. cbn [pbind]. eauto.
    - cbn [forallb] in Hok. apply andb_true_iff in Hok. destruct Hok as [Hx Hok].
      apply andb_true_iff in Hx. destruct Hx as [Hx _].
      destruct fuel; [lia|]. rewrite cc_text_cons in *. cbn [many_loop]. rewrite (cc_line x _ Hx).
      assert (N : Nat.eqb (length (cc_text ts ++ tl)) (length ("C" :: "C" :: x ++ eol ++ cc_text ts ++ tl)) = false).
      { apply Nat.eqb_neq. cbn [length]. rewrite !app_length. lia. }
      rewrite N. apply IH; [exact Hok|exact Hst|]. cbn [length] in L. rewrite !app_length in L. rewrite app_length. lia.
  Qed.

  Lemma loop_cc f t ts tl r :
    forallb (fun x => no_nl x && utf8_valid x) (t :: ts) = true -> stopcc tl ->
    loop (S f) (print_item eol (ICC t ts) ++ tl) r = loop f tl r.
  Proof.
    intros Hok Hst. cbn [print_item]. fold (cc_text (t :: ts)). rewrite cc_text_cons.
    cbn [record_loop]. rewrite (parse_tag_known "C" "C" TCC _ eq_refl). cbn [pbind fst snd].
    cbn [forallb] in Hok. apply andb_true_iff in Hok. destruct Hok as [Ht Hok].
    apply andb_true_iff in Ht. destruct Ht as [Ht _].
    fold cc_parser. unfold many1. rewrite (cc_line t _ Ht).
    destruct (many_loop_cc ts (S (length (cc_text ts ++ tl))) [t ++ eol] tl Hok Hst (Nat.lt_succ_diag_r _)) as [v Hv].
    match goal with |- pbind ?X _ = _ => replace X with (@POk (list str) v tl) by (symmetry; exact Hv) end.
    reflexivity.
  Qed.

  Lemma loop_dt f d m y (created : bool) author tl r :
    num_ok 255 d = true -> num_ok 255 m = true -> num_ok 65535 y = true ->
    no_nl author = true -> no_dot author = true ->
    loop (S f) (print_item eol (IDT d m y created author) ++ tl) r = loop f tl r.
  Proof.
    intros Hd Hm Hy Hn Hdot. cbn [print_item].
    set (kind := if created then ["c"; "r"; "e"; "a"; "t"; "e"; "d"] else ["u"; "p"; "d"; "a"; "t"; "e"; "d"]).
    assert (E : (["D"; "T"; " "; " "] ++ d ++ ["."] ++ m ++ ["."] ++ y ++ [" "; "("] ++ kind ++
                 [")"; ";"; " "] ++ author ++ ["."] ++ eol) ++ tl
              = "D" :: "T" :: " " :: " " :: d ++ "." :: m ++ "." :: y ++ " " :: "(" :: kind ++
                ")" :: ";" :: " " :: author ++ "." :: eol ++ tl).
    { rewrite <- !app_assoc. reflexivity. }
    rewrite E. clear E.
    cbn [record_loop]. rewrite (parse_tag_known "D" "T" TDT _ eq_refl). cbn [pbind fst snd].
    unfold parse_date.
    (* DT and blanks *)
    destruct (num_head_digit _ d Hd) as (d0 & d' & Ed & Hd0). destruct (digit_facts d0 Hd0) as (_ & _ & _ & Hb0 & _).
    set (R1 := "." :: m ++ "." :: y ++ " " :: "(" :: kind ++ ")" :: ";" :: " " :: author ++ "." :: eol ++ tl).
    assert (P1 : terminated (tag (tg "D" "T")) space0 ("D" :: "T" :: " " :: " " :: d ++ R1) = POk (tg "D" "T") (d ++ R1)).
    { unfold terminated.
      change (tag (tg "D" "T") ("D" :: "T" :: " " :: " " :: d ++ R1)) with (POk (tg "D" "T") (" " :: " " :: d ++ R1)).
      cbn [pbind].
      assert (S1 : space0 (" " :: " " :: d ++ R1) = POk [" "; " "] (d ++ R1)).
      { apply (space0_block [" "; " "] (d ++ R1) eq_refl). rewrite Ed. simpl. rewrite Hb0. reflexivity. }
      rewrite S1. reflexivity. }
    rewrite P1. cbn [pbind].
    (* day *)
    destruct (num_ok_uint _ d R1 Hd eq_refl) as [vd Hvd].
    unfold terminated at 1. unfold u8 at 1. rewrite Hvd. cbn [pbind]. subst R1. cbn [char_].
    change (beq "." ".") with true. cbn iota. cbn [pbind].
    (* month *)
    set (R2 := "." :: y ++ " " :: "(" :: kind ++ ")" :: ";" :: " " :: author ++ "." :: eol ++ tl).
    destruct (num_ok_uint _ m R2 Hm eq_refl) as [vm Hvm].
    unfold terminated at 1. unfold u8 at 1. rewrite Hvm. cbn [pbind]. subst R2. cbn [char_].
    change (beq "." ".") with true. cbn iota. cbn [pbind].
    (* year *)
    set (R3 := " " :: "(" :: kind ++ ")" :: ";" :: " " :: author ++ "." :: eol ++ tl).
    destruct (num_ok_uint _ y R3 Hy eq_refl) as [vy Hvy].
    unfold u16. rewrite Hvy. cbn [pbind]. subst R3.
    assert (S2 : space0 (" " :: "(" :: kind ++ ")" :: ";" :: " " :: author ++ "." :: eol ++ tl)
                 = POk [" "] ("(" :: kind ++ ")" :: ";" :: " " :: author ++ "." :: eol ++ tl))
      by (apply (space0_block [" "] ("(" :: kind ++ ")" :: ";" :: " " :: author ++ "." :: eol ++ tl) eq_refl eq_refl)).
    rewrite S2. cbn [pbind].
    (* (created) / (updated) *)
    assert (P2 : delimited (char_ "(") parse_datekind (char_ ")")
                   ("(" :: kind ++ ")" :: ";" :: " " :: author ++ "." :: eol ++ tl)
                 = POk kind (";" :: " " :: author ++ "." :: eol ++ tl)).
    { subst kind. destruct created; reflexivity. }
    rewrite P2. cbn [pbind].
    (* ; author. *)
    assert (P3 : exists v, delimited (char_ ";") (preceded space0 (take_till ".")) (char_ ".")
                   (";" :: " " :: author ++ "." :: eol ++ tl) = POk v (eol ++ tl)).
    { unfold delimited, preceded. cbn [char_]. change (beq ";" ";") with true. cbn iota. cbn [pbind].
      unfold space0.
      change (" " :: author ++ "." :: eol ++ tl) with ((" " :: author) ++ "." :: eol ++ tl).
      rewrite (span_app_stop is_blank (" " :: author) ("." :: eol ++ tl) eq_refl).
      destruct (span is_blank (" " :: author)) as [b sfx] eqn:Es. cbn [fst snd pbind].
      assert (Hs : no_dot sfx = true).
      { pose proof (span_snd_forallb (fun b => negb (beq "." b)) is_blank (" " :: author)) as K.
        rewrite Es in K. apply K. cbn [forallb]. exact Hdot. }
      rewrite (take_till_dot sfx (eol ++ tl) Hs). cbn [pbind char_]. change (beq "." ".") with true. cbn iota.
      cbn [pbind]. eauto. }
    destruct P3 as [v P3]. rewrite P3. cbn [pbind].
    pose proof (parse_line_eol crlf [] tl eq_refl) as PL. cbn [app] in PL. fold eol in PL. rewrite PL.
    reflexivity.
  Qed.

  (* every printed line starts with a byte that is not a digit: the row loop of a matrix
     stops there *)
  Lemma item_head eol' it tl : exists h X, print_item eol' it ++ tl = h :: X /\ is_digit h = false.
  Proof.
    destruct it as [num xref lines|k pad v|k v| |t ts|d m y c au|po syms rows];
      cbn [print_item app xx_line flat_map].
    - eexists _, _; split; reflexivity.
    - destruct k; eexists _, _; split; reflexivity.
    - destruct k; eexists _, _; split; reflexivity.
    - eexists _, _; split; reflexivity.
    - eexists _, _; split; reflexivity.
    - eexists _, _; split; reflexivity.
    - eexists _, _; split; reflexivity.
  Qed.

  Lemma body_head eol' (items : prec) term :
    exists h X, print_body eol' items ++ "/" :: "/" :: term = h :: X /\ is_digit h = false.
  Proof.
    destruct items as [|it items]; [eexists _, _; split; reflexivity|].
    unfold print_body. cbn [flat_map]. rewrite <- app_assoc. apply item_head.
  Qed.

  (* ... and with two bytes that are not the code of a reference line: the RX/RA/RT/RL loop
     of a reference block stops there *)
  Lemma item_stop2 eol' it tl : stop2 (print_item eol' it ++ tl).
  Proof.
    destruct it as [num xref lines|k pad v|k v| |t ts|d m y c au|po syms rows];
      cbn [print_item app xx_line flat_map];
      try (destruct k); try (destruct po); repeat split.
  Qed.

  Lemma item_stopcc eol' it tl : is_cc it = false -> stopcc (print_item eol' it ++ tl).
  Proof.
    destruct it as [num xref lines|k pad v|k v| |t ts|d m y c au|po syms rows]; intros H; try discriminate;
      cbn [print_item app xx_line]; try (destruct k); try (destruct po); reflexivity.
  Qed.

  Lemma body_stopcc eol' (items : prec) term :
    match items with it :: _ => is_cc it = false | [] => True end ->
    stopcc (print_body eol' items ++ "/" :: "/" :: term).
  Proof.
    destruct items as [|it items]; intros H; [reflexivity|].
    unfold print_body. cbn [flat_map]. rewrite <- app_assoc. apply item_stopcc. exact H.
  Qed.

  Lemma body_stop2 eol' (items : prec) term : stop2 (print_body eol' items ++ "/" :: "/" :: term).
  Proof.
    destruct items as [|it items]; [repeat split|].
    unfold print_body. cbn [flat_map]. rewrite <- app_assoc. apply item_stop2.
  Qed.

  Lemma xref_ok_parts x : xref_ok (Some x) = true -> no_nl x = true /\ no_dot x = true /\ trim x = x.
  Proof.
    cbn [xref_ok]. intros H. apply andb_true_iff in H. destruct H as [H1 H2].
    destruct (field_ok_parts x H1) as (A & _ & C). auto.
  Qed.

  Lemma parse_reference_number_printed num xref tl :
    label_ok num = true -> xref_ok xref = true ->
    parse_reference_number ("R" :: "N" :: " " :: " " :: "[" :: num ++ "]" :: print_xref xref ++ eol ++ tl)
    = POk (match u32 num with POk n _ => n | _ => 0%N end, xref) tl.
  Proof.
    intros Hn Hx. unfold parse_reference_number.
    set (input := "R" :: "N" :: " " :: " " :: "[" :: num ++ "]" :: print_xref xref ++ eol ++ tl).
    assert (P1 : preceded (terminated (tag (tg "R" "N")) space0) (delimited (char_ "[") u32 (char_ "]")) input
                 = POk (match u32 num with POk n _ => n | _ => 0%N end) (print_xref xref ++ eol ++ tl)).
    { subst input. unfold preceded, terminated, delimited.
      change (tag (tg "R" "N") ("R" :: "N" :: " " :: " " :: "[" :: num ++ "]" :: print_xref xref ++ eol ++ tl))
        with (POk (tg "R" "N") (" " :: " " :: "[" :: num ++ "]" :: print_xref xref ++ eol ++ tl)).
      cbn [pbind].
      assert (S1 : space0 (" " :: " " :: "[" :: num ++ "]" :: print_xref xref ++ eol ++ tl)
                   = POk [" "; " "] ("[" :: num ++ "]" :: print_xref xref ++ eol ++ tl))
        by (apply (space0_block [" "; " "] ("[" :: num ++ "]" :: print_xref xref ++ eol ++ tl) eq_refl eq_refl)).
      rewrite S1. cbn [pbind].
      change (char_ "[" ("[" :: num ++ "]" :: print_xref xref ++ eol ++ tl))
        with (POk "[" (num ++ "]" :: print_xref xref ++ eol ++ tl)).
      cbn [pbind]. rewrite (label_ok_u32' num ("]" :: print_xref xref ++ eol ++ tl) Hn eq_refl). cbn [pbind].
      reflexivity. }
    rewrite P1. cbn [pbind]. destruct xref as [x|]; cbn [print_xref].
    - destruct (xref_ok_parts x Hx) as (X1 & X2 & X3).
      assert (EX : [";"; " "] ++ x ++ ["."] = ";" :: (" " :: x) ++ ["."]) by reflexivity.
      assert (EY : (([";"; " "] ++ x ++ ["."]) ++ eol ++ tl) = ";" :: (" " :: x) ++ "." :: eol ++ tl).
      { rewrite EX. cbn [app]. rewrite <- app_assoc. reflexivity. }
      rewrite EY. cbn [starts_with]. change (beq ";" ";") with true. cbn [andb]. cbn iota.
      unfold delimited. cbn [char_]. change (beq ";" ";") with true. cbn iota. cbn [pbind].
      rewrite (take_till_dot (" " :: x) (eol ++ tl)); [|cbn [no_dot forallb]; exact X2].
      cbn [pbind char_]. change (beq "." ".") with true. cbn iota. cbn [pbind].
      pose proof (parse_line_eol crlf [] tl eq_refl) as PL. cbn [app] in PL. fold eol in PL. rewrite PL.
      cbn [pbind]. rewrite (trim_blank_prefix x X3). reflexivity.
    - cbn [app].
      assert (SW : starts_with [";"] (eol ++ tl) = false) by (unfold eol; destruct crlf; reflexivity).
      rewrite SW. subst input. cbn [print_xref app].
      assert (E : ("R" :: "N" :: " " :: " " :: "[" :: num ++ "]" :: eol ++ tl)
                  = ("R" :: "N" :: " " :: " " :: "[" :: num ++ ["]"]) ++ eol ++ tl).
      { cbn [app]. rewrite <- app_assoc. reflexivity. }
      rewrite E. unfold eol. rewrite parse_line_eol; [reflexivity|].
      change ("R" :: "N" :: " " :: " " :: "[" :: num ++ ["]"]) with (["R"; "N"; " "; " "; "["] ++ num ++ ["]"]).
      unfold no_nl. rewrite !forallb_app. fold (no_nl num). rewrite (label_no_nl num Hn). reflexivity.
  Qed.

  Lemma loop_ref f num xref lines tl r :
    label_ok num = true -> xref_ok xref = true -> forallb refline_ok lines = true -> stop2 tl ->
    loop (S f) (print_item eol (IRef num xref lines) ++ tl) r = loop f tl (add_ref (ref_of num xref lines) r).
  Proof.
    intros Hn Hx Hl Hst. cbn [print_item]. cbn [app]. rewrite <- !app_assoc. cbn [app].
    cbn [record_loop]. rewrite (parse_tag_known "R" "N" TRN _ eq_refl). cbn [pbind fst snd].
    unfold parse_reference. rewrite <- !app_assoc.
    rewrite (parse_reference_number_printed num xref _ Hn Hx). cbn [pbind].
    rewrite (reference_loop_printed lines _ tl None None None Hl Hst (Nat.lt_succ_diag_r _)).
    cbn [pbind]. unfold ref_of. destruct (fold_left apply_refline lines (None, None, None)) as [[pm li] ti].
    reflexivity.
  Qed.

  Lemma item_ok_matrix po syms rows : item_ok al (IMatrix po syms rows) = true ->
    exists sep c cs idx r0 rows', syms = (sep, c) :: cs /\ sym_indices al (sym_letters syms) = Some idx /\
      rows = r0 :: rows' /\ forallb (fun sc => sep_ok (fst sc)) syms = true /\
      nodupb (sym_letters syms) = true /\ forallb (row_ok (length syms)) rows = true.
  Proof.
    cbn [item_ok]. intros H. apply andb_true_iff in H. destruct H as [H Hrows].
    apply andb_true_iff in H. destruct H as [H Hne]. apply andb_true_iff in H. destruct H as [H Hsep].
    apply andb_true_iff in H. destruct H as [H Hnd]. apply andb_true_iff in H. destruct H as [Hs Hidx].
    destruct syms as [|[sep c] cs]; [discriminate|].
    destruct (sym_indices al (sym_letters ((sep, c) :: cs))) as [idx|] eqn:Ei; [|discriminate].
    destruct rows as [|r0 rows']; [discriminate|]. exists sep, c, cs, idx, r0, rows'. repeat split; assumption.
  Qed.

  (* one line (or matrix block) of the record *)
  Lemma loop_item it F h X r :
    item_ok al it = true -> is_digit h = false -> stop2 (h :: X) -> (is_cc it = true -> stopcc (h :: X)) ->
    length (print_item eol it ++ h :: X) < F ->
    exists F', length (h :: X) < F' /\ loop F (print_item eol it ++ h :: X) r = loop F' (h :: X) (apply_item al r it).
  Proof.
    intros Hok Hh Hst Hcc L. pose proof eol_length as E.
    destruct it as [num xref lines|k pad v|k v| |t ts|d m y c au|po syms rows]; cbn [apply_item] in *.
    - cbn [item_ok] in Hok. apply andb_true_iff in Hok. destruct Hok as [Hok Hl].
      apply andb_true_iff in Hok. destruct Hok as [Hn Hx].
      destruct F as [|F]; [lia|]. exists F. split.
      + cbn [print_item] in L. cbn [app length] in L. rewrite !app_length in L. cbn [length] in *. lia.
      + apply loop_ref; assumption.
    - cbn [print_item] in *. cbn [app] in *. rewrite <- !app_assoc in *. cbn [length] in L. rewrite !app_length in L.
      cbn [item_ok] in Hok. apply andb_true_iff in Hok. destruct Hok as [Hpad Hv].
      destruct F as [|F]; [lia|]. exists F. split; [cbn [length] in *; lia|].
      unfold eol. apply loop_field; assumption.
    - cbn [print_item] in *. cbn [app] in *. rewrite <- !app_assoc in *. cbn [length] in L. rewrite !app_length in L.
      apply andb_true_iff in Hok. destruct Hok as [H1 H2].
      destruct F as [|F]; [lia|]. exists F. split; [cbn [length] in *; lia|].
      unfold eol. apply loop_skip. exact H1.
    - cbn [print_item] in *. unfold xx_line in *. cbn [app] in *. cbn [length] in L. rewrite !app_length in L.
      destruct F as [|F]; [lia|]. exists F. split; [cbn [length] in *; lia|].
      unfold eol. apply loop_xx.
    - destruct F as [|F]; [lia|]. exists F. split.
      + cbn [print_item flat_map] in L. cbn [app length] in L. rewrite !app_length in L. cbn [length] in *. lia.
      + apply loop_cc; [exact Hok|apply Hcc; reflexivity].
    - cbn [item_ok] in Hok.
      apply andb_true_iff in Hok. destruct Hok as [Hok Hdot]. apply andb_true_iff in Hok. destruct Hok as [Hok Hu].
      apply andb_true_iff in Hok. destruct Hok as [Hok Hn]. apply andb_true_iff in Hok. destruct Hok as [Hok Hy].
      apply andb_true_iff in Hok. destruct Hok as [Hd Hm].
      destruct F as [|F]; [lia|]. exists F. split.
      + cbn [print_item] in L. cbn [app length] in L. rewrite !app_length in L. cbn [length] in *. lia.
      + apply loop_dt; assumption.
    - cbn [print_item] in *.
      destruct (item_ok_matrix po syms rows Hok) as (sep & c & cs & idx & r0 & rows' & -> & Ei & -> & Hseps & _ & Hrows).
      rewrite Ei. fold (sym_text ((sep, c) :: cs)) in *. fold (row_text crlf) in *.
      fold (rows_text crlf (r0 :: rows')) in *.
      cbn [app] in *. rewrite <- !app_assoc in *. cbn [length] in L. rewrite !app_length in L.
      destruct F as [|F]; [lia|]. exists F. split; [cbn [length] in *; lia|].
      unfold eol. apply (loop_matrix al crlf); assumption.
  Qed.

  Lemma loop_items : forall (items : prec) F term r,
    forallb (item_ok al) items = true -> cc_ok items = true -> term = eol \/ term = [] ->
    length (print_body eol items ++ "/" :: "/" :: term) < F ->
    loop F (print_body eol items ++ "/" :: "/" :: term) r = POk (fold_left (apply_item al) items r) [].
  Proof.
    induction items as [|it items IH]; intros F term r Hok Hcc Ht L.
    - cbn [print_body flat_map app fold_left] in *. destruct F as [|F]; [lia|].
      unfold eol in Ht. apply (loop_end al crlf F term r Ht).
    - cbn [forallb] in Hok. apply andb_true_iff in Hok. destruct Hok as [Hit Hok].
      cbn [cc_ok] in Hcc. apply andb_true_iff in Hcc. destruct Hcc as [Hadj Hcc].
      unfold print_body in *. cbn [flat_map fold_left] in *. rewrite <- app_assoc in *.
      fold (print_body eol items) in *.
      assert (Hst3 : is_cc it = true -> stopcc (print_body eol items ++ "/" :: "/" :: term)).
      { intros Hc. apply body_stopcc. rewrite Hc in Hadj. destruct items as [|it' items']; [exact I|].
        cbn [andb] in Hadj. apply negb_true_iff in Hadj. exact Hadj. }
      destruct (body_head eol items term) as (h & X & EB & Hh).
      pose proof (body_stop2 eol items term) as Hst. rewrite EB in *.
      destruct (loop_item it F h X r Hit Hh Hst Hst3 L) as (F' & L' & E'). rewrite E'. rewrite <- EB in *.
      apply IH; assumption.
  Qed.

  Theorem parse_record_printed p term : prec_ok al p = true -> term = eol \/ term = [] ->
    parse_record sp1 al (print_record eol term p) = POk (expected_record al p) [].
  Proof.
    intros Hp Ht. unfold parse_record, print_record, expected_record.
    change (["/"; "/"] ++ term) with ("/" :: "/" :: term).
    unfold prec_ok in Hp. apply andb_true_iff in Hp. destruct Hp as [Hp1 Hp2].
    apply loop_items; [exact Hp1|exact Hp2|exact Ht|apply Nat.lt_succ_diag_r].
  Qed.
End RT2.

Theorem parse_record_fixed_printed al crlf p term :
  prec_ok al p = true -> term = eol_of crlf \/ term = [] ->
  parse_record_fixed al (print_record (eol_of crlf) term p) = POk (expected_record al p) [].
Proof. apply parse_record_printed. Qed.
