(* C14 round trip, parser level: `parse_record` applied to the text written by the canonical
   printer (TransfacPrint.print_record) for a record meeting the boolean well-formedness
   condition [prec_ok] returns exactly [expected_record] and consumes the whole text. *)
From Coq Require Import List Bool Arith NArith Lia.
From Coq Require Import Init.Byte.
From LMBase Require Import ListX.
From LMTransfac Require Import Bytes Nom NomProofs BytesProofs TransfacParse TransfacPrint.
Import ListNotations.
Local Open Scope byte_scope.

(* ---- small computation lemmas on the combinators ---- *)

Definition head_sat (f : byte -> bool) (l : str) : Prop :=
  match l with [] => True | b :: _ => f b = true end.

Lemma chr_ok c tl : chr c (c :: tl) = POk [c] tl.
Proof. unfold chr, pmap, char_. rewrite beq_refl. reflexivity. Qed.

Lemma chr_fail c i : head_sat (fun b => negb (beq c b)) i -> chr c i = PError.
Proof.
  unfold chr, pmap, char_. destruct i as [|b t]; [reflexivity|]. simpl. intros H.
  apply negb_true_iff in H. rewrite H. reflexivity.
Qed.

Lemma digit1_block a r :
  forallb is_digit a = true -> a <> [] -> head_sat (fun b => negb (is_digit b)) r ->
  digit1 (a ++ r) = POk a r.
Proof.
  intros Ha Hne Hr. unfold digit1. rewrite (span_block is_digit a r Ha).
  - destruct a; [congruence|reflexivity].
  - destruct r; [exact I|]. simpl in Hr. apply negb_true_iff in Hr. exact Hr.
Qed.

Lemma digit1_fail i : head_sat (fun b => negb (is_digit b)) i -> digit1 i = PError.
Proof.
  unfold digit1. destruct i as [|b t]; [reflexivity|]. simpl. intros H.
  apply negb_true_iff in H. rewrite H. reflexivity.
Qed.

Lemma opt_str_fail p i : p i = PError -> opt_str p i = POk [] i.
Proof. intros H. unfold opt_str, pmap, opt. rewrite H. reflexivity. Qed.

Lemma opt_str_ok p i s r : p i = POk s r -> opt_str p i = POk s r.
Proof. intros H. unfold opt_str, pmap, opt. rewrite H. reflexivity. Qed.

Lemma cat2_ok p q i a r b r' : p i = POk a r -> q r = POk b r' -> cat2 p q i = POk (a ++ b) r'.
Proof. intros H1 H2. unfold cat2, pmap, pair_. rewrite H1. simpl. rewrite H2. reflexivity. Qed.

Lemma cat2_fail1 p q i : p i = PError -> cat2 p q i = PError.
Proof. intros H1. unfold cat2, pmap, pair_. rewrite H1. reflexivity. Qed.

Lemma alt2_ok1 {A} (p q : parser A) i a r : p i = POk a r -> alt2 p q i = POk a r.
Proof. intros H. unfold alt2. rewrite H. reflexivity. Qed.

Lemma alt2_fail1 {A} (p q : parser A) i : p i = PError -> alt2 p q i = q i.
Proof. intros H. unfold alt2. rewrite H. reflexivity. Qed.

(* facts on single bytes (256-way case splits, closed) *)
Lemma digit_facts d : is_digit d = true ->
  beq "+" d = false /\ beq "-" d = false /\ beq "." d = false /\ is_blank d = false /\
  beq "/" d = false /\ is_nl d = false.
Proof. destruct d; simpl; intros H; try discriminate; repeat split. Qed.

(* ---- a count token followed by a separator ---- *)

Lemma token_ok_parts t : token_ok t = true ->
  (exists d t', t = d :: t' /\ is_blank d = false) /\ forallb plain t = true /\
  float_token t = POk t [].
Proof.
  unfold token_ok. intros H. apply andb_true_iff in H. destruct H as [H H3].
  apply andb_true_iff in H. destruct H as [H1 H2]. split; [|split; [exact H2|]].
  - destruct t as [|d t']; [discriminate|]. apply negb_true_iff in H1. eauto.
  - destruct (float_token t) as [v r| | | |]; try discriminate. destruct r; [|discriminate].
    apply str_eqb_true in H3. subst. reflexivity.
Qed.

Lemma token_head_nonblank t : token_ok t = true -> exists d t', t = d :: t' /\ is_blank d = false.
Proof. intros H. apply token_ok_parts in H. tauto. Qed.

Lemma float_token_printed t h X :
  token_ok t = true -> is_sep h = true -> float_token (t ++ h :: X) = POk t (h :: X).
Proof.
  intros Ht Hh. destruct (token_ok_parts t Ht) as (_ & _ & E).
  rewrite (local_float_token t h X Hh), E. reflexivity.
Qed.

(* ---- unsigned integers (row labels) ---- *)

Lemma uint_loop_app maxv l : forall acc first v X,
  uint_loop maxv l acc first = POk v [] -> head_sat (fun b => negb (is_digit b)) X ->
  uint_loop maxv (l ++ X) acc first = POk v X.
Proof.
  induction l as [|b t IH]; intros acc first v X H HX.
  - simpl in H. destruct first; [discriminate|]. inversion H; subst. simpl.
    destruct X as [|c X']; [reflexivity|]. simpl in *. apply negb_true_iff in HX. rewrite HX. reflexivity.
  - simpl in *. destruct (is_digit b).
    + destruct (N.ltb maxv _); [discriminate|]. apply IH; assumption.
    + destruct first; [discriminate|]. inversion H.
Qed.

Lemma label_ok_u32 l X : label_ok l = true -> head_sat (fun b => negb (is_digit b)) X ->
  exists v, u32 (l ++ X) = POk v X.
Proof.
  unfold label_ok. destruct (u32 l) as [v r| | | |] eqn:E; try discriminate.
  destruct r; [|discriminate]. intros _ HX. exists v. unfold u32, uint in *.
  apply uint_loop_app; assumption.
Qed.

Lemma label_head_digit l : label_ok l = true -> exists d t, l = d :: t /\ is_digit d = true.
Proof.
  unfold label_ok, u32, uint. destruct l as [|d t]; [simpl; discriminate|].
  simpl. destruct (is_digit d) eqn:E; [intros _; exists d, t; auto|discriminate].
Qed.

(* ---- lines ---- *)

Lemma parse_line_eol crlf x rest : no_nl x = true ->
  parse_line (x ++ eol_of crlf ++ rest) = POk (x ++ eol_of crlf) rest.
Proof.
  intros H. induction x as [|b t IH]; simpl.
  - destruct crlf; reflexivity.
  - simpl in H. apply andb_true_iff in H. destruct H as [H1 H2]. apply negb_true_iff in H1.
    rewrite H1, (IH H2). reflexivity.
Qed.

Lemma tagged_line a b tl : preceded (tag (tg a b)) parse_line (a :: b :: tl) = parse_line tl.
Proof. unfold preceded, tag, tg. cbn [starts_with]. rewrite !beq_refl. reflexivity. Qed.

Lemma line_ending_eol crlf rest : line_ending (eol_of crlf ++ rest) = POk (eol_of crlf) rest.
Proof. destruct crlf; reflexivity. Qed.

Lemma eol_head_sep crlf rest : exists h X, eol_of crlf ++ rest = h :: X /\ is_sep h = true /\ is_blank h = false.
Proof. destruct crlf; simpl; eexists _, _; repeat split. Qed.

Lemma neq_len a b : a <> S b + a.
Proof. lia. Qed.

Lemma neq_len_app {A} (a b : list A) : a <> [] -> length b <> length (a ++ b).
Proof. intros H. rewrite app_length. destruct a; [congruence|simpl; lia]. Qed.

Lemma sep_ok_parts sep : sep_ok sep = true ->
  sep <> [] /\ forallb is_blank sep = true /\ exists h X, sep = h :: X /\ is_sep h = true.
Proof.
  unfold sep_ok. destruct sep as [|h X]; [discriminate|]. intros H. split; [discriminate|]. split; [exact H|].
  exists h, X. split; [reflexivity|]. simpl in H. apply andb_true_iff in H. apply blank_is_sep. tauto.
Qed.

Lemma span_no_nl f l : no_nl l = true -> no_nl (snd (span f l)) = true.
Proof.
  induction l as [|b t IH]; [reflexivity|]. simpl. intros H. apply andb_true_iff in H. destruct H as [H1 H2].
  destruct (f b); [|simpl; rewrite H1; exact H2]. specialize (IH H2). destruct (span f t). exact IH.
Qed.

Section RT.
  Variable al : alpha.
  Variable crlf : bool.
  Let eol := eol_of crlf.
  Let sp1 := space1_complete.
  Variable sep : str.
  Hypothesis Hsep : sep_ok sep = true.

  (* ---- the alphabet line ---- *)

  Lemma sym_not_blank c k : sym_index al c = Some k -> is_blank c = false.
  Proof. destruct al; destruct c; simpl; intros H; try discriminate; reflexivity. Qed.

  Lemma space1_sep c tl : is_blank c = false -> sp1 (sep ++ c :: tl) = POk sep (c :: tl).
  Proof.
    intros H. destruct (sep_ok_parts sep Hsep) as (Hne & Hb & _). unfold sp1, space1_complete.
    rewrite (span_block is_blank sep (c :: tl) Hb H). destruct sep; [congruence|reflexivity].
  Qed.

  Definition sym_text (syms : str) : str := flat_map (fun c => sep ++ [c]) syms.

  Lemma sym_text_cons c cs X : sym_text (c :: cs) ++ X = sep ++ c :: (sym_text cs ++ X).
  Proof. unfold sym_text. cbn [flat_map]. rewrite <- !app_assoc. reflexivity. Qed.

  Lemma sep_loop_syms : forall syms idx fuel acc tl,
    sym_indices al syms = Some idx ->
    length (sym_text syms ++ eol ++ tl) < fuel ->
    sep_loop sp1 (parse_symbol al) fuel (sym_text syms ++ eol ++ tl) acc = POk (rev acc ++ idx) (eol ++ tl).
  Proof.
    induction syms as [|c cs IH]; intros idx fuel acc tl Hs L.
    - simpl in Hs. inversion Hs; subst. destruct fuel; [lia|]. simpl app.
      destruct (eol_head_sep crlf tl) as (h & X & E & _ & Hb). fold eol in E. rewrite E.
      cbn [sep_loop]. unfold sp1, space1_complete. cbn [span]. rewrite Hb. rewrite app_nil_r. reflexivity.
    - simpl in Hs. destruct (sym_index al c) as [k|] eqn:Ek; [|discriminate].
      destruct (sym_indices al cs) as [idx'|] eqn:Ei; [|discriminate]. inversion Hs; subst idx.
      destruct fuel; [lia|].
      rewrite sym_text_cons in *.
      cbn [sep_loop]. rewrite (space1_sep c _ (sym_not_blank c k Ek)).
      assert (N : Nat.eqb (length (c :: sym_text cs ++ eol ++ tl))
                          (length (sep ++ c :: sym_text cs ++ eol ++ tl)) = false).
      { apply Nat.eqb_neq, neq_len_app. destruct (sep_ok_parts sep Hsep) as (Hne & _). exact Hne. }
      rewrite N. cbn [parse_symbol]. rewrite Ek.
      rewrite (IH idx' fuel (k :: acc) tl eq_refl).
      + simpl. rewrite <- app_assoc. reflexivity.
      + rewrite app_length in L. simpl in L. lia.
  Qed.

  Lemma parse_alphabet_printed (po : bool) c cs idx tl :
    sym_indices al (c :: cs) = Some idx ->
    parse_alphabet sp1 al ("P" :: (if po then "O" else "0") :: sym_text (c :: cs) ++ eol ++ tl) = POk idx tl.
  Proof.
    intros Hs. simpl in Hs. destruct (sym_index al c) as [k|] eqn:Ek; [|discriminate].
    destruct (sym_indices al cs) as [idx'|] eqn:Ei; [|discriminate]. inversion Hs; subst idx.
    unfold parse_alphabet, delimited.
    assert (T : exists v, alt2 (tag (tg "P" "O")) (tag (tg "P" "0"))
                            ("P" :: (if po then "O" else "0") :: sym_text (c :: cs) ++ eol ++ tl)
                          = POk v (sym_text (c :: cs) ++ eol ++ tl)).
    { destruct po; eexists; reflexivity. }
    destruct T as [v T]. rewrite T.
    cbn [pbind]. unfold preceded.
    rewrite sym_text_cons.
    rewrite (space1_sep c _ (sym_not_blank c k Ek)). cbn [pbind].
    unfold separated_list1. cbn [parse_symbol]. rewrite Ek.
    rewrite (sep_loop_syms cs idx' _ [k] tl Ei); [|lia].
    cbn [pbind rev app]. unfold eol. rewrite line_ending_eol. reflexivity.
  Qed.

  (* ---- count rows ---- *)

  Definition rowtail (toks : list str) : str := flat_map (fun t => sep ++ t) toks.
  Definition elem : parser str := delimited space0 (parse_element) space0.

  Lemma rowtail_cons t ts : rowtail (t :: ts) = sep ++ t ++ rowtail ts.
  Proof. unfold rowtail. cbn [flat_map]. rewrite <- app_assoc. reflexivity. Qed.

  Lemma space0_block a r : forallb is_blank a = true -> head_sat (fun b => negb (is_blank b)) r ->
    space0 (a ++ r) = POk a r.
  Proof.
    intros Ha Hr. unfold space0. rewrite (span_block is_blank a r Ha); [reflexivity|].
    destruct r; [exact I|]. simpl in Hr. apply negb_true_iff in Hr. exact Hr.
  Qed.

  (* the counts of a row, followed by Z (the row's tail and line ending): the blanks at the
     head of Z are eaten by the last element's trailing space0 *)
  Lemma count_toks : forall toks t0 lead h X,
    token_ok t0 = true -> forallb token_ok toks = true -> forallb is_blank lead = true ->
    is_sep h = true ->
    count_ elem (S (length toks)) (lead ++ t0 ++ rowtail toks ++ h :: X)
    = POk (t0 :: toks) (snd (span is_blank (h :: X))).
  Proof.
    destruct (sep_ok_parts sep Hsep) as (Hne & Hbl & hs & Xs & Es & Hhs).
    induction toks as [|t1 toks IH]; intros t0 lead h X H0 Hts Hl Hh.
    - destruct (token_head_nonblank t0 H0) as (d & t' & E0 & Hb).
      cbn [count_ length rowtail flat_map app]. unfold elem at 1, delimited.
      rewrite (space0_block lead (t0 ++ h :: X) Hl); [|rewrite E0; simpl; rewrite Hb; reflexivity].
      cbn [pbind]. unfold parse_element. rewrite (float_token_printed t0 h X H0 Hh).
      cbn [pbind]. unfold space0 at 1. destruct (span is_blank (h :: X)) as [p r]. reflexivity.
    - simpl in Hts. apply andb_true_iff in Hts. destruct Hts as [H1 Hts].
      destruct (token_head_nonblank t0 H0) as (d & t' & E0 & Hb).
      destruct (token_head_nonblank t1 H1) as (d1 & t1' & E1 & Hb1).
      rewrite rowtail_cons.
      change (length (t1 :: toks)) with (S (length toks)).
      remember (S (length toks)) as n eqn:En.
      cbn [count_]. unfold elem at 1, delimited.
      rewrite (space0_block lead _ Hl); [|rewrite E0; simpl; rewrite Hb; reflexivity].
      cbn [pbind]. unfold parse_element.
      rewrite <- !app_assoc.
      assert (F : float_token (t0 ++ sep ++ t1 ++ rowtail toks ++ h :: X)
                  = POk t0 (sep ++ t1 ++ rowtail toks ++ h :: X)).
      { rewrite Es. cbn [app]. apply float_token_printed; assumption. }
      rewrite F. cbn [pbind].
      rewrite (space0_block sep _ Hbl); [|rewrite E1; simpl; rewrite Hb1; reflexivity].
      cbn [pbind]. subst n.
      pose proof (IH t1 [] h X H1 Hts eq_refl Hh) as K. cbn [app] in K. rewrite K. reflexivity.
  Qed.

  Definition row_text (r : prow) : str := print_row eol sep r.

  Lemma parse_row_unfold k i :
    parse_row k i = pbind (u32 i) (fun _ r => pbind (count_ elem k r)
                      (fun b r' => pbind (parse_line r') (fun _ r'' => POk b r''))).
  Proof. reflexivity. Qed.

  Lemma tail_ok_parts tl : tail_ok tl = true ->
    no_nl tl = true /\ utf8_valid tl = true /\ (tl = [] \/ exists h X, tl = h :: X /\ is_blank h = true).
  Proof.
    unfold tail_ok. intros H. apply andb_true_iff in H. destruct H as [H H3].
    apply andb_true_iff in H. destruct H as [H1 H2]. repeat split; try assumption.
    destruct tl as [|h X]; [left; reflexivity|right; eauto].
  Qed.

  Lemma parse_row_printed k r tl : row_ok k r = true -> 0 < k ->
    parse_row k (row_text r ++ tl) = POk (pr_toks r) tl.
  Proof.
    unfold row_ok. intros H Hk. apply andb_true_iff in H. destruct H as [H Htail].
    apply andb_true_iff in H. destruct H as [H Htoks].
    apply andb_true_iff in H. destruct H as [Hlab Hlen]. apply Nat.eqb_eq in Hlen.
    destruct r as [lab toks tail]. cbn [pr_label pr_toks pr_tail] in *.
    destruct toks as [|t0 toks]; [simpl in Hlen; lia|].
    simpl in Htoks. apply andb_true_iff in Htoks. destruct Htoks as [H0 Hts].
    destruct (sep_ok_parts sep Hsep) as (Hne & Hbl & hs & Xs & Es & Hhs).
    destruct (tail_ok_parts tail Htail) as (T1 & T2 & T3).
    unfold row_text, print_row. cbn [pr_label pr_toks pr_tail].
    fold (rowtail (t0 :: toks)). rewrite rowtail_cons.
    rewrite <- !app_assoc.
    assert (Hd : head_sat (fun b => negb (is_digit b)) (sep ++ t0 ++ rowtail toks ++ tail ++ eol ++ tl)).
    { rewrite Es. simpl. destruct (sep_facts hs Hhs) as (Hd & _). rewrite Hd. reflexivity. }
    destruct (label_ok_u32 lab _ Hlab Hd) as [v Hv].
    rewrite parse_row_unfold, Hv. cbn [pbind].
    subst k. change (length (t0 :: toks)) with (S (length toks)).
    (* the text after the last count *)
    assert (Z : exists h X, tail ++ eol ++ tl = h :: X /\ is_sep h = true).
    { destruct T3 as [->|(h & X & -> & Hb)].
      - destruct (eol_head_sep crlf tl) as (h & X & E & Hs & _). exists h, X. auto.
      - exists h, (X ++ eol ++ tl). split; [reflexivity|apply blank_is_sep; exact Hb]. }
    destruct Z as (h & X & EZ & HZ). rewrite EZ.
    rewrite (count_toks toks t0 sep h X H0 Hts Hbl HZ). cbn [pbind]. rewrite <- EZ.
    assert (SP : snd (span is_blank (tail ++ eol ++ tl)) = snd (span is_blank tail) ++ eol ++ tl).
    { rewrite span_app_stop; [reflexivity|].
      destruct (eol_head_sep crlf tl) as (h' & X' & E' & _ & Hb'). fold eol in E'. rewrite E'. exact Hb'. }
    rewrite SP. unfold eol. rewrite (parse_line_eol crlf _ tl (span_no_nl _ _ T1)). reflexivity.
  Qed.

  Lemma row_text_nonempty r : label_ok (pr_label r) = true -> row_text r <> [].
  Proof.
    intros H. destruct (label_head_digit _ H) as (d & t & E & _).
    unfold row_text, print_row. rewrite E. discriminate.
  Qed.

  Definition rows_text (rows : list prow) : str := flat_map row_text rows.

  Lemma row_ok_label k r : row_ok k r = true -> label_ok (pr_label r) = true.
  Proof.
    unfold row_ok. intros H. apply andb_true_iff in H. destruct H as [H _].
    apply andb_true_iff in H. destruct H as [H _]. apply andb_true_iff in H. tauto.
  Qed.

  Lemma many_loop_rows k : 0 < k -> forall rows fuel acc tl,
    forallb (row_ok k) rows = true ->
    parse_row k tl = PError ->
    length (rows_text rows ++ tl) < fuel ->
    many_loop (parse_row k) fuel (rows_text rows ++ tl) acc = POk (rev acc ++ map pr_toks rows) tl.
  Proof.
    intros Hk. induction rows as [|r rows IH]; intros fuel acc tl Hr Htl L.
    - destruct fuel; [lia|]. simpl. rewrite Htl, app_nil_r. reflexivity.
    - simpl in Hr. apply andb_true_iff in Hr. destruct Hr as [Hr Hrs].
      destruct fuel; [lia|].
      change (rows_text (r :: rows)) with (row_text r ++ rows_text rows) in *. rewrite <- app_assoc in *.
      cbn [many_loop]. rewrite (parse_row_printed k r _ Hr Hk).
      assert (Hne : row_text r <> []) by (apply row_text_nonempty, (row_ok_label k), Hr).
      assert (N : Nat.eqb (length (rows_text rows ++ tl)) (length (row_text r ++ rows_text rows ++ tl)) = false)
        by (apply Nat.eqb_neq, neq_len_app, Hne).
      rewrite N. rewrite (IH fuel (pr_toks r :: acc) tl Hrs Htl).
      + simpl. rewrite <- app_assoc. reflexivity.
      + rewrite (app_length (row_text r)) in L. destruct (row_text r); [congruence|]. cbn [length] in L. lia.
  Qed.

  Lemma many1_rows k r rows tl : 0 < k ->
    forallb (row_ok k) (r :: rows) = true -> parse_row k tl = PError ->
    many1 (parse_row k) (rows_text (r :: rows) ++ tl) = POk (map pr_toks (r :: rows)) tl.
  Proof.
    intros Hk Hr Htl. simpl in Hr. apply andb_true_iff in Hr. destruct Hr as [Hr Hrs].
    change (rows_text (r :: rows)) with (row_text r ++ rows_text rows). rewrite <- app_assoc.
    unfold many1. rewrite (parse_row_printed k r _ Hr Hk).
    rewrite (many_loop_rows k Hk rows _ [pr_toks r] tl Hrs Htl); [reflexivity|lia].
  Qed.

  Lemma parse_row_xx k tl : parse_row k ("X" :: "X" :: tl) = PError.
  Proof. reflexivity. Qed.

  (* ---- the loop of parse_record on the printed blocks ---- *)

  Notation loop := (record_loop sp1 al).

  Lemma parse_tag_known a b k tl : classify a b = Some k -> parse_tag (a :: b :: tl) = POk (k, (a, b)) tl.
  Proof. intros H. unfold parse_tag. rewrite H. reflexivity. Qed.

  Lemma loop_xx f tl r : loop (S f) ("X" :: "X" :: eol ++ tl) r = loop f tl r.
  Proof.
    cbn [record_loop]. rewrite (parse_tag_known "X" "X" TXX _ eq_refl). cbn [pbind fst snd].
    change ("X" :: "X" :: eol ++ tl) with (["X"; "X"] ++ eol ++ tl).
    unfold eol. rewrite (parse_line_eol crlf ["X"; "X"] tl eq_refl). reflexivity.
  Qed.

  Lemma field_ok_parts x : field_ok x = true -> no_nl x = true /\ utf8_valid x = true /\ trim x = x.
  Proof.
    unfold field_ok. intros H. apply andb_true_iff in H. destruct H as [H H3].
    apply andb_true_iff in H. destruct H as [H1 H2]. repeat split; try assumption.
    apply str_eqb_true. exact H3.
  Qed.

  (* value of a printed field line *)
  Lemma field_line' a b x tl : field_ok x = true ->
    preceded (tag (tg a b)) parse_line (a :: b :: " " :: " " :: x ++ eol ++ tl) =
    POk (" " :: " " :: x ++ eol) tl /\ trim (" " :: " " :: x ++ eol) = x.
  Proof.
    intros H. destruct (field_ok_parts x H) as (H1 & H2 & H3).
    rewrite tagged_line.
    change (" " :: " " :: x ++ eol ++ tl) with ((" " :: " " :: x) ++ eol ++ tl).
    unfold eol. rewrite (parse_line_eol crlf (" " :: " " :: x) tl); [|exact H1].
    split; [reflexivity|]. unfold eol_of. apply trim_printed_value; assumption.
  Qed.

  Definition set_ac v r := mkRec (r_id r) (Some v) (r_name r) (r_desc r) (r_data r) (r_refs r).
  Definition set_id v r := mkRec (Some v) (r_ac r) (r_name r) (r_desc r) (r_data r) (r_refs r).
  Definition set_na v r := mkRec (r_id r) (r_ac r) (Some v) (r_desc r) (r_data r) (r_refs r).
  Definition set_de v r := mkRec (r_id r) (r_ac r) (r_name r) (Some v) (r_data r) (r_refs r).
  Definition set_data m r := mkRec (r_id r) (r_ac r) (r_name r) (r_desc r) (Some m) (r_refs r).

  Ltac field_step a b k :=
    intros H; cbn [record_loop];
    rewrite (parse_tag_known a b k _ eq_refl); cbn [pbind fst snd];
    match goal with |- context [preceded (tag (tg a b)) parse_line (a :: b :: " " :: " " :: ?x ++ eol ++ ?tl)] =>
      destruct (field_line' a b x tl H) as [E1 E2]; rewrite E1; cbn [pbind]; rewrite E2; reflexivity
    end.

  Lemma loop_ac f x tl r : field_ok x = true ->
    loop (S f) ("A" :: "C" :: " " :: " " :: x ++ eol ++ tl) r = loop f tl (set_ac x r).
  Proof. field_step "A" "C" TAC. Qed.
  Lemma loop_id f x tl r : field_ok x = true ->
    loop (S f) ("I" :: "D" :: " " :: " " :: x ++ eol ++ tl) r = loop f tl (set_id x r).
  Proof. field_step "I" "D" TID. Qed.
  Lemma loop_na f x tl r : field_ok x = true ->
    loop (S f) ("N" :: "A" :: " " :: " " :: x ++ eol ++ tl) r = loop f tl (set_na x r).
  Proof. field_step "N" "A" TNA. Qed.
  Lemma loop_de f x tl r : field_ok x = true ->
    loop (S f) ("D" :: "E" :: " " :: " " :: x ++ eol ++ tl) r = loop f tl (set_de x r).
  Proof. field_step "D" "E" TDE. Qed.

  Lemma loop_end f term r : term = eol \/ term = [] -> loop (S f) ("/" :: "/" :: term) r = POk r [].
  Proof.
    intros Ht. cbn [record_loop]. rewrite (parse_tag_known "/" "/" TEND _ eq_refl). cbn [pbind fst snd].
    destruct Ht as [->| ->]; [unfold eol; destruct crlf|]; reflexivity.
  Qed.

  Lemma classify_p0 (po : bool) : classify "P" (if po then "O" else "0") = Some TP0.
  Proof. destruct po; reflexivity. Qed.

  Lemma loop_matrix f (po : bool) c cs idx r0 rows tl r :
    sym_indices al (c :: cs) = Some idx ->
    forallb (row_ok (length (c :: cs))) (r0 :: rows) = true ->
    loop (S f) ("P" :: (if po then "O" else "0") :: sym_text (c :: cs) ++ eol ++
                rows_text (r0 :: rows) ++ "X" :: "X" :: tl) r =
    loop f ("X" :: "X" :: tl) (set_data (build_matrix al idx (map pr_toks (r0 :: rows))) r).
  Proof.
    intros Hs Hr. cbn [record_loop]. rewrite (parse_tag_known "P" _ TP0 _ (classify_p0 po)). cbn [pbind fst snd].
    rewrite (parse_alphabet_printed po c cs idx _ Hs). cbn [pbind].
    assert (Hlen : length idx = length (c :: cs)).
    { clear -Hs. revert idx Hs. generalize (c :: cs). induction l as [|x l IH]; intros idx H; simpl in H.
      - inversion H; reflexivity.
      - destruct (sym_index al x); [|discriminate]. destruct (sym_indices al l) as [i'|]; [|discriminate].
        inversion H; subst. simpl. rewrite (IH i' eq_refl). reflexivity. }
    rewrite Hlen.
    rewrite (many1_rows (length (c :: cs)) r0 rows ("X" :: "X" :: tl)); [reflexivity|simpl; lia|exact Hr|reflexivity].
  Qed.
End RT.

Section RT2.
  Variable al : alpha.
  Variable crlf : bool.
  Let eol := eol_of crlf.
  Let sp1 := space1_complete.
  Notation loop := (record_loop sp1 al).

  (* ---- composition: the whole printed record ---- *)

  Definition apply_opt (set : str -> record -> record) (v : option str) (r : record) : record :=
    match v with None => r | Some x => set x r end.

  Lemma print_field_some a b x tl :
    print_field a b eol (Some x) ++ tl = a :: b :: " " :: " " :: x ++ eol ++ "X" :: "X" :: eol ++ tl.
  Proof. unfold print_field, xx_line. cbn [app]. rewrite <- !app_assoc. reflexivity. Qed.

  Lemma eol_length : 1 <= length eol.
  Proof. unfold eol. destruct crlf; simpl; lia. Qed.

  Lemma loop_opt_field (a b : byte) set :
    (forall f x tl r, field_ok x = true ->
       loop (S f) (a :: b :: " " :: " " :: x ++ eol ++ tl) r = loop f tl (set x r)) ->
    forall v F tl r, ofield_ok v = true -> length (print_field a b eol v ++ tl) < F ->
    exists F', length tl < F' /\ loop F (print_field a b eol v ++ tl) r = loop F' tl (apply_opt set v r).
  Proof.
    intros Hstep v F tl r Hv L. destruct v as [x|].
    - rewrite print_field_some in *. cbn [length] in L. rewrite !app_length in L. cbn [length] in L.
      rewrite !app_length in L. pose proof eol_length as E.
      destruct F as [|[|F]]; try lia. exists F. split; [lia|].
      rewrite (Hstep _ _ _ _ Hv). unfold eol. rewrite loop_xx. reflexivity.
    - exists F. split; [exact L|reflexivity].
  Qed.

  Definition expected_data (syms : str) (rows : list prow) : option (list (list cell)) :=
    match syms, sym_indices al syms with
    | _ :: _, Some idx => Some (build_matrix al idx (map pr_toks rows))
    | _, _ => None
    end.

  Definition apply_data (d : option (list (list cell))) (r : record) : record :=
    match d with None => r | Some m => set_data m r end.

  Definition matrix_ok (sep syms : str) (rows : list prow) : bool :=
    match syms with
    | [] => match rows with [] => true | _ => false end
    | _ => match sym_indices al syms with Some _ => true | None => false end && sep_ok sep &&
           match rows with [] => false | _ => true end &&
           forallb (row_ok (length syms)) rows
    end.

  Lemma print_matrix_cons po sep c cs rows tl :
    print_matrix eol po sep (c :: cs) rows ++ tl =
    "P" :: (if po then "O" else "0") :: sym_text sep (c :: cs) ++ eol ++ rows_text crlf sep rows ++
    "X" :: "X" :: eol ++ tl.
  Proof.
    unfold print_matrix, xx_line, sym_text, rows_text, row_text. cbn [app]. rewrite <- !app_assoc. reflexivity.
  Qed.

  Lemma loop_opt_matrix po sep syms rows F tl r :
    matrix_ok sep syms rows = true -> length (print_matrix eol po sep syms rows ++ tl) < F ->
    exists F', length tl < F' /\
               loop F (print_matrix eol po sep syms rows ++ tl) r = loop F' tl (apply_data (expected_data syms rows) r).
  Proof.
    intros Hm L. destruct syms as [|c cs].
    - exists F. split; [exact L|reflexivity].
    - unfold matrix_ok in Hm. apply andb_true_iff in Hm. destruct Hm as [Hm Hrows].
      apply andb_true_iff in Hm. destruct Hm as [Hm Hne].
      apply andb_true_iff in Hm. destruct Hm as [Hidx Hsep].
      destruct (sym_indices al (c :: cs)) as [idx|] eqn:Ei; [|discriminate].
      destruct rows as [|r0 rows]; [discriminate|].
      rewrite print_matrix_cons in *. cbn [length] in L. rewrite !app_length in L. cbn [length] in L.
      rewrite !app_length in L. pose proof eol_length as E.
      destruct F as [|[|F]]; try lia. exists F. split; [lia|].
      unfold eol. rewrite (loop_matrix al crlf sep Hsep _ po c cs idx r0 rows _ _ Ei Hrows), loop_xx.
      unfold expected_data. rewrite Ei. reflexivity.
  Qed.

  Lemma prec_ok_parts p : prec_ok al p = true ->
    ofield_ok (p_id p) = true /\ ofield_ok (p_ac p) = true /\ ofield_ok (p_na p) = true /\
    ofield_ok (p_de p) = true /\ matrix_ok (p_sep p) (p_syms p) (p_rows p) = true.
  Proof.
    unfold prec_ok. intros H. apply andb_true_iff in H. destruct H as [H H5].
    apply andb_true_iff in H. destruct H as [H H4]. apply andb_true_iff in H. destruct H as [H H3].
    apply andb_true_iff in H. destruct H as [H1 H2]. repeat split; try assumption.
    unfold matrix_ok. destruct (p_syms p) as [|c cs]; [exact H5|].
    apply andb_true_iff in H5. destruct H5 as [H5 Hr]. apply andb_true_iff in H5. destruct H5 as [H5 Hn].
    apply andb_true_iff in H5. destruct H5 as [H5 Hs]. apply andb_true_iff in H5. destruct H5 as [Hi _].
    rewrite Hi, Hs, Hn, Hr. reflexivity.
  Qed.

  Theorem parse_record_printed p term : prec_ok al p = true -> term = eol \/ term = [] ->
    parse_record sp1 al (print_record eol term p) = POk (expected_record al p) [].
  Proof.
    intros Hp Ht. destruct (prec_ok_parts p Hp) as (Hid & Hac & Hna & Hde & Hm).
    unfold parse_record. generalize (Nat.lt_succ_diag_r (length (print_record eol term p))).
    generalize (S (length (print_record eol term p))) as F. intros F L.
    unfold print_record, print_body in *. rewrite <- !app_assoc in *.
    set (r1 := apply_opt set_ac (p_ac p) empty_record).
    set (r2 := apply_opt set_id (p_id p) r1).
    set (r3 := apply_opt set_na (p_na p) r2).
    set (r4 := apply_opt set_de (p_de p) r3).
    destruct (loop_opt_field "A" "C" set_ac (loop_ac al crlf) (p_ac p) F _ empty_record Hac L)
      as (F1 & L1 & E1). rewrite E1. fold r1.
    destruct (loop_opt_field "I" "D" set_id (loop_id al crlf) (p_id p) F1 _ r1 Hid L1)
      as (F2 & L2 & E2). rewrite E2. fold r2.
    destruct (loop_opt_field "N" "A" set_na (loop_na al crlf) (p_na p) F2 _ r2 Hna L2)
      as (F3 & L3 & E3). rewrite E3. fold r3.
    destruct (loop_opt_field "D" "E" set_de (loop_de al crlf) (p_de p) F3 _ r3 Hde L3)
      as (F4 & L4 & E4). rewrite E4. fold r4.
    destruct (loop_opt_matrix (p_po p) (p_sep p) (p_syms p) (p_rows p) F4 _ r4 Hm L4) as (F5 & L5 & E5).
    rewrite E5. destruct F5 as [|F5]; [lia|].
    cbn [app]. unfold eol in Ht. rewrite (loop_end al crlf F5 term _ Ht). f_equal.
    unfold expected_record, expected_data. subst r4 r3 r2 r1.
    destruct (p_syms p) as [|c cs]; [|destruct (sym_indices al (c :: cs))];
      destruct (p_ac p), (p_id p), (p_na p), (p_de p); reflexivity.
  Qed.
End RT2.

Theorem parse_record_fixed_printed al crlf p term :
  prec_ok al p = true -> term = eol_of crlf \/ term = [] ->
  parse_record_fixed al (print_record (eol_of crlf) term p) = POk (expected_record al p) [].
Proof. apply parse_record_printed. Qed.
