(* Canonical printer of TRANSFAC files (the inverse direction of the reader), the
   boolean well-formedness condition [wf_file] of what it prints, and the records the
   reader is expected to return.  The harness' `print_canon` is a Rust copy of
   [print_file]; the driver compares their outputs byte for byte on every canonical
   case.  No proofs in this file. *)
From Coq Require Import List Bool Arith NArith.
From Coq Require Import Init.Byte.
From LMTransfac Require Import Bytes Nom TransfacParse.
Import ListNotations.
Local Open Scope byte_scope.

(* a count row: label, count tokens, and the text after the last count (e.g. blanks and the
   consensus letter of TRANSFAC files; may be empty) *)
Record prow := mkRow { pr_label : str; pr_toks : list str; pr_tail : str }.

Record prec := mkPrec {
  p_id : option str;
  p_ac : option str;
  p_na : option str;
  p_de : option str;
  p_po : bool;                (* the matrix header is spelled "PO" (else "P0") *)
  p_sep : str;                (* blanks/tabs written before every symbol and every count *)
  p_syms : str;               (* symbol letters of the P0 line, in file order; [] = no matrix *)
  p_rows : list prow }.

Definition eol_of (crlf : bool) : str := if crlf then [x0d; x0a] else [x0a].

Definition xx_line (eol : str) : str := ["X"; "X"] ++ eol.

Definition print_field (a b : byte) (eol : str) (v : option str) : str :=
  match v with
  | None => []
  | Some x => [a; b; " "; " "] ++ x ++ eol ++ xx_line eol
  end.

Definition print_row (eol sep : str) (r : prow) : str :=
  pr_label r ++ flat_map (fun t => sep ++ t) (pr_toks r) ++ pr_tail r ++ eol.

Definition print_matrix (eol : str) (po : bool) (sep syms : str) (rows : list prow) : str :=
  match syms with
  | [] => []
  | _ => ["P"; if po then "O" else "0"] ++ flat_map (fun c => sep ++ [c]) syms ++ eol
         ++ flat_map (print_row eol sep) rows ++ xx_line eol
  end.

Definition print_body (eol : str) (r : prec) : str :=
  print_field "A" "C" eol (p_ac r) ++ print_field "I" "D" eol (p_id r) ++
  print_field "N" "A" eol (p_na r) ++ print_field "D" "E" eol (p_de r) ++
  print_matrix eol (p_po r) (p_sep r) (p_syms r) (p_rows r).

(* a record with its "//" line; [term] = the line ending after "//" (possibly none for the last) *)
Definition print_record (eol term : str) (r : prec) : str :=
  print_body eol r ++ ["/"; "/"] ++ term.

Fixpoint print_records (eol : str) (fnl : bool) (rs : list prec) : str :=
  match rs with
  | [] => []
  | [r] => print_record eol (if fnl then eol else []) r
  | r :: t => print_record eol eol r ++ print_records eol fnl t
  end.

Definition print_header (eol : str) (vv : option str) : str :=
  match vv with
  | None => []
  | Some v => ["V"; "V"; " "; " "] ++ v ++ eol ++ xx_line eol ++ ["/"; "/"] ++ eol
  end.

Definition print_file (vv : option str) (crlf fnl : bool) (rs : list prec) : str :=
  print_header (eol_of crlf) vv ++ print_records (eol_of crlf) fnl rs.

(* ---- what the reader must return ---- *)

Fixpoint sym_indices (al : alpha) (syms : str) : option (list nat) :=
  match syms with
  | [] => Some []
  | c :: t => match sym_index al c, sym_indices al t with
              | Some k, Some l => Some (k :: l)
              | _, _ => None
              end
  end.

Definition expected_record (al : alpha) (r : prec) : record :=
  mkRec (p_id r) (p_ac r) (p_na r) (p_de r)
        (match p_syms r, sym_indices al (p_syms r) with
         | _ :: _, Some idx => Some (build_matrix al idx (map pr_toks (p_rows r)))
         | _, _ => None
         end)
        [].

(* ---- well-formedness of a printable file ---- *)

Definition no_nl (s : str) : bool := forallb (fun b => negb (is_nl b)) s.

(* a metadata value: one line, valid UTF-8, nothing that `trim()` would remove *)
Definition field_ok (s : str) : bool :=
  no_nl s && utf8_valid s && str_eqb (trim s) s.
Definition ofield_ok (o : option str) : bool :=
  match o with None => true | Some s => field_ok s end.

(* a row label: what `nom::character::complete::u32` accepts entirely *)
Definition label_ok (l : str) : bool :=
  match u32 l with POk _ [] => true | _ => false end.

(* plain bytes: ASCII other than the line feed *)
Definition plain (b : byte) : bool := N.ltb (bN b) 128 && negb (is_nl b).

(* a count: any text that nom's float parser (parse_element) accepts entirely -- digits,
   optional fraction / exponent / sign, nan, inf -- and that does not start with a blank *)
Definition token_ok (t : str) : bool :=
  match t with [] => false | b :: _ => negb (is_blank b) end &&
  forallb plain t &&
  match float_token t with POk v [] => str_eqb v t | _ => false end.

Fixpoint nodupb (l : str) : bool :=
  match l with
  | [] => true
  | c :: t => negb (existsb (beq c) t) && nodupb t
  end.

(* the column separator: at least one blank or tab *)
Definition sep_ok (sep : str) : bool :=
  match sep with [] => false | _ => forallb is_blank sep end.

(* the text after the last count of a row: one line, valid UTF-8, empty or starting with a blank *)
Definition tail_ok (tl : str) : bool :=
  no_nl tl && utf8_valid tl && match tl with [] => true | b :: _ => is_blank b end.

Definition row_ok (k : nat) (r : prow) : bool :=
  label_ok (pr_label r) && Nat.eqb (length (pr_toks r)) k && forallb token_ok (pr_toks r) &&
  tail_ok (pr_tail r).

Definition prec_ok (al : alpha) (r : prec) : bool :=
  ofield_ok (p_id r) && ofield_ok (p_ac r) && ofield_ok (p_na r) && ofield_ok (p_de r) &&
  match p_syms r with
  | [] => match p_rows r with [] => true | _ => false end
  | syms =>
      match sym_indices al syms with Some _ => true | None => false end &&
      nodupb syms && sep_ok (p_sep r) &&
      match p_rows r with [] => false | _ => true end &&
      forallb (row_ok (length syms)) (p_rows r)
  end.

Definition vv_ok (vv : option str) : bool :=
  match vv with None => true | Some v => no_nl v && utf8_valid v end.

Definition wf_file (al : alpha) (vv : option str) (rs : list prec) : bool :=
  vv_ok vv && forallb (prec_ok al) rs.
