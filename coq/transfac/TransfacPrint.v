(* Canonical printer of TRANSFAC files (the inverse direction of the reader), the
   boolean well-formedness condition [wf_file] of what it prints, and the records the
   reader is expected to return.  The harness' `print_canon` is a Rust copy of
   [print_file]; the driver compares their outputs byte for byte on every canonical
   case.  No proofs in this file. *)
From Coq Require Import List Bool Arith NArith.
From Coq Require Import Init.Byte.
From LMTransfac Require Import Bytes Nom TransfacParse.
Import ListNotations.
Local Open Scope byte_scope.

(* a count row: label, count tokens, and the text after the last count (e.g. blanks and the
   consensus letter of TRANSFAC files; may be empty) *)
Record prow := mkRow {
  pr_label : str;
  pr_toks : list (str * str);   (* the blanks/tabs written before each count, and the count *)
  pr_tail : str }.

Definition row_toks (r : prow) : list str := map snd (pr_toks r).

(* the lines of a record, in file order *)
Inductive fieldk := FAC | FID | FNA | FDE.
Inductive skipk := KBA | KBS | KBF | KCO.

(* the lines of a reference block after its RN line *)
Inductive refline :=
| RX (pmid : str)                   (* "RX  PUBMED: pmid." *)
| RA (text : str)                   (* "RA" followed by text (authors: not kept by the parser) *)
| RT (title : str)                  (* "RT  title" *)
| RL (link : str).                  (* "RL  link" *)

Inductive item :=
| IRef (num : str)                  (* "RN  [num]" or "RN  [num]; xref." followed by RX/RA/RT/RL lines *)
       (xref : option str)
       (lines : list refline)
| IField (k : fieldk) (pad : str) (v : str)
                                    (* "AC" / "ID" / "NA" / "DE", blanks or tabs [pad] (possibly none), the value *)
| ISkip (k : skipk) (v : str)       (* "BA" / "BS" / "BF" / "CO" followed by the text v (not shown by Record) *)
| IXX                               (* an "XX" separator line *)
| ICC (t : str) (ts : list str)     (* a run of comment lines "CC" ++ text (not shown by Record) *)
| IDT (day month year : str) (created : bool) (author : str)
                                    (* "DT  dd.mm.yyyy (created|updated); author." (not shown by Record) *)
| IMatrix (po : bool)               (* the header is spelled "PO" (else "P0") *)
          (syms : list (str * byte)) (* the blanks/tabs written before each symbol letter, and the letter *)
          (rows : list prow).

Definition sym_letters (syms : list (str * byte)) : str := map snd syms.

Definition prec := list item.

Definition field_tag (k : fieldk) : byte * byte :=
  match k with FAC => ("A", "C") | FID => ("I", "D") | FNA => ("N", "A") | FDE => ("D", "E") end.
Definition skip_tag (k : skipk) : byte * byte :=
  match k with KBA => ("B", "A") | KBS => ("B", "S") | KBF => ("B", "F") | KCO => ("C", "O") end.

Definition eol_of (crlf : bool) : str := if crlf then [x0d; x0a] else [x0a].

Definition xx_line (eol : str) : str := ["X"; "X"] ++ eol.

Definition print_row (eol : str) (r : prow) : str :=
  pr_label r ++ flat_map (fun st => fst st ++ snd st) (pr_toks r) ++ pr_tail r ++ eol.

Definition print_refline (eol : str) (l : refline) : str :=
  match l with
  | RX p => ["R"; "X"; " "; " "; "P"; "U"; "B"; "M"; "E"; "D"; ":"; " "] ++ p ++ ["."] ++ eol
  | RA t => ["R"; "A"] ++ t ++ eol
  | RT t => ["R"; "T"; " "; " "] ++ t ++ eol
  | RL t => ["R"; "L"; " "; " "] ++ t ++ eol
  end.

Definition print_xref (xref : option str) : str :=
  match xref with Some x => [";"; " "] ++ x ++ ["."] | None => [] end.

Definition print_item (eol : str) (it : item) : str :=
  match it with
  | IRef num xref lines =>
      ["R"; "N"; " "; " "; "["] ++ num ++ ["]"] ++ print_xref xref ++ eol ++ flat_map (print_refline eol) lines
  | IField k pad v => [fst (field_tag k); snd (field_tag k)] ++ pad ++ v ++ eol
  | ISkip k v => [fst (skip_tag k); snd (skip_tag k)] ++ v ++ eol
  | IXX => xx_line eol
  | ICC t ts => flat_map (fun x => ["C"; "C"] ++ x ++ eol) (t :: ts)
  | IDT d m y created author =>
      ["D"; "T"; " "; " "] ++ d ++ ["."] ++ m ++ ["."] ++ y ++ [" "; "("] ++
      (if created then ["c"; "r"; "e"; "a"; "t"; "e"; "d"] else ["u"; "p"; "d"; "a"; "t"; "e"; "d"]) ++
      [")"; ";"; " "] ++ author ++ ["."] ++ eol
  | IMatrix po syms rows =>
      ["P"; if po then "O" else "0"] ++ flat_map (fun sc => fst sc ++ [snd sc]) syms ++ eol
      ++ flat_map (print_row eol) rows
  end.

Definition print_body (eol : str) (r : prec) : str := flat_map (print_item eol) r.

(* a record with its "//" line; [term] = the line ending after "//" (possibly none for the last) *)
Definition print_record (eol term : str) (r : prec) : str :=
  print_body eol r ++ ["/"; "/"] ++ term.

Fixpoint print_records (eol : str) (fnl : bool) (rs : list prec) : str :=
  match rs with
  | [] => []
  | [r] => print_record eol (if fnl then eol else []) r
  | r :: t => print_record eol eol r ++ print_records eol fnl t
  end.

Definition print_header (eol : str) (vv : option str) : str :=
  match vv with
  | None => []
  | Some v => ["V"; "V"; " "; " "] ++ v ++ eol ++ xx_line eol ++ ["/"; "/"] ++ eol
  end.

Definition print_file (vv : option str) (crlf fnl : bool) (rs : list prec) : str :=
  print_header (eol_of crlf) vv ++ print_records (eol_of crlf) fnl rs.

(* ---- what the reader must return ---- *)

Fixpoint sym_indices (al : alpha) (syms : str) : option (list nat) :=
  match syms with
  | [] => Some []
  | c :: t => match sym_index al c, sym_indices al t with
              | Some k, Some l => Some (k :: l)
              | _, _ => None
              end
  end.

Definition set_ac v r := mkRec (r_id r) (Some v) (r_name r) (r_desc r) (r_data r) (r_refs r).
Definition set_id v r := mkRec (Some v) (r_ac r) (r_name r) (r_desc r) (r_data r) (r_refs r).
Definition set_na v r := mkRec (r_id r) (r_ac r) (Some v) (r_desc r) (r_data r) (r_refs r).
Definition set_de v r := mkRec (r_id r) (r_ac r) (r_name r) (Some v) (r_data r) (r_refs r).
Definition set_data m r := mkRec (r_id r) (r_ac r) (r_name r) (r_desc r) (Some m) (r_refs r).

Definition set_field (k : fieldk) : str -> record -> record :=
  match k with FAC => set_ac | FID => set_id | FNA => set_na | FDE => set_de end.

(* the effect of one line on the record being built: a later line of the same kind replaces
   an earlier one *)
(* pmid / link / title of a reference block: the last RX / RL / RT line *)
Definition apply_refline (x : option str * option str * option str) (l : refline) :=
  let '(pmid, link, title) := x in
  match l with
  | RX p => (Some p, link, title)
  | RA _ => (pmid, link, title)
  | RT t => (pmid, link, Some t)
  | RL t => (pmid, Some t, title)
  end.

Definition ref_of (num : str) (xref : option str) (lines : list refline) : reference :=
  let '(pmid, link, title) := fold_left apply_refline lines (None, None, None) in
  mkRef (match u32 num with POk n _ => n | _ => 0%N end) xref title link pmid.

Definition add_ref (x : reference) (r : record) : record :=
  mkRec (r_id r) (r_ac r) (r_name r) (r_desc r) (r_data r) (r_refs r ++ [x]).

Definition apply_item (al : alpha) (r : record) (it : item) : record :=
  match it with
  | IRef num xref lines => add_ref (ref_of num xref lines) r
  | IField k _ v => set_field k v r
  | IMatrix _ syms rows =>
      match sym_indices al (sym_letters syms) with
      | Some idx => set_data (build_matrix al idx (map row_toks rows)) r
      | None => r
      end
  | _ => r
  end.

Definition expected_record (al : alpha) (p : prec) : record :=
  fold_left (apply_item al) p empty_record.

(* the same in closed form: every field is the value of the last line of its kind, the matrix
   that of the last matrix block (proved equal to [expected_record] in CellProofs) *)
Definition fieldk_eqb (a b : fieldk) : bool :=
  match a, b with FAC, FAC | FID, FID | FNA, FNA | FDE, FDE => true | _, _ => false end.

Fixpoint last_field (k : fieldk) (p : prec) : option str :=
  match p with
  | [] => None
  | it :: t =>
      match last_field k t with
      | Some v => Some v
      | None => match it with
                | IField k' _ v => if fieldk_eqb k k' then Some v else None
                | _ => None
                end
      end
  end.

Definition item_matrix (al : alpha) (it : item) : option (list (list cell)) :=
  match it with
  | IMatrix _ syms rows =>
      match sym_indices al (sym_letters syms) with
      | Some idx => Some (build_matrix al idx (map row_toks rows))
      | None => None
      end
  | _ => None
  end.

Fixpoint refs_of (p : prec) : list reference :=
  match p with
  | [] => []
  | IRef num xref lines :: t => ref_of num xref lines :: refs_of t
  | _ :: t => refs_of t
  end.

Fixpoint last_matrix (al : alpha) (p : prec) : option (list (list cell)) :=
  match p with
  | [] => None
  | it :: t => match last_matrix al t with Some m => Some m | None => item_matrix al it end
  end.

(* ---- well-formedness of a printable file ---- *)

Definition no_nl (s : str) : bool := forallb (fun b => negb (is_nl b)) s.

(* a metadata value: one line, valid UTF-8, nothing that `trim()` would remove *)
Definition field_ok (s : str) : bool :=
  no_nl s && utf8_valid s && str_eqb (trim s) s.

(* a row label: what `nom::character::complete::u32` accepts entirely *)
Definition label_ok (l : str) : bool :=
  match u32 l with POk _ [] => true | _ => false end.

(* plain bytes: ASCII other than the line feed *)
Definition plain (b : byte) : bool := N.ltb (bN b) 128 && negb (is_nl b).

(* a count: any text that nom's float parser (parse_element) accepts entirely -- digits,
   optional fraction / exponent / sign, nan, inf -- and that does not start with a blank *)
Definition token_ok (t : str) : bool :=
  match t with [] => false | b :: _ => negb (is_blank b) end &&
  forallb plain t &&
  match float_token t with POk v [] => str_eqb v t | _ => false end.

Fixpoint nodupb (l : str) : bool :=
  match l with
  | [] => true
  | c :: t => negb (existsb (beq c) t) && nodupb t
  end.

(* the column separator: at least one blank or tab *)
Definition sep_ok (sep : str) : bool :=
  match sep with [] => false | _ => forallb is_blank sep end.

(* the text after the last count of a row: one line, valid UTF-8, empty or starting with a blank *)
Definition tail_ok (tl : str) : bool :=
  no_nl tl && utf8_valid tl && match tl with [] => true | b :: _ => is_blank b end.

Definition row_ok (k : nat) (r : prow) : bool :=
  label_ok (pr_label r) && Nat.eqb (length (pr_toks r)) k &&
  forallb (fun st => sep_ok (fst st) && token_ok (snd st)) (pr_toks r) &&
  tail_ok (pr_tail r).

Definition no_dot (s : str) : bool := forallb (fun b => negb (beq "." b)) s.

Definition refline_ok (l : refline) : bool :=
  match l with
  | RX p => no_nl p && utf8_valid p && no_dot p && match p with [] => true | b :: _ => negb (is_blank b) end
  | RA t => no_nl t && utf8_valid t
  | RT t => field_ok t
  | RL t => field_ok t
  end.

Definition xref_ok (xref : option str) : bool :=
  match xref with None => true | Some x => field_ok x && no_dot x end.

(* a decimal number that nom's u8 / u16 parser accepts entirely *)
Definition num_ok (maxv : N) (s : str) : bool :=
  match uint maxv s with POk _ [] => true | _ => false end.

Definition is_cc (it : item) : bool := match it with ICC _ _ => true | _ => false end.

(* two runs of comment lines are not adjacent (they would be one run) *)
Fixpoint cc_ok (p : list item) : bool :=
  match p with
  | [] => true
  | it :: t => negb (is_cc it && match t with it' :: _ => is_cc it' | [] => false end) && cc_ok t
  end.

Definition item_ok (al : alpha) (it : item) : bool :=
  match it with
  | ICC t ts => forallb (fun x => no_nl x && utf8_valid x) (t :: ts)
  | IDT d m y _ author =>
      num_ok 255 d && num_ok 255 m && num_ok 65535 y && no_nl author && utf8_valid author && no_dot author
  | IRef num xref lines => label_ok num && xref_ok xref && forallb refline_ok lines
  | IField _ pad v => forallb is_blank pad && field_ok v
  | ISkip _ v => no_nl v && utf8_valid v
  | IXX => true
  | IMatrix _ syms rows =>
      match syms with [] => false | _ => true end &&
      match sym_indices al (sym_letters syms) with Some _ => true | None => false end &&
      nodupb (sym_letters syms) && forallb (fun sc => sep_ok (fst sc)) syms &&
      match rows with [] => false | _ => true end &&
      forallb (row_ok (length syms)) rows
  end.

Definition prec_ok (al : alpha) (r : prec) : bool := forallb (item_ok al) r && cc_ok r.

Definition vv_ok (vv : option str) : bool :=
  match vv with None => true | Some v => no_nl v && utf8_valid v end.

Definition wf_file (al : alpha) (vv : option str) (rs : list prec) : bool :=
  vv_ok vv && forallb (prec_ok al) rs.
