(* Exact arithmetic (extended rationals): what `unscale` gives back, and when the factor is zero.
     unscale_scale     unscale(scale(t)) for a finite t and a positive factor: in [offset, offset + 255 factor],
                       <= t as soon as t >= offset, > t - factor as soon as t < offset + 256 factor
     unscale_bounds_real  for every window: real score < unscale(byte score) + factor (the sound form of the
                       `unscale(u8) >= expected` of tests/dna.rs)
     factor_zero_iff_constant  the factor of to_discrete is 0 iff every row is constant over the non-wildcard symbols *)
From Coq Require Import List ZArith QArith Qabs Qround Bool Arith Lia Lqa.
From LMBase Require Import Res ListX.
From LMDisc Require Import DiscModel DiscProofs.
Import ListNotations.
Local Open Scope Q_scope.

(* ---------- unscale o scale ---------- *)

Definition unscaleq (f off : Q) (b : Z) : Q := inject_Z b * f + off.

Lemma unscale_with_q (f off : Q) (b : Z) : unscale_with xq_ops (XFin f) (XFin off) b = XFin (unscaleq f off b).
Proof. reflexivity. Qed.

Lemma scaleq_pos (f off t : Q) : 0 < f -> scaleq f off (XFin t) = clamp (Qfloor ((t + - off) / f)).
Proof.
  intros Hf. unfold scaleq. cbn [xq_sub xq_neg xq_add xq_div]. rewrite (pos_cmp f Hf). reflexivity.
Qed.

Lemma inject_Z_le_iff (a b : Z) : (a <= b)%Z -> inject_Z a <= inject_Z b.
Proof. intros H. rewrite <- Zle_Qle. exact H. Qed.

Lemma unscaleq_mono (f off : Q) (b1 b2 : Z) : 0 <= f -> (b1 <= b2)%Z -> unscaleq f off b1 <= unscaleq f off b2.
Proof.
  intros Hf Hb. unfold unscaleq. apply Qplus_le_compat; [|apply Qle_refl].
  apply Qmult_le_compat_r; [apply inject_Z_le_iff; exact Hb|exact Hf].
Qed.

Lemma div_mul_cancel (p f : Q) : 0 < f -> p / f * f == p.
Proof. intros Hf. field. intros E. rewrite E in Hf. apply (Qlt_irrefl 0 Hf). Qed.

Theorem unscale_scale (f off t : Q) : 0 < f ->
  let u := unscaleq f off (scaleq f off (XFin t)) in
  off <= u /\ u <= off + 255 * f /\
  (off <= t -> u <= t) /\
  (t < off + 256 * f -> t < u + f).
Proof.
  intros Hf u. unfold u. rewrite scaleq_pos by exact Hf.
  set (q := (t + - off) / f). set (fl := Qfloor q).
  pose proof (Qfloor_le q) as Hfl1. pose proof (Qlt_floor q) as Hfl2. fold fl in Hfl1, Hfl2.
  assert (Hq : q * f == t + - off) by (unfold q; apply div_mul_cancel; exact Hf).
  pose proof (clamp_range fl) as [Hc0 Hc255].
  assert (Hc0q : 0 <= inject_Z (clamp fl)) by (change 0 with (inject_Z 0); apply inject_Z_le_iff; exact Hc0).
  assert (Hc255q : inject_Z (clamp fl) <= 255) by (change 255 with (inject_Z 255); apply inject_Z_le_iff; exact Hc255).
  unfold unscaleq. repeat split.
  - nra.
  - nra.
  - intros Hle.
    assert (Hq0 : 0 <= q).
    { unfold q, Qdiv. apply Qmult_le_0_compat; [lra|]. apply Qlt_le_weak, Qinv_lt_0_compat; exact Hf. }
    assert (Hfl0 : (0 <= fl)%Z).
    { unfold fl. change 0%Z with (Qfloor 0). apply Qfloor_resp_le. exact Hq0. }
    assert (Hcl : (clamp fl <= fl)%Z) by (unfold clamp; lia).
    assert (Hclq : inject_Z (clamp fl) <= q).
    { apply Qle_trans with (inject_Z fl); [apply inject_Z_le_iff; exact Hcl|exact Hfl1]. }
    nra.
  - intros Hlt.
    assert (Hq256 : q < 256).
    { apply Qmult_lt_r with f; [exact Hf|]. rewrite Hq. lra. }
    assert (Hfl255 : (fl <= 255)%Z).
    { assert (inject_Z fl < inject_Z 256) by (apply Qle_lt_trans with q; [exact Hfl1|exact Hq256]).
      rewrite <- Zlt_Qlt in H. lia. }
    assert (Hcl : (fl <= clamp fl)%Z) by (unfold clamp; lia).
    assert (Hclq : q < inject_Z (clamp fl) + 1).
    { apply Qlt_le_trans with (inject_Z (fl + 1)); [exact Hfl2|].
      rewrite inject_Z_plus. apply Qplus_le_compat; [apply inject_Z_le_iff; exact Hcl|apply Qle_refl]. }
    nra.
Qed.

(* every window: the real score is below unscale(byte score) + factor, as long as it is below offset + 256 factor
   (true of every window without a wildcard cell above its row maximum: real <= max_score = offset + 255 factor) *)
Theorem unscale_bounds_real K (m : list (list xq)) (d : @dmat xq) (w : list nat) (r : Q) (b : Z) (f off : Q) :
  Forall (fun row => Forall xq_finite (nonwild K row)) m ->
  to_discrete xq_ops K m = Ok d ->
  real_wscore xq_ops m w = Ok (XFin r) ->
  disc_wscore (d_data d) w = Ok b ->
  d_factor d = XFin f -> d_offset d = XFin off -> 0 < f ->
  r < off + 256 * f ->
  unscale xq_ops d b = XFin (unscaleq f off b) /\ r < unscaleq f off b + f.
Proof.
  intros Hfin Hd Hreal Hb Hfac Hoff Hf Hr.
  pose proof (discrete_overestimates K m d w (XFin r) b Hfin Hd Hreal Hb) as Hmain.
  unfold scale, unscale in *. rewrite Hfac, Hoff in *. split; [reflexivity|].
  change (scale_with xq_ops (XFin f) (XFin off) (XFin r)) with (scaleq f off (XFin r)) in Hmain.
  destruct (unscale_scale f off r Hf) as [_ [_ [_ H]]]. specialize (H Hr).
  pose proof (unscaleq_mono f off _ _ (Qlt_le_weak _ _ Hf) Hmain). lra.
Qed.

(* ---------- the factor is zero exactly on matrices with constant rows ---------- *)

Definition row_const (row : list xq) : Prop := forall x y, In (XFin x) row -> In (XFin y) row -> x == y.

Lemma rows_min_max_const K (m : list (list xq)) :
  Forall (fun row => Forall xq_finite (nonwild K row)) m ->
  forall mins maxs, row_mins xq_ops K m = Ok mins -> row_maxs xq_ops K m = Ok maxs ->
  exists los his, mins = map XFin los /\ maxs = map XFin his /\ Forall2 Qle los his /\
                  (Forall2 Qeq los his <-> Forall (fun row => row_const (nonwild K row)) m).
Proof.
  induction 1 as [|row m Hrow Hm IH]; intros mins maxs Hmin Hmax;
    unfold row_mins, row_maxs in *; cbn [map_res] in Hmin, Hmax.
  - inversion Hmin; inversion Hmax; subst. exists [], []. repeat split; constructor.
  - destruct (row_min xq_ops (nonwild K row)) as [lo'| | |] eqn:Hlo; cbn [rbind] in Hmin; try discriminate.
    destruct (map_res (fun row => row_min xq_ops (nonwild K row)) m) as [mins'| | |] eqn:Hmins;
      cbn [rbind] in Hmin; try discriminate.
    destruct (row_max xq_ops (nonwild K row)) as [hi'| | |] eqn:Hhi; cbn [rbind] in Hmax; try discriminate.
    destruct (map_res (fun row => row_max xq_ops (nonwild K row)) m) as [maxs'| | |] eqn:Hmaxs;
      cbn [rbind] in Hmax; try discriminate.
    inversion Hmin; inversion Hmax; subst.
    assert (Hne : nonwild K row <> []).
    { intros E. rewrite E in Hlo. cbn in Hlo. discriminate. }
    destruct (row_min_max_fin _ Hrow Hne) as [lo [hi [H1 [H2 [Hle [Hinlo [Hinhi Hall]]]]]]].
    rewrite H1 in Hlo. rewrite H2 in Hhi. inversion Hlo; inversion Hhi; subst.
    destruct (IH mins' maxs' eq_refl eq_refl) as [los [his [-> [-> [Hall2 Hiff]]]]].
    exists (lo :: los), (hi :: his). repeat split.
    + constructor; assumption.
    + intros Heq. inversion Heq as [|? ? ? ? Hlh Hrest]; subst. constructor.
      * intros x y Hx Hy. destruct (Hall x Hx) as [Hx1 Hx2]. destruct (Hall y Hy) as [Hy1 Hy2]. apply Qle_antisym; lra.
      * apply Hiff. exact Hrest.
    + intros Hc. inversion Hc as [|? ? Hc1 Hc2]; subst. constructor.
      * apply Hc1; assumption.
      * apply Hiff. exact Hc2.
Qed.

Lemma qsum_eq_iff (los his : list Q) : Forall2 Qle los his -> (qsum his + - qsum los == 0 <-> Forall2 Qeq los his).
Proof.
  induction 1 as [|a b l1 l2 Hab Hl IH].
  - split; [constructor|intros; reflexivity].
  - pose proof (qsum_mono l1 l2 Hl) as Hm.
    change (qsum (b :: l2)) with (b + qsum l2). change (qsum (a :: l1)) with (a + qsum l1). split.
    + intros H0. assert (Hab' : a == b) by (apply Qle_antisym; lra). constructor; [exact Hab'|]. apply IH. lra.
    + intros H2. inversion H2 as [|? ? ? ? E1 E2]; subst. apply IH in E2. lra.
Qed.

Theorem factor_zero_iff_constant K (m : list (list xq)) (d : @dmat xq) :
  Forall (fun row => Forall xq_finite (nonwild K row)) m ->
  to_discrete xq_ops K m = Ok d ->
  exists f, d_factor d = XFin f /\ 0 <= f /\
            (f == 0 <-> Forall (fun row => row_const (nonwild K row)) m) /\
            (0 < f <-> ~ Forall (fun row => row_const (nonwild K row)) m).
Proof.
  intros Hfin H. unfold to_discrete, max_score in H.
  destruct (row_maxs xq_ops K m) as [maxs| | |] eqn:Hmaxs; cbn [rbind] in H; try discriminate.
  destruct (row_mins xq_ops K m) as [mins| | |] eqn:Hmins; cbn [rbind] in H; try discriminate.
  destruct (rows_min_max_const K m Hfin mins maxs Hmins Hmaxs) as [los [his [-> [-> [Hall Hiff]]]]].
  inversion H; subst d; clear H. cbn [d_factor].
  unfold sum_from. cbn [n_sum0 n_add xq_ops]. rewrite !fold_add_fin.
  set (Hi := fold_left Qplus his 0). set (Lo := fold_left Qplus los 0).
  exists (Qabs (Hi + - Lo) / inject_Z 255).
  assert (HiLo : Hi + - Lo == qsum his + - qsum los).
  { unfold Hi, Lo. rewrite !fold_Qplus_qsum. ring. }
  pose proof (qsum_mono los his Hall) as Hmono.
  assert (Habs : Qabs (Hi + - Lo) == qsum his + - qsum los).
  { rewrite HiLo. apply Qabs_pos. lra. }
  assert (Hfz : Qabs (Hi + - Lo) / inject_Z 255 == 0 <-> qsum his + - qsum los == 0).
  { rewrite Habs. unfold Qdiv. change (/ inject_Z 255) with (1 # 255). split; intros E; lra. }
  assert (Hnn : 0 <= Qabs (Hi + - Lo) / inject_Z 255).
  { rewrite Habs. unfold Qdiv. change (/ inject_Z 255) with (1 # 255). lra. }
  split; [reflexivity|]. split; [exact Hnn|]. split.
  - rewrite Hfz. rewrite (qsum_eq_iff los his Hall). exact Hiff.
  - split.
    + intros Hpos Hc. apply Hiff in Hc. apply (qsum_eq_iff los his Hall) in Hc. apply Hfz in Hc. lra.
    + intros Hnc. destruct (Qlt_le_dec 0 (Qabs (Hi + - Lo) / inject_Z 255)) as [Hp|Hn]; [exact Hp|].
      exfalso. apply Hnc. apply Hiff. apply (qsum_eq_iff los his Hall). apply Hfz. lra.
Qed.
