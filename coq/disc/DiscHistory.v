(* HISTORIES of 8-bit scoring calls on ONE reused `StripedScores<u8, C>` buffer (property C08).
   Executable definitions only; no proofs in this file.

   DiscModel.v / DiscU8Kernel.v give every `Score<u8>` call a FRESH result.  The code does not: the
   caller hands in `scores: &mut StripedScores<u8, C>`, the callee resizes it (`Vec::resize_with`:
   rows that survive keep their old bytes) and then WRITES into it -- cell by cell in the default
   `Score::score_rows_into` (pli/mod.rs), one 32-byte store per row in `score_u8_avx2_shuffle`
   (avx2.rs), one 16-byte store per (column block, row) in `score_u8_neon` (neon.rs).  `Scanner`
   (scan.rs) calls `score_rows_into` block after block on one buffer, so this is the normal use.

   Here the buffer is explicit:
     buf_resize           StripedScores::resize = DenseMatrix::resize + max_index
     generic_rows_into    Score::score_rows_into (trait default) writing `result[res_row][col] = score`
     vk_rows_into         a SIMD wrapper (guards in SOURCE order, as generated in GenDiscU8.v; the
                          resize happens where the source does it) + kernel stores into the buffer
     u8_rows_into         by kernel id (what an arm of the dispatcher / a static pipeline runs)
     hop / hstep / hrun   what a caller can interleave on one buffer: score_into, score_rows_into
                          (any pipeline, motif, sequence, row range), resize, matrix_mut().fill(v)
   DiscHistoryProofs.v proves that the buffer after a call is the FRESH result of that call whatever
   the buffer held before (C08_scores_history), so the main clause of C08 holds for it. *)
From Coq Require Import List ZArith Bool Arith.
From LMBase Require Import Res ListX.
From LMDisc Require Import DiscModel DiscU8Kernel.
Import ListNotations.
Local Open Scope nat_scope.

Definition P_STORE_OOB : nat := 10.  (* a write outside the score matrix: slice-index panic (generic), UB (SIMD stores) *)

Fixpoint fold_res {A B : Type} (f : A -> B -> res A) (l : list B) (a : A) : res A :=
  match l with
  | [] => Ok a
  | b :: r => a' <- f a b ;; fold_res f r a'
  end.

(* StripedScores::empty() *)
Definition buf_empty : sscores Z := {| sc_rows := []; sc_max := 0 |}.

(* StripedScores::resize(rows, max_index): self.data.resize(rows) = Vec::resize_with(rows, Default::default)
   (surviving rows keep their content, new rows are zero), then self.max_index = max_index *)
Definition buf_resize (C : nat) (old : sscores Z) (rows maxi : nat) : sscores Z :=
  {| sc_rows := firstn rows (sc_rows old) ++ repeat (repeat 0%Z C) (rows - length (sc_rows old));
     sc_max := maxi |}.

(* `result[res_row][col] = score` for col in the given order, on one row: the score is computed first
   (it may panic), then stored *)
Fixpoint write_cells (f : nat -> res Z) (cols : list nat) (row : list Z) : res (list Z) :=
  match cols with
  | [] => Ok row
  | c :: cs =>
      v <- f c ;;
      if c <? length row then write_cells f cs (upd c v row) else Panic P_STORE_OOB
  end.

(* a vector store of the bytes [v] at byte [off] of a row *)
Definition store_at (off : nat) (v : list Z) (row : list Z) : res (list Z) :=
  if off + length v <=? length row
  then Ok (firstn off row ++ v ++ skipn (off + length v) row)
  else Panic P_STORE_OOB.

(* rows k, k+1, .., k+n-1 of the buffer are rewritten in this order by [g] *)
Fixpoint write_rows (g : nat -> list Z -> res (list Z)) (k n : nat) (rows : list (list Z)) : res (list (list Z)) :=
  match n with
  | 0 => Ok rows
  | S n' =>
      match nth_error rows k with
      | None => Panic P_STORE_OOB
      | Some row => row' <- g k row ;; write_rows g (S k) n' (upd k row' rows)
      end
  end.

(* Score::score_rows_into, trait default (pli/mod.rs), on the caller's buffer *)
Definition generic_rows_into (C : nat) (dm : list (list Z)) (s : sseq) (lo hi : nat) (old : sscores Z)
  : res (sscores Z) :=
  if (ss_len s <? length dm) || (hi <=? lo) then Ok (buf_resize C old 0 0) else
  let maxi := (ss_len s + 1) - length dm in
  let b := buf_resize C old (hi - lo) maxi in
  rows <- write_rows (fun k row =>
                        write_cells (fun c => cell_from sat_add 0%Z dm (ss_rows s) (lo + k) c) (seq 0 C) row)
                     0 (hi - lo) (sc_rows b) ;;
  Ok {| sc_rows := rows; sc_max := maxi |}.

(* the SIMD kernels store into the buffer they are given: `for i in rows { .. store(rowptr, s); rowptr += stride }`
   (AVX2: one register = one row), `for offset in blocks { for i in rows { .. vst1q_u8(rowptr, s) .. } }` (NEON) *)
Definition vk_kernel_into (k : vkernel) (C : nat) (dm : list (list Z)) (pads : nat -> list Z) (s : sseq) (lo hi : nat)
           (b : sscores Z) : res (sscores Z) :=
  let mem := mem_rows dm pads in
  rows <-
    (if vk_blocked k
     then fold_res (fun rows blk =>
                      write_rows (fun r row => store_at (blk * vk_lanes k)
                                                        (vk_row k mem (ss_rows s) (lo + r) (blk * vk_lanes k)) row)
                                 0 (hi - lo) rows)
                   (seq 0 (C / vk_lanes k)) (sc_rows b)
     else write_rows (fun r row => store_at 0 (vk_row k mem (ss_rows s) (lo + r) 0) row) 0 (hi - lo) (sc_rows b)) ;;
  Ok {| sc_rows := rows; sc_max := sc_max b |}.

(* the safe wrapper on the caller's buffer: its steps in source order; `GResize` resizes the buffer where the
   source does it (a wrapper without it lets the kernel write into whatever the buffer was) *)
Fixpoint run_guards_into (C : nat) (gs : list guard) (M : nat) (s : sseq) (lo hi : nat) (buf : sscores Z)
         (kernel : sscores Z -> res (sscores Z)) : res (sscores Z) :=
  match gs with
  | [] => kernel buf
  | GWrap :: r =>
      if M =? 0 then Panic P_UNDERFLOW else
      if ss_wrap s <? M - 1 then Panic P_WRAP else run_guards_into C r M s lo hi buf kernel
  | GShort :: r =>
      if (ss_len s <? M) || (hi <=? lo) then Ok (buf_resize C buf 0 0)
      else run_guards_into C r M s lo hi buf kernel
  | GRange :: r =>
      if M =? 0 then Panic P_UNDERFLOW else
      if length (ss_rows s) <? hi + M - 1 then Panic P_ROWS else run_guards_into C r M s lo hi buf kernel
  | GResize :: r =>
      run_guards_into C r M s lo hi (buf_resize C buf (hi - lo) ((ss_len s + 1) - M)) kernel
  end.

Definition vk_rows_into (k : vkernel) (C : nat) (dm : list (list Z)) (pads : nat -> list Z) (s : sseq) (lo hi : nat)
           (old : sscores Z) : res (sscores Z) :=
  run_guards_into C (vk_guards k) (length dm) s lo hi old (fun b => vk_kernel_into k C dm pads s lo hi b).

Definition u8_rows_into (kavx kneon : vkernel) (id : u8_kernel_id) (C : nat) (dm : list (list Z)) (pads : nat -> list Z)
           (s : sseq) (lo hi : nat) (old : sscores Z) : res (sscores Z) :=
  match id with
  | UKGeneric => generic_rows_into C dm s lo hi old
  | UKAvx2Shuffle => vk_rows_into kavx C dm pads s lo hi old
  | UKNeon => vk_rows_into kneon C dm pads s lo hi old
  end.

(* ---------- histories ---------- *)

(* one scoring call: which kernel the pipeline / dispatcher arm runs, the discrete matrix (+ the bytes of its
   row padding) and the striped sequence; different calls of one history may use different ones *)
Record hcall : Type := mkHCall {
  hc_id : u8_kernel_id;
  hc_dm : list (list Z);
  hc_pads : nat -> list Z;
  hc_seq : sseq }.

Inductive hop : Type :=
| HScoreInto (c : hcall)                 (* pli.score_into(&dm, &seq, &mut scores) *)
| HRowsInto (c : hcall) (lo hi : nat)    (* pli.score_rows_into(&dm, &seq, lo..hi, &mut scores) *)
| HResize (rows maxi : nat)              (* scores.resize(rows, maxi) *)
| HFill (v : Z).                         (* scores.matrix_mut().fill(v): the caller scribbles over the buffer *)

Section Hist.
  Variables kavx kneon : vkernel.
  Variable C : nat.

  Definition call_rows_into (c : hcall) (lo hi : nat) (buf : sscores Z) : res (sscores Z) :=
    u8_rows_into kavx kneon (hc_id c) C (hc_dm c) (hc_pads c) (hc_seq c) lo hi buf.

  Definition hstep (op : hop) (buf : sscores Z) : res (sscores Z) :=
    match op with
    | HScoreInto c =>
        (* Score::score_into: rows = s.matrix().rows() - s.wrap(); score_rows_into(.., 0..rows, ..) *)
        call_rows_into c 0 (length (ss_rows (hc_seq c)) - ss_wrap (hc_seq c)) buf
    | HRowsInto c lo hi => call_rows_into c lo hi buf
    | HResize rows maxi => Ok (buf_resize C buf rows maxi)
    | HFill v => Ok {| sc_rows := map (map (fun _ => v)) (sc_rows buf); sc_max := sc_max buf |}
    end.

  Definition hrun (ops : list hop) (buf : sscores Z) : res (sscores Z) :=
    fold_res (fun b op => hstep op b) ops buf.

  (* the reference: the same call with a FRESH result (DiscModel.v / DiscU8Kernel.v) *)
  Definition fresh_call (c : hcall) (lo hi : nat) : res (sscores Z) :=
    run_u8_kernel kavx kneon (hc_id c) C (hc_dm c) (hc_pads c) (hc_seq c) lo hi.
End Hist.
