(* The main clause of C08 in binary32 when the factor is +0.0 (constant matrices, or a score
   range so small that range/255 underflows) or +inf (the range overflows), and the clause for
   every factor that [well_conditioned] admits with its sign bit clear.

   factor +0.0:  scale(real) = 255 if real (-) offset > 0 and 0 otherwise; a cell is 255 as soon
   as x_i > o_i (x_i (-) o_i is then positive: a subtraction never underflows to zero).  If no
   cell has x_i > o_i, the left-to-right sums keep the order (monotone rounding, infinities and
   NaN included), so real (-) offset is not positive. *)
From Coq Require Import ZArith Reals List Bool Lia Lra Psatz.
From Coq Require Import SpecFloat.
From Flocq Require Import Core BinarySingleNaN Plus_error.
From LMBase Require Import Res ListX IEEE.
From LMDisc Require Import DiscModel DiscImplCheck DiscProofs DiscF32Mono DiscF32Main DiscF32Sum DiscF32Cond.
Import ListNotations.

Local Open Scope R_scope.

Local Instance vexp32z : Valid_exp fexp32 := fexp_correct 24 128 Hprec32.
Local Instance vrnd32z : Valid_rnd (round_mode mode_NE) := valid_rnd_round_mode mode_NE.

(* ---------- monotone addition ---------- *)

Lemma add_rspec (a b : f32) : fin a = true -> fin b = true ->
  rspec (B2R a + B2R b) (F32.add a b) (Bsign a).
Proof.
  intros Ha Hb. unfold rspec.
  pose proof (Bplus_correct 24 128 _ _ mode_NE a b Ha Hb) as H.
  change (Bplus mode_NE a b) with (F32.add a b) in H.
  destruct (Rlt_bool (Rabs (rnd32 (B2R a + B2R b))) big).
  - destruct H as [HR [HF _]]. split; assumption.
  - destruct H as [HB Hsg]. split; [apply B2SF_inf; exact HB|]. split; intros E.
    + pose proof (Bsign_true_R a Ha E). rewrite E in Hsg. symmetry in Hsg.
      pose proof (Bsign_true_R b Hb Hsg). lra.
    + pose proof (Bsign_false_R a Ha E). rewrite E in Hsg. symmetry in Hsg.
      pose proof (Bsign_false_R b Hb Hsg). lra.
Qed.

Lemma add_fin_not_nan (a b : f32) : fin a = true -> fin b = true -> F32.add a b <> B754_nan.
Proof.
  intros Ha Hb E. pose proof (add_rspec a b Ha Hb) as H. unfold rspec in H. rewrite E in H.
  destruct (Rlt_bool _ _); [destruct H as [_ H]|destruct H as [H _]]; discriminate H.
Qed.

Lemma add_mono_fin (s x t o : f32) : fin s = true -> fin x = true -> fin t = true -> fin o = true ->
  fle s t -> fle x o -> fle (F32.add s x) (F32.add t o).
Proof.
  intros Hs Hx Ht Ho H1 H2. apply (fle_finite s t Hs Ht) in H1. apply (fle_finite x o Hx Ho) in H2.
  apply (rspec_mono (B2R s + B2R x) (B2R t + B2R o) _ _ (Bsign s) (Bsign t)); [lra| |];
    apply add_rspec; assumption.
Qed.

Lemma add_not_nan (t o : f32) : t <> B754_nan -> fin o = true -> F32.add t o <> B754_nan.
Proof.
  intros Ht Ho. destruct (fin t) eqn:Ft; [apply add_fin_not_nan; assumption|].
  destruct t as [st|[|]| |st mt et Hbt]; try discriminate Ft; try (exfalso; apply Ht; reflexivity);
    destruct o as [so|so| |so mo eo Hbo]; try discriminate Ho; discriminate.
Qed.

(* s is NaN, or s <= t *)
Definition srel (s t : f32) : Prop := s = B754_nan \/ fle s t.

Lemma fle_not_nan_l (s t : f32) : fle s t -> s <> B754_nan.
Proof. intros H E. subst s. kill H. Qed.

Lemma fle_not_nan_r (s t : f32) : fle s t -> t <> B754_nan.
Proof. intros H E. subst t. destruct s as [ss|[|]| |ss ms es Hs]; kill H. Qed.

Lemma add_srel_core (s x t o : f32) : fle s t -> fle x o -> fin o = true ->
  srel (F32.add s x) (F32.add t o).
Proof.
  intros H1 H2 Ho.
  pose proof (add_not_nan t o (fle_not_nan_r s t H1) Ho) as Hto.
  destruct (fin s) eqn:Fs; destruct (fin x) eqn:Fx.
  - destruct (fin t) eqn:Ft.
    + right. apply add_mono_fin; assumption.
    + right. destruct t as [st|[|]| |st mt et Hbt]; try discriminate Ft.
      * destruct s as [ss|ss| |ss ms es Hbs]; try discriminate Fs; kill H1.
      * replace (F32.add (B754_infinity false) o) with (B754_infinity false : f32)
          by (destruct o as [so|so| |so mo eo Hbo]; try discriminate Ho; reflexivity).
        apply fle_any_pinf. apply add_fin_not_nan; assumption.
      * destruct s as [ss|ss| |ss ms es Hbs]; try discriminate Fs; kill H1.
  - (* x is not finite and x <= o finite: x = -inf *)
    destruct x as [sx|[|]| |sx mx ex Hbx]; try discriminate Fx.
    + right. replace (F32.add s (B754_infinity true)) with (B754_infinity true : f32)
        by (destruct s as [ss|ss| |ss ms es Hbs]; try discriminate Fs; reflexivity).
      apply fle_ninf_any. exact Hto.
    + destruct o as [so|so| |so mo eo Hbo]; try discriminate Ho; kill H2.
    + kill H2.
  - (* s = -inf or +inf, x finite *)
    destruct s as [ss|[|]| |ss ms es Hbs]; try discriminate Fs.
    + right. replace (F32.add (B754_infinity true) x) with (B754_infinity true : f32)
        by (destruct x as [sx|sx| |sx mx ex Hbx]; try discriminate Fx; reflexivity).
      apply fle_ninf_any. exact Hto.
    + destruct t as [st|[|]| |st mt et Hbt]; try (kill H1).
      right. replace (F32.add (B754_infinity false) x) with (B754_infinity false : f32)
        by (destruct x as [sx|sx| |sx mx ex Hbx]; try discriminate Fx; reflexivity).
      replace (F32.add (B754_infinity false) o) with (B754_infinity false : f32)
        by (destruct o as [so|so| |so mo eo Hbo]; try discriminate Ho; reflexivity).
      reflexivity.
    + kill H1.
  - (* both not finite: x = -inf *)
    destruct x as [sx|[|]| |sx mx ex Hbx]; try discriminate Fx.
    + destruct s as [ss|[|]| |ss ms es Hbs]; try discriminate Fs.
      * right. change (F32.add (B754_infinity true) (B754_infinity true)) with (B754_infinity true : f32).
        apply fle_ninf_any. exact Hto.
      * left. reflexivity.
      * kill H1.
    + destruct o as [so|so| |so mo eo Hbo]; try discriminate Ho; kill H2.
    + kill H2.
Qed.

(* a cell with its row offset: the cell is NaN or at most the offset, the offset is finite *)
Definition not_above (p : f32 * f32) : Prop :=
  (fst p = B754_nan \/ fle (fst p) (snd p)) /\ fin (snd p) = true.

Lemma fold_srel (ps : list (f32 * f32)) : Forall not_above ps ->
  forall s t, srel s t -> t <> B754_nan ->
  srel (fold_left F32.add (map fst ps) s) (fold_left F32.add (map snd ps) t) /\
  fold_left F32.add (map snd ps) t <> B754_nan.
Proof.
  induction 1 as [|[x o] ps [Hxo Ho] Hps IH]; intros s t Hst Ht; cbn [map fold_left fst snd] in *.
  - split; assumption.
  - apply IH; [|apply add_not_nan; assumption].
    destruct Hst as [->|Hst]; [left; destruct x; reflexivity|].
    destruct Hxo as [->|Hxo]; [left; destruct s; reflexivity|].
    apply add_srel_core; assumption.
Qed.

(* ---------- factor +0.0 ---------- *)

Notation pzero := (B754_zero false : f32).

Lemma sub_self (t : f32) : fin t = true -> fin (F32.sub t t) = true /\ B2R (F32.sub t t) = 0.
Proof.
  intros Ht. pose proof (sub_rspec t t Ht Ht) as H. unfold rspec in H.
  replace (B2R t - B2R t) with 0 in H by ring. rewrite rnd32_0, Rabs_R0 in H.
  rewrite Rlt_bool_true in H by apply big_pos. destruct H as [H1 H2]. split; assumption.
Qed.

Lemma byte_div_zero_nonpos (u : f32) : fin u = true -> B2R u <= 0 -> byte (F32.div u pzero) = 0%Z.
Proof.
  intros Hu Hle. destruct u as [su|su| |su mu eu Hbu]; try discriminate Hu.
  - destruct su; reflexivity.
  - destruct su; [reflexivity|]. exfalso.
    assert (0 < B2R (B754_finite false mu eu Hbu : f32)) by (apply F2R_gt_0; cbn; lia). lra.
Qed.

Lemma scale_zero_srel (S T : f32) : srel S T -> T <> B754_nan -> byte (F32.div (F32.sub S T) pzero) = 0%Z.
Proof.
  intros [->|Hle] HT.
  - destruct T; reflexivity.
  - pose proof (sub_mono S T T Hle) as [E|[[E1 E2]|E]].
    + rewrite E. reflexivity.
    + rewrite E2. reflexivity.
    + destruct (fin T) eqn:Ft.
      * destruct (sub_self T Ft) as [V1 V2].
        set (u := F32.sub S T) in *. set (v := F32.sub T T) in *.
        destruct (fin u) eqn:Fu.
        -- apply byte_div_zero_nonpos; [exact Fu|]. apply (fle_finite u v Fu V1) in E. lra.
        -- destruct u as [su|[|]| |su mu eu Hbu]; try discriminate Fu.
           ++ reflexivity.
           ++ destruct v as [sv|sv| |sv mv ev Hbv]; try discriminate V1; kill E.
           ++ reflexivity.
      * exfalso. destruct T as [st|[|]| |st mt et Hbt]; try discriminate Ft.
        -- change (F32.sub (B754_infinity true) (B754_infinity true)) with (B754_nan : f32) in E.
           apply (fle_not_nan_r _ _ E). reflexivity.
        -- change (F32.sub (B754_infinity false) (B754_infinity false)) with (B754_nan : f32) in E.
           apply (fle_not_nan_r _ _ E). reflexivity.
        -- apply HT. reflexivity.
Qed.

(* a cell strictly above its (finite) row offset is 255 when the factor is +0.0 *)
Lemma cell_above_zero (x o : f32) : fin o = true -> F32.lt o x = true ->
  disc_cell f32_ops pzero o x = 255%Z.
Proof.
  intros Ho Hlt. rewrite disc_cell_f32.
  destruct (fin x) eqn:Fx.
  - unfold F32.lt, flt, fcmp in Hlt. rewrite (Bcompare_correct 24 128 o x Ho Fx) in Hlt.
    destruct (Rcompare_spec (B2R o) (B2R x)) as [Hox| |]; try discriminate Hlt.
    pose proof (sub_rspec x o Fx Ho) as H. unfold rspec in H.
    destruct (Rlt_bool (Rabs (rnd32 (B2R x - B2R o))) big).
    + destruct H as [HR HF].
      assert (Hge : 0 <= rnd32 (B2R x - B2R o)) by (rewrite <- rnd32_0; apply rnd32_le; lra).
      assert (Hne : rnd32 (B2R x - B2R o) <> 0).
      { intros E. unfold Rminus in E.
        apply (round_plus_eq_0 radix2 fexp32 (round_mode mode_NE)) in E;
          [lra|apply generic_format_B2R|apply generic_format_opp; apply generic_format_B2R]. }
      destruct (F32.sub x o) as [sd|sd| |sd md ed Hbd]; try discriminate HF.
      * cbn [B2R] in HR. lra.
      * destruct sd; [|reflexivity]. exfalso.
        assert (B2R (B754_finite true md ed Hbd : f32) < 0) by (apply F2R_lt_0; cbn; lia). lra.
    + destruct H as [Hq [Hs1 Hs2]]. rewrite Hq. destruct (Bsign x); [|reflexivity].
      specialize (Hs1 eq_refl). lra.
  - destruct x as [sx|[|]| |sx mx ex Hbx]; try discriminate Fx.
    + destruct o as [so|so| |so mo eo Hbo]; try discriminate Ho; kill Hlt.
    + destruct o as [so|so| |so mo eo Hbo]; try discriminate Ho; reflexivity.
    + destruct o as [so|so| |so mo eo Hbo]; try discriminate Ho; kill Hlt.
Qed.

(* not (o < x), o finite: x is NaN or x <= o *)
Lemma not_lt_not_above (x o : f32) : fin o = true -> F32.lt o x = false -> not_above (x, o).
Proof.
  intros Ho Hlt. split; [|exact Ho]. cbn [fst snd].
  destruct x as [sx|[|]| |sx mx ex Hbx] eqn:Ex; try (left; reflexivity); right; rewrite <- Ex in *;
    unfold fle, F32.le, IEEE.fle, fcmp; unfold F32.lt, flt, fcmp in Hlt;
    rewrite (Bcompare_swap 24 128 o x); destruct (Bcompare o x) as [[| |]|] eqn:Ec;
    try reflexivity; try discriminate Hlt; subst x;
    destruct o as [so|so| |so mo eo Hbo]; try discriminate Ho; try destruct so; discriminate Ec.
Qed.

Lemma zero_factor_window (xs os : list f32) (offsetv : f32) :
  length os = length xs -> Forall (fun o => fin o = true) os ->
  offsetv = fold_left F32.add os F32.nzero ->
  (scale_with f32_ops pzero offsetv (fold_left F32.add xs F32.zero)
   <= satsum (map (fun p => disc_cell f32_ops pzero (snd p) (fst p)) (combine xs os)))%Z.
Proof.
  intros Hl Hos ->. rewrite scale_with_f32.
  pose proof (cells_nonneg_pairs pzero (combine xs os)) as Hnn.
  assert (Hcomb : forall p, In p (combine xs os) -> fin (snd p) = true).
  { intros [x o] Hp. apply in_combine_r in Hp. rewrite Forall_forall in Hos. apply Hos. exact Hp. }
  destruct (existsb (fun p => F32.lt (snd p) (fst p)) (combine xs os)) eqn:Hex.
  - apply existsb_exists in Hex. destruct Hex as [[x o] [Hin Hlt]]. cbn [fst snd] in Hlt.
    rewrite (satsum_has_255 _ Hnn); [apply byte_range|].
    apply in_map_iff. exists (x, o). split; [|exact Hin]. cbn [fst snd].
    apply cell_above_zero; [apply (Hcomb _ Hin)|exact Hlt].
  - assert (Hna : Forall not_above (combine xs os)).
    { apply Forall_forall. intros [x o] Hin. apply not_lt_not_above; [apply (Hcomb _ Hin)|].
      destruct (F32.lt o x) eqn:E; [|reflexivity].
      assert (existsb (fun p => F32.lt (snd p) (fst p)) (combine xs os) = true)
        by (apply existsb_exists; exists (x, o); split; [exact Hin|exact E]).
      congruence. }
    assert (Hz : srel F32.zero F32.nzero) by (right; reflexivity).
    assert (Hnz : F32.nzero <> B754_nan) by discriminate.
    destruct (fold_srel _ Hna F32.zero F32.nzero Hz Hnz) as [Hrel Hnn'].
    rewrite (combine_fst xs os) in Hrel by (symmetry; exact Hl).
    rewrite (combine_snd xs os) in Hrel, Hnn' by (symmetry; exact Hl).
    rewrite (scale_zero_srel _ _ Hrel Hnn'). apply (satsum_range _ Hnn).
Qed.

(* ---------- every factor admitted by the predicate, sign bit clear ---------- *)

Lemma to_discrete_inv (K : nat) (m : list (list F32.t)) (d : @dmat F32.t) :
  to_discrete f32_ops K m = Ok d ->
  exists os, row_mins f32_ops K m = Ok os /\ d_offsets d = os /\
             d_offset d = fold_left F32.add os F32.nzero /\
             d_data d = disc_rows f32_ops (d_factor d) m os.
Proof.
  unfold to_discrete. intros Hd.
  destruct (max_score f32_ops K m) as [mx| | |]; cbn [rbind] in Hd; try discriminate.
  destruct (row_mins f32_ops K m) as [os| | |]; cbn [rbind] in Hd; try discriminate.
  injection Hd as <-. exists os. repeat split; reflexivity.
Qed.

Lemma offsets_finite (K : nat) (m : list (list F32.t)) :
  Forall (fun row => Forall (fun x => F32.is_finite x = true) (nonwild K row)) m ->
  forall os, row_mins f32_ops K m = Ok os -> Forall (fun o => fin o = true) os.
Proof.
  intros Hfin. induction m as [|row m IH]; intros os Hos; unfold row_mins in Hos; cbn [map_res] in Hos.
  - inversion Hos. constructor.
  - destruct (row_min f32_ops (nonwild K row)) as [o| | |] eqn:Ho; cbn [rbind] in Hos; try discriminate Hos.
    destruct (map_res (fun row0 => row_min f32_ops (nonwild K row0)) m) as [os'| | |] eqn:Hos'; cbn [rbind] in Hos; try discriminate Hos.
    inversion Hos; subst os. inversion Hfin as [|? ? Hrow Hfin']; subst.
    constructor; [|apply IH; [exact Hfin'|exact Hos']].
    rewrite Forall_forall in Hrow. apply Hrow. apply row_min_In. exact Ho.
Qed.

(* the byte score of a window is the saturating sum of its cells *)
Lemma window_cells (m : list (list F32.t)) (f : F32.t) (os : list F32.t) (w : list nat) (xs : list F32.t) (b : Z) :
  length os = length m -> pick m w = Some xs ->
  disc_wscore (disc_rows f32_ops f m os) w = Ok b ->
  b = satsum (map (fun p => disc_cell f32_ops f (snd p) (fst p)) (combine xs os)).
Proof.
  intros Hlo Hp Hb.
  pose proof (pick_disc_rows f32_ops f m os w xs Hlo Hp) as Hpd.
  unfold disc_wscore, wscore in Hb.
  destruct (wscore_from_pick sat_add _ _ _ _ Hb) as [cs [Hcs Hbs]]. rewrite Hpd in Hcs.
  inversion Hcs; subst cs. exact Hbs.
Qed.

Theorem f32_main_all_factors (K : nat) (m : list (list F32.t)) (d : @dmat F32.t)
        (w : list nat) (real : F32.t) (b : Z) :
  Forall (fun row => Forall (fun x => F32.is_finite x = true) (nonwild K row)) m ->
  to_discrete f32_ops K m = Ok d ->
  real_wscore f32_ops m w = Ok real ->
  disc_wscore (d_data d) w = Ok b ->
  well_conditioned m (d_factor d) = true ->
  factor_sign_clear (d_factor d) = true ->
  (Z.of_nat (length m) <= 16384)%Z ->
  F32.le (cond_A m) (F32.of_Z_exp 1 126) = true ->
  (scale f32_ops d real <= b)%Z.
Proof.
  intros Hfin Hd Hreal Hb Hwc Hsc Hlen HA.
  destruct (to_discrete_inv K m d Hd) as [os [Hos [Eos [Eoff Edata]]]].
  pose proof Hreal as Hreal'. unfold real_wscore, wscore in Hreal'.
  destruct (wscore_from_pick (n_add f32_ops) _ _ _ _ Hreal') as [xs [Hp Hr]]. cbn [f32_ops n_add n_zero] in Hr.
  pose proof (map_res_length _ _ _ Hos) as Hlo.
  rewrite Edata in Hb.
  pose proof (window_cells m (d_factor d) os w xs b Hlo Hp Hb) as Eb.
  assert (Hlx : length os = length xs) by (transitivity (length m); [exact Hlo|symmetry; apply (pick_length m w xs Hp)]).
  pose proof (offsets_finite K m Hfin os Hos) as Hfo.
  destruct (d_factor d) as [sf|sf| |sf mf ef Hbf] eqn:Ef.
  - (* zero *)
    unfold factor_sign_clear, sign in Hsc. cbn [Bsign] in Hsc. destruct sf; [discriminate Hsc|].
    unfold scale. rewrite Ef, Eb, Hr. apply zero_factor_window; assumption.
  - (* infinity: every image is 0 *)
    unfold factor_sign_clear, sign in Hsc. cbn [Bsign] in Hsc. destruct sf; [discriminate Hsc|].
    unfold scale. rewrite Ef, scale_with_f32, byte_div_pinf, Eb.
    apply (satsum_range _ (cells_nonneg_pairs _ _)).
  - (* NaN is excluded by the predicate *)
    unfold well_conditioned in Hwc. cbn in Hwc. discriminate Hwc.
  - (* finite, sign clear: positive *)
    unfold factor_sign_clear, sign in Hsc. cbn [Bsign] in Hsc. destruct sf; [discriminate Hsc|].
    rewrite <- Edata in Hb. rewrite <- Ef in Hwc.
    apply (f32_main_well_conditioned_exec K m d w real b); try assumption.
    + rewrite Ef. reflexivity.
    + rewrite Ef. reflexivity.
Qed.
