(* Rounding-error analysis of the left-to-right binary32 sums of C08 (score of a window,
   offset of the matrix) against a majorant sum of non-negative terms added in the same order
   (cond_A of DiscModel.v: the sum of the per-row largest magnitudes), and the derivation of
   [sum_error_small] (DiscF32Main.v) from a bound factor >= (8 M + 4) ulp(A).

   No (1+u)^k slop: by monotonicity of rounding every partial sum is bounded by the
   corresponding partial sum of the majorant, so every rounding error is at most ulp(A)/2. *)
From Coq Require Import ZArith Reals List Bool Lia Lra Psatz.
From Coq Require Import SpecFloat.
From Flocq Require Import Core BinarySingleNaN.
From LMBase Require Import Res ListX IEEE.
From LMDisc Require Import DiscModel DiscImplCheck DiscProofs DiscF32Mono DiscF32Main.
Import ListNotations.

Local Open Scope R_scope.

Local Instance vexp32s : Valid_exp fexp32 := fexp_correct 24 128 Hprec32.
Local Instance vrnd32s : Valid_rnd (round_mode mode_NE) := valid_rnd_round_mode mode_NE.
Local Instance mexp32s : Monotone_exp fexp32 := fexp_monotone 24 128.

Notation ulp32 := (ulp radix2 fexp32).

Lemma rnd32_opp x : rnd32 (- x) = - rnd32 x.
Proof. apply (round_NE_opp radix2 fexp32 x). Qed.

Lemma rnd32_abs_le x y : Rabs x <= y -> Rabs (rnd32 x) <= rnd32 y.
Proof.
  intros H. apply Rabs_le. pose proof (Rabs_pos x) as H0.
  assert (H1 : - y <= x <= y) by (apply Rabs_le_inv; exact H).
  split.
  - rewrite <- rnd32_opp. apply rnd32_le. lra.
  - apply rnd32_le. lra.
Qed.

Lemma rnd32_B2R (a : f32) : rnd32 (B2R a) = B2R a.
Proof. apply rnd32_id. apply generic_format_B2R. Qed.

Lemma half_ulp_err x : Rabs (rnd32 x - x) <= / 2 * ulp32 (rnd32 x).
Proof. apply (error_le_half_ulp_round radix2 fexp32 (fun z => negb (Z.even z)) x). Qed.

Lemma ulp32_le x y : Rabs x <= Rabs y -> ulp32 x <= ulp32 y.
Proof. apply ulp_le; [exact vexp32s|exact mexp32s]. Qed.

Lemma ulp32_ge_0 x : 0 <= ulp32 x.
Proof. apply ulp_ge_0. Qed.

(* ---------- one addition ---------- *)

Lemma add_in_range (a b : f32) : fin a = true -> fin b = true ->
  Rabs (rnd32 (B2R a + B2R b)) < big ->
  B2R (F32.add a b) = rnd32 (B2R a + B2R b) /\ fin (F32.add a b) = true.
Proof.
  intros Ha Hb Hr. pose proof (Bplus_correct 24 128 _ _ mode_NE a b Ha Hb) as H.
  change (Bplus mode_NE a b) with (F32.add a b) in H.
  rewrite Rlt_bool_true in H by exact Hr. destruct H as [H1 [H2 _]]. split; assumption.
Qed.

Lemma add_fin_inv (a b : f32) : fin a = true -> fin b = true -> fin (F32.add a b) = true ->
  Rabs (rnd32 (B2R a + B2R b)) < big /\ B2R (F32.add a b) = rnd32 (B2R a + B2R b).
Proof.
  intros Ha Hb Hf. pose proof (Bplus_correct 24 128 _ _ mode_NE a b Ha Hb) as H.
  change (Bplus mode_NE a b) with (F32.add a b) in H.
  destruct (Rlt_bool_spec (Rabs (rnd32 (B2R a + B2R b))) big) as [Hr|Hr].
  - destruct H as [H1 _]. split; assumption.
  - exfalso. destruct H as [H _]. apply B2SF_inf in H. rewrite H in Hf. discriminate Hf.
Qed.

Lemma add_not_fin (acc x : f32) : fin acc = false -> fin x = true -> fin (F32.add acc x) = false.
Proof.
  destruct acc as [sa|[|]| |sa ma ea Ha]; try discriminate; intros _;
    destruct x as [[|]|sx| |[|] mx ex Hx]; try discriminate; reflexivity.
Qed.

Lemma fold_add_fin_acc (l : list f32) : Forall (fun x => fin x = true) l ->
  forall acc, fin (fold_left F32.add l acc) = true -> fin acc = true.
Proof.
  induction 1 as [|x l Hx Hl IH]; intros acc H; cbn [fold_left] in H; [exact H|].
  specialize (IH _ H). destruct (fin acc) eqn:E; [reflexivity|].
  rewrite (add_not_fin acc x E Hx) in IH. discriminate IH.
Qed.

(* ---------- the sum against its majorant ---------- *)

(* a term z with its bound r: both finite, |z| <= r *)
Definition bounded_by (p : f32 * f32) : Prop :=
  fin (fst p) = true /\ fin (snd p) = true /\ Rabs (B2R (fst p)) <= B2R (snd p).

Lemma sum_err (l : list (f32 * f32)) : Forall bounded_by l ->
  forall (s a : f32), fin s = true -> fin a = true -> Rabs (B2R s) <= B2R a ->
  fin (fold_left F32.add (map snd l) a) = true ->
  fin (fold_left F32.add (map fst l) s) = true /\
  Rabs (B2R (fold_left F32.add (map fst l) s)) <= B2R (fold_left F32.add (map snd l) a) /\
  B2R a <= B2R (fold_left F32.add (map snd l) a) /\
  Forall (fun p => B2R (snd p) <= B2R (fold_left F32.add (map snd l) a)) l /\
  Rabs (B2R (fold_left F32.add (map fst l) s) - (B2R s + rsumd (map fst l)))
    <= INR (length l) * (/ 2 * ulp32 (B2R (fold_left F32.add (map snd l) a))).
Proof.
  induction 1 as [|[z r] l [Hz [Hr Hzr]] Hl IH]; intros s a Hs Ha Hsa HA; cbn [map fold_left fst snd] in *.
  - split; [exact Hs|]. split; [exact Hsa|]. split; [lra|]. split; [constructor|].
    cbn [rsumd fold_right length INR]. replace (B2R s - (B2R s + 0)) with 0 by ring. rewrite Rabs_R0. lra.
  - assert (Hfl : Forall (fun x => fin x = true) (map snd l)).
    { apply Forall_forall. intros x Hx. apply in_map_iff in Hx. destruct Hx as [p [<- Hp]].
      rewrite Forall_forall in Hl. destruct (Hl p Hp) as [_ [H _]]. exact H. }
    pose proof (fold_add_fin_acc _ Hfl _ HA) as Ha'.
    destruct (add_fin_inv a r Ha Hr Ha') as [Hrng Har].
    pose proof (Rabs_pos (B2R s)) as Hs0. pose proof (Rabs_pos (B2R z)) as Hz0.
    assert (Hsum : Rabs (B2R s + B2R z) <= B2R a + B2R r).
    { apply Rle_trans with (Rabs (B2R s) + Rabs (B2R z)); [apply Rabs_triang|lra]. }
    pose proof (rnd32_abs_le _ _ Hsum) as Hrs.
    assert (Hrng' : Rabs (rnd32 (B2R s + B2R z)) < big).
    { apply Rle_lt_trans with (rnd32 (B2R a + B2R r)); [exact Hrs|].
      apply Rle_lt_trans with (Rabs (rnd32 (B2R a + B2R r))); [apply Rle_abs|exact Hrng]. }
    destruct (add_in_range s z Hs Hz Hrng') as [Hsz Hs'].
    assert (Hsa' : Rabs (B2R (F32.add s z)) <= B2R (F32.add a r)) by (rewrite Hsz, Har; exact Hrs).
    destruct (IH _ _ Hs' Ha' Hsa' HA) as [HS [HSA [HaA [HlA Herr]]]].
    assert (Haa' : B2R a <= B2R (F32.add a r)).
    { rewrite Har. rewrite <- (rnd32_B2R a) at 1. apply rnd32_le. lra. }
    assert (Hra' : B2R r <= B2R (F32.add a r)).
    { rewrite Har. rewrite <- (rnd32_B2R r) at 1. apply rnd32_le. lra. }
    split; [exact HS|]. split; [exact HSA|]. split; [lra|]. split.
    + constructor; [cbn [snd]; lra|exact HlA].
    + set (S := B2R (fold_left F32.add (map fst l) (F32.add s z))) in *.
      set (A := B2R (fold_left F32.add (map snd l) (F32.add a r))) in *.
      cbn [rsumd fold_right length]. fold (rsumd (map fst l)). rewrite S_INR.
      replace (S - (B2R s + (B2R z + rsumd (map fst l))))
        with ((S - (B2R (F32.add s z) + rsumd (map fst l))) + (B2R (F32.add s z) - (B2R s + B2R z))) by ring.
      eapply Rle_trans; [apply Rabs_triang|].
      assert (Hone : Rabs (B2R (F32.add s z) - (B2R s + B2R z)) <= / 2 * ulp32 A).
      { rewrite Hsz. eapply Rle_trans; [apply half_ulp_err|].
        apply Rmult_le_compat_l; [lra|]. apply ulp32_le.
        rewrite <- Hsz. rewrite (Rabs_pos_eq A); [lra|]. lra. }
      lra.
Qed.

(* ---------- one subtraction ---------- *)

Lemma half_ulp_err_x x : Rabs (rnd32 x - x) <= / 2 * ulp32 x.
Proof. apply (error_le_half_ulp radix2 fexp32 (fun z => negb (Z.even z)) x). Qed.

Lemma fexp32_succ k : (fexp32 (k + 1) <= fexp32 k + 1)%Z.
Proof. unfold SpecFloat.fexp, SpecFloat.emin. lia. Qed.

(* ulp(2a) <= 2 ulp(a) *)
Lemma ulp32_double a : ulp32 (2 * a) <= 2 * ulp32 a.
Proof.
  destruct (Req_dec a 0) as [->|Ha].
  - rewrite Rmult_0_r. pose proof (ulp32_ge_0 0). lra.
  - rewrite !ulp_neq_0 by lra. unfold cexp.
    replace (2 * a) with (a * bpow radix2 1) by (change (bpow radix2 1) with 2; ring).
    rewrite mag_mult_bpow by exact Ha.
    apply Rle_trans with (bpow radix2 (fexp32 (mag radix2 a) + 1)).
    + apply bpow_le. apply fexp32_succ.
    + rewrite bpow_plus. change (bpow radix2 1) with 2. lra.
Qed.

Lemma fmt_2p127 : generic_format radix2 fexp32 (bpow radix2 127).
Proof. apply generic_format_bpow. unfold SpecFloat.fexp, SpecFloat.emin. lia. Qed.

Lemma p127_lt_big : bpow radix2 127 < big.
Proof. apply bpow_lt. lia. Qed.

(* x (-) y when |x|, |y| <= a <= 2^126: finite, and within ulp(a) of x - y *)
Lemma sub_err (x y : f32) (a : R) : fin x = true -> fin y = true ->
  Rabs (B2R x) <= a -> Rabs (B2R y) <= a -> a <= bpow radix2 126 ->
  fin (F32.sub x y) = true /\ Rabs (B2R (F32.sub x y) - (B2R x - B2R y)) <= ulp32 a.
Proof.
  intros Hx Hy Hxa Hya Ha.
  assert (Ha0 : 0 <= a) by (pose proof (Rabs_pos (B2R x)); lra).
  assert (Hd : Rabs (B2R x - B2R y) <= 2 * a).
  { unfold Rminus. eapply Rle_trans; [apply Rabs_triang|]. rewrite Rabs_Ropp. lra. }
  assert (H127 : 2 * a <= bpow radix2 127).
  { change (bpow radix2 127) with (bpow radix2 (1 + 126)). rewrite bpow_plus. change (bpow radix2 1) with 2. lra. }
  assert (Hr : Rabs (rnd32 (B2R x - B2R y)) < big).
  { eapply Rle_lt_trans; [apply rnd32_abs_le; apply Rle_trans with (2 * a); [exact Hd|exact H127]|].
    rewrite (rnd32_id _ fmt_2p127). exact p127_lt_big. }
  pose proof (Bminus_correct 24 128 _ _ mode_NE x y Hx Hy) as H.
  change (Bminus mode_NE x y) with (F32.sub x y) in H.
  rewrite Rlt_bool_true in H by exact Hr. destruct H as [H1 [H2 _]].
  split; [exact H2|]. rewrite H1.
  eapply Rle_trans; [apply half_ulp_err_x|].
  apply Rle_trans with (/ 2 * ulp32 (2 * a)).
  - apply Rmult_le_compat_l; [lra|]. apply ulp32_le. rewrite (Rabs_pos_eq (2 * a)) by lra. exact Hd.
  - pose proof (ulp32_double a). lra.
Qed.

(* ---------- the window: cells x_i, row offsets o_i, row bounds r_i ---------- *)

Definition tx (t : f32 * f32 * f32) : f32 := fst (fst t).
Definition to (t : f32 * f32 * f32) : f32 := snd (fst t).
Definition tr (t : f32 * f32 * f32) : f32 := snd t.

Definition tbounded (t : f32 * f32 * f32) : Prop :=
  fin (tx t) = true /\ fin (to t) = true /\ fin (tr t) = true /\
  Rabs (B2R (tx t)) <= B2R (tr t) /\ Rabs (B2R (to t)) <= B2R (tr t).

Lemma rsumd_sub_err (l : list (f32 * f32 * f32)) (a : R) : a <= bpow radix2 126 ->
  Forall tbounded l -> Forall (fun t => B2R (tr t) <= a) l ->
  Forall (fun t => fin (F32.sub (tx t) (to t)) = true) l /\
  rsumd (map tx l) - rsumd (map to l)
    <= rsumd (map (fun t => F32.sub (tx t) (to t)) l) + INR (length l) * ulp32 a.
Proof.
  intros Ha Hb Hr. induction l as [|t l IH].
  - split; [constructor|]. cbn. lra.
  - inversion Hb as [|? ? [Hx [Ho [Hrr [Hxr Hor]]]] Hb']; subst.
    inversion Hr as [|? ? Hra Hr']; subst.
    destruct (IH Hb' Hr') as [IH1 IH2].
    destruct (sub_err (tx t) (to t) a Hx Ho) as [Hf He]; try lra.
    split; [constructor; assumption|].
    cbn [map rsumd fold_right length]. fold (rsumd (map tx l)) (rsumd (map to l)).
    fold (rsumd (map (fun t0 => F32.sub (tx t0) (to t0)) l)). rewrite S_INR.
    apply Rabs_le_inv in He. lra.
Qed.

(* sum_error_small from the conditioning bound, over lists *)
Theorem sum_error_small_of_bound (l : list (f32 * f32 * f32)) (f : f32) :
  Forall tbounded l ->
  let S := fold_left F32.add (map tx l) F32.zero in
  let T := fold_left F32.add (map to l) F32.nzero in
  let A := fold_left F32.add (map tr l) F32.zero in
  fin A = true -> B2R A <= bpow radix2 126 ->
  (8 * INR (length l) + 4) * ulp32 (B2R A) <= B2R f ->
  sum_error_small f (F32.sub S T) (map (fun t => (tx t, to t)) l).
Proof.
  intros Hb S T A HA HA126 Hcond. right. right.
  assert (Hbx : Forall bounded_by (map (fun t => (tx t, tr t)) l)).
  { apply Forall_forall. intros p Hp. apply in_map_iff in Hp. destruct Hp as [t [<- Ht]].
    rewrite Forall_forall in Hb. destruct (Hb t Ht) as [H1 [H2 [H3 [H4 H5]]]].
    unfold bounded_by. cbn [fst snd]. auto. }
  assert (Hbo : Forall bounded_by (map (fun t => (to t, tr t)) l)).
  { apply Forall_forall. intros p Hp. apply in_map_iff in Hp. destruct Hp as [t [<- Ht]].
    rewrite Forall_forall in Hb. destruct (Hb t Ht) as [H1 [H2 [H3 [H4 H5]]]].
    unfold bounded_by. cbn [fst snd]. auto. }
  assert (Ez : B2R (F32.zero) = 0) by reflexivity.
  assert (Enz : B2R (F32.nzero) = 0) by reflexivity.
  pose proof (sum_err _ Hbx F32.zero F32.zero eq_refl eq_refl) as HX.
  pose proof (sum_err _ Hbo F32.nzero F32.zero eq_refl eq_refl) as HO.
  rewrite !map_map in HX, HO. cbn [fst snd] in HX, HO.
  rewrite !map_length in HX, HO.
  change (map (fun x => tx x) l) with (map tx l) in HX.
  change (map (fun x => tr x) l) with (map tr l) in HX, HO.
  change (map (fun x => to x) l) with (map to l) in HO.
  fold S A in HX. fold T A in HO.
  rewrite Ez in HX. rewrite Enz, Ez in HO.
  assert (H00 : Rabs 0 <= 0) by (rewrite Rabs_R0; lra).
  destruct (HX H00 HA) as [HS [HSA [HA0 [HrA HSe]]]].
  destruct (HO H00 HA) as [HT [HTA [_ [_ HTe]]]].
  set (U := ulp32 (B2R A)) in *. set (n := INR (length l)) in *.
  assert (HU : 0 <= U) by apply ulp32_ge_0.
  assert (Hn : 0 <= n) by apply pos_INR.
  destruct (sub_err S T (B2R A) HS HT HSA HTA HA126) as [HD HDe].
  assert (HrA' : Forall (fun t => B2R (tr t) <= B2R A) l).
  { apply Forall_forall. intros t Ht. rewrite Forall_forall in HrA.
    apply (HrA (tx t, tr t)). apply in_map_iff. exists t. split; [reflexivity|exact Ht]. }
  destruct (rsumd_sub_err l (B2R A) HA126 Hb HrA') as [Hfd Hsd].
  split; [exact HD|]. split.
  - apply Forall_forall. intros p Hp. apply in_map_iff in Hp. destruct Hp as [t [<- Ht]].
    cbn [fst snd]. rewrite Forall_forall in Hfd. apply Hfd. exact Ht.
  - rewrite map_map. cbn [fst snd].
    apply Rabs_le_inv in HDe. apply Rabs_le_inv in HSe. apply Rabs_le_inv in HTe.
    fold U in Hsd. fold n in Hsd.
    fold U in HDe.
    replace ((8 * n + 4) * U) with (8 * (n * U) + 4 * U) in Hcond by ring.
    replace (n * (/ 2 * U)) with (/ 2 * (n * U)) in HSe, HTe by field.
    set (nU := n * U) in *. lra.
Qed.
