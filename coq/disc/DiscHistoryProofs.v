(* Proofs about histories on one reused u8 score buffer (DiscHistory.v): a scoring call leaves in the
   buffer exactly the FRESH result of that call (DiscModel.v / DiscU8Kernel.v), whatever the buffer held. *)
From Coq Require Import List ZArith Bool Arith Lia.
From LMBase Require Import Res ListX.
From LMDisc Require Import DiscModel DiscKernels DiscU8Kernel GenDiscU8 DiscU8Proofs DiscHistory.
Import ListNotations.
Local Open Scope nat_scope.

(* ---------- lists ---------- *)

Lemma firstn_S_upd {A} (v : A) : forall (l : list A) k, k < length l -> firstn (S k) (upd k v l) = firstn k l ++ [v].
Proof.
  induction l as [|x l IH]; intros k Hk; [cbn in Hk; lia|].
  destruct k as [|k]; [reflexivity|].
  cbn [upd]. change (firstn (S (S k)) (x :: upd k v l)) with (x :: firstn (S k) (upd k v l)).
  rewrite IH by (cbn in Hk; lia). reflexivity.
Qed.

Lemma rbind_ret {A} (e : res A) : (x <- e ;; Ok x) = e.
Proof. destruct e; reflexivity. Qed.

Lemma map_res_length {A B} (f : A -> res B) : forall (l : list A) r, map_res f l = Ok r -> length r = length l.
Proof.
  induction l as [|a l IH]; intros r H; cbn [map_res] in H.
  - injection H as <-. reflexivity.
  - destruct (f a) as [b| | |]; cbn [rbind] in H; try discriminate.
    destruct (map_res f l) as [bs| | |] eqn:E; cbn [rbind] in H; try discriminate.
    injection H as <-. cbn [length]. rewrite (IH bs eq_refl). reflexivity.
Qed.

Lemma map_res_Forall {A B} (f : A -> res B) (P : B -> Prop) :
  forall (l : list A) r, (forall a b, In a l -> f a = Ok b -> P b) -> map_res f l = Ok r -> Forall P r.
Proof.
  induction l as [|a l IH]; intros r HP H; cbn [map_res] in H.
  - injection H as <-. constructor.
  - destruct (f a) as [b| | |] eqn:Ea; cbn [rbind] in H; try discriminate.
    destruct (map_res f l) as [bs| | |] eqn:E; cbn [rbind] in H; try discriminate.
    injection H as <-. constructor.
    + apply (HP a b); [left; reflexivity|exact Ea].
    + apply IH; [|reflexivity]. intros a' b' Hin. apply HP. right; exact Hin.
Qed.

Lemma map_res_seq_shift {B} (F : nat -> res B) (a : nat) : forall n b,
  map_res (fun j => F (a + j)) (seq b n) = map_res F (seq (a + b) n).
Proof.
  induction n as [|n IH]; intros b; cbn [seq map_res]; [reflexivity|].
  rewrite IH. replace (a + S b) with (S (a + b)) by lia. reflexivity.
Qed.

Lemma map_seq_shift {B} (F : nat -> B) (a : nat) : forall n b,
  map (fun j => F (a + j)) (seq b n) = map F (seq (a + b) n).
Proof.
  induction n as [|n IH]; intros b; cbn [seq map]; [reflexivity|].
  rewrite IH. replace (a + S b) with (S (a + b)) by lia. reflexivity.
Qed.

(* ---------- the writes ---------- *)

(* writing the cells a, a+1, .., a+n-1 of a row of a+n cells leaves the row's first a cells and the values *)
Lemma write_cells_spec (f : nat -> res Z) : forall n a row,
  length row = a + n ->
  write_cells f (seq a n) row = (vals <- map_res f (seq a n) ;; Ok (firstn a row ++ vals)).
Proof.
  induction n as [|n IH]; intros a row Hlen; cbn [seq write_cells map_res].
  - cbn [rbind]. rewrite app_nil_r, firstn_all2 by lia. reflexivity.
  - destruct (f a) as [v| | |]; cbn [rbind]; try reflexivity.
    replace (a <? length row) with true by (symmetry; apply Nat.ltb_lt; lia).
    rewrite IH by (rewrite upd_length; lia).
    rewrite firstn_S_upd by lia.
    destruct (map_res f (seq (S a) n)) as [bs| | |]; cbn [rbind]; try reflexivity.
    rewrite <- app_assoc. reflexivity.
Qed.

Lemma write_cells_row (f : nat -> res Z) (C : nat) (row : list Z) :
  length row = C -> write_cells f (seq 0 C) row = map_res f (seq 0 C).
Proof.
  intros H. rewrite write_cells_spec by (cbn; exact H). cbn [firstn app]. apply rbind_ret.
Qed.

(* rewriting the rows k .. k+n-1 of a buffer of k+n rows with values that do not depend on the old rows *)
Lemma write_rows_spec (g : nat -> list Z -> res (list Z)) (h : nat -> res (list Z)) (P : list Z -> Prop) : forall n k rows,
  length rows = k + n ->
  (forall j, k <= j < k + n -> P (nth j rows [])) ->
  (forall j row, k <= j < k + n -> P row -> g j row = h j) ->
  write_rows g k n rows = (vals <- map_res h (seq k n) ;; Ok (firstn k rows ++ vals)).
Proof.
  induction n as [|n IH]; intros k rows Hlen HP Hg; cbn [seq write_rows map_res].
  - cbn [rbind]. rewrite app_nil_r, firstn_all2 by lia. reflexivity.
  - rewrite (nth_error_Some_nth rows k []) by lia.
    rewrite (Hg k (nth k rows [])) by (try apply HP; lia).
    destruct (h k) as [v| | |]; cbn [rbind]; try reflexivity.
    rewrite IH.
    + rewrite firstn_S_upd by lia.
      destruct (map_res h (seq (S k) n)) as [bs| | |]; cbn [rbind]; try reflexivity.
      rewrite <- app_assoc. reflexivity.
    + rewrite upd_length. lia.
    + intros j Hj. rewrite nth_upd_other by lia. apply HP. lia.
    + intros j row Hj. apply Hg. lia.
Qed.

(* ---------- well-formed buffers: every row has C cells (an invariant of DenseMatrix<u8, C>) ---------- *)

Definition buf_wf (C : nat) (b : sscores Z) : Prop := Forall (fun r => length r = C) (sc_rows b).

Lemma buf_empty_wf C : buf_wf C buf_empty.
Proof. constructor. Qed.

Lemma buf_resize_wf C old rows maxi : buf_wf C old -> buf_wf C (buf_resize C old rows maxi).
Proof.
  intros H. unfold buf_wf, buf_resize; cbn [sc_rows]. apply Forall_app. split.
  - apply Forall_firstn. exact H.
  - apply Forall_repeat. apply repeat_length.
Qed.

Lemma buf_resize_rows C old rows maxi : length (sc_rows (buf_resize C old rows maxi)) = rows.
Proof.
  unfold buf_resize; cbn [sc_rows]. rewrite app_length, firstn_length, repeat_length. lia.
Qed.

Lemma buf_resize_00 C old : buf_resize C old 0 0 = {| sc_rows := []; sc_max := 0 |}.
Proof. reflexivity. Qed.

Lemma wf_nth {A} C (rows : list (list A)) j : Forall (fun r => length r = C) rows -> j < length rows -> length (nth j rows []) = C.
Proof. intros H Hj. rewrite Forall_forall in H. apply H. apply nth_In. exact Hj. Qed.

(* ---------- the generic kernel ---------- *)

Theorem generic_rows_into_fresh (C : nat) (dm : list (list Z)) (s : sseq) (lo hi : nat) (old : sscores Z) :
  buf_wf C old ->
  generic_rows_into C dm s lo hi old = score_rows_generic sat_add 0%Z C dm s lo hi.
Proof.
  intros Hwf. unfold generic_rows_into, score_rows_generic.
  destruct ((ss_len s <? length dm) || (hi <=? lo)); [reflexivity|].
  set (maxi := ss_len s + 1 - length dm).
  rewrite (write_rows_spec _ (fun k => map_res (fun c => cell_from sat_add 0%Z dm (ss_rows s) (lo + k) c) (seq 0 C))
                           (fun r => length r = C)).
  - cbn [firstn app].
    rewrite (map_res_seq_shift (fun r => map_res (fun c => cell_from sat_add 0%Z dm (ss_rows s) r c) (seq 0 C)) lo (hi - lo) 0).
    rewrite Nat.add_0_r.
    destruct (map_res _ (seq lo (hi - lo))) as [rows| | |]; reflexivity.
  - rewrite buf_resize_rows. reflexivity.
  - intros j Hj. apply wf_nth; [apply buf_resize_wf; exact Hwf|]. rewrite buf_resize_rows. lia.
  - intros j row _ Hrow. apply write_cells_row. exact Hrow.
Qed.

(* ---------- the AVX2 kernel behind its wrapper ---------- *)

Lemma run_guards_into_expected (C M : nat) (s : sseq) (lo hi : nat) (buf : sscores Z) (kernel : sscores Z -> res (sscores Z)) :
  run_guards_into C guards_expected M s lo hi buf kernel =
  if M =? 0 then Panic P_UNDERFLOW else
  if ss_wrap s <? M - 1 then Panic P_WRAP else
  if (ss_len s <? M) || (hi <=? lo) then Ok {| sc_rows := []; sc_max := 0 |} else
  if length (ss_rows s) <? hi + M - 1 then Panic P_ROWS else kernel (buf_resize C buf (hi - lo) (ss_len s + 1 - M)).
Proof.
  unfold guards_expected. cbn [run_guards_into].
  destruct (M =? 0); [reflexivity|]. destruct (ss_wrap s <? M - 1); [reflexivity|].
  destruct ((ss_len s <? M) || (hi <=? lo)); [reflexivity|].
  destruct (length (ss_rows s) <? hi + M - 1); reflexivity.
Qed.

Lemma mem_rows_length dm pads : length (mem_rows dm pads) = length dm.
Proof. unfold mem_rows. rewrite map_length, combine_length, seq_length. lia. Qed.

Lemma vk_row_avx2_length (mem : list (list Z)) (seqrows : list (list nat)) (i : nat) :
  Forall (fun x => length x = 32) seqrows -> i + length mem <= length seqrows ->
  length (vk_row avx2_u8_expected mem seqrows i 0) = 32.
Proof.
  intros Hrows Hi. rewrite vk_row_avx2, acc_row_avx2 by exact Hrows.
  apply avx2_row_length; [reflexivity|].
  intros j Hj. apply (wf_nth 32 seqrows (i + j)); [exact Hrows|lia].
Qed.

Theorem avx2_rows_into_fresh (dm : list (list Z)) (pads : nat -> list Z) (s : sseq) (lo hi : nat) (old : sscores Z) :
  buf_wf 32 old -> Forall (fun x => length x = 32) (ss_rows s) ->
  vk_rows_into gen_avx2_u8 32 dm pads s lo hi old = vk_score_rows gen_avx2_u8 32 dm pads s lo hi.
Proof.
  intros Hwf Hrows. rewrite gen_avx2_u8_expected. unfold vk_rows_into, vk_score_rows.
  change (vk_guards avx2_u8_expected) with guards_expected.
  rewrite run_guards_into_expected, run_guards_expected.
  destruct (length dm =? 0) eqn:EM; [reflexivity|]. destruct (ss_wrap s <? length dm - 1); [reflexivity|].
  destruct ((ss_len s <? length dm) || (hi <=? lo)); [reflexivity|].
  destruct (length (ss_rows s) <? hi + length dm - 1) eqn:ER; [reflexivity|].
  apply Nat.eqb_neq in EM. apply Nat.ltb_ge in ER.
  unfold vk_kernel_into, vk_kernel. cbn [vk_blocked avx2_u8_expected].
  set (mem := mem_rows dm pads).
  rewrite (write_rows_spec _ (fun r => Ok (vk_row avx2_u8_expected mem (ss_rows s) (lo + r) 0))
                           (fun r => length r = 32)).
  - cbn [firstn app].
    rewrite (map_res_ok_map _ (fun r => vk_row avx2_u8_expected mem (ss_rows s) (lo + r) 0)) by (intros; reflexivity).
    cbn [rbind]. unfold vk_out_row. cbn [vk_blocked avx2_u8_expected].
    rewrite (map_seq_shift (fun i => vk_row avx2_u8_expected mem (ss_rows s) i 0) lo (hi - lo) 0), Nat.add_0_r.
    reflexivity.
  - rewrite buf_resize_rows. reflexivity.
  - intros j Hj. apply wf_nth; [apply buf_resize_wf; exact Hwf|]. rewrite buf_resize_rows. lia.
  - intros j row Hj Hrow. cbv beta. unfold store_at.
    assert (Hl : length (vk_row avx2_u8_expected mem (ss_rows s) (lo + j) 0) = 32).
    { apply vk_row_avx2_length; [exact Hrows|]; unfold mem; rewrite mem_rows_length; lia. }
    rewrite Hl, Hrow. cbn [Nat.add Nat.leb firstn app]. rewrite skipn_all2 by lia. rewrite app_nil_r. reflexivity.
Qed.

(* ---------- the NEON kernel behind its wrapper: one 16-byte store per (column block, row) ---------- *)

Lemma write_rows_map (g : nat -> list Z -> res (list Z)) (G : nat -> list Z -> list Z) : forall n k rows,
  length rows = k + n ->
  (forall r, k <= r < k + n -> g r (nth r rows []) = Ok (G r (nth r rows []))) ->
  write_rows g k n rows = Ok (firstn k rows ++ map (fun r => G r (nth r rows [])) (seq k n)).
Proof.
  induction n as [|n IH]; intros k rows Hlen Hg; cbn [seq write_rows map].
  - rewrite app_nil_r, firstn_all2 by lia. reflexivity.
  - rewrite (nth_error_Some_nth rows k []) by lia.
    rewrite (Hg k) by lia. cbn [rbind].
    rewrite IH.
    + rewrite firstn_S_upd by lia. rewrite <- app_assoc. cbn [app]. f_equal. f_equal. f_equal.
      apply map_ext_in. intros r Hr. apply in_seq in Hr. rewrite nth_upd_other by lia. reflexivity.
    + rewrite upd_length. lia.
    + intros r Hr. rewrite nth_upd_other by lia. apply Hg. lia.
Qed.

Lemma acc_row_neon_length (add : add_kind) (seqrows : list (list nat)) (off : nat) : forall (mem : list (list Z)) (s : list Z) (i : nat),
  length s = 16 ->
  (forall j, j < length mem -> off + 16 <= length (nth (i + j) seqrows [])) ->
  length (acc_row (neon_step add) 16 s mem seqrows i off) = 16.
Proof.
  induction mem as [|prow mem IH]; intros s i Hs Hrows; cbn [acc_row]; [exact Hs|].
  apply IH.
  - unfold neon_step. rewrite zip_with_length; [exact Hs|].
    unfold vqtbl1q_u8. rewrite !map_length. rewrite firstn_skipn_length; [exact Hs|].
    specialize (Hrows 0 (Nat.lt_0_succ _)). rewrite Nat.add_0_r in Hrows. exact Hrows.
  - intros j Hj. replace (S i + j) with (i + S j) by lia. apply Hrows. cbn. lia.
Qed.

Lemma skipn_skipn_add {A} (l : list A) : forall x y, skipn x (skipn y l) = skipn (y + x) l.
Proof.
  induction l as [|a l IH]; intros x y; [rewrite !skipn_nil; reflexivity|].
  destruct y as [|y]; [reflexivity|]. cbn [skipn plus]. apply IH.
Qed.

Section NeonInto.
  Variable q n lo : nat.
  Variable V : nat -> nat -> list Z.          (* V b r: the register stored for column block b and output row r *)
  Hypothesis HV : forall b r, b < q -> r < n -> length (V b r) = 16.
  Variable rows0 : list (list Z).
  Hypothesis Hlen0 : length rows0 = n.
  Hypothesis Hwf0 : Forall (fun r => length r = q * 16) rows0.

  Definition grow (j : nat) (row0 : list Z) (r : nat) : list Z :=
    concat (map (fun b => V b r) (seq 0 j)) ++ skipn (j * 16) row0.
  Definition rows_at (j : nat) : list (list Z) := map (fun r => grow j (nth r rows0 []) r) (seq 0 n).

  Lemma grow_prefix_length j r : j <= q -> r < n -> length (concat (map (fun b => V b r) (seq 0 j))) = j * 16.
  Proof. intros Hj Hr. apply concat_map_seq_length. intros b Hb. apply HV; lia. Qed.

  Lemma nth_rows_at j r : r < n -> nth r (rows_at j) [] = grow j (nth r rows0 []) r.
  Proof.
    intros Hr. unfold rows_at.
    rewrite (nth_indep _ [] (grow j (nth 0 rows0 []) 0)) by (rewrite map_length, seq_length; exact Hr).
    rewrite (map_nth (fun r => grow j (nth r rows0 []) r) (seq 0 n) 0 r). rewrite seq_nth by exact Hr. reflexivity.
  Qed.

  Lemma block_step j : j < q ->
    write_rows (fun r row => store_at (j * 16) (V j r) row) 0 n (rows_at j) = Ok (rows_at (S j)).
  Proof.
    intros Hj.
    rewrite (write_rows_map _ (fun r row => firstn (j * 16) row ++ V j r ++ skipn (j * 16 + 16) row)).
    - cbn [firstn app]. f_equal. change (rows_at (S j)) with (map (fun r => grow (S j) (nth r rows0 []) r) (seq 0 n)).
      apply map_ext_in. intros r Hr. apply in_seq in Hr.
      rewrite !nth_rows_at by lia. unfold grow.
      pose proof (grow_prefix_length j r ltac:(lia) ltac:(lia)) as Hp.
      rewrite firstn_app_exact by exact Hp.
      rewrite skipn_app. rewrite (skipn_all2 (concat _)) by lia. cbn [app]. rewrite Hp.
      replace (j * 16 + 16 - j * 16) with 16 by lia. rewrite skipn_skipn_add.
      rewrite seq_S, map_app, concat_app. cbn [map concat plus]. rewrite app_nil_r, <- !app_assoc.
      replace (j * 16 + 16) with (S j * 16) by lia. reflexivity.
    - unfold rows_at. rewrite map_length, seq_length. reflexivity.
    - intros r Hr. rewrite nth_rows_at by lia. unfold store_at.
      rewrite (HV j r Hj ltac:(lia)).
      assert (Hl : length (grow j (nth r rows0 []) r) = q * 16).
      { unfold grow. rewrite app_length, grow_prefix_length, skipn_length by lia.
        rewrite (wf_nth (q * 16) rows0 r Hwf0) by lia. nia. }
      rewrite Hl. replace (j * 16 + 16 <=? q * 16) with true by (symmetry; apply Nat.leb_le; nia). reflexivity.
  Qed.

  Lemma blocks_run : forall cnt j, j + cnt = q ->
    fold_res (fun rows blk => write_rows (fun r row => store_at (blk * 16) (V blk r) row) 0 n rows) (seq j cnt) (rows_at j)
    = Ok (rows_at q).
  Proof.
    induction cnt as [|cnt IH]; intros j Hj; cbn [seq fold_res].
    - replace j with q by lia. reflexivity.
    - rewrite block_step by lia. cbn [rbind]. apply IH. lia.
  Qed.

  Lemma rows_at_0 : rows_at 0 = rows0.
  Proof.
    unfold rows_at, grow. cbn [seq map concat app Nat.mul skipn].
    apply (nth_ext _ _ [] []); [rewrite map_length, seq_length; lia|].
    intros r Hr. rewrite map_length, seq_length in Hr.
    rewrite (nth_indep _ [] (nth 0 rows0 [])) by (rewrite map_length, seq_length; exact Hr).
    rewrite (map_nth (fun r => nth r rows0 []) (seq 0 n) 0 r). rewrite seq_nth by exact Hr. reflexivity.
  Qed.

  Lemma rows_at_q : rows_at q = map (fun r => concat (map (fun b => V b r) (seq 0 q))) (seq 0 n).
  Proof.
    unfold rows_at. apply map_ext_in. intros r Hr. apply in_seq in Hr. unfold grow.
    rewrite skipn_all2; [apply app_nil_r|]. rewrite (wf_nth (q * 16) rows0 r Hwf0) by lia. lia.
  Qed.
End NeonInto.

Theorem neon_rows_into_fresh (q : nat) (dm : list (list Z)) (pads : nat -> list Z) (s : sseq) (lo hi : nat) (old : sscores Z) :
  buf_wf (q * 16) old -> Forall (fun x => length x = q * 16) (ss_rows s) ->
  vk_rows_into gen_neon_u8 (q * 16) dm pads s lo hi old = vk_score_rows gen_neon_u8 (q * 16) dm pads s lo hi.
Proof.
  intros Hwf Hrows. rewrite gen_neon_u8_expected. unfold vk_rows_into. rewrite vk_score_rows_neon.
  change (vk_guards (neon_u8_with AddSat)) with guards_expected. rewrite run_guards_into_expected.
  destruct (length dm =? 0) eqn:EM; [reflexivity|]. destruct (ss_wrap s <? length dm - 1); [reflexivity|].
  destruct ((ss_len s <? length dm) || (hi <=? lo)); [reflexivity|].
  destruct (length (ss_rows s) <? hi + length dm - 1) eqn:ER; [reflexivity|].
  apply Nat.eqb_neq in EM. apply Nat.ltb_ge in ER.
  unfold vk_kernel_into, vk_kernel. cbn [vk_blocked vk_lanes neon_u8_with].
  rewrite Nat.div_mul by lia.
  set (mem := mem_rows dm pads).
  set (b := buf_resize (q * 16) old (hi - lo) (ss_len s + 1 - length dm)).
  set (V := fun blk r => vk_row (neon_u8_with AddSat) mem (ss_rows s) (lo + r) (blk * 16)).
  assert (HV : forall blk r, blk < q -> r < hi - lo -> length (V blk r) = 16).
  { intros blk r Hb Hr. unfold V. rewrite vk_row_neon. apply acc_row_neon_length; [apply repeat_length|].
    intros j Hj. unfold mem in Hj. rewrite mem_rows_length in Hj.
    rewrite (wf_nth (q * 16) (ss_rows s) (lo + r + j) Hrows) by lia. nia. }
  assert (Hlb : length (sc_rows b) = hi - lo) by (apply buf_resize_rows).
  assert (Hwb : Forall (fun r => length r = q * 16) (sc_rows b)) by (apply buf_resize_wf; exact Hwf).
  assert (Hfold : fold_res (fun rows blk => write_rows (fun r row => store_at (blk * 16) (V blk r) row) 0 (hi - lo) rows)
                           (seq 0 q) (sc_rows b) = Ok (rows_at (hi - lo) V (sc_rows b) q)).
  { rewrite <- (rows_at_0 (hi - lo) V (sc_rows b) Hlb) at 1.
    apply (blocks_run q (hi - lo) V HV (sc_rows b) Hlb Hwb q 0). lia. }
  rewrite (rows_at_q q (hi - lo) V (sc_rows b) Hlb Hwb) in Hfold.
  unfold V in Hfold. rewrite Hfold. cbn [rbind]. f_equal. f_equal.
  unfold vk_out_row. cbn [vk_blocked vk_lanes neon_u8_with]. rewrite Nat.div_mul by lia.
  replace (seq lo (hi - lo)) with (seq (lo + 0) (hi - lo)) by (rewrite Nat.add_0_r; reflexivity).
  rewrite <- (map_seq_shift (fun i => concat (map (fun blk => vk_row (neon_u8_with AddSat) mem (ss_rows s) i (blk * 16)) (seq 0 q)))
                            lo (hi - lo) 0).
  reflexivity.
Qed.

(* ---------- calls, steps, histories ---------- *)

(* the calls the theorems cover: the generic kernel with any number of columns, the AVX2 kernel with 32 columns,
   the NEON kernel with 16 q columns; the rows of the striped sequence have C symbols (an invariant of the type) *)
Definition call_ok (C : nat) (c : hcall) : Prop :=
  match hc_id c with
  | UKGeneric => True
  | UKAvx2Shuffle => C = 32 /\ Forall (fun x => length x = 32) (ss_rows (hc_seq c))
  | UKNeon => exists q, C = q * 16 /\ Forall (fun x => length x = q * 16) (ss_rows (hc_seq c))
  end.

Definition op_ok (C : nat) (op : hop) : Prop :=
  match op with HScoreInto c | HRowsInto c _ _ => call_ok C c | _ => True end.

Notation call_into := (call_rows_into gen_avx2_u8 gen_neon_u8).
Notation fresh := (fresh_call gen_avx2_u8 gen_neon_u8).
Notation step := (hstep gen_avx2_u8 gen_neon_u8).
Notation run := (hrun gen_avx2_u8 gen_neon_u8).

Theorem call_rows_into_fresh (C : nat) (c : hcall) (lo hi : nat) (buf : sscores Z) :
  buf_wf C buf -> call_ok C c -> call_into C c lo hi buf = fresh C c lo hi.
Proof.
  intros Hwf Hc. unfold call_rows_into, fresh_call, u8_rows_into, run_u8_kernel, call_ok in *.
  destruct (hc_id c).
  - apply generic_rows_into_fresh. exact Hwf.
  - destruct Hc as [-> Hrows]. apply avx2_rows_into_fresh; assumption.
  - destruct Hc as [q [-> Hrows]]. apply neon_rows_into_fresh; assumption.
Qed.

Lemma generic_fresh_wf (C : nat) (dm : list (list Z)) (s : sseq) (lo hi : nat) (sc : sscores Z) :
  score_rows_generic sat_add 0%Z C dm s lo hi = Ok sc -> buf_wf C sc.
Proof.
  unfold score_rows_generic. destruct ((ss_len s <? length dm) || (hi <=? lo)).
  - intros H. injection H as <-. constructor.
  - destruct (map_res _ (seq lo (hi - lo))) as [rows| | |] eqn:E; cbn [rbind]; try discriminate.
    intros H. injection H as <-. unfold buf_wf. cbn [sc_rows].
    apply (map_res_Forall _ _ _ _ (fun r row _ Hrow => eq_trans (map_res_length _ _ _ Hrow) (seq_length C 0)) E).
Qed.

Lemma avx2_fresh_wf (dm : list (list Z)) (pads : nat -> list Z) (s : sseq) (lo hi : nat) (sc : sscores Z) :
  Forall (fun x => length x = 32) (ss_rows s) ->
  vk_score_rows gen_avx2_u8 32 dm pads s lo hi = Ok sc -> buf_wf 32 sc.
Proof.
  intros Hrows. rewrite gen_avx2_u8_expected. unfold vk_score_rows.
  change (vk_guards avx2_u8_expected) with guards_expected. rewrite run_guards_expected.
  destruct (length dm =? 0) eqn:EM; [discriminate|]. destruct (ss_wrap s <? length dm - 1); [discriminate|].
  destruct ((ss_len s <? length dm) || (hi <=? lo)); [intros H; injection H as <-; constructor|].
  destruct (length (ss_rows s) <? hi + length dm - 1) eqn:ER; [discriminate|].
  apply Nat.eqb_neq in EM. apply Nat.ltb_ge in ER.
  unfold vk_kernel. intros H. injection H as <-. unfold buf_wf. cbn [sc_rows].
  apply Forall_forall. intros row Hin. apply in_map_iff in Hin. destruct Hin as [i [<- Hi]]. apply in_seq in Hi.
  unfold vk_out_row. cbn [vk_blocked avx2_u8_expected].
  apply vk_row_avx2_length; [exact Hrows|]. rewrite mem_rows_length. lia.
Qed.

Lemma neon_fresh_wf (q : nat) (dm : list (list Z)) (pads : nat -> list Z) (s : sseq) (lo hi : nat) (sc : sscores Z) :
  Forall (fun x => length x = q * 16) (ss_rows s) ->
  vk_score_rows gen_neon_u8 (q * 16) dm pads s lo hi = Ok sc -> buf_wf (q * 16) sc.
Proof.
  intros Hrows. rewrite gen_neon_u8_expected, vk_score_rows_neon.
  destruct (length dm =? 0) eqn:EM; [discriminate|]. destruct (ss_wrap s <? length dm - 1); [discriminate|].
  destruct ((ss_len s <? length dm) || (hi <=? lo)); [intros H; injection H as <-; constructor|].
  destruct (length (ss_rows s) <? hi + length dm - 1) eqn:ER; [discriminate|].
  apply Nat.eqb_neq in EM. apply Nat.ltb_ge in ER.
  unfold vk_kernel. intros H. injection H as <-. unfold buf_wf. cbn [sc_rows].
  apply Forall_forall. intros row Hin. apply in_map_iff in Hin. destruct Hin as [i [<- Hi]]. apply in_seq in Hi.
  unfold vk_out_row. cbn [vk_blocked vk_lanes neon_u8_with]. rewrite Nat.div_mul by lia.
  apply concat_map_seq_length. intros b Hb. cbn [plus]. rewrite vk_row_neon.
  apply acc_row_neon_length; [apply repeat_length|].
  intros j Hj. rewrite mem_rows_length in Hj.
  rewrite (wf_nth (q * 16) (ss_rows s) (i + j) Hrows) by lia. nia.
Qed.

Lemma fresh_call_wf (C : nat) (c : hcall) (lo hi : nat) (sc : sscores Z) :
  call_ok C c -> fresh C c lo hi = Ok sc -> buf_wf C sc.
Proof.
  unfold fresh_call, run_u8_kernel, call_ok. destruct (hc_id c); intros Hc H.
  - exact (generic_fresh_wf _ _ _ _ _ _ H).
  - destruct Hc as [-> Hrows]. exact (avx2_fresh_wf _ _ _ _ _ _ Hrows H).
  - destruct Hc as [q [-> Hrows]]. exact (neon_fresh_wf _ _ _ _ _ _ _ Hrows H).
Qed.

Lemma hstep_wf (C : nat) (op : hop) (buf b' : sscores Z) :
  buf_wf C buf -> op_ok C op -> step C op buf = Ok b' -> buf_wf C b'.
Proof.
  intros Hwf Hop. destruct op as [c|c lo hi|rows maxi|v]; cbn [hstep op_ok] in *.
  - rewrite call_rows_into_fresh by assumption. apply fresh_call_wf. exact Hop.
  - rewrite call_rows_into_fresh by assumption. apply fresh_call_wf. exact Hop.
  - intros H. injection H as <-. apply buf_resize_wf. exact Hwf.
  - intros H. injection H as <-. unfold buf_wf in *. cbn [sc_rows].
    apply Forall_forall. intros row Hin. apply in_map_iff in Hin. destruct Hin as [r [<- Hr]].
    rewrite map_length. rewrite Forall_forall in Hwf. exact (Hwf r Hr).
Qed.

Lemma hrun_wf (C : nat) : forall (ops : list hop) (buf b' : sscores Z),
  buf_wf C buf -> Forall (op_ok C) ops -> run C ops buf = Ok b' -> buf_wf C b'.
Proof.
  induction ops as [|op ops IH]; intros buf b' Hwf Hops H; cbn [hrun fold_res] in H.
  - injection H as <-. exact Hwf.
  - inversion Hops as [|? ? Hop Hrest]; subst.
    destruct (step C op buf) as [b1| | |] eqn:E; cbn [rbind] in H; try discriminate.
    apply (IH b1 b'); [exact (hstep_wf C op buf b1 Hwf Hop E)|exact Hrest|exact H].
Qed.

(* after ANY history (scoring calls with any motifs / sequences / row ranges on any pipeline -- generic, AVX2, NEON --,
   resizes, fills) that did not panic, a scoring call leaves in the buffer exactly its fresh result *)
Theorem scores_history (C : nat) (ops : list hop) (c : hcall) (lo hi : nat) (buf0 buf : sscores Z) :
  buf_wf C buf0 -> Forall (op_ok C) ops -> call_ok C c ->
  run C ops buf0 = Ok buf ->
  step C (HRowsInto c lo hi) buf = fresh C c lo hi /\
  step C (HScoreInto c) buf = fresh C c 0 (length (ss_rows (hc_seq c)) - ss_wrap (hc_seq c)).
Proof.
  intros Hwf Hops Hc Hrun. pose proof (hrun_wf C ops buf0 buf Hwf Hops Hrun) as Hb.
  cbn [hstep]. split; apply call_rows_into_fresh; assumption.
Qed.

(* the main clause of C08 for the buffer after any history: the last call scores the discretised matrix on the
   striped, configured sequence through any arm of the dispatcher (x86 hosts, table as generated) *)
Theorem history_overestimates (K : nat) (m : list (list xq)) (d : @dmat xq) (pads : nat -> list Z)
        (s : list nat) (a : arm) (i : nat) (ops : list hop) (buf0 buf : sscores Z) :
  0 < K -> K <= 16 ->
  Forall (fun row => length row = K) m ->
  Forall (fun row => Forall xq_finite (nonwild K row)) m ->
  to_discrete xq_ops K m = Ok d ->
  (forall i, 16 <= K + length (pads i)) ->
  Forall (fun v => v < K) s ->
  1 <= length m -> i + length m <= length s ->
  buf_wf 32 buf0 -> Forall (op_ok 32) ops -> run 32 ops buf0 = Ok buf ->
  let st := striped K 32 (configure_wrap_of (length m)) s in
  exists sc b real,
    step 32 (HScoreInto (mkHCall (gen_dispatch_u8_x86 (arm4_of a)) (d_data d) pads st)) buf = Ok sc /\
    sc_index sc i = Ok b /\
    real_score xq_ops m st i = Ok real /\
    (scale xq_ops d real <= b)%Z.
Proof.
  intros HK HK16 Hm Hfin Hd Hp Hs HM Hi Hwf Hops Hrun st.
  destruct (backends_overestimate K m d pads s a i HK HK16 Hm Hfin Hd Hp Hs HM Hi) as [sc [b [real [H1 [H2 [_ [H4 H5]]]]]]].
  exists sc, b, real. repeat split; try assumption.
  assert (Hrows : Forall (fun x => length x = 32) (ss_rows st)).
  { apply (sseq_ok_len32 K). exact (striped_ok K 32 _ s ltac:(lia) HK eq_refl Hs). }
  assert (Hc : call_ok 32 (mkHCall (gen_dispatch_u8_x86 (arm4_of a)) (d_data d) pads st)).
  { unfold call_ok. cbn [hc_id hc_seq]. rewrite gen_dispatch_u8_x86_expected. destruct a; auto. }
  destruct (scores_history 32 ops _ 0 0 buf0 buf Hwf Hops Hc Hrun) as [_ ->].
  unfold fresh_call. cbn [hc_id hc_dm hc_pads hc_seq].
  rewrite (dispatch_gen_is_model a (d_data d) pads st _ _ Hrows). exact H1.
Qed.

(* non-vacuity / a wrong implementation is excluded: a wrapper that forgets the resize lets the kernel write into
   whatever the buffer was -- after a longer result the stale rows stay *)
Definition avx2_noresize : vkernel := {|
  vk_lanes := 32; vk_blocked := false; vk_init := 0%Z; vk_acc := 0;
  vk_body := vk_body avx2_u8_expected; vk_guards := [GWrap; GShort; GRange] |}.

Definition ex_h_dm : list (list Z) := [[1; 2; 3; 4; 0]%Z].
Definition ex_h_call : hcall :=
  mkHCall UKAvx2Shuffle ex_h_dm (fun _ => repeat 9%Z 27) (striped 5 32 0 (repeat 1 20)).   (* 20 x "C": one sequence row *)
Definition ex_h_ops : list hop := [HResize 2 7; HFill 255%Z; HScoreInto ex_h_call].

(* the source's wrapper: one row, max_index 20; without the resize: two rows, the second one stale (255 everywhere)
   and the stale max_index *)
Lemma history_example :
  hrun gen_avx2_u8 gen_neon_u8 32 ex_h_ops buf_empty
    = Ok {| sc_rows := [repeat 2%Z 20 ++ repeat 0%Z 12]; sc_max := 20 |} /\
  hrun avx2_noresize gen_neon_u8 32 ex_h_ops buf_empty
    = Ok {| sc_rows := [repeat 2%Z 20 ++ repeat 0%Z 12; repeat 255%Z 32]; sc_max := 7 |}.
Proof. split; vm_compute; reflexivity. Qed.
