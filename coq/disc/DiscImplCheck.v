(* Property C08 as an executable check on the implementation's OWN numbers.
   Executable definitions only; no proofs in this file (they are in DiscImplProofs.v).

   [check_C08] of DiscModel.v recomputes DiscreteMatrix::scale with the model from the
   observed factor / offset.  A change of `scale` itself (for instance one that loses
   the lower clamp, so that negative scaled values wrap modulo 256) is then only seen
   as a difference between model and implementation.  The checker below judges the
   statement of the property on what the implementation returned:

     obs : one entry per position i:  (byte score b_i, real score r_i, dm.scale(r_i))
     thr : one entry per threshold j: (t_j, dm.scale(t_j))

     main clause         dm.scale(r_i) <= b_i
     consequence clause  t_j <= r_i  ->  dm.scale(t_j) <= b_i
                         (<= is PartialOrd on the observed bit patterns: false with a NaN) *)
From Coq Require Import List ZArith Bool.
From LMBase Require Import Res ListX IEEE.
From LMDisc Require Import DiscModel.
Import ListNotations.

(* where the statement fails first: position i (main clause), or position i with
   threshold j (consequence clause) *)
Inductive c08_fail : Type := FailPos (i : nat) | FailThr (i j : nat).

Section ImplCheck.
  Context {T : Type}.
  Variable N : NumOps T.

  (* a <= b for PartialOrd::partial_cmp *)
  Definition n_le (a b : T) : bool :=
    match n_cmp N a b with Some Lt | Some Eq => true | _ => false end.

  (* one threshold against one position *)
  Definition check_thr (b : Z) (real : T) (p : T * Z) : bool :=
    implb (n_le (fst p) real) (snd p <=? b)%Z.

  Fixpoint first_bad_thr (b : Z) (real : T) (j : nat) (thr : list (T * Z)) : option nat :=
    match thr with
    | [] => None
    | p :: rest => if check_thr b real p then first_bad_thr b real (S j) rest else Some j
    end.

  Fixpoint first_bad_impl (i : nat) (thr : list (T * Z)) (obs : list (Z * T * Z)) : option c08_fail :=
    match obs with
    | [] => None
    | (b, real, sr) :: rest =>
        if (sr <=? b)%Z then
          match first_bad_thr b real 0 thr with
          | None => first_bad_impl (S i) thr rest
          | Some j => Some (FailThr i j)
          end
        else Some (FailPos i)
    end.

  Definition check_C08_impl (thr : list (T * Z)) (obs : list (Z * T * Z)) : bool :=
    match first_bad_impl 0 thr obs with None => true | Some _ => false end.
End ImplCheck.

(* the binary32 comparison used by the checker is IEEE.F32.le *)
Definition f32_le : F32.t -> F32.t -> bool := n_le f32_ops.

(* sign bit of the factor clear: +0, positive, +inf or NaN.  scale is monotone in binary32
   exactly under this condition (DiscF32Mono.v); to_discrete can produce -0.0. *)
Definition factor_sign_clear (f : F32.t) : bool := negb (IEEE.sign 24 128 f).
