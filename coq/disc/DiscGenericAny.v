(* The generic u8 kernel (Score::score_rows_into, trait default -- what Pipeline::generic() and Pipeline::sse2() run
   for EVERY alphabet and column count, e.g. Protein K = 21, and what the NEON kernel equals) end to end, for ANY
   alphabet size K and ANY number of columns C: the byte at index i of its score matrix is the saturating byte
   score of the window at position i, hence >= the byte image of that position's real score.
   (DiscKernels.score_u8_windows / backends_overestimate are the K <= 16, C = 32 instances that also cover the
   AVX2 arm.) *)
From Coq Require Import List ZArith QArith Bool Arith Lia.
From LMBase Require Import Res ListX IEEE.
From LMDisc Require Import DiscModel DiscProofs DiscKernels DiscU8Kernel GenDiscU8 DiscU8Proofs DiscF32Zero DiscF32Sign.
Import ListNotations.
Local Open Scope nat_scope.

(* Score::score_into on the generic pipeline: all sequence rows *)
Definition generic_score_u8 (C : nat) (dm : list (list Z)) (st : sseq) : res (sscores Z) :=
  score_rows_generic sat_add 0%Z C dm st 0 (length (ss_rows st) - ss_wrap st).

Theorem generic_windows (K C : nat) (dm : list (list Z)) (s : list nat) (wrapn : nat) :
  0 < K -> 0 < C -> Forall (fun row => length row = K) dm -> Forall (fun v => v < K) s ->
  1 <= length dm -> length dm <= length s -> length dm - 1 <= wrapn ->
  exists sc,
    generic_score_u8 C dm (striped K C wrapn s) = Ok sc /\
    length (sc_rows sc) = (length s + (C - 1)) / C /\
    sc_max sc = length s + 1 - length dm /\
    (forall i, i < (length s + (C - 1)) / C * C ->
       sc_index sc i = disc_wscore dm (window K s i (length dm))).
Proof.
  intros HK HC Hdm Hs HM HL Hw.
  set (M := length dm) in *. set (R := (length s + (C - 1)) / C).
  set (st := striped K C wrapn s).
  set (val := fun r c => wval dm (win s (K - 1) (c * R + r) M)).
  set (sc := {| sc_rows := map (fun r => map (fun c => val r c) (seq 0 C)) (seq 0 R);
                sc_max := length s + 1 - M |}).
  assert (HR : 0 < R) by (unfold R; apply Nat.div_str_pos; lia).
  assert (Hrows : length (ss_rows st) = R + wrapn) by (apply (striped_rows_length K C wrapn s)).
  assert (Hwr : ss_wrap st = wrapn) by reflexivity.
  assert (Hlen : ss_len st = length s) by reflexivity.
  assert (Hgen : score_rows_generic sat_add 0%Z C dm st 0 R = Ok sc).
  { unfold score_rows_generic. rewrite Hlen. fold M.
    destruct (Nat.ltb_spec (length s) M) as [Hbad|_]; [lia|].
    destruct (Nat.leb_spec R 0) as [Hbad|_]; [lia|]. cbn [orb]. rewrite Nat.sub_0_r.
    rewrite (map_res_ok_map _ (fun r => map (fun c => val r c) (seq 0 C))); [reflexivity|].
    intros r Hr. apply in_seq in Hr.
    apply map_res_ok_map. intros c Hc. apply in_seq in Hc.
    unfold st. rewrite (cell_from_striped K C wrapn s sat_add dm 0%Z r c) by (fold R; fold M; lia).
    fold R. fold M. unfold val. apply (wval_ok K dm s (c * R + r) HK Hdm Hs). }
  exists sc. split; [|split; [|split]].
  - unfold generic_score_u8. fold st. rewrite Hrows, Hwr. replace (R + wrapn - wrapn) with R by lia. exact Hgen.
  - unfold sc. cbn [sc_rows]. rewrite map_length, seq_length. reflexivity.
  - reflexivity.
  - intros i Hi. fold R in Hi. unfold sc_index.
    assert (Hl : length (sc_rows sc) = R) by (unfold sc; cbn [sc_rows]; rewrite map_length, seq_length; reflexivity).
    rewrite Hl. destruct (Nat.eqb_spec R 0) as [E|_]; [lia|].
    pose proof (Nat.mod_upper_bound i R ltac:(lia)) as Hm.
    assert (Hd : i / R < C) by (apply Nat.div_lt_upper_bound; lia).
    unfold nth_res at 1. unfold sc at 1. cbn [sc_rows]. rewrite nth_error_map_seq by exact Hm. cbn [rbind].
    unfold nth_res. rewrite nth_error_map_seq by exact Hd.
    unfold val. rewrite window_win.
    assert (Hpos : i / R * R + i mod R = i) by (pose proof (Nat.div_mod i R ltac:(lia)); lia).
    rewrite Hpos. symmetry. apply (wval_ok K dm s i HK Hdm Hs).
Qed.

Theorem score_position_window_C {V} (vadd : V -> V -> V) (vzero : V) (K C wrapn : nat) (m : list (list V))
        (s : list nat) (pos : nat) :
  0 < C -> pos + length m <= length s ->
  score_position vadd vzero m (striped K C wrapn s) pos = wscore vadd vzero m (window K s pos (length m)).
Proof.
  intros HC H. unfold score_position, wscore. rewrite window_win.
  apply (score_pos_striped K C wrapn s HC).
  pose proof (L_le_RC C s HC). lia.
Qed.

(* the common part of the exact and the binary32 statements: the byte at index i of the generic score matrix and
   DiscreteMatrix::score_position are the byte score of window i, ScoringMatrix::score_position its real score *)
Lemma generic_backend_core {T : Type} (N : NumOps T) (K C : nat) (m : list (list T)) (dd : list (list Z)) (s : list nat) (i : nat) :
  0 < K -> 0 < C ->
  Forall (fun row => length row = K) m ->
  length dd = length m -> Forall (fun row => length row = K) dd ->
  Forall (fun v => v < K) s ->
  1 <= length m -> i + length m <= length s ->
  let st := striped K C (configure_wrap_of (length m)) s in
  exists sc b real,
    generic_score_u8 C dd st = Ok sc /\
    sc_index sc i = Ok b /\
    disc_score dd st i = Ok b /\
    real_score N m st i = Ok real /\
    real_wscore N m (window K s i (length m)) = Ok real /\
    disc_wscore dd (window K s i (length m)) = Ok b.
Proof.
  intros HK HC Hm Hdl Hdk Hs HM Hi st.
  assert (Hcw : configure_wrap_of (length m) = length m - 1).
  { unfold configure_wrap_of. destruct (Nat.eqb_spec (length m) 0); [lia|reflexivity]. }
  unfold st. rewrite Hcw. set (wrapn := length m - 1).
  destruct (generic_windows K C dd s wrapn HK HC Hdk Hs) as [sc [Hsc [_ [_ Hidx]]]];
    try (rewrite Hdl; unfold wrapn; lia).
  assert (HiR : i < (length s + (C - 1)) / C * C).
  { pose proof (L_le_RC C s HC) as HLR. lia. }
  specialize (Hidx i HiR). rewrite Hdl in Hidx.
  pose proof (wval_ok K dd s i HK Hdk Hs) as Hb. rewrite Hdl in Hb.
  rewrite window_win in Hidx.
  set (b := wval dd (win s (K - 1) i (length m))) in *.
  destruct (wscore_from_total (n_add N) K m (n_zero N) (win s (K - 1) i (length m)) Hm (win_ok K s i _ HK Hs))
    as [real Hreal]; [rewrite win_length; lia|].
  exists sc, b, real. split; [exact Hsc|]. split; [rewrite Hidx; exact Hb|]. split; [|split; [|split]].
  - unfold disc_score. rewrite (score_position_window_C sat_add 0%Z K C wrapn dd s i HC) by (rewrite Hdl; exact Hi).
    rewrite Hdl, window_win. exact Hb.
  - unfold real_score. rewrite (score_position_window_C _ _ K C wrapn m s i HC Hi). rewrite window_win. exact Hreal.
  - unfold real_wscore, wscore. rewrite window_win. exact Hreal.
  - rewrite window_win. exact Hb.
Qed.

(* exact arithmetic, any K, any C *)
Theorem generic_backend_overestimates (K C : nat) (m : list (list xq)) (d : @dmat xq) (s : list nat) (i : nat) :
  0 < K -> 0 < C ->
  Forall (fun row => length row = K) m ->
  Forall (fun row => Forall xq_finite (nonwild K row)) m ->
  to_discrete xq_ops K m = Ok d ->
  Forall (fun v => v < K) s ->
  1 <= length m -> i + length m <= length s ->
  let st := striped K C (configure_wrap_of (length m)) s in
  exists sc b real,
    generic_score_u8 C (d_data d) st = Ok sc /\
    sc_index sc i = Ok b /\
    disc_score (d_data d) st i = Ok b /\
    real_score xq_ops m st i = Ok real /\
    (scale xq_ops d real <= b)%Z.
Proof.
  intros HK HC Hm Hfin Hd Hs HM Hi st.
  destruct (to_discrete_fin K m d Hfin Hd) as [os [f [_ [_ [_ [_ [Hdata Hlen]]]]]]].
  assert (Hl2 : length (map XFin os) = length m) by (rewrite map_length; exact Hlen).
  destruct (disc_rows_shape xq_ops K (XFin f) m (map XFin os) Hl2 Hm) as [Hdl Hdk].
  rewrite <- Hdata in Hdl, Hdk.
  destruct (generic_backend_core xq_ops K C m (d_data d) s i HK HC Hm Hdl Hdk Hs HM Hi)
    as [sc [b [real [H1 [H2 [H3 [H4 [H5 H6]]]]]]]].
  exists sc, b, real. repeat split; try assumption.
  exact (discrete_overestimates K m d _ real b Hfin Hd H5 H6).
Qed.

(* binary32 twin, under the conditioning predicate and the two side conditions of f32_main_all_factors' *)
Theorem generic_backend_overestimates_f32 (K C : nat) (m : list (list F32.t)) (d : @dmat F32.t) (s : list nat) (i : nat) :
  0 < K -> 0 < C ->
  Forall (fun row => length row = K) m ->
  Forall (fun row => Forall (fun x => F32.is_finite x = true) (nonwild K row)) m ->
  to_discrete f32_ops K m = Ok d ->
  Forall (fun v => v < K) s ->
  1 <= length m -> i + length m <= length s ->
  well_conditioned m (d_factor d) = true ->
  (Z.of_nat (length m) <= 16384)%Z ->
  F32.le (cond_A m) (F32.of_Z_exp 1 126) = true ->
  let st := striped K C (configure_wrap_of (length m)) s in
  exists sc b real,
    generic_score_u8 C (d_data d) st = Ok sc /\
    sc_index sc i = Ok b /\
    disc_score (d_data d) st i = Ok b /\
    real_score f32_ops m st i = Ok real /\
    (scale f32_ops d real <= b)%Z.
Proof.
  intros HK HC Hm Hfin Hd Hs HM Hi Hwc Hlen HA st.
  destruct (to_discrete_inv K m d Hd) as [os [Hos [_ [_ Hdata]]]].
  assert (Hl2 : length os = length m) by (apply (map_res_length _ _ _ Hos)).
  destruct (disc_rows_shape f32_ops K (d_factor d) m os Hl2 Hm) as [Hdl Hdk].
  rewrite <- Hdata in Hdl, Hdk.
  destruct (generic_backend_core f32_ops K C m (d_data d) s i HK HC Hm Hdl Hdk Hs HM Hi)
    as [sc [b [real [H1 [H2 [H3 [H4 [H5 H6]]]]]]]].
  exists sc, b, real. repeat split; try assumption.
  exact (f32_main_all_factors' K m d _ real b Hfin Hd H5 H6 Hwc Hlen HA).
Qed.

(* ---------- NEON and the dispatcher of Arm hosts (16 q columns, K <= 16) ---------- *)

Lemma striped_okC (K C wrapn : nat) (s : list nat) : 0 < K -> Forall (fun v => v < K) s -> sseq_okC C K (striped K C wrapn s).
Proof.
  intros HK Hs. unfold sseq_okC, striped. cbn [ss_rows].
  apply Forall_forall. intros x Hx. apply in_map_iff in Hx. destruct Hx as [r [<- _]].
  split; [rewrite map_length, seq_length; reflexivity|].
  apply Forall_forall. intros v Hv. apply in_map_iff in Hv. destruct Hv as [c [<- _]].
  apply Forall_nth_default; [exact Hs|lia].
Qed.

(* every kernel an Arm host can run through the dispatcher (generic, NEON: table as generated) or through
   Pipeline::neon() returns the generic score matrix on a striped, configured sequence *)
Theorem arm_hosts_score_eq_generic (K q : nat) (dm : list (list Z)) (pads : nat -> list Z) (s : list nat) (wrapn : nat)
        (id : u8_kernel_id) (sc : sscores Z) :
  0 < K -> K <= 16 -> 1 <= q -> Forall (fun row => length row = K) dm -> (forall i, 16 <= K + length (pads i)) ->
  Forall (fun v => v < K) s -> 1 <= length dm -> length dm - 1 <= wrapn ->
  id <> UKAvx2Shuffle ->
  let st := striped K (q * 16) wrapn s in
  generic_score_u8 (q * 16) dm st = Ok sc ->
  run_u8_kernel gen_avx2_u8 gen_neon_u8 id (q * 16) dm pads st 0 (length (ss_rows st) - ss_wrap st) = Ok sc.
Proof.
  intros HK HK16 Hq Hdm Hp Hs HM Hw Hid st Hg. unfold generic_score_u8 in Hg.
  destruct id; cbn [run_u8_kernel]; [exact Hg|contradiction|].
  destruct (neon_generic_agree K q dm pads st 0 (length (ss_rows st) - ss_wrap st) HK16 Hdm Hp
              (striped_okC K (q * 16) wrapn s HK Hs) Hq HM Hw) as [[sc' [Hn Hg']]|[_ Hpan]].
  - rewrite Hg in Hg'. injection Hg' as <-. exact Hn.
  - rewrite Hg in Hpan. contradiction.
Qed.

(* end to end on Arm hosts, exact real score: any kernel id other than the AVX2 one (the arms of the Arm-host
   dispatcher and Pipeline::neon() are such ids: arm_ids_not_avx2) *)
Theorem arm_hosts_overestimate (K q : nat) (m : list (list xq)) (d : @dmat xq) (pads : nat -> list Z)
        (s : list nat) (id : u8_kernel_id) (i : nat) :
  0 < K -> K <= 16 -> 1 <= q ->
  Forall (fun row => length row = K) m ->
  Forall (fun row => Forall xq_finite (nonwild K row)) m ->
  to_discrete xq_ops K m = Ok d ->
  (forall i, 16 <= K + length (pads i)) ->
  Forall (fun v => v < K) s ->
  1 <= length m -> i + length m <= length s ->
  id <> UKAvx2Shuffle ->
  let st := striped K (q * 16) (configure_wrap_of (length m)) s in
  exists sc b real,
    run_u8_kernel gen_avx2_u8 gen_neon_u8 id (q * 16) (d_data d) pads st 0 (length (ss_rows st) - ss_wrap st) = Ok sc /\
    sc_index sc i = Ok b /\
    real_score xq_ops m st i = Ok real /\
    (scale xq_ops d real <= b)%Z.
Proof.
  intros HK HK16 Hq Hm Hfin Hd Hp Hs HM Hi Hid st.
  assert (HC : 0 < q * 16) by lia.
  destruct (generic_backend_overestimates K (q * 16) m d s i HK HC Hm Hfin Hd Hs HM Hi) as [sc [b [real [H1 [H2 [_ [H4 H5]]]]]]].
  exists sc, b, real. repeat split; try assumption.
  destruct (to_discrete_fin K m d Hfin Hd) as [os [f [_ [_ [_ [_ [Hdata Hlen]]]]]]].
  assert (Hl2 : length (map XFin os) = length m) by (rewrite map_length; exact Hlen).
  destruct (disc_rows_shape xq_ops K (XFin f) m (map XFin os) Hl2 Hm) as [Hdl Hdk].
  rewrite <- Hdata in Hdl, Hdk.
  apply (arm_hosts_score_eq_generic K q (d_data d) pads s (configure_wrap_of (length m)) id sc); try assumption.
  - rewrite Hdl. lia.
  - rewrite Hdl. unfold configure_wrap_of. destruct (Nat.eqb_spec (length m) 0); lia.
Qed.

Lemma arm_ids_not_avx2 : (forall a : arm4, gen_dispatch_u8_arm a <> UKAvx2Shuffle) /\ gen_pipeline_u8 D4Neon <> UKAvx2Shuffle.
Proof.
  split; [intros a; rewrite gen_dispatch_u8_arm_expected; destruct a; discriminate|].
  rewrite gen_pipeline_u8_expected. discriminate.
Qed.

(* ---------- histories, binary32 ---------- *)
From LMDisc Require Import DiscHistory DiscHistoryProofs.

(* the binary32 twin of DiscHistoryProofs.history_overestimates: the buffer after any history whose last call scores
   the discretised matrix through an arm of the x86 dispatcher satisfies the main clause with the real score, the
   offset, the factor and scale as the code computes them, under the conditioning predicate *)
Theorem history_overestimates_f32 (K : nat) (m : list (list F32.t)) (d : @dmat F32.t) (pads : nat -> list Z)
        (s : list nat) (a : arm) (i : nat) (ops : list hop) (buf0 buf : sscores Z) :
  0 < K -> K <= 16 ->
  Forall (fun row => length row = K) m ->
  Forall (fun row => Forall (fun x => F32.is_finite x = true) (nonwild K row)) m ->
  to_discrete f32_ops K m = Ok d ->
  (forall i, 16 <= K + length (pads i)) ->
  Forall (fun v => v < K) s ->
  1 <= length m -> i + length m <= length s ->
  well_conditioned m (d_factor d) = true ->
  (Z.of_nat (length m) <= 16384)%Z ->
  F32.le (cond_A m) (F32.of_Z_exp 1 126) = true ->
  buf_wf 32 buf0 -> Forall (op_ok 32) ops -> hrun gen_avx2_u8 gen_neon_u8 32 ops buf0 = Ok buf ->
  let st := striped K 32 (configure_wrap_of (length m)) s in
  exists sc b real,
    hstep gen_avx2_u8 gen_neon_u8 32 (HScoreInto (mkHCall (gen_dispatch_u8_x86 (arm4_of a)) (d_data d) pads st)) buf = Ok sc /\
    sc_index sc i = Ok b /\
    real_score f32_ops m st i = Ok real /\
    (scale f32_ops d real <= b)%Z.
Proof.
  intros HK HK16 Hm Hfin Hd Hp Hs HM Hi Hwc Hlen HA Hwf Hops Hrun st.
  destruct (backends_overestimate_f32' K m d pads s a i HK HK16 Hm Hfin Hd Hp Hs HM Hi Hwc Hlen HA)
    as [sc [b [real [H1 [H2 [_ [H4 H5]]]]]]].
  exists sc, b, real. repeat split; try assumption.
  assert (Hrows : Forall (fun x => length x = 32) (ss_rows st)).
  { apply (sseq_ok_len32 K). exact (striped_ok K 32 _ s ltac:(lia) HK eq_refl Hs). }
  assert (Hc : call_ok 32 (mkHCall (gen_dispatch_u8_x86 (arm4_of a)) (d_data d) pads st)).
  { unfold call_ok. cbn [hc_id hc_seq]. rewrite gen_dispatch_u8_x86_expected. destruct a; auto. }
  destruct (scores_history 32 ops _ 0 0 buf0 buf Hwf Hops Hc Hrun) as [_ ->].
  unfold fresh_call. cbn [hc_id hc_dm hc_pads hc_seq].
  rewrite (dispatch_gen_is_model a (d_data d) pads st _ _ Hrows). exact H1.
Qed.
