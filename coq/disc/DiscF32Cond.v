(* From the conditioning predicate of DiscModel.v ([well_conditioned], computed in binary32 by
   the model and by the harness) to [sum_error_small], and the main clause of C08 in binary32
   for the model's to_discrete / score functions. *)
From Coq Require Import ZArith Reals List Bool Lia Lra Psatz.
From Coq Require Import SpecFloat.
From Flocq Require Import Core BinarySingleNaN.
From LMBase Require Import Res ListX IEEE.
From LMDisc Require Import DiscModel DiscImplCheck DiscProofs DiscF32Mono DiscF32Main DiscF32Sum.
Import ListNotations.

Local Open Scope R_scope.

Local Instance vexp32c : Valid_exp fexp32 := fexp_correct 24 128 Hprec32.
Local Instance vrnd32c : Valid_rnd (round_mode mode_NE) := valid_rnd_round_mode mode_NE.

(* ---------- exactly representable constants of the predicate ---------- *)

Lemma normalize_exact (mz ez : Z) : (Z.abs mz < 2 ^ 24)%Z -> (-149 <= ez)%Z ->
  0 <= F2R (Float radix2 mz ez) < big ->
  let z := binary_normalize 24 128 Hprec32 Hmax32 mode_NE mz ez false in
  B2R z = F2R (Float radix2 mz ez) /\ fin z = true /\ Bsign z = false.
Proof.
  intros Hm He Hx z.
  pose proof (binary_normalize_correct 24 128 Hprec32 Hmax32 mode_NE mz ez false) as H. cbv zeta in H.
  fold z in H. rewrite (rnd32_id _ (fmt_dyadic mz ez Hm He)) in H.
  rewrite Rlt_bool_true in H by (rewrite Rabs_pos_eq; lra).
  destruct H as [H1 [H2 H3]]. split; [exact H1|]. split; [exact H2|].
  rewrite H3. destruct (Rcompare_spec (F2R (Float radix2 mz ez)) 0); try reflexivity. lra.
Qed.

Lemma of_Z_exact (n : Z) : (0 <= n < 2 ^ 24)%Z ->
  B2R (F32.of_Z n) = IZR n /\ fin (F32.of_Z n) = true /\ Bsign (F32.of_Z n) = false.
Proof.
  intros Hn.
  assert (E : F2R (Float radix2 n 0) = IZR n) by (unfold F2R; cbn; ring).
  assert (Hb : 0 <= F2R (Float radix2 n 0) < big).
  { rewrite E. split; [apply IZR_le; lia|].
    apply Rlt_trans with (IZR (2 ^ 24)); [apply IZR_lt; lia|].
    change (IZR (2 ^ 24)) with (bpow radix2 24). apply bpow_lt. lia. }
  pose proof (normalize_exact n 0 ltac:(lia) ltac:(lia) Hb) as H. cbv zeta in H. rewrite E in H. exact H.
Qed.

Lemma of_Z_exp_pow2 (e : Z) : (-149 <= e <= 127)%Z ->
  B2R (F32.of_Z_exp 1 e) = bpow radix2 e /\ fin (F32.of_Z_exp 1 e) = true /\ Bsign (F32.of_Z_exp 1 e) = false.
Proof.
  intros He.
  assert (E : F2R (Float radix2 1 e) = bpow radix2 e) by apply F2R_bpow.
  assert (Hb : 0 <= F2R (Float radix2 1 e) < big).
  { rewrite E. split; [apply bpow_ge_0|apply bpow_lt; lia]. }
  pose proof (normalize_exact 1 e ltac:(lia) ltac:(lia) Hb) as H. cbv zeta in H. rewrite E in H. exact H.
Qed.

Lemma bounded_exp (m : positive) (e : Z) : SpecFloat.bounded 24 128 m e = true -> (-149 <= e <= 104)%Z.
Proof.
  unfold SpecFloat.bounded, SpecFloat.canonical_mantissa. intros H. apply andb_prop in H. destruct H as [H1 H2].
  apply Zeq_bool_eq in H1. apply Zle_bool_imp_le in H2.
  unfold SpecFloat.fexp, SpecFloat.emin in H1. lia.
Qed.

(* the model's ulp is Flocq's ulp *)
Lemma f32_ulp_correct (A : f32) : fin A = true ->
  B2R (f32_ulp A) = ulp32 (B2R A) /\ fin (f32_ulp A) = true /\ Bsign (f32_ulp A) = false /\
  exists e, (-149 <= e <= 104)%Z /\ ulp32 (B2R A) = bpow radix2 e.
Proof.
  destruct A as [s|s| |s m e Hb]; try discriminate; intros _; cbn [f32_ulp].
  - destruct (of_Z_exp_pow2 (-149) ltac:(lia)) as [H1 [H2 H3]].
    assert (E : ulp32 0 = bpow radix2 (-149)) by apply (ulp_FLT_0 radix2 (-149) 24).
    cbn [B2R]. rewrite E. split; [exact H1|]. split; [exact H2|]. split; [exact H3|].
    exists (-149)%Z. split; [lia|reflexivity].
  - pose proof (bounded_exp m e Hb) as He.
    destruct (of_Z_exp_pow2 e ltac:(lia)) as [H1 [H2 H3]].
    assert (E : ulp32 (B2R (B754_finite s m e Hb : f32)) = bpow radix2 e).
    { rewrite ulp_neq_0.
      - f_equal. cbn [B2R]. symmetry.
        exact (canonical_bounded 24 128 s m e Hb).
      - cbn [B2R]. destruct s.
        + apply Rlt_not_eq. apply F2R_lt_0. cbn. lia.
        + apply Rgt_not_eq. apply F2R_gt_0. cbn. lia. }
    rewrite E. split; [exact H1|]. split; [exact H2|]. split; [exact H3|].
    exists e. split; [lia|reflexivity].
Qed.

(* cond_bound <= f, with f finite, gives the real inequality n * ulp(A) <= f *)
Lemma cond_bound_real (n : Z) (A f : f32) : (0 < n < 2 ^ 24)%Z -> fin A = true -> fin f = true ->
  F32.le (F32.mul (F32.of_Z n) (f32_ulp A)) f = true ->
  IZR n * ulp32 (B2R A) <= B2R f.
Proof.
  intros Hn HA Hf Hle.
  destruct (of_Z_exact n ltac:(lia)) as [N1 [N2 N3]].
  destruct (f32_ulp_correct A HA) as [U1 [U2 [U3 [e [He Ue]]]]].
  pose proof (Bmult_correct 24 128 Hprec32 Hmax32 mode_NE (F32.of_Z n) (f32_ulp A)) as H.
  change (Bmult mode_NE (F32.of_Z n) (f32_ulp A)) with (F32.mul (F32.of_Z n) (f32_ulp A)) in H.
  rewrite N1, U1, N2, U2, N3, U3 in H. rewrite Ue in H |- *.
  assert (E : IZR n * bpow radix2 e = F2R (Float radix2 n e)) by reflexivity.
  rewrite E in H. rewrite (rnd32_id _ (fmt_dyadic n e ltac:(lia) ltac:(lia))) in H.
  destruct (Rlt_bool (Rabs (F2R (Float radix2 n e))) big).
  - destruct H as [H1 [H2 _]]. cbn [andb] in H2.
    apply (fle_finite _ f H2 Hf) in Hle. rewrite H1 in Hle. rewrite E. exact Hle.
  - exfalso. cbn [xorb] in H. apply B2SF_inf in H. rewrite H in Hle.
    destruct f as [sf|sf| |sf mf ef Hbf]; try discriminate Hf; discriminate Hle.
Qed.

(* a non-finite A makes the bound +inf, which no finite factor reaches *)
Lemma cond_bound_fin (n : Z) (A f : f32) : (0 < n < 2 ^ 24)%Z -> fin f = true ->
  F32.le (F32.mul (F32.of_Z n) (f32_ulp A)) f = true -> fin A = true.
Proof.
  intros Hn Hf Hle. destruct (fin A) eqn:HA; [reflexivity|exfalso].
  destruct (of_Z_exact n ltac:(lia)) as [N1 [N2 N3]].
  assert (Eu : f32_ulp A = F32.inf) by (destruct A as [s|s| |s m e Hb]; try discriminate HA; reflexivity).
  rewrite Eu in Hle.
  assert (Hpos : 0 < B2R (F32.of_Z n)) by (rewrite N1; apply IZR_lt; lia).
  destruct (F32.of_Z n) as [s|s| |s m e Hb] eqn:En; try discriminate N2.
  - cbn [B2R] in Hpos. lra.
  - cbn [Bsign] in N3. subst s.
    destruct f as [sf|sf| |sf mf ef Hbf]; try discriminate Hf; discriminate Hle.
Qed.

(* ---------- row_absmax bounds every finite cell of its row ---------- *)

Lemma fmax_fin (a b : f32) : fin a = true -> fin b = true ->
  fin (F32.max a b) = true /\ B2R a <= B2R (F32.max a b) /\ B2R b <= B2R (F32.max a b).
Proof.
  intros Ha Hb. unfold F32.max, fmax.
  assert (Na : IEEE.is_nan 24 128 a = false) by (destruct a; try discriminate Ha; reflexivity).
  assert (Nb : IEEE.is_nan 24 128 b = false) by (destruct b; try discriminate Hb; reflexivity).
  rewrite Na, Nb. unfold flt, fcmp. rewrite (Bcompare_correct 24 128 a b Ha Hb).
  destruct (Rcompare_spec (B2R a) (B2R b)); (split; [assumption|]); lra.
Qed.

Definition absmax_step (a x : F32.t) : F32.t := if F32.is_finite x then F32.max a (F32.abs x) else a.

Lemma absmax_fold (row : list f32) : forall acc : f32, fin acc = true -> 0 <= B2R acc ->
  let r := fold_left absmax_step row acc in
  fin r = true /\ B2R acc <= B2R r /\
  (forall x, In x row -> fin x = true -> Rabs (B2R x) <= B2R r).
Proof.
  induction row as [|y row IH]; intros acc Ha H0; cbn [fold_left]; cbv zeta.
  - split; [exact Ha|]. split; [lra|]. intros x [].
  - assert (Est : absmax_step acc y = if fin y then F32.max acc (F32.abs y) else acc) by reflexivity.
    rewrite Est. clear Est. destruct (fin y) eqn:Hy.
    + assert (Hay : fin (F32.abs y) = true) by (unfold F32.abs, fabs; rewrite is_finite_Babs; exact Hy).
      destruct (fmax_fin acc (F32.abs y) Ha Hay) as [M1 [M2 M3]].
      assert (Eab : B2R (F32.abs y) = Rabs (B2R y)) by apply B2R_Babs.
      assert (M0 : 0 <= B2R (F32.max acc (F32.abs y))) by lra.
      destruct (IH (F32.max acc (F32.abs y)) M1 M0) as [I1 [I2 I3]].
      split; [exact I1|]. split; [lra|]. intros x [->|Hx] Hfx.
      * rewrite <- Eab. lra.
      * apply I3; assumption.
    + destruct (IH acc Ha H0) as [I1 [I2 I3]].
      split; [exact I1|]. split; [exact I2|]. intros x [->|Hx] Hfx.
      * rewrite Hy in Hfx. discriminate Hfx.
      * apply I3; assumption.
Qed.

Lemma row_absmax_spec (row : list f32) :
  fin (row_absmax row) = true /\ 0 <= B2R (row_absmax row) /\
  (forall x, In x row -> fin x = true -> Rabs (B2R x) <= B2R (row_absmax row)).
Proof.
  destruct (absmax_fold row F32.zero eq_refl (Rle_refl 0)) as [H1 [H2 H3]].
  change (fold_left absmax_step row F32.zero) with (row_absmax row) in *.
  split; [exact H1|]. split; [exact H2|exact H3].
Qed.

(* ---------- row minima are cells of the row ---------- *)

Lemma min_from_In (l : list F32.t) : forall acc r, min_from f32_ops acc l = Ok r -> r = acc \/ In r l.
Proof.
  induction l as [|y l IH]; intros acc r H; cbn [min_from] in H.
  - inversion H. left. reflexivity.
  - destruct (n_cmp f32_ops acc y) as [[| |]|]; try discriminate H.
    + destruct (IH _ _ H) as [->|Hin]; [left; reflexivity|right; right; exact Hin].
    + destruct (IH _ _ H) as [->|Hin]; [left; reflexivity|right; right; exact Hin].
    + destruct (IH _ _ H) as [->|Hin]; [right; left; reflexivity|right; right; exact Hin].
Qed.

Lemma row_min_In (l : list F32.t) r : row_min f32_ops l = Ok r -> In r l.
Proof.
  destruct l as [|x l]; cbn [row_min]; [discriminate|]. intros H.
  destruct (min_from_In l x r H) as [->|Hin]; [left; reflexivity|right; exact Hin].
Qed.

Lemma In_firstn {A} (n : nat) : forall (l : list A) x, In x (firstn n l) -> In x l.
Proof.
  induction n as [|n IH]; intros l x H; [destruct H|].
  destruct l as [|y l]; [destruct H|]. cbn [firstn] in H. destruct H as [->|H]; [left; reflexivity|right; apply IH; exact H].
Qed.

(* ---------- the triples of a window ---------- *)

Lemma window_triples (K : nat) : forall (m : list (list F32.t)) (w : list nat) (xs os : list F32.t),
  Forall (fun row => Forall (fun x => fin x = true) (nonwild K row)) m ->
  pick m w = Some xs -> Forall (fun x => fin x = true) xs ->
  map_res (fun row => row_min f32_ops (nonwild K row)) m = Ok os ->
  exists l : list (f32 * f32 * f32),
    Forall tbounded l /\ map tx l = xs /\ map to l = os /\ map tr l = map row_absmax m /\
    map (fun t => (tx t, to t)) l = combine xs os /\ length l = length m.
Proof.
  induction m as [|row m IH]; intros w xs os Hfin Hp Hfx Hos; cbn [pick map_res] in Hp, Hos.
  - inversion Hp; subst. inversion Hos; subst. exists []. repeat split; constructor.
  - destruct w as [|s w]; [discriminate Hp|].
    destruct (nth_error row s) as [x|] eqn:Hx; [|discriminate Hp].
    destruct (pick m w) as [xs'|] eqn:Hp'; [|discriminate Hp]. inversion Hp; subst xs; clear Hp.
    destruct (row_min f32_ops (nonwild K row)) as [o| | |] eqn:Ho; cbn [rbind] in Hos; try discriminate Hos.
    destruct (map_res (fun row0 => row_min f32_ops (nonwild K row0)) m) as [os'| | |] eqn:Hos'; cbn [rbind] in Hos; try discriminate Hos.
    inversion Hos; subst os; clear Hos.
    inversion Hfin as [|? ? Hrow Hfin']; subst. inversion Hfx as [|? ? Hfx1 Hfx']; subst.
    destruct (IH w xs' os' Hfin' Hp' Hfx' eq_refl) as [l [L1 [L2 [L3 [L4 [L5 L6]]]]]].
    exists ((x, o, row_absmax row) :: l).
    destruct (row_absmax_spec row) as [R1 [R2 R3]].
    pose proof (row_min_In _ _ Ho) as Hoin.
    assert (Hfo : fin o = true) by (rewrite Forall_forall in Hrow; apply Hrow; exact Hoin).
    assert (Hoin' : In o row) by (apply (In_firstn (K - 1)); exact Hoin).
    assert (Hxin : In x row) by (apply nth_error_In with s; exact Hx).
    split.
    + constructor; [|exact L1]. unfold tbounded, tx, to, tr. cbn [fst snd].
      repeat split; try assumption; [apply R3; assumption|apply R3; assumption].
    + cbn [map length combine].
      change (tx (x, o, row_absmax row)) with x. change (to (x, o, row_absmax row)) with o.
      change (tr (x, o, row_absmax row)) with (row_absmax row).
      rewrite L2, L3, L4, L5, L6. repeat split; reflexivity.
Qed.

Lemma fsum_from_fold (l : list f32) : forall acc, F32.sum_from acc l = fold_left F32.add l acc.
Proof. induction l as [|x l IH]; intros acc; [reflexivity|]. cbn [fold_left]. rewrite <- IH. reflexivity. Qed.

(* ---------- the main clause of C08 in binary32, for windows of finite cells ---------- *)

Theorem f32_main_conditioned (K : nat) (m : list (list F32.t)) (d : @dmat F32.t)
        (w : list nat) (xs : list F32.t) (real : F32.t) (b : Z) :
  Forall (fun row => Forall (fun x => fin x = true) (nonwild K row)) m ->   (* finite over the non-wildcard symbols *)
  to_discrete f32_ops K m = Ok d ->
  pick m w = Some xs -> Forall (fun x => fin x = true) xs ->               (* the window's cells are finite *)
  real_wscore f32_ops m w = Ok real ->
  disc_wscore (d_data d) w = Ok b ->
  well_conditioned m (d_factor d) = true ->
  fin (d_factor d) = true -> 0 < B2R (d_factor d) ->                         (* not a constant matrix *)
  (Z.of_nat (length m) <= 16384)%Z ->
  F32.le (cond_A m) (F32.of_Z_exp 1 126) = true ->                           (* no overflow of real - offset *)
  (scale f32_ops d real <= b)%Z.
Proof.
  intros Hfin Hd Hp Hfx Hreal Hb Hwc Hf Hpos Hlen HA126.
  apply (f32_main_partial_model K m d w xs real b Hd Hp Hreal Hb Hf Hpos Hlen).
  (* unfold to_discrete to get at the offsets *)
  unfold to_discrete in Hd.
  destruct (max_score f32_ops K m) as [mx| | |] eqn:Hmx; cbn [rbind] in Hd; try discriminate.
  destruct (row_mins f32_ops K m) as [os| | |] eqn:Hos; cbn [rbind] in Hd; try discriminate.
  inversion Hd; subst d; clear Hd. cbn [d_data d_factor d_offsets d_offset] in *.
  set (f := F32.div _ _) in *.
  destruct (window_triples K m w xs os Hfin Hp Hfx Hos) as [l [L1 [L2 [L3 [L4 [L5 L6]]]]]].
  (* the score is the left-to-right sum of the cells *)
  unfold real_wscore, wscore in Hreal.
  destruct (wscore_from_pick (n_add f32_ops) _ _ _ _ Hreal) as [xs' [Hp' Hr]].
  rewrite Hp in Hp'. inversion Hp'; subst xs'; clear Hp'. cbn [f32_ops n_add n_zero] in Hr.
  (* the predicate *)
  unfold well_conditioned in Hwc. apply andb_prop in Hwc. destruct Hwc as [_ Hwc].
  assert (Hnz : F32.eq f F32.zero = false).
  { unfold F32.eq, feq, fcmp. rewrite (Bcompare_correct 24 128 f F32.zero Hf eq_refl).
    change (B2R F32.zero) with 0. rewrite Rcompare_Gt by exact Hpos. reflexivity. }
  rewrite Hnz in Hwc. cbn [orb] in Hwc. unfold cond_bound in Hwc.
  set (n := (8 * (Z.of_nat (length m) + 1))%Z) in *.
  assert (Hn : (0 < n < 2 ^ 24)%Z) by (unfold n; change (2 ^ 24)%Z with 16777216%Z; lia).
  pose proof (cond_bound_fin n (cond_A m) f Hn Hf Hwc) as HAfin.
  pose proof (cond_bound_real n (cond_A m) f Hn HAfin Hf Hwc) as Hcond.
  destruct (of_Z_exp_pow2 126 ltac:(lia)) as [P1 [P2 _]].
  apply (fle_finite _ _ HAfin P2) in HA126. rewrite P1 in HA126.
  unfold cond_A in *. rewrite fsum_from_fold in *. rewrite <- L4 in *.
  pose proof (sum_error_small_of_bound l f L1) as H. cbv zeta in H.
  rewrite L2, L3, L5 in H. rewrite Hr. unfold sum_from. cbn [f32_ops n_add n_sum0].
  apply H; [exact HAfin|exact HA126|].
  rewrite L6. rewrite INR_IZR_INZ.
  pose proof (ulp32_ge_0 (B2R (fold_left F32.add (map tr l) F32.zero))) as HU.
  unfold n in Hcond. rewrite mult_IZR, plus_IZR in Hcond.
  set (U := ulp32 _) in *. set (Mr := IZR (Z.of_nat (length m))) in *.
  assert (0 <= Mr) by (unfold Mr; apply IZR_le; lia).
  nra.
Qed.

(* ---------- windows with a non-finite cell (wildcard column -inf, +inf or NaN) ---------- *)

Definition is_pinf (x : f32) : bool := match x with B754_infinity false => true | _ => false end.
Definition bad (a : f32) : Prop := a = B754_nan \/ a = B754_infinity true.

Lemma add_bad_l (a x : f32) : bad a -> is_pinf x = false -> bad (F32.add a x).
Proof.
  intros [->| ->] Hx; destruct x as [sx|[|]| |sx mx ex Hbx]; try discriminate Hx;
    first [left; reflexivity | right; reflexivity].
Qed.

Lemma add_bad_r (a x : f32) : fin x = false -> is_pinf x = false -> bad (F32.add a x).
Proof.
  intros Hf Hx. destruct x as [sx|[|]| |sx mx ex Hbx]; try discriminate Hx; try discriminate Hf;
    destruct a as [sa|[|]| |sa ma ea Hba]; first [left; reflexivity | right; reflexivity].
Qed.

Lemma fold_bad (xs : list f32) : (forall x, In x xs -> is_pinf x = false) ->
  forall acc, bad acc \/ Exists (fun x => fin x = false) xs -> bad (fold_left F32.add xs acc).
Proof.
  induction xs as [|x xs IH]; intros Hp acc H; cbn [fold_left].
  - destruct H as [H|H]; [exact H|inversion H].
  - assert (Hx : is_pinf x = false) by (apply Hp; left; reflexivity).
    apply IH; [intros y Hy; apply Hp; right; exact Hy|].
    destruct H as [H|H].
    + left. apply add_bad_l; assumption.
    + inversion H as [? ? Hfx|? ? Hex]; subst.
      * left. apply add_bad_r; assumption.
      * right. exact Hex.
Qed.

Lemma byte_div_bad (D f : f32) : bad D -> fin f = true -> 0 < B2R f -> byte (F32.div D f) = 0%Z.
Proof.
  intros HD Hf Hpos. destruct f as [sf|sf| |sf mf ef Hbf]; try discriminate Hf.
  - cbn [B2R] in Hpos. lra.
  - destruct sf.
    + exfalso. assert (B2R (B754_finite true mf ef Hbf : f32) < 0) by (apply F2R_lt_0; cbn; lia). lra.
    + destruct HD as [->| ->]; reflexivity.
Qed.

Lemma sub_bad (a o : f32) : bad a -> bad (F32.sub a o).
Proof.
  intros [->| ->]; destruct o as [so|[|]| |so mo eo Hbo]; first [left; reflexivity | right; reflexivity].
Qed.

Lemma cell_pinf (o f : f32) : fin o = true -> fin f = true -> 0 < B2R f ->
  disc_cell f32_ops f o (B754_infinity false) = 255%Z.
Proof.
  intros Ho Hf Hpos. rewrite disc_cell_f32.
  destruct f as [sf|sf| |sf mf ef Hbf]; try discriminate Hf.
  - cbn [B2R] in Hpos. lra.
  - destruct sf.
    + exfalso. assert (B2R (B754_finite true mf ef Hbf : f32) < 0) by (apply F2R_lt_0; cbn; lia). lra.
    + destruct o as [so|so| |so mo eo Hbo]; try discriminate Ho; reflexivity.
Qed.

Lemma cells_nonneg_pairs (f : f32) (ps : list (F32.t * F32.t)) :
  Forall (fun b => (0 <= b)%Z) (map (fun p => disc_cell f32_ops f (snd p) (fst p)) ps).
Proof.
  apply Forall_forall. intros c Hc. apply in_map_iff in Hc. destruct Hc as [p [<- _]].
  rewrite disc_cell_f32. apply cbyte_range.
Qed.

Lemma In_combine_l {A B} (xs : list A) : forall (os : list B) x, length os = length xs -> In x xs ->
  exists o, In (x, o) (combine xs os) /\ In o os.
Proof.
  induction xs as [|y xs IH]; intros os x Hl Hin; [destruct Hin|].
  destruct os as [|o os]; [discriminate Hl|]. cbn [combine]. destruct Hin as [->|Hin].
  - exists o. split; left; reflexivity.
  - destruct (IH os x ltac:(cbn in Hl; lia) Hin) as [o' [H1 H2]]. exists o'. split; right; assumption.
Qed.

Lemma nonfinite_window (f offset : f32) (xs os : list f32) :
  length os = length xs -> Forall (fun o => fin o = true) os -> fin f = true -> 0 < B2R f ->
  Exists (fun x => fin x = false) xs ->
  (scale_with f32_ops f offset (fold_left F32.add xs F32.zero)
   <= satsum (map (fun p => disc_cell f32_ops f (snd p) (fst p)) (combine xs os)))%Z.
Proof.
  intros Hl Hos Hf Hpos Hex. rewrite scale_with_f32.
  pose proof (cells_nonneg_pairs f (combine xs os)) as Hnn.
  destruct (existsb is_pinf xs) eqn:Hp.
  - apply existsb_exists in Hp. destruct Hp as [x [Hin Hx]].
    destruct x as [sx|[|]| |sx mx ex Hbx]; try discriminate Hx.
    destruct (In_combine_l xs os _ Hl Hin) as [o [Hc Ho]].
    rewrite Forall_forall in Hos.
    rewrite (satsum_has_255 _ Hnn); [apply byte_range|].
    apply in_map_iff. exists (B754_infinity false, o). split; [|exact Hc]. cbn [fst snd].
    apply cell_pinf; [apply Hos; exact Ho|exact Hf|exact Hpos].
  - assert (Hnp : forall x, In x xs -> is_pinf x = false).
    { intros x Hin. destruct (is_pinf x) eqn:E; [|reflexivity].
      assert (existsb is_pinf xs = true) by (apply existsb_exists; exists x; split; assumption).
      congruence. }
    pose proof (fold_bad xs Hnp F32.zero (or_intror Hex)) as Hb.
    rewrite (byte_div_bad _ f (sub_bad _ offset Hb) Hf Hpos). apply (satsum_range _ Hnn).
Qed.

Lemma forallb_false_witness {A} (p : A -> bool) (l : list A) :
  forallb p l = false -> exists x, In x l /\ p x = false.
Proof.
  induction l as [|y l IH]; cbn [forallb]; [discriminate|]. intros H.
  destruct (p y) eqn:Hy; cbn [andb] in H.
  - destruct (IH H) as [x [H1 H2]]. exists x. split; [right; exact H1|exact H2].
  - exists y. split; [left; reflexivity|exact Hy].
Qed.

(* ---------- the main clause of C08 in binary32, every window ---------- *)

Theorem f32_main_well_conditioned (K : nat) (m : list (list F32.t)) (d : @dmat F32.t)
        (w : list nat) (real : F32.t) (b : Z) :
  Forall (fun row => Forall (fun x => fin x = true) (nonwild K row)) m ->   (* finite over the non-wildcard symbols *)
  to_discrete f32_ops K m = Ok d ->
  real_wscore f32_ops m w = Ok real ->
  disc_wscore (d_data d) w = Ok b ->
  well_conditioned m (d_factor d) = true ->
  fin (d_factor d) = true -> 0 < B2R (d_factor d) ->
  (Z.of_nat (length m) <= 16384)%Z ->
  F32.le (cond_A m) (F32.of_Z_exp 1 126) = true ->
  (scale f32_ops d real <= b)%Z.
Proof.
  intros Hfin Hd Hreal Hb Hwc Hf Hpos Hlen HA126.
  pose proof Hreal as Hreal'. unfold real_wscore, wscore in Hreal'.
  destruct (wscore_from_pick (n_add f32_ops) _ _ _ _ Hreal') as [xs [Hp Hr]]. cbn [f32_ops n_add n_zero] in Hr.
  destruct (forallb (fun x => fin x) xs) eqn:Hall.
  - apply (f32_main_conditioned K m d w xs real b); try assumption.
    apply Forall_forall. intros x Hx. rewrite forallb_forall in Hall. apply Hall. exact Hx.
  - assert (Hex : Exists (fun x => fin x = false) xs).
    { apply Exists_exists. destruct (forallb_false_witness _ _ Hall) as [x [Hx1 Hx2]]. exists x. split; assumption. }
    pose proof Hd as Hd'. unfold to_discrete in Hd'.
    destruct (max_score f32_ops K m) as [mx| | |] eqn:Hmx; cbn [rbind] in Hd'; try discriminate.
    destruct (row_mins f32_ops K m) as [os| | |] eqn:Hos; cbn [rbind] in Hd'; try discriminate.
    inversion Hd'; subst d; clear Hd'. cbn [d_data d_factor d_offsets d_offset] in *.
    set (f := F32.div _ _) in *.
    pose proof (map_res_length _ _ _ Hos) as Hlo.
    pose proof (pick_disc_rows f32_ops f m os w xs Hlo Hp) as Hpd.
    unfold disc_wscore, wscore in Hb.
    destruct (wscore_from_pick sat_add _ _ _ _ Hb) as [cs [Hcs Hbs]]. rewrite Hpd in Hcs.
    inversion Hcs; subst cs; clear Hcs. subst b. unfold scale. cbn [d_factor d_offset]. rewrite Hr.
    apply nonfinite_window; try assumption.
    + transitivity (length m); [exact Hlo|symmetry; apply (pick_length m w xs Hp)].
    + (* the row offsets are finite: they are non-wildcard cells *)
      clear - Hfin Hos. revert os Hos. induction m as [|row m IH]; intros os Hos; cbn [row_mins map_res] in Hos.
      * inversion Hos. constructor.
      * unfold row_mins in Hos. cbn [map_res] in Hos.
        destruct (row_min f32_ops (nonwild K row)) as [o| | |] eqn:Ho; cbn [rbind] in Hos; try discriminate Hos.
        destruct (map_res (fun row0 => row_min f32_ops (nonwild K row0)) m) as [os'| | |] eqn:Hos'; cbn [rbind] in Hos; try discriminate Hos.
        inversion Hos; subst os. inversion Hfin as [|? ? Hrow Hfin']; subst.
        constructor; [|apply IH; [exact Hfin'|exact Hos']].
        rewrite Forall_forall in Hrow. apply Hrow. apply row_min_In. exact Ho.
Qed.

(* the same with every hypothesis executable (no real numbers in the statement) *)
Theorem f32_main_well_conditioned_exec (K : nat) (m : list (list F32.t)) (d : @dmat F32.t)
        (w : list nat) (real : F32.t) (b : Z) :
  Forall (fun row => Forall (fun x => F32.is_finite x = true) (nonwild K row)) m ->
  to_discrete f32_ops K m = Ok d ->
  real_wscore f32_ops m w = Ok real ->
  disc_wscore (d_data d) w = Ok b ->
  well_conditioned m (d_factor d) = true ->
  F32.is_finite (d_factor d) = true -> F32.lt F32.zero (d_factor d) = true ->
  (Z.of_nat (length m) <= 16384)%Z ->
  F32.le (cond_A m) (F32.of_Z_exp 1 126) = true ->
  (scale f32_ops d real <= b)%Z.
Proof.
  intros Hfin Hd Hreal Hb Hwc Hf Hlt Hlen HA.
  apply (f32_main_well_conditioned K m d w real b); try assumption.
  unfold F32.lt, flt, fcmp in Hlt.
  rewrite (Bcompare_correct 24 128 F32.zero (d_factor d) eq_refl Hf) in Hlt.
  change (B2R F32.zero) with 0 in Hlt.
  destruct (Rcompare_spec 0 (B2R (d_factor d))); try discriminate Hlt. assumption.
Qed.
