(* Model of the 8-bit discretisation of scoring matrices (property C08).
   Executable definitions only; no proofs in this file.

   Code modelled (lightmotif/src):
     pwm/mod.rs   ScoringMatrix::{min_score, max_score, to_discrete, score_position}
                  DiscreteMatrix::{scale, unscale, score_position}
     seq.rs       StripedSequence Index<usize>, configure / configure_wrap (closed form)
     pli/mod.rs   Accumulate (saturating for u8), Score::score_rows_into (default impl),
                  Score::score_into / score
     pli/platform/avx2.rs   Avx2::score_u8_rows_into_shuffle, score_u8_avx2_shuffle
     pli/dispatch.rs        Score<u8, Dna, _> for Pipeline<Dna, Dispatch> (arm table)
     scores.rs    StripedScores Index<usize>

   Numbers: the numeric part is written once over a record of operations [NumOps T]
   and instantiated twice:
     f32_ops  binary32, bit exact (LMBase.IEEE, Flocq) : what the code computes
     xq_ops   extended rationals (exact arithmetic, +inf, -inf, NaN) : what the
              property is proved about (C08 is false of binary32, see DiscIEEE.v). *)
From Coq Require Import List ZArith QArith Qabs Qround Bool Arith.
From Flocq Require Import BinarySingleNaN.
From LMBase Require Import Res ListX IEEE.
Import ListNotations.
Local Open Scope nat_scope.

(* ---------- panic sites ---------- *)
Definition P_CMP_NAN : nat := 1.    (* a.partial_cmp(b).unwrap() with a NaN operand *)
Definition P_EMPTY_ROW : nat := 2.  (* min_by/max_by on an empty slice, .unwrap() (K = 1) *)
Definition P_SYM_OOB : nat := 3.    (* row[symbol.as_index()] out of bounds *)
Definition P_SEQ_OOB : nat := 4.    (* sequence matrix row / column out of bounds *)
Definition P_WRAP : nat := 5.       (* AVX2 wrapper: "not enough wrapping rows" *)
Definition P_ROWS : nat := 6.       (* AVX2 wrapper: "row range reaches past the end" *)
Definition P_UNDERFLOW : nat := 7.  (* pssm.rows() - 1 on an empty matrix *)
Definition P_DIV0 : nat := 8.       (* index / rows with rows = 0 *)

Fixpoint map_res {A B : Type} (f : A -> res B) (l : list A) : res (list B) :=
  match l with
  | [] => Ok []
  | a :: r => b <- f a ;; bs <- map_res f r ;; Ok (b :: bs)
  end.

Definition nth_res {A : Type} (site : nat) (l : list A) (i : nat) : res A :=
  match nth_error l i with Some x => Ok x | None => Panic site end.

(* ---------- numeric operations ---------- *)

Record NumOps (T : Type) : Type := {
  n_zero : T;                          (* the literal 0.0 *)
  n_sum0 : T;                          (* start value of Iterator::sum::<f32>() (-0.0 on this toolchain) *)
  n_add : T -> T -> T;
  n_sub : T -> T -> T;
  n_mul : T -> T -> T;
  n_div : T -> T -> T;
  n_abs : T -> T;                      (* f32::abs *)
  n_cmp : T -> T -> option comparison; (* PartialOrd::partial_cmp *)
  n_ceil_u8 : T -> Z;                  (* x.ceil() as u8 *)
  n_floor_u8 : T -> Z;                 (* x.floor() as u8 *)
  n_of_u8 : Z -> T                     (* b as f32 *)
}.
Arguments n_zero {T}. Arguments n_sum0 {T}. Arguments n_add {T}. Arguments n_sub {T}.
Arguments n_mul {T}. Arguments n_div {T}. Arguments n_abs {T}. Arguments n_cmp {T}. Arguments n_ceil_u8 {T}.
Arguments n_floor_u8 {T}. Arguments n_of_u8 {T}.

(* ---------- striped sequences and score matrices ---------- *)

(* StripedSequence<A, C>: length, wrap, data rows (R sequence rows followed by
   [wrap] look-ahead rows) of C symbols each; symbols are their indices. *)
Record sseq : Type := { ss_len : nat; ss_wrap : nat; ss_rows : list (list nat) }.

(* StripedScores<T, C>: data rows and max_index *)
Record sscores (V : Type) : Type := { sc_rows : list (list V); sc_max : nat }.
Arguments sc_rows {V}. Arguments sc_max {V}.

(* The striped matrix of sequence [s] with [wrapn] look-ahead rows, in closed form:
   cell (r, c) holds s[c*R + r], or the default symbol (the wildcard, index K-1)
   when that index is past the end.  The default of [nth] is that padding symbol.
   (Stripe::stripe_into then configure_wrap; the layout itself is property C04.) *)
Definition striped (K C wrapn : nat) (s : list nat) : sseq :=
  let L := length s in
  let R := (L + (C - 1)) / C in
  {| ss_len := L; ss_wrap := wrapn;
     ss_rows := map (fun r => map (fun c => nth (c * R + r) s (K - 1)) (seq 0 C)) (seq 0 (R + wrapn)) |}.

(* StripedSequence::configure(motif) on a freshly striped sequence (wrap = 0) *)
Definition configure_wrap_of (M : nat) : nat := if M =? 0 then 0 else M - 1.

(* StripedSequence Index<usize>: rows = data.rows() - wrap (wrap <= data.rows() is an
   invariant of the type), col = index / rows, row = index % rows, data[row][col] *)
Definition ss_index (s : sseq) (i : nat) : res nat :=
  let rows := length (ss_rows s) - ss_wrap s in
  if rows =? 0 then Panic P_DIV0 else
  row <- nth_res P_SEQ_OOB (ss_rows s) (i mod rows) ;;
  nth_res P_SEQ_OOB row (i / rows).

(* StripedScores Index<usize> *)
Definition sc_index {V : Type} (sc : sscores V) (i : nat) : res V :=
  let rows := length (sc_rows sc) in
  if rows =? 0 then Panic P_DIV0 else
  row <- nth_res P_SEQ_OOB (sc_rows sc) (i mod rows) ;;
  nth_res P_SEQ_OOB row (i / rows).

(* ---------- scoring, generic in the element type and its accumulation ---------- *)

Section Scoring.
  Context {V : Type}.
  Variable vadd : V -> V -> V.   (* Accumulate::accumulate / += *)
  Variable vzero : V.            (* T::default() / 0.0 / 0u8 *)

  (* the score of a window given as one symbol per matrix row (specification level) *)
  Fixpoint wscore_from (acc : V) (m : list (list V)) (w : list nat) : res V :=
    match m, w with
    | [], _ => Ok acc
    | row :: m', s :: w' => x <- nth_res P_SYM_OOB row s ;; wscore_from (vadd acc x) m' w'
    | _ :: _, [] => Panic P_SEQ_OOB
    end.
  Definition wscore (m : list (list V)) (w : list nat) : res V := wscore_from vzero m w.

  (* {Scoring,Discrete}Matrix::score_position:
       let mut score = 0; for (j, row) in data.iter().enumerate() { score += row[s[pos + j].as_index()] } *)
  Fixpoint score_pos_from (acc : V) (m : list (list V)) (s : sseq) (i : nat) : res V :=
    match m with
    | [] => Ok acc
    | row :: m' =>
        sym <- ss_index s i ;;
        x <- nth_res P_SYM_OOB row sym ;;
        score_pos_from (vadd acc x) m' s (S i)
    end.
  Definition score_position (m : list (list V)) (s : sseq) (pos : nat) : res V :=
    score_pos_from vzero m s pos.

  (* Score::score_rows_into, default implementation, one cell:
       for (j, pssm_row) in matrix.iter().enumerate() {
           let symbol = seq.matrix()[seq_row + j][col]; score.accumulate(pssm_row[symbol.as_index()]); } *)
  Fixpoint cell_from (acc : V) (m : list (list V)) (rows : list (list nat)) (r col : nat) : res V :=
    match m with
    | [] => Ok acc
    | mrow :: m' =>
        srow <- nth_res P_SEQ_OOB rows r ;;
        sym <- nth_res P_SEQ_OOB srow col ;;
        x <- nth_res P_SYM_OOB mrow sym ;;
        cell_from (vadd acc x) m' rows (S r) col
    end.

  (* Score::score_rows_into (default implementation) for the row range lo..hi *)
  Definition score_rows_generic (C : nat) (m : list (list V)) (s : sseq) (lo hi : nat) : res (sscores V) :=
    if (ss_len s <? length m) || (hi <=? lo) then Ok {| sc_rows := []; sc_max := 0 |} else
    rows <- map_res (fun r => map_res (fun c => cell_from vzero m (ss_rows s) r c) (seq 0 C))
                    (seq lo (hi - lo)) ;;
    Ok {| sc_rows := rows; sc_max := (ss_len s + 1) - length m |}.
End Scoring.

(* ---------- u8 arithmetic and the AVX2 kernel ---------- *)

(* u8::saturating_add *)
Definition sat_add (a b : Z) : Z := Z.min 255 (a + b).

(* saturating sum of a list of bytes, from 0 *)
Definition satsum (l : list Z) : Z := fold_left sat_add l 0%Z.

Fixpoint zip_with {A B C : Type} (f : A -> B -> C) (a : list A) (b : list B) : list C :=
  match a, b with
  | x :: a', y :: b' => f x y :: zip_with f a' b'
  | _, _ => []
  end.

(* one byte of PSHUFB: high bit of the selector set -> 0, else table[selector & 15];
   the table has 16 entries, so the default of [nth] is never used *)
Definition shuffle_byte (t16 : list Z) (x : Z) : Z :=
  if (128 <=? x)%Z then 0%Z else nth (Z.to_nat (Z.land x 15)) t16 0%Z.

(* _mm256_shuffle_epi8: the two 128-bit lanes are shuffled independently *)
Definition mm256_shuffle_epi8 (t x : list Z) : list Z :=
  map (shuffle_byte (firstn 16 t)) (firstn 16 x) ++ map (shuffle_byte (skipn 16 t)) (skipn 16 x).

(* _mm_load_si128: 16 bytes from the start of a row in memory *)
Definition mm_load_si128 (mem : list Z) : list Z := firstn 16 mem.
(* _mm256_broadcastsi128_si256 *)
Definition mm256_broadcastsi128 (a : list Z) : list Z := a ++ a.
(* _mm256_adds_epu8 *)
Definition mm256_adds_epu8 (a b : list Z) : list Z := zip_with sat_add a b.
(* _mm256_setzero_si256 *)
Definition mm256_setzero : list Z := repeat 0%Z 32.

(* the inner loop of score_u8_avx2_shuffle for one output row: [mem] are the rows of
   the discrete matrix as they lie in memory (K cells followed by the alignment
   padding, 32 bytes per row), row i+j of the sequence matrix is loaded for the j-th
   matrix row; the loads are inside the matrix by the check made in the wrapper *)
Fixpoint avx2_row (s : list Z) (mem : list (list Z)) (seqrows : list (list nat)) (i : nat) : list Z :=
  match mem with
  | [] => s
  | prow :: rest =>
      let x := map Z.of_nat (nth i seqrows []) in
      let t := mm256_broadcastsi128 (mm_load_si128 prow) in
      let y := mm256_shuffle_epi8 t x in
      avx2_row (mm256_adds_epu8 s y) rest seqrows (S i)
  end.

(* rows of DenseMatrix<u8, K> in memory: the K cells then the padding of the row *)
Definition mem_rows (dm : list (list Z)) (pads : nat -> list Z) : list (list Z) :=
  map (fun p => snd p ++ pads (fst p)) (combine (seq 0 (length dm)) dm).

(* Avx2::score_u8_rows_into_shuffle *)
Definition score_rows_avx2 (dm : list (list Z)) (pads : nat -> list Z) (s : sseq) (lo hi : nat)
  : res (sscores Z) :=
  let M := length dm in
  (* pssm.rows() - 1: overflow panic in debug builds; in release builds it wraps to
     usize::MAX and the comparison below panics instead *)
  if M =? 0 then Panic P_UNDERFLOW else
  if ss_wrap s <? M - 1 then Panic P_WRAP else
  if (ss_len s <? M) || (hi <=? lo) then Ok {| sc_rows := []; sc_max := 0 |} else
  if length (ss_rows s) <? hi + M - 1 then Panic P_ROWS else
  Ok {| sc_rows := map (fun i => avx2_row mm256_setzero (mem_rows dm pads) (ss_rows s) i) (seq lo (hi - lo));
        sc_max := (ss_len s + 1) - M |}.

(* the arms of Pipeline<Dna, Dispatch> *)
Inductive arm : Type := AGeneric | ASse2 | AAvx2.

(* Score<u8, Dna, U32> for Pipeline<Dna, Dispatch>: only the AVX2 arm is accelerated *)
Definition score_rows_dispatch (a : arm) (dm : list (list Z)) (pads : nat -> list Z) (s : sseq) (lo hi : nat)
  : res (sscores Z) :=
  match a with
  | AAvx2 => score_rows_avx2 dm pads s lo hi
  | _ => score_rows_generic sat_add 0%Z 32 dm s lo hi
  end.

(* Score::score_into / score: all sequence rows *)
Definition score_u8 (a : arm) (dm : list (list Z)) (pads : nat -> list Z) (s : sseq) : res (sscores Z) :=
  score_rows_dispatch a dm pads s 0 (length (ss_rows s) - ss_wrap s).

(* ---------- discretisation ---------- *)

Section Num.
  Context {T : Type}.
  Variable N : NumOps T.

  (* Iterator::min_by(|a, b| a.partial_cmp(b).unwrap()): reduce keeping the accumulated
     element unless it compares Greater (first of equal minima) *)
  Fixpoint min_from (acc : T) (l : list T) : res T :=
    match l with
    | [] => Ok acc
    | y :: r =>
        match n_cmp N acc y with
        | None => Panic P_CMP_NAN
        | Some Gt => min_from y r
        | Some _ => min_from acc r
        end
    end.
  (* Iterator::max_by: keeps the new element unless the accumulated one compares
     Greater (last of equal maxima) *)
  Fixpoint max_from (acc : T) (l : list T) : res T :=
    match l with
    | [] => Ok acc
    | y :: r =>
        match n_cmp N acc y with
        | None => Panic P_CMP_NAN
        | Some Gt => max_from acc r
        | Some _ => max_from y r
        end
    end.
  Definition row_min (l : list T) : res T :=
    match l with [] => Panic P_EMPTY_ROW | x :: r => min_from x r end.
  Definition row_max (l : list T) : res T :=
    match l with [] => Panic P_EMPTY_ROW | x :: r => max_from x r end.

  (* row[..K-1] *)
  Definition nonwild (K : nat) (row : list T) : list T := firstn (K - 1) row.

  (* Iterator::sum::<f32>() *)
  Definition sum_from (z : T) (l : list T) : T := fold_left (n_add N) l z.

  Definition row_mins (K : nat) (m : list (list T)) : res (list T) :=
    map_res (fun row => row_min (nonwild K row)) m.
  Definition row_maxs (K : nat) (m : list (list T)) : res (list T) :=
    map_res (fun row => row_max (nonwild K row)) m.

  (* ScoringMatrix::min_score / max_score *)
  Definition min_score (K : nat) (m : list (list T)) : res T :=
    l <- row_mins K m ;; Ok (sum_from (n_sum0 N) l).
  Definition max_score (K : nat) (m : list (list T)) : res T :=
    l <- row_maxs K m ;; Ok (sum_from (n_sum0 N) l).

  (* DiscreteMatrix *)
  Record dmat : Type := { d_data : list (list Z); d_factor : T; d_offsets : list T; d_offset : T }.

  (* ((pssm[i][j] - offsets[i]) / factor).ceil() as u8 *)
  Definition disc_cell (factor o x : T) : Z := n_ceil_u8 N (n_div N (n_sub N x o) factor).

  Fixpoint disc_rows (factor : T) (m : list (list T)) (offsets : list T) : list (list Z) :=
    match m, offsets with
    | row :: m', o :: os => map (disc_cell factor o) row :: disc_rows factor m' os
    | _, _ => []
    end.

  (* ScoringMatrix::to_discrete *)
  Definition to_discrete (K : nat) (m : list (list T)) : res dmat :=
    mx <- max_score K m ;;
    offsets <- row_mins K m ;;
    let offset := sum_from (n_sum0 N) offsets in
    (* (max_score - offset).abs() / 255: max_score >= offset, so abs only turns -0.0 into +0.0 *)
    let factor := n_div N (n_abs N (n_sub N mx offset)) (n_of_u8 N 255) in
    Ok {| d_data := disc_rows factor m offsets; d_factor := factor; d_offsets := offsets; d_offset := offset |}.

  (* DiscreteMatrix::scale: ((score - self.offset) / self.factor).floor() as u8 *)
  Definition scale_with (factor offset s : T) : Z := n_floor_u8 N (n_div N (n_sub N s offset) factor).
  Definition scale (d : dmat) (s : T) : Z := scale_with (d_factor d) (d_offset d) s.

  (* DiscreteMatrix::unscale: (score as f32) * self.factor + self.offset *)
  Definition unscale_with (factor offset : T) (b : Z) : T := n_add N (n_mul N (n_of_u8 N b) factor) offset.
  Definition unscale (d : dmat) (b : Z) : T := unscale_with (d_factor d) (d_offset d) b.

  (* ScoringMatrix::score_position and its window form *)
  Definition real_score (m : list (list T)) (s : sseq) (pos : nat) : res T :=
    score_position (n_add N) (n_zero N) m s pos.
  Definition real_wscore (m : list (list T)) (w : list nat) : res T :=
    wscore (n_add N) (n_zero N) m w.

  (* ---------- the property as an executable check on observed numbers ---------- *)

  (* one position: the byte score is at least the byte image of the real score *)
  Definition check_pos (factor offset : T) (u8score : Z) (real : T) : bool :=
    (scale_with factor offset real <=? u8score)%Z.

  (* index of the first position violating the property, if any *)
  Fixpoint first_bad (factor offset : T) (i : nat) (obs : list (Z * T)) : option nat :=
    match obs with
    | [] => None
    | (b, r) :: rest => if check_pos factor offset b r then first_bad factor offset (S i) rest else Some i
    end.
  Definition check_C08 (factor offset : T) (obs : list (Z * T)) : bool :=
    match first_bad factor offset 0 obs with None => true | Some _ => false end.
End Num.

Arguments d_data {T}. Arguments d_factor {T}. Arguments d_offsets {T}. Arguments d_offset {T}.

(* DiscreteMatrix::score_position and its window form *)
Definition disc_score (dm : list (list Z)) (s : sseq) (pos : nat) : res Z :=
  score_position sat_add 0%Z dm s pos.
Definition disc_wscore (dm : list (list Z)) (w : list nat) : res Z := wscore sat_add 0%Z dm w.

(* the window of width M at position pos of a sequence (padding symbol past the end) *)
Definition window (K : nat) (s : list nat) (pos M : nat) : list nat :=
  map (fun j => nth (pos + j) s (K - 1)) (seq 0 M).

(* ---------- instance 1: binary32, bit exact ---------- *)

Definition f32_ops : NumOps F32.t := {|
  n_zero := F32.zero;
  n_sum0 := F32.nzero;          (* <f32 as Sum<&f32>>::sum folds from -0.0 (rustc 1.95) *)
  n_add := F32.add; n_sub := F32.sub; n_mul := F32.mul; n_div := F32.div; n_abs := F32.abs;
  n_cmp := F32.cmp;
  n_ceil_u8 := fun x => F32.to_u8 (F32.ceil x);
  n_floor_u8 := fun x => F32.to_u8 (F32.floor x);
  n_of_u8 := F32.of_Z
|}.

(* ---------- instance 2: extended rationals, exact arithmetic ---------- *)

Inductive xq : Type := XFin (q : Q) | XPInf | XNInf | XNaN.

Definition xq_neg (a : xq) : xq :=
  match a with XFin q => XFin (- q) | XPInf => XNInf | XNInf => XPInf | XNaN => XNaN end.

Definition xq_add (a b : xq) : xq :=
  match a, b with
  | XNaN, _ | _, XNaN => XNaN
  | XFin p, XFin q => XFin (p + q)
  | XPInf, XNInf | XNInf, XPInf => XNaN
  | XPInf, _ | _, XPInf => XPInf
  | XNInf, _ | _, XNInf => XNInf
  end.

Definition xq_sub (a b : xq) : xq := xq_add a (xq_neg b).

(* sign of an extended rational: Lt negative, Eq zero, Gt positive (NaN excluded by callers) *)
Definition xq_sgn (a : xq) : comparison :=
  match a with XFin q => (q ?= 0)%Q | XPInf => Gt | XNInf => Lt | XNaN => Eq end.

Definition xq_inf_of (c : comparison) : xq :=
  match c with Gt => XPInf | Lt => XNInf | Eq => XNaN end.

Definition cmp_mul (a b : comparison) : comparison :=
  match a, b with
  | Eq, _ | _, Eq => Eq
  | Gt, c | c, Gt => c
  | Lt, Lt => Gt
  end.

Definition xq_mul (a b : xq) : xq :=
  match a, b with
  | XNaN, _ | _, XNaN => XNaN
  | XFin p, XFin q => XFin (p * q)
  | _, _ => xq_inf_of (cmp_mul (xq_sgn a) (xq_sgn b))    (* inf * 0 = NaN *)
  end.

(* there is no negative zero here: a non-zero value divided by zero takes its own sign *)
Definition xq_div (a b : xq) : xq :=
  match a, b with
  | XNaN, _ | _, XNaN => XNaN
  | XFin p, XFin q =>
      match (q ?= 0)%Q with
      | Eq => xq_inf_of (p ?= 0)%Q                        (* 0/0 = NaN, x/0 = +-inf *)
      | _ => XFin (p / q)
      end
  | XFin _, _ => XFin 0                                    (* finite / inf *)
  | _, XFin q =>
      match (q ?= 0)%Q with
      | Eq => a                                            (* inf / 0 *)
      | c => xq_inf_of (cmp_mul (xq_sgn a) c)
      end
  | _, _ => XNaN                                           (* inf / inf *)
  end.

Definition xq_cmp (a b : xq) : option comparison :=
  match a, b with
  | XNaN, _ | _, XNaN => None
  | XFin p, XFin q => Some (p ?= q)%Q
  | XPInf, XPInf | XNInf, XNInf => Some Eq
  | XPInf, _ | _, XNInf => Some Gt
  | _, XPInf | XNInf, _ => Some Lt
  end.

(* saturating conversion of an integer to a byte *)
Definition clamp (z : Z) : Z := Z.max 0 (Z.min 255 z).

Definition xq_ceil_u8 (a : xq) : Z :=
  match a with XFin q => clamp (Qceiling q) | XPInf => 255%Z | _ => 0%Z end.
Definition xq_floor_u8 (a : xq) : Z :=
  match a with XFin q => clamp (Qfloor q) | XPInf => 255%Z | _ => 0%Z end.

Definition xq_abs (a : xq) : xq :=
  match a with XFin q => XFin (Qabs q) | XPInf | XNInf => XPInf | XNaN => XNaN end.

Definition xq_ops : NumOps xq := {|
  n_zero := XFin 0; n_sum0 := XFin 0;
  n_add := xq_add; n_sub := xq_sub; n_mul := xq_mul; n_div := xq_div; n_abs := xq_abs;
  n_cmp := xq_cmp;
  n_ceil_u8 := xq_ceil_u8; n_floor_u8 := xq_floor_u8;
  n_of_u8 := fun z => XFin (inject_Z z)
|}.

Definition xq_finite (a : xq) : Prop := match a with XFin _ => True | _ => False end.

(* ---------- conditioning predicate for the binary32 computation ---------- *)

(* unit in the last place of a binary32 number (2^-149 for zeros, +inf for inf/NaN) *)
Definition f32_ulp (x : F32.t) : F32.t :=
  match x with
  | B754_finite _ _ e _ => F32.of_Z_exp 1 e
  | B754_zero _ => F32.of_Z_exp 1 (-149)
  | _ => F32.inf
  end.

(* largest magnitude among the finite cells of a row (all K columns) *)
Definition row_absmax (row : list F32.t) : F32.t :=
  fold_left (fun a x => if F32.is_finite x then F32.max a (F32.abs x) else a) row F32.zero.

(* A = sum over the rows of the largest magnitude: bounds every partial sum the code forms *)
Definition cond_A (m : list (list F32.t)) : F32.t := F32.sum_from F32.zero (map row_absmax m).

(* bound = 8 * (M + 1) * ulp(A) *)
Definition cond_bound (m : list (list F32.t)) : F32.t :=
  F32.mul (F32.of_Z (8 * (Z.of_nat (length m) + 1))) (f32_ulp (cond_A m)).

(* well conditioned: one step of the byte scale is at least 8 (M+1) ulps of the largest
   partial sum, so the rounding errors of the f32 score and offset (at most about
   2 M ulp(A)) stay below a quarter of a step.  A zero factor (constant matrix, or a
   range that underflows) also counts: every quotient is then 0/0, +inf or -inf and
   the comparison only depends on the order of the f32 sums, which is monotone. *)
Definition well_conditioned (m : list (list F32.t)) (factor : F32.t) : bool :=
  negb (F32.is_nan factor) && (F32.eq factor F32.zero || F32.le (cond_bound m) factor).
