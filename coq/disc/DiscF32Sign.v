(* The sign bit of the factor computed by to_discrete is always clear (since the repair of F14b the
   range goes through abs), so the side condition [factor_sign_clear] of the binary32 theorems holds.
   Also: the consequence clause of C08 in binary32 under the conditioning predicate. *)
From Coq Require Import ZArith Reals List Bool Lia Lra Psatz.
From Coq Require Import SpecFloat.
From Flocq Require Import Core BinarySingleNaN.
From LMBase Require Import Res ListX IEEE.
From LMDisc Require Import DiscModel DiscImplCheck DiscProofs DiscKernels DiscF32Mono DiscF32Main DiscF32Sum DiscF32Cond DiscF32Zero DiscF32End.
Import ListNotations.

Local Open Scope R_scope.

(* ---------- the sign of |max - offset| / 255 ---------- *)

Lemma c255_pos : exists mc ec Hbc, F32.of_Z 255 = (B754_finite false mc ec Hbc : f32).
Proof.
  destruct (of_Z_exact 255 ltac:(lia)) as [C1 [C2 C3]].
  destruct (F32.of_Z 255) as [sc|sc| |sc mc ec Hbc] eqn:Ec; try discriminate C2.
  - cbn [B2R] in C1. exfalso. assert (IZR 255 <> 0) by (apply not_0_IZR; lia). lra.
  - cbn [Bsign] in C3. subst sc. exists mc, ec, Hbc. reflexivity.
Qed.

Lemma div_abs_sign (V : f32) : Bsign (F32.div (F32.abs V) (F32.of_Z 255)) = false.
Proof.
  destruct c255_pos as [mc [ec [Hbc Ec]]]. rewrite Ec.
  set (c := B754_finite false mc ec Hbc : f32).
  destruct V as [sv|sv| |sv mv ev Hbv]; try reflexivity.
  change (F32.abs (B754_finite sv mv ev Hbv)) with (B754_finite false mv ev Hbv : f32).
  set (v := B754_finite false mv ev Hbv : f32).
  assert (Hc : B2R c <> 0) by (apply Rgt_not_eq; apply F2R_gt_0; cbn; lia).
  pose proof (Bdiv_correct 24 128 _ _ mode_NE v c Hc) as H.
  change (Bdiv mode_NE v c) with (F32.div v c) in H.
  destruct (Rlt_bool _ _).
  - destruct H as [_ [HF' Hs]].
    assert (Hnn : BinarySingleNaN.is_nan (F32.div v c) = false).
    { destruct (F32.div v c); try reflexivity. discriminate HF'. }
    rewrite (Hs Hnn). reflexivity.
  - apply B2SF_inf in H. rewrite H. reflexivity.
Qed.

Lemma to_discrete_factor (K : nat) (m : list (list F32.t)) (d : @dmat F32.t) :
  to_discrete f32_ops K m = Ok d ->
  exists V, d_factor d = F32.div (F32.abs V) (F32.of_Z 255).
Proof.
  unfold to_discrete, max_score. intros Hd.
  destruct (row_maxs f32_ops K m) as [ms| | |]; cbn [rbind] in Hd; try discriminate.
  destruct (row_mins f32_ops K m) as [os| | |]; cbn [rbind] in Hd; try discriminate.
  injection Hd as <-. eexists. reflexivity.
Qed.

(* the sign bit of the factor computed by to_discrete is always clear (the range goes through abs) *)
Theorem factor_sign (K : nat) (m : list (list F32.t)) (d : @dmat F32.t) :
  to_discrete f32_ops K m = Ok d -> factor_sign_clear (d_factor d) = true.
Proof.
  intros Hd. destruct (to_discrete_factor K m d Hd) as [V Ef].
  unfold factor_sign_clear, sign. rewrite Ef, div_abs_sign. reflexivity.
Qed.

(* ---------- consequence clause in binary32 under the conditioning predicate ---------- *)

Theorem f32_threshold_transfer_all (K : nat) (m : list (list F32.t)) (d : @dmat F32.t)
        (w : list nat) (real t : F32.t) (b : Z) :
  Forall (fun row => Forall (fun x => F32.is_finite x = true) (nonwild K row)) m ->
  to_discrete f32_ops K m = Ok d ->
  real_wscore f32_ops m w = Ok real ->
  disc_wscore (d_data d) w = Ok b ->
  well_conditioned m (d_factor d) = true ->
  (Z.of_nat (length m) <= 16384)%Z ->
  F32.le (cond_A m) (F32.of_Z_exp 1 126) = true ->
  F32.le t real = true ->
  (scale f32_ops d t <= b)%Z.
Proof.
  intros Hfin Hd Hreal Hb Hwc Hlen HA Hle. pose proof (factor_sign K m d Hd) as Hsc.
  pose proof (f32_main_all_factors K m d w real b Hfin Hd Hreal Hb Hwc Hsc Hlen HA) as Hm.
  unfold scale in *. exact (threshold_transfer_f32 _ _ real t b Hsc Hm Hle).
Qed.

(* ---------- the theorems of DiscF32Zero / DiscF32End without the sign hypothesis ---------- *)

Theorem f32_main_all_factors' (K : nat) (m : list (list F32.t)) (d : @dmat F32.t)
        (w : list nat) (real : F32.t) (b : Z) :
  Forall (fun row => Forall (fun x => F32.is_finite x = true) (nonwild K row)) m ->
  to_discrete f32_ops K m = Ok d ->
  real_wscore f32_ops m w = Ok real ->
  disc_wscore (d_data d) w = Ok b ->
  well_conditioned m (d_factor d) = true ->
  (Z.of_nat (length m) <= 16384)%Z ->
  F32.le (cond_A m) (F32.of_Z_exp 1 126) = true ->
  (scale f32_ops d real <= b)%Z.
Proof.
  intros Hfin Hd Hreal Hb Hwc Hlen HA.
  exact (f32_main_all_factors K m d w real b Hfin Hd Hreal Hb Hwc (factor_sign K m d Hd) Hlen HA).
Qed.

Theorem backends_overestimate_f32' (K : nat) (m : list (list F32.t)) (d : @dmat F32.t) (pads : nat -> list Z)
        (s : list nat) (a : arm) (i : nat) :
  (0 < K)%nat -> (K <= 16)%nat ->
  Forall (fun row => length row = K) m ->
  Forall (fun row => Forall (fun x => F32.is_finite x = true) (nonwild K row)) m ->
  to_discrete f32_ops K m = Ok d ->
  (forall i, 16 <= K + length (pads i))%nat ->
  Forall (fun v => (v < K)%nat) s ->
  (1 <= length m)%nat -> (i + length m <= length s)%nat ->
  well_conditioned m (d_factor d) = true ->
  (Z.of_nat (length m) <= 16384)%Z ->
  F32.le (cond_A m) (F32.of_Z_exp 1 126) = true ->
  exists sc b real,
    score_u8 a (d_data d) pads (striped K 32 (configure_wrap_of (length m)) s) = Ok sc /\
    sc_index sc i = Ok b /\
    disc_score (d_data d) (striped K 32 (configure_wrap_of (length m)) s) i = Ok b /\
    real_score f32_ops m (striped K 32 (configure_wrap_of (length m)) s) i = Ok real /\
    (scale f32_ops d real <= b)%Z.
Proof.
  intros HK HK16 Hm Hfin Hd Hp Hs HM Hi Hwc Hlen HA.
  exact (backends_overestimate_f32 K m d pads s a i HK HK16 Hm Hfin Hd Hp Hs HM Hi Hwc (factor_sign K m d Hd) Hlen HA).
Qed.
