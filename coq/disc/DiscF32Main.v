(* The main clause of C08 in binary32 under a sufficient predicate on the two sums.

   scale(real) = floor(rnd((real (-) offset) / f))     cells c_i = ceil(rnd((x_i (-) o_i) / f))
   ((-) and rnd are binary32 operations / roundings.)

   PARTIAL result: the clause is proved from
     sum_error_small:  real (-) offset  <=  sum_i (x_i (-) o_i)  +  f / 4      (over the reals)
   i.e. "the rounding error of the score sum, of the offset sum and of their difference is at
   most a quarter of one step of the byte scale".  What is missing for the statement under
   [well_conditioned] is the error analysis that derives this bound from the predicate (two
   left-to-right sums of M terms, each with relative error 2^-24 per addition).

   The proof needs no error analysis, only monotone rounding and exactly representable
   integers: a cell c_i < 255 bounds its quotient by c_i + 2^-16 (a binary32 number), the sum of
   the quotients by C + M 2^-16, the quotient of the total by C + 1/2 (a binary32 number), whose
   floor is C. *)
From Coq Require Import ZArith Reals List Bool Lia Lra Psatz.
From Coq Require Import SpecFloat.
From Flocq Require Import Core BinarySingleNaN.
From LMBase Require Import Res ListX IEEE.
From LMDisc Require Import DiscModel DiscImplCheck DiscProofs DiscF32Mono.
Import ListNotations.

Local Open Scope R_scope.

Local Instance vexp32' : Valid_exp fexp32 := fexp_correct 24 128 Hprec32.
Local Instance vrnd32' : Valid_rnd (round_mode mode_NE) := valid_rnd_round_mode mode_NE.

(* ---------- representable numbers ---------- *)

Lemma fmt_dyadic (m e : Z) : (Z.abs m < 2 ^ 24)%Z -> (-149 <= e)%Z ->
  generic_format radix2 fexp32 (F2R (Float radix2 m e)).
Proof.
  intros Hm He. apply (generic_format_FLT radix2 (-149) 24).
  apply FLT_spec with (Float radix2 m e); [reflexivity|exact Hm|exact He].
Qed.

Lemma rnd32_id x : generic_format radix2 fexp32 x -> rnd32 x = x.
Proof. intros H. apply round_generic; [exact vrnd32'|exact H]. Qed.

(* c + 2^-16 for a byte c *)
Lemma fmt_byte_eps (c : Z) : (0 <= c <= 255)%Z ->
  generic_format radix2 fexp32 (IZR c + / 65536).
Proof.
  intros Hc.
  replace (IZR c + / 65536) with (F2R (Float radix2 (c * 65536 + 1) (-16))).
  - apply fmt_dyadic; lia.
  - unfold F2R. cbn [Fnum Fexp]. rewrite plus_IZR, mult_IZR.
    change (bpow radix2 (-16)) with (/ 65536). field.
Qed.

(* C + 1/2 for an integer below 2^22 *)
Lemma fmt_half (C : Z) : (0 <= C < 2 ^ 22)%Z ->
  generic_format radix2 fexp32 (IZR C + / 2).
Proof.
  intros HC.
  replace (IZR C + / 2) with (F2R (Float radix2 (2 * C + 1) (-1))).
  - apply fmt_dyadic; lia.
  - unfold F2R. cbn [Fnum Fexp]. rewrite plus_IZR, mult_IZR.
    change (bpow radix2 (-1)) with (/ 2). field.
Qed.

(* ---------- ceil and the saturating cast ---------- *)

Definition cbyte (q : f32) : Z := F32.to_u8 (F32.ceil q).

Lemma cbyte_range q : (0 <= cbyte q <= 255)%Z.
Proof.
  unfold cbyte, F32.to_u8, to_u8, cast_sat.
  destruct (F32.ceil q) as [s|s| |s m e H]; try destruct s; lia.
Qed.

Lemma cbyte_fin (q : f32) : fin q = true -> cbyte q = clamp (Zceil (B2R q)).
Proof.
  intros Hq. unfold cbyte, F32.ceil, fceil.
  destruct (Bnearbyint_correct 24 128 Hmax32 mode_UP q) as [HR [HF _]].
  rewrite to_u8_fin by (rewrite HF; exact Hq). f_equal.
  apply eq_IZR. rewrite Btrunc_correct, HR. rewrite !round_FIX_IZR. cbn [round_mode].
  rewrite Ztrunc_IZR. reflexivity. exact Hmax32.
Qed.

Lemma disc_cell_f32 (f o x : F32.t) : disc_cell f32_ops f o x = cbyte (F32.div (F32.sub x o) f).
Proof. reflexivity. Qed.

Lemma scale_with_f32 (f o s : F32.t) : scale_with f32_ops f o s = byte (F32.div (F32.sub s o) f).
Proof. reflexivity. Qed.

(* a cell below 255 bounds its exact quotient *)
Lemma cell_bound (d f : f32) : fin d = true -> fin f = true -> 0 < B2R f ->
  (cbyte (F32.div d f) < 255)%Z ->
  B2R d / B2R f <= IZR (cbyte (F32.div d f)) + / 65536.
Proof.
  intros Hd Hf Hpos Hc.
  pose proof (cbyte_range (F32.div d f)) as Hr.
  pose proof (div_rspec d f Hd Hf Hpos) as Hs. unfold rspec in Hs.
  set (y := B2R d / B2R f) in *. set (q := F32.div d f) in *.
  destruct (Rlt_bool (Rabs (rnd32 y)) big).
  - destruct Hs as [HR HF].
    rewrite (cbyte_fin q HF) in Hc, Hr |- *. rewrite HR in Hc, Hr |- *.
    set (z := Zceil (rnd32 y)) in *.
    assert (Hz : (z <= clamp z)%Z) by (unfold clamp in *; lia).
    assert (Hrz : rnd32 y <= IZR (clamp z)).
    { apply Rle_trans with (IZR z); [apply Zceil_ub|apply IZR_le; exact Hz]. }
    destruct (Rle_or_lt y (IZR (clamp z) + / 65536)) as [Hle|Hgt]; [exact Hle|exfalso].
    assert (Hfmt : generic_format radix2 fexp32 (IZR (clamp z) + / 65536)) by (apply fmt_byte_eps; lia).
    pose proof (rnd32_le _ _ (Rlt_le _ _ Hgt)) as Hm. rewrite (rnd32_id _ Hfmt) in Hm. lra.
  - destruct Hs as [Hq [Hs1 Hs2]]. destruct (Bsign d).
    + specialize (Hs1 eq_refl). assert (0 <= IZR (cbyte q)) by (apply IZR_le; lia). lra.
    + exfalso. rewrite Hq in Hc. vm_compute in Hc. discriminate Hc.
Qed.

(* ---------- sums over the window ---------- *)

Definition rsumd (ds : list f32) : R := fold_right (fun d a => B2R d + a) 0 ds.

Lemma cells_bound (f : f32) (ds : list f32) : fin f = true -> 0 < B2R f ->
  Forall (fun d => fin d = true) ds ->
  Forall (fun c => (c < 255)%Z) (map (fun d => cbyte (F32.div d f)) ds) ->
  rsumd ds / B2R f <= IZR (zsum (map (fun d => cbyte (F32.div d f)) ds)) + INR (length ds) * / 65536.
Proof.
  intros Hf Hpos Hfin Hc. induction ds as [|d ds IH].
  - cbn. unfold Rdiv. lra.
  - inversion Hfin as [|? ? Hd Hds]; subst. cbn [map] in Hc. inversion Hc as [|? ? Hc1 Hc2]; subst.
    specialize (IH Hds Hc2). pose proof (cell_bound d f Hd Hf Hpos Hc1) as H1.
    cbn [rsumd fold_right map length]. fold (rsumd ds). rewrite zsum_cons, plus_IZR, S_INR.
    unfold Rdiv in *. lra.
Qed.

Lemma cells_nonneg (f : f32) (ds : list f32) :
  Forall (fun b => (0 <= b)%Z) (map (fun d => cbyte (F32.div d f)) ds).
Proof. induction ds; constructor; [apply cbyte_range|assumption]. Qed.

Lemma zsum_le_254 (l : list Z) : Forall (fun c => (c < 255)%Z) l -> (zsum l <= 254 * Z.of_nat (length l))%Z.
Proof. induction 1 as [|c l Hc Hl IH]; [cbn; lia|rewrite zsum_cons; cbn [length]; lia]. Qed.

Lemma big_gt_2p23 : IZR (2 ^ 23) < big.
Proof. change (IZR (2 ^ 23)) with (bpow radix2 23). apply bpow_lt. lia. Qed.

(* the core: the byte image of a total that is bounded by the sum of the parts plus f/4 *)
Lemma main_core (f D : f32) (ds : list f32) :
  fin f = true -> 0 < B2R f -> (Z.of_nat (length ds) <= 16384)%Z ->
  fin D = true -> Forall (fun d => fin d = true) ds ->
  B2R D <= rsumd ds + B2R f / 4 ->
  (byte (F32.div D f) <= satsum (map (fun d => cbyte (F32.div d f)) ds))%Z.
Proof.
  intros Hf Hpos Hlen HD Hds Herr.
  set (cells := map (fun d => cbyte (F32.div d f)) ds).
  pose proof (cells_nonneg f ds) as Hnn. fold cells in Hnn.
  destruct (in_dec Z.eq_dec 255%Z cells) as [Hin|Hnin].
  - rewrite (satsum_has_255 cells Hnn Hin). apply byte_range.
  - assert (Hlt : Forall (fun c => (c < 255)%Z) cells).
    { apply Forall_forall. intros c Hc. unfold cells in Hc. apply in_map_iff in Hc.
      destruct Hc as [d [<- Hd]]. pose proof (cbyte_range (F32.div d f)) as Hr.
      assert (Hne : cbyte (F32.div d f) <> 255%Z).
      { intros E. apply Hnin. unfold cells. apply in_map_iff. exists d. split; assumption. }
      lia. }
    pose proof (cells_bound f ds Hf Hpos Hds Hlt) as Hb. fold cells in Hb.
    set (C := zsum cells) in *.
    assert (HC0 : (0 <= C)%Z) by (apply zsum_nonneg; exact Hnn).
    assert (HC1 : (C < 2 ^ 22)%Z).
    { pose proof (zsum_le_254 cells Hlt) as H.
      assert (Hl : Z.of_nat (length cells) = Z.of_nat (length ds)) by (unfold cells; rewrite map_length; reflexivity).
      change (2 ^ 22)%Z with 4194304%Z. unfold C. lia. }
    assert (Hn : INR (length ds) <= 16384).
    { rewrite INR_IZR_INZ. apply IZR_le. exact Hlen. }
    set (y := B2R D / B2R f).
    pose proof (Rinv_0_lt_compat _ Hpos) as Hinv.
    assert (Hy : y <= IZR C + / 2).
    { unfold y, Rdiv in *.
      assert (H1 : B2R D * / B2R f <= rsumd ds * / B2R f + / 4).
      { apply Rle_trans with ((rsumd ds + B2R f * / 4) * / B2R f).
        - apply Rmult_le_compat_r; [lra|]. unfold Rdiv in Herr. exact Herr.
        - right. field. lra. }
      lra. }
    pose proof (fmt_half C (conj HC0 HC1)) as Hfmt.
    pose proof (rnd32_le _ _ Hy) as Hry. rewrite (rnd32_id _ Hfmt) in Hry.
    rewrite (satsum_spec cells Hnn). fold C.
    pose proof (div_rspec D f HD Hf Hpos) as Hs. unfold rspec in Hs. fold y in Hs.
    destruct (Rlt_bool_spec (Rabs (rnd32 y)) big) as [Hin|Hov].
    + destruct Hs as [HR HF]. rewrite (byte_fin _ HF), HR.
      apply core_arith_fin; [exact HC0|].
      assert (Hfl : IZR (Zfloor (rnd32 y)) < IZR (C + 1)).
      { rewrite plus_IZR. pose proof (Zfloor_lb (rnd32 y)). lra. }
      apply lt_IZR in Hfl. lia.
    + destruct Hs as [Hq [Hs1 Hs2]]. rewrite Hq. destruct (Bsign D).
      * change (byte (B754_infinity true)) with 0%Z. lia.
      * exfalso. specialize (Hs2 eq_refl).
        pose proof (rnd32_le 0 y Hs2) as H0. rewrite rnd32_0 in H0.
        rewrite Rabs_pos_eq in Hov by exact H0.
        pose proof big_gt_2p23. assert (IZR C < IZR (2 ^ 22)) by (apply IZR_lt; exact HC1).
        assert (IZR (2 ^ 22) + / 2 < IZR (2 ^ 23)) by (change (2 ^ 22)%Z with 4194304%Z; change (2 ^ 23)%Z with 8388608%Z; lra).
        lra.
Qed.

(* ---------- the statement over the model's functions ---------- *)

(* the sufficient predicate: D = real (-) offset is NaN or -inf (its byte image is 0), or it is
   finite, all per-cell differences are finite, and it exceeds their exact sum by at most f/4 *)
Definition sum_error_small (f D : F32.t) (ps : list (F32.t * F32.t)) : Prop :=
  D = B754_nan \/ D = B754_infinity true \/
  (fin D = true /\
   Forall (fun p => fin (F32.sub (fst p) (snd p)) = true) ps /\
   B2R D <= rsumd (map (fun p => F32.sub (fst p) (snd p)) ps) + B2R f / 4).

Theorem f32_main_partial (f offset real : F32.t) (ps : list (F32.t * F32.t)) :
  fin f = true -> 0 < B2R f -> (Z.of_nat (length ps) <= 16384)%Z ->
  sum_error_small f (F32.sub real offset) ps ->
  (scale_with f32_ops f offset real
   <= satsum (map (fun p => disc_cell f32_ops f (snd p) (fst p)) ps))%Z.
Proof.
  intros Hf Hpos Hlen Hsmall. rewrite scale_with_f32.
  assert (Hnn : Forall (fun b => (0 <= b)%Z) (map (fun p => disc_cell f32_ops f (snd p) (fst p)) ps)).
  { apply Forall_forall. intros c Hc. apply in_map_iff in Hc. destruct Hc as [p [<- _]].
    rewrite disc_cell_f32. apply cbyte_range. }
  assert (Hninf : byte (F32.div (B754_infinity true) f) = 0%Z).
  { destruct f as [sf|sf| |sf mf ef Hf']; try discriminate Hf.
    - cbn [B2R] in Hpos. lra.
    - destruct sf; [|reflexivity]. exfalso.
      assert (B2R (B754_finite true mf ef Hf' : f32) < 0) by (apply F2R_lt_0; cbn; lia). lra. }
  destruct Hsmall as [E|[E|[HD [Hds Herr]]]].
  - rewrite E. assert (En : F32.div B754_nan f = B754_nan) by (destruct f; reflexivity).
    rewrite En. change (byte B754_nan) with 0%Z. apply (satsum_range _ Hnn).
  - rewrite E, Hninf. apply (satsum_range _ Hnn).
  - pose proof (main_core f (F32.sub real offset) (map (fun p => F32.sub (fst p) (snd p)) ps)
                  Hf Hpos) as H.
    rewrite map_length in H. specialize (H Hlen HD).
    rewrite map_map in H. apply H; [|exact Herr].
    apply Forall_forall. intros d Hd. apply in_map_iff in Hd. destruct Hd as [p [<- Hp]].
    rewrite Forall_forall in Hds. apply Hds. exact Hp.
Qed.

(* the same for a window of a matrix discretised by the model's to_discrete *)
Theorem f32_main_partial_model (K : nat) (m : list (list F32.t)) (d : @dmat F32.t)
        (w : list nat) (xs : list F32.t) (real : F32.t) (b : Z) :
  to_discrete f32_ops K m = Ok d ->
  pick m w = Some xs ->                               (* the cells of the window *)
  real_wscore f32_ops m w = Ok real ->
  disc_wscore (d_data d) w = Ok b ->
  fin (d_factor d) = true -> 0 < B2R (d_factor d) -> (Z.of_nat (length m) <= 16384)%Z ->
  sum_error_small (d_factor d) (F32.sub real (d_offset d)) (combine xs (d_offsets d)) ->
  (scale f32_ops d real <= b)%Z.
Proof.
  intros Hd Hp Hreal Hb Hf Hpos Hlen Hsmall.
  unfold to_discrete in Hd.
  destruct (max_score f32_ops K m) as [mx| | |] eqn:Hmx; cbn [rbind] in Hd; try discriminate.
  destruct (row_mins f32_ops K m) as [os| | |] eqn:Hos; cbn [rbind] in Hd; try discriminate.
  inversion Hd; subst d; clear Hd. cbn [d_data d_factor d_offsets d_offset] in *.
  set (f := F32.div _ _) in *.
  pose proof (map_res_length _ _ _ Hos) as Hlo.
  pose proof (pick_disc_rows f32_ops f m os w xs Hlo Hp) as Hpd.
  unfold disc_wscore, wscore in Hb.
  destruct (wscore_from_pick sat_add _ _ _ _ Hb) as [cs [Hcs Hbs]]. rewrite Hpd in Hcs.
  inversion Hcs; subst cs; clear Hcs. subst b. unfold scale. cbn [d_factor d_offset].
  apply f32_main_partial; try assumption.
  rewrite combine_length, (pick_length m w xs Hp), Hlo. lia.
Qed.
