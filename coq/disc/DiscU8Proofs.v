(* The u8 SIMD kernels GENERATED from the source (GenDiscU8.v, translate/disc_u8.py):
   - the generated AVX2 kernel + wrapper IS the hand-written model score_rows_avx2 of DiscModel.v,
     and the generated dispatcher table IS score_rows_dispatch (so every theorem about those is a
     theorem about the source as translated);
   - the generated NEON kernel + wrapper equals the generic kernel for any multiple of 16 columns
     and every row range, or both panic;
   - the NEON kernel as it was before /repo commit 8ba350b (wrapping `vaddq_u8`) under-estimates.
   Every proof starts from `gen_* = <expected>` by reflexivity: a source change that alters the
   translated statements (a wrapping add, another lookup, a missing guard, another arm) breaks it. *)
From Coq Require Import List ZArith Lia Bool Arith.
From LMBase Require Import Res ListX.
From LMDisc Require Import DiscModel DiscProofs DiscKernels DiscU8Kernel GenDiscU8.
Import ListNotations.
Local Open Scope nat_scope.

(* ---------- what the translator is expected to produce ---------- *)

Definition guards_expected : list guard := [GWrap; GShort; GRange; GResize].

Definition avx2_u8_expected : vkernel := {|
  vk_lanes := 32; vk_blocked := false; vk_init := 0%Z; vk_acc := 0;
  vk_body := [VLoadSeq 1; VLoadTable 2 true; VLookup LShuffle256 3 2 1; VAdd AddSat 0 0 3];
  vk_guards := guards_expected |}.

Definition neon_u8_with (add : add_kind) : vkernel := {|
  vk_lanes := 16; vk_blocked := true; vk_init := 0%Z; vk_acc := 0;
  vk_body := [VLoadSeq 1; VLoadTable 2 false; VLookup LTbl1 3 2 1; VAdd add 0 0 3];
  vk_guards := guards_expected |}.

(* the kernel of neon.rs before commit 8ba350b: `s = vaddq_u8(s, y)` *)
Definition neon_u8_old : vkernel := neon_u8_with AddWrap.

Lemma gen_avx2_u8_expected : gen_avx2_u8 = avx2_u8_expected.
Proof. reflexivity. Qed.

Lemma gen_neon_u8_expected : gen_neon_u8 = neon_u8_with AddSat.
Proof. reflexivity. Qed.

Lemma gen_dispatch_u8_x86_expected (a : arm) :
  gen_dispatch_u8_x86 (arm4_of a) = match a with AAvx2 => UKAvx2Shuffle | _ => UKGeneric end.
Proof. destruct a; reflexivity. Qed.

Lemma gen_dispatch_u8_arm_expected (a : arm4) :
  gen_dispatch_u8_arm a = match a with D4Neon => UKNeon | _ => UKGeneric end.
Proof. destruct a; reflexivity. Qed.

Lemma gen_pipeline_u8_expected (a : arm4) :
  gen_pipeline_u8 a = match a with D4Avx2 => UKAvx2Shuffle | D4Neon => UKNeon | _ => UKGeneric end.
Proof. destruct a; reflexivity. Qed.

(* ---------- the wrapper ---------- *)

Lemma run_guards_expected (M : nat) (s : sseq) (lo hi : nat) (kernel : unit -> res (sscores Z)) :
  run_guards guards_expected M s lo hi false kernel =
  if M =? 0 then Panic P_UNDERFLOW else
  if ss_wrap s <? M - 1 then Panic P_WRAP else
  if (ss_len s <? M) || (hi <=? lo) then Ok {| sc_rows := []; sc_max := 0 |} else
  if length (ss_rows s) <? hi + M - 1 then Panic P_ROWS else kernel tt.
Proof.
  unfold guards_expected. cbn [run_guards].
  destruct (M =? 0); [reflexivity|]. destruct (ss_wrap s <? M - 1); [reflexivity|].
  destruct ((ss_len s <? M) || (hi <=? lo)); [reflexivity|].
  destruct (length (ss_rows s) <? hi + M - 1); reflexivity.
Qed.

(* ---------- the motif loop as a recursion on the accumulator ---------- *)

Fixpoint acc_row (step : list nat -> list Z -> list Z -> list Z) (lanes : nat) (s : list Z)
         (mem : list (list Z)) (seqrows : list (list nat)) (i off : nat) : list Z :=
  match mem with
  | [] => s
  | prow :: rest =>
      acc_row step lanes (step (firstn lanes (skipn off (nth i seqrows []))) prow s) rest seqrows (S i) off
  end.

Lemma vk_row_from_acc (k : vkernel) (step : list nat -> list Z -> list Z -> list Z) :
  (forall x prow r, run_body (vk_body k) x prow r (vk_acc k) = step x prow (r (vk_acc k))) ->
  forall mem r seqrows i off,
    vk_row_from k r mem seqrows i off (vk_acc k) = acc_row step (vk_lanes k) (r (vk_acc k)) mem seqrows i off.
Proof.
  intros Hstep. induction mem as [|prow mem IH]; intros r seqrows i off; cbn [vk_row_from acc_row]; [reflexivity|].
  rewrite IH. unfold rset at 1. rewrite Nat.eqb_refl, Hstep. reflexivity.
Qed.

Definition avx2_step (x : list nat) (prow s : list Z) : list Z :=
  mm256_adds_epu8 s (mm256_shuffle_epi8 (mm256_broadcastsi128 (mm_load_si128 prow)) (map Z.of_nat x)).

Definition neon_step (add : add_kind) (x : list nat) (prow s : list Z) : list Z :=
  zip_with (match add with AddSat => sat_add | AddWrap => wrap_add end) s
           (vqtbl1q_u8 (mm_load_si128 prow) (map Z.of_nat x)).

Lemma avx2_body_step x prow r :
  run_body (vk_body avx2_u8_expected) x prow r (vk_acc avx2_u8_expected) = avx2_step x prow (r (vk_acc avx2_u8_expected)).
Proof. reflexivity. Qed.

Lemma neon_body_step add x prow r :
  run_body (vk_body (neon_u8_with add)) x prow r (vk_acc (neon_u8_with add)) = neon_step add x prow (r (vk_acc (neon_u8_with add))).
Proof. destruct add; reflexivity. Qed.

Lemma vk_row_avx2 mem seqrows i off :
  vk_row avx2_u8_expected mem seqrows i off = acc_row avx2_step 32 mm256_setzero mem seqrows i off.
Proof. unfold vk_row. rewrite (vk_row_from_acc avx2_u8_expected avx2_step avx2_body_step). reflexivity. Qed.

Lemma vk_row_neon add mem seqrows i off :
  vk_row (neon_u8_with add) mem seqrows i off = acc_row (neon_step add) 16 (repeat 0%Z 16) mem seqrows i off.
Proof. unfold vk_row. rewrite (vk_row_from_acc (neon_u8_with add) (neon_step add) (neon_body_step add)). reflexivity. Qed.

(* ---------- the generated AVX2 kernel is the model of DiscModel.v ---------- *)

Lemma firstn_all_len {A} (l : list A) n : length l = n \/ l = [] -> firstn n l = l.
Proof. intros [<-| ->]; [apply firstn_all|destruct n; reflexivity]. Qed.

Lemma acc_row_avx2 (seqrows : list (list nat)) : Forall (fun x => length x = 32) seqrows ->
  forall mem s i, acc_row avx2_step 32 s mem seqrows i 0 = avx2_row s mem seqrows i.
Proof.
  intros Hrows. induction mem as [|prow mem IH]; intros s i; cbn [acc_row avx2_row]; [reflexivity|].
  rewrite IH. f_equal. unfold avx2_step. cbn [skipn]. rewrite firstn_all_len; [reflexivity|].
  destruct (nth_in_or_default i seqrows []) as [Hin|Hd]; [left|right; exact Hd].
  rewrite Forall_forall in Hrows. apply Hrows. exact Hin.
Qed.

Theorem avx2_gen_is_model (dm : list (list Z)) (pads : nat -> list Z) (s : sseq) (lo hi : nat) :
  Forall (fun x => length x = 32) (ss_rows s) ->
  vk_score_rows gen_avx2_u8 32 dm pads s lo hi = score_rows_avx2 dm pads s lo hi.
Proof.
  intros Hrows. rewrite gen_avx2_u8_expected. unfold vk_score_rows, score_rows_avx2.
  change (vk_guards avx2_u8_expected) with guards_expected. rewrite run_guards_expected.
  destruct (length dm =? 0); [reflexivity|]. destruct (ss_wrap s <? length dm - 1); [reflexivity|].
  destruct ((ss_len s <? length dm) || (hi <=? lo)); [reflexivity|].
  destruct (length (ss_rows s) <? hi + length dm - 1); [reflexivity|].
  unfold vk_kernel. f_equal. f_equal. apply map_ext. intros i.
  unfold vk_out_row. cbn [vk_blocked avx2_u8_expected]. rewrite vk_row_avx2. apply acc_row_avx2. exact Hrows.
Qed.

Lemma sseq_ok_len32 K s : sseq_ok K s -> Forall (fun x => length x = 32) (ss_rows s).
Proof. unfold sseq_ok. intros H. eapply Forall_impl; [|exact H]. intros x [Hx _]. exact Hx. Qed.

(* the dispatcher of the source, x86 hosts, is score_rows_dispatch *)
Theorem dispatch_gen_is_model (a : arm) (dm : list (list Z)) (pads : nat -> list Z) (s : sseq) (lo hi : nat) :
  Forall (fun x => length x = 32) (ss_rows s) ->
  run_u8_kernel gen_avx2_u8 gen_neon_u8 (gen_dispatch_u8_x86 (arm4_of a)) 32 dm pads s lo hi
  = score_rows_dispatch a dm pads s lo hi.
Proof.
  intros Hrows. rewrite gen_dispatch_u8_x86_expected. destruct a; cbn [run_u8_kernel score_rows_dispatch]; try reflexivity.
  apply avx2_gen_is_model. exact Hrows.
Qed.

(* AVX2 = generic and the agreement of the arms, for the kernels and the table as generated *)
Theorem avx2_gen_eq_generic (K : nat) (dm : list (list Z)) (pads : nat -> list Z) (s : sseq) (lo hi : nat)
        (sc : sscores Z) :
  K <= 16 -> Forall (fun row => length row = K) dm -> (forall i, 16 <= K + length (pads i)) -> sseq_ok K s ->
  vk_score_rows gen_avx2_u8 32 dm pads s lo hi = Ok sc ->
  score_rows_generic sat_add 0%Z 32 dm s lo hi = Ok sc.
Proof.
  intros HK Hdm Hp Hs H. rewrite (avx2_gen_is_model dm pads s lo hi (sseq_ok_len32 K s Hs)) in H.
  exact (avx2_eq_generic K dm pads s lo hi sc HK Hdm Hp Hs H).
Qed.

Theorem dispatch_gen_arms_agree (K : nat) (dm : list (list Z)) (pads : nat -> list Z) (s : sseq) (lo hi : nat)
        (a : arm) (sc : sscores Z) :
  K <= 16 -> Forall (fun row => length row = K) dm -> (forall i, 16 <= K + length (pads i)) -> sseq_ok K s ->
  run_u8_kernel gen_avx2_u8 gen_neon_u8 (gen_dispatch_u8_x86 (arm4_of a)) 32 dm pads s lo hi = Ok sc ->
  score_rows_generic sat_add 0%Z 32 dm s lo hi = Ok sc.
Proof.
  intros HK Hdm Hp Hs H. rewrite (dispatch_gen_is_model a dm pads s lo hi (sseq_ok_len32 K s Hs)) in H.
  exact (dispatch_arms_agree K dm pads s lo hi a sc HK Hdm Hp Hs H).
Qed.

(* ---------- NEON: the table lookup ---------- *)

Lemma tbl_lookup (K : nat) (prow drow : list Z) (x : list nat) :
  K <= 16 -> mem_ok K prow drow -> Forall (fun v => v < K) x ->
  vqtbl1q_u8 (mm_load_si128 prow) (map Z.of_nat x) = map (fun sym => nth sym drow 0%Z) x.
Proof.
  intros HK [Hlen [pad [Hp H16]]] Hx. unfold vqtbl1q_u8, mm_load_si128. rewrite map_map.
  apply map_ext_in. intros sym Hsym. rewrite Forall_forall in Hx. specialize (Hx sym Hsym).
  destruct (Z.leb_spec 16 (Z.of_nat sym)) as [Hge|_]; [lia|].
  rewrite Nat2Z.id. rewrite nth_firstn_lt by lia. rewrite Hp. apply app_nth1. lia.
Qed.

Lemma nth_skipn_add {A} (l : list A) : forall off c d, nth c (skipn off l) d = nth (off + c) l d.
Proof.
  induction l as [|a l IH]; intros [|off] c d; cbn [skipn plus]; try reflexivity.
  - destruct c; reflexivity.
  - apply IH.
Qed.

Lemma firstn_skipn_length {A} (l : list A) n off : off + n <= length l -> length (firstn n (skipn off l)) = n.
Proof. intros H. rewrite firstn_length, skipn_length. lia. Qed.

(* sequence rows r .. r+n-1 exist, have at least off + 16 symbols, all below K *)
Definition seq_rows_okC (K : nat) (seqrows : list (list nat)) (r n off : nat) : Prop :=
  forall j, j < n -> exists x, nth_error seqrows (r + j) = Some x /\ off + 16 <= length x /\ Forall (fun v => v < K) x.

Lemma In_firstn_u8 {A} (n : nat) : forall (l : list A) x, In x (firstn n l) -> In x l.
Proof.
  induction n as [|n IH]; intros l x H; [destruct H|].
  destruct l as [|y l]; [destruct H|]. cbn [firstn] in H. destruct H as [->|H]; [left; reflexivity|right; apply IH; exact H].
Qed.

Lemma In_skipn_u8 {A} (l : list A) : forall off a, In a (skipn off l) -> In a l.
Proof.
  induction l as [|b l IH]; intros off a Ha.
  - destruct off; exact Ha.
  - destruct off; [exact Ha|right; apply (IH off); exact Ha].
Qed.

Lemma Forall_firstn_skipn {A} (P : A -> Prop) (l : list A) n off : Forall P l -> Forall P (firstn n (skipn off l)).
Proof.
  intros H. apply Forall_forall. intros a Ha. rewrite Forall_forall in H. apply H.
  apply (In_firstn_u8 n) in Ha. exact (In_skipn_u8 l off a Ha).
Qed.

Lemma neon_row_length (K : nat) : K <= 16 ->
  forall (dm mem : list (list Z)), Forall2 (mem_ok K) mem dm ->
  forall (s : list Z) (seqrows : list (list nat)) (i off : nat),
    length s = 16 -> seq_rows_okC K seqrows i (length dm) off ->
    length (acc_row (neon_step AddSat) 16 s mem seqrows i off) = 16.
Proof.
  intros HK dm mem Hmem. induction Hmem as [|prow drow mem dm Hok Hmem IH];
    intros s seqrows i off Hs Hrows; cbn [acc_row]; [exact Hs|].
  destruct (Hrows 0 (Nat.lt_0_succ _)) as [x [Hx [Hlx Hsym]]]. rewrite Nat.add_0_r in Hx.
  rewrite (nth_error_nth seqrows i [] Hx).
  apply IH.
  - unfold neon_step. rewrite zip_with_length; [exact Hs|].
    unfold vqtbl1q_u8. rewrite !map_length, firstn_skipn_length by exact Hlx. exact Hs.
  - intros j Hj. replace (S i + j) with (i + S j) by lia. apply Hrows. cbn. lia.
Qed.

Lemma neon_row_cell (K : nat) : K <= 16 ->
  forall (dm mem : list (list Z)), Forall2 (mem_ok K) mem dm ->
  forall (s : list Z) (seqrows : list (list nat)) (i off c : nat),
    length s = 16 -> c < 16 -> seq_rows_okC K seqrows i (length dm) off ->
    cell_from sat_add (nth c s 0%Z) dm seqrows i (off + c)
    = Ok (nth c (acc_row (neon_step AddSat) 16 s mem seqrows i off) 0%Z).
Proof.
  intros HK dm mem Hmem. induction Hmem as [|prow drow mem dm Hok Hmem IH];
    intros s seqrows i off c Hs Hc Hrows; cbn [cell_from acc_row]; [reflexivity|].
  destruct (Hrows 0 (Nat.lt_0_succ _)) as [x [Hx [Hlx Hsym]]]. rewrite Nat.add_0_r in Hx.
  unfold nth_res at 1. rewrite Hx. cbn [rbind].
  unfold nth_res at 1. rewrite (nth_error_Some_nth x (off + c) 0) by lia. cbn [rbind].
  assert (Hsc : nth (off + c) x 0 < K).
  { rewrite Forall_forall in Hsym. apply Hsym. apply nth_In. lia. }
  destruct Hok as [Hld Hpad].
  unfold nth_res at 1. rewrite (nth_error_Some_nth drow (nth (off + c) x 0) 0%Z) by lia. cbn [rbind].
  rewrite (nth_error_nth seqrows i [] Hx).
  set (xb := firstn 16 (skipn off x)).
  assert (Hlxb : length xb = 16) by (unfold xb; apply firstn_skipn_length; exact Hlx).
  assert (Hsxb : Forall (fun v => v < K) xb) by (unfold xb; apply Forall_firstn_skipn; exact Hsym).
  change (neon_step AddSat xb prow s) with (zip_with sat_add s (vqtbl1q_u8 (mm_load_si128 prow) (map Z.of_nat xb))).
  rewrite (tbl_lookup K prow drow xb HK (conj Hld Hpad) Hsxb).
  set (y := map (fun sym => nth sym drow 0%Z) xb).
  assert (Hly : length y = 16) by (unfold y; rewrite map_length; exact Hlxb).
  assert (Hs' : length (zip_with sat_add s y) = 16) by (rewrite zip_with_length; lia).
  rewrite <- (IH (zip_with sat_add s y) seqrows (S i) off c Hs' Hc).
  - f_equal. rewrite (zip_with_nth sat_add s y c 0%Z 0%Z 0%Z) by lia.
    f_equal. unfold y.
    rewrite (nth_indep (map (fun sym => nth sym drow 0%Z) xb) 0%Z ((fun sym => nth sym drow 0%Z) 0))
      by (rewrite map_length; lia).
    rewrite (map_nth (fun sym => nth sym drow 0%Z) xb 0 c). f_equal.
    unfold xb. rewrite nth_firstn_lt by exact Hc. symmetry. apply nth_skipn_add.
  - intros j Hj. replace (S i + j) with (i + S j) by lia. apply Hrows. cbn. lia.
Qed.

(* ---------- NEON: a whole output row ---------- *)

Lemma concat_map_seq_nth {A} (n : nat) (f : nat -> list A) (d : A) : forall q st b c,
  (forall b', b' < q -> length (f (st + b')) = n) -> b < q -> c < n ->
  nth (b * n + c) (concat (map f (seq st q))) d = nth c (f (st + b)) d.
Proof.
  induction q as [|q IH]; intros st b c Hlen Hb Hc; [lia|]. cbn [seq map concat].
  pose proof (Hlen 0 (Nat.lt_0_succ _)) as H0. rewrite Nat.add_0_r in H0.
  destruct b as [|b].
  - cbn [Nat.mul plus]. rewrite Nat.add_0_r. apply app_nth1. lia.
  - rewrite app_nth2 by (rewrite H0; cbn [Nat.mul]; lia). rewrite H0.
    replace (S b * n + c - n) with (b * n + c) by (cbn [Nat.mul]; lia).
    rewrite (IH (S st) b c); [f_equal; f_equal; lia| |lia|exact Hc].
    intros b' Hb'. replace (S st + b') with (st + S b') by lia. apply Hlen. lia.
Qed.

Lemma concat_map_seq_length {A} (n : nat) (f : nat -> list A) : forall q st,
  (forall b', b' < q -> length (f (st + b')) = n) -> length (concat (map f (seq st q))) = q * n.
Proof.
  induction q as [|q IH]; intros st Hlen; [reflexivity|]. cbn [seq map concat]. rewrite app_length.
  pose proof (Hlen 0 (Nat.lt_0_succ _)) as H0. rewrite Nat.add_0_r in H0. rewrite H0.
  rewrite IH; [cbn [Nat.mul]; lia|]. intros b' Hb'. replace (S st + b') with (st + S b') by lia. apply Hlen. lia.
Qed.

(* well-formed striped sequence with C columns *)
Definition sseq_okC (C K : nat) (s : sseq) : Prop :=
  Forall (fun x => length x = C /\ Forall (fun v => v < K) x) (ss_rows s).

Lemma sseq_rows_okC C K s r n off : sseq_okC C K s -> r + n <= length (ss_rows s) -> off + 16 <= C ->
  seq_rows_okC K (ss_rows s) r n off.
Proof.
  intros Hok Hle Hoff j Hj. unfold sseq_okC in Hok. rewrite Forall_forall in Hok.
  destruct (nth_error (ss_rows s) (r + j)) as [x|] eqn:Hx.
  - exists x. split; [reflexivity|]. destruct (Hok x (nth_error_In _ _ Hx)) as [H1 H2]. split; [lia|exact H2].
  - apply nth_error_None in Hx. lia.
Qed.

Lemma neon_row_generic (K q : nat) (dm : list (list Z)) (pads : nat -> list Z) (seqrows : list (list nat)) (r : nat) :
  K <= 16 -> Forall (fun row => length row = K) dm -> (forall i, 16 <= K + length (pads i)) ->
  (forall b, b < q -> seq_rows_okC K seqrows r (length dm) (b * 16)) ->
  map_res (fun c => cell_from sat_add 0%Z dm seqrows r c) (seq 0 (q * 16))
  = Ok (vk_out_row (neon_u8_with AddSat) (q * 16) (mem_rows dm pads) seqrows r).
Proof.
  intros HK Hdm Hp Hrows.
  pose proof (mem_rows_ok K dm pads Hdm Hp) as Hmem.
  unfold vk_out_row. cbn [vk_blocked vk_lanes neon_u8_with]. rewrite Nat.div_mul by lia.
  set (f := fun b => vk_row (neon_u8_with AddSat) (mem_rows dm pads) seqrows r (b * 16)).
  assert (Hlenf : forall b', b' < q -> length (f (0 + b')) = 16).
  { intros b' Hb'. unfold f. cbn [plus]. rewrite vk_row_neon.
    apply (neon_row_length K HK dm _ Hmem); [reflexivity|]. apply Hrows. exact Hb'. }
  pose proof (concat_map_seq_length 16 f q 0 Hlenf) as Hlen.
  rewrite <- Hlen at 1. apply (map_res_seq_nth _ _ 0%Z).
  intros c Hc. rewrite Hlen in Hc.
  assert (Hb : c / 16 < q) by (apply Nat.div_lt_upper_bound; lia).
  assert (Hc' : c mod 16 < 16) by (apply Nat.mod_upper_bound; lia).
  assert (Ec : c = c / 16 * 16 + c mod 16) by (rewrite Nat.mul_comm; apply Nat.div_mod; lia).
  rewrite Ec at 2. rewrite (concat_map_seq_nth 16 f 0%Z q 0 (c / 16) (c mod 16) Hlenf Hb Hc').
  cbn [plus]. unfold f. rewrite vk_row_neon.
  rewrite <- (neon_row_cell K HK dm _ Hmem (repeat 0%Z 16) seqrows r (c / 16 * 16) (c mod 16) eq_refl Hc' (Hrows _ Hb)).
  rewrite <- Ec. f_equal. rewrite nth_repeat_lt by exact Hc'. reflexivity.
Qed.

(* ---------- NEON = generic, every row range ---------- *)

Lemma vk_score_rows_neon (add : add_kind) C dm pads s lo hi :
  vk_score_rows (neon_u8_with add) C dm pads s lo hi =
  if length dm =? 0 then Panic P_UNDERFLOW else
  if ss_wrap s <? length dm - 1 then Panic P_WRAP else
  if (ss_len s <? length dm) || (hi <=? lo) then Ok {| sc_rows := []; sc_max := 0 |} else
  if length (ss_rows s) <? hi + length dm - 1 then Panic P_ROWS else vk_kernel (neon_u8_with add) C dm pads s lo hi.
Proof. unfold vk_score_rows. change (vk_guards (neon_u8_with add)) with guards_expected. apply run_guards_expected. Qed.

(* NEON result = generic result whenever the NEON wrapper does not panic *)
Theorem neon_eq_generic (K q : nat) (dm : list (list Z)) (pads : nat -> list Z) (s : sseq) (lo hi : nat)
        (sc : sscores Z) :
  K <= 16 -> Forall (fun row => length row = K) dm -> (forall i, 16 <= K + length (pads i)) -> sseq_okC (q * 16) K s ->
  vk_score_rows gen_neon_u8 (q * 16) dm pads s lo hi = Ok sc ->
  score_rows_generic sat_add 0%Z (q * 16) dm s lo hi = Ok sc.
Proof.
  intros HK Hdm Hp Hs H. rewrite gen_neon_u8_expected, vk_score_rows_neon in H. unfold score_rows_generic.
  destruct (length dm =? 0) eqn:HM; [discriminate|]. apply Nat.eqb_neq in HM.
  destruct (ss_wrap s <? length dm - 1); [discriminate|].
  destruct ((ss_len s <? length dm) || (hi <=? lo)) eqn:He; [exact H|].
  destruct (length (ss_rows s) <? hi + length dm - 1) eqn:Hr; [discriminate|].
  apply Nat.ltb_ge in Hr. unfold vk_kernel in H. inversion H; subst sc; clear H.
  rewrite (map_res_ok_map _ (fun i => vk_out_row (neon_u8_with AddSat) (q * 16) (mem_rows dm pads) (ss_rows s) i)); [reflexivity|].
  intros r Hrin. apply in_seq in Hrin.
  apply (neon_row_generic K q dm pads (ss_rows s) r HK Hdm Hp).
  intros b Hb. apply (sseq_rows_okC (q * 16) K s); [exact Hs|lia|]. nia.
Qed.

Definition is_panic {A} (r : res A) : Prop := match r with Panic _ => True | _ => False end.

Lemma cell_from_ok_or_panic {V} (vadd : V -> V -> V) (m : list (list V)) : forall acc rows r c,
  (exists v, cell_from vadd acc m rows r c = Ok v) \/ is_panic (cell_from vadd acc m rows r c).
Proof.
  induction m as [|mrow m IH]; intros acc rows r c; cbn [cell_from]; [left; eauto|].
  unfold nth_res. destruct (nth_error rows r) as [srow|]; cbn [rbind]; [|right; exact I].
  destruct (nth_error srow c) as [sym|]; cbn [rbind]; [|right; exact I].
  destruct (nth_error mrow sym) as [x|]; cbn [rbind]; [|right; exact I].
  apply IH.
Qed.

Lemma map_res_ok_or_panic {A B} (f : A -> res B) (l : list A) :
  (forall a, (exists b, f a = Ok b) \/ is_panic (f a)) ->
  (exists bs, map_res f l = Ok bs) \/ is_panic (map_res f l).
Proof.
  intros Hf. induction l as [|a l IH]; cbn [map_res]; [left; eauto|].
  destruct (Hf a) as [[b Hb]|Hp].
  - rewrite Hb. cbn [rbind]. destruct IH as [[bs Hbs]|Hp]; [left; rewrite Hbs; cbn; eauto|].
    right. destruct (map_res f l); try contradiction. exact I.
  - right. destruct (f a); try contradiction. exact I.
Qed.

(* on a sequence configured for the motif: NEON and generic return the same matrix, or both panic
   (the wrapper's row-range guard against the generic kernel's slice index) *)
Theorem neon_generic_agree (K q : nat) (dm : list (list Z)) (pads : nat -> list Z) (s : sseq) (lo hi : nat) :
  K <= 16 -> Forall (fun row => length row = K) dm -> (forall i, 16 <= K + length (pads i)) -> sseq_okC (q * 16) K s ->
  1 <= q -> 1 <= length dm -> length dm - 1 <= ss_wrap s ->
  (exists sc, vk_score_rows gen_neon_u8 (q * 16) dm pads s lo hi = Ok sc /\
              score_rows_generic sat_add 0%Z (q * 16) dm s lo hi = Ok sc) \/
  (is_panic (vk_score_rows gen_neon_u8 (q * 16) dm pads s lo hi) /\
   is_panic (score_rows_generic sat_add 0%Z (q * 16) dm s lo hi)).
Proof.
  intros HK Hdm Hp Hs Hq HM Hw.
  destruct (vk_score_rows gen_neon_u8 (q * 16) dm pads s lo hi) as [sc| | |] eqn:Hn.
  - left. exists sc. split; [reflexivity|]. exact (neon_eq_generic K q dm pads s lo hi sc HK Hdm Hp Hs Hn).
  - exfalso. rewrite gen_neon_u8_expected, vk_score_rows_neon in Hn. unfold vk_kernel in Hn.
    repeat match type of Hn with (if ?b then _ else _) = _ => destruct b; try discriminate end.
  - right. split; [exact I|].
    rewrite gen_neon_u8_expected, vk_score_rows_neon in Hn. unfold score_rows_generic.
    destruct (length dm =? 0) eqn:H0; [apply Nat.eqb_eq in H0; lia|].
    destruct (ss_wrap s <? length dm - 1) eqn:H1; [apply Nat.ltb_lt in H1; lia|].
    destruct ((ss_len s <? length dm) || (hi <=? lo)) eqn:He; [discriminate|].
    destruct (length (ss_rows s) <? hi + length dm - 1) eqn:Hr; [|unfold vk_kernel in Hn; discriminate].
    apply Nat.ltb_lt in Hr. apply orb_false_iff in He. destruct He as [_ He]. apply Nat.leb_gt in He.
    set (g := fun r => map_res (fun c => cell_from sat_add 0%Z dm (ss_rows s) r c) (seq 0 (q * 16))).
    assert (Hg : forall r, (exists b, g r = Ok b) \/ is_panic (g r)).
    { intros r. apply map_res_ok_or_panic. intros c. apply cell_from_ok_or_panic. }
    destruct (map_res_ok_or_panic g (seq lo (hi - lo)) Hg) as [[rows Hrows]|Hpan].
    + exfalso.
      assert (Hin : In (hi - 1) (seq lo (hi - lo))) by (apply in_seq; lia).
      destruct (map_res_in_ok _ _ _ _ Hrows Hin) as [row Hrow].
      assert (Hin0 : In 0 (seq 0 (q * 16))) by (apply in_seq; lia).
      destruct (map_res_in_ok _ _ _ _ Hrow Hin0) as [v Hv].
      destruct (cell_from_rows _ _ _ _ _ _ _ Hv) as [Hle|Hnil]; [lia|]. rewrite Hnil in HM. cbn in HM. lia.
    + fold g. destruct (map_res g (seq lo (hi - lo))); try contradiction. exact I.
  - exfalso. rewrite gen_neon_u8_expected, vk_score_rows_neon in Hn. unfold vk_kernel in Hn.
    repeat match type of Hn with (if ?b then _ else _) = _ => destruct b; try discriminate end.
Qed.

(* the dispatcher of the source on Arm hosts: every arm agrees with the generic kernel *)
Theorem dispatch_arm_hosts_agree (K q : nat) (dm : list (list Z)) (pads : nat -> list Z) (s : sseq) (lo hi : nat)
        (a : arm4) (sc : sscores Z) :
  K <= 16 -> Forall (fun row => length row = K) dm -> (forall i, 16 <= K + length (pads i)) -> sseq_okC (q * 16) K s ->
  run_u8_kernel gen_avx2_u8 gen_neon_u8 (gen_dispatch_u8_arm a) (q * 16) dm pads s lo hi = Ok sc ->
  score_rows_generic sat_add 0%Z (q * 16) dm s lo hi = Ok sc.
Proof.
  intros HK Hdm Hp Hs H. rewrite gen_dispatch_u8_arm_expected in H.
  destruct a; cbn [run_u8_kernel] in H; try exact H.
  exact (neon_eq_generic K q dm pads s lo hi sc HK Hdm Hp Hs H).
Qed.

(* ---------- the NEON kernel before commit 8ba350b (wrapping vaddq_u8) under-estimates ---------- *)

(* the 3-row matrix of C08.v (ex_matrix): its consensus word A,C,A has the rounded-up cells
   55 + 92 + 110 = 257 > 255 *)
Definition wit_u8_matrix : list (list xq) :=
  let q (n : Z) (d : Z) := XFin (QArith_base.Qmake n (Z.to_pos d)) in
  [[q 2 1; q (-1) 1; q 0 1; q 1 3; XNInf];
   [q (-2) 1; q 3 1; q 1 7; q 0 1; XNInf];
   [q 1 1; q 1 2; q (-5) 1; q 0 1; XNInf]]%Z.
Definition wit_u8_seq : list nat := [0; 1; 0].           (* "ACA" *)
Definition wit_u8_pads : nat -> list Z := fun _ => repeat 7%Z 27.

(* byte score of position 0 from kernel k (16 columns), from the generic kernel, and the image of
   the real score of position 0 *)
Definition u8_outcome (k : vkernel) : res (Z * Z * Z) :=
  d <- to_discrete xq_ops 5 wit_u8_matrix ;;
  let ss := striped 5 16 (configure_wrap_of (length wit_u8_matrix)) wit_u8_seq in
  sck <- vk_score_rows k 16 (d_data d) wit_u8_pads ss 0 1 ;;
  scg <- score_rows_generic sat_add 0%Z 16 (d_data d) ss 0 1 ;;
  bk <- sc_index sck 0 ;;
  bg <- sc_index scg 0 ;;
  real <- real_score xq_ops wit_u8_matrix ss 0 ;;
  Ok (bk, bg, scale xq_ops d real).

Lemma neon_old_outcome : u8_outcome neon_u8_old = Ok (1, 255, 255)%Z.
Proof. vm_compute. reflexivity. Qed.

Lemma neon_new_outcome : u8_outcome gen_neon_u8 = Ok (255, 255, 255)%Z.
Proof. vm_compute. reflexivity. Qed.

Lemma wit_u8_finite : Forall (fun row => Forall xq_finite (nonwild 5 row)) wit_u8_matrix.
Proof. unfold wit_u8_matrix. repeat constructor. Qed.

Theorem neon_old_wraps_refuted :
  Forall (fun row => Forall xq_finite (nonwild 5 row)) wit_u8_matrix /\
  exists bk bg sr : Z, u8_outcome neon_u8_old = Ok (bk, bg, sr) /\ (bk < sr)%Z /\ (sr <= bg)%Z.
Proof.
  split; [exact wit_u8_finite|]. exists 1%Z, 255%Z, 255%Z. split; [exact neon_old_outcome|]. split; lia.
Qed.
