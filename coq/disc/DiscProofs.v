(* Lemmas for property C08 in exact arithmetic (instance xq_ops of the model). *)
From Coq Require Import List ZArith QArith Qabs Qround Lia Bool Arith Setoid.
From LMBase Require Import Res ListX.
From LMDisc Require Import DiscModel.
Import ListNotations.

(* ---------- saturating sums of bytes ---------- *)

Definition zsum (l : list Z) : Z := fold_right Z.add 0%Z l.

Lemma sat_add_min x b : (0 <= b)%Z -> sat_add (Z.min 255 x) b = Z.min 255 (x + b).
Proof. unfold sat_add; lia. Qed.

Lemma zsum_cons b l : zsum (b :: l) = (b + zsum l)%Z.
Proof. reflexivity. Qed.

Lemma fold_sat_add l : Forall (fun b => 0 <= b)%Z l ->
  forall x, fold_left sat_add l (Z.min 255 x) = Z.min 255 (x + zsum l).
Proof.
  induction 1 as [|b l Hb Hl IH]; intros x; cbn [fold_left].
  - cbn. f_equal; lia.
  - rewrite sat_add_min by exact Hb. rewrite IH, zsum_cons. f_equal; lia.
Qed.

Lemma satsum_spec l : Forall (fun b => 0 <= b)%Z l -> satsum l = Z.min 255 (zsum l).
Proof.
  intros H. unfold satsum. change 0%Z with (Z.min 255 0) at 1.
  rewrite fold_sat_add by exact H. f_equal.
Qed.

Lemma zsum_nonneg l : Forall (fun b => 0 <= b)%Z l -> (0 <= zsum l)%Z.
Proof. induction 1; [cbn; lia|rewrite zsum_cons; lia]. Qed.

Lemma zsum_in_ge l b : Forall (fun b => 0 <= b)%Z l -> In b l -> (b <= zsum l)%Z.
Proof.
  induction 1 as [|c l Hc Hl IH]; intros Hin; [destruct Hin|].
  rewrite zsum_cons. pose proof (zsum_nonneg l Hl).
  destruct Hin as [->|Hin]; [lia|]. specialize (IH Hin). lia.
Qed.

Lemma clamp_range z : (0 <= clamp z <= 255)%Z.
Proof. unfold clamp; lia. Qed.

Lemma clamp_mono a b : (a <= b)%Z -> (clamp a <= clamp b)%Z.
Proof. unfold clamp; lia. Qed.

Lemma satsum_range l : Forall (fun b => 0 <= b)%Z l -> (0 <= satsum l <= 255)%Z.
Proof. intros H. rewrite satsum_spec by exact H. pose proof (zsum_nonneg l H). lia. Qed.

Lemma satsum_has_255 l : Forall (fun b => 0 <= b)%Z l -> In 255%Z l -> satsum l = 255%Z.
Proof.
  intros H Hin. rewrite satsum_spec by exact H. pose proof (zsum_in_ge l 255 H Hin). lia.
Qed.

(* ---------- the core inequality over plain rationals ---------- *)

Definition qsum (l : list Q) : Q := fold_right Qplus 0 l.

(* final arithmetic, over plain variables *)
Lemma core_arith_sat (c zs : Z) : (0 <= c)%Z -> (255 <= zs)%Z -> (255 <= c + zs)%Z.
Proof. lia. Qed.

Lemma core_arith_fin (fl zs : Z) : (0 <= zs)%Z -> (fl <= zs)%Z -> (clamp fl <= Z.min 255 zs)%Z.
Proof. unfold clamp; lia. Qed.

Lemma core_step (qs : list Q) :
  let cs := map (fun q => clamp (Qceiling q)) qs in
  (255 <= zsum cs)%Z \/ (qsum qs <= inject_Z (zsum cs))%Q.
Proof.
  induction qs as [|q qs IH]; cbn [map zsum qsum fold_right].
  - right. apply Qle_refl.
  - set (cs := map (fun q => clamp (Qceiling q)) qs) in *.
    fold (zsum cs). fold (qsum qs).
    assert (Hnn : Forall (fun b => 0 <= b)%Z cs).
    { unfold cs. apply Forall_forall. intros b Hb. apply in_map_iff in Hb.
      destruct Hb as [x [<- _]]. apply clamp_range. }
    pose proof (zsum_nonneg cs Hnn) as Hz.
    pose proof (clamp_range (Qceiling q)) as Hc.
    destruct IH as [IH|IH].
    + left. apply core_arith_sat; lia.
    + destruct (Z_lt_le_dec (Qceiling q) 255) as [Hlt|Hge].
      * right. rewrite inject_Z_plus.
        apply Qplus_le_compat; [|exact IH].
        apply Qle_trans with (inject_Z (Qceiling q)); [apply Qle_ceiling|].
        rewrite <- Zle_Qle. unfold clamp. lia.
      * left. assert (clamp (Qceiling q) = 255%Z) by (unfold clamp; lia). lia.
Qed.

Lemma core_fin (qs : list Q) :
  (clamp (Qfloor (qsum qs)) <= satsum (map (fun q => clamp (Qceiling q)) qs))%Z.
Proof.
  set (cs := map (fun q => clamp (Qceiling q)) qs).
  assert (Hnn : Forall (fun b => 0 <= b)%Z cs).
  { unfold cs. apply Forall_forall. intros b Hb. apply in_map_iff in Hb.
    destruct Hb as [x [<- _]]. apply clamp_range. }
  rewrite satsum_spec by exact Hnn.
  pose proof (zsum_nonneg cs Hnn) as Hz.
  destruct (core_step qs) as [H|H]; fold cs in H.
  - pose proof (clamp_range (Qfloor (qsum qs))). lia.
  - apply core_arith_fin; [exact Hz|].
    apply Qfloor_resp_le in H. rewrite Qfloor_Z in H. exact H.
Qed.

(* ---------- extended rationals ---------- *)

Definition cellq (f o : Q) (x : xq) : Z := xq_ceil_u8 (xq_div (xq_sub x (XFin o)) (XFin f)).
Definition scaleq (f off : Q) (s : xq) : Z := xq_floor_u8 (xq_div (xq_sub s (XFin off)) (XFin f)).

Lemma xq_ceil_u8_range a : (0 <= xq_ceil_u8 a <= 255)%Z.
Proof. destruct a; cbn; try lia. apply clamp_range. Qed.

Lemma xq_floor_u8_range a : (0 <= xq_floor_u8 a <= 255)%Z.
Proof. destruct a; cbn; try lia. apply clamp_range. Qed.

Lemma cellq_range f o x : (0 <= cellq f o x <= 255)%Z.
Proof. apply xq_ceil_u8_range. Qed.

Lemma pos_cmp (f : Q) : 0 < f -> (f ?= 0) = Gt.
Proof. intros H. apply Qgt_alt. exact H. Qed.

Lemma zero_cmp (f : Q) : f == 0 -> (f ?= 0) = Eq.
Proof. intros H. apply Qeq_alt. exact H. Qed.

(* a +inf cell is mapped to 255, whatever the offset and the (non-negative) factor *)
Lemma cellq_pinf f o : 0 <= f -> cellq f o XPInf = 255%Z.
Proof.
  intros Hf. unfold cellq. cbn [xq_sub xq_neg xq_add xq_div].
  destruct (Qle_lt_or_eq _ _ Hf) as [Hpos|Hz].
  - rewrite (pos_cmp f Hpos). reflexivity.
  - rewrite (zero_cmp f (Qeq_sym _ _ Hz)). reflexivity.
Qed.

(* the byte image of a non-finite score *)
Lemma scaleq_pinf f off : 0 <= f -> scaleq f off XPInf = 255%Z.
Proof.
  intros Hf. unfold scaleq. cbn [xq_sub xq_neg xq_add xq_div].
  destruct (Qle_lt_or_eq _ _ Hf) as [Hpos|Hz].
  - rewrite (pos_cmp f Hpos). reflexivity.
  - rewrite (zero_cmp f (Qeq_sym _ _ Hz)). reflexivity.
Qed.

Lemma scaleq_ninf f off : 0 <= f -> scaleq f off XNInf = 0%Z.
Proof.
  intros Hf. unfold scaleq. cbn [xq_sub xq_neg xq_add xq_div].
  destruct (Qle_lt_or_eq _ _ Hf) as [Hpos|Hz].
  - rewrite (pos_cmp f Hpos). reflexivity.
  - rewrite (zero_cmp f (Qeq_sym _ _ Hz)). reflexivity.
Qed.

Lemma scaleq_nan f off : scaleq f off XNaN = 0%Z.
Proof. reflexivity. Qed.

(* non-finite values are absorbing for the addition *)
Definition nonfin (a : xq) : Prop := match a with XFin _ => False | _ => True end.

Lemma xq_add_nonfin_l a b : nonfin a -> nonfin (xq_add a b).
Proof. destruct a, b; cbn; auto. Qed.
Lemma xq_add_nonfin_r a b : nonfin b -> nonfin (xq_add a b).
Proof. destruct a, b; cbn; auto. Qed.

Lemma fold_add_nonfin_acc l : forall acc, nonfin acc -> nonfin (fold_left xq_add l acc).
Proof.
  induction l as [|x l IH]; intros acc H; cbn [fold_left]; auto.
  apply IH. apply xq_add_nonfin_l; exact H.
Qed.

Lemma fold_add_nonfin l : forall acc, Exists nonfin l -> nonfin (fold_left xq_add l acc).
Proof.
  induction l as [|x l IH]; intros acc H; inversion H; subst; cbn [fold_left].
  - apply fold_add_nonfin_acc. apply xq_add_nonfin_r; assumption.
  - apply IH; assumption.
Qed.

Lemma xq_add_pinf a b : xq_add a b = XPInf -> a = XPInf \/ b = XPInf.
Proof. destruct a, b; cbn; intros H; try discriminate; auto. Qed.

Lemma fold_add_pinf l : forall acc, fold_left xq_add l acc = XPInf -> acc = XPInf \/ In XPInf l.
Proof.
  induction l as [|x l IH]; intros acc H; cbn [fold_left] in H; auto.
  destruct (IH _ H) as [H1|H1].
  - destruct (xq_add_pinf _ _ H1) as [H2|H2]; [auto|right; left; auto].
  - right; right; exact H1.
Qed.

Lemma fold_add_fin (ps : list Q) : forall a,
  fold_left xq_add (map XFin ps) (XFin a) = XFin (fold_left Qplus ps a).
Proof. induction ps as [|p ps IH]; intros a; cbn [map fold_left]; auto. apply IH. Qed.

Lemma fold_Qplus_qsum (ps : list Q) : forall a, fold_left Qplus ps a == a + qsum ps.
Proof.
  induction ps as [|p ps IH]; intros a; cbn [fold_left qsum fold_right].
  - ring.
  - rewrite IH. fold (qsum ps). ring.
Qed.

(* all finite, or some element is not *)
Lemma fin_or_not (l : list xq) : (exists ps, l = map XFin ps) \/ Exists nonfin l.
Proof.
  induction l as [|x l IH].
  - left. exists []. reflexivity.
  - destruct x as [q| | |]; try (right; constructor; exact I).
    destruct IH as [[ps ->]|H].
    + left. exists (q :: ps). reflexivity.
    + right. constructor 2. exact H.
Qed.

(* ---------- the inequality for a window, extended values, any offsets, factor >= 0 ----------
   ps: the cells of the window paired with the offsets of their rows. *)

Definition win_cells (f : Q) (ps : list (xq * Q)) : list Z := map (fun p => cellq f (snd p) (fst p)) ps.
Definition win_real (ps : list (xq * Q)) : xq := fold_left xq_add (map fst ps) (XFin 0).

Lemma win_cells_nonneg f ps : Forall (fun b => 0 <= b)%Z (win_cells f ps).
Proof.
  apply Forall_forall. intros b Hb. apply in_map_iff in Hb. destruct Hb as [p [<- _]].
  apply cellq_range.
Qed.

(* finite window, positive factor *)
Lemma qsum_quot (f : Q) (ps : list (Q * Q)) : ~ f == 0 ->
  qsum (map (fun p => (fst p + - snd p) / f) ps) == (qsum (map fst ps) + - qsum (map snd ps)) / f.
Proof.
  intros Hf. induction ps as [|[p o] ps IH]; cbn [map qsum fold_right fst snd].
  - field. exact Hf.
  - fold (qsum (map (fun p => (fst p + - snd p) / f) ps)). rewrite IH.
    fold (qsum (map fst ps)). fold (qsum (map snd ps)). field. exact Hf.
Qed.

Lemma over_fin_pos (f off : Q) (ps : list (Q * Q)) :
  0 < f -> off == qsum (map snd ps) ->
  (scaleq f off (XFin (fold_left Qplus (map fst ps) 0%Q))
   <= satsum (map (fun p => cellq f (snd p) (XFin (fst p))) ps))%Z.
Proof.
  intros Hf Hoff.
  assert (Hne : ~ f == 0) by (intros E; rewrite E in Hf; exact (Qlt_irrefl _ Hf)).
  unfold scaleq. cbn [xq_sub xq_neg xq_add xq_div]. rewrite (pos_cmp f Hf). cbn [xq_floor_u8].
  assert (Hcells : map (fun p => cellq f (snd p) (XFin (fst p))) ps
                   = map (fun q => clamp (Qceiling q)) (map (fun p => (fst p + - snd p) / f) ps)).
  { rewrite map_map. apply map_ext. intros [p o]. unfold cellq.
    cbn [xq_sub xq_neg xq_add xq_div fst snd]. rewrite (pos_cmp f Hf). reflexivity. }
  rewrite Hcells.
  assert (Heq : (fold_left Qplus (map fst ps) 0 + - off) / f
                == qsum (map (fun p => (fst p + - snd p) / f) ps)).
  { rewrite (qsum_quot f ps Hne). rewrite fold_Qplus_qsum. rewrite Hoff. field. exact Hne. }
  rewrite (Qfloor_comp _ _ Heq). apply core_fin.
Qed.

(* finite window, zero factor: the quotient is +inf exactly when the numerator is positive *)
Lemma qsum_pos_exists (ps : list (Q * Q)) :
  0 < qsum (map fst ps) + - qsum (map snd ps) -> exists p, In p ps /\ 0 < fst p + - snd p.
Proof.
  induction ps as [|[p o] ps IH]; cbn [map qsum fold_right fst snd]; intros H.
  - exfalso. apply (Qlt_irrefl 0). setoid_replace (0 + - 0) with 0 in H by ring. exact H.
  - fold (qsum (map fst ps)) in H. fold (qsum (map snd ps)) in H.
    destruct (Qlt_le_dec 0 (p + - o)) as [Hp|Hp].
    + exists (p, o). split; [left; reflexivity|exact Hp].
    + destruct IH as [q [Hq1 Hq2]].
      * apply Qlt_le_trans with (p + qsum (map fst ps) + - (o + qsum (map snd ps))); [exact H|].
        setoid_replace (p + qsum (map fst ps) + - (o + qsum (map snd ps)))
          with ((p + - o) + (qsum (map fst ps) + - qsum (map snd ps))) by ring.
        setoid_replace (qsum (map fst ps) + - qsum (map snd ps))
          with (0 + (qsum (map fst ps) + - qsum (map snd ps))) at 2 by ring.
        apply Qplus_le_compat; [exact Hp|apply Qle_refl].
      * exists q. split; [right; exact Hq1|exact Hq2].
Qed.

Lemma over_fin_zero (f off : Q) (ps : list (Q * Q)) :
  f == 0 -> off == qsum (map snd ps) ->
  (scaleq f off (XFin (fold_left Qplus (map fst ps) 0%Q))
   <= satsum (map (fun p => cellq f (snd p) (XFin (fst p))) ps))%Z.
Proof.
  intros Hf Hoff.
  assert (Hnn : Forall (fun b => 0 <= b)%Z (map (fun p => cellq f (snd p) (XFin (fst p))) ps)).
  { apply Forall_forall. intros b Hb. apply in_map_iff in Hb. destruct Hb as [p [<- _]]. apply cellq_range. }
  unfold scaleq. cbn [xq_sub xq_neg xq_add xq_div]. rewrite (zero_cmp f Hf).
  destruct (fold_left Qplus (map fst ps) 0 + - off ?= 0) eqn:Hc; cbn [xq_inf_of xq_floor_u8];
    try (apply (satsum_range _ Hnn)).
  (* positive numerator: some cell has a positive numerator too, hence is 255 *)
  apply Qgt_alt in Hc.
  assert (Hpos : 0 < qsum (map fst ps) + - qsum (map snd ps)).
  { rewrite fold_Qplus_qsum in Hc. rewrite Hoff in Hc.
    setoid_replace (0 + qsum (map fst ps) + - qsum (map snd ps))
      with (qsum (map fst ps) + - qsum (map snd ps)) in Hc by ring. exact Hc. }
  destruct (qsum_pos_exists ps Hpos) as [[p o] [Hin Hp]]. cbn [fst snd] in Hp.
  rewrite (satsum_has_255 _ Hnn); [lia|].
  apply in_map_iff. exists (p, o). split; [|exact Hin].
  unfold cellq. cbn [fst snd xq_sub xq_neg xq_add xq_div]. rewrite (zero_cmp f Hf).
  apply Qgt_alt in Hp. rewrite Hp. reflexivity.
Qed.

(* any window *)
Lemma over_window (f off : Q) (ps : list (xq * Q)) :
  0 <= f -> off == qsum (map snd ps) ->
  (scaleq f off (win_real ps) <= satsum (win_cells f ps))%Z.
Proof.
  intros Hf Hoff. pose proof (win_cells_nonneg f ps) as Hnn.
  destruct (fin_or_not (map fst ps)) as [[qs Hqs]|Hex].
  - (* all cells finite *)
    set (pq := combine qs (map snd ps)).
    assert (Hlen : length qs = length ps).
    { apply (f_equal (@length _)) in Hqs. rewrite !map_length in Hqs. auto. }
    assert (Hfst : map fst pq = qs).
    { unfold pq. clear -Hlen. revert qs Hlen. induction ps as [|p ps IH]; intros [|q qs] Hl; cbn in *; try lia; auto.
      f_equal. apply IH. lia. }
    assert (Hsnd : map snd pq = map snd ps).
    { unfold pq. clear -Hlen. revert qs Hlen. induction ps as [|p ps IH]; intros [|q qs] Hl; cbn in *; try lia; auto.
      f_equal. apply IH. lia. }
    assert (Hcells : win_cells f ps = map (fun p => cellq f (snd p) (XFin (fst p))) pq).
    { unfold win_cells, pq. clear -Hqs. revert qs Hqs.
      induction ps as [|[x o] ps IH]; intros [|q qs] Hq; cbn in *; try discriminate; auto.
      inversion Hq; subst. f_equal. apply IH. assumption. }
    unfold win_real. rewrite Hqs, fold_add_fin, Hcells, <- Hfst.
    rewrite <- Hsnd in Hoff.
    destruct (Qle_lt_or_eq _ _ Hf) as [Hpos|Hz].
    + apply over_fin_pos; assumption.
    + apply over_fin_zero; [apply Qeq_sym; exact Hz|assumption].
  - (* some cell is not finite: so is the real score *)
    pose proof (fold_add_nonfin (map fst ps) (XFin 0) Hex) as Hnf. fold (win_real ps) in Hnf.
    destruct (win_real ps) as [q| | |] eqn:Hr; [destruct Hnf| | |].
    + rewrite scaleq_pinf by exact Hf.
      unfold win_real in Hr. destruct (fold_add_pinf _ _ Hr) as [H0|Hin]; [discriminate|].
      rewrite (satsum_has_255 _ Hnn); [lia|].
      apply in_map_iff in Hin. destruct Hin as [[x o] [Hx Hin]]. cbn [fst] in Hx. subst x.
      apply in_map_iff. exists (XPInf, o). split; [|exact Hin].
      cbn [fst snd]. apply cellq_pinf. exact Hf.
    + rewrite scaleq_ninf by exact Hf. apply (satsum_range _ Hnn).
    + rewrite scaleq_nan. apply (satsum_range _ Hnn).
Qed.

(* ---------- from the model functions to windows ---------- *)

Section Pick.
  Context {V : Type}.

  (* the cells of the window, one per matrix row *)
  Fixpoint pick (m : list (list V)) (w : list nat) : option (list V) :=
    match m, w with
    | [], _ => Some []
    | row :: m', s :: w' =>
        match nth_error row s, pick m' w' with
        | Some x, Some xs => Some (x :: xs)
        | _, _ => None
        end
    | _ :: _, [] => None
    end.

  Lemma wscore_from_pick (vadd : V -> V -> V) m : forall w acc r,
    wscore_from vadd acc m w = Ok r -> exists xs, pick m w = Some xs /\ r = fold_left vadd xs acc.
  Proof.
    induction m as [|row m IH]; intros w acc r H; cbn [wscore_from pick] in *.
    - inversion H; subst. exists []. auto.
    - destruct w as [|s w]; [discriminate|].
      unfold nth_res in H. destruct (nth_error row s) as [x|]; cbn [rbind] in H; [|discriminate].
      destruct (IH _ _ _ H) as [xs [Hp Hr]]. rewrite Hp. exists (x :: xs). auto.
  Qed.

  Lemma pick_wscore_from (vadd : V -> V -> V) m : forall w acc xs,
    pick m w = Some xs -> wscore_from vadd acc m w = Ok (fold_left vadd xs acc).
  Proof.
    induction m as [|row m IH]; intros w acc xs H; cbn [wscore_from pick] in *.
    - inversion H; subst. reflexivity.
    - destruct w as [|s w]; [discriminate|].
      unfold nth_res. destruct (nth_error row s) as [x|]; [|discriminate].
      destruct (pick m w) as [ys|] eqn:Hp; [|discriminate]. inversion H; subst.
      cbn [rbind fold_left]. apply IH. exact Hp.
  Qed.

  Lemma pick_length m : forall w xs, pick m w = Some xs -> length xs = length m.
  Proof.
    induction m as [|row m IH]; intros w xs H; cbn [pick] in H.
    - inversion H; reflexivity.
    - destruct w as [|s w]; [discriminate|].
      destruct (nth_error row s); [|discriminate]. destruct (pick m w) eqn:Hp; [|discriminate].
      inversion H; subst. cbn. f_equal. eapply IH; eauto.
  Qed.
End Pick.

Lemma map_res_length {A B} (f : A -> res B) l : forall r, map_res f l = Ok r -> length r = length l.
Proof.
  induction l as [|a l IH]; intros r H; cbn [map_res] in H.
  - inversion H; reflexivity.
  - destruct (f a); cbn [rbind] in H; try discriminate.
    destruct (map_res f l); cbn [rbind] in H; try discriminate.
    inversion H; subst. cbn. f_equal. apply IH. reflexivity.
Qed.

Lemma map_res_Forall2 {A B} (f : A -> res B) l : forall r, map_res f l = Ok r ->
  Forall2 (fun a b => f a = Ok b) l r.
Proof.
  induction l as [|a l IH]; intros r H; cbn [map_res] in H.
  - inversion H; constructor.
  - destruct (f a) eqn:Hf; cbn [rbind] in H; try discriminate.
    destruct (map_res f l); cbn [rbind] in H; try discriminate.
    inversion H; subst. constructor; auto.
Qed.

Lemma pick_disc_rows {T} (N : NumOps T) (factor : T) m : forall offsets w xs,
  length offsets = length m -> pick m w = Some xs ->
  pick (disc_rows N factor m offsets) w
  = Some (map (fun p => disc_cell N factor (snd p) (fst p)) (combine xs offsets)).
Proof.
  induction m as [|row m IH]; intros offsets w xs Hl H; cbn [pick] in H.
  - inversion H; subst. destruct offsets; reflexivity.
  - destruct offsets as [|o os]; [discriminate|]. destruct w as [|s w]; [discriminate|].
    destruct (nth_error row s) as [x|] eqn:Hx; [|discriminate].
    destruct (pick m w) as [ys|] eqn:Hp; [|discriminate]. inversion H; subst.
    cbn [disc_rows pick combine map fst snd].
    rewrite (map_nth_error _ _ _ Hx). rewrite (IH os w ys); auto.
Qed.

(* ---------- minima / maxima of finite rows ---------- *)

Lemma xq_cmp_fin a b : n_cmp xq_ops (XFin a) (XFin b) = Some (a ?= b).
Proof. reflexivity. Qed.

Lemma min_from_fin (l : list Q) : forall a,
  exists r, min_from xq_ops (XFin a) (map XFin l) = Ok (XFin r)
            /\ In r (a :: l) /\ Forall (fun x => r <= x) (a :: l).
Proof.
  induction l as [|y l IH]; intros a; cbn [map min_from].
  - exists a. repeat split; [left; reflexivity|]. constructor; [apply Qle_refl|constructor].
  - rewrite xq_cmp_fin. destruct (a ?= y) eqn:Hc.
    + destruct (IH a) as [r [Hr [Hin Hall]]]. exists r. split; [exact Hr|]. split.
      * destruct Hin as [<-|Hin]; [left; reflexivity|right; right; exact Hin].
      * inversion Hall; subst. constructor; [assumption|]. constructor; [|assumption].
        apply Qeq_alt in Hc. rewrite <- Hc. assumption.
    + destruct (IH a) as [r [Hr [Hin Hall]]]. exists r. split; [exact Hr|]. split.
      * destruct Hin as [<-|Hin]; [left; reflexivity|right; right; exact Hin].
      * inversion Hall; subst. constructor; [assumption|]. constructor; [|assumption].
        apply Qlt_alt in Hc. apply Qle_trans with a; [assumption|apply Qlt_le_weak; exact Hc].
    + destruct (IH y) as [r [Hr [Hin Hall]]]. exists r. split; [exact Hr|]. split.
      * right. exact Hin.
      * inversion Hall; subst. constructor; [|exact Hall].
        apply Qgt_alt in Hc. apply Qle_trans with y; [assumption|apply Qlt_le_weak; exact Hc].
Qed.

Lemma max_from_fin (l : list Q) : forall a,
  exists r, max_from xq_ops (XFin a) (map XFin l) = Ok (XFin r)
            /\ In r (a :: l) /\ Forall (fun x => x <= r) (a :: l).
Proof.
  induction l as [|y l IH]; intros a; cbn [map max_from].
  - exists a. repeat split; [left; reflexivity|]. constructor; [apply Qle_refl|constructor].
  - rewrite xq_cmp_fin. destruct (a ?= y) eqn:Hc.
    + destruct (IH y) as [r [Hr [Hin Hall]]]. exists r. split; [exact Hr|]. split.
      * right. exact Hin.
      * inversion Hall; subst. constructor; [|exact Hall].
        apply Qeq_alt in Hc. rewrite Hc. assumption.
    + destruct (IH y) as [r [Hr [Hin Hall]]]. exists r. split; [exact Hr|]. split.
      * right. exact Hin.
      * inversion Hall; subst. constructor; [|exact Hall].
        apply Qlt_alt in Hc. apply Qle_trans with y; [apply Qlt_le_weak; exact Hc|assumption].
    + destruct (IH a) as [r [Hr [Hin Hall]]]. exists r. split; [exact Hr|]. split.
      * destruct Hin as [<-|Hin]; [left; reflexivity|right; right; exact Hin].
      * inversion Hall; subst. constructor; [assumption|]. constructor; [|assumption].
        apply Qgt_alt in Hc. apply Qle_trans with a; [apply Qlt_le_weak; exact Hc|assumption].
Qed.

Lemma finite_list (l : list xq) : Forall xq_finite l -> exists qs, l = map XFin qs.
Proof.
  induction 1 as [|x l Hx Hl [qs ->]].
  - exists []. reflexivity.
  - destruct x as [q| | |]; try destruct Hx. exists (q :: qs). reflexivity.
Qed.

(* a finite, non-empty row has a minimum and a maximum, both finite, min <= max *)
Lemma row_min_max_fin (row : list xq) :
  Forall xq_finite row -> row <> [] ->
  exists lo hi, row_min xq_ops row = Ok (XFin lo) /\ row_max xq_ops row = Ok (XFin hi) /\ lo <= hi
    /\ In (XFin lo) row /\ In (XFin hi) row
    /\ (forall x, In (XFin x) row -> lo <= x /\ x <= hi).
Proof.
  intros Hfin Hne. destruct (finite_list row Hfin) as [qs ->].
  destruct qs as [|a qs]; [exfalso; apply Hne; reflexivity|].
  cbn [map row_min row_max].
  destruct (min_from_fin qs a) as [lo [Hlo [Hinlo Halllo]]].
  destruct (max_from_fin qs a) as [hi [Hhi [Hinhi Hallhi]]].
  exists lo, hi. split; [exact Hlo|]. split; [exact Hhi|].
  assert (Hx : forall x, In (XFin x) (XFin a :: map XFin qs) -> lo <= x /\ x <= hi).
  { intros x Hin. change (XFin a :: map XFin qs) with (map XFin (a :: qs)) in Hin.
    apply in_map_iff in Hin. destruct Hin as [y [Hy Hin]]. inversion Hy; subst y.
    rewrite Forall_forall in Halllo, Hallhi. split; [apply Halllo|apply Hallhi]; exact Hin. }
  split.
  - inversion Halllo; subst. inversion Hallhi; subst. apply Qle_trans with a; assumption.
  - change (XFin a :: map XFin qs) with (map XFin (a :: qs)).
    split; [apply in_map; exact Hinlo|]. split; [apply in_map; exact Hinhi|exact Hx].
Qed.

(* ---------- to_discrete on a matrix with finite non-wildcard cells ---------- *)

Lemma qsum_mono (l1 l2 : list Q) : Forall2 Qle l1 l2 -> qsum l1 <= qsum l2.
Proof.
  induction 1 as [|a b l1 l2 Hab Hl IH]; cbn [qsum fold_right]; [apply Qle_refl|].
  apply Qplus_le_compat; assumption.
Qed.

Lemma rows_min_max K (m : list (list xq)) :
  Forall (fun row => Forall xq_finite (nonwild K row)) m ->
  forall mins maxs, row_mins xq_ops K m = Ok mins -> row_maxs xq_ops K m = Ok maxs ->
  exists los his, mins = map XFin los /\ maxs = map XFin his /\ Forall2 Qle los his.
Proof.
  induction 1 as [|row m Hrow Hm IH]; intros mins maxs Hmin Hmax;
    unfold row_mins, row_maxs in *; cbn [map_res] in Hmin, Hmax.
  - inversion Hmin; inversion Hmax; subst. exists [], []. repeat split; constructor.
  - destruct (row_min xq_ops (nonwild K row)) as [lo'| | |] eqn:Hlo; cbn [rbind] in Hmin; try discriminate.
    destruct (map_res (fun row => row_min xq_ops (nonwild K row)) m) as [mins'| | |] eqn:Hmins;
      cbn [rbind] in Hmin; try discriminate.
    destruct (row_max xq_ops (nonwild K row)) as [hi'| | |] eqn:Hhi; cbn [rbind] in Hmax; try discriminate.
    destruct (map_res (fun row => row_max xq_ops (nonwild K row)) m) as [maxs'| | |] eqn:Hmaxs;
      cbn [rbind] in Hmax; try discriminate.
    inversion Hmin; inversion Hmax; subst.
    assert (Hne : nonwild K row <> []).
    { intros E. rewrite E in Hlo. cbn in Hlo. discriminate. }
    destruct (row_min_max_fin _ Hrow Hne) as [lo [hi [H1 [H2 [Hle _]]]]].
    rewrite H1 in Hlo. rewrite H2 in Hhi. inversion Hlo; inversion Hhi; subst.
    destruct (IH mins' maxs' eq_refl eq_refl) as [los [his [-> [-> Hall]]]].
    exists (lo :: los), (hi :: his). repeat split. constructor; assumption.
Qed.

Lemma to_discrete_fin K (m : list (list xq)) (d : @dmat xq) :
  Forall (fun row => Forall xq_finite (nonwild K row)) m ->
  to_discrete xq_ops K m = Ok d ->
  exists (os : list Q) (f : Q),
    d_offsets d = map XFin os /\ d_offset d = XFin (fold_left Qplus os 0) /\
    d_factor d = XFin f /\ 0 <= f /\
    d_data d = disc_rows xq_ops (XFin f) m (map XFin os) /\ length os = length m.
Proof.
  intros Hfin H. unfold to_discrete, max_score in H.
  destruct (row_maxs xq_ops K m) as [maxs| | |] eqn:Hmaxs; cbn [rbind] in H; try discriminate.
  destruct (row_mins xq_ops K m) as [mins| | |] eqn:Hmins; cbn [rbind] in H; try discriminate.
  destruct (rows_min_max K m Hfin mins maxs Hmins Hmaxs) as [los [his [-> [-> Hall]]]].
  inversion H; subst d; clear H. cbn [d_offsets d_offset d_factor d_data].
  unfold sum_from. cbn [n_sum0 n_add xq_ops]. rewrite !fold_add_fin.
  set (Hi := fold_left Qplus his 0). set (Lo := fold_left Qplus los 0).
  exists los, (Qabs (Hi + - Lo) / inject_Z 255).
  assert (Hfac : xq_div (xq_abs (xq_sub (XFin Hi) (XFin Lo))) (XFin (inject_Z 255))
                 = XFin (Qabs (Hi + - Lo) / inject_Z 255)) by reflexivity.
  cbn [n_div n_sub n_abs n_of_u8 xq_ops]. rewrite Hfac. repeat split.
  - (* factor >= 0 *)
    unfold Qdiv. setoid_replace 0 with (0 * / inject_Z 255) by ring.
    apply Qmult_le_compat_r; [apply Qabs_nonneg|discriminate].
  - apply map_res_length in Hmins. rewrite map_length in Hmins. exact Hmins.
Qed.

(* no panic on such matrices when there is at least one non-wildcard column *)
Lemma row_mins_ok K (m : list (list xq)) :
  Forall (fun row => Forall xq_finite (nonwild K row) /\ nonwild K row <> []) m ->
  exists mins, row_mins xq_ops K m = Ok mins.
Proof.
  unfold row_mins. induction 1 as [|row m [Hf Hne] Hm [mins IH]]; cbn [map_res]; [eexists; reflexivity|].
  destruct (row_min_max_fin _ Hf Hne) as [lo [hi [-> _]]]. rewrite IH. cbn [rbind]. eexists; reflexivity.
Qed.

Lemma row_maxs_ok K (m : list (list xq)) :
  Forall (fun row => Forall xq_finite (nonwild K row) /\ nonwild K row <> []) m ->
  exists maxs, row_maxs xq_ops K m = Ok maxs.
Proof.
  unfold row_maxs. induction 1 as [|row m [Hf Hne] Hm [maxs IH]]; cbn [map_res]; [eexists; reflexivity|].
  destruct (row_min_max_fin _ Hf Hne) as [lo [hi [_ [-> _]]]]. rewrite IH. cbn [rbind]. eexists; reflexivity.
Qed.

Lemma to_discrete_ok K (m : list (list xq)) :
  Forall (fun row => Forall xq_finite (nonwild K row) /\ nonwild K row <> []) m ->
  exists d, to_discrete xq_ops K m = Ok d.
Proof.
  intros H.
  destruct (row_mins_ok K m H) as [mins H1]. destruct (row_maxs_ok K m H) as [maxs H2].
  unfold to_discrete, max_score. rewrite H2, H1. cbn [rbind]. eexists; reflexivity.
Qed.

Lemma combine_fst {A B} (l1 : list A) : forall (l2 : list B), length l1 = length l2 -> map fst (combine l1 l2) = l1.
Proof. induction l1 as [|a l1 IH]; intros [|b l2] H; cbn in *; try lia; auto. f_equal; apply IH; lia. Qed.

Lemma combine_snd {A B} (l1 : list A) : forall (l2 : list B), length l1 = length l2 -> map snd (combine l1 l2) = l2.
Proof. induction l1 as [|a l1 IH]; intros [|b l2] H; cbn in *; try lia; auto. f_equal; apply IH; lia. Qed.

Lemma cells_combine (f : Q) (xs : list xq) : forall (os : list Q),
  map (fun p => disc_cell xq_ops (XFin f) (snd p) (fst p)) (combine xs (map XFin os))
  = win_cells f (combine xs os).
Proof.
  induction xs as [|x xs IH]; intros [|o os]; cbn [combine map win_cells]; auto.
  f_equal. apply IH.
Qed.

(* ---------- the property, exact arithmetic ---------- *)

Theorem discrete_overestimates K (m : list (list xq)) (d : @dmat xq) (w : list nat) (real : xq) (b : Z) :
  Forall (fun row => Forall xq_finite (nonwild K row)) m ->
  to_discrete xq_ops K m = Ok d ->
  real_wscore xq_ops m w = Ok real ->
  disc_wscore (d_data d) w = Ok b ->
  (scale xq_ops d real <= b)%Z.
Proof.
  intros Hfin Hd Hreal Hb.
  destruct (to_discrete_fin K m d Hfin Hd) as [os [f [Hos [Hoff [Hfac [Hf [Hdata Hlen]]]]]]].
  unfold real_wscore, wscore in Hreal. unfold disc_wscore, wscore in Hb.
  destruct (wscore_from_pick _ _ _ _ _ Hreal) as [xs [Hpx ->]].
  destruct (wscore_from_pick _ _ _ _ _ Hb) as [cs [Hpc ->]].
  rewrite Hdata in Hpc.
  assert (Hl2 : length (map XFin os) = length m) by (rewrite map_length; exact Hlen).
  rewrite (pick_disc_rows xq_ops (XFin f) m (map XFin os) w xs Hl2 Hpx) in Hpc.
  rewrite cells_combine in Hpc.
  assert (Hcs : cs = win_cells f (combine xs os)) by congruence. subst cs. clear Hpc.
  assert (Hlx : length xs = length os) by (rewrite (pick_length _ _ _ Hpx); auto).
  unfold scale, scale_with. rewrite Hfac, Hoff.
  change (n_floor_u8 xq_ops (n_div xq_ops (n_sub xq_ops (fold_left (n_add xq_ops) xs (n_zero xq_ops))
            (XFin (fold_left Qplus os 0))) (XFin f)))
    with (scaleq f (fold_left Qplus os 0) (fold_left xq_add xs (XFin 0))).
  change (fold_left sat_add (win_cells f (combine xs os)) 0%Z) with (satsum (win_cells f (combine xs os))).
  replace (fold_left xq_add xs (XFin 0)) with (win_real (combine xs os))
    by (unfold win_real; rewrite combine_fst by exact Hlx; reflexivity).
  apply over_window; [exact Hf|].
  rewrite combine_snd by exact Hlx. rewrite fold_Qplus_qsum. ring.
Qed.

(* ---------- monotonicity of scale, threshold transfer ---------- *)

(* s <= t for partial_cmp (false as soon as a NaN is involved) *)
Definition xq_le (s t : xq) : Prop :=
  match xq_cmp s t with Some Lt | Some Eq => True | _ => False end.

Lemma scaleq_mono (f off : Q) (s t : xq) : 0 <= f -> xq_le s t -> (scaleq f off s <= scaleq f off t)%Z.
Proof.
  intros Hf Hle.
  destruct s as [a| | |], t as [b| | |]; unfold xq_le in Hle; cbn [xq_cmp] in Hle; try (exfalso; exact Hle);
    try apply Z.le_refl;
    try (rewrite scaleq_ninf by exact Hf; apply xq_floor_u8_range);
    try (rewrite (scaleq_pinf f off Hf); apply xq_floor_u8_range).
  (* both finite *)
  assert (Hab : a <= b).
  { destruct (a ?= b) eqn:Hc; try (exfalso; exact Hle).
    - apply Qeq_alt in Hc. rewrite Hc. apply Qle_refl.
    - apply Qlt_alt in Hc. apply Qlt_le_weak. exact Hc. }
  assert (Hnum : a + - off <= b + - off) by (apply Qplus_le_compat; [exact Hab|apply Qle_refl]).
  unfold scaleq. cbn [xq_sub xq_neg xq_add xq_div].
  destruct (Qle_lt_or_eq _ _ Hf) as [Hpos|Hz].
  - rewrite (pos_cmp f Hpos). cbn [xq_floor_u8]. apply clamp_mono. apply Qfloor_resp_le.
    unfold Qdiv. apply Qmult_le_compat_r; [exact Hnum|].
    apply Qlt_le_weak. apply Qinv_lt_0_compat. exact Hpos.
  - rewrite (zero_cmp f (Qeq_sym _ _ Hz)).
    destruct (a + - off ?= 0) eqn:Ha; cbn [xq_inf_of xq_floor_u8];
      try (apply xq_floor_u8_range).
    apply Qgt_alt in Ha.
    assert (Hb : 0 < b + - off) by (apply Qlt_le_trans with (a + - off); assumption).
    apply Qgt_alt in Hb. rewrite Hb. cbn. lia.
Qed.

Theorem scale_monotone K (m : list (list xq)) (d : @dmat xq) (s t : xq) :
  Forall (fun row => Forall xq_finite (nonwild K row)) m ->
  to_discrete xq_ops K m = Ok d ->
  xq_le s t -> (scale xq_ops d s <= scale xq_ops d t)%Z.
Proof.
  intros Hfin Hd Hle.
  destruct (to_discrete_fin K m d Hfin Hd) as [os [f [_ [Hoff [Hfac [Hf _]]]]]].
  unfold scale, scale_with. rewrite Hfac, Hoff. apply (scaleq_mono f _ s t Hf Hle).
Qed.

Theorem threshold_transfer K (m : list (list xq)) (d : @dmat xq) (w : list nat) (real t : xq) (b : Z) :
  Forall (fun row => Forall xq_finite (nonwild K row)) m ->
  to_discrete xq_ops K m = Ok d ->
  real_wscore xq_ops m w = Ok real ->
  disc_wscore (d_data d) w = Ok b ->
  xq_le t real ->
  (scale xq_ops d t <= b)%Z.
Proof.
  intros Hfin Hd Hreal Hb Hle.
  apply Z.le_trans with (scale xq_ops d real).
  - exact (scale_monotone K m d t real Hfin Hd Hle).
  - exact (discrete_overestimates K m d w real b Hfin Hd Hreal Hb).
Qed.

(* the executable check is the property *)
Lemma first_bad_none {T} (N : NumOps T) factor offset obs : forall i,
  first_bad N factor offset i obs = None ->
  Forall (fun p => (scale_with N factor offset (snd p) <= fst p)%Z) obs.
Proof.
  induction obs as [|[b r] obs IH]; intros i H; [constructor|].
  cbn [first_bad] in H. destruct (check_pos N factor offset b r) eqn:Hc; [|discriminate].
  constructor; [|exact (IH _ H)]. unfold check_pos in Hc. apply Z.leb_le in Hc. exact Hc.
Qed.

Lemma check_C08_sound {T} (N : NumOps T) factor offset obs :
  check_C08 N factor offset obs = true ->
  Forall (fun p => (scale_with N factor offset (snd p) <= fst p)%Z) obs.
Proof.
  unfold check_C08. destruct (first_bad N factor offset 0 obs) eqn:H; [discriminate|].
  intros _. exact (first_bad_none N factor offset obs 0 H).
Qed.

Lemma check_C08_complete {T} (N : NumOps T) factor offset obs :
  Forall (fun p => (scale_with N factor offset (snd p) <= fst p)%Z) obs ->
  check_C08 N factor offset obs = true.
Proof.
  unfold check_C08. intros H.
  assert (G : forall i, first_bad N factor offset i obs = None).
  { induction H as [|[b r] obs Hp Hobs IH]; intros i; cbn [first_bad]; [reflexivity|].
    unfold check_pos. cbn [fst snd] in Hp. apply Z.leb_le in Hp. rewrite Hp. apply IH. }
  rewrite G. reflexivity.
Qed.
