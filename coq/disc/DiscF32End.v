(* End to end in binary32: for every arm of the dispatcher and every position, the byte found in
   the arm's score matrix is at least the image of the binary32 real score of that position,
   under the conditioning predicate (and the side conditions of DiscF32Zero.f32_main_all_factors). *)
From Coq Require Import List ZArith Bool Arith Lia.
From LMBase Require Import Res ListX IEEE.
From LMDisc Require Import DiscModel DiscImplCheck DiscProofs DiscKernels DiscF32Zero.
Import ListNotations.

Theorem backends_overestimate_f32 (K : nat) (m : list (list F32.t)) (d : @dmat F32.t) (pads : nat -> list Z)
        (s : list nat) (a : arm) (i : nat) :
  0 < K -> K <= 16 ->
  Forall (fun row => length row = K) m ->
  Forall (fun row => Forall (fun x => F32.is_finite x = true) (nonwild K row)) m ->
  to_discrete f32_ops K m = Ok d ->
  (forall i, 16 <= K + length (pads i)) ->
  Forall (fun v => v < K) s ->
  1 <= length m -> i + length m <= length s ->
  well_conditioned m (d_factor d) = true ->
  factor_sign_clear (d_factor d) = true ->
  (Z.of_nat (length m) <= 16384)%Z ->
  F32.le (cond_A m) (F32.of_Z_exp 1 126) = true ->
  exists sc b real,
    score_u8 a (d_data d) pads (striped K 32 (configure_wrap_of (length m)) s) = Ok sc /\
    sc_index sc i = Ok b /\
    disc_score (d_data d) (striped K 32 (configure_wrap_of (length m)) s) i = Ok b /\
    real_score f32_ops m (striped K 32 (configure_wrap_of (length m)) s) i = Ok real /\
    (scale f32_ops d real <= b)%Z.
Proof.
  intros HK HK16 Hm Hfin Hd Hp Hs HM Hi Hwc Hsc Hlen HA.
  destruct (to_discrete_inv K m d Hd) as [os [Hos [_ [_ Hdata]]]].
  assert (Hl2 : length os = length m) by (apply (map_res_length _ _ _ Hos)).
  destruct (disc_rows_shape f32_ops K (d_factor d) m os Hl2 Hm) as [Hdl Hdk].
  rewrite <- Hdata in Hdl, Hdk.
  assert (Hcw : configure_wrap_of (length m) = length m - 1).
  { unfold configure_wrap_of. destruct (Nat.eqb_spec (length m) 0); [lia|reflexivity]. }
  rewrite Hcw. set (wrapn := length m - 1).
  destruct (score_u8_windows K (d_data d) pads s wrapn HK HK16 Hdk Hp Hs) as [sc [Hsc' [_ [_ Hidx]]]];
    try (rewrite Hdl; unfold wrapn; lia).
  assert (HiR : i < (length s + 31) / 32 * 32).
  { pose proof (L_le_RC 32 s ltac:(lia)) as HLR. change (32 - 1) with 31 in HLR. lia. }
  specialize (Hidx i HiR). rewrite Hdl in Hidx.
  pose proof (wval_ok K (d_data d) s i HK Hdk Hs) as Hb. rewrite Hdl in Hb.
  rewrite window_win in Hidx.
  set (b := wval (d_data d) (win s (K - 1) i (length m))) in *.
  destruct (wscore_from_total F32.add K m (n_zero f32_ops) (win s (K - 1) i (length m)) Hm (win_ok K s i _ HK Hs))
    as [real Hreal]; [rewrite win_length; lia|].
  exists sc, b, real. split; [apply Hsc'|]. split; [rewrite Hidx; exact Hb|]. split; [|split].
  - unfold disc_score. rewrite (score_position_window sat_add 0%Z K wrapn (d_data d) s i) by (rewrite Hdl; exact Hi).
    rewrite Hdl, window_win. exact Hb.
  - unfold real_score. rewrite (score_position_window _ _ K wrapn m s i Hi). rewrite window_win. exact Hreal.
  - apply (f32_main_all_factors K m d (win s (K - 1) i (length m)) real b Hfin Hd); try assumption.
Qed.
