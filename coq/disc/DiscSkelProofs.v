(* The discretisation functions obtained from the GENERATED statement skeleton (GenDiscSkel.v, from pwm/mod.rs)
   are the hand-written ones of DiscModel.v; a skeleton that differs in one rounding mode violates C08. *)
From Coq Require Import List ZArith QArith Bool Arith Lia.
From LMBase Require Import Res ListX.
From LMDisc Require Import DiscModel DiscSkel GenDiscSkel.
Import ListNotations.
Local Open Scope nat_scope.

Lemma gen_skel_expected : gen_skel = expected_skel.
Proof. reflexivity. Qed.

Section Eq.
  Context {T : Type}.
  Variable N : NumOps T.

  Lemma skp_disc_rows_expected (f : T) : forall (m : list (list T)) (os : list T),
    skp_disc_rows N expected_skel f m os = disc_rows N f m os.
  Proof.
    induction m as [|row m IH]; intros os; [reflexivity|].
    destruct os as [|o os]; [reflexivity|]. cbn [skp_disc_rows disc_rows]. rewrite IH. reflexivity.
  Qed.

  Theorem skel_to_discrete (K : nat) (m : list (list T)) : skp_to_discrete N gen_skel K m = to_discrete N K m.
  Proof.
    rewrite gen_skel_expected. unfold skp_to_discrete, to_discrete.
    destruct (max_score N K m) as [mx| | |]; cbn [rbind]; try reflexivity.
  Qed.

  Theorem skel_scale (factor offset s : T) : skp_scale_with N gen_skel factor offset s = scale_with N factor offset s.
  Proof. rewrite gen_skel_expected. reflexivity. Qed.

  Theorem skel_unscale (factor offset : T) (b : Z) : skp_unscale_with N gen_skel factor offset b = unscale_with N factor offset b.
  Proof. rewrite gen_skel_expected. reflexivity. Qed.
End Eq.

Theorem skel_disc_score (dm : list (list Z)) (s : sseq) (pos : nat) : skp_disc_score gen_skel dm s pos = disc_score dm s pos.
Proof. rewrite gen_skel_expected. reflexivity. Qed.

(* ---------- what the skeleton decides: one other rounding mode and C08 is false ---------- *)

(* cells rounded DOWN (`.floor() as u8` in to_discrete), everything else as in the source *)
Definition floor_cells_skel : skel := {|
  sk_off_red := RedMinBy; sk_off_drop := 1;
  sk_factor := sk_factor expected_skel; sk_cell := sk_cell expected_skel; sk_cell_rnd := RFloor;
  sk_scale := sk_scale expected_skel; sk_scale_rnd := RFloor; sk_unscale := sk_unscale expected_skel;
  sk_sp_acc := AccSaturating; sk_sp_start := 0%Z |}.

(* two rows with cells 0 / 1 and 0 / 3 (wildcard -inf): factor 4/255, the consensus word scores 4 *)
Definition skel_wit_matrix : list (list xq) :=
  [[XFin 0; XFin 1; XFin 0; XFin 0; XNInf]; [XFin 0; XFin 3; XFin 0; XFin 0; XNInf]].
Definition skel_wit_seq : sseq := striped 5 32 1 [1; 1].     (* "CC" *)

(* (byte score of position 0, byte image of its real score) under a skeleton *)
Definition skel_outcome (S : skel) : res (Z * Z) :=
  d <- skp_to_discrete xq_ops S 5 skel_wit_matrix ;;
  b <- skp_disc_score S (d_data d) skel_wit_seq 0 ;;
  real <- real_score xq_ops skel_wit_matrix skel_wit_seq 0 ;;
  Ok (b, skp_scale_with xq_ops S (d_factor d) (d_offset d) real).

Lemma skel_outcomes :
  skel_outcome gen_skel = Ok (255, 255)%Z /\
  skel_outcome floor_cells_skel = Ok (254, 255)%Z.
Proof. split; vm_compute; reflexivity. Qed.

