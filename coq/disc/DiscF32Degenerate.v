(* binary32, factor +0.0 (every row constant over the non-wildcard symbols, or a score range so small that
   range/255 underflows to zero): the exact behaviour of to_discrete's cells as coded -- a cell is 255 when its
   entry is strictly above the row offset (the quotient is +inf) and 0 otherwise (the quotient is NaN = 0/0,
   or -inf, or the entry is NaN); no cell in between. *)
From Coq Require Import ZArith Reals List Bool Lia Lra.
From Coq Require Import SpecFloat.
From Flocq Require Import Core BinarySingleNaN.
From LMBase Require Import Res ListX IEEE.
From LMDisc Require Import DiscModel DiscProofs DiscF32Mono DiscF32Main DiscF32Zero.
Import ListNotations.

Local Open Scope R_scope.

Lemma cbyte_div_zero_nonpos (u : f32) : fin u = true -> B2R u <= 0 -> cbyte (F32.div u pzero) = 0%Z.
Proof.
  intros Hu Hle. destruct u as [su|su| |su mu eu Hbu]; try discriminate Hu.
  - destruct su; reflexivity.
  - destruct su; [reflexivity|]. exfalso.
    assert (0 < B2R (B754_finite false mu eu Hbu : f32)) by (apply F2R_gt_0; cbn; lia). lra.
Qed.

Lemma cell_not_above_zero (x o : f32) : fin o = true -> F32.lt o x = false ->
  disc_cell f32_ops pzero o x = 0%Z.
Proof.
  intros Ho Hlt. rewrite disc_cell_f32.
  destruct (not_lt_not_above x o Ho Hlt) as [[Hn|Hle] _]; cbn [fst snd] in *.
  - subst x. destruct o; reflexivity.
  - destruct (fin x) eqn:Fx.
    + apply (fle_finite x o Fx Ho) in Hle.
      pose proof (sub_rspec x o Fx Ho) as H. unfold rspec in H.
      destruct (Rlt_bool (Rabs (rnd32 (B2R x - B2R o))) big) eqn:Eb.
      * destruct H as [HR HF]. apply cbyte_div_zero_nonpos; [exact HF|].
        rewrite HR. rewrite <- rnd32_0. apply rnd32_le. lra.
      * destruct H as [Hq [Hs1 Hs2]]. rewrite Hq. destruct (Bsign x) eqn:Sx; [reflexivity|].
        specialize (Hs2 eq_refl).
        (* overflow towards +inf needs x - o >= 0, so x - o = 0, which does not overflow *)
        assert (E : B2R x - B2R o = 0) by lra.
        exfalso. rewrite E, rnd32_0, Rabs_R0 in Eb.
        rewrite Rlt_bool_true in Eb by apply big_pos. discriminate Eb.
    + destruct x as [sx|[|]| |sx mx ex Hbx]; try discriminate Fx.
      * (* -inf: the quotient is -inf *)
        destruct o as [so|so| |so mo eo Hbo]; try discriminate Ho; reflexivity.
      * (* +inf <= o with o finite: impossible *)
        exfalso. unfold fle, F32.le, IEEE.fle, fcmp in Hle.
        destruct o as [so|so| |so mo eo Hbo]; try discriminate Ho; cbn in Hle; discriminate Hle.
      * exfalso. unfold fle, F32.le, IEEE.fle, fcmp in Hle. destruct o; cbn in Hle; discriminate Hle.
Qed.

(* the cells of a row under the factor +0.0 *)
Theorem zero_factor_cell (x o : f32) : fin o = true ->
  disc_cell f32_ops pzero o x = if F32.lt o x then 255%Z else 0%Z.
Proof.
  intros Ho. destruct (F32.lt o x) eqn:E; [apply cell_above_zero|apply cell_not_above_zero]; assumption.
Qed.
