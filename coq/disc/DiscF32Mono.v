(* Monotonicity of DiscreteMatrix::scale in binary32 arithmetic (Flocq):
     scale(s) = ((s - offset) / factor).floor() as u8
   every step is a monotone rounding of a monotone real function, provided the factor is
   not negative (sign bit clear: +0, positive, +inf or NaN).  The NaN / infinity cases are
   part of the statement: scale is monotone on ALL non-NaN inputs, for ANY offset.
   With a factor of -0.0 (which to_discrete does produce, see DiscIEEE.v) it is false. *)
From Coq Require Import ZArith Reals List Bool Lia Lra Psatz.
From Coq Require Import SpecFloat.
From Flocq Require Import Core BinarySingleNaN.
From LMBase Require Import Res ListX IEEE.
From LMDisc Require Import DiscModel DiscImplCheck DiscIEEE.
Import ListNotations.

Local Open Scope R_scope.

Notation fexp32 := (SpecFloat.fexp 24 128).
Notation rnd32 := (round radix2 fexp32 (round_mode mode_NE)).
Notation fin := (@BinarySingleNaN.is_finite 24 128).
Notation big := (bpow radix2 128).

Local Instance vexp32 : Valid_exp fexp32 := fexp_correct 24 128 Hprec32.
Local Instance vrnd32 : Valid_rnd (round_mode mode_NE) := valid_rnd_round_mode mode_NE.

(* x <= y for IEEE comparison *)
Definition fle (x y : f32) : Prop := F32.le x y = true.

Lemma fle_finite (x y : f32) : fin x = true -> fin y = true -> (fle x y <-> B2R x <= B2R y).
Proof.
  intros Hx Hy. unfold fle, F32.le, IEEE.fle, fcmp.
  rewrite (Bcompare_correct 24 128 x y Hx Hy).
  destruct (Rcompare_spec (B2R x) (B2R y)); split; intros H'; try reflexivity; try discriminate; lra.
Qed.

Lemma Bsign_true_R (x : f32) : fin x = true -> Bsign x = true -> B2R x <= 0.
Proof.
  destruct x as [s|s| |s m e H]; try discriminate; cbn [Bsign B2R]; intros _ Hs.
  - lra.
  - subst s. left. apply F2R_lt_0. cbn. lia.
Qed.

Lemma Bsign_false_R (x : f32) : fin x = true -> Bsign x = false -> 0 <= B2R x.
Proof.
  destruct x as [s|s| |s m e H]; try discriminate; cbn [Bsign B2R]; intros _ Hs.
  - lra.
  - subst s. left. apply F2R_gt_0. cbn. lia.
Qed.

Lemma B2SF_inf (r : f32) s : B2SF r = S754_infinity s -> r = B754_infinity s.
Proof. destruct r; cbn; intros H; inversion H; reflexivity. Qed.

(* what the correctness theorems of Flocq say of a rounded operation whose exact result is x:
   the result is the rounding of x, or the infinity of the sign of x on overflow *)
Definition rspec (x : R) (a : f32) (sx : bool) : Prop :=
  if Rlt_bool (Rabs (rnd32 x)) big
  then B2R a = rnd32 x /\ fin a = true
  else a = B754_infinity sx /\ (sx = true -> x <= 0) /\ (sx = false -> 0 <= x).

Lemma rnd32_le x y : x <= y -> rnd32 x <= rnd32 y.
Proof. intros H. apply round_le; auto with typeclass_instances. Qed.

Lemma rnd32_0 : rnd32 0 = 0.
Proof. apply round_0. auto with typeclass_instances. Qed.

Lemma big_pos : 0 < big.
Proof. apply bpow_gt_0. Qed.

Lemma fle_fin_pinf (a : f32) : fin a = true -> fle a (B754_infinity false).
Proof. destruct a as [s|s| |s m e H]; try discriminate; intros _; destruct s; reflexivity. Qed.

Lemma fle_ninf_fin (b : f32) : fin b = true -> fle (B754_infinity true) b.
Proof. destruct b as [s|s| |s m e H]; try discriminate; intros _; destruct s; reflexivity. Qed.

(* rounding with overflow to the infinities is monotone *)
Lemma rspec_mono x y a b sx sy : x <= y -> rspec x a sx -> rspec y b sy -> fle a b.
Proof.
  intros Hxy. unfold rspec.
  pose proof (rnd32_le x y Hxy) as Hr. pose proof big_pos as Hbig.
  destruct (Rlt_bool_spec (Rabs (rnd32 x)) big) as [Hx|Hx];
    destruct (Rlt_bool_spec (Rabs (rnd32 y)) big) as [Hy|Hy].
  - intros [Ha Fa] [Hb Fb]. apply fle_finite; try assumption. rewrite Ha, Hb. exact Hr.
  - intros [Ha Fa] [Hb [Hs1 Hs2]]. subst b. destruct sy.
    + exfalso. specialize (Hs1 eq_refl).
      pose proof (rnd32_le y 0 Hs1) as H0. rewrite rnd32_0 in H0.
      rewrite Rabs_left1 in Hy by exact H0.
      assert (Hx0 : rnd32 x <= 0) by lra. rewrite Rabs_left1 in Hx by exact Hx0. lra.
    + apply fle_fin_pinf. exact Fa.
  - intros [Ha [Hs1 Hs2]] [Hb Fb]. subst a. destruct sx.
    + apply fle_ninf_fin. exact Fb.
    + exfalso. specialize (Hs2 eq_refl).
      pose proof (rnd32_le 0 x Hs2) as H0. rewrite rnd32_0 in H0.
      rewrite Rabs_pos_eq in Hx by exact H0.
      assert (Hy0 : 0 <= rnd32 y) by lra. rewrite Rabs_pos_eq in Hy by exact Hy0. lra.
  - intros [Ha [Hs1 Hs2]] [Hb [Ht1 Ht2]]. subst a b. destruct sx; [destruct sy; reflexivity|].
    destruct sy; [|reflexivity]. exfalso.
    specialize (Hs2 eq_refl). specialize (Ht1 eq_refl).
    assert (x = 0) by lra. subst x. rewrite rnd32_0, Rabs_R0 in Hx. lra.
Qed.

Lemma sub_rspec (s o : f32) : fin s = true -> fin o = true ->
  rspec (B2R s - B2R o) (F32.sub s o) (Bsign s).
Proof.
  intros Hs Ho. unfold rspec.
  pose proof (Bminus_correct 24 128 _ _ mode_NE s o Hs Ho) as H.
  change (Bminus mode_NE s o) with (F32.sub s o) in H.
  destruct (Rlt_bool (Rabs (rnd32 (B2R s - B2R o))) big).
  - destruct H as [HR [HF _]]. split; assumption.
  - destruct H as [HB Hsg]. split; [apply B2SF_inf; exact HB|]. split; intros E.
    + pose proof (Bsign_true_R s Hs E). rewrite E in Hsg.
      assert (H1 : Bsign o = false) by (destruct (Bsign o); [discriminate|reflexivity]).
      pose proof (Bsign_false_R o Ho H1). lra.
    + pose proof (Bsign_false_R s Hs E). rewrite E in Hsg.
      assert (H1 : Bsign o = true) by (destruct (Bsign o); [reflexivity|discriminate]).
      pose proof (Bsign_true_R o Ho H1). lra.
Qed.

Lemma div_rspec (u f : f32) : fin u = true -> fin f = true -> 0 < B2R f ->
  rspec (B2R u / B2R f) (F32.div u f) (Bsign u).
Proof.
  intros Hu Hf Hpos. unfold rspec.
  assert (Hne : B2R f <> 0) by lra.
  pose proof (Bdiv_correct 24 128 _ _ mode_NE u f Hne) as H.
  change (Bdiv mode_NE u f) with (F32.div u f) in H.
  assert (Hsf : Bsign f = false).
  { destruct (Bsign f) eqn:E; [|reflexivity]. pose proof (Bsign_true_R f Hf E). lra. }
  pose proof (Rinv_0_lt_compat _ Hpos) as Hinv.
  destruct (Rlt_bool (Rabs (rnd32 (B2R u / B2R f))) big).
  - destruct H as [HR [HF _]]. split; [exact HR|]. rewrite HF. exact Hu.
  - rewrite Hsf, xorb_false_r in H. split; [apply B2SF_inf; exact H|]. unfold Rdiv. split; intros E.
    + pose proof (Bsign_true_R u Hu E). nra.
    + pose proof (Bsign_false_R u Hu E). nra.
Qed.

(* ---------- floor and the saturating cast ---------- *)

Definition byte (q : f32) : Z := F32.to_u8 (F32.floor q).

Lemma byte_range q : (0 <= byte q <= 255)%Z.
Proof.
  unfold byte, F32.to_u8, to_u8, cast_sat.
  destruct (F32.floor q) as [s|s| |s m e H]; try destruct s; lia.
Qed.

Lemma to_u8_fin (p : f32) : fin p = true -> F32.to_u8 p = clamp (Btrunc p).
Proof. destruct p as [s|s| |s m e H]; try discriminate; intros _; reflexivity. Qed.

Lemma byte_fin (q : f32) : fin q = true -> byte q = clamp (Zfloor (B2R q)).
Proof.
  intros Hq. unfold byte, F32.floor, ffloor.
  destruct (Bnearbyint_correct 24 128 Hmax32 mode_DN q) as [HR [HF _]].
  rewrite to_u8_fin by (rewrite HF; exact Hq). f_equal.
  apply eq_IZR. rewrite Btrunc_correct, HR. rewrite !round_FIX_IZR. cbn [round_mode].
  rewrite Ztrunc_IZR. reflexivity. exact Hmax32.
Qed.

Lemma clamp_le a b : (a <= b)%Z -> (clamp a <= clamp b)%Z.
Proof. unfold clamp. lia. Qed.

Lemma byte_fle_fin (p q : f32) : fin p = true -> fin q = true -> fle p q -> (byte p <= byte q)%Z.
Proof.
  intros Hp Hq H. rewrite !byte_fin by assumption. apply clamp_le. apply Zfloor_le.
  apply fle_finite; assumption.
Qed.

Ltac kill H := exfalso; unfold fle, F32.le, IEEE.fle, fcmp in H; cbn in H; discriminate H.

Lemma byte_fle (p q : f32) : fle p q -> (byte p <= byte q)%Z.
Proof.
  intros H.
  destruct (fin p) eqn:Fp; destruct (fin q) eqn:Fq.
  - apply byte_fle_fin; assumption.
  - destruct q as [sq|[|]| |sq mq eq0 Hq]; try discriminate Fq.
    + destruct p as [sp|sp| |sp mp ep Hp]; try discriminate Fp; kill H.
    + change (byte (B754_infinity false)) with 255%Z. apply byte_range.
    + destruct p as [sp|sp| |sp mp ep Hp]; try discriminate Fp; kill H.
  - destruct p as [sp|[|]| |sp mp ep Hp]; try discriminate Fp.
    + change (byte (B754_infinity true)) with 0%Z. apply byte_range.
    + destruct q as [sq|sq| |sq mq eq0 Hq]; try discriminate Fq; kill H.
    + kill H.
  - destruct p as [sp|[|]| |sp mp ep Hp]; try discriminate Fp;
      destruct q as [sq|[|]| |sq mq eq0 Hq]; try discriminate Fq;
      try (kill H); vm_compute; discriminate.
Qed.

(* ---------- the subtraction ---------- *)

(* how s - o and t - o are related when s <= t: the first is NaN (its byte is 0), or the
   second is NaN (byte 0) and the first is -inf (byte 0 as well), or they are in order *)
Definition sub_rel (u v : f32) : Prop :=
  u = B754_nan \/ (v = B754_nan /\ u = B754_infinity true) \/ fle u v.

Lemma sub_fin_not_nan (s o : f32) : fin s = true -> fin o = true -> F32.sub s o <> B754_nan.
Proof.
  intros Hs Ho E. pose proof (sub_rspec s o Hs Ho) as H. unfold rspec in H. rewrite E in H.
  destruct (Rlt_bool _ _); [destruct H as [_ H]|destruct H as [H _]]; discriminate H.
Qed.

Lemma fle_ninf_any (v : f32) : v <> B754_nan -> fle (B754_infinity true) v.
Proof. destruct v as [s|[|]| |s m e H]; intros Hn; try reflexivity. exfalso. apply Hn. reflexivity. Qed.

Lemma fle_any_pinf (u : f32) : u <> B754_nan -> fle u (B754_infinity false).
Proof.
  destruct u as [s|[|]| |s m e H]; intros Hn; try reflexivity; try (destruct s; reflexivity).
  exfalso. apply Hn. reflexivity.
Qed.

Lemma sub_mono_fin (s t o : f32) : fin s = true -> fin t = true -> fin o = true ->
  fle s t -> fle (F32.sub s o) (F32.sub t o).
Proof.
  intros Hs Ht Ho H. apply (fle_finite s t Hs Ht) in H.
  apply (rspec_mono (B2R s - B2R o) (B2R t - B2R o) _ _ (Bsign s) (Bsign t)); [lra| |];
    apply sub_rspec; assumption.
Qed.

Lemma sub_mono_fin_o (s t o : f32) : fin o = true -> fle s t -> sub_rel (F32.sub s o) (F32.sub t o).
Proof.
  intros Ho H. right. right.
  destruct (fin s) eqn:Fs; destruct (fin t) eqn:Ft.
  - apply sub_mono_fin; assumption.
  - destruct t as [st|[|]| |st mt et Ht]; try discriminate Ft.
    + destruct s as [ss|ss| |ss ms es Hs]; try discriminate Fs; kill H.
    + replace (F32.sub (B754_infinity false) o) with (B754_infinity false : f32)
        by (destruct o as [so|so| |so mo eo Ho']; try discriminate Ho; reflexivity).
      apply fle_any_pinf. apply sub_fin_not_nan; assumption.
    + destruct s as [ss|ss| |ss ms es Hs]; try discriminate Fs; kill H.
  - destruct s as [ss|[|]| |ss ms es Hs]; try discriminate Fs.
    + replace (F32.sub (B754_infinity true) o) with (B754_infinity true : f32)
        by (destruct o as [so|so| |so mo eo Ho']; try discriminate Ho; reflexivity).
      apply fle_ninf_any. apply sub_fin_not_nan; assumption.
    + destruct t as [st|st| |st mt et Ht]; try discriminate Ft; kill H.
    + kill H.
  - destruct s as [ss|[|]| |ss ms es Hs]; try discriminate Fs;
      destruct t as [st|[|]| |st mt et Ht]; try discriminate Ft; try (kill H);
      destruct o as [so|so| |so mo eo Ho']; try discriminate Ho; reflexivity.
Qed.

Lemma sub_mono (s t o : f32) : fle s t -> sub_rel (F32.sub s o) (F32.sub t o).
Proof.
  intros H. destruct (fin o) eqn:Fo; [apply sub_mono_fin_o; assumption|].
  destruct o as [so|[|]| |so mo eo Ho]; try discriminate Fo;
    destruct s as [ss|[|]| |ss ms es Hs]; destruct t as [st|[|]| |st mt et Ht];
    try (kill H);
    first [ left; reflexivity | right; left; split; reflexivity | right; right; reflexivity ].
Qed.

(* ---------- the division, the floor and the cast ---------- *)

Lemma byte_div_nan (x : f32) : byte (F32.div x B754_nan) = 0%Z.
Proof. destruct x as [s|s| |s m e H]; reflexivity. Qed.

Lemma byte_div_pinf (x : f32) : byte (F32.div x (B754_infinity false)) = 0%Z.
Proof. destruct x as [[|]|[|]| |[|] m e H]; reflexivity. Qed.

Lemma div_mono_fin (u v f : f32) : fin u = true -> fin v = true -> fin f = true -> 0 < B2R f ->
  fle u v -> fle (F32.div u f) (F32.div v f).
Proof.
  intros Hu Hv Hf Hpos H. apply (fle_finite u v Hu Hv) in H.
  pose proof (Rinv_0_lt_compat _ Hpos) as Hinv.
  apply (rspec_mono (B2R u / B2R f) (B2R v / B2R f) _ _ (Bsign u) (Bsign v));
    [unfold Rdiv; nra| |]; apply div_rspec; assumption.
Qed.

Lemma div_byte_mono (u v f : f32) : Bsign f = false -> sub_rel u v ->
  (byte (F32.div u f) <= byte (F32.div v f))%Z.
Proof.
  intros Hsf Hrel.
  destruct f as [sf|sf| |sf mf ef Hf]; cbn [Bsign] in Hsf; try subst sf.
  - (* factor +0: x/0 is -inf, NaN or +inf according to the sign of x *)
    destruct Hrel as [E|[[E1 E2]|E]]; try subst u; try subst v.
    + change (byte (F32.div B754_nan (B754_zero false))) with 0%Z. apply byte_range.
    + vm_compute. discriminate.
    + destruct u as [[|]|[|]| |[|] mu eu Hu]; destruct v as [[|]|[|]| |[|] mv ev Hv];
        try (kill E); vm_compute; discriminate.
  - (* factor +inf *) rewrite !byte_div_pinf. lia.
  - (* factor NaN *) rewrite !byte_div_nan. lia.
  - (* positive finite factor *)
    assert (Hpos : 0 < B2R (B754_finite false mf ef Hf : f32)) by (apply F2R_gt_0; cbn; lia).
    set (f := B754_finite false mf ef Hf : f32) in *.
    assert (Hninf : byte (F32.div (B754_infinity true) f) = 0%Z) by reflexivity.
    assert (Hpinf : byte (F32.div (B754_infinity false) f) = 255%Z) by reflexivity.
    assert (Hnan : byte (F32.div B754_nan f) = 0%Z) by reflexivity.
    destruct Hrel as [E|[[E1 E2]|E]]; try subst u; try subst v.
    + rewrite Hnan. apply byte_range.
    + rewrite Hninf. apply byte_range.
    + destruct (fin u) eqn:Fu; destruct (fin v) eqn:Fv.
      * apply byte_fle. apply div_mono_fin; try assumption. reflexivity.
      * destruct v as [sv|[|]| |sv mv ev Hv]; try discriminate Fv.
        -- destruct u as [su|su| |su mu eu Hu]; try discriminate Fu; kill E.
        -- rewrite Hpinf. apply byte_range.
        -- destruct u as [su|su| |su mu eu Hu]; try discriminate Fu; kill E.
      * destruct u as [su|[|]| |su mu eu Hu]; try discriminate Fu.
        -- rewrite Hninf. apply byte_range.
        -- destruct v as [sv|sv| |sv mv ev Hv]; try discriminate Fv; kill E.
        -- kill E.
      * destruct u as [su|[|]| |su mu eu Hu]; try discriminate Fu;
          destruct v as [sv|[|]| |sv mv ev Hv]; try discriminate Fv; try (kill E);
          rewrite ?Hninf, ?Hpinf; lia.
Qed.

(* ---------- DiscreteMatrix::scale is monotone ---------- *)

Theorem scale_with_f32_mono (f o s t : F32.t) :
  factor_sign_clear f = true -> F32.le s t = true ->
  (scale_with f32_ops f o s <= scale_with f32_ops f o t)%Z.
Proof.
  intros Hf H. unfold scale_with. cbn [f32_ops n_floor_u8 n_div n_sub].
  change (byte (F32.div (F32.sub s o) f) <= byte (F32.div (F32.sub t o) f))%Z.
  apply div_byte_mono.
  - unfold factor_sign_clear, sign in Hf. destruct (Bsign f); [discriminate|reflexivity].
  - apply sub_mono. exact H.
Qed.

(* consequence clause of C08 in binary32: once the byte score of a position is at least the
   image of its real score (main clause), it is at least the image of every threshold that
   the real score meets *)
Theorem threshold_transfer_f32 (f o real t : F32.t) (b : Z) :
  factor_sign_clear f = true ->
  (scale_with f32_ops f o real <= b)%Z ->
  F32.le t real = true ->
  (scale_with f32_ops f o t <= b)%Z.
Proof.
  intros Hf Hm Hle. pose proof (scale_with_f32_mono f o t real Hf Hle). lia.
Qed.

(* ---------- the factor -0.0 (former finding F14b) ---------- *)

(* One row whose non-wildcard cells are all zeros, the first +0.0 and the last -0.0:
   min_by keeps the FIRST of equal minima (+0.0), max_by the LAST of equal maxima (-0.0), so
   offset = -0.0 + +0.0 = +0.0, max_score = -0.0 + -0.0 = -0.0 and max_score - offset = -0.0.
   Before the repair of to_discrete (`.abs()` on the range) the factor was -0.0 and the threshold
   -1.0 <= 0.0 was mapped to (-1.0 - 0.0) / -0.0 = +inf -> 255.  With the repair the factor is +0.0
   and the threshold maps to 0 (regression example; corpus/C08/negzero_factor.txt). *)
Definition negz_matrix : list (list F32.t) :=
  [map F32.of_bits [0; 2147483648; 2147483648; 2147483648; 4286578688]%Z].

(* byte score, image of the real score, image of the threshold, t <= real score,
   conditioning predicate, sign bit of the factor clear *)
Definition f32_transfer_outcome (m : list (list F32.t)) (s : list nat) (pos : nat) (t : F32.t)
  : res (Z * Z * Z * bool * bool * bool) :=
  d <- to_discrete f32_ops 5 m ;;
  let ss := striped 5 32 (configure_wrap_of (length m)) s in
  real <- real_score f32_ops m ss pos ;;
  b <- disc_score (d_data d) ss pos ;;
  Ok (b, scale f32_ops d real, scale f32_ops d t, F32.le t real,
      well_conditioned m (d_factor d), factor_sign_clear (d_factor d)).

Lemma negz_outcome :
  f32_transfer_outcome negz_matrix [0%nat] 0 (F32.of_bits 3212836864) = Ok (0, 0, 0, true, true, true)%Z.
Proof. vm_compute. reflexivity. Qed.
