(* Property C08 — 8-bit discretised scores never under-estimate the real score.
   This file contains only the property theorems (closed by [exact] of lemmas from
   DiscProofs / DiscKernels / DiscIEEE), statement pins and non-vacuity examples.

   Full statement (properties.jsonl): for any scoring matrix with finite entries over
   the non-wildcard symbols, any sequence and any position, the 8-bit score computed by
   any backend from the discretised matrix is >= the 8-bit image (DiscreteMatrix::scale)
   of that position's real score; consequently score >= t implies byte score >= scale(t).

   What is proved:
   * in EXACT arithmetic (the model instantiated with extended rationals, xq_ops): the
     full statement, for every matrix (any alphabet size K, any width, wildcard column arbitrary: finite,
     -inf, +inf or NaN; constant matrices, i.e. factor 0, included), every window
     (C08_discrete_overestimates, C08_threshold_transfer);
   * from the byte a BACKEND writes at index i of its score matrix to window i:
       - the generic kernel (trait default: Pipeline::generic(), Pipeline::sse2(), the Generic / Sse2 arms of the
         dispatcher), ANY alphabet size K (Protein K = 21 included) and ANY number of columns C:
         C08_generic_backend_overestimates (exact), C08_generic_backend_overestimates_f32_partial (binary32);
       - the AVX2 kernel and the three arms of the x86 dispatcher: K <= 16 (the kernel exists for Dna only) and
         C = 32: C08_backends_overestimate, C08_backends_overestimate_f32_partial.  THIS RESTRICTION (K <= 16, C = 32,
         arms Generic / Sse2 / Avx2) is inherent to those two statements, not to the property;
       - the NEON kernel and the arms of the dispatcher on Arm hosts: K <= 16, C = 16 q: C08_arm_hosts_overestimate;
     all arms return the same score matrix (C08_dispatch_arms_agree, C08_neon_eq_generic); u8 arithmetic is
     exact, so these hold for the code's own numbers; on a REUSED buffer: C08_scores_history;
   * in BINARY32 arithmetic (what the code computes, f32_ops) the statement is FALSE for
     ill-conditioned matrices: C08_ieee_refuted (known finding F14).  Proved for binary32: scale is monotone when
     the sign bit of the factor is clear (C08_scale_monotone_f32), so the consequence clause
     follows from the main clause (C08_threshold_transfer_f32); to_discrete's factor always has
     its sign bit clear (C08_factor_sign_clear; before the repair of F14b, /repo fd98893, it could be -0.0);
     the MAIN clause under the conditioning predicate [well_conditioned] plus TWO side conditions (at most
     16384 rows, cond_A <= 2^126): C08_f32_main_well_conditioned_partial and the `_f32_partial` end-to-end
     statements.  Without the side conditions / the predicate the binary32 main clause is only checked on
     every run by the correspondence harness. *)
From Coq Require Import List ZArith QArith Bool Arith Lia Reals Lra.
From Flocq Require Import Core BinarySingleNaN.
From LMBase Require Import Res ListX IEEE.
From LMDisc Require Import DiscModel DiscSkel GenDiscSkel DiscSkelProofs DiscImplCheck DiscProofs DiscUnscale DiscKernels DiscU8Kernel GenDiscU8 DiscU8Proofs DiscHistory DiscHistoryProofs DiscIEEE DiscImplProofs DiscF32Mono DiscF32Main DiscF32Sum DiscF32Cond DiscF32Zero DiscF32Degenerate DiscF32End DiscF32Sign DiscGenericAny.
Import ListNotations.

(* (1) exact arithmetic: byte score of a window >= byte image of its real score *)
Theorem C08_discrete_overestimates :
  forall (K : nat) (m : list (list xq)) (d : @dmat xq) (w : list nat) (real : xq) (b : Z),
    Forall (fun row => Forall xq_finite (nonwild K row)) m ->   (* finite over the non-wildcard symbols *)
    to_discrete xq_ops K m = Ok d ->                            (* ScoringMatrix::to_discrete *)
    real_wscore xq_ops m w = Ok real ->                         (* real score of the window w *)
    disc_wscore (d_data d) w = Ok b ->                          (* its saturating 8-bit score *)
    (scale xq_ops d real <= b)%Z.                               (* DiscreteMatrix::scale *)
Proof. exact discrete_overestimates. Qed.

(* scale is monotone (exact arithmetic) *)
Theorem C08_scale_monotone :
  forall (K : nat) (m : list (list xq)) (d : @dmat xq) (s t : xq),
    Forall (fun row => Forall xq_finite (nonwild K row)) m ->
    to_discrete xq_ops K m = Ok d ->
    xq_le s t -> (scale xq_ops d s <= scale xq_ops d t)%Z.
Proof. exact scale_monotone. Qed.

(* a window whose real score meets a threshold reaches the byte threshold derived from it *)
Theorem C08_threshold_transfer :
  forall (K : nat) (m : list (list xq)) (d : @dmat xq) (w : list nat) (real t : xq) (b : Z),
    Forall (fun row => Forall xq_finite (nonwild K row)) m ->
    to_discrete xq_ops K m = Ok d ->
    real_wscore xq_ops m w = Ok real ->
    disc_wscore (d_data d) w = Ok b ->
    xq_le t real ->
    (scale xq_ops d t <= b)%Z.
Proof. exact threshold_transfer. Qed.

(* to_discrete does not panic on such matrices (K >= 2: at least one non-wildcard column) *)
Theorem C08_to_discrete_total :
  forall (K : nat) (m : list (list xq)),
    Forall (fun row => Forall xq_finite (nonwild K row) /\ nonwild K row <> []) m ->
    exists d, to_discrete xq_ops K m = Ok d.
Proof. exact to_discrete_ok. Qed.

(* the executable checker used on the implementation's observations is the property *)
Theorem C08_check_sound :
  forall (T : Type) (N : NumOps T) (factor offset : T) (obs : list (Z * T)),
    check_C08 N factor offset obs = true <->
    Forall (fun p => (scale_with N factor offset (snd p) <= fst p)%Z) obs.
Proof. intros T N factor offset obs. split; [apply check_C08_sound|apply check_C08_complete]. Qed.

(* the checker that judges the implementation's OWN images (dm.scale(real score of position i),
   dm.scale(threshold j)) instead of recomputing scale with the model: it accepts exactly when
   the statement holds of the observed numbers -- main clause sr_i <= b_i and consequence clause
   t_j <= r_i -> st_j <= b_i, with <= the PartialOrd of the number type (IEEE <= for binary32) *)
Theorem C08_check_impl_sound :
  forall (T : Type) (N : NumOps T) (thr : list (T * Z)) (obs : list (Z * T * Z)),
    check_C08_impl N thr obs = true <->
    Forall (fun o => (snd o <= fst (fst o))%Z /\
                     Forall (fun p => n_le N (fst p) (snd (fst o)) = true -> (snd p <= fst (fst o))%Z) thr) obs.
Proof. exact @check_C08_impl_sound. Qed.

(* ... and it demands nothing more than the property: in exact arithmetic the numbers of a
   correct implementation pass, for every matrix, any windows and any thresholds *)
Theorem C08_check_impl_only_demands_the_property :
  forall (K : nat) (m : list (list xq)) (d : @dmat xq)
         (ws : list (list nat)) (obs : list (Z * xq * Z)) (thr : list (xq * Z)),
    Forall (fun row => Forall xq_finite (nonwild K row)) m ->
    to_discrete xq_ops K m = Ok d ->
    Forall2 (fun w o => real_wscore xq_ops m w = Ok (snd (fst o)) /\
                        disc_wscore (d_data d) w = Ok (fst (fst o)) /\
                        snd o = scale xq_ops d (snd (fst o))) ws obs ->
    Forall (fun p => snd p = scale xq_ops d (fst p)) thr ->
    check_C08_impl xq_ops thr obs = true.
Proof. exact impl_check_holds_exact. Qed.

(* (2) the u8 kernels.  AVX2 (lane-wise PSHUFB + saturating PADDUSB) = generic kernel
   (saturating Accumulate), for any discrete matrix with K <= 16 columns, any padding
   bytes behind its rows, any striped matrix of symbols below K, any row range: *)
Theorem C08_avx2_eq_generic :
  forall (K : nat) (dm : list (list Z)) (pads : nat -> list Z) (s : sseq) (lo hi : nat) (sc : sscores Z),
    (K <= 16)%nat -> Forall (fun row => length row = K) dm -> (forall i, 16 <= K + length (pads i))%nat ->
    sseq_ok K s ->
    score_rows_avx2 dm pads s lo hi = Ok sc ->
    score_rows_generic sat_add 0%Z 32 dm s lo hi = Ok sc.
Proof. exact avx2_eq_generic. Qed.

(* conversely (the AVX2 wrapper only adds the checks "motif not empty" and "enough wrap rows") *)
Theorem C08_generic_eq_avx2 :
  forall (K : nat) (dm : list (list Z)) (pads : nat -> list Z) (s : sseq) (lo hi : nat) (sc : sscores Z),
    (K <= 16)%nat -> Forall (fun row => length row = K) dm -> (forall i, 16 <= K + length (pads i))%nat ->
    sseq_ok K s ->
    (1 <= length dm)%nat -> (length dm - 1 <= ss_wrap s)%nat ->
    score_rows_generic sat_add 0%Z 32 dm s lo hi = Ok sc ->
    score_rows_avx2 dm pads s lo hi = Ok sc.
Proof. exact generic_eq_avx2. Qed.

(* every arm of the dispatcher returns what the generic kernel returns *)
Theorem C08_dispatch_arms_agree :
  forall (K : nat) (dm : list (list Z)) (pads : nat -> list Z) (s : sseq) (lo hi : nat) (a : arm) (sc : sscores Z),
    (K <= 16)%nat -> Forall (fun row => length row = K) dm -> (forall i, 16 <= K + length (pads i))%nat ->
    sseq_ok K s ->
    score_rows_dispatch a dm pads s lo hi = Ok sc ->
    score_rows_generic sat_add 0%Z 32 dm s lo hi = Ok sc.
Proof. exact dispatch_arms_agree. Qed.

(* (2s) the same for the kernels, the wrappers and the dispatcher table AS TRANSLATED FROM THE SOURCE
   (GenDiscU8.v, regenerated by translate/disc_u8.py on every check from avx2.rs, neon.rs, dispatch.rs
   and pli/mod.rs: statements of the motif loop as register operations, wrapper guards in source
   order, `match self.backend` arms).  The generated AVX2 kernel + wrapper IS score_rows_avx2 and the
   generated x86 table IS score_rows_dispatch, so (2) above is about the source as translated: *)
Theorem C08_avx2_source_is_model :
  forall (dm : list (list Z)) (pads : nat -> list Z) (s : sseq) (lo hi : nat),
    Forall (fun x => length x = 32%nat) (ss_rows s) ->
    vk_score_rows gen_avx2_u8 32 dm pads s lo hi = score_rows_avx2 dm pads s lo hi.
Proof. exact avx2_gen_is_model. Qed.

Theorem C08_dispatch_source_is_model :
  forall (a : arm) (dm : list (list Z)) (pads : nat -> list Z) (s : sseq) (lo hi : nat),
    Forall (fun x => length x = 32%nat) (ss_rows s) ->
    run_u8_kernel gen_avx2_u8 gen_neon_u8 (gen_dispatch_u8_x86 (arm4_of a)) 32 dm pads s lo hi
    = score_rows_dispatch a dm pads s lo hi.
Proof. exact dispatch_gen_is_model. Qed.

Theorem C08_avx2_source_eq_generic :
  forall (K : nat) (dm : list (list Z)) (pads : nat -> list Z) (s : sseq) (lo hi : nat) (sc : sscores Z),
    (K <= 16)%nat -> Forall (fun row => length row = K) dm -> (forall i, 16 <= K + length (pads i))%nat ->
    sseq_ok K s ->
    vk_score_rows gen_avx2_u8 32 dm pads s lo hi = Ok sc ->
    score_rows_generic sat_add 0%Z 32 dm s lo hi = Ok sc.
Proof. exact avx2_gen_eq_generic. Qed.

Theorem C08_dispatch_source_arms_agree :
  forall (K : nat) (dm : list (list Z)) (pads : nat -> list Z) (s : sseq) (lo hi : nat) (a : arm) (sc : sscores Z),
    (K <= 16)%nat -> Forall (fun row => length row = K) dm -> (forall i, 16 <= K + length (pads i))%nat ->
    sseq_ok K s ->
    run_u8_kernel gen_avx2_u8 gen_neon_u8 (gen_dispatch_u8_x86 (arm4_of a)) 32 dm pads s lo hi = Ok sc ->
    score_rows_generic sat_add 0%Z 32 dm s lo hi = Ok sc.
Proof. exact dispatch_gen_arms_agree. Qed.

(* which kernel the Score<u8> impl of each static pipeline runs (pli/mod.rs): Generic and Sse2 the
   trait default, Avx2 the shuffle kernel, Neon the NEON kernel *)
Theorem C08_source_pipeline_table :
  forall a : arm4,
    gen_pipeline_u8 a = match a with D4Avx2 => UKAvx2Shuffle | D4Neon => UKNeon | _ => UKGeneric end.
Proof. exact gen_pipeline_u8_expected. Qed.

(* (2n) NEON (neon.rs is not compiled on an x86 host: translator + proof only).  The 16-lane kernel
   (vqtbl1q_u8 lookup, vqaddq_u8 saturating add, any multiple of 16 columns) behind its wrapper returns,
   on a sequence configured for the motif, the same matrix as the generic kernel for EVERY row range,
   or both panic (the wrapper's row-range guard of /repo 9cd9b52 / the generic kernel's slice index) *)
Theorem C08_neon_eq_generic :
  forall (K q : nat) (dm : list (list Z)) (pads : nat -> list Z) (s : sseq) (lo hi : nat),
    (K <= 16)%nat -> Forall (fun row => length row = K) dm -> (forall i, 16 <= K + length (pads i))%nat ->
    sseq_okC (q * 16) K s ->
    (1 <= q)%nat -> (1 <= length dm)%nat -> (length dm - 1 <= ss_wrap s)%nat ->
    (exists sc, vk_score_rows gen_neon_u8 (q * 16) dm pads s lo hi = Ok sc /\
                score_rows_generic sat_add 0%Z (q * 16) dm s lo hi = Ok sc) \/
    (is_panic (vk_score_rows gen_neon_u8 (q * 16) dm pads s lo hi) /\
     is_panic (score_rows_generic sat_add 0%Z (q * 16) dm s lo hi)).
Proof. exact neon_generic_agree. Qed.

(* without any hypothesis on the wrap rows: whatever the NEON wrapper returns, the generic kernel returns *)
Theorem C08_neon_result_eq_generic :
  forall (K q : nat) (dm : list (list Z)) (pads : nat -> list Z) (s : sseq) (lo hi : nat) (sc : sscores Z),
    (K <= 16)%nat -> Forall (fun row => length row = K) dm -> (forall i, 16 <= K + length (pads i))%nat ->
    sseq_okC (q * 16) K s ->
    vk_score_rows gen_neon_u8 (q * 16) dm pads s lo hi = Ok sc ->
    score_rows_generic sat_add 0%Z (q * 16) dm s lo hi = Ok sc.
Proof. exact neon_eq_generic. Qed.

(* every arm of the dispatcher as compiled on Arm hosts (Generic, Neon) agrees with the generic kernel *)
Theorem C08_dispatch_arm_hosts_agree :
  forall (K q : nat) (dm : list (list Z)) (pads : nat -> list Z) (s : sseq) (lo hi : nat) (a : arm4) (sc : sscores Z),
    (K <= 16)%nat -> Forall (fun row => length row = K) dm -> (forall i, 16 <= K + length (pads i))%nat ->
    sseq_okC (q * 16) K s ->
    run_u8_kernel gen_avx2_u8 gen_neon_u8 (gen_dispatch_u8_arm a) (q * 16) dm pads s lo hi = Ok sc ->
    score_rows_generic sat_add 0%Z (q * 16) dm s lo hi = Ok sc.
Proof. exact dispatch_arm_hosts_agree. Qed.

(* the NEON kernel as it was before /repo commit 8ba350b (`s = vaddq_u8(s, y)`, wrapping) violates C08:
   on the consensus word of a matrix whose rounded-up cells sum to 257 its byte score is 1, below the
   image 255 of the real score (which the generic kernel reaches) *)
Theorem C08_neon_old_wraps_refuted :
  Forall (fun row => Forall xq_finite (nonwild 5%nat row)) wit_u8_matrix /\
  exists bk bg sr : Z,
    (* byte score from the old NEON kernel, from the generic kernel, image of the real score *)
    u8_outcome neon_u8_old = Ok (bk, bg, sr) /\ (bk < sr)%Z /\ (sr <= bg)%Z.
Proof. exact neon_old_wraps_refuted. Qed.

(* adds_epu8 is the saturating sum: on a sequence striped and configured for the motif
   every arm returns the same matrix, and its entry for position i is
   satsum = fold (fun a b => min 255 (a+b)) of the discrete cells of the window at i *)
Theorem C08_adds_epu8_is_satsum :
  forall (K : nat) (dm : list (list Z)) (pads : nat -> list Z) (s : list nat) (wrapn : nat),
    (0 < K)%nat -> (K <= 16)%nat -> Forall (fun row => length row = K) dm ->
    (forall i, 16 <= K + length (pads i))%nat -> Forall (fun v => (v < K)%nat) s ->
    (1 <= length dm)%nat -> (length dm <= length s)%nat -> (length dm - 1 <= wrapn)%nat ->
    exists sc,
      (forall a, score_u8 a dm pads (striped K 32 wrapn s) = Ok sc) /\
      length (sc_rows sc) = ((length s + 31) / 32)%nat /\
      sc_max sc = (length s + 1 - length dm)%nat /\
      (forall i, (i < (length s + 31) / 32 * 32)%nat ->
         exists cells, pick dm (window K s i (length dm)) = Some cells /\
                       sc_index sc i = Ok (satsum cells)).
Proof.
  intros K dm pads s wrapn HK HK16 Hdm Hp Hs HM HL Hw.
  destruct (score_u8_windows K dm pads s wrapn HK HK16 Hdm Hp Hs HM HL Hw) as [sc [H1 [H2 [H3 H4]]]].
  exists sc. repeat split; auto. intros i Hi. specialize (H4 i Hi).
  rewrite window_win in *.
  pose proof (wval_ok K dm s i HK Hdm Hs) as Hb. unfold disc_wscore, wscore in Hb.
  destruct (wscore_from_pick _ _ _ _ _ Hb) as [cells [Hp1 Hp2]].
  exists cells. split; [exact Hp1|]. rewrite H4. unfold disc_wscore, wscore. rewrite Hb, Hp2. reflexivity.
Qed.

(* end to end: for every arm and every position i <= L - M the byte found at index i of the
   arm's score matrix (= DiscreteMatrix::score_position) is >= the byte image of the real
   score of that position (ScoringMatrix::score_position), the real score being computed
   in exact arithmetic *)
Theorem C08_backends_overestimate :
  forall (K : nat) (m : list (list xq)) (d : @dmat xq) (pads : nat -> list Z) (s : list nat) (a : arm) (i : nat),
    (0 < K)%nat -> (K <= 16)%nat ->
    Forall (fun row => length row = K) m ->
    Forall (fun row => Forall xq_finite (nonwild K row)) m ->
    to_discrete xq_ops K m = Ok d ->
    (forall i, 16 <= K + length (pads i))%nat ->
    Forall (fun v => (v < K)%nat) s ->
    (1 <= length m)%nat -> (i + length m <= length s)%nat ->
    exists sc b real,
      score_u8 a (d_data d) pads (striped K 32 (configure_wrap_of (length m)) s) = Ok sc /\
      sc_index sc i = Ok b /\
      disc_score (d_data d) (striped K 32 (configure_wrap_of (length m)) s) i = Ok b /\
      real_score xq_ops m (striped K 32 (configure_wrap_of (length m)) s) i = Ok real /\
      (scale xq_ops d real <= b)%Z.
Proof. exact backends_overestimate. Qed.

(* (2h) HISTORIES on one reused `StripedScores<u8, C>` buffer (DiscHistory.v: the callee resizes the caller's buffer --
   surviving rows keep their bytes -- and writes into it: cell by cell in the generic kernel, one 32-byte store per
   row in the AVX2 kernel; wrapper steps in the source order of GenDiscU8.v).  After ANY history of scoring calls
   (any motifs, sequences, row ranges; [call_ok]: the generic kernel with any number of columns, the AVX2 kernel with
   32, the NEON kernel -- one 16-byte store per column block and row -- with 16 q columns), `resize` and
   `matrix_mut().fill` by the caller, a scoring call leaves in the buffer exactly its FRESH result (run_u8_kernel,
   which the theorems above are about): the result depends on the last call only.  [buf_wf]: every row of the buffer
   has C cells (invariant of DenseMatrix<u8, C>; true of StripedScores::empty()). *)
Theorem C08_scores_history :
  forall (C : nat) (ops : list hop) (c : hcall) (lo hi : nat) (buf0 buf : sscores Z),
    buf_wf C buf0 -> Forall (op_ok C) ops -> call_ok C c ->
    hrun gen_avx2_u8 gen_neon_u8 C ops buf0 = Ok buf ->
    hstep gen_avx2_u8 gen_neon_u8 C (HRowsInto c lo hi) buf = fresh_call gen_avx2_u8 gen_neon_u8 C c lo hi /\
    hstep gen_avx2_u8 gen_neon_u8 C (HScoreInto c) buf
      = fresh_call gen_avx2_u8 gen_neon_u8 C c 0 (length (ss_rows (hc_seq c)) - ss_wrap (hc_seq c)).
Proof. exact scores_history. Qed.

(* the generic kernel alone, any number of columns, any old buffer with C-cell rows *)
Theorem C08_generic_rows_into_fresh :
  forall (C : nat) (dm : list (list Z)) (s : sseq) (lo hi : nat) (old : sscores Z),
    buf_wf C old ->
    generic_rows_into C dm s lo hi old = score_rows_generic sat_add 0%Z C dm s lo hi.
Proof. exact generic_rows_into_fresh. Qed.

(* the main clause of C08 for the buffer after any history whose last call scores the discretised matrix on the
   striped, configured sequence through any arm of the dispatcher (exact real score, as C08_backends_overestimate) *)
Theorem C08_history_overestimates :
  forall (K : nat) (m : list (list xq)) (d : @dmat xq) (pads : nat -> list Z) (s : list nat) (a : arm) (i : nat)
         (ops : list hop) (buf0 buf : sscores Z),
    (0 < K)%nat -> (K <= 16)%nat ->
    Forall (fun row => length row = K) m ->
    Forall (fun row => Forall xq_finite (nonwild K row)) m ->
    to_discrete xq_ops K m = Ok d ->
    (forall i, 16 <= K + length (pads i))%nat ->
    Forall (fun v => (v < K)%nat) s ->
    (1 <= length m)%nat -> (i + length m <= length s)%nat ->
    buf_wf 32 buf0 -> Forall (op_ok 32) ops -> hrun gen_avx2_u8 gen_neon_u8 32 ops buf0 = Ok buf ->
    let st := striped K 32 (configure_wrap_of (length m)) s in
    exists sc b real,
      hstep gen_avx2_u8 gen_neon_u8 32 (HScoreInto (mkHCall (gen_dispatch_u8_x86 (arm4_of a)) (d_data d) pads st)) buf = Ok sc /\
      sc_index sc i = Ok b /\
      real_score xq_ops m st i = Ok real /\
      (scale xq_ops d real <= b)%Z.
Proof. exact history_overestimates. Qed.

(* the resize in the wrapper is necessary: the same kernel behind a wrapper without it keeps the stale second row
   (255 everywhere) and the stale max_index of the history [resize(2, 7); fill(255); score_into(one-row result)] *)
Theorem C08_history_needs_resize :
  hrun gen_avx2_u8 gen_neon_u8 32 ex_h_ops buf_empty
    = Ok {| sc_rows := [repeat 2%Z 20 ++ repeat 0%Z 12]; sc_max := 20%nat |} /\
  hrun avx2_noresize gen_neon_u8 32 ex_h_ops buf_empty
    = Ok {| sc_rows := [repeat 2%Z 20 ++ repeat 0%Z 12; repeat 255%Z 32]; sc_max := 7%nat |}.
Proof. exact history_example. Qed.

(* (2k) the STATEMENT SKELETON of pwm/mod.rs (GenDiscSkel.v, regenerated by translate/disc_skel.py on every check from
   ScoringMatrix::to_discrete and DiscreteMatrix::{scale, unscale, score_position}: offsets = min_by over
   row[..K - 1], factor expression, cell expression with `.ceil() as u8` over all rows and columns, scale expression
   with `.floor() as u8`, unscale expression, saturating accumulation from 0 at `pos + j`).  The functions obtained
   from the generated skeleton ARE the functions of DiscModel.v that every theorem of this file is about, for every
   instance of the numeric operations (binary32 and exact): *)
Theorem C08_skeleton_as_modelled :
  (forall (T : Type) (N : NumOps T) (K : nat) (m : list (list T)),
      skp_to_discrete N gen_skel K m = to_discrete N K m) /\
  (forall (T : Type) (N : NumOps T) (factor offset s : T),
      skp_scale_with N gen_skel factor offset s = scale_with N factor offset s) /\
  (forall (T : Type) (N : NumOps T) (factor offset : T) (b : Z),
      skp_unscale_with N gen_skel factor offset b = unscale_with N factor offset b) /\
  (forall (dm : list (list Z)) (s : sseq) (pos : nat), skp_disc_score gen_skel dm s pos = disc_score dm s pos).
Proof.
  split; [intros; apply skel_to_discrete|]. split; [intros; apply skel_scale|].
  split; [intros; apply skel_unscale|exact skel_disc_score].
Qed.

(* what the skeleton decides: the same code with the cells rounded DOWN under-estimates the consensus word of a
   two-row matrix (byte score 254 < 255 = image of the real score), the generated skeleton does not *)
Theorem C08_skeleton_floor_cells_refuted :
  skel_outcome gen_skel = Ok (255, 255)%Z /\ skel_outcome floor_cells_skel = Ok (254, 255)%Z.
Proof. exact skel_outcomes. Qed.

(* (2u) unscale, exact arithmetic, positive factor: unscale(scale(t)) lies in [offset, offset + 255 factor], is <= t
   as soon as t >= offset and > t - factor as soon as t < offset + 256 factor (as coded: floor, then clamp) *)
Theorem C08_unscale_scale :
  forall f off t : Q, (0 < f)%Q ->
    let u := unscaleq f off (scale_with xq_ops (XFin f) (XFin off) (XFin t)) in
    unscale_with xq_ops (XFin f) (XFin off) (scale_with xq_ops (XFin f) (XFin off) (XFin t)) = XFin u /\
    (off <= u)%Q /\ (u <= off + 255 * f)%Q /\
    ((off <= t)%Q -> (u <= t)%Q) /\
    ((t < off + 256 * f)%Q -> (t < u + f)%Q).
Proof. intros f off t Hf u. split; [reflexivity|]. exact (unscale_scale f off t Hf). Qed.

(* consequently, for every window whose real score r is below offset + 256 factor (every window without a wildcard
   cell above its row maximum: r <= max_score = offset + 255 factor): r < unscale(byte score) + factor.  (The
   `unscale(u8) >= expected` of tests/dna.rs is NOT a consequence of the code: only this weaker bound is.) *)
Theorem C08_unscale_bounds_real :
  forall (K : nat) (m : list (list xq)) (d : @dmat xq) (w : list nat) (r : Q) (b : Z) (f off : Q),
    Forall (fun row => Forall xq_finite (nonwild K row)) m ->
    to_discrete xq_ops K m = Ok d ->
    real_wscore xq_ops m w = Ok (XFin r) ->
    disc_wscore (d_data d) w = Ok b ->
    d_factor d = XFin f -> d_offset d = XFin off -> (0 < f)%Q ->
    (r < off + 256 * f)%Q ->
    unscale xq_ops d b = XFin (unscaleq f off b) /\ (r < unscaleq f off b + f)%Q.
Proof. exact unscale_bounds_real. Qed.

(* (2d) degenerate factors.  Exact arithmetic: the factor is 0 exactly when every row is constant over the
   non-wildcard symbols, positive otherwise *)
Theorem C08_factor_positive_iff_nonconstant :
  forall (K : nat) (m : list (list xq)) (d : @dmat xq),
    Forall (fun row => Forall xq_finite (nonwild K row)) m ->
    to_discrete xq_ops K m = Ok d ->
    exists f, d_factor d = XFin f /\ (0 <= f)%Q /\
              ((f == 0)%Q <-> Forall (fun row => row_const (nonwild K row)) m) /\
              ((0 < f)%Q <-> ~ Forall (fun row => row_const (nonwild K row)) m).
Proof. exact factor_zero_iff_constant. Qed.

(* binary32, factor +0.0 (constant rows, or a range so small that range/255 underflows to zero), as coded: a cell is
   255 when its entry is strictly above the (finite) row offset and 0 otherwise (0/0 = NaN, x/0 = -inf, NaN entry);
   with C08_f32_main_well_conditioned_partial (which admits the factor +0.0) the main clause still holds there *)
Theorem C08_zero_factor_cells_f32 :
  forall x o : F32.t, F32.is_finite o = true ->
    disc_cell f32_ops (B754_zero false) o x = if F32.lt o x then 255%Z else 0%Z.
Proof. exact zero_factor_cell. Qed.

(* (2g) the generic kernel end to end for ANY alphabet size K and ANY number of columns C (Protein, K = 21, on
   Pipeline::generic() / Pipeline::sse2(); the 16-column layouts): the byte at index i of the score matrix of
   Score::score_into (trait default) and DiscreteMatrix::score_position are the byte score of window i, which is
   >= the byte image of the exact real score of position i *)
Theorem C08_generic_backend_overestimates :
  forall (K C : nat) (m : list (list xq)) (d : @dmat xq) (s : list nat) (i : nat),
    (0 < K)%nat -> (0 < C)%nat ->
    Forall (fun row => length row = K) m ->
    Forall (fun row => Forall xq_finite (nonwild K row)) m ->
    to_discrete xq_ops K m = Ok d ->
    Forall (fun v => (v < K)%nat) s ->
    (1 <= length m)%nat -> (i + length m <= length s)%nat ->
    let st := striped K C (configure_wrap_of (length m)) s in
    exists sc b real,
      generic_score_u8 C (d_data d) st = Ok sc /\
      sc_index sc i = Ok b /\
      disc_score (d_data d) st i = Ok b /\
      real_score xq_ops m st i = Ok real /\
      (scale xq_ops d real <= b)%Z.
Proof. exact generic_backend_overestimates. Qed.

(* its binary32 twin (real score, offset, factor, scale as the code computes them) under the conditioning predicate;
   `_partial`: the two side conditions M <= 16384 and cond_A <= 2^126 are what is missing *)
Theorem C08_generic_backend_overestimates_f32_partial :
  forall (K C : nat) (m : list (list F32.t)) (d : @dmat F32.t) (s : list nat) (i : nat),
    (0 < K)%nat -> (0 < C)%nat ->
    Forall (fun row => length row = K) m ->
    Forall (fun row => Forall (fun x => F32.is_finite x = true) (nonwild K row)) m ->
    to_discrete f32_ops K m = Ok d ->
    Forall (fun v => (v < K)%nat) s ->
    (1 <= length m)%nat -> (i + length m <= length s)%nat ->
    well_conditioned m (d_factor d) = true ->
    (Z.of_nat (length m) <= 16384)%Z ->
    F32.le (cond_A m) (F32.of_Z_exp 1 126) = true ->
    let st := striped K C (configure_wrap_of (length m)) s in
    exists sc b real,
      generic_score_u8 C (d_data d) st = Ok sc /\
      sc_index sc i = Ok b /\
      disc_score (d_data d) st i = Ok b /\
      real_score f32_ops m st i = Ok real /\
      (scale f32_ops d real <= b)%Z.
Proof. exact generic_backend_overestimates_f32. Qed.

(* Arm hosts: every kernel the dispatcher can run there (Generic, Neon arms: gen_dispatch_u8_arm) and Pipeline::neon()
   (gen_pipeline_u8 D4Neon) -- none of these ids is the AVX2 kernel, second statement -- on 16 q columns, K <= 16 *)
Theorem C08_arm_hosts_overestimate :
  forall (K q : nat) (m : list (list xq)) (d : @dmat xq) (pads : nat -> list Z) (s : list nat) (id : u8_kernel_id) (i : nat),
    (0 < K)%nat -> (K <= 16)%nat -> (1 <= q)%nat ->
    Forall (fun row => length row = K) m ->
    Forall (fun row => Forall xq_finite (nonwild K row)) m ->
    to_discrete xq_ops K m = Ok d ->
    (forall i, 16 <= K + length (pads i))%nat ->
    Forall (fun v => (v < K)%nat) s ->
    (1 <= length m)%nat -> (i + length m <= length s)%nat ->
    id <> UKAvx2Shuffle ->
    let st := striped K (q * 16) (configure_wrap_of (length m)) s in
    exists sc b real,
      run_u8_kernel gen_avx2_u8 gen_neon_u8 id (q * 16) (d_data d) pads st 0 (length (ss_rows st) - ss_wrap st) = Ok sc /\
      sc_index sc i = Ok b /\
      real_score xq_ops m st i = Ok real /\
      (scale xq_ops d real <= b)%Z.
Proof. exact arm_hosts_overestimate. Qed.

Theorem C08_arm_host_kernels :
  (forall a : arm4, gen_dispatch_u8_arm a <> UKAvx2Shuffle) /\ gen_pipeline_u8 D4Neon <> UKAvx2Shuffle.
Proof. exact arm_ids_not_avx2. Qed.

(* the binary32 twin of C08_history_overestimates (real score, offset, factor, scale as the code computes them), under the
   conditioning predicate; `_partial`: the side conditions M <= 16384 and cond_A <= 2^126 *)
Theorem C08_history_overestimates_f32_partial :
  forall (K : nat) (m : list (list F32.t)) (d : @dmat F32.t) (pads : nat -> list Z) (s : list nat) (a : arm) (i : nat)
         (ops : list hop) (buf0 buf : sscores Z),
    (0 < K)%nat -> (K <= 16)%nat ->
    Forall (fun row => length row = K) m ->
    Forall (fun row => Forall (fun x => F32.is_finite x = true) (nonwild K row)) m ->
    to_discrete f32_ops K m = Ok d ->
    (forall i, 16 <= K + length (pads i))%nat ->
    Forall (fun v => (v < K)%nat) s ->
    (1 <= length m)%nat -> (i + length m <= length s)%nat ->
    well_conditioned m (d_factor d) = true ->
    (Z.of_nat (length m) <= 16384)%Z ->
    F32.le (cond_A m) (F32.of_Z_exp 1 126) = true ->
    buf_wf 32 buf0 -> Forall (op_ok 32) ops -> hrun gen_avx2_u8 gen_neon_u8 32 ops buf0 = Ok buf ->
    let st := striped K 32 (configure_wrap_of (length m)) s in
    exists sc b real,
      hstep gen_avx2_u8 gen_neon_u8 32 (HScoreInto (mkHCall (gen_dispatch_u8_x86 (arm4_of a)) (d_data d) pads st)) buf = Ok sc /\
      sc_index sc i = Ok b /\
      real_score f32_ops m st i = Ok real /\
      (scale f32_ops d real <= b)%Z.
Proof. exact history_overestimates_f32. Qed.

(* (3) binary32: the statement is false for ill-conditioned matrices *)
Theorem C08_ieee_refuted :
  exists (m : list (list F32.t)) (s : list nat) (pos : nat) (b sc : Z) (wc : bool),
    f32_finite_nonwild 5 m = true /\ (pos + length m <= length s)%nat /\
    f32_outcome m s pos = Ok (b, sc, wc) /\      (* byte score, scale(real score), well_conditioned *)
    (b < sc)%Z /\ wc = false.
Proof. exact ieee_refuted. Qed.

(* (4) binary32: DiscreteMatrix::scale is monotone -- for ANY offset, on ALL inputs that compare
   (infinities included), whenever the sign bit of the factor is clear (+0, positive, +inf, NaN):
   each step (subtraction, division, floor, saturating cast) is a monotone rounding *)
Theorem C08_scale_monotone_f32 :
  forall (f o s t : F32.t),
    factor_sign_clear f = true -> F32.le s t = true ->
    (scale_with f32_ops f o s <= scale_with f32_ops f o t)%Z.
Proof. exact scale_with_f32_mono. Qed.

(* hence the consequence clause follows from the main clause in binary32 as well: a position
   whose byte score is at least the image of its real score reaches the byte threshold derived
   from every threshold that its real score meets *)
Theorem C08_threshold_transfer_f32 :
  forall (f o real t : F32.t) (b : Z),
    factor_sign_clear f = true ->
    (scale_with f32_ops f o real <= b)%Z ->
    F32.le t real = true ->
    (scale_with f32_ops f o t <= b)%Z.
Proof. exact threshold_transfer_f32. Qed.

(* ... and the factor computed by to_discrete always has its sign bit clear (the score range goes
   through abs since the repair of F14b: max_score - offset could be -0.0 on zero matrices of mixed
   signs, which mapped thresholds below the minimum to 255) *)
Theorem C08_factor_sign_clear :
  forall (K : nat) (m : list (list F32.t)) (d : @dmat F32.t),
    to_discrete f32_ops K m = Ok d -> factor_sign_clear (d_factor d) = true.
Proof. exact factor_sign. Qed.

(* (5) binary32, main clause under the conditioning predicate, PARTIAL.
   Full statement (not proved in this generality): for every matrix with finite non-wildcard cells
   such that [well_conditioned m factor = true], every window: scale f32_ops d real <= b.
   Proved: exactly that, for EVERY window (wildcard cells finite, -inf, +inf or NaN) and every factor
   the predicate admits (+0.0: constant matrices or an underflowing range; positive finite; +inf),
   under two extra executable side conditions; what is missing is their removal:
     - the motif has at most 16384 rows     (so that C + 1/2 is a binary32 number);
     - cond_A m <= 2^126                    (so that real - offset cannot overflow).
   Proof, positive finite factor: every partial sum of the score and of the offset is bounded by
   the corresponding partial sum of cond_A (monotone rounding), so each of the 2M+1 roundings errs
   by at most ulp(cond_A)/2 and each cell subtraction by ulp(cond_A):
   real (-) offset <= sum_i (x_i (-) o_i) + (2M+1) ulp(cond_A) <= ... + factor/4 by the predicate;
   then (5') below.  Factor +0.0: monotone addition of the two sums, a subtraction never underflows
   to zero.  Windows with a non-finite cell: the image is 0 or a cell is 255. *)
Theorem C08_f32_main_well_conditioned_partial :
  forall (K : nat) (m : list (list F32.t)) (d : @dmat F32.t) (w : list nat) (real : F32.t) (b : Z),
    Forall (fun row => Forall (fun x => F32.is_finite x = true) (nonwild K row)) m ->
    to_discrete f32_ops K m = Ok d ->
    real_wscore f32_ops m w = Ok real ->
    disc_wscore (d_data d) w = Ok b ->
    well_conditioned m (d_factor d) = true ->
    (Z.of_nat (length m) <= 16384)%Z ->
    F32.le (cond_A m) (F32.of_Z_exp 1 126) = true ->
    (scale f32_ops d real <= b)%Z.
Proof. exact f32_main_all_factors'. Qed.

(* (5c) binary32, consequence clause under the conditioning predicate, PARTIAL in the same sense as (5) *)
Theorem C08_threshold_transfer_f32_well_conditioned_partial :
  forall (K : nat) (m : list (list F32.t)) (d : @dmat F32.t) (w : list nat) (real t : F32.t) (b : Z),
    Forall (fun row => Forall (fun x => F32.is_finite x = true) (nonwild K row)) m ->
    to_discrete f32_ops K m = Ok d ->
    real_wscore f32_ops m w = Ok real ->
    disc_wscore (d_data d) w = Ok b ->
    well_conditioned m (d_factor d) = true ->
    (Z.of_nat (length m) <= 16384)%Z ->
    F32.le (cond_A m) (F32.of_Z_exp 1 126) = true ->
    F32.le t real = true ->
    (scale f32_ops d t <= b)%Z.
Proof. exact f32_threshold_transfer_all. Qed.

(* (5e) end to end in binary32, PARTIAL in the same sense as (5): for every arm of the dispatcher and
   every position i <= L - M the byte at index i of the arm's score matrix (= DiscreteMatrix::
   score_position) is >= the image of the BINARY32 real score of that position (ScoringMatrix::
   score_position as the code computes it) *)
Theorem C08_backends_overestimate_f32_partial :
  forall (K : nat) (m : list (list F32.t)) (d : @dmat F32.t) (pads : nat -> list Z) (s : list nat) (a : arm) (i : nat),
    (0 < K)%nat -> (K <= 16)%nat ->
    Forall (fun row => length row = K) m ->
    Forall (fun row => Forall (fun x => F32.is_finite x = true) (nonwild K row)) m ->
    to_discrete f32_ops K m = Ok d ->
    (forall i, 16 <= K + length (pads i))%nat ->
    Forall (fun v => (v < K)%nat) s ->
    (1 <= length m)%nat -> (i + length m <= length s)%nat ->
    well_conditioned m (d_factor d) = true ->
    (Z.of_nat (length m) <= 16384)%Z ->
    F32.le (cond_A m) (F32.of_Z_exp 1 126) = true ->
    exists sc b real,
      score_u8 a (d_data d) pads (striped K 32 (configure_wrap_of (length m)) s) = Ok sc /\
      sc_index sc i = Ok b /\
      disc_score (d_data d) (striped K 32 (configure_wrap_of (length m)) s) i = Ok b /\
      real_score f32_ops m (striped K 32 (configure_wrap_of (length m)) s) i = Ok real /\
      (scale f32_ops d real <= b)%Z.
Proof. exact backends_overestimate_f32'. Qed.

(* (5') binary32, main clause, PARTIAL, the analytic core of (5).  Full statement (not proved): for every matrix with finite
   non-wildcard cells that satisfies [well_conditioned], every window: scale f32_ops d real <= b.
   Proved: the clause under the predicate [sum_error_small] on the two sums -- the computed
   real (-) offset is NaN or -inf, or it is finite, the computed per-cell differences x_i (-) o_i
   are finite and   real (-) offset <= sum_i (x_i (-) o_i) + factor / 4   over the reals --
   for a finite positive factor and at most 16384 rows.  Missing: the rounding-error analysis of
   the two left-to-right sums that derives [sum_error_small] from [well_conditioned]
   (ill-conditioned matrices violate it: C08_ieee_refuted). *)
Theorem C08_f32_main_partial :
  forall (K : nat) (m : list (list F32.t)) (d : @dmat F32.t)
         (w : list nat) (xs : list F32.t) (real : F32.t) (b : Z),
    to_discrete f32_ops K m = Ok d ->
    pick m w = Some xs ->                               (* the cells of the window *)
    real_wscore f32_ops m w = Ok real ->
    disc_wscore (d_data d) w = Ok b ->
    @is_finite 24 128 (d_factor d) = true -> (0 < @B2R 24 128 (d_factor d))%R ->
    (Z.of_nat (length m) <= 16384)%Z ->
    sum_error_small (d_factor d) (F32.sub real (d_offset d)) (combine xs (d_offsets d)) ->
    (scale f32_ops d real <= b)%Z.
Proof. exact f32_main_partial_model. Qed.

(* the same for any factor / offset / list of (cell, row offset) pairs *)
Theorem C08_f32_window_partial :
  forall (f offset real : F32.t) (ps : list (F32.t * F32.t)),
    @is_finite 24 128 f = true -> (0 < @B2R 24 128 f)%R -> (Z.of_nat (length ps) <= 16384)%Z ->
    sum_error_small f (F32.sub real offset) ps ->
    (scale_with f32_ops f offset real
     <= satsum (map (fun p => disc_cell f32_ops f (snd p) (fst p)) ps))%Z.
Proof. exact f32_main_partial. Qed.

Check C08_discrete_overestimates :
  forall (K : nat) (m : list (list xq)) (d : @dmat xq) (w : list nat) (real : xq) (b : Z),
    Forall (fun row => Forall xq_finite (nonwild K row)) m ->
    to_discrete xq_ops K m = Ok d ->
    real_wscore xq_ops m w = Ok real ->
    disc_wscore (d_data d) w = Ok b ->
    (scale xq_ops d real <= b)%Z.

(* ---------- non-vacuity: the hypotheses are satisfiable, with a saturating window ---------- *)

(* a 3-row matrix with a -inf wildcard column; the consensus word A,C,A has real score 6,
   the sum of its rounded-up cells is 257 > 255 and saturates *)
Definition ex_matrix : list (list xq) :=
  [[XFin 2; XFin (-1); XFin 0; XFin (1#3); XNInf];
   [XFin (-2); XFin 3; XFin (1#7); XFin 0; XNInf];
   [XFin 1; XFin (1#2); XFin (-5); XFin 0; XNInf]].

Example ex_hyp : Forall (fun row => Forall xq_finite (nonwild 5%nat row)) ex_matrix.
Proof. repeat constructor. Qed.

Example ex_discrete :
  match to_discrete xq_ops 5%nat ex_matrix with
  | Ok d => d_data d = [[55; 0; 19; 25; 0]; [0; 92; 40; 37; 0]; [110; 101; 0; 92; 0]]%Z
            /\ disc_wscore (d_data d) [0; 1; 0]%nat = Ok 255%Z          (* 55 + 92 + 110 = 257 saturates *)
            /\ option_map (scale xq_ops d) (match real_wscore xq_ops ex_matrix [0; 1; 0]%nat with Ok r => Some r | _ => None end)
               = Some 255%Z
            /\ disc_wscore (d_data d) [0; 4; 0]%nat = Ok 165%Z          (* window with the wildcard: cell 0 *)
            /\ real_wscore xq_ops ex_matrix [0; 4; 0]%nat = Ok XNInf
  | _ => False
  end.
Proof. vm_compute. repeat split; reflexivity. Qed.

(* the checker on the implementation's own images rejects a scale that wraps below the minimum:
   position with byte score 0 and real score 0.0, threshold -1.0 (below the minimum 0.0) whose
   image is reported as 253 (= -3 modulo 256) instead of 0 *)
Example ex_impl_check_rejects_wrap :
  check_C08_impl f32_ops [(F32.of_bits 3212836864, 253%Z)] [(0%Z, F32.of_bits 0, 0%Z)] = false
  /\ check_C08_impl f32_ops [(F32.of_bits 3212836864, 0%Z)] [(0%Z, F32.of_bits 0, 0%Z)] = true
  /\ first_bad_impl f32_ops 0 [] [(0%Z, F32.of_bits 3212836864, 253%Z)] = Some (FailPos 0).
Proof. vm_compute. repeat split; reflexivity. Qed.

(* [sum_error_small] is satisfiable in its non-trivial form (finite total, finite differences,
   error bound): factor 1/255 (0x3B808081), one cell 1.0 with row offset 0.0, score 1.0, offset 0.0;
   the cell is 255 and the image of the score 254 (the rounded factor is slightly above 1/255) *)
Definition ex_factor : F32.t := @B754_finite 24 128 false 8421505 (-31) eq_refl.
Definition ex_one : F32.t := @B754_finite 24 128 false 8388608 (-23) eq_refl.

Example ex_sum_error_small :
  @is_finite 24 128 ex_factor = true /\ (0 < @B2R 24 128 ex_factor)%R /\
  F32.to_bits ex_factor = 998277249%Z /\
  (@is_finite 24 128 (F32.sub ex_one F32.zero) = true /\
   Forall (fun p => @is_finite 24 128 (F32.sub (fst p) (snd p)) = true) [(ex_one, F32.zero)] /\
   (@B2R 24 128 (F32.sub ex_one F32.zero)
    <= rsumd (map (fun p => F32.sub (fst p) (snd p)) [(ex_one, F32.zero)]) + @B2R 24 128 ex_factor / 4)%R) /\
  scale_with f32_ops ex_factor F32.zero ex_one = 254%Z /\
  satsum (map (fun p => disc_cell f32_ops ex_factor (snd p) (fst p)) [(ex_one, F32.zero)]) = 255%Z.
Proof.
  assert (Hpos : (0 < @B2R 24 128 ex_factor)%R) by (apply F2R_gt_0; cbn; lia).
  split; [reflexivity|]. split; [exact Hpos|]. split; [vm_compute; reflexivity|].
  split; [|split; vm_compute; reflexivity].
  split; [vm_compute; reflexivity|]. split; [repeat constructor|].
  cbn [rsumd map fold_right fst snd]. set (D := @B2R 24 128 (F32.sub ex_one F32.zero)).
  lra.
Qed.

(* the hypotheses of C08_f32_main_well_conditioned_partial are satisfiable: a 3-row matrix with a
   -inf wildcard column; window A,C,A (consensus, cells 128+255+... saturate) and window A,N,A *)
Definition ex_m32 : list (list F32.t) :=
  map (map F32.of_bits)
    [[1069547520; 3212836864; 0; 1048576000; 4286578688];
     [3221225472; 1077936128; 1040187392; 0; 4286578688];
     [1065353216; 1056964608; 3231711232; 0; 4286578688]]%Z.

Example ex_f32_hypotheses :
  forallb (fun row => forallb F32.is_finite (nonwild 5%nat row)) ex_m32 = true /\
  match to_discrete f32_ops 5%nat ex_m32 with
  | Ok d =>
      well_conditioned ex_m32 (d_factor d) = true /\
      factor_sign_clear (d_factor d) = true /\ F32.lt F32.zero (d_factor d) = true /\
      F32.le (cond_A ex_m32) (F32.of_Z_exp 1 126) = true /\
      match real_wscore f32_ops ex_m32 [0; 1; 0]%nat, disc_wscore (d_data d) [0; 1; 0]%nat with
      | Ok real, Ok b => b = 255%Z /\ scale f32_ops d real = 255%Z
      | _, _ => False
      end /\
      match real_wscore f32_ops ex_m32 [0; 4; 0]%nat, disc_wscore (d_data d) [0; 4; 0]%nat with
      | Ok real, Ok b => (0 <= b)%Z /\ scale f32_ops d real = 0%Z
      | _, _ => False
      end
  | _ => False
  end.
Proof.
  split; [vm_compute; reflexivity|]. vm_compute.
  repeat split; try reflexivity; discriminate.
Qed.

(* regression example for the repaired defect F14b: the zero matrix of mixed signs now has the
   factor +0.0 and the threshold -1.0 maps to 0 (was 255) *)
Example ex_negzero_repaired :
  f32_transfer_outcome negz_matrix [0%nat] 0%nat (F32.of_bits 3212836864) = Ok (0, 0, 0, true, true, true)%Z.
Proof. exact negz_outcome. Qed.

(* the hypotheses of C08_generic_backend_overestimates are satisfiable beyond Dna / 32 columns: a Protein-like
   alphabet (K = 21, wildcard last) on a 16-column layout; the consensus word of the two rows saturates *)
Definition ex_row21 (best : nat) : list xq :=
  map (fun j => if (j =? best)%nat then XFin 3 else XFin (-2 # 1)) (seq 0 20) ++ [XNInf].
Definition ex_m21 : list (list xq) := [ex_row21 4; ex_row21 17].

Example ex_generic_any_K_C :
  Forall (fun row => length row = 21%nat) ex_m21 /\
  Forall (fun row => Forall xq_finite (nonwild 21%nat row)) ex_m21 /\
  match to_discrete xq_ops 21%nat ex_m21 with
  | Ok d =>
      let st := striped 21 16 (configure_wrap_of 2) [4; 17; 0; 4; 17]%nat in
      match generic_score_u8 16 (d_data d) st with
      | Ok sc => sc_index sc 0 = Ok 255%Z /\ sc_index sc 3 = Ok 255%Z /\ sc_index sc 1 = Ok 0%Z
      | _ => False
      end
  | _ => False
  end.
Proof.
  split; [repeat constructor|]. split.
  - repeat constructor.
  - vm_compute. repeat split; reflexivity.
Qed.

(* a history whose operations satisfy the hypotheses of C08_scores_history *)
Example ex_history_hypotheses :
  buf_wf 32 buf_empty /\ Forall (op_ok 32) ex_h_ops /\ call_ok 32 ex_h_call.
Proof.
  split; [apply buf_empty_wf|]. split.
  - repeat constructor; vm_compute; repeat constructor.
  - vm_compute. repeat constructor.
Qed.
