(* The discretisation of pwm/mod.rs written from its STATEMENT SKELETON: what translate/disc_skel.py reads from
   `ScoringMatrix::to_discrete` and `DiscreteMatrix::{scale, unscale, score_position}` on every check
   (GenDiscSkel.v) is data of the types below; this file gives that data a meaning, over the same record of
   numeric operations [NumOps] as DiscModel.v.  DiscSkelProofs.v proves that the functions obtained from the
   generated skeleton ARE the hand-written ones of DiscModel.v (which all the other theorems are about), and
   Extract.v extracts the skeleton-driven functions for the driver.
   Executable definitions only; no proofs in this file. *)
From Coq Require Import List ZArith Bool Arith.
From LMBase Require Import Res ListX.
From LMDisc Require Import DiscModel.
Import ListNotations.
Local Open Scope nat_scope.

(* the leaves of the float expressions *)
Inductive fvar : Type :=
| VCell        (* pssm[i][j] *)
| VRowOffset   (* offsets[i] *)
| VFactor      (* factor / self.factor *)
| VOffset      (* offset / self.offset *)
| VMaxScore    (* max_score (= self.max_score()) *)
| VScore       (* the f32 argument of scale *)
| VByte        (* (score as f32), score: u8, in unscale *)
| VU8Max.      (* u8::MAX as f32 *)

Inductive fexp : Type :=
| EV (v : fvar)
| EAdd (a b : fexp) | ESub (a b : fexp) | EMul (a b : fexp) | EDiv (a b : fexp)
| EAbs (a : fexp).

Inductive rnd : Type := RCeil | RFloor.           (* `.ceil() as u8` / `.floor() as u8` *)
Inductive red : Type := RedMinBy | RedMaxBy.      (* .min_by(partial_cmp unwrap) / .max_by(..) *)
Inductive acc : Type :=
| AccSaturating   (* score = score.saturating_add(x) *)
| AccWrapping     (* score = score.wrapping_add(x) *)
| AccPlain.       (* score += x: wraps in release builds (a debug build panics on overflow: not modelled) *)

Record skel : Type := {
  sk_off_red : red;       (* how a row offset is obtained *)
  sk_off_drop : nat;      (* ... over row[..K - drop] *)
  sk_factor : fexp;       (* let factor = .. *)
  sk_cell : fexp;         (* data[i][j] = (..) *)
  sk_cell_rnd : rnd;      (*              .ceil() as u8 *)
  sk_scale : fexp; sk_scale_rnd : rnd;
  sk_unscale : fexp;
  sk_sp_acc : acc; sk_sp_start : Z }.

Definition wrap_add8 (a b : Z) : Z := ((a + b) mod 256)%Z.

Definition byte_acc (a : acc) : Z -> Z -> Z :=
  match a with AccSaturating => sat_add | AccWrapping | AccPlain => wrap_add8 end.

Section Sk.
  Context {T : Type}.
  Variable N : NumOps T.
  Variable S : skel.

  Record fenv : Type := { e_cell : T; e_rowoff : T; e_factor : T; e_offset : T; e_max : T; e_score : T; e_byte : Z }.

  Fixpoint feval (env : fenv) (e : fexp) : T :=
    match e with
    | EV VCell => e_cell env | EV VRowOffset => e_rowoff env | EV VFactor => e_factor env
    | EV VOffset => e_offset env | EV VMaxScore => e_max env | EV VScore => e_score env
    | EV VByte => n_of_u8 N (e_byte env) | EV VU8Max => n_of_u8 N 255
    | EAdd a b => n_add N (feval env a) (feval env b)
    | ESub a b => n_sub N (feval env a) (feval env b)
    | EMul a b => n_mul N (feval env a) (feval env b)
    | EDiv a b => n_div N (feval env a) (feval env b)
    | EAbs a => n_abs N (feval env a)
    end.

  Definition to_byte (r : rnd) (x : T) : Z := match r with RCeil => n_ceil_u8 N x | RFloor => n_floor_u8 N x end.

  Definition z : T := n_zero N.   (* value of the leaves an expression of that function cannot mention *)

  Definition skp_reduce (l : list T) : res T :=
    match sk_off_red S with RedMinBy => row_min N l | RedMaxBy => row_max N l end.

  Definition skp_offsets (K : nat) (m : list (list T)) : res (list T) :=
    map_res (fun row => skp_reduce (firstn (K - sk_off_drop S) row)) m.

  Definition skp_disc_cell (factor o x : T) : Z :=
    to_byte (sk_cell_rnd S)
            (feval {| e_cell := x; e_rowoff := o; e_factor := factor; e_offset := z; e_max := z; e_score := z; e_byte := 0 |}
                   (sk_cell S)).

  Fixpoint skp_disc_rows (factor : T) (m : list (list T)) (offsets : list T) : list (list Z) :=
    match m, offsets with
    | row :: m', o :: os => map (skp_disc_cell factor o) row :: skp_disc_rows factor m' os
    | _, _ => []
    end.

  (* ScoringMatrix::to_discrete, statement by statement *)
  Definition skp_to_discrete (K : nat) (m : list (list T)) : res (@dmat T) :=
    mx <- max_score N K m ;;
    offsets <- skp_offsets K m ;;
    let offset := sum_from N (n_sum0 N) offsets in
    let factor := feval {| e_cell := z; e_rowoff := z; e_factor := z; e_offset := offset; e_max := mx; e_score := z; e_byte := 0 |}
                        (sk_factor S) in
    Ok {| d_data := skp_disc_rows factor m offsets; d_factor := factor; d_offsets := offsets; d_offset := offset |}.

  Definition skp_scale_with (factor offset s : T) : Z :=
    to_byte (sk_scale_rnd S)
            (feval {| e_cell := z; e_rowoff := z; e_factor := factor; e_offset := offset; e_max := z; e_score := s; e_byte := 0 |}
                   (sk_scale S)).

  Definition skp_unscale_with (factor offset : T) (b : Z) : T :=
    feval {| e_cell := z; e_rowoff := z; e_factor := factor; e_offset := offset; e_max := z; e_score := z; e_byte := b |}
          (sk_unscale S).
End Sk.

(* DiscreteMatrix::score_position *)
Definition skp_disc_score (S : skel) (dm : list (list Z)) (s : sseq) (pos : nat) : res Z :=
  score_position (byte_acc (sk_sp_acc S)) (sk_sp_start S) dm s pos.

(* the skeleton of the code as it is (the value GenDiscSkel.gen_skel must have) *)
Definition expected_skel : skel := {|
  sk_off_red := RedMinBy; sk_off_drop := 1;
  sk_factor := EDiv (EAbs (ESub (EV VMaxScore) (EV VOffset))) (EV VU8Max);
  sk_cell := EDiv (ESub (EV VCell) (EV VRowOffset)) (EV VFactor); sk_cell_rnd := RCeil;
  sk_scale := EDiv (ESub (EV VScore) (EV VOffset)) (EV VFactor); sk_scale_rnd := RFloor;
  sk_unscale := EAdd (EMul (EV VByte) (EV VFactor)) (EV VOffset);
  sk_sp_acc := AccSaturating; sk_sp_start := 0%Z |}.
