(* u8 kernels of property C08: the AVX2 lane-wise kernel, the generic kernel and the
   dispatcher arms compute the same score matrix, whose cell for position i is the
   saturating sum of the discrete cells of the window at i.  u8 arithmetic is exact,
   so these are equalities for all inputs. *)
From Coq Require Import List ZArith Lia Bool Arith.
From LMBase Require Import Res ListX.
From LMDisc Require Import DiscModel DiscProofs.
Import ListNotations.
Local Open Scope nat_scope.

(* ---------- small list facts ---------- *)

Lemma map_res_ok_map {A B} (f : A -> res B) (g : A -> B) (l : list A) :
  (forall a, In a l -> f a = Ok (g a)) -> map_res f l = Ok (map g l).
Proof.
  induction l as [|a l IH]; intros H; cbn [map_res map]; [reflexivity|].
  rewrite (H a (or_introl eq_refl)). cbn [rbind]. rewrite IH; [reflexivity|].
  intros b Hb. apply H. right; exact Hb.
Qed.

Lemma map_res_seq_nth {B} (f : nat -> res B) (l : list B) (d : B) :
  (forall c, c < length l -> f c = Ok (nth c l d)) -> map_res f (seq 0 (length l)) = Ok l.
Proof.
  intros H. rewrite (map_res_ok_map f (fun c => nth c l d)).
  - f_equal. apply (nth_ext _ _ d d).
    + rewrite map_length, seq_length. reflexivity.
    + intros n Hn. rewrite map_length, seq_length in Hn.
      rewrite (nth_indep _ d (nth 0 l d)) by (rewrite map_length, seq_length; exact Hn).
      rewrite (map_nth (fun c => nth c l d) (seq 0 (length l)) 0 n). rewrite seq_nth by exact Hn. reflexivity.
  - intros a Ha. apply in_seq in Ha. apply H. lia.
Qed.

Lemma zip_with_length {A B C} (f : A -> B -> C) (a : list A) : forall (b : list B),
  length a = length b -> length (zip_with f a b) = length a.
Proof. induction a as [|x a IH]; intros [|y b] H; cbn in *; try lia. f_equal. apply IH. lia. Qed.

Lemma zip_with_nth {A B C} (f : A -> B -> C) (a : list A) : forall (b : list B) n da db dc,
  length a = length b -> n < length a ->
  nth n (zip_with f a b) dc = f (nth n a da) (nth n b db).
Proof.
  induction a as [|x a IH]; intros [|y b] n da db dc Hl Hn; cbn in *; try lia.
  destruct n as [|n]; [reflexivity|]. apply IH; lia.
Qed.

Lemma nth_firstn_lt {A} (l : list A) : forall k n d, n < k -> nth n (firstn k l) d = nth n l d.
Proof.
  induction l as [|a l IH]; intros [|k] [|n] d H; cbn; try lia; auto.
  apply IH. lia.
Qed.

Lemma Forall2_len {A B} (R : A -> B -> Prop) l1 l2 : Forall2 R l1 l2 -> length l1 = length l2.
Proof. induction 1; cbn; auto. Qed.

Lemma nth_error_Some_nth {A} (l : list A) n d : n < length l -> nth_error l n = Some (nth n l d).
Proof. intros H. apply nth_error_nth'. exact H. Qed.

(* ---------- one step of the AVX2 kernel ---------- *)

Lemma land_15 (n : nat) : n < 16 -> Z.to_nat (Z.land (Z.of_nat n) 15) = n.
Proof.
  intros H. change 15%Z with (Z.ones 4). rewrite Z.land_ones by lia.
  rewrite Z.mod_small by (change (2 ^ 4)%Z with 16%Z; lia). apply Nat2Z.id.
Qed.

Lemma shuffle_byte_sym (t16 : list Z) (sym : nat) :
  sym < 16 -> shuffle_byte t16 (Z.of_nat sym) = nth sym t16 0%Z.
Proof.
  intros H. unfold shuffle_byte.
  destruct (Z.leb_spec 128 (Z.of_nat sym)) as [Hge|_]; [lia|].
  rewrite land_15 by exact H. reflexivity.
Qed.

(* a row of the discrete matrix in memory: the K cells, then padding up to 32 bytes *)
Definition mem_ok (K : nat) (prow drow : list Z) : Prop :=
  length drow = K /\ exists pad, prow = drow ++ pad /\ 16 <= length prow.

(* PSHUFB of the broadcast row by a vector of 32 symbols below K <= 16 is the table lookup *)
Lemma shuffle_lookup (K : nat) (prow drow : list Z) (x : list nat) :
  K <= 16 -> mem_ok K prow drow -> Forall (fun v => v < K) x ->
  mm256_shuffle_epi8 (mm256_broadcastsi128 (mm_load_si128 prow)) (map Z.of_nat x)
  = map (fun sym => nth sym drow 0%Z) x.
Proof.
  intros HK [Hlen [pad [Hp H16]]] Hx.
  unfold mm256_shuffle_epi8, mm256_broadcastsi128, mm_load_si128.
  set (t16 := firstn 16 prow).
  assert (Ht : length t16 = 16) by (unfold t16; rewrite firstn_length; lia).
  rewrite (firstn_app_exact t16 t16 16 Ht), (skipn_app_exact t16 t16 16 Ht).
  rewrite <- map_app, firstn_skipn, map_map.
  apply map_ext_in. intros sym Hsym. rewrite Forall_forall in Hx. specialize (Hx sym Hsym).
  rewrite shuffle_byte_sym by lia.
  unfold t16. rewrite nth_firstn_lt by lia.
  rewrite Hp. apply app_nth1. lia.
Qed.

Lemma avx2_row_length (mem : list (list Z)) : forall s seqrows i,
  length s = 32 ->
  (forall j, j < length mem -> length (nth (i + j) seqrows []) = 32) ->
  length (avx2_row s mem seqrows i) = 32.
Proof.
  induction mem as [|prow mem IH]; intros s seqrows i Hs Hrows; cbn [avx2_row]; [exact Hs|].
  apply IH.
  - unfold mm256_adds_epu8. rewrite zip_with_length; [exact Hs|].
    unfold mm256_shuffle_epi8. rewrite app_length, !map_length, <- app_length, firstn_skipn, map_length.
    specialize (Hrows 0 (Nat.lt_0_succ _)). rewrite Nat.add_0_r in Hrows. lia.
  - intros j Hj. replace (S i + j) with (i + S j) by lia. apply Hrows. cbn. lia.
Qed.

(* ---------- the AVX2 row equals the generic cells ---------- *)

(* sequence rows r .. r+n-1 exist, have 32 symbols, all below K *)
Definition seq_rows_ok (K : nat) (seqrows : list (list nat)) (r n : nat) : Prop :=
  forall j, j < n -> exists x, nth_error seqrows (r + j) = Some x /\ length x = 32 /\ Forall (fun v => v < K) x.

Lemma avx2_row_cell (K : nat) : K <= 16 ->
  forall (dm mem : list (list Z)), Forall2 (mem_ok K) mem dm ->
  forall (s : list Z) (seqrows : list (list nat)) (i c : nat),
    length s = 32 -> c < 32 -> seq_rows_ok K seqrows i (length dm) ->
    cell_from sat_add (nth c s 0%Z) dm seqrows i c = Ok (nth c (avx2_row s mem seqrows i) 0%Z).
Proof.
  intros HK dm mem Hmem. induction Hmem as [|prow drow mem dm Hok Hmem IH];
    intros s seqrows i c Hs Hc Hrows; cbn [cell_from avx2_row]; [reflexivity|].
  destruct (Hrows 0 (Nat.lt_0_succ _)) as [x [Hx [Hlx Hsym]]]. rewrite Nat.add_0_r in Hx.
  unfold nth_res at 1. rewrite Hx. cbn [rbind].
  unfold nth_res at 1. rewrite (nth_error_Some_nth x c 0) by lia. cbn [rbind].
  assert (Hsc : nth c x 0 < K).
  { rewrite Forall_forall in Hsym. apply Hsym. apply nth_In. lia. }
  destruct Hok as [Hld Hpad].
  unfold nth_res at 1. rewrite (nth_error_Some_nth drow (nth c x 0) 0%Z) by lia. cbn [rbind].
  rewrite (nth_error_nth seqrows i [] Hx).
  rewrite (shuffle_lookup K prow drow x HK (conj Hld Hpad) Hsym).
  set (y := map (fun sym => nth sym drow 0%Z) x).
  assert (Hly : length y = 32) by (unfold y; rewrite map_length; exact Hlx).
  assert (Hs' : length (mm256_adds_epu8 s y) = 32).
  { unfold mm256_adds_epu8. rewrite zip_with_length; lia. }
  rewrite <- (IH (mm256_adds_epu8 s y) seqrows (S i) c Hs' Hc).
  - f_equal. unfold mm256_adds_epu8. rewrite (zip_with_nth sat_add s y c 0%Z 0%Z 0%Z) by lia.
    f_equal. unfold y.
    rewrite (nth_indep (map (fun sym => nth sym drow 0%Z) x) 0%Z ((fun sym => nth sym drow 0%Z) 0))
      by (rewrite map_length; lia).
    rewrite (map_nth (fun sym => nth sym drow 0%Z) x 0 c). reflexivity.
  - intros j Hj. replace (S i + j) with (i + S j) by lia. apply Hrows. cbn. lia.
Qed.

Lemma mem_rows_ok (K : nat) (dm : list (list Z)) (pads : nat -> list Z) :
  Forall (fun row => length row = K) dm -> (forall i, 16 <= K + length (pads i)) ->
  Forall2 (mem_ok K) (mem_rows dm pads) dm.
Proof.
  intros Hdm Hp. unfold mem_rows. generalize 0 as k.
  induction Hdm as [|row dm Hrow Hdm IH]; intros k; cbn [length seq combine map]; constructor.
  - split; [exact Hrow|]. exists (pads k). cbn [fst snd]. split; [reflexivity|].
    rewrite app_length. specialize (Hp k). lia.
  - apply IH.
Qed.

(* a whole output row: the generic inner loops give exactly the AVX2 register *)
Lemma avx2_row_generic (K : nat) (dm : list (list Z)) (pads : nat -> list Z) (seqrows : list (list nat)) (r : nat) :
  K <= 16 -> Forall (fun row => length row = K) dm -> (forall i, 16 <= K + length (pads i)) ->
  seq_rows_ok K seqrows r (length dm) ->
  map_res (fun c => cell_from sat_add 0%Z dm seqrows r c) (seq 0 32)
  = Ok (avx2_row mm256_setzero (mem_rows dm pads) seqrows r).
Proof.
  intros HK Hdm Hp Hrows.
  pose proof (mem_rows_ok K dm pads Hdm Hp) as Hmem.
  assert (Hlen : length (avx2_row mm256_setzero (mem_rows dm pads) seqrows r) = 32).
  { apply avx2_row_length; [reflexivity|].
    intros j Hj. rewrite (Forall2_len _ _ _ Hmem) in Hj.
    destruct (Hrows j Hj) as [x [Hx [Hlx _]]]. rewrite (nth_error_nth _ _ [] Hx). exact Hlx. }
  rewrite <- Hlen at 1. apply (map_res_seq_nth _ _ 0%Z).
  intros c Hc. rewrite Hlen in Hc.
  rewrite <- (avx2_row_cell K HK dm (mem_rows dm pads) Hmem mm256_setzero seqrows r c eq_refl Hc Hrows).
  f_equal. unfold mm256_setzero. rewrite nth_repeat_lt by exact Hc. reflexivity.
Qed.

(* ---------- the two kernels, any row range ---------- *)

(* well-formed striped sequence: every row has 32 symbols below K *)
Definition sseq_ok (K : nat) (s : sseq) : Prop :=
  Forall (fun x => length x = 32 /\ Forall (fun v => v < K) x) (ss_rows s).

Lemma sseq_rows_ok K s r n : sseq_ok K s -> r + n <= length (ss_rows s) -> seq_rows_ok K (ss_rows s) r n.
Proof.
  intros Hok Hle j Hj. unfold sseq_ok in Hok. rewrite Forall_forall in Hok.
  destruct (nth_error (ss_rows s) (r + j)) as [x|] eqn:Hx.
  - exists x. split; [reflexivity|]. apply Hok. eapply nth_error_In; eauto.
  - apply nth_error_None in Hx. lia.
Qed.

(* AVX2 result = generic result whenever the AVX2 wrapper does not panic *)
Theorem avx2_eq_generic (K : nat) (dm : list (list Z)) (pads : nat -> list Z) (s : sseq) (lo hi : nat)
        (sc : sscores Z) :
  K <= 16 -> Forall (fun row => length row = K) dm -> (forall i, 16 <= K + length (pads i)) -> sseq_ok K s ->
  score_rows_avx2 dm pads s lo hi = Ok sc ->
  score_rows_generic sat_add 0%Z 32 dm s lo hi = Ok sc.
Proof.
  intros HK Hdm Hp Hs H. unfold score_rows_avx2 in H. unfold score_rows_generic.
  destruct (length dm =? 0) eqn:HM; [discriminate|]. apply Nat.eqb_neq in HM.
  destruct (ss_wrap s <? length dm - 1); [discriminate|].
  destruct ((ss_len s <? length dm) || (hi <=? lo)) eqn:He; [exact H|].
  destruct (length (ss_rows s) <? hi + length dm - 1) eqn:Hr; [discriminate|].
  apply Nat.ltb_ge in Hr. inversion H; subst sc; clear H.
  rewrite (map_res_ok_map _ (fun i => avx2_row mm256_setzero (mem_rows dm pads) (ss_rows s) i)); [reflexivity|].
  intros r Hrin. apply in_seq in Hrin.
  apply (avx2_row_generic K dm pads (ss_rows s) r HK Hdm Hp).
  apply sseq_rows_ok; [exact Hs|]. lia.
Qed.

(* a computed generic cell means that the rows it reads exist *)
Lemma cell_from_rows {V} (vadd : V -> V -> V) (m : list (list V)) : forall acc rows r c v,
  cell_from vadd acc m rows r c = Ok v -> r + length m <= length rows \/ m = [].
Proof.
  induction m as [|mrow m IH]; intros acc rows r c v H; [right; reflexivity|left].
  cbn [cell_from] in H. unfold nth_res at 1 in H.
  destruct (nth_error rows r) as [srow|] eqn:Hr; cbn [rbind] in H; [|discriminate].
  unfold nth_res at 1 in H. destruct (nth_error srow c); cbn [rbind] in H; [|discriminate].
  unfold nth_res at 1 in H. destruct (nth_error mrow n); cbn [rbind] in H; [|discriminate].
  assert (Hlt : r < length rows) by (apply nth_error_Some; congruence).
  destruct (IH _ _ _ _ _ H) as [Hle| ->]; cbn [length]; lia.
Qed.

Lemma map_res_in_ok {A B} (f : A -> res B) (l : list A) r a :
  map_res f l = Ok r -> In a l -> exists b, f a = Ok b.
Proof.
  revert r. induction l as [|x l IH]; intros r H Hin; [destruct Hin|].
  cbn [map_res] in H. destruct (f x) eqn:Hfx; cbn [rbind] in H; try discriminate.
  destruct (map_res f l) eqn:Hm; cbn [rbind] in H; try discriminate.
  destruct Hin as [<-|Hin]; [eauto|]. eapply IH; eauto.
Qed.

(* conversely, with enough wrap rows the AVX2 wrapper accepts what the generic kernel computes *)
Theorem generic_eq_avx2 (K : nat) (dm : list (list Z)) (pads : nat -> list Z) (s : sseq) (lo hi : nat)
        (sc : sscores Z) :
  K <= 16 -> Forall (fun row => length row = K) dm -> (forall i, 16 <= K + length (pads i)) -> sseq_ok K s ->
  1 <= length dm -> length dm - 1 <= ss_wrap s ->
  score_rows_generic sat_add 0%Z 32 dm s lo hi = Ok sc ->
  score_rows_avx2 dm pads s lo hi = Ok sc.
Proof.
  intros HK Hdm Hp Hs HM Hw H.
  destruct (score_rows_avx2 dm pads s lo hi) as [sc'| | |] eqn:Ha.
  - rewrite (avx2_eq_generic K dm pads s lo hi sc' HK Hdm Hp Hs Ha) in H. exact H.
  - unfold score_rows_avx2 in Ha. repeat match type of Ha with (if ?b then _ else _) = _ => destruct b; try discriminate end.
  - (* a panic of the wrapper: excluded by the hypotheses and by the generic result *)
    exfalso. unfold score_rows_avx2 in Ha. unfold score_rows_generic in H.
    destruct (length dm =? 0) eqn:H0; [apply Nat.eqb_eq in H0; lia|].
    destruct (ss_wrap s <? length dm - 1) eqn:H1; [apply Nat.ltb_lt in H1; lia|].
    destruct ((ss_len s <? length dm) || (hi <=? lo)) eqn:He; [discriminate|].
    destruct (length (ss_rows s) <? hi + length dm - 1) eqn:Hr; [|discriminate].
    apply Nat.ltb_lt in Hr. apply orb_false_iff in He. destruct He as [_ He]. apply Nat.leb_gt in He.
    destruct (map_res (fun r => map_res (fun c => cell_from sat_add 0%Z dm (ss_rows s) r c) (seq 0 32)) (seq lo (hi - lo)))
      as [rows| | |] eqn:Hm; cbn [rbind] in H; try discriminate.
    assert (Hin : In (hi - 1) (seq lo (hi - lo))) by (apply in_seq; lia).
    destruct (map_res_in_ok _ _ _ _ Hm Hin) as [row Hrow].
    assert (Hin0 : In 0 (seq 0 32)) by (apply in_seq; lia).
    destruct (map_res_in_ok _ _ _ _ Hrow Hin0) as [v Hv].
    destruct (cell_from_rows _ _ _ _ _ _ _ Hv) as [Hle|Hnil]; [lia|]. rewrite Hnil in HM. cbn in HM. lia.
  - unfold score_rows_avx2 in Ha. repeat match type of Ha with (if ?b then _ else _) = _ => destruct b; try discriminate end.
Qed.

(* all arms of the dispatcher agree *)
Theorem dispatch_arms_agree (K : nat) (dm : list (list Z)) (pads : nat -> list Z) (s : sseq) (lo hi : nat)
        (a : arm) (sc : sscores Z) :
  K <= 16 -> Forall (fun row => length row = K) dm -> (forall i, 16 <= K + length (pads i)) -> sseq_ok K s ->
  score_rows_dispatch a dm pads s lo hi = Ok sc ->
  score_rows_generic sat_add 0%Z 32 dm s lo hi = Ok sc.
Proof.
  intros HK Hdm Hp Hs H. destruct a; cbn [score_rows_dispatch] in H; try exact H.
  exact (avx2_eq_generic K dm pads s lo hi sc HK Hdm Hp Hs H).
Qed.

(* ---------- from score-matrix cells to windows of the sequence ---------- *)

(* n symbols of s from position pos on, [d] past the end *)
Definition win (s : list nat) (d pos n : nat) : list nat := map (fun j => nth (pos + j) s d) (seq 0 n).

Lemma window_win K s pos M : window K s pos M = win s (K - 1) pos M.
Proof. reflexivity. Qed.

Lemma win_cons s d pos n : win s d pos (S n) = nth pos s d :: win s d (S pos) n.
Proof.
  unfold win. cbn [seq map]. rewrite Nat.add_0_r. f_equal.
  rewrite <- seq_shift, map_map. apply map_ext. intros j. f_equal. lia.
Qed.

Section Striped.
  Variable K C wrapn : nat.
  Variable s : list nat.
  Let L := length s.
  Let R := (L + (C - 1)) / C.
  Let st := striped K C wrapn s.

  Lemma striped_rows_length : length (ss_rows st) = R + wrapn.
  Proof. unfold st, striped. cbn [ss_rows]. rewrite map_length, seq_length. reflexivity. Qed.

  Lemma striped_row r : r < R + wrapn ->
    nth_error (ss_rows st) r = Some (map (fun c => nth (c * R + r) s (K - 1)) (seq 0 C)).
  Proof.
    intros Hr. unfold st, striped. cbn [ss_rows]. fold L. fold R.
    rewrite (nth_error_Some_nth _ r []) by (rewrite map_length, seq_length; exact Hr).
    f_equal.
    rewrite (nth_indep _ [] ((fun r => map (fun c => nth (c * R + r) s (K - 1)) (seq 0 C)) 0))
      by (rewrite map_length, seq_length; exact Hr).
    rewrite (map_nth (fun r => map (fun c => nth (c * R + r) s (K - 1)) (seq 0 C)) (seq 0 (R + wrapn)) 0 r).
    rewrite seq_nth by exact Hr. reflexivity.
  Qed.

  Lemma striped_cell r c : c < C ->
    nth_error (map (fun c => nth (c * R + r) s (K - 1)) (seq 0 C)) c = Some (nth (c * R + r) s (K - 1)).
  Proof.
    intros Hc. rewrite (nth_error_Some_nth _ c 0) by (rewrite map_length, seq_length; exact Hc).
    f_equal.
    rewrite (nth_indep _ 0 ((fun c => nth (c * R + r) s (K - 1)) 0)) by (rewrite map_length, seq_length; exact Hc).
    rewrite (map_nth (fun c => nth (c * R + r) s (K - 1)) (seq 0 C) 0 c).
    rewrite seq_nth by exact Hc. reflexivity.
  Qed.

  (* one cell of the generic kernel = the score of the window at position c*R + r *)
  Lemma cell_from_striped {V} (vadd : V -> V -> V) (m : list (list V)) : forall acc r c,
    r + length m <= R + wrapn -> c < C ->
    cell_from vadd acc m (ss_rows st) r c = wscore_from vadd acc m (win s (K - 1) (c * R + r) (length m)).
  Proof.
    induction m as [|mrow m IH]; intros acc r c Hr Hc; cbn [cell_from wscore_from length]; [reflexivity|].
    cbn [length] in Hr. rewrite win_cons.
    unfold nth_res at 1. rewrite striped_row by lia. cbn [rbind].
    unfold nth_res at 1. rewrite striped_cell by exact Hc. cbn [rbind].
    destruct (nth_res P_SYM_OOB mrow (nth (c * R + r) s (K - 1))) as [x| | |]; cbn [rbind]; try reflexivity.
    rewrite IH by lia. f_equal. f_equal. lia.
  Qed.

  Hypothesis HC : 0 < C.

  Lemma R_pos : 0 < L -> 0 < R.
  Proof.
    intros HL. unfold R. apply Nat.div_str_pos. lia.
  Qed.

  Lemma L_le_RC : L <= R * C.
  Proof.
    unfold R. pose proof (Nat.div_mod (L + (C - 1)) C ltac:(lia)) as H.
    pose proof (Nat.mod_upper_bound (L + (C - 1)) C ltac:(lia)) as H2. nia.
  Qed.

  (* StripedSequence Index<usize> reads the sequence (or the padding symbol) *)
  Lemma ss_index_striped i : i < R * C -> ss_index st i = Ok (nth i s (K - 1)).
  Proof.
    intros Hi. assert (HR : 0 < R) by (destruct R; lia).
    unfold ss_index. rewrite striped_rows_length.
    assert (Hw : ss_wrap st = wrapn) by reflexivity. rewrite Hw.
    replace (R + wrapn - wrapn) with R by lia.
    destruct (Nat.eqb_spec R 0) as [E|_]; [lia|].
    pose proof (Nat.mod_upper_bound i R ltac:(lia)) as Hm.
    assert (Hd : i / R < C) by (apply Nat.div_lt_upper_bound; lia).
    unfold nth_res at 1. rewrite striped_row by lia. cbn [rbind].
    unfold nth_res. rewrite striped_cell by exact Hd.
    f_equal. f_equal. pose proof (Nat.div_mod i R ltac:(lia)). lia.
  Qed.

  (* score_position = the score of the window at that position *)
  Lemma score_pos_striped {V} (vadd : V -> V -> V) (m : list (list V)) : forall acc pos,
    pos + length m <= R * C ->
    score_pos_from vadd acc m st pos = wscore_from vadd acc m (win s (K - 1) pos (length m)).
  Proof.
    induction m as [|mrow m IH]; intros acc pos Hp; cbn [score_pos_from wscore_from length]; [reflexivity|].
    cbn [length] in Hp. rewrite win_cons. rewrite ss_index_striped by lia. cbn [rbind].
    destruct (nth_res P_SYM_OOB mrow (nth pos s (K - 1))) as [x| | |]; cbn [rbind]; try reflexivity.
    apply IH. lia.
  Qed.

  Lemma striped_ok : 0 < K -> C = 32 -> Forall (fun v => v < K) s -> sseq_ok K st.
  Proof.
    intros HK HC32 Hs. unfold sseq_ok, st, striped. cbn [ss_rows].
    apply Forall_forall. intros x Hx. apply in_map_iff in Hx. destruct Hx as [r [<- _]].
    split; [rewrite map_length, seq_length; exact HC32|].
    apply Forall_forall. intros v Hv. apply in_map_iff in Hv. destruct Hv as [c [<- _]].
    apply Forall_nth_default; [exact Hs|lia].
  Qed.
End Striped.

(* windows over symbols below K are scored without panic by matrices with K columns *)
Lemma wscore_from_total {V} (vadd : V -> V -> V) (K : nat) (m : list (list V)) : forall acc w,
  Forall (fun row => length row = K) m -> Forall (fun v => v < K) w -> length m <= length w ->
  exists v, wscore_from vadd acc m w = Ok v.
Proof.
  induction m as [|row m IH]; intros acc w Hm Hw Hl; cbn [wscore_from]; [eexists; reflexivity|].
  destruct w as [|x w]; [cbn in Hl; lia|].
  inversion Hm; subst. inversion Hw; subst.
  unfold nth_res. destruct (nth_error row x) as [v|] eqn:E; [|apply nth_error_None in E; lia].
  cbn [rbind]. apply IH; auto. cbn in Hl. lia.
Qed.

Lemma nth_error_map_seq {B} (f : nat -> B) n k : k < n -> nth_error (map f (seq 0 n)) k = Some (f k).
Proof.
  intros H. rewrite (map_nth_error f k (seq 0 n) (d := k)); [reflexivity|].
  rewrite (nth_error_Some_nth _ k 0) by (rewrite seq_length; exact H). rewrite seq_nth by exact H. reflexivity.
Qed.

Lemma win_ok K s pos n : 0 < K -> Forall (fun v => v < K) s -> Forall (fun v => v < K) (win s (K - 1) pos n).
Proof.
  intros HK Hs. apply Forall_forall. intros v Hv. apply in_map_iff in Hv. destruct Hv as [j [<- _]].
  apply Forall_nth_default; [exact Hs|lia].
Qed.

Lemma win_length s d pos n : length (win s d pos n) = n.
Proof. unfold win. rewrite map_length, seq_length. reflexivity. Qed.

(* the byte score of a window as a total function (used to name the result) *)
Definition wval (dm : list (list Z)) (w : list nat) : Z :=
  match disc_wscore dm w with Ok v => v | _ => 0%Z end.

Lemma wval_ok K dm s pos : 0 < K -> Forall (fun row => length row = K) dm -> Forall (fun v => v < K) s ->
  disc_wscore dm (win s (K - 1) pos (length dm)) = Ok (wval dm (win s (K - 1) pos (length dm))).
Proof.
  intros HK Hdm Hs. unfold wval.
  destruct (wscore_from_total sat_add K dm 0%Z (win s (K - 1) pos (length dm)) Hdm (win_ok K s pos _ HK Hs))
    as [v Hv]; [rewrite win_length; lia|].
  unfold disc_wscore, wscore. rewrite Hv. reflexivity.
Qed.

(* Every arm returns the same score matrix for a sequence striped and configured for the
   motif; its entry for position i is the saturating byte score of the window at i. *)
Theorem score_u8_windows (K : nat) (dm : list (list Z)) (pads : nat -> list Z) (s : list nat) (wrapn : nat) :
  0 < K -> K <= 16 -> Forall (fun row => length row = K) dm -> (forall i, 16 <= K + length (pads i)) ->
  Forall (fun v => v < K) s ->
  1 <= length dm -> length dm <= length s -> length dm - 1 <= wrapn ->
  exists sc,
    (forall a, score_u8 a dm pads (striped K 32 wrapn s) = Ok sc) /\
    length (sc_rows sc) = (length s + 31) / 32 /\
    sc_max sc = length s + 1 - length dm /\
    (forall i, i < (length s + 31) / 32 * 32 ->
       sc_index sc i = disc_wscore dm (window K s i (length dm))).
Proof.
  intros HK HK16 Hdm Hp Hs HM HL Hw.
  set (M := length dm) in *. set (R := (length s + 31) / 32).
  set (st := striped K 32 wrapn s).
  set (val := fun r c => wval dm (win s (K - 1) (c * R + r) M)).
  set (sc := {| sc_rows := map (fun r => map (fun c => val r c) (seq 0 32)) (seq 0 R);
                sc_max := length s + 1 - M |}).
  assert (HR : 0 < R) by (unfold R; apply Nat.div_str_pos; lia).
  assert (Hrows : length (ss_rows st) = R + wrapn) by (apply (striped_rows_length K 32 wrapn s)).
  assert (Hwr : ss_wrap st = wrapn) by reflexivity.
  assert (Hlen : ss_len st = length s) by reflexivity.
  assert (Hgen : score_rows_generic sat_add 0%Z 32 dm st 0 R = Ok sc).
  { unfold score_rows_generic. rewrite Hlen. fold M.
    destruct (Nat.ltb_spec (length s) M) as [Hbad|_]; [lia|].
    destruct (Nat.leb_spec R 0) as [Hbad|_]; [lia|]. cbn [orb]. rewrite Nat.sub_0_r.
    rewrite (map_res_ok_map _ (fun r => map (fun c => val r c) (seq 0 32))); [reflexivity|].
    intros r Hr. apply in_seq in Hr.
    apply map_res_ok_map. intros c Hc. apply in_seq in Hc.
    assert (HR' : (length s + (32 - 1)) / 32 = R) by reflexivity.
    unfold st. rewrite (cell_from_striped K 32 wrapn s sat_add dm 0%Z r c) by (try rewrite HR'; fold M; lia).
    rewrite HR'. fold M. unfold val. apply (wval_ok K dm s (c * R + r) HK Hdm Hs). }
  assert (Hok : sseq_ok K st) by (apply striped_ok; solve [lia | assumption | reflexivity]).
  exists sc. split; [|split; [|split]].
  - intros a. unfold score_u8. rewrite Hrows, Hwr. replace (R + wrapn - wrapn) with R by lia.
    destruct a; cbn [score_rows_dispatch]; try exact Hgen.
    apply (generic_eq_avx2 K dm pads st 0 R sc HK16 Hdm Hp Hok HM); [rewrite Hwr; exact Hw|exact Hgen].
  - unfold sc. cbn [sc_rows]. rewrite map_length, seq_length. reflexivity.
  - reflexivity.
  - intros i Hi. fold R in Hi. unfold sc_index.
    assert (Hl : length (sc_rows sc) = R) by (unfold sc; cbn [sc_rows]; rewrite map_length, seq_length; reflexivity).
    rewrite Hl. destruct (Nat.eqb_spec R 0) as [E|_]; [lia|].
    pose proof (Nat.mod_upper_bound i R ltac:(lia)) as Hm.
    assert (Hd : i / R < 32) by (apply Nat.div_lt_upper_bound; lia).
    unfold nth_res at 1. unfold sc at 1. cbn [sc_rows]. rewrite nth_error_map_seq by exact Hm. cbn [rbind].
    unfold nth_res. rewrite nth_error_map_seq by exact Hd.
    unfold val. rewrite window_win.
    assert (Hpos : i / R * R + i mod R = i) by (pose proof (Nat.div_mod i R ltac:(lia)); lia).
    rewrite Hpos. symmetry. apply (wval_ok K dm s i HK Hdm Hs).
Qed.

(* DiscreteMatrix::score_position and ScoringMatrix::score_position read the same windows *)
Theorem score_position_window {V} (vadd : V -> V -> V) (vzero : V) (K wrapn : nat) (m : list (list V))
        (s : list nat) (pos : nat) :
  pos + length m <= length s ->
  score_position vadd vzero m (striped K 32 wrapn s) pos = wscore vadd vzero m (window K s pos (length m)).
Proof.
  intros H. unfold score_position, wscore. rewrite window_win.
  apply (score_pos_striped K 32 wrapn s ltac:(lia)).
  pose proof (L_le_RC 32 s ltac:(lia)). lia.
Qed.

(* ---------- shape of the discrete matrix ---------- *)

Lemma disc_rows_shape {T} (N : NumOps T) (K : nat) (f : T) (m : list (list T)) : forall os,
  length os = length m -> Forall (fun row => length row = K) m ->
  length (disc_rows N f m os) = length m /\ Forall (fun row => length row = K) (disc_rows N f m os).
Proof.
  induction m as [|row m IH]; intros [|o os] Hl Hm; cbn in Hl; try lia; cbn [disc_rows length].
  - split; [reflexivity|constructor].
  - inversion Hm; subst. destruct (IH os ltac:(lia) H2) as [H3 H4]. split; [lia|].
    constructor; [rewrite map_length; reflexivity|exact H4].
Qed.

(* ---------- end to end: every arm, every position (real score in exact arithmetic) ---------- *)

Theorem backends_overestimate (K : nat) (m : list (list xq)) (d : @dmat xq) (pads : nat -> list Z)
        (s : list nat) (a : arm) (i : nat) :
  0 < K -> K <= 16 ->
  Forall (fun row => length row = K) m ->
  Forall (fun row => Forall xq_finite (nonwild K row)) m ->
  to_discrete xq_ops K m = Ok d ->
  (forall i, 16 <= K + length (pads i)) ->
  Forall (fun v => v < K) s ->
  1 <= length m -> i + length m <= length s ->
  exists sc b real,
    score_u8 a (d_data d) pads (striped K 32 (configure_wrap_of (length m)) s) = Ok sc /\
    sc_index sc i = Ok b /\
    disc_score (d_data d) (striped K 32 (configure_wrap_of (length m)) s) i = Ok b /\
    real_score xq_ops m (striped K 32 (configure_wrap_of (length m)) s) i = Ok real /\
    (scale xq_ops d real <= b)%Z.
Proof.
  intros HK HK16 Hm Hfin Hd Hp Hs HM Hi.
  destruct (to_discrete_fin K m d Hfin Hd) as [os [f [_ [_ [_ [_ [Hdata Hlen]]]]]]].
  assert (Hl2 : length (map XFin os) = length m) by (rewrite map_length; exact Hlen).
  destruct (disc_rows_shape xq_ops K (XFin f) m (map XFin os) Hl2 Hm) as [Hdl Hdk].
  rewrite <- Hdata in Hdl, Hdk.
  assert (Hcw : configure_wrap_of (length m) = length m - 1).
  { unfold configure_wrap_of. destruct (Nat.eqb_spec (length m) 0); [lia|reflexivity]. }
  rewrite Hcw. set (wrapn := length m - 1).
  destruct (score_u8_windows K (d_data d) pads s wrapn HK HK16 Hdk Hp Hs) as [sc [Hsc [_ [_ Hidx]]]];
    try (rewrite Hdl; unfold wrapn; lia).
  assert (HiR : i < (length s + 31) / 32 * 32).
  { pose proof (L_le_RC 32 s ltac:(lia)) as HLR. change (32 - 1) with 31 in HLR. lia. }
  specialize (Hidx i HiR). rewrite Hdl in Hidx.
  pose proof (wval_ok K (d_data d) s i HK Hdk Hs) as Hb. rewrite Hdl in Hb.
  rewrite window_win in Hidx.
  set (b := wval (d_data d) (win s (K - 1) i (length m))) in *.
  destruct (wscore_from_total xq_add K m (n_zero xq_ops) (win s (K - 1) i (length m)) Hm (win_ok K s i _ HK Hs))
    as [real Hreal]; [rewrite win_length; lia|].
  exists sc, b, real. split; [apply Hsc|]. split; [rewrite Hidx; exact Hb|]. split; [|split].
  - unfold disc_score. rewrite (score_position_window sat_add 0%Z K wrapn (d_data d) s i) by (rewrite Hdl; exact Hi).
    rewrite Hdl, window_win. exact Hb.
  - unfold real_score. rewrite (score_position_window _ _ K wrapn m s i Hi). rewrite window_win. exact Hreal.
  - apply (discrete_overestimates K m d (win s (K - 1) i (length m)) real b Hfin Hd); [exact Hreal|exact Hb].
Qed.
