(* Property C08 at the level of binary32 arithmetic (instance f32_ops of the model):
   the statement is FALSE there for ill-conditioned matrices; concrete witness. *)
From Coq Require Import List ZArith Bool Arith Lia.
From LMBase Require Import Res ListX IEEE.
From LMDisc Require Import DiscModel.
Import ListNotations.

(* Two rows of entries near 1e5 whose range is 6 ulps (0.047): the f32 sum of the two
   cells of the window "AA" and the f32 sum of the two offsets are each rounded to a
   multiple of 2^-6, which moves the scaled score by more than the per-cell ceilings
   can absorb.  (Found by the harness on the implementation; replayed in corpus/C08.) *)
Definition wit_matrix : list (list F32.t) :=
  map (map F32.of_bits)
    [[1203982341; 1203982341; 1203982342; 1203982341; 4286578688];
     [1203982342; 1203982336; 1203982339; 1203982342; 4286578688]]%Z.
Definition wit_seq : list nat := [0; 0].     (* "AA" *)
Definition wit_pos : nat := 0.

Definition f32_finite_nonwild (K : nat) (m : list (list F32.t)) : bool :=
  forallb (fun row => forallb F32.is_finite (nonwild K row)) m.

(* the outcome of the binary32 model on a matrix, a sequence and a position:
   (byte score, byte image of the real score, conditioning predicate) *)
Definition f32_outcome (m : list (list F32.t)) (s : list nat) (pos : nat) : res (Z * Z * bool) :=
  d <- to_discrete f32_ops 5 m ;;
  let ss := striped 5 32 (configure_wrap_of (length m)) s in
  real <- real_score f32_ops m ss pos ;;
  b <- disc_score (d_data d) ss pos ;;
  Ok (b, scale f32_ops d real, well_conditioned m (d_factor d)).

Lemma wit_outcome : f32_outcome wit_matrix wit_seq wit_pos = Ok (192, 254, false)%Z.
Proof. vm_compute. reflexivity. Qed.

Lemma wit_finite : f32_finite_nonwild 5 wit_matrix = true.
Proof. vm_compute. reflexivity. Qed.

Lemma ieee_refuted :
  exists (m : list (list F32.t)) (s : list nat) (pos : nat) (b sc : Z) (wc : bool),
    f32_finite_nonwild 5 m = true /\ pos + length m <= length s /\
    f32_outcome m s pos = Ok (b, sc, wc) /\ (b < sc)%Z /\ wc = false.
Proof.
  exists wit_matrix, wit_seq, wit_pos, 192%Z, 254%Z, false.
  split; [exact wit_finite|]. split; [cbn; lia|]. split; [exact wit_outcome|]. split; [lia|reflexivity].
Qed.

(* the README motif (CountMatrix of two sequences, pseudocount 0.1) is well conditioned
   and its consensus word saturates: sum of rounded-up cells above 255 *)
