(* The u8 SIMD scoring kernels as DATA: a small register IR for the body of the motif loop of
   `score_u8_avx2_shuffle` (avx2.rs) and `score_u8_neon` (neon.rs), the steps of their safe wrappers
   and the u8 arms of the dispatcher.  The instances are GENERATED from the source by
   translate/disc_u8.py into GenDiscU8.v; this file only gives them a meaning.
   Executable definitions only; no proofs in this file. *)
From Coq Require Import List ZArith Bool Arith.
From LMBase Require Import Res ListX.
From LMDisc Require Import DiscModel.
Import ListNotations.
Local Open Scope nat_scope.

(* table lookups *)
Inductive lookup_kind : Type :=
| LShuffle256      (* _mm256_shuffle_epi8: per 128-bit lane, selector high bit -> 0, else table[selector & 15] *)
| LTbl1.           (* vqtbl1q_u8: index >= 16 -> 0, else table[index] *)

(* byte additions *)
Inductive add_kind : Type :=
| AddSat           (* _mm256_adds_epu8 / vqaddq_u8: unsigned saturating *)
| AddWrap.         (* _mm256_add_epi8  / vaddq_u8 : modulo 256 *)

(* the statements of the motif loop, on numbered vector registers *)
Inductive vop : Type :=
| VLoadSeq (dst : nat)                              (* one register of symbols of the current sequence row *)
| VLoadTable (dst : nat) (bcast : bool)             (* 16 bytes of the current matrix row (copied to both 128-bit lanes) *)
| VLookup (k : lookup_kind) (dst tbl idx : nat)
| VAdd (k : add_kind) (dst a b : nat).

(* the steps of a safe wrapper before the kernel call *)
Inductive guard : Type :=
| GWrap            (* if seq.wrap() < pssm.rows() - 1 { panic } *)
| GShort           (* if seq.len() < pssm.rows() || rows.is_empty() { resize(0, 0); return } *)
| GRange           (* if rows.end + pssm.rows() - 1 > seq.matrix().rows() { panic } *)
| GResize.         (* scores.resize(rows.len(), (seq.len() + 1).saturating_sub(pssm.rows())) *)

Record vkernel : Type := {
  vk_lanes : nat;            (* bytes per register: 32 (AVX2), 16 (NEON) *)
  vk_blocked : bool;         (* outer loop over the C / lanes column blocks (NEON); false: one register per row *)
  vk_init : Z;               (* value the accumulator is reset to for every position *)
  vk_acc : nat;              (* the register stored after the motif loop *)
  vk_body : list vop;        (* body of the motif loop, in source order *)
  vk_guards : list guard     (* steps of the wrapper, in source order *)
}.

Definition P_NORESIZE : nat := 9.   (* kernel entered without the resize of the score matrix *)

(* u8 wrapping addition *)
Definition wrap_add (a b : Z) : Z := ((a + b) mod 256)%Z.

(* vqtbl1q_u8 *)
Definition vqtbl1q_u8 (t x : list Z) : list Z :=
  map (fun i => if (16 <=? i)%Z then 0%Z else nth (Z.to_nat i) t 0%Z) x.

Definition regfile : Type := nat -> list Z.
Definition rset (r : regfile) (d : nat) (v : list Z) : regfile := fun k => if k =? d then v else r k.

Definition run_vop (o : vop) (x : list nat) (prow : list Z) (r : regfile) : regfile :=
  match o with
  | VLoadSeq d => rset r d (map Z.of_nat x)
  | VLoadTable d bcast =>
      let t := mm_load_si128 prow in rset r d (if bcast then mm256_broadcastsi128 t else t)
  | VLookup LShuffle256 d t i => rset r d (mm256_shuffle_epi8 (r t) (r i))
  | VLookup LTbl1 d t i => rset r d (vqtbl1q_u8 (r t) (r i))
  | VAdd AddSat d a b => rset r d (zip_with sat_add (r a) (r b))
  | VAdd AddWrap d a b => rset r d (zip_with wrap_add (r a) (r b))
  end.

Definition run_body (body : list vop) (x : list nat) (prow : list Z) (r : regfile) : regfile :=
  fold_left (fun r o => run_vop o x prow r) body r.

(* the motif loop for output row i and the column block starting at [off]: [mem] are the rows of
   the discrete matrix in memory, sequence row i + j is read for the j-th matrix row *)
Fixpoint vk_row_from (k : vkernel) (r : regfile) (mem : list (list Z)) (seqrows : list (list nat))
         (i off : nat) : regfile :=
  match mem with
  | [] => r
  | prow :: rest =>
      let x := firstn (vk_lanes k) (skipn off (nth i seqrows [])) in
      (* the registers of the loop body are `let`-bound per iteration: only the accumulator survives *)
      let r' := run_body (vk_body k) x prow r in
      vk_row_from k (rset (fun _ => []) (vk_acc k) (r' (vk_acc k))) rest seqrows (S i) off
  end.

Definition vk_row (k : vkernel) (mem : list (list Z)) (seqrows : list (list nat)) (i off : nat) : list Z :=
  vk_row_from k (rset (fun _ => []) (vk_acc k) (repeat (vk_init k) (vk_lanes k))) mem seqrows i off (vk_acc k).

(* one row of the score matrix with C columns *)
Definition vk_out_row (k : vkernel) (C : nat) (mem : list (list Z)) (seqrows : list (list nat)) (i : nat) : list Z :=
  if vk_blocked k
  then concat (map (fun b => vk_row k mem seqrows i (b * vk_lanes k)) (seq 0 (C / vk_lanes k)))
  else vk_row k mem seqrows i 0.

Definition vk_kernel (k : vkernel) (C : nat) (dm : list (list Z)) (pads : nat -> list Z) (s : sseq) (lo hi : nat)
  : res (sscores Z) :=
  Ok {| sc_rows := map (fun i => vk_out_row k C (mem_rows dm pads) (ss_rows s) i) (seq lo (hi - lo));
        sc_max := (ss_len s + 1) - length dm |}.

(* the safe wrapper: its steps in source order, then the kernel *)
Fixpoint run_guards (gs : list guard) (M : nat) (s : sseq) (lo hi : nat) (resized : bool)
         (kernel : unit -> res (sscores Z)) : res (sscores Z) :=
  match gs with
  | [] => if resized then kernel tt else Panic P_NORESIZE
  | GWrap :: r =>
      if M =? 0 then Panic P_UNDERFLOW else
      if ss_wrap s <? M - 1 then Panic P_WRAP else run_guards r M s lo hi resized kernel
  | GShort :: r =>
      if (ss_len s <? M) || (hi <=? lo) then Ok {| sc_rows := []; sc_max := 0 |}
      else run_guards r M s lo hi resized kernel
  | GRange :: r =>
      if M =? 0 then Panic P_UNDERFLOW else
      if length (ss_rows s) <? hi + M - 1 then Panic P_ROWS else run_guards r M s lo hi resized kernel
  | GResize :: r => run_guards r M s lo hi true kernel
  end.

Definition vk_score_rows (k : vkernel) (C : nat) (dm : list (list Z)) (pads : nat -> list Z) (s : sseq) (lo hi : nat)
  : res (sscores Z) :=
  run_guards (vk_guards k) (length dm) s lo hi false (fun _ => vk_kernel k C dm pads s lo hi).

(* ---------- the dispatcher ---------- *)

(* enum Dispatch (all variants; Neon exists on Arm hosts only, Sse2 / Avx2 on x86 hosts only) *)
Inductive arm4 : Type := D4Generic | D4Sse2 | D4Avx2 | D4Neon.

(* what an arm of `Score<u8, Dna, _> for Pipeline<Dna, Dispatch>` calls *)
Inductive u8_kernel_id : Type := UKGeneric | UKAvx2Shuffle | UKNeon.

Definition run_u8_kernel (kavx kneon : vkernel) (id : u8_kernel_id) (C : nat) (dm : list (list Z)) (pads : nat -> list Z)
           (s : sseq) (lo hi : nat) : res (sscores Z) :=
  match id with
  | UKGeneric => score_rows_generic sat_add 0%Z C dm s lo hi
  | UKAvx2Shuffle => vk_score_rows kavx C dm pads s lo hi
  | UKNeon => vk_score_rows kneon C dm pads s lo hi
  end.

Definition arm4_of (a : arm) : arm4 :=
  match a with AGeneric => D4Generic | ASse2 => D4Sse2 | AAvx2 => D4Avx2 end.
