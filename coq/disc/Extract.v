(* Extraction of the executable discretisation / u8 kernel model (property C08).
   Only ExtrOcamlBasic: nat, Z, positive stay the extracted inductive types.
   Depends on the model file only, so that it still extracts when a proof breaks. *)
From Coq Require Import List ZArith Extraction ExtrOcamlBasic.
From LMBase Require Import Res ListX IEEE.
From LMDisc Require Import DiscModel DiscSkel GenDiscSkel DiscImplCheck DiscU8Kernel GenDiscU8 DiscHistory.

Definition f_of_bits : Z -> F32.t := F32.of_bits.
Definition f_to_bits : F32.t -> Z := F32.to_bits.
Definition f_is_finite : F32.t -> bool := F32.is_finite.
(* the discretisation functions the driver runs are built from the GENERATED statement skeleton (GenDiscSkel.v);
   C08_skeleton_as_modelled: they are the functions of DiscModel.v *)
Definition f_to_discrete := @skp_to_discrete F32.t f32_ops gen_skel.
Definition f_min_score := @min_score F32.t f32_ops.
Definition f_max_score := @max_score F32.t f32_ops.
Definition f_scale_with := @skp_scale_with F32.t f32_ops gen_skel.
Definition f_unscale_with := @skp_unscale_with F32.t f32_ops gen_skel.
Definition f_real_score := @real_score F32.t f32_ops.
Definition f_first_bad := @first_bad F32.t f32_ops.
Definition f_check_C08 := @check_C08 F32.t f32_ops.
Definition f_first_bad_impl := @first_bad_impl F32.t f32_ops.
Definition f_check_C08_impl := @check_C08_impl F32.t f32_ops.
Definition f_d_data := @d_data F32.t.
Definition f_d_factor := @d_factor F32.t.
Definition f_d_offsets := @d_offsets F32.t.
Definition f_d_offset := @d_offset F32.t.
Definition sk_disc_score := skp_disc_score gen_skel.
Definition z_sc_rows := @sc_rows Z.
Definition z_sc_max := @sc_max Z.
Definition z_sc_index := @sc_index Z.

Extraction Language OCaml.
Extraction "disc_model.ml"
  f_of_bits f_to_bits f_is_finite f_to_discrete f_min_score f_max_score f_scale_with f_unscale_with
  f_real_score f_first_bad f_check_C08 f_first_bad_impl f_check_C08_impl f32_le f_d_data f_d_factor f_d_offsets f_d_offset
  z_sc_rows z_sc_max z_sc_index
  disc_score sk_disc_score score_u8 score_rows_dispatch score_rows_avx2 striped configure_wrap_of
  well_conditioned cond_bound cond_A factor_sign_clear
  score_rows_generic sat_add vk_score_rows run_u8_kernel arm4_of
  gen_avx2_u8 gen_neon_u8 gen_dispatch_u8_x86 gen_dispatch_u8_arm gen_pipeline_u8
  u8_rows_into buf_empty buf_resize hstep hrun.
